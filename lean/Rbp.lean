-- Root of the `Rbp` library: model, spec, proofs and property theorems.
import Rbp.Model.Hex
import Rbp.Model.Script
import Rbp.Proofs.Wire
