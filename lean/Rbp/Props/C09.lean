import Rbp.Model.Merkle
import Rbp.Model.Run
import Rbp.Proofs.Faults
import Rbp.Proofs.RunSpec
import Rbp.Proofs.Prefix
import Rbp.Proofs.Vectors
/-!
# C09 — `--verify` accepts exactly the chains whose merkle roots and prev-hash links hold
-/
namespace Rbp.Props.C09
open M

/-- the loop of `utils::merkle_root` (hash full pairs; when the length is odd hash the last element with itself)
    computes the Bitcoin merkle root of the textbook recursion, for every list; it terminates, and fails only on `[]` -/
theorem merkle_eq_spec (H : Bytes → Bytes) (hs : List Bytes) : rootRust H hs = root H hs :=
  rootRust_eq H hs.length hs rfl

/-- one level as the Rust code writes it = one textbook level (odd levels duplicate their last hash) -/
theorem level_eq_spec (H : Bytes → Bytes) (hs : List Bytes) : levelRust H hs = level H hs := levelRust_eq H hs

/-- tampering is detected up to collisions: two *different* txid lists of the same length with the same merkle root
    give an explicit collision of the hash function (no injectivity assumed) -/
theorem tamper_gives_collision (H : Bytes → Bytes) (h32 : ∀ x, (H x).length = 32) (xs ys : List Bytes)
    (hlen : xs.length = ys.length) (hx : ∀ x ∈ xs, x.length = 32) (hy : ∀ y ∈ ys, y.length = 32) (hne : xs ≠ ys)
    (heq : rootRust H xs = rootRust H ys) (hsome : rootRust H xs ≠ none) : ∃ p q : Bytes, p ≠ q ∧ H p = H q := by
  rw [merkle_eq_spec, merkle_eq_spec] at heq
  rw [merkle_eq_spec] at hsome
  exact root_collision H h32 xs.length xs ys rfl hlen.symm hx hy hne heq hsome

/-- decision logic of `ChainStorage::verify`, stated outright: a block with at least one tx whose predecessor record is
    present is accepted iff its merkle root matches, and (height 0) it hashes to the coin's genesis hash or
    (height > 0) its prev-hash is the indexed hash of the preceding height -/
theorem verify_iff (coin : Run.Coin) (idx : List (Nat × Wk.Rec)) (b : Csv.RBlock) (h : Nat) (p : Wk.Rec)
    (hp : h > 0 → Run.lookup idx (h - 1) = some p) :
    (∃ u, Run.verifyBlock coin idx b h = .ok u) ↔
      (rootRust A.sha256d (Run.txids b) = some b.header.merkle ∧
       (h = 0 → Run.blockHash b = coin.genesis) ∧ (h > 0 → b.header.prev = p.hash)) := by
  unfold Run.verifyBlock
  cases hr : rootRust A.sha256d (Run.txids b) with
  | none => simp
  | some r =>
    by_cases hm : r = b.header.merkle
    · by_cases h0 : h = 0
      · subst h0
        by_cases hg : Run.blockHash b = coin.genesis <;> simp [hm, hg]
      · have hpos : h > 0 := Nat.pos_of_ne_zero h0
        simp only [hm, ne_eq, not_true_eq_false, if_false, h0, hp hpos]
        by_cases hq : b.header.prev = p.hash <;> simp [hq, hpos]
    · simp [hm]

/-- **a rejected block ends the run.**  With `--verify`, if heights `start..k-1` are served and accepted and the block read at
    height `k` is rejected (`verifyBlock` returns an error: merkle root, genesis hash or prev-hash), the process exits 1,
    reports height `k` and that error, and no final-named output exists -/
theorem rejected_no_final (o : Run.Opts) (key : Option W.Bytes) (kvs : List (W.Bytes × W.Bytes)) (files : List Run.BlkFile)
    (coin : Run.Coin) (ld : Run.Loaded) (hcoin : Run.coinOf o.coin = some coin) (hld : Run.loadIndex o kvs = .ok ld)
    (hfiles : (files.filterMap fun f => (Run.parseBlkIndex f.name).map fun n => (n, f)) ≠ [])
    (hkey : key ≠ some []) (k : Nat) (m : String) (hk1 : o.start ≤ k) (hk2 : k ≤ ld.maxH) (hv : o.verify = true)
    (r : Wk.Rec) (f : Run.BlkFile) (sz : Nat) (b : Csv.RBlock)
    (hl : Run.lookup ld.trimmed k = some r)
    (hfile : ((files.filterMap fun f => (Run.parseBlkIndex f.name).map fun n => (n, f)).find? (·.1 == r.file)).map (·.2) = some f)
    (hread : Run.readAt coin key f r.off = .ok (sz, b)) (hrej : Run.verifyBlock coin ld.trimmed b k = .err m)
    (hs : ∀ j, o.start ≤ j → j < k →
      Run.Servable coin o key (files.filterMap fun f => (Run.parseBlkIndex f.name).map fun n => (n, f)) ld.trimmed j) :
    (Run.run o key kvs files).exit = 1 ∧ (Run.run o key kvs files).errHeight = some k ∧ (Run.run o key kvs files).msg = m ∧
    (Run.run o key kvs files).files = [] := by
  have := Run.run_fails_at o key kvs files coin ld hcoin hld hfiles hkey k m hk1 hk2
    ⟨r, hl, Or.inr ⟨f, hfile, Or.inr ⟨sz, b, hread, hv, hrej⟩⟩⟩ hs
  exact ⟨this.1, this.2.1, this.2.2.1, this.2.2.2.1⟩

/-- in a range `[s, s+n)`, either a predicate holds everywhere or there is a first place where it fails -/
theorem first_failure (P : Nat → Prop) (s : Nat) : ∀ n, (∀ k, s ≤ k → k < s + n → P k) ∨
    ∃ k, s ≤ k ∧ k < s + n ∧ ¬ P k ∧ ∀ j, s ≤ j → j < k → P j := by
  intro n
  induction n with
  | zero => left; intro k h1 h2; omega
  | succ n ih =>
    rcases ih with h | ⟨k, h1, h2, h3, h4⟩
    · by_cases hp : P (s + n)
      · left
        intro k h1 h2
        by_cases e : k = s + n
        · subst e; exact hp
        · exact h k h1 (by omega)
      · right
        exact ⟨s + n, by omega, by omega, hp, fun j hj1 hj2 => h j hj1 hj2⟩
    · right; exact ⟨k, h1, by omega, h3, h4⟩

/-- **`--verify` decides exactly the stated conditions, for the whole run.**  For a chain all of whose blocks in the range can
    be read (`Run.Stored`) and on which verification never panics (every block has a transaction and the record of its
    predecessor is present), a `--verify` run of csvdump succeeds iff EVERY processed block is accepted by `verifyBlock` —
    which by `verify_iff` means: merkle root matches, height 0 hashes to the genesis hash, prev-hash equals the indexed hash of
    the preceding height.  When some block is rejected the run exits 1 at the first such height and no final-named file exists -/
theorem verify_run_decides (o : Run.Opts) (key : Option W.Bytes) (kvs : List (W.Bytes × W.Bytes)) (files : List Run.BlkFile)
    (coin : Run.Coin) (ld : Run.Loaded) (hcoin : Run.coinOf o.coin = some coin) (hld : Run.loadIndex o kvs = .ok ld)
    (hkey : key ≠ some []) (sz : Nat → Nat) (blk : Nat → W.Block)
    (hst : ∀ k, o.start ≤ k → k < o.start + (ld.maxH + 1 - o.start) →
      Run.Stored coin key (files.filterMap fun f => (Run.parseBlkIndex f.name).map fun n => (n, f)) ld.trimmed k (sz k) (blk k))
    (hnp : ∀ k, o.start ≤ k → k < o.start + (ld.maxH + 1 - o.start) → ∀ m, Run.verifyBlock coin ld.trimmed (blk k).toR k ≠ .panic m)
    (hne : o.start ≤ ld.maxH) (hv : o.verify = true) (hcb : o.callback = "csvdump") :
    ((Run.run o key kvs files).exit = 0 ↔
      ∀ k, o.start ≤ k → k < o.start + (ld.maxH + 1 - o.start) → Run.verifyBlock coin ld.trimmed (blk k).toR k = .ok ()) ∧
    ((Run.run o key kvs files).exit ≠ 0 → (Run.run o key kvs files).files = []) := by
  have hfiles : (files.filterMap fun f => (Run.parseBlkIndex f.name).map fun n => (n, f)) ≠ [] := by
    obtain ⟨r, f, _, _, hf, _⟩ := hst o.start (Nat.le_refl _) (by omega)
    intro e; rw [e] at hf; simp at hf
  rcases first_failure (fun k => Run.verifyBlock coin ld.trimmed (blk k).toR k = .ok ()) o.start (ld.maxH + 1 - o.start) with hall | ⟨k, hk1, hk2, hbad, hpre⟩
  · -- every block accepted: the run completes
    obtain ⟨h0, _⟩ := Run.run_stored o key kvs files coin ld hcoin hld hkey sz blk
      (fun k h1 h2 => ⟨hst k h1 h2, fun _ => hall k h1 h2⟩) hne (by simp [Run.callbackPanics, hcb])
    exact ⟨⟨fun _ => hall, fun _ => h0⟩, fun hx => absurd h0 hx⟩
  · -- first rejected block
    obtain ⟨r, f, hl, hf, hread⟩ := Run.stored_readAt coin key _ ld.trimmed k (sz k) (blk k) (hst k hk1 hk2)
    have herr : ∃ m, Run.verifyBlock coin ld.trimmed (blk k).toR k = .err m := by
      cases hvb : Run.verifyBlock coin ld.trimmed (blk k).toR k with
      | ok u => exact absurd hvb hbad
      | err m => exact ⟨m, rfl⟩
      | panic m => exact absurd hvb (hnp k hk1 hk2 m)
    obtain ⟨m, hm⟩ := herr
    have hs : ∀ j, o.start ≤ j → j < k →
        Run.Servable coin o key (files.filterMap fun f => (Run.parseBlkIndex f.name).map fun n => (n, f)) ld.trimmed j := by
      intro j hj1 hj2
      obtain ⟨r', f', hl', hf', hread'⟩ := Run.stored_readAt coin key _ ld.trimmed j (sz j) (blk j) (hst j hj1 (by omega))
      exact ⟨r', f', sz j, (blk j).toR, hl', hf', hread', fun _ => hpre j hj1 hj2⟩
    obtain ⟨he, _, _, hfl⟩ := rejected_no_final o key kvs files coin ld hcoin hld hfiles hkey k m hk1 (by omega) hv r f (sz k) (blk k).toR hl hf hread hm hs
    refine ⟨⟨fun h0 => (by rw [he] at h0; omega), fun hall => absurd (hall k hk1 hk2) hbad⟩, fun _ => hfl⟩

/-- **`--verify`, for every input: what was delivered had been accepted.**  No hypothesis on the data directory: under
    `--verify`, every block that reaches a callback — in a run that later fails as well as in one that completes — satisfied
    `verifyBlock` at its height, i.e. (by `verify_iff`) its merkle root matches, at height 0 it hashes to the genesis hash, above 0
    its prev-hash is the indexed hash of the preceding height.  With `verify_run_decides` (every block accepted ⇒ exit 0 on a readable
    chain) this is the `if and only if` of the property -/
theorem verified_run_only_delivers_accepted_blocks (o : Run.Opts) (key : Option W.Bytes) (kvs : List (W.Bytes × W.Bytes)) (files : List Run.BlkFile)
    (coin : Run.Coin) (ld : Run.Loaded) (hcoin : Run.coinOf o.coin = some coin) (hld : Run.loadIndex o kvs = .ok ld) (hv : o.verify = true) :
    ∀ b ∈ Run.deliveredBlocks o key kvs files, Run.verifyBlock coin ld.trimmed b.blk b.height = .ok () :=
  Run.run_exit0_all_verified o key kvs files coin ld hcoin hld hv

/-- genesis hashes compiled into the binary built from the working tree = the published ones -/
theorem genesis_table_published :
    Generated.coins.map (fun c => (c.cli, c.genesis)) =
      [("bitcoin", "000000000019d6689c085ae165831e934ff763ae46a2a6c172b3f1b60a8ce26f"),
       ("testnet3", "000000000933ea01ad0ee984209779baaec3ced90fa3f408719526f8d77f4943"),
       ("namecoin", "000000000062b72c5e2ceb45fbc8587e807c155b0da735e6483dfba2f0a9c770"),
       ("litecoin", "12a765e31ffd4059bada1e25190f6e98c99d9714d334efa41a195a7e7e04bfe2"),
       ("dogecoin", "1a91e3dace36e2be3bf030a65679fe821aa1d6ef92e7c9902eb318182c355691"),
       ("myriadcoin", "00000ffde4c020b5938441a0ea3d314bf619eff0b38f32f78f7583cffa1ea485"),
       ("unobtanium", "000004c2fc5fffb810dccc197d603690099a68305232e552d96ccbe8e2c52b75"),
       ("noteblockchain", "270f3e7b185c412d57ba913d10658df54f15201a67d736cb4071a4ec4eb54836")] := by
  decide


/-- a published vector (a test, not the unbounded claim): the model's double SHA-256 of the real Bitcoin genesis header is the hash
    the coin table publishes, evaluated by the kernel -/
theorem genesis_header_hashes_to_published_hash :
    Sha.hex (A.sha256d (Vec.bytes "0100000000000000000000000000000000000000000000000000000000000000000000003ba3edfd7a7b12b27ac72c3e67768f617fc81bc3888a51323a9fb8aa4b1e5e4a29ab5f49ffff001d1dac2b7c")).reverse =
      "000000000019d6689c085ae165831e934ff763ae46a2a6c172b3f1b60a8ce26f" :=
  Vec.bitcoin_genesis.1

end Rbp.Props.C09
