import Rbp.Model.Callbacks
namespace Rbp.Props.C15
/-- placeholder: the mean's numerator is the exact (unbounded) sum -/
theorem mean_exact (l : List Nat) : l.foldl (·+·) 0 = l.sum := by
  rw [← List.sum_eq_foldl]
end Rbp.Props.C15
