import Rbp.Proofs.Stats
import Rbp.Proofs.RunSpec
import Rbp.Proofs.F64
import Rbp.Generated.Consts
import Rbp.Props.C10
/-!
# C15 — every simplestats figure equals an independent recomputation over the range
Integer figures are proved equal to closed expressions over the delivered block list; means are exact rationals
`numerator / count` in the model; the printed text of every floating-point figure is modelled exactly (`Rbp/Model/F64.lean`:
correctly rounded binary64 conversion, division and multiplication, `{:.k}` rounding half-to-even of the exact binary value) and
proved to be within half a unit of the last printed digit plus at most four rounding errors of 2^-53 of the exact quotient.
-/
namespace Rbp.Props.C15
open CB

/-- counts, volume and fees: block, transaction, input and output counts, total volume (sum of all output values) and total
    fees are the plain sums of their per-block definitions over the delivered blocks, and the block-size list is the list of
    stored length prefixes in chain order -/
theorem counts_volume_fees_spec (ver : UInt8) (bs : List EBlock) :
    let r := bs.foldl (statsBlock ver) {}
    r.blocks = bs.length ∧ r.txs = (bs.map (·.blk.txCount.value)).sum ∧
    r.fees = (bs.map blockFees).sum ∧ r.ins = (bs.map blockIns).sum ∧
    r.outs = (bs.map blockOuts).sum ∧ r.volume = (bs.map blockVolume).sum ∧
    r.sizes = bs.map (·.size) := by
  have := stats_fold ver bs {}
  simpa using this

/-- the fee of a coinbase is its first-output value above the subsidy, floored at zero; other transactions contribute none -/
theorem fee_rule (height : Nat) (t : W.RTx) :
    txFee height t = if isCoinbase t then (match t.outs with | o :: _ => o.value - reward height | [] => 0) else 0 := rfl

/-- the subsidy is 50 coins halved every 210000 heights -/
theorem reward_halving (height : Nat) : reward height = 5000000000 / 2 ^ (height / 210000) := by
  simp [reward, Nat.shiftRight_eq_div_pow]

/-- the subsidy rule in the SOURCE TEXT of `block.rs` (re-read on every run) is 50 coins halved every 210000 heights, and it
    is the rule the model's fee figure uses -/
theorem reward_constants_published (height : Nat) :
    Generated.rewardBase = 5000000000 ∧ Generated.halvingInterval = 210000 ∧
    reward height = Generated.rewardBase >>> (height / Generated.halvingInterval) := by
  refine ⟨by decide, by decide, rfl⟩

/-- the mean's numerator is the exact sum of the listed values and its denominator their number (no 32-bit wrap-around) -/
theorem mean_exact (ver : UInt8) (bs : List EBlock) :
    ((bs.foldl (statsBlock ver) {}).sizes.foldl (·+·) 0 = (bs.map (·.size)).sum) ∧
    (bs.foldl (statsBlock ver) {}).sizes.length = bs.length := by
  have h := (counts_volume_fees_spec ver bs).2.2.2.2.2.2
  rw [h]
  constructor
  · rw [List.sum_eq_foldl]
  · simp

/-- biggest transaction by value / by size: replaced only on a strictly greater value, so the first one wins on ties -/
theorem biggest_first_on_ties (ver : UInt8) (height : Nat) (s : Stats) (t : W.RTx) :
    (txVolume t ≤ s.bigVal.1 → (statsTx ver height s t).bigVal = s.bigVal) ∧
    (txVolume t > s.bigVal.1 → (statsTx ver height s t).bigVal = (txVolume t, height, txid t)) ∧
    (t.toBytes.length ≤ s.bigSize.1 → (statsTx ver height s t).bigSize = s.bigSize) ∧
    (t.toBytes.length > s.bigSize.1 → (statsTx ver height s t).bigSize = (t.toBytes.length, height, txid t)) := by
  refine ⟨?_, ?_, ?_, ?_⟩ <;> intro h <;> simp [statsTx] <;> omega

/-- time between consecutive blocks: clamped at zero (non-monotonic timestamps), skipped for the first block -/
theorem time_gap_rule (ver : UInt8) (s : Stats) (b : EBlock) :
    (statsBlock ver s b).gaps = (if s.lastTs > 0 then s.gaps ++ [b.blk.header.time - s.lastTs] else s.gaps) ∧
    (statsBlock ver s b).lastTs = b.blk.header.time :=
  ⟨(statsBlock_step ver s b).2.2.2.2.2.2.2.2, (statsBlock_step ver s b).2.2.2.2.2.2.2.1⟩

/-- per script type: the table the report prints holds, for every type name, the number of outputs of that type in the
    delivered range and the height / txid of the FIRST such output (chain order: blocks, transactions, outputs); a type that
    never occurs has no row.  (The share printed next to it is count / total outputs — a quotient of two proved integers.) -/
theorem type_table_spec (ver : UInt8) (bs : List EBlock) (n : String) :
    lookupT n (bs.foldl (statsBlock ver) {}).types =
      ((typeEvents ver bs).find? (·.1 == n)).map fun f => (n, ((typeEvents ver bs).filter (·.1 == n)).length, f.2.1, f.2.2) := by
  rw [stats_types, bumpAll_lookup]
  rfl

/-- **whole run.**  For a stored chain, `simplestats` — when none of its own u64 sums overflows and every coinbase-shaped
    transaction has an output (`statsPanics`) — exits 0 and reports exactly the accumulator of the theorems above folded
    over the delivered blocks -/
theorem simplestats_run_spec (o : Run.Opts) (key : Option W.Bytes) (kvs : List (W.Bytes × W.Bytes)) (files : List Run.BlkFile)
    (coin : Run.Coin) (ld : Run.Loaded) (hcoin : Run.coinOf o.coin = some coin) (hld : Run.loadIndex o kvs = .ok ld)
    (hkey : key ≠ some []) (sz : Nat → Nat) (blk : Nat → W.Block)
    (hs : ∀ k, o.start ≤ k → k < o.start + (ld.maxH + 1 - o.start) →
      Run.Stored coin key (files.filterMap fun f => (Run.parseBlkIndex f.name).map fun n => (n, f)) ld.trimmed k (sz k) (blk k) ∧
      (o.verify = true → Run.verifyBlock coin ld.trimmed (blk k).toR k = .ok ()))
    (hne : o.start ≤ ld.maxH) (hcb : o.callback = "simplestats")
    (hnp : statsPanics coin.version
      ((List.range' o.start (ld.maxH + 1 - o.start)).map (fun k => (⟨k, sz k, (blk k).toR⟩ : EBlock))) = false) :
    (Run.run o key kvs files).exit = 0 ∧
    (Run.run o key kvs files).stdout = statsLines
      (((List.range' o.start (ld.maxH + 1 - o.start)).map (fun k => (⟨k, sz k, (blk k).toR⟩ : EBlock))).foldl
        (statsBlock coin.version) {}) := by
  obtain ⟨h0, _, _, ho⟩ := Run.run_stored o key kvs files coin ld hcoin hld hkey sz blk hs hne
    (by simp only [Run.callbackPanics, hcb]; exact hnp)
  refine ⟨h0, ?_⟩
  rw [ho]; simp only [Run.callbackOut, hcb]

/-! ## the floating-point figures, as printed -/

/-- the figures of the report are these functions of the integer accumulators (the text the check compares character for
    character with the real report) -/
theorem figures_of_accumulators (s : Stats) :
    figureLines s =
      [s!"f_fees={F64.coins s.fees}", s!"f_volume={F64.coins s.volume}", s!"f_bigval={F64.coins s.bigVal.1}",
       s!"f_avg_size={F64.meanOver (s.sizes.foldl (·+·) 0) s.sizes.length 1024}",
       s!"f_avg_time={F64.meanOver (s.gaps.foldl (·+·) 0) s.gaps.length 60}",
       s!"f_avg_txs={F64.ratio s.txs s.blocks}", s!"f_avg_ins={F64.ratio s.ins s.txs}", s!"f_avg_outs={F64.ratio s.outs s.txs}",
       s!"f_avg_value={F64.valuePerOutput s.volume s.outs}"] ++
      s.types.map fun (n, c, _, _) => s!"share {n} {F64.share c s.outs}" := rfl

/-- **binary64 operations round to nearest.**  For every positive fraction `n / d` (the exact result of a conversion, a
    division or a multiplication of non-negative doubles) the model's result is a finite double whose value differs from
    `n / d` by at most `(n / d) / 2^53`; the 53-bit significand is chosen by `rhe`: a nearest integer, the even one on a tie -/
theorem float_round_to_nearest (n d : Nat) (hn : 0 < n) (hd : 0 < d) :
    ∃ N D, F64.rn n d = .fin N D ∧ 0 < D ∧
      (N : Rat) / D ≤ (n : Rat) / d + (n : Rat) / d / 2 ^ 53 ∧ (n : Rat) / d ≤ (N : Rat) / D + (n : Rat) / d / 2 ^ 53 :=
  F64.rn_close n d hn hd

theorem float_ties_to_even (a b : Nat) (hb : 0 < b) :
    (2 * a ≤ (2 * F64.rhe a b + 1) * b ∧ 2 * F64.rhe a b * b ≤ 2 * a + b) ∧ (2 * (a % b) = b → F64.rhe a b % 2 = 0) :=
  ⟨F64.rhe_near a b hb, F64.rhe_tie_even a b⟩

/-- **`{:.k}` prints the nearest k-digit decimal of the exact binary value** -/
theorem printed_is_nearest_decimal (k N D : Nat) (hD : 0 < D) :
    ((F64.digits k (.fin N D) : Nat) : Rat) / 10 ^ k ≤ (N : Rat) / D + 1 / (2 * 10 ^ k) ∧
    (N : Rat) / D ≤ ((F64.digits k (.fin N D) : Nat) : Rat) / 10 ^ k + 1 / (2 * 10 ^ k) :=
  F64.fmt_close k N D hD

/-- **each printed mean equals its exact definition up to rounding — for every `u64` accumulator.**  For all naturals (any
    magnitude; the code's values are `u64`) and non-zero denominators, the number printed for each floating-point figure —
    `shown k v`, the digits of `fmt k v` read as a decimal — satisfies `|shown − E| ≤ 1/(2·10^k) + K·E/2^53`, where `E` is the
    exact rational the property defines (`a/b`, `sum/len/c`, `x·10^-8`, `count/outs·100`, `vol/outs·10^-8`) and `K ≤ 10` bounds
    the accumulated effect of the correctly rounded operations in the code's expression (two conversions, the division(s) /
    multiplication(s), the inexact literal `1E-8`).  With accumulators below 2^53 the conversions are exact and `K ≤ 4`
    (`printed_figures_close_small`) -/
theorem printed_figures_close :
    (∀ a b : Nat, 0 < b → ∃ v, v.Fin ∧ F64.ratio a b = F64.fmt 2 v ∧ F64.Shows 2 6 v ((a : Rat) / b)) ∧
    (∀ sum len c : Nat, 0 < len → 0 < c → c < 2 ^ 53 →
      ∃ v, v.Fin ∧ F64.meanOver sum len c = F64.fmt 2 v ∧ F64.Shows 2 8 v ((sum : Rat) / len / c)) ∧
    (∀ x : Nat, ∃ v, v.Fin ∧ F64.coins x = F64.fmt 8 v ∧ F64.Shows 8 5 v ((x : Rat) * (1 / 10 ^ 8))) ∧
    (∀ count outs : Nat, 0 < outs →
      ∃ v, v.Fin ∧ F64.share count outs = F64.fmt 2 v ∧ F64.Shows 2 8 v ((count : Rat) / outs * 100)) ∧
    (∀ vol outs : Nat, 0 < outs →
      ∃ v, v.Fin ∧ F64.valuePerOutput vol outs = F64.fmt 2 v ∧ F64.Shows 2 10 v ((vol : Rat) / outs * (1 / 10 ^ 8))) :=
  ⟨F64.ratio_shows_any, F64.meanOver_shows_any, F64.coins_shows_any, F64.share_shows_any, F64.valuePerOutput_shows_any⟩

theorem printed_figures_close_small :
    (∀ a b : Nat, a < 2 ^ 53 → 0 < b → b < 2 ^ 53 →
      ∃ v, v.Fin ∧ F64.ratio a b = F64.fmt 2 v ∧ F64.Shows 2 1 v ((a : Rat) / b)) ∧
    (∀ sum len c : Nat, sum < 2 ^ 53 → 0 < len → len < 2 ^ 53 → 0 < c → c < 2 ^ 53 →
      ∃ v, v.Fin ∧ F64.meanOver sum len c = F64.fmt 2 v ∧ F64.Shows 2 3 v ((sum : Rat) / len / c)) ∧
    (∀ x : Nat, x < 2 ^ 53 → ∃ v, v.Fin ∧ F64.coins x = F64.fmt 8 v ∧ F64.Shows 8 3 v ((x : Rat) * (1 / 10 ^ 8))) ∧
    (∀ count outs : Nat, count < 2 ^ 53 → 0 < outs → outs < 2 ^ 53 →
      ∃ v, v.Fin ∧ F64.share count outs = F64.fmt 2 v ∧ F64.Shows 2 3 v ((count : Rat) / outs * 100)) ∧
    (∀ vol outs : Nat, vol < 2 ^ 53 → 0 < outs → outs < 2 ^ 53 →
      ∃ v, v.Fin ∧ F64.valuePerOutput vol outs = F64.fmt 2 v ∧ F64.Shows 2 4 v ((vol : Rat) / outs * (1 / 10 ^ 8))) :=
  ⟨F64.ratio_shows, F64.meanOver_shows, F64.coins_shows, F64.share_shows, F64.valuePerOutput_shows⟩

/-- non-vacuity / tests of the float model on literals: 1/8 and 3/8 print as ties to even, 1e-8 is inexact, 0/0 is NaN -/
example : F64.ratio 1 8 = "0.12" ∧ F64.ratio 3 8 = "0.38" ∧ F64.ratio 0 0 = "NaN" ∧ F64.ratio 5 0 = "inf" ∧
    F64.coins 18446744073709551615 = "184467440737.09552002" ∧ F64.share 3 7 = "42.86" := by
  refine ⟨?_, ?_, ?_, ?_, ?_, ?_⟩ <;> simp +decide [F64.ratio, F64.coins, F64.share, F64.fmt, F64.div, F64.mul, F64.ofNat, F64.rn, F64.c1em8, F64.upN, F64.downN, F64.rhe, F64.padLeft]

/-- **every input.**  Whenever a `simplestats` run exits 0, the report is `statsLines` of the accumulator folded over exactly the
    delivered blocks (integer figures by the theorems above, floating-point figures by `figures_of_accumulators`) -/
theorem exit0_report_is_fold_over_delivered (o : Run.Opts) (key : Option W.Bytes) (kvs : List (W.Bytes × W.Bytes)) (files : List Run.BlkFile)
    (coin : Run.Coin) (hcoin : Run.coinOf o.coin = some coin) (hcb : o.callback = "simplestats")
    (h0 : (Run.run o key kvs files).exit = 0) :
    (Run.run o key kvs files).stdout = statsLines ((Run.deliveredBlocks o key kvs files).foldl (statsBlock coin.version) {}) := by
  have := (Rbp.Props.C10.exit0_output_is_callback_over_delivered o key kvs files coin hcoin h0).2
  rw [this]
  simp [Run.callbackOut, hcb]

/-- non-vacuity: sizes whose sum exceeds 2^32 are summed exactly -/
example : ([0x90000000, 0x90000000, 0x90000000] : List Nat).sum = 7247757312 ∧ 7247757312 > 2^32 := by decide

end Rbp.Props.C15
