import Rbp.Proofs.Stats
import Rbp.Proofs.RunSpec
import Rbp.Generated.Consts
/-!
# C15 — every simplestats figure equals an independent recomputation over the range
Integer figures are proved equal to closed expressions over the delivered block list; means are exact rationals
`numerator / count` in the model (float rendering is not modelled: the check compares within half a unit of the printed precision).
-/
namespace Rbp.Props.C15
open CB

/-- counts, volume and fees: block, transaction, input and output counts, total volume (sum of all output values) and total
    fees are the plain sums of their per-block definitions over the delivered blocks, and the block-size list is the list of
    stored length prefixes in chain order -/
theorem counts_volume_fees_spec (ver : UInt8) (bs : List EBlock) :
    let r := bs.foldl (statsBlock ver) {}
    r.blocks = bs.length ∧ r.txs = (bs.map (·.blk.txCount.value)).sum ∧
    r.fees = (bs.map blockFees).sum ∧ r.ins = (bs.map blockIns).sum ∧
    r.outs = (bs.map blockOuts).sum ∧ r.volume = (bs.map blockVolume).sum ∧
    r.sizes = bs.map (·.size) := by
  have := stats_fold ver bs {}
  simpa using this

/-- the fee of a coinbase is its first-output value above the subsidy, floored at zero; other transactions contribute none -/
theorem fee_rule (height : Nat) (t : W.RTx) :
    txFee height t = if isCoinbase t then (match t.outs with | o :: _ => o.value - reward height | [] => 0) else 0 := rfl

/-- the subsidy is 50 coins halved every 210000 heights -/
theorem reward_halving (height : Nat) : reward height = 5000000000 / 2 ^ (height / 210000) := by
  simp [reward, Nat.shiftRight_eq_div_pow]

/-- the subsidy rule in the SOURCE TEXT of `block.rs` (re-read on every run) is 50 coins halved every 210000 heights, and it
    is the rule the model's fee figure uses -/
theorem reward_constants_published (height : Nat) :
    Generated.rewardBase = 5000000000 ∧ Generated.halvingInterval = 210000 ∧
    reward height = Generated.rewardBase >>> (height / Generated.halvingInterval) := by
  refine ⟨by decide, by decide, rfl⟩

/-- the mean's numerator is the exact sum of the listed values and its denominator their number (no 32-bit wrap-around) -/
theorem mean_exact (ver : UInt8) (bs : List EBlock) :
    ((bs.foldl (statsBlock ver) {}).sizes.foldl (·+·) 0 = (bs.map (·.size)).sum) ∧
    (bs.foldl (statsBlock ver) {}).sizes.length = bs.length := by
  have h := (counts_volume_fees_spec ver bs).2.2.2.2.2.2
  rw [h]
  constructor
  · rw [List.sum_eq_foldl]
  · simp

/-- biggest transaction by value / by size: replaced only on a strictly greater value, so the first one wins on ties -/
theorem biggest_first_on_ties (ver : UInt8) (height : Nat) (s : Stats) (t : W.RTx) :
    (txVolume t ≤ s.bigVal.1 → (statsTx ver height s t).bigVal = s.bigVal) ∧
    (txVolume t > s.bigVal.1 → (statsTx ver height s t).bigVal = (txVolume t, height, txid t)) ∧
    (t.toBytes.length ≤ s.bigSize.1 → (statsTx ver height s t).bigSize = s.bigSize) ∧
    (t.toBytes.length > s.bigSize.1 → (statsTx ver height s t).bigSize = (t.toBytes.length, height, txid t)) := by
  refine ⟨?_, ?_, ?_, ?_⟩ <;> intro h <;> simp [statsTx] <;> omega

/-- time between consecutive blocks: clamped at zero (non-monotonic timestamps), skipped for the first block -/
theorem time_gap_rule (ver : UInt8) (s : Stats) (b : EBlock) :
    (statsBlock ver s b).gaps = (if s.lastTs > 0 then s.gaps ++ [b.blk.header.time - s.lastTs] else s.gaps) ∧
    (statsBlock ver s b).lastTs = b.blk.header.time :=
  ⟨(statsBlock_step ver s b).2.2.2.2.2.2.2.2, (statsBlock_step ver s b).2.2.2.2.2.2.2.1⟩

/-- per script type: the table the report prints holds, for every type name, the number of outputs of that type in the
    delivered range and the height / txid of the FIRST such output (chain order: blocks, transactions, outputs); a type that
    never occurs has no row.  (The share printed next to it is count / total outputs — a quotient of two proved integers.) -/
theorem type_table_spec (ver : UInt8) (bs : List EBlock) (n : String) :
    lookupT n (bs.foldl (statsBlock ver) {}).types =
      ((typeEvents ver bs).find? (·.1 == n)).map fun f => (n, ((typeEvents ver bs).filter (·.1 == n)).length, f.2.1, f.2.2) := by
  rw [stats_types, bumpAll_lookup]
  rfl

/-- **whole run.**  For a stored chain, `simplestats` — when none of its own u64 sums overflows and every coinbase-shaped
    transaction has an output (`statsPanics`) — exits 0 and reports exactly the accumulator of the theorems above folded
    over the delivered blocks -/
theorem simplestats_run_spec (o : Run.Opts) (key : Option W.Bytes) (kvs : List (W.Bytes × W.Bytes)) (files : List Run.BlkFile)
    (coin : Run.Coin) (ld : Run.Loaded) (hcoin : Run.coinOf o.coin = some coin) (hld : Run.loadIndex o kvs = .ok ld)
    (hkey : key ≠ some []) (sz : Nat → Nat) (blk : Nat → W.Block)
    (hs : ∀ k, o.start ≤ k → k < o.start + (ld.maxH + 1 - o.start) →
      Run.Stored coin key (files.filterMap fun f => (Run.parseBlkIndex f.name).map fun n => (n, f)) ld.trimmed k (sz k) (blk k) ∧
      (o.verify = true → Run.verifyBlock coin ld.trimmed (blk k).toR k = .ok ()))
    (hne : o.start ≤ ld.maxH) (hcb : o.callback = "simplestats")
    (hnp : statsPanics coin.version
      ((List.range' o.start (ld.maxH + 1 - o.start)).map (fun k => (⟨k, sz k, (blk k).toR⟩ : EBlock))) = false) :
    (Run.run o key kvs files).exit = 0 ∧
    (Run.run o key kvs files).stdout = statsLines
      (((List.range' o.start (ld.maxH + 1 - o.start)).map (fun k => (⟨k, sz k, (blk k).toR⟩ : EBlock))).foldl
        (statsBlock coin.version) {}) := by
  obtain ⟨h0, _, _, ho⟩ := Run.run_stored o key kvs files coin ld hcoin hld hkey sz blk hs hne
    (by simp only [Run.callbackPanics, hcb]; exact hnp)
  refine ⟨h0, ?_⟩
  rw [ho]; simp only [Run.callbackOut, hcb]

/-- non-vacuity: sizes whose sum exceeds 2^32 are summed exactly -/
example : ([0x90000000, 0x90000000, 0x90000000] : List Nat).sum = 7247757312 ∧ 7247757312 > 2^32 := by decide

end Rbp.Props.C15
