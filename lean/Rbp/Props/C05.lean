import Rbp.Proofs.Templates
import Rbp.Proofs.OpReturn
import Rbp.Proofs.Base58Check
import Rbp.Proofs.Bech32Decode
import Rbp.Proofs.Classify
import Rbp.Proofs.Multisig
import Rbp.Proofs.Vectors
/-!
# C05 — Bitcoin/testnet3: every output script gets the reference type and address
The rust-bitcoin predicates are modelled by hand in `S`; these theorems relate the model to byte templates.
-/
namespace Rbp.Props.C05
open S

/-- P2PKH predicate ⇔ byte template `76 a9 14 <20 bytes> 88 ac` -/
theorem p2pkh_iff_template (s : Bytes) :
    isP2pkh s = true ↔ ∃ h : Bytes, h.length = 20 ∧ s = [0x76, 0xa9, 0x14] ++ h ++ [0x88, 0xac] := isP2pkh_iff s

/-- P2SH predicate ⇔ byte template `a9 14 <20 bytes> 87` -/
theorem p2sh_iff_template (s : Bytes) :
    isP2sh s = true ↔ ∃ h : Bytes, h.length = 20 ∧ s = [0xa9, 0x14] ++ h ++ [0x87] := isP2sh_iff s

/-- the two templates are disjoint -/
theorem p2pkh_p2sh_disjoint (s : Bytes) : ¬ (isP2pkh s = true ∧ isP2sh s = true) := by
  rintro ⟨h1, h2⟩
  simp only [isP2pkh, isP2sh, decide_eq_true_eq] at h1 h2
  omega

/-- P2PK predicate ⇔ byte template `<0x21|0x41> <33- or 65-byte key> ac` -/
theorem p2pk_iff_template (s k : Bytes) :
    isP2pk s = some k ↔ (k.length = 33 ∨ k.length = 65) ∧ s = UInt8.ofNat k.length :: k ++ [0xac] := isP2pk_iff s k

/-- witness program predicate ⇔ byte template `<OP_0 | OP_1..OP_16> <len> <len bytes>` with 2 ≤ len ≤ 40 -/
theorem witness_iff_template (s : Bytes) (v : Nat) :
    witnessVersion s = some v ↔
      ∃ prog : Bytes, 2 ≤ prog.length ∧ prog.length ≤ 40 ∧ v ≤ 16 ∧
        s = (if v = 0 then 0x00 else UInt8.ofNat (0x50 + v)) :: UInt8.ofNat prog.length :: prog := witnessVersion_iff s v

/-- **every byte string gets the type of the one template it matches.**  For all scripts on both networks: the reported
    type is OP_RETURN iff the first byte is 0x6a; provably unspendable iff (otherwise) the first opcode is of class
    Return/Illegal; P2PK / P2PKH / P2SH iff the script is that byte template; P2WPKH / P2WSH / P2TR iff it is a witness
    program of version 0 with 20 / 32 bytes or version 1 with 32 bytes; WitnessProgram iff any other witness program;
    multisig iff the bare-multisig test holds — and these conditions are pairwise exclusive (each excludes everything the code
    tests before it: `p2pk_excl … multisig_excl`), so the verdict does not depend on the order of the tests in the code -/
theorem type_iff_template (testnet : Bool) (s : Bytes) :
    ((∃ p, (evalBtc testnet s).pattern = .opReturn p) ↔ s.head? = some 0x6a) ∧
    ((evalBtc testnet s).pattern = .unspendable ↔ (s.head? ≠ some 0x6a ∧ unspendableFirst s = true)) ∧
    ((evalBtc testnet s).pattern = .p2pk ↔ ∃ k, isP2pk s = some k) ∧
    ((evalBtc testnet s).pattern = .p2pkh ↔ isP2pkh s = true) ∧
    ((evalBtc testnet s).pattern = .p2sh ↔ isP2sh s = true) ∧
    ((evalBtc testnet s).pattern = .p2wpkh ↔ (s.length = 22 ∧ witnessVersion s = some 0)) ∧
    ((evalBtc testnet s).pattern = .p2wsh ↔ (s.length = 34 ∧ witnessVersion s = some 0)) ∧
    ((evalBtc testnet s).pattern = .p2tr ↔ (s.length = 34 ∧ witnessVersion s = some 1)) ∧
    ((evalBtc testnet s).pattern = .witnessProgram ↔
      ∃ v, witnessVersion s = some v ∧ ¬ (s.length = 22 ∧ v = 0) ∧ ¬ (s.length = 34 ∧ (v = 0 ∨ v = 1))) ∧
    ((evalBtc testnet s).pattern = .multisig ↔ isBareMultisig s = true) :=
  pattern_iff testnet s

/-- **bare m-of-n multisig ⇔ template.**  A script passes the bare-multisig test — hence (by `type_iff_template`) is typed
    Pay2MultiSig — exactly when it is `OP_m`, then `n` keys, then `OP_n OP_CHECKMULTISIG` with 1 ≤ m ≤ n ≤ 16 and nothing
    else, a key being any well-formed push (any length, any push form) or OP_0 (which the instruction iterator reports as an
    empty push) -/
theorem multisig_iff_template (s : Bytes) :
    isBareMultisig s = true ↔
      ∃ (m n : Nat) (ks : List T.Tok), 1 ≤ m ∧ m ≤ n ∧ n ≤ 16 ∧ ks.length = n ∧ (∀ k ∈ ks, k.WF ∧ IsKey k) ∧
        s = [UInt8.ofNat (0x50 + m)] ++ ks.flatMap T.Tok.enc ++ [UInt8.ofNat (0x50 + n), 0xae] :=
  bare_multisig_iff s

/-- non-vacuity: 1-of-1 with a 33-byte key -/
example : (T.Tok.push .direct (List.replicate 33 2)).WF := by simp [T.Tok.WF]

/-- the templates exclude one another (stated for the two that share a first byte: a witness program is never a multisig) -/
theorem witness_never_multisig (s : Bytes) (v : Nat) (h : witnessVersion s = some v) : isMultisigLib s = false :=
  witness_not_multisig s v h

/-- reference verdicts: type and address of every canonical template, both networks
    (P2PKH/P2SH: Base58Check of prefix ‖ embedded hash with prefixes 0x00/0x05, testnet 0x6f/0xc4;
     P2PK: the P2PKH form of HASH160(key); P2WPKH/P2WSH: Bech32 v0; P2TR: Bech32m v1, hrp bc/tb) -/
theorem template_verdicts (testnet : Bool) :
    (∀ h : Bytes, h.length = 20 → evalBtc testnet ([0x76, 0xa9, 0x14] ++ h ++ [0x88, 0xac]) = ⟨.p2pkh, some (A.base58check (pkPrefix testnet :: h))⟩) ∧
    (∀ h : Bytes, h.length = 20 → evalBtc testnet ([0xa9, 0x14] ++ h ++ [0x87]) = ⟨.p2sh, some (A.base58check (shPrefix testnet :: h))⟩) ∧
    (∀ k : Bytes, k.length = 33 ∨ k.length = 65 → evalBtc testnet (UInt8.ofNat k.length :: k ++ [0xac]) = ⟨.p2pk, some (A.base58check (pkPrefix testnet :: A.hash160 k))⟩) ∧
    (∀ h : Bytes, h.length = 20 → evalBtc testnet ([0x00, 0x14] ++ h) = ⟨.p2wpkh, some (A.segwitAddr (hrp testnet) 0 h)⟩) ∧
    (∀ h : Bytes, h.length = 32 → evalBtc testnet ([0x00, 0x20] ++ h) = ⟨.p2wsh, some (A.segwitAddr (hrp testnet) 0 h)⟩) ∧
    (∀ h : Bytes, h.length = 32 → evalBtc testnet ([0x51, 0x20] ++ h) = ⟨.p2tr, some (A.segwitAddr (hrp testnet) 1 h)⟩) :=
  ⟨eval_p2pkh testnet, eval_p2sh testnet, eval_p2pk testnet, eval_p2wpkh testnet, eval_p2wsh testnet, eval_p2tr testnet⟩

/-- **Base58Check addresses decode to their payload.**  What the executed encoder prints for a payload `p` (prefix byte ‖
    hash) is decoded by the reference decoder — alphabet lookup, base 58 → base 256 with leading zeros, last four bytes
    compared with the double-SHA256 of the rest — to exactly `p`: the checksum is valid, the prefix is the network's, the
    hash is the one embedded in the script -/
theorem base58check_decodes (p : Bytes) : A.base58checkDecode (A.base58check p) = some p :=
  A.base58checkDecode_base58check p

/-- **segwit addresses decode to their version and program.**  What the executed encoder prints for (hrp, version < 32,
    program) starts with `hrp ‖ "1"`, its checksum verifies with the constant of its version (Bech32 for 0, Bech32m for 1..16)
    and the reference decoder returns exactly the version and the program bytes -/
theorem segwit_decodes (hrp : String) (ver : Nat) (hv : ver < 32) (prog : Bytes) :
    A.segwitDecode hrp (A.segwitAddr hrp ver prog) = some (ver, prog) :=
  A.segwitDecode_segwitAddr hrp ver hv prog

/-- the checksum alone: for any values and either constant, the six values the model appends make the Bech32 state machine
    end in that constant -/
theorem bech32_checksum_valid (const : Bech.W) (vs : List Nat) :
    Bech.polymod ((vs ++ A.checksum const vs).map (BitVec.ofNat 30)) = const :=
  A.checksum_valid const vs

/-- put together for the canonical templates: the address reported for P2PKH / P2SH / P2PK decodes to the network prefix
    followed by the embedded hash (HASH160 of the key for P2PK); for P2WPKH / P2WSH / P2TR to the witness version and the
    embedded program -/
theorem reported_address_decodes (testnet : Bool) :
    (∀ h : Bytes, h.length = 20 → ∃ a, (evalBtc testnet ([0x76, 0xa9, 0x14] ++ h ++ [0x88, 0xac])).address = some a ∧
        A.base58checkDecode a = some (pkPrefix testnet :: h)) ∧
    (∀ h : Bytes, h.length = 20 → ∃ a, (evalBtc testnet ([0xa9, 0x14] ++ h ++ [0x87])).address = some a ∧
        A.base58checkDecode a = some (shPrefix testnet :: h)) ∧
    (∀ k : Bytes, k.length = 33 ∨ k.length = 65 → ∃ a, (evalBtc testnet (UInt8.ofNat k.length :: k ++ [0xac])).address = some a ∧
        A.base58checkDecode a = some (pkPrefix testnet :: A.hash160 k)) ∧
    (∀ h : Bytes, h.length = 20 → ∃ a, (evalBtc testnet ([0x00, 0x14] ++ h)).address = some a ∧
        A.segwitDecode (hrp testnet) a = some (0, h)) ∧
    (∀ h : Bytes, h.length = 32 → ∃ a, (evalBtc testnet ([0x00, 0x20] ++ h)).address = some a ∧
        A.segwitDecode (hrp testnet) a = some (0, h)) ∧
    (∀ h : Bytes, h.length = 32 → ∃ a, (evalBtc testnet ([0x51, 0x20] ++ h)).address = some a ∧
        A.segwitDecode (hrp testnet) a = some (1, h)) := by
  obtain ⟨t1, t2, t3, t4, t5, t6⟩ := template_verdicts testnet
  refine ⟨fun h hh => ⟨_, by rw [t1 h hh], base58check_decodes _⟩, fun h hh => ⟨_, by rw [t2 h hh], base58check_decodes _⟩,
    fun k hk => ⟨_, by rw [t3 k hk], base58check_decodes _⟩,
    fun h hh => ⟨_, by rw [t4 h hh], segwit_decodes _ 0 (by omega) h⟩,
    fun h hh => ⟨_, by rw [t5 h hh], segwit_decodes _ 0 (by omega) h⟩,
    fun h hh => ⟨_, by rw [t6 h hh], segwit_decodes _ 1 (by omega) h⟩⟩

/-- OP_RETURN and provably unspendable scripts (first opcode of class Return or Illegal) are decided first and never
    carry an address -/
theorem opreturn_unspendable_no_address (testnet : Bool) (b : UInt8) (rest : Bytes) :
    ((evalBtc testnet (0x6a :: rest)).address = none ∧ ∃ p, (evalBtc testnet (0x6a :: rest)).pattern = .opReturn p) ∧
    (b ≠ 0x6a → (classify b = .ret ∨ classify b = .illegal) → evalBtc testnet (b :: rest) = ⟨.unspendable, none⟩) :=
  ⟨eval_opreturn_no_address testnet rest, eval_unspendable testnet b rest⟩

/-- the network prefixes used above are the published ones -/
theorem prefixes_published :
    pkPrefix false = 0x00 ∧ shPrefix false = 0x05 ∧ pkPrefix true = 0x6f ∧ shPrefix true = 0xc4 ∧ hrp false = "bc" ∧ hrp true = "tb" := by
  decide

/-- rust-bitcoin's instruction iterator on the encoding of any well-formed token list yields exactly its instructions
    (OP_0 as an empty push): the basis of the m-of-n and OP_RETURN verdicts -/
theorem instructions_roundtrip (toks : List T.Tok) (h : ∀ t ∈ toks, t.WF) :
    instrs (toks.flatMap T.Tok.enc) = toks.map (fun t => some (SM.toIns t)) :=
  SM.instrs_enc toks h


/-- **published vectors (tests, not the unbounded claim).**  The model's own SHA-256, RIPEMD-160, Base58Check and Bech32 / Bech32m
    reproduce the NIST and RIPEMD reference digests, the Bitcoin genesis block hash and address, and the BIP173 / BIP350 example
    addresses — checked by the kernel by evaluation (`decide +kernel`), so the correspondence with the code cannot rest on a shared
    mistake in these primitives -/
theorem primitives_match_published_vectors :
    (Sha.hex (Sha.sha256 [0x61, 0x62, 0x63]) = "ba7816bf8f01cfea414140de5dae2223b00361a396177a9cb410ff61f20015ad") ∧
    (Sha.hex (A.ripemd160 [0x61, 0x62, 0x63]) = "8eb208f7e05d987a9b044a8e98c6b087f15a0bfc") ∧
    (A.base58check (0x00 :: A.hash160 (Vec.bytes "04678afdb0fe5548271967f1a67130b7105cd6a828e03909a67962e0ea1f61deb649f6bc3f4cef38c4f35504e51ec112de5c384df7ba0b8d578a4c702b6bf11d5f")) =
      "1A1zP1eP5QGefi2DMPTfTL5SLmv7DivfNa") ∧
    (A.segwitAddr "bc" 0 (Vec.bytes "751e76e8199196d454941c45d1b3a323f1433bd6") = "bc1qw508d6qejxtdg4y5r3zarvary0c5xw7kv8f3t4") ∧
    (A.segwitAddr "bc" 1 (Vec.bytes "79be667ef9dcbbac55a06295ce870b07029bfcdb2dce28d959f2815b16f81798") =
      "bc1p0xlxvlhemja6c4dqv22uapctqupfhlxm9h8z3k2e72q4k9hcz7vqzk5jj0") :=
  ⟨Vec.sha256_nist.1, Vec.ripemd160_reference.2.1, Vec.bitcoin_genesis.2, Vec.segwit_bip_vectors.1, Vec.segwit_bip_vectors.2.2⟩

end Rbp.Props.C05
