import Rbp.Proofs.Templates
import Rbp.Proofs.OpReturn
/-!
# C05 — Bitcoin/testnet3: every output script gets the reference type and address
The rust-bitcoin predicates are modelled by hand in `S`; these theorems relate the model to byte templates.
-/
namespace Rbp.Props.C05
open S

/-- P2PKH predicate ⇔ byte template `76 a9 14 <20 bytes> 88 ac` -/
theorem p2pkh_iff_template (s : Bytes) :
    isP2pkh s = true ↔ ∃ h : Bytes, h.length = 20 ∧ s = [0x76, 0xa9, 0x14] ++ h ++ [0x88, 0xac] := isP2pkh_iff s

/-- P2SH predicate ⇔ byte template `a9 14 <20 bytes> 87` -/
theorem p2sh_iff_template (s : Bytes) :
    isP2sh s = true ↔ ∃ h : Bytes, h.length = 20 ∧ s = [0xa9, 0x14] ++ h ++ [0x87] := isP2sh_iff s

/-- the two templates are disjoint -/
theorem p2pkh_p2sh_disjoint (s : Bytes) : ¬ (isP2pkh s = true ∧ isP2sh s = true) := by
  rintro ⟨h1, h2⟩
  simp only [isP2pkh, isP2sh, decide_eq_true_eq] at h1 h2
  omega

/-- reference verdicts: type and address of every canonical template, both networks
    (P2PKH/P2SH: Base58Check of prefix ‖ embedded hash with prefixes 0x00/0x05, testnet 0x6f/0xc4;
     P2PK: the P2PKH form of HASH160(key); P2WPKH/P2WSH: Bech32 v0; P2TR: Bech32m v1, hrp bc/tb) -/
theorem template_verdicts (testnet : Bool) :
    (∀ h : Bytes, h.length = 20 → evalBtc testnet ([0x76, 0xa9, 0x14] ++ h ++ [0x88, 0xac]) = ⟨.p2pkh, some (A.base58check (pkPrefix testnet :: h))⟩) ∧
    (∀ h : Bytes, h.length = 20 → evalBtc testnet ([0xa9, 0x14] ++ h ++ [0x87]) = ⟨.p2sh, some (A.base58check (shPrefix testnet :: h))⟩) ∧
    (∀ k : Bytes, k.length = 33 ∨ k.length = 65 → evalBtc testnet (UInt8.ofNat k.length :: k ++ [0xac]) = ⟨.p2pk, some (A.base58check (pkPrefix testnet :: A.hash160 k))⟩) ∧
    (∀ h : Bytes, h.length = 20 → evalBtc testnet ([0x00, 0x14] ++ h) = ⟨.p2wpkh, some (A.segwitAddr (hrp testnet) 0 h)⟩) ∧
    (∀ h : Bytes, h.length = 32 → evalBtc testnet ([0x00, 0x20] ++ h) = ⟨.p2wsh, some (A.segwitAddr (hrp testnet) 0 h)⟩) ∧
    (∀ h : Bytes, h.length = 32 → evalBtc testnet ([0x51, 0x20] ++ h) = ⟨.p2tr, some (A.segwitAddr (hrp testnet) 1 h)⟩) :=
  ⟨eval_p2pkh testnet, eval_p2sh testnet, eval_p2pk testnet, eval_p2wpkh testnet, eval_p2wsh testnet, eval_p2tr testnet⟩

/-- OP_RETURN and provably unspendable scripts (first opcode of class Return or Illegal) are decided first and never
    carry an address -/
theorem opreturn_unspendable_no_address (testnet : Bool) (b : UInt8) (rest : Bytes) :
    ((evalBtc testnet (0x6a :: rest)).address = none ∧ ∃ p, (evalBtc testnet (0x6a :: rest)).pattern = .opReturn p) ∧
    (b ≠ 0x6a → (classify b = .ret ∨ classify b = .illegal) → evalBtc testnet (b :: rest) = ⟨.unspendable, none⟩) :=
  ⟨eval_opreturn_no_address testnet rest, eval_unspendable testnet b rest⟩

/-- the network prefixes used above are the published ones -/
theorem prefixes_published :
    pkPrefix false = 0x00 ∧ shPrefix false = 0x05 ∧ pkPrefix true = 0x6f ∧ shPrefix true = 0xc4 ∧ hrp false = "bc" ∧ hrp true = "tb" := by
  decide

/-- rust-bitcoin's instruction iterator on the encoding of any well-formed token list yields exactly its instructions
    (OP_0 as an empty push): the basis of the m-of-n and OP_RETURN verdicts -/
theorem instructions_roundtrip (toks : List T.Tok) (h : ∀ t ∈ toks, t.WF) :
    instrs (toks.flatMap T.Tok.enc) = toks.map (fun t => some (SM.toIns t)) :=
  SM.instrs_enc toks h

end Rbp.Props.C05
