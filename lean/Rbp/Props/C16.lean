import Rbp.Proofs.OpReturn
import Rbp.Proofs.RunSpec
import Rbp.Proofs.Lossy
import Rbp.Proofs.Utf8Spec
import Rbp.Props.C10
/-!
# C16 — opreturn prints exactly the non-empty UTF-8 payloads, in chain order
-/
namespace Rbp.Props.C16
open S SM CB

/-- fork coins: OP_RETURN followed by exactly one data push — direct, PUSHDATA1, PUSHDATA2 or PUSHDATA4, any non-empty
    payload the form can carry — is typed OpReturn with exactly the pushed payload, lossily decoded (invalid sequences
    become U+FFFD) -/
theorem single_push_fork (ver : UInt8) (f : T.Form) (p : Bytes) (hwf : (T.Tok.push f p).WF) (hne : p ≠ []) :
    evalCustom ver (singlePush f p) = ⟨.opReturn (L.lossy p), none⟩ :=
  fork_single_push ver f p hwf hne

/-- Bitcoin / testnet3: the same script is typed OpReturn with exactly the pushed payload when it is valid UTF-8
    (`L.valid`: Unicode's Table 3-7, proved below to accept exactly the encodings of sequences of Unicode scalar values), and
    with the empty payload — nothing is printed — otherwise -/
theorem single_push_btc (testnet : Bool) (f : T.Form) (p : Bytes) (hwf : (T.Tok.push f p).WF) :
    evalBtc testnet (singlePush f p) =
      ⟨.opReturn (if L.valid p then p else []), none⟩ :=
  btc_single_push testnet f p hwf

/-- the callback prints a line for an output iff its script is typed OpReturn with a non-empty payload; every other
    output prints nothing -/
theorem line_iff (ver : UInt8) (b : EBlock) (t : W.RTx) (o : W.ROut) :
    (∃ l, (match (S.eval ver o.script).pattern with
        | .opReturn p => if p.isEmpty then none else some l
        | _ => (none : Option String)) = some l) ↔
      ∃ p, (S.eval ver o.script).pattern = .opReturn p ∧ p ≠ [] := by
  cases h : (S.eval ver o.script).pattern <;> simp

/-- lines appear in chain order: the lines of a concatenation of block lists are the concatenation of their lines
    (blocks in order, transactions in order, outputs in order) -/
theorem lines_in_chain_order (ver : UInt8) (bs1 bs2 : List EBlock) :
    opreturnLines ver (bs1 ++ bs2) = opreturnLines ver bs1 ++ opreturnLines ver bs2 := by
  simp [opreturnLines]

/-- **whole run.**  For a stored chain, `opreturn` exits 0, writes no file, and its stdout is exactly `opreturnLines` over the
    delivered blocks: one line per output typed OP_RETURN with a non-empty payload, in chain order (`line_iff`,
    `lines_in_chain_order`), each `height: <h padded to 9> txid: <txid>    data: <payload>` -/
theorem opreturn_run_spec (o : Run.Opts) (key : Option W.Bytes) (kvs : List (W.Bytes × W.Bytes)) (files : List Run.BlkFile)
    (coin : Run.Coin) (ld : Run.Loaded) (hcoin : Run.coinOf o.coin = some coin) (hld : Run.loadIndex o kvs = .ok ld)
    (hkey : key ≠ some []) (sz : Nat → Nat) (blk : Nat → W.Block)
    (hs : ∀ k, o.start ≤ k → k < o.start + (ld.maxH + 1 - o.start) →
      Run.Stored coin key (files.filterMap fun f => (Run.parseBlkIndex f.name).map fun n => (n, f)) ld.trimmed k (sz k) (blk k) ∧
      (o.verify = true → Run.verifyBlock coin ld.trimmed (blk k).toR k = .ok ()))
    (hne : o.start ≤ ld.maxH) (hcb : o.callback = "opreturn") :
    (Run.run o key kvs files).exit = 0 ∧ (Run.run o key kvs files).files = [] ∧
    (Run.run o key kvs files).stdout = opreturnLines coin.version
      ((List.range' o.start (ld.maxH + 1 - o.start)).map (fun k => (⟨k, sz k, (blk k).toR⟩ : EBlock))) := by
  obtain ⟨h0, _, hf, ho⟩ := Run.run_stored o key kvs files coin ld hcoin hld hkey sz blk hs hne
    (by simp [Run.callbackPanics, hcb])
  refine ⟨h0, ?_, ?_⟩
  · rw [hf]; simp only [Run.callbackOut, hcb]
  · rw [ho]; simp only [Run.callbackOut, hcb]

/-- fork coins print well-formed UTF-8 payloads exactly: on every string accepted by Unicode's Table 3-7 (`L.valid`), the
    lossy decoder is the identity — U+FFFD appears only where the bytes are ill-formed.  (That `L.valid` agrees with Rust's
    `from_utf8` — and with core Lean's `validateUTF8`, an independent implementation — is checked by the `utf8` family of the
    correspondence on adversarial strings.) -/
theorem lossy_valid_id (p : Bytes) (h : L.valid p = true) : L.lossy p = p := L.lossy_of_valid p.length p rfl h

/-- **what `valid UTF-8` means.**  The recogniser used on the Bitcoin path accepts a byte string iff it is the concatenation
    of the UTF-8 encodings (1 to 4 bytes, RFC 3629) of Unicode scalar values — code points below 0x110000 outside the surrogate
    range 0xD800..0xDFFF; overlong forms, surrogates and values above 0x10FFFF are thereby excluded -/
theorem valid_iff_scalar_encoding (p : Bytes) :
    L.valid p = true ↔ ∃ cs : List Nat, (∀ c ∈ cs, L.scalar c) ∧ p = cs.flatMap L.enc :=
  L.valid_iff_encoding p

/-- whatever the payload, what a fork coin prints is well-formed UTF-8, and it is the payload itself exactly when the payload
    is well-formed -/
theorem lossy_output_valid (p : Bytes) : L.valid (L.lossy p) = true ∧ (L.lossy p = p ↔ L.valid p = true) :=
  ⟨L.lossy_valid p.length p rfl, fun h => by rw [← h]; exact L.lossy_valid p.length p rfl, fun h => L.lossy_of_valid p.length p rfl h⟩

/-- non-vacuity: "é€😀" (2-, 3- and 4-byte sequences) is accepted; a lone continuation byte and an overlong "/" are not -/
example : L.valid [0xC3, 0xA9, 0xE2, 0x82, 0xAC, 0xF0, 0x9F, 0x98, 0x80] = true ∧ L.valid [0x80] = false ∧ L.valid [0xC0, 0xAF] = false := by
  refine ⟨?_, ?_, ?_⟩ <;> simp +decide [L.valid, L.second, L.isCont]

/-- non-vacuity: the 76..80 byte range needs PUSHDATA1 and is well-formed there, not as a direct push -/
example : (T.Tok.push .pd1 (List.replicate 80 0x41)).WF ∧ ¬ (T.Tok.push .direct (List.replicate 80 0x41)).WF := by
  simp [T.Tok.WF, T.Form.width]


/-- **every input.**  Whenever an `opreturn` run exits 0, what it printed is `opreturnLines` over exactly the delivered blocks, in
    chain order (no file is written) -/
theorem exit0_lines_are_those_of_delivered (o : Run.Opts) (key : Option W.Bytes) (kvs : List (W.Bytes × W.Bytes)) (files : List Run.BlkFile)
    (coin : Run.Coin) (hcoin : Run.coinOf o.coin = some coin) (hcb : o.callback = "opreturn")
    (h0 : (Run.run o key kvs files).exit = 0) :
    (Run.run o key kvs files).stdout = opreturnLines coin.version (Run.deliveredBlocks o key kvs files) ∧
    (Run.run o key kvs files).files = [] := by
  obtain ⟨hf, hs⟩ := Rbp.Props.C10.exit0_output_is_callback_over_delivered o key kvs files coin hcoin h0
  rw [hf, hs]
  simp [Run.callbackOut, hcb]

end Rbp.Props.C16
