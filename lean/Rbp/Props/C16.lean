import Rbp.Proofs.OpReturn
/-!
# C16 — opreturn prints exactly the non-empty UTF-8 payloads, in chain order
-/
namespace Rbp.Props.C16
open S SM CB

/-- fork coins: OP_RETURN followed by exactly one data push — direct, PUSHDATA1, PUSHDATA2 or PUSHDATA4, any non-empty
    payload the form can carry — is typed OpReturn with exactly the pushed payload, lossily decoded (invalid sequences
    become U+FFFD) -/
theorem single_push_fork (ver : UInt8) (f : T.Form) (p : Bytes) (hwf : (T.Tok.push f p).WF) (hne : p ≠ []) :
    evalCustom ver (singlePush f p) = ⟨.opReturn (L.lossy p), none⟩ :=
  fork_single_push ver f p hwf hne

/-- Bitcoin / testnet3: the same script is typed OpReturn with exactly the pushed payload when it is valid UTF-8
    (core Lean's `ByteArray.validateUTF8`), and with the empty payload — nothing is printed — otherwise -/
theorem single_push_btc (testnet : Bool) (f : T.Form) (p : Bytes) (hwf : (T.Tok.push f p).WF) :
    evalBtc testnet (singlePush f p) =
      ⟨.opReturn (if (ByteArray.mk p.toArray).validateUTF8 then p else []), none⟩ :=
  btc_single_push testnet f p hwf

/-- the callback prints a line for an output iff its script is typed OpReturn with a non-empty payload; every other
    output prints nothing -/
theorem line_iff (ver : UInt8) (b : EBlock) (t : W.RTx) (o : W.ROut) :
    (∃ l, (match (S.eval ver o.script).pattern with
        | .opReturn p => if p.isEmpty then none else some l
        | _ => (none : Option String)) = some l) ↔
      ∃ p, (S.eval ver o.script).pattern = .opReturn p ∧ p ≠ [] := by
  cases h : (S.eval ver o.script).pattern <;> simp

/-- lines appear in chain order: the lines of a concatenation of block lists are the concatenation of their lines
    (blocks in order, transactions in order, outputs in order) -/
theorem lines_in_chain_order (ver : UInt8) (bs1 bs2 : List EBlock) :
    opreturnLines ver (bs1 ++ bs2) = opreturnLines ver bs1 ++ opreturnLines ver bs2 := by
  simp [opreturnLines]

/-- non-vacuity: the 76..80 byte range needs PUSHDATA1 and is well-formed there, not as a direct push -/
example : (T.Tok.push .pd1 (List.replicate 80 0x41)).WF ∧ ¬ (T.Tok.push .direct (List.replicate 80 0x41)).WF := by
  simp [T.Tok.WF, T.Form.width]

end Rbp.Props.C16
