import Rbp.Spec.PushRules
import Rbp.Model.Script
import Rbp.Generated.Consts
/-!
# C06 — fork coins: scripts are tokenised by Bitcoin push rules and typed by template
Property theorems only; helper lemmas live next to the definitions they are about.
-/
namespace Rbp.Props.C06

/-- Bitcoin's push rules as a grammar: tokenising the encoding of any well-formed token list gives the list back
    (direct pushes 1–75, PUSHDATA1/2/4 with little-endian lengths read from the bytes *after* the opcode). -/
theorem tokenise_roundtrip (toks : List T.Tok) (h : ∀ t ∈ toks, t.WF) :
    T.tokenise (toks.flatMap T.Tok.enc) = some toks :=
  T.tokenise_enc toks h

/-- non-vacuity: OP_RETURN PUSHDATA1 "abcde" is a well-formed token list -/
example : ∀ t ∈ [T.Tok.op 0x6a, T.Tok.push .pd1 [0x61, 0x62, 0x63, 0x64, 0x65]], t.WF := by
  intro t ht
  simp only [List.mem_cons, List.not_mem_nil, or_false] at ht
  rcases ht with rfl | rfl <;> simp [T.Tok.WF, T.Form.width]

/-- the published version bytes of the six fork coins, and of the two Bitcoin networks -/
def publishedVersions : List (String × Nat) :=
  [("bitcoin", 0x00), ("testnet3", 0x6f), ("namecoin", 0x34), ("litecoin", 0x30), ("dogecoin", 0x1e),
   ("myriadcoin", 0x32), ("unobtanium", 0x82), ("noteblockchain", 0x35)]

/-- the coin table compiled into the binary built from the working tree carries the published version bytes -/
theorem coin_table_published : Generated.coins.map (fun c => (c.cli, c.version)) = publishedVersions := by
  decide

end Rbp.Props.C06
