import Rbp.Spec.PushRules
import Rbp.Proofs.Tokens
import Rbp.Generated.Consts
import Rbp.Proofs.Base58Check
import Rbp.Proofs.TokeniseSound
/-!
# C06 — fork coins: scripts are tokenised by Bitcoin push rules and typed by template
Property theorems only; helper lemmas live in Rbp/Proofs and next to the definitions they are about.
-/
namespace Rbp.Props.C06
open S SM

/-- Bitcoin's push rules as a grammar: tokenising the encoding of any well-formed token list gives the list back
    (direct pushes 1–75, PUSHDATA1/2/4 with little-endian lengths read from the bytes *after* the opcode). -/
theorem tokenise_roundtrip (toks : List T.Tok) (h : ∀ t ∈ toks, t.WF) :
    T.tokenise (toks.flatMap T.Tok.enc) = some toks :=
  T.tokenise_enc toks h

/-- and conversely the tokeniser only returns token lists that re-encode to the script, every token well-formed: so
    `tokenise s = some toks ↔ s` is the encoding of the well-formed list `toks`, and `tokenise s = none` — the script is
    unrecognised — exactly when `s` is the encoding of NO well-formed token list, i.e. some push runs past the end -/
theorem tokenise_sound (s : Bytes) (toks : List T.Tok) (h : T.tokenise s = some toks) :
    s = toks.flatMap T.Tok.enc ∧ ∀ t ∈ toks, t.WF :=
  T.tokenise_sound s.length s toks rfl h

theorem tokenise_iff (s : Bytes) (toks : List T.Tok) :
    T.tokenise s = some toks ↔ (s = toks.flatMap T.Tok.enc ∧ ∀ t ∈ toks, t.WF) :=
  ⟨tokenise_sound s toks, fun ⟨hs, hw⟩ => by rw [hs]; exact T.tokenise_enc toks hw⟩

theorem unrecognised_iff_no_encoding (s : Bytes) :
    T.tokenise s = none ↔ ¬ ∃ toks : List T.Tok, s = toks.flatMap T.Tok.enc ∧ ∀ t ∈ toks, t.WF := by
  constructor
  · rintro h ⟨toks, hs, hw⟩
    rw [hs, T.tokenise_enc toks hw] at h
    cases h
  · intro h
    cases ht : T.tokenise s with
    | none => rfl
    | some toks => exact absurd ⟨toks, tokenise_sound s toks ht⟩ h

/-- non-vacuity: OP_RETURN PUSHDATA1 "abcde" is a well-formed token list -/
example : ∀ t ∈ [T.Tok.op 0x6a, T.Tok.push .pd1 [0x61, 0x62, 0x63, 0x64, 0x65]], t.WF := by
  intro t ht
  simp only [List.mem_cons, List.not_mem_nil, or_false] at ht
  rcases ht with rfl | rfl <;> simp [T.Tok.WF, T.Form.width]

/-- the evaluator's token vector is the push-rule tokenisation with no-op opcodes dropped, empty pushes turned into
    their opcode and push forms forgotten; it is absent exactly when a push runs past the end -/
theorem tokens_eq_spec (s : Bytes) : tokens s = (T.tokenise s).map erase :=
  SM.tokens_eq_spec s.length s rfl

/-- type ⇔ template, a data slot accepting any non-empty push (P2PKH / P2PK / P2SH / data output / 2-of-3 multisig);
    everything else, including every script with a push past the end, is NotRecognised -/
theorem type_iff_template (ver : UInt8) (s : Bytes) :
    ((evalCustom ver s).pattern = .p2pkh ↔ ∃ h, tokens s = some [.op 0x76, .op 0xa9, .data h, .op 0x88, .op 0xac]) ∧
    ((evalCustom ver s).pattern = .p2pk ↔ ∃ k, tokens s = some [.data k, .op 0xac]) ∧
    ((evalCustom ver s).pattern = .p2sh ↔ ∃ h, tokens s = some [.op 0xa9, .data h, .op 0x87]) ∧
    ((∃ p, (evalCustom ver s).pattern = .opReturn p) ↔ ∃ d, tokens s = some [.op 0x6a, .data d]) ∧
    ((evalCustom ver s).pattern = .multisig ↔ ∃ a b c, tokens s = some [.op 0x52, .data a, .data b, .data c, .op 0x53, .op 0xae]) := by
  unfold evalCustom
  cases tokens s with
  | none => simp
  | some els =>
    simp only
    refine ⟨?_, ?_, ?_, ?_, ?_⟩ <;> (split <;> simp_all)

/-- address formulas: Base58Check(version ‖ pushed hash) for P2PKH, Base58Check(version ‖ HASH160(pushed key)) for P2PK,
    Base58Check(0x05 ‖ pushed hash) for P2SH — and no address for every other script -/
theorem address_formula (ver : UInt8) (s : Bytes) :
    (∀ h, tokens s = some [.op 0x76, .op 0xa9, .data h, .op 0x88, .op 0xac] → (evalCustom ver s).address = some (A.base58check (ver :: h))) ∧
    (∀ k, tokens s = some [.data k, .op 0xac] → (evalCustom ver s).address = some (A.base58check (ver :: A.hash160 k))) ∧
    (∀ h, tokens s = some [.op 0xa9, .data h, .op 0x87] → (evalCustom ver s).address = some (A.base58check (5 :: h))) ∧
    ((evalCustom ver s).pattern ≠ .p2pkh → (evalCustom ver s).pattern ≠ .p2pk → (evalCustom ver s).pattern ≠ .p2sh →
      (evalCustom ver s).address = none) := by
  unfold evalCustom
  refine ⟨?_, ?_, ?_, ?_⟩
  · intro h ht; simp [ht]
  · intro k ht; simp [ht]
  · intro h ht; simp [ht]
  · cases tokens s with
    | none => simp
    | some els => simp only; split <;> simp

/-- the addresses of `address_formula` decode, with a valid checksum, to the coin's version byte followed by the pushed hash
    (P2PKH), by HASH160 of the pushed key (P2PK), or to 0x05 followed by the pushed hash (P2SH) -/
theorem address_decodes (ver : UInt8) (s : Bytes) :
    (∀ h, tokens s = some [.op 0x76, .op 0xa9, .data h, .op 0x88, .op 0xac] →
      ∃ a, (evalCustom ver s).address = some a ∧ A.base58checkDecode a = some (ver :: h)) ∧
    (∀ k, tokens s = some [.data k, .op 0xac] →
      ∃ a, (evalCustom ver s).address = some a ∧ A.base58checkDecode a = some (ver :: A.hash160 k)) ∧
    (∀ h, tokens s = some [.op 0xa9, .data h, .op 0x87] →
      ∃ a, (evalCustom ver s).address = some a ∧ A.base58checkDecode a = some (5 :: h)) := by
  obtain ⟨a1, a2, a3, _⟩ := address_formula ver s
  exact ⟨fun h ht => ⟨_, a1 h ht, A.base58checkDecode_base58check _⟩, fun k ht => ⟨_, a2 k ht, A.base58checkDecode_base58check _⟩,
    fun h ht => ⟨_, a3 h ht, A.base58checkDecode_base58check _⟩⟩

/-- no input can make evaluation fail: the panic-site model of the evaluator never panics (see C14) -/
theorem eval_total (ver : UInt8) (s : Bytes) (hlen : s.length < 2^63) : SM.eval ver s = .ok (evalCustom ver s) :=
  eval_eq ver s hlen

/-- the published version bytes of the six fork coins, and of the two Bitcoin networks -/
def publishedVersions : List (String × Nat) :=
  [("bitcoin", 0x00), ("testnet3", 0x6f), ("namecoin", 0x34), ("litecoin", 0x30), ("dogecoin", 0x1e),
   ("myriadcoin", 0x32), ("unobtanium", 0x82), ("noteblockchain", 0x35)]

/-- the coin table compiled into the binary built from the working tree carries the published version bytes -/
theorem coin_table_published : Generated.coins.map (fun c => (c.cli, c.version)) = publishedVersions := by
  decide

end Rbp.Props.C06
