import Rbp.Proofs.Block
import Rbp.Generated.Consts
/-!
# C12 — AuxPoW headers are skipped exactly, leaving block hash and txs unaffected
-/
namespace Rbp.Props.C12
open W Csv Aux

/-- the AuxPoW section (parent coinbase in legacy or segwit form, parent hash, two merkle branches of any length with
    arbitrary masks, parent header) is consumed exactly: the block reader returns the block's own header and txs and
    leaves the rest of the stream untouched -/
theorem auxpow_consumed (thr : Option Nat) (b : Block) (hk : b.ok thr) (rest : Bytes) :
    readBlockAux thr (b.enc ++ rest) = some ((b.toR, b.aux.map AuxPow.toR), rest) :=
  readBlockAux_enc thr b hk rest

/-- transparency: what the reader returns for a block with a section is what it returns, on a coin without AuxPoW,
    for the same block with the section removed — so block hash, tx list and every derived row coincide -/
theorem auxpow_transparent (v : Nat) (b : Block) (hk : b.ok (some v)) (rest : Bytes)
    (hk' : ({ b with aux := none } : Block).ok none) :
    (readBlockCoin (some v) (b.enc ++ rest)).map (·.1) =
      (readBlockCoin none (({ b with aux := none } : Block).enc ++ rest)).map (·.1) := by
  rw [readBlockCoin_enc (some v) b hk rest, readBlockCoin_enc none _ hk' rest]
  simp [Block.toR]

/-- the threshold test is `version ≥ activation version`: equality included, one below excluded; coins without
    an activation version never read a section whatever the version -/
theorem threshold_exact (v version : Nat) :
    (wantsAux (some v) version = true ↔ v ≤ version) ∧ wantsAux none version = false := by
  simp [wantsAux]

/-- activation versions compiled into the binary built from the working tree: namecoin 0x10101, dogecoin 0x620102,
    none for the six other coins -/
theorem thresholds_published :
    Generated.coins.map (fun c => (c.cli, c.auxpow)) =
      [("bitcoin", none), ("testnet3", none), ("namecoin", some 0x10101), ("litecoin", none),
       ("dogecoin", some 0x620102), ("myriadcoin", none), ("unobtanium", none), ("noteblockchain", none)] := by
  decide

end Rbp.Props.C12
