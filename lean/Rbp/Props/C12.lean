import Rbp.Proofs.Block
import Rbp.Generated.Consts
import Rbp.Proofs.RunSpec
/-!
# C12 — AuxPoW headers are skipped exactly, leaving block hash and txs unaffected
-/
namespace Rbp.Props.C12
open W Csv Aux

/-- the AuxPoW section (parent coinbase in legacy or segwit form, parent hash, two merkle branches of any length with
    arbitrary masks, parent header) is consumed exactly: the block reader returns the block's own header and txs and
    leaves the rest of the stream untouched -/
theorem auxpow_consumed (thr : Option Nat) (b : Block) (hk : b.ok thr) (rest : Bytes) :
    readBlockAux thr (b.enc ++ rest) = some ((b.toR, b.aux.map AuxPow.toR), rest) :=
  readBlockAux_enc thr b hk rest

/-- transparency: what the reader returns for a block with a section is what it returns, on a coin without AuxPoW,
    for the same block with the section removed — so block hash, tx list and every derived row coincide -/
theorem auxpow_transparent (v : Nat) (b : Block) (hk : b.ok (some v)) (rest : Bytes)
    (hk' : ({ b with aux := none } : Block).ok none) :
    (readBlockCoin (some v) (b.enc ++ rest)).map (·.1) =
      (readBlockCoin none (({ b with aux := none } : Block).enc ++ rest)).map (·.1) := by
  rw [readBlockCoin_enc (some v) b hk rest, readBlockCoin_enc none _ hk' rest]
  simp [Block.toR]

/-- the parsed block does not contain the section at all: whatever AuxPoW section a block carries (or none), the header,
    transaction count and transactions handed to the callbacks are the same -/
theorem parsed_block_ignores_section (b : Block) (a : Option AuxPow) : ({ b with aux := a } : Block).toR = b.toR := rfl

/-- **whole run.**  On Namecoin / Dogecoin (any coin, in fact) the output of a run over stored blocks is a function of the
    parsed blocks `(blk k).toR` only (`Run.run_stored`), and those do not contain the AuxPoW section: two directories whose
    stored blocks differ only in their AuxPoW sections — present or absent as the coin's threshold demands, any parent
    coinbase, any branches and masks — give the same files and the same stdout, for every callback -/
theorem auxpow_run_transparent (o : Run.Opts) (key : Option Bytes) (kvs₁ kvs₂ : List (Bytes × Bytes)) (fs₁ fs₂ : List Run.BlkFile)
    (coin : Run.Coin) (ld₁ ld₂ : Run.Loaded) (hcoin : Run.coinOf o.coin = some coin)
    (hl₁ : Run.loadIndex o kvs₁ = .ok ld₁) (hl₂ : Run.loadIndex o kvs₂ = .ok ld₂) (hmax : ld₁.maxH = ld₂.maxH)
    (hkey : key ≠ some []) (sz : Nat → Nat) (blk₁ blk₂ : Nat → Block)
    (hsame : ∀ k, (blk₁ k).toR = (blk₂ k).toR)
    (hs₁ : ∀ k, o.start ≤ k → k < o.start + (ld₁.maxH + 1 - o.start) →
      Run.Stored coin key (fs₁.filterMap fun f => (Run.parseBlkIndex f.name).map fun n => (n, f)) ld₁.trimmed k (sz k) (blk₁ k) ∧
      (o.verify = true → Run.verifyBlock coin ld₁.trimmed (blk₁ k).toR k = .ok ()))
    (hs₂ : ∀ k, o.start ≤ k → k < o.start + (ld₂.maxH + 1 - o.start) →
      Run.Stored coin key (fs₂.filterMap fun f => (Run.parseBlkIndex f.name).map fun n => (n, f)) ld₂.trimmed k (sz k) (blk₂ k) ∧
      (o.verify = true → Run.verifyBlock coin ld₂.trimmed (blk₂ k).toR k = .ok ()))
    (hne : o.start ≤ ld₁.maxH)
    (hnp : Run.callbackPanics o coin.version
      ((List.range' o.start (ld₁.maxH + 1 - o.start)).map (fun k => (⟨k, sz k, (blk₁ k).toR⟩ : CB.EBlock))) = false) :
    (Run.run o key kvs₁ fs₁).files = (Run.run o key kvs₂ fs₂).files ∧
    (Run.run o key kvs₁ fs₁).stdout = (Run.run o key kvs₂ fs₂).stdout ∧
    (Run.run o key kvs₁ fs₁).exit = 0 ∧ (Run.run o key kvs₂ fs₂).exit = 0 := by
  have e : (List.range' o.start (ld₁.maxH + 1 - o.start)).map (fun k => (⟨k, sz k, (blk₁ k).toR⟩ : CB.EBlock)) =
      (List.range' o.start (ld₂.maxH + 1 - o.start)).map (fun k => (⟨k, sz k, (blk₂ k).toR⟩ : CB.EBlock)) := by
    rw [hmax]; simp only [hsame]
  obtain ⟨a0, _, a1, a2⟩ := Run.run_stored o key kvs₁ fs₁ coin ld₁ hcoin hl₁ hkey sz blk₁ hs₁ hne hnp
  obtain ⟨b0, _, b1, b2⟩ := Run.run_stored o key kvs₂ fs₂ coin ld₂ hcoin hl₂ hkey sz blk₂ hs₂ (by omega) (by rw [← e]; exact hnp)
  rw [a1, a2, b1, b2, e, hmax]
  exact ⟨rfl, rfl, a0, b0⟩

/-- the threshold test is `version ≥ activation version`: equality included, one below excluded; coins without
    an activation version never read a section whatever the version -/
theorem threshold_exact (v version : Nat) :
    (wantsAux (some v) version = true ↔ v ≤ version) ∧ wantsAux none version = false := by
  simp [wantsAux]

/-- activation versions compiled into the binary built from the working tree: namecoin 0x10101, dogecoin 0x620102,
    none for the six other coins -/
theorem thresholds_published :
    Generated.coins.map (fun c => (c.cli, c.auxpow)) =
      [("bitcoin", none), ("testnet3", none), ("namecoin", some 0x10101), ("litecoin", none),
       ("dogecoin", some 0x620102), ("myriadcoin", none), ("unobtanium", none), ("noteblockchain", none)] := by
  decide

end Rbp.Props.C12
