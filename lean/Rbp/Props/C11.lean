import Rbp.Model.Xor
import Rbp.Model.Run
import Rbp.Proofs.Record
/-!
# C11 — XOR-obfuscated block files yield the same result as plaintext ones
-/
namespace Rbp.Props.C11
open X

/-- on an obfuscated file (plaintext XOR-ed with the key repeating from file offset 0), for *every* sequence of seeks and
    reads and *every* chunking chosen by the inner (buffered) reader, the XorReader hands out exactly what a plain reader
    hands out on the plaintext, and its `absolute_pos` equals the inner reader's position in every reachable state -/
theorem xor_plain (key plain : Bytes) (ops : List Op) (pos : Nat) :
    let r : R := ⟨⟨xorAt key 0 plain, pos⟩, key, pos⟩
    (run r ops).2 = (runPlain ⟨plain, pos⟩ ops).2 ∧ (run r ops).1.absPos = (run r ops).1.inner.pos :=
  X.xor_plain key plain ops pos

/-- XOR with the keystream is an involution (any key, including the all-zero key and keys of any length) -/
theorem xor_involutive (key : Bytes) (p : Nat) (bs : Bytes) : xorAt key p (xorAt key p bs) = bs := xor_invol key p bs

/-- the whole-program model reads obfuscated files through the same keystream function: what `Run.unxor` returns for the
    stored bytes of an obfuscated file, starting at any absolute position, is the plaintext at that position -/
theorem run_unxor_plain (key plain : Bytes) (p : Nat) :
    Run.unxor (some key) p ((xorAt key 0 plain).drop p) = plain.drop p := by
  simp only [Run.unxor]
  rw [xorAt_drop, Nat.zero_add, xor_invol]

/-- whole-program consequence at the point where blocks are read: for any key and any absolute position, parsing the
    de-obfuscated bytes of an obfuscated file gives exactly what parsing the plaintext gives — same block, same size prefix,
    same error if the plaintext is damaged -/
theorem read_xor_eq_plain (coin : Run.Coin) (k : Bytes) (p : Nat) (plain : Bytes) :
    Run.parseAt coin (Run.unxor (some k) p (xorAt k p plain)) = Run.parseAt coin plain :=
  Run.parseAt_xor coin k p plain

/-- non-vacuity: a 3-byte key over 5 bytes read after a seek to offset 2 (not a multiple of the key length) -/
example : (run ⟨⟨xorAt [1, 2, 3] 0 [10, 20, 30, 40, 50], 0⟩, [1, 2, 3], 0⟩ [.seek 2, .read 2 2]).2 = [[], [30, 40]] := by decide

end Rbp.Props.C11
