import Rbp.Model.Xor
import Rbp.Model.Run
import Rbp.Proofs.Record
import Rbp.Proofs.Layout
/-!
# C11 — XOR-obfuscated block files yield the same result as plaintext ones
-/
namespace Rbp.Props.C11
open X

/-- on an obfuscated file (plaintext XOR-ed with the key repeating from file offset 0), for *every* sequence of seeks and
    reads and *every* chunking chosen by the inner (buffered) reader, the XorReader hands out exactly what a plain reader
    hands out on the plaintext, and its `absolute_pos` equals the inner reader's position in every reachable state -/
theorem xor_plain (key plain : Bytes) (ops : List Op) (pos : Nat) :
    let r : R := ⟨⟨xorAt key 0 plain, pos⟩, key, pos⟩
    (run r ops).2 = (runPlain ⟨plain, pos⟩ ops).2 ∧ (run r ops).1.absPos = (run r ops).1.inner.pos :=
  X.xor_plain key plain ops pos

/-- XOR with the keystream is an involution (any key, including the all-zero key and keys of any length) -/
theorem xor_involutive (key : Bytes) (p : Nat) (bs : Bytes) : xorAt key p (xorAt key p bs) = bs := xor_invol key p bs

/-- the whole-program model reads obfuscated files through the same keystream function: what `Run.unxor` returns for the
    stored bytes of an obfuscated file, starting at any absolute position, is the plaintext at that position -/
theorem run_unxor_plain (key plain : Bytes) (p : Nat) :
    Run.unxor (some key) p ((xorAt key 0 plain).drop p) = plain.drop p := by
  simp only [Run.unxor]
  rw [xorAt_drop, Nat.zero_add, xor_invol]

/-- whole-program consequence at the point where blocks are read: for any key and any absolute position, parsing the
    de-obfuscated bytes of an obfuscated file gives exactly what parsing the plaintext gives — same block, same size prefix,
    same error if the plaintext is damaged -/
theorem read_xor_eq_plain (coin : Run.Coin) (k : Bytes) (p : Nat) (plain : Bytes) :
    Run.parseAt coin (Run.unxor (some k) p (xorAt k p plain)) = Run.parseAt coin plain :=
  Run.parseAt_xor coin k p plain

/-- **whole run.**  A data directory whose blk files are XOR-ed with a non-empty key repeating from file offset 0 (same
    names, same index), read with that key, gives the run of the plaintext directory read without a key — identical in every
    observable (exit status, delivered heights and hashes, every output file, stdout, Opening/Closing trace), for every
    callback, range and `--verify` setting, whatever seeks the height sequence induces. -/
theorem run_xor_eq_plain (o : Run.Opts) (k : Bytes) (hk : k ≠ []) (kvs : List (W.Bytes × W.Bytes)) (plain obf : List Run.BlkFile)
    (hnames : obf.map (·.name) = plain.map (·.name))
    (hne : (plain.filterMap fun f => (Run.parseBlkIndex f.name).map fun n => (n, f)) ≠ [])
    (hx : ∀ i (hi : i < plain.length) (hj : i < obf.length) p,
      Run.bytesFrom obf[i] p = xorAt k p (Run.bytesFrom plain[i] p)) :
    Run.run o (some k) kvs obf = Run.run o none kvs plain :=
  Run.run_xor_eq_plain o k hk kvs plain obf hnames hne hx

/-- the same on concrete directories of ordinary (hole-free) files: XOR every file with the key from offset 0 -/
theorem run_xor_dense (o : Run.Opts) (k : Bytes) (hk : k ≠ []) (kvs : List (W.Bytes × W.Bytes)) (dir : List (String × W.Bytes))
    (hne : ((dir.map fun f => Run.dense f.1 f.2).filterMap fun f => (Run.parseBlkIndex f.name).map fun n => (n, f)) ≠ []) :
    Run.run o (some k) kvs (dir.map fun f => Run.dense f.1 (xorAt k 0 f.2)) = Run.run o none kvs (dir.map fun f => Run.dense f.1 f.2) :=
  Run.run_xor_dense o k hk kvs dir hne

/-- non-vacuity: a 3-byte key over 5 bytes read after a seek to offset 2 (not a multiple of the key length) -/
example : (run ⟨⟨xorAt [1, 2, 3] 0 [10, 20, 30, 40, 50], 0⟩, [1, 2, 3], 0⟩ [.seek 2, .read 2 2]).2 = [[], [30, 40]] := by decide

end Rbp.Props.C11
