import Rbp.Proofs.Wire
import Rbp.Proofs.Block
import Rbp.Proofs.RunSpec
import Rbp.Proofs.Render
/-!
# C01 — csvdump reproduces every on-disk block, tx, input and output field exactly
-/
namespace Rbp.Props.C01
open W

/-- the transaction reader consumes exactly the encoding of any well-formed transaction — legacy or segwit,
    marker and every count/length in any CompactSize width, witness stacks skipped iff the flag is odd —
    and yields its fields (the parser is a left inverse of the on-disk encoder; the rest of the stream is untouched) -/
theorem readTx_encTx (t : Tx) (h : t.ok) (rest : Bytes) : readTx (t.enc ++ rest) = some (t.toR, rest) :=
  readTx_enc t h rest

/-- `to_bytes` of the parsed transaction is the witness-stripped serialisation, so txid = H(witness-stripped bytes);
    non-minimal count encodings are replayed byte for byte -/
theorem txid_preimage_is_stripped (t : Tx) : t.toR.toBytes = t.encStripped :=
  toBytes_stripped t

/-- the block reader consumes exactly the encoding of a well-formed block and returns its header and transactions -/
theorem readBlock_encBlock (thr : Option Nat) (b : Block) (hk : b.ok thr) (rest : Bytes) :
    Aux.readBlockCoin thr (b.enc ++ rest) = some (b.toR, rest) :=
  readBlockCoin_enc thr b hk rest

/-- the 80 header bytes that are hashed for the block hash are the 80 bytes on disk -/
theorem header_bytes (h : Header) (hk : h.ok) : h.toR.toBytes = h.enc ∧ h.enc.length = 80 :=
  ⟨header_toBytes h, header_enc_length h hk⟩

/-- CompactSize: every width (1/3/5/9 bytes) decodes to its value and keeps its raw bytes -/
theorem compactSize_roundtrip (c : Count) (h : c.ok) (rest : Bytes) :
    readVarUint (c.enc ++ rest) = some (⟨c.v, c.enc⟩, rest) :=
  readVarUint_enc c h rest

/-- the rows written for a parsed block are the rows of the on-disk values: block hash = double-SHA256 of the 80 header
    bytes, txid = double-SHA256 of the witness-stripped transaction, one row per transaction / input / output in order,
    scripts in hex, integers in decimal, blocksize = the stored length prefix (`Run.specRows` spells the fields out) -/
theorem rows_are_disk_values (ver : UInt8) (size height : Nat) (b : Block) :
    Csv.rows ver size height b.toR = Run.specRows ver size height b :=
  Run.rows_toR ver size height b

/-- exactly one row per transaction, per input and per output of the block -/
theorem one_row_each (ver : UInt8) (size height : Nat) (b : Block) :
    (Run.specRows ver size height b).2.1.length = b.txs.length ∧
    (Run.specRows ver size height b).2.2.1.length = (b.txs.map (·.ins.length)).sum ∧
    (Run.specRows ver size height b).2.2.2.length = (b.txs.map (·.outs.length)).sum :=
  Run.specRows_counts ver size height b

/-- **whole run.**  For a data directory whose index loads and in which every height of `start..maxH` is stored (record
    present, blk file present, `LE32 size ‖ encoding of a well-formed block` at `offset-4`, whatever precedes or follows;
    with `--verify`, verification passing), `csvdump` exits 0 and writes the four files named `…-start-maxH.csv` whose rows
    are the rows of the abstract blocks in chain order, and the totals it prints are the numbers of rows written. -/
theorem csvdump_run_spec (o : Run.Opts) (key : Option Bytes) (kvs : List (Bytes × Bytes)) (files : List Run.BlkFile)
    (coin : Run.Coin) (ld : Run.Loaded) (hcoin : Run.coinOf o.coin = some coin) (hld : Run.loadIndex o kvs = .ok ld)
    (hkey : key ≠ some []) (sz : Nat → Nat) (blk : Nat → Block)
    (hs : ∀ k, o.start ≤ k → k < o.start + (ld.maxH + 1 - o.start) →
      Run.Stored coin key (files.filterMap fun f => (Run.parseBlkIndex f.name).map fun n => (n, f)) ld.trimmed k (sz k) (blk k) ∧
      (o.verify = true → Run.verifyBlock coin ld.trimmed (blk k).toR k = .ok ()))
    (hne : o.start ≤ ld.maxH) (hcb : o.callback = "csvdump") :
    let chain := (List.range' o.start (ld.maxH + 1 - o.start)).map (fun k => (k, sz k, blk k))
    let rs := chain.map fun b => Run.specRows coin.version b.2.1 b.1 b.2.2
    (Run.run o key kvs files).exit = 0 ∧
    (Run.run o key kvs files).files = Run.specCsvFiles coin.version o.start ld.maxH chain ∧
    (Run.run o key kvs files).stdout =
      [s!"transactions={(rs.flatMap (·.2.1)).length}", s!"inputs={(rs.flatMap (·.2.2.1)).length}",
       s!"outputs={(rs.flatMap (·.2.2.2)).length}"] := by
  intro chain rs
  obtain ⟨h0, _, hf, ho⟩ := Run.run_stored o key kvs files coin ld hcoin hld hkey sz blk hs hne (by simp [Run.callbackPanics, hcb])
  have hmap : (List.range' o.start (ld.maxH + 1 - o.start)).map (fun k => (⟨k, sz k, (blk k).toR⟩ : CB.EBlock)) =
      chain.map fun b => ⟨b.1, b.2.1, b.2.2.toR⟩ := by
    simp [chain, List.map_map, Function.comp_def]
  have hok : ∀ b ∈ chain, b.2.2.ok coin.auxpow := by
    intro b hb
    simp only [chain, List.mem_map, List.mem_range'_1] at hb
    obtain ⟨k, ⟨hk1, hk2⟩, rfl⟩ := hb
    obtain ⟨⟨_, _, _, _, _, _, _, _, hbk⟩, _⟩ := hs k hk1 hk2
    exact hbk
  refine ⟨h0, ?_, ?_⟩
  · rw [hf, hmap]
    simp only [Run.callbackOut, hcb]
    exact Run.csvFiles_toR coin.version o.start ld.maxH chain
  · rw [ho, hmap]
    simp only [Run.callbackOut, hcb]
    exact Run.totals_eq_rows coin.version coin.auxpow chain hok

/-- scripts and hashes are lower-case hex, two characters per byte, and the rendering determines the bytes -/
theorem hex_lowercase_faithful (bs : Bytes) :
    (Sha.hex bs).toList.length = 2 * bs.length ∧
    (∀ c ∈ (Sha.hex bs).toList, c ∈ ['0','1','2','3','4','5','6','7','8','9','a','b','c','d','e','f']) ∧
    Hex.unhex (Sha.hex bs) = some bs :=
  ⟨(Render.hex_lowercase bs).1, (Render.hex_lowercase bs).2, Render.unhex_hex bs⟩

/-- integers are decimal digits only and the rendering determines the number -/
theorem decimal_faithful (n : Nat) :
    (∀ c ∈ (toString n).toList, c.isDigit = true) ∧ Nat.ofDigitChars 10 (toString n).toList 0 = n :=
  ⟨Render.decimal_digits n, Render.decimal_roundtrip n⟩

/-- non-vacuity at the width boundaries: 0xfc (1 byte), 0xfd and 0xffff (3 bytes), 0x10000 (5 bytes), 2^32 (9 bytes),
    and a non-minimal 9-byte encoding of 1 -/
example : (Count.mk .w1 0xfc).ok ∧ (Count.mk .w3 0xfd).ok ∧ (Count.mk .w3 0xffff).ok ∧ (Count.mk .w5 0x10000).ok ∧
    (Count.mk .w9 (2^32)).ok ∧ (Count.mk .w9 1).ok := by
  simp [Count.ok]

end Rbp.Props.C01
