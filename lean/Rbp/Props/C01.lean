import Rbp.Proofs.Wire
import Rbp.Proofs.Block
/-!
# C01 — csvdump reproduces every on-disk block, tx, input and output field exactly
-/
namespace Rbp.Props.C01
open W

/-- the transaction reader consumes exactly the encoding of any well-formed transaction — legacy or segwit,
    marker and every count/length in any CompactSize width, witness stacks skipped iff the flag is odd —
    and yields its fields (the parser is a left inverse of the on-disk encoder; the rest of the stream is untouched) -/
theorem readTx_encTx (t : Tx) (h : t.ok) (rest : Bytes) : readTx (t.enc ++ rest) = some (t.toR, rest) :=
  readTx_enc t h rest

/-- `to_bytes` of the parsed transaction is the witness-stripped serialisation, so txid = H(witness-stripped bytes);
    non-minimal count encodings are replayed byte for byte -/
theorem txid_preimage_is_stripped (t : Tx) : t.toR.toBytes = t.encStripped :=
  toBytes_stripped t

/-- the block reader consumes exactly the encoding of a well-formed block and returns its header and transactions -/
theorem readBlock_encBlock (thr : Option Nat) (b : Block) (hk : b.ok thr) (rest : Bytes) :
    Aux.readBlockCoin thr (b.enc ++ rest) = some (b.toR, rest) :=
  readBlockCoin_enc thr b hk rest

/-- the 80 header bytes that are hashed for the block hash are the 80 bytes on disk -/
theorem header_bytes (h : Header) (hk : h.ok) : h.toR.toBytes = h.enc ∧ h.enc.length = 80 :=
  ⟨header_toBytes h, header_enc_length h hk⟩

/-- CompactSize: every width (1/3/5/9 bytes) decodes to its value and keeps its raw bytes -/
theorem compactSize_roundtrip (c : Count) (h : c.ok) (rest : Bytes) :
    readVarUint (c.enc ++ rest) = some (⟨c.v, c.enc⟩, rest) :=
  readVarUint_enc c h rest

/-- non-vacuity at the width boundaries: 0xfc (1 byte), 0xfd and 0xffff (3 bytes), 0x10000 (5 bytes), 2^32 (9 bytes),
    and a non-minimal 9-byte encoding of 1 -/
example : (Count.mk .w1 0xfc).ok ∧ (Count.mk .w3 0xfd).ok ∧ (Count.mk .w3 0xffff).ok ∧ (Count.mk .w5 0x10000).ok ∧
    (Count.mk .w9 (2^32)).ok ∧ (Count.mk .w9 1).ok := by
  simp [Count.ok]

end Rbp.Props.C01
