import Rbp.Proofs.Wire
namespace Rbp.Props.C01
open W
theorem readTx_encTx (t : Tx) (h : t.ok) (rest : Bytes) : readTx (t.enc ++ rest) = some (t.toR, rest) :=
  readTx_enc t h rest
end Rbp.Props.C01
