import Rbp.Proofs.Utxo
import Rbp.Proofs.Wire
import Rbp.Proofs.RunSpec
import Rbp.Props.C10
import Rbp.Proofs.UtxoSize
/-!
# C07 — unspentcsvdump lists exactly the unspent, address-bearing outputs of the range
-/
namespace Rbp.Props.C07
open Std W CB

/-- the map the callback ends with answers every lookup like "the last operation that mentions the outpoint"
    (operations = per tx: one spend per input, then one creation per address-bearing output; in chain order) -/
theorem fold_eq_spec (ver : UInt8) (bs : List EBlock) (k : Bytes) :
    (utxo ver bs)[k]? = U.lastTouch none k (opsOf ver bs) := by
  rw [utxo_eq_run]; exact U.unspent_from_empty _ k

/-- declarative reading: an outpoint is listed with value `v` iff some transaction of the range created it with an
    address and nothing later in the range (later in the same block included) spends or re-creates it;
    a later creation of the same outpoint replaces the earlier one -/
theorem listed_iff (ver : UInt8) (bs : List EBlock) (k : Bytes) (v : Unspent) :
    (utxo ver bs)[k]? = some v ↔
      ∃ pre post, opsOf ver bs = pre ++ U.Op.create k v :: post ∧ ∀ o ∈ post, o.key ≠ k := by
  rw [fold_eq_spec, U.lastTouch_iff]
  simp

/-- the key (txid ‖ LE32 index) determines the outpoint: nothing is merged, nothing is listed under a wrong txid/index -/
theorem key_injective (t t' : Bytes) (i i' : Nat) (ht : t.length = 32) (ht' : t'.length = 32)
    (hi : i < 2^32) (hi' : i' < 2^32) (h : key t i = key t' i') : t = t' ∧ i = i' := by
  unfold key at h
  rw [Nat.mod_eq_of_lt hi, Nat.mod_eq_of_lt hi'] at h
  have := List.append_inj h (by rw [ht, ht'])
  refine ⟨this.1, ?_⟩
  have h1 := le_toLE 4 i (by simpa using hi)
  have h2 := le_toLE 4 i' (by simpa using hi')
  rw [this.2] at h1
  omega

/-- txid and index are recovered from the key exactly as `on_complete` does (`key[0..32]`, LE32 of the rest) -/
theorem key_recover (t : Bytes) (i : Nat) (ht : t.length = 32) (hi : i < 2^32) :
    (key t i).take 32 = t ∧ le ((key t i).drop 32) = i := by
  unfold key
  rw [Nat.mod_eq_of_lt hi]
  constructor
  · rw [← ht]; simp
  · rw [← ht]; simp; exact le_toLE 4 i (by simpa using hi)

/-- nothing is listed twice: the rows come from the bindings of a map, whose keys are pairwise distinct -/
theorem rows_distinct_keys (m : HashMap Bytes Unspent) : m.toList.Pairwise (fun a b => (a.1 == b.1) = false) :=
  HashMap.distinct_keys_toList

/-- and every binding of the map is a row (`(k, v) ∈ toList ↔ m[k]? = some v`) -/
theorem row_iff_binding (m : HashMap Bytes Unspent) (k : Bytes) (v : Unspent) :
    (k, v) ∈ m.toList ↔ m[k]? = some v :=
  HashMap.mem_toList_iff_getElem?_eq_some

/-- an outpoint the range never created is not listed, whatever spends it -/
theorem unknown_outpoint_not_listed (ver : UInt8) (bs : List EBlock) (k : Bytes)
    (h : ∀ o ∈ opsOf ver bs, ∀ v, o ≠ U.Op.create k v) : (utxo ver bs)[k]? = none := by
  cases hv : (utxo ver bs)[k]? with
  | none => rfl
  | some v =>
    obtain ⟨pre, post, he, _⟩ := (listed_iff ver bs k v).mp hv
    exact absurd rfl (h (U.Op.create k v) (by rw [he]; simp) v)

/-- the dump never has more rows than address-bearing outputs were created in the range: a spend only removes, a creation adds
    at most one row (a repeated outpoint — the duplicate coinbases of BIP30 fame — replaces) -/
theorem rows_bounded_by_creations (ver : UInt8) (bs : List EBlock) :
    (utxo ver bs).size ≤ U.creates (opsOf ver bs) := by
  rw [utxo_eq_run]
  simpa using U.run_size_le (opsOf ver bs) (∅ : HashMap Bytes Unspent)

/-- **whole run.**  For a stored chain (every height of the range holds a well-formed block where its record says),
    `unspentcsvdump` exits 0 and writes one file `unspent-start-maxH.csv`: the header followed by one row per binding of the
    map of `fold_eq_spec` / `listed_iff` over exactly the delivered blocks (txid, index, creation height, value, address);
    the summary counts transactions, inputs and the address-bearing outputs inserted -/
theorem unspent_run_spec (o : Run.Opts) (key : Option Bytes) (kvs : List (Bytes × Bytes)) (files : List Run.BlkFile)
    (coin : Run.Coin) (ld : Run.Loaded) (hcoin : Run.coinOf o.coin = some coin) (hld : Run.loadIndex o kvs = .ok ld)
    (hkey : key ≠ some []) (sz : Nat → Nat) (blk : Nat → W.Block)
    (hs : ∀ k, o.start ≤ k → k < o.start + (ld.maxH + 1 - o.start) →
      Run.Stored coin key (files.filterMap fun f => (Run.parseBlkIndex f.name).map fun n => (n, f)) ld.trimmed k (sz k) (blk k) ∧
      (o.verify = true → Run.verifyBlock coin ld.trimmed (blk k).toR k = .ok ()))
    (hne : o.start ≤ ld.maxH) (hcb : o.callback = "unspentcsvdump") :
    let bs := (List.range' o.start (ld.maxH + 1 - o.start)).map (fun k => (⟨k, sz k, (blk k).toR⟩ : EBlock))
    (Run.run o key kvs files).exit = 0 ∧
    (Run.run o key kvs files).files =
      [(s!"unspent-{o.start}-{ld.maxH}.csv", "txid;indexOut;height;value;address" :: unspentRows (utxo coin.version bs))] ∧
    (Run.run o key kvs files).stdout = Run.totalsUnspent coin.version bs := by
  intro bs
  obtain ⟨h0, _, hf, ho⟩ := Run.run_stored o key kvs files coin ld hcoin hld hkey sz blk hs hne
    (by simp [Run.callbackPanics, hcb])
  refine ⟨h0, ?_, ?_⟩
  · rw [hf]; simp only [Run.callbackOut, hcb]; rfl
  · rw [ho]; simp only [Run.callbackOut, hcb]; rfl


/-- **every input.**  No hypothesis on the directory: whenever an `unspentcsvdump` run exits 0, its one file is the header line
    followed by one row per binding of the UTXO fold over exactly the blocks that were delivered, named with the start height and
    the last delivered height (with `listed_iff` this is the property's `exactly the unspent, address-bearing outputs`) -/
theorem exit0_dump_is_fold_over_delivered (o : Run.Opts) (key : Option Bytes) (kvs : List (Bytes × Bytes)) (files : List Run.BlkFile)
    (coin : Run.Coin) (hcoin : Run.coinOf o.coin = some coin) (hcb : o.callback = "unspentcsvdump")
    (h0 : (Run.run o key kvs files).exit = 0) :
    (Run.run o key kvs files).files =
      [(s!"unspent-{o.start}-{o.start + (Run.deliveredBlocks o key kvs files).length - 1}.csv",
        "txid;indexOut;height;value;address" :: unspentRows (utxo coin.version (Run.deliveredBlocks o key kvs files)))] := by
  have := (Rbp.Props.C10.exit0_output_is_callback_over_delivered o key kvs files coin hcoin h0).1
  rw [this]
  simp [Run.callbackOut, hcb]

end Rbp.Props.C07
