import Rbp.Model.Output
import Rbp.Proofs.Faults
/-!
# C10 — exit status 0 means complete, final-named output; any failure leaves none
(logical core of one output file: BufWriter with capacity rule, byte budget as the write-fault parameter, explicit flush,
rename, drop.  Atomicity of rename(2) and the page cache of a killed process are assumptions — partial.)
-/
namespace Rbp.Props.C10
open O

/-- for every buffer capacity, every byte budget (write failure at any point, including the final buffered flush) and every
    sequence of rows: success ⇒ the file is renamed and holds exactly all rows; a reported failure ⇒ it was never renamed -/
theorem exit0_complete_fault_no_final (cap budget : Nat) (chunks : List Bytes) :
    let s := exec (init cap budget) (fixedProg chunks)
    (s.ok = true → s.renamed = true ∧ s.w.disk = chunks.flatten ∧ s.w.buf = []) ∧
    (s.ok = false → s.renamed = false) :=
  fixed_final cap budget chunks

/-- after ANY prefix of the program (= a SIGKILL at any instant) a file visible under its final name is complete -/
theorem no_partial_final_at_any_instant (cap budget : Nat) (chunks : List Bytes) (k : Nat) :
    let s := exec (init cap budget) ((fixedProg chunks).take k)
    s.renamed = true → s.w.disk = chunks.flatten ∧ s.w.buf = [] :=
  fixed_no_partial_instant cap budget chunks k

/-- the order the code had before the repair (rename, then the buffered rows reach the file when the writer is dropped)
    violates both clauses — kept as a regression witness -/
theorem old_order_refuted :
    (let s := exec (init 10 1000) ((oldProg [bytes 3]).take 2); s.renamed = true ∧ s.w.disk ≠ bytes 3) ∧
    (let s := exec (init 10 2) (oldProg [bytes 3]); s.ok = true ∧ s.renamed = true ∧ s.w.disk ≠ bytes 3) :=
  ⟨old_partial_instant, old_truncated_exit0⟩

/-- **input faults, whole run.**  If the heights before `k` can be served and height `k` of the range cannot — its blk file
    is missing, or the block cannot be read at the recorded offset (file emptied, truncated inside the block, offset past the
    end), or `--verify` rejects it — the process exits 1, reports exactly height `k`, has delivered exactly `start..k-1`, and
    no final-named output file exists: `on_complete`, the only place where files are renamed, is never reached. -/
theorem input_fault_no_final (o : Run.Opts) (key : Option W.Bytes) (kvs : List (W.Bytes × W.Bytes)) (files : List Run.BlkFile)
    (coin : Run.Coin) (ld : Run.Loaded) (hcoin : Run.coinOf o.coin = some coin) (hld : Run.loadIndex o kvs = .ok ld)
    (hfiles : (files.filterMap fun f => (Run.parseBlkIndex f.name).map fun n => (n, f)) ≠ [])
    (hkey : key ≠ some []) (k : Nat) (m : String) (hk1 : o.start ≤ k) (hk2 : k ≤ ld.maxH)
    (hf : Run.FailsAt coin o key (files.filterMap fun f => (Run.parseBlkIndex f.name).map fun n => (n, f)) ld.trimmed k m)
    (hs : ∀ j, o.start ≤ j → j < k →
      Run.Servable coin o key (files.filterMap fun f => (Run.parseBlkIndex f.name).map fun n => (n, f)) ld.trimmed j) :
    (Run.run o key kvs files).exit = 1 ∧ (Run.run o key kvs files).errHeight = some k ∧ (Run.run o key kvs files).msg = m ∧
    (Run.run o key kvs files).files = [] ∧ (Run.run o key kvs files).delivered = List.range' o.start (k - o.start) :=
  Run.run_fails_at o key kvs files coin ld hcoin hld hfiles hkey k m hk1 hk2 hf hs

/-- **truncation at any byte is such a fault.**  If from `offset-4` on the file holds only a strict prefix of
    `LE32 size ‖ encoding of a well-formed block` — cut at any byte of the length prefix or of the block, or nothing at all —
    the read fails; it can never produce some other, shorter block (the readers are monotone and consume an encoding exactly) -/
theorem truncated_block_is_fault (coin : Run.Coin) (size : Nat) (hs : size < 256 ^ 4) (b : W.Block) (hb : b.ok coin.auxpow)
    (pre suf : W.Bytes) (he : W.toLE 4 size ++ b.enc = pre ++ suf) (hsuf : suf ≠ []) :
    Run.parseAt coin pre = .err "Unable to read block: failed to fill whole buffer" ∧
    Run.parseAt coin [] = .err "Unable to read block: failed to fill whole buffer" :=
  ⟨Run.parseAt_truncated coin size hs b hb pre suf he hsuf, Run.parseAt_nil coin⟩

/-- non-vacuity: a run whose budget is exhausted by the final flush -/
example : (exec (init 10 4) (fixedProg [bytes 3, bytes 3])).ok = false ∧ (exec (init 10 4) (fixedProg [bytes 3, bytes 3])).renamed = false := by decide

end Rbp.Props.C10
