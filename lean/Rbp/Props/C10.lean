import Rbp.Model.Output
/-!
# C10 — exit status 0 means complete, final-named output; any failure leaves none
(logical core of one output file: BufWriter with capacity rule, byte budget as the write-fault parameter, explicit flush,
rename, drop.  Atomicity of rename(2) and the page cache of a killed process are assumptions — partial.)
-/
namespace Rbp.Props.C10
open O

/-- for every buffer capacity, every byte budget (write failure at any point, including the final buffered flush) and every
    sequence of rows: success ⇒ the file is renamed and holds exactly all rows; a reported failure ⇒ it was never renamed -/
theorem exit0_complete_fault_no_final (cap budget : Nat) (chunks : List Bytes) :
    let s := exec (init cap budget) (fixedProg chunks)
    (s.ok = true → s.renamed = true ∧ s.w.disk = chunks.flatten ∧ s.w.buf = []) ∧
    (s.ok = false → s.renamed = false) :=
  fixed_final cap budget chunks

/-- after ANY prefix of the program (= a SIGKILL at any instant) a file visible under its final name is complete -/
theorem no_partial_final_at_any_instant (cap budget : Nat) (chunks : List Bytes) (k : Nat) :
    let s := exec (init cap budget) ((fixedProg chunks).take k)
    s.renamed = true → s.w.disk = chunks.flatten ∧ s.w.buf = [] :=
  fixed_no_partial_instant cap budget chunks k

/-- the order the code had before the repair (rename, then the buffered rows reach the file when the writer is dropped)
    violates both clauses — kept as a regression witness -/
theorem old_order_refuted :
    (let s := exec (init 10 1000) ((oldProg [bytes 3]).take 2); s.renamed = true ∧ s.w.disk ≠ bytes 3) ∧
    (let s := exec (init 10 2) (oldProg [bytes 3]); s.ok = true ∧ s.renamed = true ∧ s.w.disk ≠ bytes 3) :=
  ⟨old_partial_instant, old_truncated_exit0⟩

/-- non-vacuity: a run whose budget is exhausted by the final flush -/
example : (exec (init 10 4) (fixedProg [bytes 3, bytes 3])).ok = false ∧ (exec (init 10 4) (fixedProg [bytes 3, bytes 3])).renamed = false := by decide

end Rbp.Props.C10
