import Rbp.Model.Output
import Rbp.Proofs.Faults
import Rbp.Proofs.OutputCsv
/-!
# C10 — exit status 0 means complete, final-named output; any failure leaves none
(logical core of one output file: BufWriter with capacity rule, byte budget as the write-fault parameter, explicit flush,
rename, drop.  Atomicity of rename(2) and the page cache of a killed process are assumptions — partial.)
-/
namespace Rbp.Props.C10
open O

/-- for every buffer capacity, every byte budget (write failure at any point, including the final buffered flush) and every
    sequence of rows: success ⇒ the file is renamed and holds exactly all rows; a reported failure ⇒ it was never renamed -/
theorem exit0_complete_fault_no_final (cap budget : Nat) (chunks : List Bytes) :
    let s := exec (init cap budget) (fixedProg chunks)
    (s.ok = true → s.renamed = true ∧ s.w.disk = chunks.flatten ∧ s.w.buf = []) ∧
    (s.ok = false → s.renamed = false) :=
  fixed_final cap budget chunks

/-- after ANY prefix of the program (= a SIGKILL at any instant) a file visible under its final name is complete -/
theorem no_partial_final_at_any_instant (cap budget : Nat) (chunks : List Bytes) (k : Nat) :
    let s := exec (init cap budget) ((fixedProg chunks).take k)
    s.renamed = true → s.w.disk = chunks.flatten ∧ s.w.buf = [] :=
  fixed_no_partial_instant cap budget chunks k

/-- the order the code had before the repair (rename, then the buffered rows reach the file when the writer is dropped)
    violates both clauses — kept as a regression witness -/
theorem old_order_refuted :
    (let s := exec (init 10 1000) ((oldProg [bytes 3]).take 2); s.renamed = true ∧ s.w.disk ≠ bytes 3) ∧
    (let s := exec (init 10 2) (oldProg [bytes 3]); s.ok = true ∧ s.renamed = true ∧ s.w.disk ≠ bytes 3) :=
  ⟨old_partial_instant, old_truncated_exit0⟩

/-- **input faults, whole run.**  If the heights before `k` can be served and height `k` of the range cannot — its blk file
    is missing, or the block cannot be read at the recorded offset (file emptied, truncated inside the block, offset past the
    end), or `--verify` rejects it — the process exits 1, reports exactly height `k`, has delivered exactly `start..k-1`, and
    no final-named output file exists: `on_complete`, the only place where files are renamed, is never reached. -/
theorem input_fault_no_final (o : Run.Opts) (key : Option W.Bytes) (kvs : List (W.Bytes × W.Bytes)) (files : List Run.BlkFile)
    (coin : Run.Coin) (ld : Run.Loaded) (hcoin : Run.coinOf o.coin = some coin) (hld : Run.loadIndex o kvs = .ok ld)
    (hfiles : (files.filterMap fun f => (Run.parseBlkIndex f.name).map fun n => (n, f)) ≠ [])
    (hkey : key ≠ some []) (k : Nat) (m : String) (hk1 : o.start ≤ k) (hk2 : k ≤ ld.maxH)
    (hf : Run.FailsAt coin o key (files.filterMap fun f => (Run.parseBlkIndex f.name).map fun n => (n, f)) ld.trimmed k m)
    (hs : ∀ j, o.start ≤ j → j < k →
      Run.Servable coin o key (files.filterMap fun f => (Run.parseBlkIndex f.name).map fun n => (n, f)) ld.trimmed j) :
    (Run.run o key kvs files).exit = 1 ∧ (Run.run o key kvs files).errHeight = some k ∧ (Run.run o key kvs files).msg = m ∧
    (Run.run o key kvs files).files = [] ∧ (Run.run o key kvs files).delivered = List.range' o.start (k - o.start) :=
  Run.run_fails_at o key kvs files coin ld hcoin hld hfiles hkey k m hk1 hk2 hf hs

/-- **truncation at any byte is such a fault.**  If from `offset-4` on the file holds only a strict prefix of
    `LE32 size ‖ encoding of a well-formed block` — cut at any byte of the length prefix or of the block, or nothing at all —
    the read fails; it can never produce some other, shorter block (the readers are monotone and consume an encoding exactly) -/
theorem truncated_block_is_fault (coin : Run.Coin) (size : Nat) (hs : size < 256 ^ 4) (b : W.Block) (hb : b.ok coin.auxpow)
    (pre suf : W.Bytes) (he : W.toLE 4 size ++ b.enc = pre ++ suf) (hsuf : suf ≠ []) :
    Run.parseAt coin pre = .err "Unable to read block: failed to fill whole buffer" ∧
    Run.parseAt coin [] = .err "Unable to read block: failed to fill whole buffer" :=
  ⟨Run.parseAt_truncated coin size hs b hb pre suf he hsuf, Run.parseAt_nil coin⟩

/-- **several output files (csvdump writes four).**  `n` buffered writers, rows written in ANY interleaving, then every writer
    flushed, then every file renamed, then the writers dropped; per-file byte budgets (any write may fail, the final flush
    included): success ⇒ every file is renamed and holds exactly its content with nothing left in a buffer; a reported
    failure ⇒ NO file was renamed -/
theorem exit0_complete_fault_no_final_n (n cap : Nat) (budget : Nat → Nat) (writes : List (Nat × Bytes)) :
    let s := ON.exec (ON.init cap budget) (ON.prog n writes)
    (s.ok = true → ∀ i, i < n → s.renamed i = true ∧ (s.ws i).disk = ON.content i writes ∧ (s.ws i).buf = []) ∧
    (s.ok = false → ∀ i, s.renamed i = false) :=
  ON.final_n n cap budget writes

/-- after ANY prefix of that program (a SIGKILL at any instant), every file visible under its final name is complete -/
theorem no_partial_final_at_any_instant_n (n cap : Nat) (budget : Nat → Nat) (writes : List (Nat × Bytes)) (k : Nat) :
    let s := ON.exec (ON.init cap budget) ((ON.prog n writes).take k)
    ∀ i, i < n → s.renamed i = true → (s.ws i).disk = ON.content i writes ∧ (s.ws i).buf = [] :=
  ON.no_partial_instant_n n cap budget writes k

/-- and the content of the four files in that statement is what C01 says csvdump writes: for the write program of
    `CsvDump::on_block` (block row to file 0; per transaction its row to file 1, its input rows to file 2, its output rows to
    file 3) the content of file `i` is the lines of the `i`-th csv file of the whole-program model, each followed by a newline -/
theorem csvdump_write_program (ver : UInt8) (start last : Nat) (bs : List CB.EBlock) :
    ((Run.csvFiles ver start last bs).map (·.2)) =
      [(bs.map fun b => (Csv.rows ver b.size b.height b.blk).1), bs.flatMap (fun b => (Csv.rows ver b.size b.height b.blk).2.1),
       bs.flatMap (fun b => (Csv.rows ver b.size b.height b.blk).2.2.1), bs.flatMap (fun b => (Csv.rows ver b.size b.height b.blk).2.2.2)] ∧
    ON.content 0 (Run.csvWrites ver bs) = (bs.map fun b => (Csv.rows ver b.size b.height b.blk).1).flatMap Run.lineBytes ∧
    ON.content 1 (Run.csvWrites ver bs) = (bs.flatMap fun b => (Csv.rows ver b.size b.height b.blk).2.1).flatMap Run.lineBytes ∧
    ON.content 2 (Run.csvWrites ver bs) = (bs.flatMap fun b => (Csv.rows ver b.size b.height b.blk).2.2.1).flatMap Run.lineBytes ∧
    ON.content 3 (Run.csvWrites ver bs) = (bs.flatMap fun b => (Csv.rows ver b.size b.height b.blk).2.2.2).flatMap Run.lineBytes :=
  Run.csv_content ver start last bs

/-- **composition.**  Run the four-writer machine on the write program of csvdump over the delivered blocks `bs`, with any
    buffer capacity and any per-file byte budgets.  If it reports success then every file carries its final name and, for
    every `i < 4`, the bytes on disk are exactly the lines of the `i`-th csv file of the whole-program model (`Run.csvFiles`,
    what C01 specifies), each followed by a newline, with nothing left in a buffer; if it reports a failure no file was renamed -/
theorem csvdump_disk_is_model_files (ver : UInt8) (start last : Nat) (bs : List CB.EBlock) (cap : Nat) (budget : Nat → Nat) :
    let s := ON.exec (ON.init cap budget) (ON.prog 4 (Run.csvWrites ver bs))
    (s.ok = true → ∀ i, i < 4 → s.renamed i = true ∧ (s.ws i).buf = [] ∧
      ((Run.csvFiles ver start last bs)[i]?).map (fun (f : String × List String) => f.2.flatMap Run.lineBytes) = some (s.ws i).disk) ∧
    (s.ok = false → ∀ i, s.renamed i = false) := by
  intro s
  have hf := ON.final_n 4 cap budget (Run.csvWrites ver bs)
  have hc := Run.csv_content ver start last bs
  refine ⟨fun hok i hi => ?_, hf.2⟩
  obtain ⟨hr, hd, hb⟩ := hf.1 hok i hi
  refine ⟨hr, hb, ?_⟩
  rw [hd]
  obtain ⟨h0, c0, c1, c2, c3⟩ := hc
  match i, hi with
  | 0, _ => rw [c0]; simp [Run.csvFiles, Function.comp_def, List.flatMap_map]
  | 1, _ => rw [c1]; simp [Run.csvFiles, Function.comp_def, List.flatMap_map]
  | 2, _ => rw [c2]; simp [Run.csvFiles, Function.comp_def, List.flatMap_map]
  | 3, _ => rw [c3]; simp [Run.csvFiles, Function.comp_def, List.flatMap_map]

/-- **whole-program model, every input.**  Whatever the options, key, index content and blk files are: if the run's exit
    status is not 0 — unknown coin, index that does not load, no blk file, unreadable or rejected block at any height, a panic
    in the parser or in a callback — it produced NO final-named file; and a rejected option pair produces none either -/
theorem nonzero_exit_no_final_files (o : Run.Opts) (key : Option W.Bytes) (kvs : List (W.Bytes × W.Bytes)) (files : List Run.BlkFile) :
    ((Run.run o key kvs files).exit ≠ 0 → (Run.run o key kvs files).files = []) ∧
    ((Run.main o key kvs files).exit ≠ 0 → (Run.main o key kvs files).files = []) := by
  have hrun : (Run.run o key kvs files).exit ≠ 0 → (Run.run o key kvs files).files = [] := by
    unfold Run.run
    repeat' split
    all_goals (try dsimp only)
    all_goals (repeat' split)
    all_goals (try dsimp only)
    all_goals (repeat' split)
    all_goals (try dsimp only)
    all_goals (repeat' split)
    all_goals (intro h; first | rfl | exact absurd rfl h)
  refine ⟨hrun, ?_⟩
  unfold Run.main
  split
  · intro _; rfl
  · exact hrun

/-- **exit status 0 means complete output, for every input.**  Whatever the directory holds: if csvdump's run exits 0, its
    four files are exactly the rows of ALL the blocks that were delivered to the callback (`Run.deliveredBlocks`), named with
    the start height and the last delivered height — never a prefix of them -/
theorem exit0_files_are_all_delivered_rows (o : Run.Opts) (key : Option W.Bytes) (kvs : List (W.Bytes × W.Bytes)) (files : List Run.BlkFile)
    (coin : Run.Coin) (hcoin : Run.coinOf o.coin = some coin) (hcb : o.callback = "csvdump")
    (h0 : (Run.run o key kvs files).exit = 0) :
    (Run.run o key kvs files).files =
      Run.csvFiles coin.version o.start (o.start + (Run.deliveredBlocks o key kvs files).length - 1) (Run.deliveredBlocks o key kvs files) ∧
    (Run.run o key kvs files).delivered = (Run.deliveredBlocks o key kvs files).map (·.height) := by
  revert h0
  unfold Run.run Run.deliveredBlocks
  simp only [hcoin]
  cases hl : Run.loadIndex o kvs with
  | err m => intro h; cases h
  | panic m => intro h; cases h
  | ok ld =>
    dsimp only
    split
    · intro h; cases h
    · split
      · intro h; cases h
      · split
        · intro h; cases h
        · intro h; cases h
        · split
          · intro h; cases h
          · intro _
            simp [Run.callbackOut, hcb]

/-- the same for every callback: on exit status 0 the files and the standard output are the callback's result over ALL delivered
    blocks (unspent dump and balances: header + one row per binding of the UTXO fold; opreturn: its lines; simplestats: its report) -/
theorem exit0_output_is_callback_over_delivered (o : Run.Opts) (key : Option W.Bytes) (kvs : List (W.Bytes × W.Bytes)) (files : List Run.BlkFile)
    (coin : Run.Coin) (hcoin : Run.coinOf o.coin = some coin) (h0 : (Run.run o key kvs files).exit = 0) :
    (Run.run o key kvs files).files =
      (Run.callbackOut o coin.version (o.start + (Run.deliveredBlocks o key kvs files).length - 1) (Run.deliveredBlocks o key kvs files)).1 ∧
    (Run.run o key kvs files).stdout =
      (Run.callbackOut o coin.version (o.start + (Run.deliveredBlocks o key kvs files).length - 1) (Run.deliveredBlocks o key kvs files)).2 := by
  revert h0
  unfold Run.run Run.deliveredBlocks
  simp only [hcoin]
  cases hl : Run.loadIndex o kvs with
  | err m => intro h; cases h
  | panic m => intro h; cases h
  | ok ld =>
    dsimp only
    split
    · intro h; cases h
    · split
      · intro h; cases h
      · split
        · intro h; cases h
        · intro h; cases h
        · split
          · intro h; cases h
          · intro _
            exact ⟨rfl, rfl⟩

/-- non-vacuity: two files, the second one's final flush fails: nothing is renamed, not even the first file -/
example : (ON.exec (ON.init 10 (fun i => if i = 0 then 100 else 2)) (ON.prog 2 [(0, bytes 3), (1, bytes 3)])).ok = false ∧
    (ON.exec (ON.init 10 (fun i => if i = 0 then 100 else 2)) (ON.prog 2 [(0, bytes 3), (1, bytes 3)])).renamed 0 = false := by decide

/-- non-vacuity: a run whose budget is exhausted by the final flush -/
example : (exec (init 10 4) (fixedProg [bytes 3, bytes 3])).ok = false ∧ (exec (init 10 4) (fixedProg [bytes 3, bytes 3])).renamed = false := by decide

end Rbp.Props.C10
