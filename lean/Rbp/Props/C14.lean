import Rbp.Proofs.ScriptMachine
import Rbp.Proofs.ScriptMachineBtc
/-!
# C14 — no script or witness content can abort a run or disturb other rows
Totality is stated on the panic-site models: every Rust site that can panic is an explicit `.panic` outcome there.
-/
namespace Rbp.Props.C14
open S SM

/-- fork coins: for every version byte and every byte string (any slice Rust can hold: length < 2^63), the evaluator of
    `custom.rs` — modelled with explicit panic outcomes at `bytes[ip]`, `&bytes[ip+1..]`, `&bytes[ip..ip+len]`, `elements[i]`
    and the usize addition `ip + data_len` — never reaches one, and returns the verdict of the structural model -/
theorem evalCustom_total (ver : UInt8) (s : Bytes) (hlen : s.length < 2^63) :
    SM.eval ver s = .ok (evalCustom ver s) :=
  eval_eq ver s hlen

/-- in particular the tokeniser loop: never out of fuel, never out of bounds, and equal to the structural tokeniser;
    `eof` (a push running past the end) is the only failure -/
theorem tokeniser_total (s : Bytes) (hlen : s.length < 2^63) :
    SM.loop s (s.length + 1) 0 [] = (match tokens s with | some t => .ok t | none => .eof) := by
  rw [loop_eq s hlen (s.length + 1) 0 [] (by omega) (by omega)]
  simp only [List.drop_zero, expect]
  cases tokens s <;> simp

/-- `match_stack_pattern` indexes both vectors only below their common length -/
theorem matchPattern_total (els pat : List El) : ∃ b, matchPattern els pat = .ok b :=
  ⟨_, matchPattern_eq els pat⟩

/-- Bitcoin / testnet3: the path through rust-bitcoin, modelled with its panic sites explicit — the `u8` key counter of
    `Script::is_multisig` (behind the repo's instruction-count guard), `bytes[bytes.len() - 2]` in `is_bare_multisig`, and
    `unreachable!()` in `p2pk_to_string` — never reaches one, for every byte string, and returns the structural model's verdict -/
theorem evalBtc_total (testnet : Bool) (s : Bytes) : SMB.evalBtcM testnet s = .ok (evalBtc testnet s) :=
  SMB.evalBtcM_eq testnet s

/-- the guard is what makes the counter safe: a script accepted by it has at most 19 instructions, and a script typed
    multisig has at least 3 bytes, so `len - 2` cannot underflow -/
theorem bare_multisig_safe (s : Bytes) : SMB.isBareMultisigM s = .ok (isBareMultisig s) ∧ (isMultisigLib s = true → 3 ≤ s.length) :=
  ⟨SMB.isBareMultisigM_eq s, SMB.multisig_len s⟩

/-- non-vacuity: the panic outcome of the counter model is reachable without the guard (the 256th push) -/
example : SMB.keysM [some (Ins.push [])] 255 = .panic := by decide

/-- non-vacuity: a PUSHDATA4 announcing 2^32-1 bytes on a 5-byte script ends in `eof`, not in a panic -/
example : SM.loop [0x4e, 0xff, 0xff, 0xff, 0xff] 6 0 [] = .eof := by decide

end Rbp.Props.C14
