import Rbp.Proofs.ScriptMachine
import Rbp.Proofs.ScriptMachineBtc
import Rbp.Proofs.RunSpec
/-!
# C14 — no script or witness content can abort a run or disturb other rows
Totality is stated on the panic-site models: every Rust site that can panic is an explicit `.panic` outcome there.
-/
namespace Rbp.Props.C14
open S SM

/-- fork coins: for every version byte and every byte string (any slice Rust can hold: length < 2^63), the evaluator of
    `custom.rs` — modelled with explicit panic outcomes at `bytes[ip]`, `&bytes[ip+1..]`, `&bytes[ip..ip+len]`, `elements[i]`
    and the usize addition `ip + data_len` — never reaches one, and returns the verdict of the structural model -/
theorem evalCustom_total (ver : UInt8) (s : Bytes) (hlen : s.length < 2^63) :
    SM.eval ver s = .ok (evalCustom ver s) :=
  eval_eq ver s hlen

/-- in particular the tokeniser loop: never out of fuel, never out of bounds, and equal to the structural tokeniser;
    `eof` (a push running past the end) is the only failure -/
theorem tokeniser_total (s : Bytes) (hlen : s.length < 2^63) :
    SM.loop s (s.length + 1) 0 [] = (match tokens s with | some t => .ok t | none => .eof) := by
  rw [loop_eq s hlen (s.length + 1) 0 [] (by omega) (by omega)]
  simp only [List.drop_zero, expect]
  cases tokens s <;> simp

/-- `match_stack_pattern` indexes both vectors only below their common length -/
theorem matchPattern_total (els pat : List El) : ∃ b, matchPattern els pat = .ok b :=
  ⟨_, matchPattern_eq els pat⟩

/-- Bitcoin / testnet3: the path through rust-bitcoin, modelled with its panic sites explicit — the `u8` key counter of
    `Script::is_multisig` (behind the repo's instruction-count guard), `bytes[bytes.len() - 2]` in `is_bare_multisig`, and
    `unreachable!()` in `p2pk_to_string` — never reaches one, for every byte string, and returns the structural model's verdict -/
theorem evalBtc_total (testnet : Bool) (s : Bytes) : SMB.evalBtcM testnet s = .ok (evalBtc testnet s) :=
  SMB.evalBtcM_eq testnet s

/-- the guard is what makes the counter safe: a script accepted by it has at most 19 instructions, and a script typed
    multisig has at least 3 bytes, so `len - 2` cannot underflow -/
theorem bare_multisig_safe (s : Bytes) : SMB.isBareMultisigM s = .ok (isBareMultisig s) ∧ (isMultisigLib s = true → 3 ≤ s.length) :=
  ⟨SMB.isBareMultisigM_eq s, SMB.multisig_len s⟩

/-- **whole run: whatever the scripts and witness items contain, the run completes.**  For every directory whose index loads
    and in which every height of the range stores a well-formed block — and well-formedness constrains only the *lengths* of
    scriptPubKeys, scriptSigs and witness items, never their bytes (`content_free`) — every callback exits 0 and delivers the
    whole range, provided the callback's own u64 sums stay in range (`Run.callbackPanics`: value sums, never script content) -/
theorem any_content_completes (o : Run.Opts) (key : Option W.Bytes) (kvs : List (W.Bytes × W.Bytes)) (files : List Run.BlkFile)
    (coin : Run.Coin) (ld : Run.Loaded) (hcoin : Run.coinOf o.coin = some coin) (hld : Run.loadIndex o kvs = .ok ld)
    (hkey : key ≠ some []) (sz : Nat → Nat) (blk : Nat → W.Block)
    (hs : ∀ k, o.start ≤ k → k < o.start + (ld.maxH + 1 - o.start) →
      Run.Stored coin key (files.filterMap fun f => (Run.parseBlkIndex f.name).map fun n => (n, f)) ld.trimmed k (sz k) (blk k) ∧
      (o.verify = true → Run.verifyBlock coin ld.trimmed (blk k).toR k = .ok ()))
    (hne : o.start ≤ ld.maxH)
    (hnp : Run.callbackPanics o coin.version
      ((List.range' o.start (ld.maxH + 1 - o.start)).map (fun k => (⟨k, sz k, (blk k).toR⟩ : CB.EBlock))) = false) :
    (Run.run o key kvs files).exit = 0 ∧ (Run.run o key kvs files).delivered = List.range' o.start (ld.maxH + 1 - o.start) :=
  ⟨(Run.run_stored o key kvs files coin ld hcoin hld hkey sz blk hs hne hnp).1,
   (Run.run_stored o key kvs files coin ld hcoin hld hkey sz blk hs hne hnp).2.1⟩

/-- csvdump, unspentcsvdump and opreturn have no such sums: they never panic on delivered values -/
theorem no_callback_panic (o : Run.Opts) (ver : UInt8) (bs : List CB.EBlock)
    (h : o.callback = "csvdump" ∨ o.callback = "unspentcsvdump" ∨ o.callback = "opreturn") :
    Run.callbackPanics o ver bs = false := by
  rcases h with h | h | h <;> simp [Run.callbackPanics, h]

/-- the framing never looks inside the three fields: replacing the bytes of a scriptPubKey, a scriptSig or a witness item by
    any bytes of the same length keeps the enclosing structure well-formed (so the round-trip and whole-run theorems apply
    to the result), and witness items are not even part of the parsed transaction -/
theorem content_free :
    (∀ (o : W.TxOut) (s' : W.Bytes), s'.length = o.script.length → o.ok → ({ o with script := s' } : W.TxOut).ok) ∧
    (∀ (i : W.TxIn) (s' : W.Bytes), s'.length = i.script.length → i.ok → ({ i with script := s' } : W.TxIn).ok) ∧
    (∀ (w : W.WitItem) (d' : W.Bytes), d'.length = w.data.length → w.ok → ({ w with data := d' } : W.WitItem).ok) ∧
    (∀ (t : W.Tx) (sw : Option W.Segwit), ({ t with segwit := sw } : W.Tx).toR = t.toR) :=
  ⟨Run.TxOut.ok_content_free, Run.TxIn.ok_content_free, Run.WitItem.ok_content_free, Run.witness_invisible⟩

/-- rows not derived from the field are what they are without it: within a transaction every tx_in row is a function of
    (txid, that input) and every tx_out row of (txid, index, that output); across transactions, replacing one transaction of
    a block leaves the rows of all the others untouched -/
theorem rows_noninterference (ver : UInt8) (bh : String) (t : W.Tx) (b : W.Block) (i : Nat) (t' : W.Tx) :
    (Run.txRowsA ver bh t).2.1 = t.ins.map (fun i =>
      s!"{Csv.hashHex (A.sha256d t.encStripped)};{Csv.hashHex i.prev};{i.idx};{Sha.hex i.script};{i.seq}") ∧
    (Run.txRowsA ver bh t).2.2 = ((List.range t.outs.length).zip t.outs).map (fun (k, o) =>
      s!"{Csv.hashHex (A.sha256d t.encStripped)};{k};{o.value};{Sha.hex o.script};{((S.eval ver o.script).address).getD ""}") ∧
    ({ b with txs := b.txs.set i t' } : W.Block).txs.map (Run.txRowsA ver (Csv.hashHex (A.sha256d b.header.enc))) =
      (b.txs.map (Run.txRowsA ver (Csv.hashHex (A.sha256d b.header.enc)))).set i
        (Run.txRowsA ver (Csv.hashHex (A.sha256d b.header.enc)) t') :=
  ⟨Run.txRowsA_ins ver bh t, Run.txRowsA_outs ver bh t, Run.other_txs_untouched ver b i t'⟩

/-- non-vacuity: the panic outcome of the counter model is reachable without the guard (the 256th push) -/
example : SMB.keysM [some (Ins.push [])] 255 = .panic := by decide

/-- non-vacuity: a PUSHDATA4 announcing 2^32-1 bytes on a 5-byte script ends in `eof`, not in a panic -/
example : SM.loop [0x4e, 0xff, 0xff, 0xff, 0xff] 6 0 [] = .eof := by decide

end Rbp.Props.C14
