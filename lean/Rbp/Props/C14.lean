import Rbp.Model.Script
namespace Rbp.Props.C14
theorem placeholder_unfolds (v : UInt8) (s : List UInt8) : S.eval v s = (if v = 0x00 then S.evalBtc false s else if v = 0x6f then S.evalBtc true s else S.evalCustom v s) := rfl
end Rbp.Props.C14
