import Rbp.Model.Driver
import Rbp.Proofs.OpenFiles
import Rbp.Proofs.OpenBound
/-!
# C17 — open blk files stay bounded by the files overlapping the current height
(logical core; that dropping the reader releases the descriptor is the runtime's — partial)
-/
namespace Rbp.Props.C17
open D

/-- one `get_block`: after delivering height `h`, every file still open holds a block of a height yet to come
    (`h + 1 ≤ maxBy f`), provided the per-file maximum is the greatest height stored in that file -/
theorem open_invariant_step (idx : Index) (maxBy : Nat → Nat) (sp : MaxBySpec idx maxBy) (h : Nat) (r : Rec) (o : Nat → Bool)
    (hi : idx h = some r) (inv : Inv idx maxBy h o) : Inv idx maxBy (h + 1) (stepOpen maxBy o h r) :=
  step_inv idx maxBy sp h r o hi inv

/-- every reachable state of the driver loop satisfies the invariant (induction over the loop, any number of heights) -/
theorem open_invariant (idx : Index) (maxBy : Nat → Nat) (sp : MaxBySpec idx maxBy) (n h : Nat) (o : Nat → Bool)
    (inv : Inv idx maxBy h o) : ∃ next, Inv idx maxBy next (runOpen idx maxBy h n o) :=
  run_inv idx maxBy sp n h o inv

/-- files whose height spans are pairwise disjoint: at most one file is open at any instant, however many files there are -/
theorem disjoint_constant (idx : Index) (maxBy minBy : Nat → Nat) (next : Nat) (o : Nat → Bool)
    (inv : Inv idx maxBy next o) (hmin : ∀ f, o f = true → minBy f < next)
    (hdisj : ∀ f g, f ≠ g → maxBy f < minBy g ∨ maxBy g < minBy f) :
    ∀ f g, o f = true → o g = true → f = g :=
  at_most_one idx maxBy minBy next o inv hmin hdisj

/-- the empty open set satisfies the invariant (start of every run) -/
theorem init_inv (idx : Index) (maxBy : Nat → Nat) (s : Nat) : Inv idx maxBy s (fun _ => false) := by
  intro f hf; cases hf

/-- the same invariant on the *executed* whole-program model: for every run whose index loaded, in every state the driver
    loop can stop in (all heights done, a gap, a read or verification error at some height), each blk file whose reader is
    still open holds a block of a height at or above the next height to deliver -/
theorem open_invariant_run (coin : Run.Coin) (o : Run.Opts) (key : Option W.Bytes) (files : List (Nat × Run.BlkFile))
    (kvs : List (W.Bytes × W.Bytes)) (ld : Run.Loaded) (hld : Run.loadIndex o kvs = .ok ld) (n : Nat) :
    Run.OpenInv ld.full (o.start + (Run.driveLoop coin o key files ld.full ld.trimmed o.start n [] [] []).blocks.length)
      (Run.driveLoop coin o key files ld.full ld.trimmed o.start n [] [] []).openSet := by
  have h := Run.driveLoop_openInv coin o key files ld.full ld.trimmed (Run.loadIndex_nodup o kvs ld hld)
    (Run.loadIndex_sub o kvs ld hld) n o.start [] [] [] (by intro f hf; cases hf)
  simpa using h.2

/-- **the bound on the executed whole-program model.**  For every run whose index loaded, in every state the driver loop can
    stop in: the list of open blk files has no duplicates; each open file's height span contains the next height to deliver
    (it stores a block at or below it and one at or above it) — so the number of open files is at most the number of files
    whose spans overlap the current height; and when the files' height spans are pairwise disjoint at most ONE file is open,
    however many thousand files the directory has. -/
theorem open_bound_run (coin : Run.Coin) (o : Run.Opts) (key : Option W.Bytes) (files : List (Nat × Run.BlkFile))
    (kvs : List (W.Bytes × W.Bytes)) (ld : Run.Loaded) (hld : Run.loadIndex o kvs = .ok ld) (n : Nat) :
    let d := Run.driveLoop coin o key files ld.full ld.trimmed o.start n [] [] []
    d.openSet.Nodup ∧
    (∀ f ∈ d.openSet, (∃ h r, h ≤ o.start + d.blocks.length ∧ (h, r) ∈ ld.full ∧ r.file = f) ∧
                       (∃ h r, o.start + d.blocks.length ≤ h ∧ (h, r) ∈ ld.full ∧ r.file = f)) ∧
    (Run.DisjointSpans ld.full → d.openSet.length ≤ 1) :=
  Run.driveLoop_open_bound coin o key files ld.full ld.trimmed (Run.loadIndex_nodup o kvs ld hld)
    (Run.loadIndex_sub o kvs ld hld) n o.start

end Rbp.Props.C17
