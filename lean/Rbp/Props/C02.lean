import Rbp.Model.Driver
/-!
# C02 — exactly the blocks of heights start..min(end,tip) are delivered, once, ascending
-/
namespace Rbp.Props.C02

/-- contiguous index `0..T` ⇒ the driver loop delivers exactly `s, s+1, …, min(e,T)` (ascending, each once) -/
theorem delivered_eq (idx : D.Index) (T s : Nat) (e : Option Nat) (hcontig : ∀ k, k ≤ T → idx k ≠ none) :
    D.delivered idx T s e = List.range' s (D.maxHeight e T + 1 - s) :=
  D.delivered_eq idx T s e hcontig

/-- the upper end is `min e T` -/
theorem upper_is_min (e T : Nat) : D.maxHeight (some e) T = min e T := D.maxHeight_eq_min e T
theorem upper_is_tip (T : Nat) : D.maxHeight none T = T := rfl

end Rbp.Props.C02
