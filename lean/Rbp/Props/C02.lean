import Rbp.Model.Driver
import Rbp.Proofs.Driver
/-!
# C02 — exactly the blocks of heights start..min(end,tip) are delivered, once, ascending
-/
namespace Rbp.Props.C02
open Run

/-- the whole-program model: when every height of `start..maxH` can be served (record present, file present, block parses,
    verification passes if requested), the run delivers exactly `start, start+1, …, maxH` — ascending, each once — and
    completes: exit 0 for csvdump / unspentcsvdump / opreturn; for simplestats / balances exit 0 unless the callback's own
    u64 arithmetic panics on the delivered values (exit 101; see `Run.callbackPanics`) -/
theorem delivered_eq_range (o : Opts) (key : Option W.Bytes) (kvs : List (W.Bytes × W.Bytes)) (files : List BlkFile)
    (coin : Coin) (ld : Loaded) (hcoin : coinOf o.coin = some coin) (hld : loadIndex o kvs = .ok ld)
    (hfiles : (files.filterMap fun f => (parseBlkIndex f.name).map fun n => (n, f)) ≠ [])
    (hkey : key ≠ some [])
    (hs : ∀ k, o.start ≤ k → k < o.start + (ld.maxH + 1 - o.start) →
      Servable coin o key (files.filterMap fun f => (parseBlkIndex f.name).map fun n => (n, f)) ld.trimmed k) :
    (run o key kvs files).delivered = List.range' o.start (ld.maxH + 1 - o.start) ∧
    ((run o key kvs files).exit = 0 ∨ (run o key kvs files).exit = 101) ∧
    (o.callback ≠ "simplestats" → o.callback ≠ "balances" → (run o key kvs files).exit = 0) :=
  run_delivers_range o key kvs files coin ld hcoin hld hfiles hkey hs

/-- the upper end is `min(--end, tip)`, and the tip itself when no `--end` is given (both inclusive) -/
theorem upper_end (o : Opts) (kvs : List (W.Bytes × W.Bytes)) (ld : Loaded) (h : loadIndex o kvs = .ok ld) :
    ld.maxH = (match o.stop with
      | some e => min e (ld.full.foldl (fun a p => max a p.1) 0)
      | none => ld.full.foldl (fun a p => max a p.1) 0) :=
  loadIndex_maxH o kvs ld h

/-- trimming the index to the range loses no height of `start-1 .. maxH` (the record `start-1` is what --verify needs) -/
theorem trimmed_keeps_range (o : Opts) (kvs : List (W.Bytes × W.Bytes)) (ld : Loaded) (h : loadIndex o kvs = .ok ld)
    (k : Nat) (hk1 : o.start - 1 ≤ k) (hk2 : k ≤ ld.maxH) : lookup ld.trimmed k = lookup ld.full k :=
  loadIndex_trimmed o kvs ld h k hk1 hk2

/-- the driver loop alone, over an index seen as a partial function: contiguous `0..T` ⇒ exactly `s..min(e,T)` -/
theorem delivered_eq (idx : D.Index) (T s : Nat) (e : Option Nat) (hcontig : ∀ k, k ≤ T → idx k ≠ none) :
    D.delivered idx T s e = List.range' s (D.maxHeight e T + 1 - s) :=
  D.delivered_eq idx T s e hcontig

/-- file names carry `start` and the last processed height -/
theorem file_names (ver : UInt8) (start last : Nat) (bs : List CB.EBlock) :
    (csvFiles ver start last bs).map (·.1) =
      ["blocks", "transactions", "tx_in", "tx_out"].map (fun f => s!"{f}-{start}-{last}.csv") := by
  simp [csvFiles]

/-- per-block outputs: the rows for a list of delivered blocks are the concatenation of the rows of its parts, so the
    result for a range is the corresponding slice of the result for the whole chain -/
theorem slice_csv (ver : UInt8) (s l : Nat) (bs1 bs2 : List CB.EBlock) :
    ((csvFiles ver s l (bs1 ++ bs2)).map (·.2)) =
      List.zipWith (· ++ ·) ((csvFiles ver s l bs1).map (·.2)) ((csvFiles ver s l bs2).map (·.2)) := by
  simp [csvFiles]

end Rbp.Props.C02
