import Rbp.Model.Driver
import Rbp.Proofs.Driver
import Rbp.Proofs.RunSpec
import Rbp.Proofs.Prefix
/-!
# C02 — exactly the blocks of heights start..min(end,tip) are delivered, once, ascending
-/
namespace Rbp.Props.C02
open Run

/-- the whole-program model: when every height of `start..maxH` can be served (record present, file present, block parses,
    verification passes if requested), the run delivers exactly `start, start+1, …, maxH` — ascending, each once — and
    completes: exit 0 for csvdump / unspentcsvdump / opreturn; for simplestats / balances exit 0 unless the callback's own
    u64 arithmetic panics on the delivered values (exit 101; see `Run.callbackPanics`) -/
theorem delivered_eq_range (o : Opts) (key : Option W.Bytes) (kvs : List (W.Bytes × W.Bytes)) (files : List BlkFile)
    (coin : Coin) (ld : Loaded) (hcoin : coinOf o.coin = some coin) (hld : loadIndex o kvs = .ok ld)
    (hfiles : (files.filterMap fun f => (parseBlkIndex f.name).map fun n => (n, f)) ≠ [])
    (hkey : key ≠ some [])
    (hs : ∀ k, o.start ≤ k → k < o.start + (ld.maxH + 1 - o.start) →
      Servable coin o key (files.filterMap fun f => (parseBlkIndex f.name).map fun n => (n, f)) ld.trimmed k) :
    (run o key kvs files).delivered = List.range' o.start (ld.maxH + 1 - o.start) ∧
    ((run o key kvs files).exit = 0 ∨ (run o key kvs files).exit = 101) ∧
    (o.callback ≠ "simplestats" → o.callback ≠ "balances" → (run o key kvs files).exit = 0) :=
  run_delivers_range o key kvs files coin ld hcoin hld hfiles hkey hs

/-- **blocks outside the range never contribute to any output.**  Two data directories with the same options whose indexes
    load and end at the same height, and which store the same parsed blocks (and length prefixes) at every height of
    `start..maxH` — whatever they hold at heights outside the range, wherever and however the blocks are stored — produce the
    same exit status, the same files and the same stdout, for every callback -/
theorem outside_range_irrelevant (o : Opts) (key₁ key₂ : Option W.Bytes) (kvs₁ kvs₂ : List (W.Bytes × W.Bytes)) (fs₁ fs₂ : List BlkFile)
    (coin : Coin) (ld₁ ld₂ : Loaded) (hcoin : coinOf o.coin = some coin)
    (hl₁ : loadIndex o kvs₁ = .ok ld₁) (hl₂ : loadIndex o kvs₂ = .ok ld₂) (hmax : ld₁.maxH = ld₂.maxH)
    (hk₁ : key₁ ≠ some []) (hk₂ : key₂ ≠ some []) (sz : Nat → Nat) (blk₁ blk₂ : Nat → W.Block)
    (hsame : ∀ k, o.start ≤ k → k ≤ ld₁.maxH → (blk₁ k).toR = (blk₂ k).toR)
    (hs₁ : ∀ k, o.start ≤ k → k < o.start + (ld₁.maxH + 1 - o.start) →
      Stored coin key₁ (fs₁.filterMap fun f => (parseBlkIndex f.name).map fun n => (n, f)) ld₁.trimmed k (sz k) (blk₁ k) ∧
      (o.verify = true → verifyBlock coin ld₁.trimmed (blk₁ k).toR k = .ok ()))
    (hs₂ : ∀ k, o.start ≤ k → k < o.start + (ld₂.maxH + 1 - o.start) →
      Stored coin key₂ (fs₂.filterMap fun f => (parseBlkIndex f.name).map fun n => (n, f)) ld₂.trimmed k (sz k) (blk₂ k) ∧
      (o.verify = true → verifyBlock coin ld₂.trimmed (blk₂ k).toR k = .ok ()))
    (hne : o.start ≤ ld₁.maxH)
    (hnp : callbackPanics o coin.version
      ((List.range' o.start (ld₁.maxH + 1 - o.start)).map (fun k => (⟨k, sz k, (blk₁ k).toR⟩ : CB.EBlock))) = false) :
    (run o key₁ kvs₁ fs₁).files = (run o key₂ kvs₂ fs₂).files ∧ (run o key₁ kvs₁ fs₁).stdout = (run o key₂ kvs₂ fs₂).stdout ∧
    (run o key₁ kvs₁ fs₁).exit = (run o key₂ kvs₂ fs₂).exit := by
  have e : (List.range' o.start (ld₁.maxH + 1 - o.start)).map (fun k => (⟨k, sz k, (blk₁ k).toR⟩ : CB.EBlock)) =
      (List.range' o.start (ld₂.maxH + 1 - o.start)).map (fun k => (⟨k, sz k, (blk₂ k).toR⟩ : CB.EBlock)) := by
    rw [← hmax]
    apply List.map_congr_left
    intro k hk
    have := List.mem_range'_1.mp hk
    rw [hsame k this.1 (by omega)]
  obtain ⟨a0, _, a1, a2⟩ := run_stored o key₁ kvs₁ fs₁ coin ld₁ hcoin hl₁ hk₁ sz blk₁ hs₁ hne hnp
  obtain ⟨b0, _, b1, b2⟩ := run_stored o key₂ kvs₂ fs₂ coin ld₂ hcoin hl₂ hk₂ sz blk₂ hs₂ (by omega) (by rw [← e]; exact hnp)
  rw [a1, a2, b1, b2, e, hmax, a0, b0]
  exact ⟨rfl, rfl, rfl⟩

/-- option validation (`BlockHeightRange::new`): a range whose `--start` is not below its `--end` is rejected — exit 1, nothing
    delivered, no file — and every accepted range (`--end` absent, or start < end) goes to the run the other theorems are about -/
theorem range_validation (o : Opts) (key : Option W.Bytes) (kvs : List (W.Bytes × W.Bytes)) (files : List BlkFile) :
    (∀ e, o.stop = some e → o.start ≥ e →
      (Run.main o key kvs files).exit = 1 ∧ (Run.main o key kvs files).delivered = [] ∧ (Run.main o key kvs files).files = []) ∧
    ((∀ e, o.stop = some e → o.start < e) → Run.main o key kvs files = run o key kvs files) := by
  constructor
  · intro e he hge
    have : rejected o = true := by simp [rejected, he, hge]
    simp [Run.main, this]
  · intro h
    have : rejected o = false := by
      unfold rejected
      cases hs : o.stop with
      | none => rfl
      | some e => have := h e hs; simp; omega
    simp [Run.main, this]

/-- the upper end is `min(--end, tip)`, and the tip itself when no `--end` is given (both inclusive) -/
theorem upper_end (o : Opts) (kvs : List (W.Bytes × W.Bytes)) (ld : Loaded) (h : loadIndex o kvs = .ok ld) :
    ld.maxH = (match o.stop with
      | some e => min e (ld.full.foldl (fun a p => max a p.1) 0)
      | none => ld.full.foldl (fun a p => max a p.1) 0) :=
  loadIndex_maxH o kvs ld h

/-- trimming the index to the range loses no height of `start-1 .. maxH` (the record `start-1` is what --verify needs) -/
theorem trimmed_keeps_range (o : Opts) (kvs : List (W.Bytes × W.Bytes)) (ld : Loaded) (h : loadIndex o kvs = .ok ld)
    (k : Nat) (hk1 : o.start - 1 ≤ k) (hk2 : k ≤ ld.maxH) : lookup ld.trimmed k = lookup ld.full k :=
  loadIndex_trimmed o kvs ld h k hk1 hk2

/-- the driver loop alone, over an index seen as a partial function: contiguous `0..T` ⇒ exactly `s..min(e,T)` -/
theorem delivered_eq (idx : D.Index) (T s : Nat) (e : Option Nat) (hcontig : ∀ k, k ≤ T → idx k ≠ none) :
    D.delivered idx T s e = List.range' s (D.maxHeight e T + 1 - s) :=
  D.delivered_eq idx T s e hcontig

/-- file names carry `start` and the last processed height -/
theorem file_names (ver : UInt8) (start last : Nat) (bs : List CB.EBlock) :
    (csvFiles ver start last bs).map (·.1) =
      ["blocks", "transactions", "tx_in", "tx_out"].map (fun f => s!"{f}-{start}-{last}.csv") := by
  simp [csvFiles]

/-- per-block outputs: the rows for a list of delivered blocks are the concatenation of the rows of its parts, so the
    result for a range is the corresponding slice of the result for the whole chain -/
theorem slice_csv (ver : UInt8) (s l : Nat) (bs1 bs2 : List CB.EBlock) :
    ((csvFiles ver s l (bs1 ++ bs2)).map (·.2)) =
      List.zipWith (· ++ ·) ((csvFiles ver s l bs1).map (·.2)) ((csvFiles ver s l bs2).map (·.2)) := by
  simp [csvFiles]


/-- the rows of the four csv files for a list of delivered blocks (names aside) -/
def csvRows (ver : UInt8) (bs : List CB.EBlock) : List (List String) := (csvFiles ver 0 0 bs).map (·.2)

theorem csvRows_files (ver : UInt8) (s l : Nat) (bs : List CB.EBlock) : (csvFiles ver s l bs).map (·.2) = csvRows ver bs := by
  simp [csvRows, csvFiles]

/-- **whole-run slice law (csvdump).**  One data directory, two runs of csvdump: `o` over a range and `w` over the whole chain
    (`w.start = 0`).  If both indexes load and every height of the whole chain is stored (in the sense of `Run.Stored`, for the
    index each run loads), both runs exit 0 and each of the four files of the whole-chain run is
    `rows of the heights below the range ++ the file of the ranged run ++ rows of the heights above it` -/
theorem range_run_is_slice (o w : Run.Opts) (key : Option W.Bytes) (kvs : List (W.Bytes × W.Bytes)) (files : List Run.BlkFile)
    (coin : Run.Coin) (ld lw : Run.Loaded) (hco : Run.coinOf o.coin = some coin) (hcw : Run.coinOf w.coin = some coin)
    (hldo : Run.loadIndex o kvs = .ok ld) (hldw : Run.loadIndex w kvs = .ok lw)
    (hkey : key ≠ some []) (sz : Nat → Nat) (blk : Nat → W.Block)
    (hso : ∀ k, o.start ≤ k → k < o.start + (ld.maxH + 1 - o.start) →
      Run.Stored coin key (files.filterMap fun f => (Run.parseBlkIndex f.name).map fun n => (n, f)) ld.trimmed k (sz k) (blk k) ∧
      (o.verify = true → Run.verifyBlock coin ld.trimmed (blk k).toR k = .ok ()))
    (hsw : ∀ k, w.start ≤ k → k < w.start + (lw.maxH + 1 - w.start) →
      Run.Stored coin key (files.filterMap fun f => (Run.parseBlkIndex f.name).map fun n => (n, f)) lw.trimmed k (sz k) (blk k) ∧
      (w.verify = true → Run.verifyBlock coin lw.trimmed (blk k).toR k = .ok ()))
    (hw0 : w.start = 0) (hne : o.start ≤ ld.maxH) (hle : ld.maxH ≤ lw.maxH)
    (hcbo : o.callback = "csvdump") (hcbw : w.callback = "csvdump") :
    let eb := fun k => (⟨k, sz k, (blk k).toR⟩ : CB.EBlock)
    (Run.run o key kvs files).exit = 0 ∧ (Run.run w key kvs files).exit = 0 ∧
    (Run.run w key kvs files).files.map (·.2) =
      List.zipWith (· ++ ·)
        (List.zipWith (· ++ ·) (csvRows coin.version ((List.range' 0 o.start).map eb)) ((Run.run o key kvs files).files.map (·.2)))
        (csvRows coin.version ((List.range' (ld.maxH + 1) (lw.maxH - ld.maxH)).map eb)) := by
  intro eb
  obtain ⟨ho0, _, hfo, _⟩ := Run.run_stored o key kvs files coin ld hco hldo hkey sz blk hso hne (by simp [Run.callbackPanics, hcbo])
  obtain ⟨hw0', _, hfw, _⟩ := Run.run_stored w key kvs files coin lw hcw hldw hkey sz blk hsw (by omega) (by simp [Run.callbackPanics, hcbw])
  refine ⟨ho0, hw0', ?_⟩
  rw [hfo, hfw]
  simp only [Run.callbackOut, hcbo, hcbw, csvRows_files, hw0]
  have h3 : ∀ a b c : Nat, List.range' 0 (a + b + c) = List.range' 0 a ++ List.range' a b ++ List.range' (a + b) c := by
    intro a b c
    have e1 := @List.range'_append_1 0 a b
    have e2 := @List.range'_append_1 0 (a + b) c
    rw [Nat.zero_add] at e1 e2
    rw [e1, e2]
  have hsplit : List.range' 0 (lw.maxH + 1 - 0) =
      List.range' 0 o.start ++ List.range' o.start (ld.maxH + 1 - o.start) ++ List.range' (ld.maxH + 1) (lw.maxH - ld.maxH) := by
    have := h3 o.start (ld.maxH + 1 - o.start) (lw.maxH - ld.maxH)
    have e1 : o.start + (ld.maxH + 1 - o.start) + (lw.maxH - ld.maxH) = lw.maxH + 1 - 0 := by omega
    have e2 : o.start + (ld.maxH + 1 - o.start) = ld.maxH + 1 := by omega
    rw [e1, e2] at this
    exact this
  rw [hsplit, List.map_append, List.map_append]
  simp [csvRows, csvFiles, List.append_assoc, Function.comp_def, List.flatMap_append, eb]


/-- **whole-run slice law (opreturn).**  Same setting: the lines printed for the whole chain are
    `lines of the heights below the range ++ the lines of the ranged run ++ lines of the heights above it` -/
theorem range_run_is_slice_opreturn (o w : Run.Opts) (key : Option W.Bytes) (kvs : List (W.Bytes × W.Bytes)) (files : List Run.BlkFile)
    (coin : Run.Coin) (ld lw : Run.Loaded) (hco : Run.coinOf o.coin = some coin) (hcw : Run.coinOf w.coin = some coin)
    (hldo : Run.loadIndex o kvs = .ok ld) (hldw : Run.loadIndex w kvs = .ok lw)
    (hkey : key ≠ some []) (sz : Nat → Nat) (blk : Nat → W.Block)
    (hso : ∀ k, o.start ≤ k → k < o.start + (ld.maxH + 1 - o.start) →
      Run.Stored coin key (files.filterMap fun f => (Run.parseBlkIndex f.name).map fun n => (n, f)) ld.trimmed k (sz k) (blk k) ∧
      (o.verify = true → Run.verifyBlock coin ld.trimmed (blk k).toR k = .ok ()))
    (hsw : ∀ k, w.start ≤ k → k < w.start + (lw.maxH + 1 - w.start) →
      Run.Stored coin key (files.filterMap fun f => (Run.parseBlkIndex f.name).map fun n => (n, f)) lw.trimmed k (sz k) (blk k) ∧
      (w.verify = true → Run.verifyBlock coin lw.trimmed (blk k).toR k = .ok ()))
    (hw0 : w.start = 0) (hne : o.start ≤ ld.maxH) (hle : ld.maxH ≤ lw.maxH)
    (hcbo : o.callback = "opreturn") (hcbw : w.callback = "opreturn") :
    let eb := fun k => (⟨k, sz k, (blk k).toR⟩ : CB.EBlock)
    (Run.run w key kvs files).stdout =
      CB.opreturnLines coin.version ((List.range' 0 o.start).map eb) ++ (Run.run o key kvs files).stdout ++
      CB.opreturnLines coin.version ((List.range' (ld.maxH + 1) (lw.maxH - ld.maxH)).map eb) := by
  intro eb
  obtain ⟨_, _, _, hoo⟩ := Run.run_stored o key kvs files coin ld hco hldo hkey sz blk hso hne (by simp [Run.callbackPanics, hcbo])
  obtain ⟨_, _, _, how⟩ := Run.run_stored w key kvs files coin lw hcw hldw hkey sz blk hsw (by omega) (by simp [Run.callbackPanics, hcbw])
  rw [hoo, how]
  simp only [Run.callbackOut, hcbo, hcbw, hw0]
  have h3 : ∀ a b c : Nat, List.range' 0 (a + b + c) = List.range' 0 a ++ List.range' a b ++ List.range' (a + b) c := by
    intro a b c
    have e1 := @List.range'_append_1 0 a b
    have e2 := @List.range'_append_1 0 (a + b) c
    rw [Nat.zero_add] at e1 e2
    rw [e1, e2]
  have hsplit : List.range' 0 (lw.maxH + 1 - 0) =
      List.range' 0 o.start ++ List.range' o.start (ld.maxH + 1 - o.start) ++ List.range' (ld.maxH + 1) (lw.maxH - ld.maxH) := by
    have := h3 o.start (ld.maxH + 1 - o.start) (lw.maxH - ld.maxH)
    have e1 : o.start + (ld.maxH + 1 - o.start) + (lw.maxH - ld.maxH) = lw.maxH + 1 - 0 := by omega
    have e2 : o.start + (ld.maxH + 1 - o.start) = ld.maxH + 1 := by omega
    rw [e1, e2] at this
    exact this
  rw [hsplit, List.map_append, List.map_append]
  simp [CB.opreturnLines, List.flatMap_append, eb]


/-- **a range above the tip.**  When `--start` lies above `min(--end, tip)` nothing is delivered: the run completes with exit
    status 0, no block reaches the callback, and csvdump's four files exist under the names `…-start-(start-1).csv` with no rows
    (so exit status 0 still means final-named files and no tmp file, C10) -/
theorem empty_range_run (o : Run.Opts) (key : Option W.Bytes) (kvs : List (W.Bytes × W.Bytes)) (files : List Run.BlkFile)
    (coin : Run.Coin) (ld : Run.Loaded) (hcoin : Run.coinOf o.coin = some coin) (hld : Run.loadIndex o kvs = .ok ld)
    (hfiles : (files.filterMap fun f => (Run.parseBlkIndex f.name).map fun n => (n, f)).isEmpty = false)
    (hkey : key ≠ some []) (habove : ld.maxH < o.start) (hcb : o.callback = "csvdump") :
    (Run.run o key kvs files).exit = 0 ∧ (Run.run o key kvs files).delivered = [] ∧
    (Run.run o key kvs files).files = Run.csvFiles coin.version o.start (o.start - 1) [] := by
  have hn : ld.maxH + 1 - o.start = 0 := by omega
  unfold Run.run
  simp only [hcoin, hld, hfiles, Bool.false_eq_true, if_false, hn]
  cases key with
  | none => simp [Run.driveLoop, Run.callbackPanics, Run.callbackOut, hcb]
  | some kk =>
    cases kk with
    | nil => exact absurd rfl hkey
    | cons a l => simp [Run.driveLoop, Run.callbackPanics, Run.callbackOut, hcb]


/-- **every run, no hypothesis on the directory.**  Whatever the options, key, index content and blk files are — readable or not,
    consistent or not — the heights handed to the callback are `start, start+1, …, start+k-1` for some `k` not exceeding the size of
    the requested range: ascending, each exactly once, none below `--start`, none above `min(--end, tip)` -/
theorem every_run_delivers_an_initial_segment (o : Run.Opts) (key : Option W.Bytes) (kvs : List (W.Bytes × W.Bytes)) (files : List Run.BlkFile) :
    ∃ k, (Run.run o key kvs files).delivered = List.range' o.start k ∧
      (∀ ld, Run.loadIndex o kvs = .ok ld → k ≤ ld.maxH + 1 - o.start) :=
  Run.run_delivers_prefix o key kvs files

end Rbp.Props.C02
