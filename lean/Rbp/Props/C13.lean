import Rbp.Model.Par
import Rbp.Model.Run
import Rbp.Model.Folder
import Rbp.Props.C08
/-!
# C13 — output depends only on data directory and options, never on scheduling or reruns
(logical core; that rayon's indexed `collect` implements this machine, and that LevelDB's log rewrite keeps the kv
content, are runtime facts covered by the correspondence only — partial)
-/
namespace Rbp.Props.C13
open Par

/-- indexed parallel collect: whatever the completion order — any schedule in which every task runs at least once,
    in any interleaving, with any repetitions — slot `i` ends up holding `f xs[i]`: the result is `xs.map f` in input order -/
theorem parcollect_any_schedule {α β} (f : α → β) (xs : List α) (sched : List Nat)
    (hall : ∀ j, j < xs.length → j ∈ sched) : runSched f xs sched = (xs.map f).map some :=
  collect_any_schedule f xs sched hall

/-- two different schedules give the same vector -/
theorem schedule_independent {α β} (f : α → β) (xs : List α) (s1 s2 : List Nat)
    (h1 : ∀ j, j < xs.length → j ∈ s1) (h2 : ∀ j, j < xs.length → j ∈ s2) :
    runSched f xs s1 = runSched f xs s2 := by
  rw [collect_any_schedule f xs s1 h1, collect_any_schedule f xs s2 h2]

/-- nested collects (transactions of a block, outputs of a transaction) compose to map-of-map, for any pair of schedules -/
theorem nested_parcollect {α β γ} (g : β → γ) (outs : α → List β) (txs : List α) (sched : List Nat)
    (inner : α → List Nat) (hall : ∀ j, j < txs.length → j ∈ sched)
    (hin : ∀ t, ∀ j, j < (outs t).length → j ∈ inner t) :
    runSched (fun t => runSched g (outs t) (inner t)) txs sched = (txs.map (fun t => ((outs t).map g).map some)).map some := by
  rw [collect_any_schedule _ txs sched hall]
  congr 1
  apply List.map_congr_left
  intro t _
  exact collect_any_schedule g (outs t) (inner t) (hin t)

/-- **the two parallel loops of the code, on the model's own functions.**  `Block::new` hashes the transactions of a block in
    a parallel indexed collect, and `EvaluatedTx::new` evaluates the output scripts of each transaction in a nested one.  Run
    as the slot machine above with ANY outer schedule over the transactions and ANY inner schedule per transaction (each
    covering its tasks), the collected structure is exactly what the callbacks of the whole-program model compute sequentially:
    per transaction its txid (`CB.txid`) and, per output in order, the verdict `S.eval ver script` -/
theorem block_evaluation_schedule_independent (ver : UInt8) (txs : List W.RTx) (sched : List Nat) (inner : W.RTx → List Nat)
    (hall : ∀ j, j < txs.length → j ∈ sched) (hin : ∀ t : W.RTx, ∀ j, j < t.outs.length → j ∈ inner t) :
    runSched (fun t => (CB.txid t, runSched (fun o => S.eval ver o.script) t.outs (inner t))) txs sched =
      (txs.map fun t => (CB.txid t, (t.outs.map fun o => S.eval ver o.script).map some)).map some := by
  rw [collect_any_schedule _ txs sched hall]
  congr 1
  apply List.map_congr_left
  intro t _
  rw [collect_any_schedule _ t.outs (inner t) (hin t)]

/-- the whole-program model is a function of (options, xor key, index kv pairs, blk files) alone: equal inputs, equal output.
    (Nothing else — dump-folder content, thread count, time — is an argument of `Run.run`.) -/
theorem model_is_function (o : Run.Opts) (key : Option W.Bytes) (kvs : List (W.Bytes × W.Bytes)) (files : List Run.BlkFile)
    (o' : Run.Opts) (key' : Option W.Bytes) (kvs' : List (W.Bytes × W.Bytes)) (files' : List Run.BlkFile)
    (h1 : o = o') (h2 : key = key') (h3 : kvs = kvs') (h4 : files = files') :
    Run.run o key kvs files = Run.run o' key' kvs' files' := by
  subst h1 h2 h3 h4; rfl

/-- **files already present in the dump folder do not change the result.**  The dump folder as a map from names to contents;
    `File::create` truncates, `rename` replaces.  For the program of a run — create every tmp file, append the rows, rename
    every tmp file to its final name — the contents found afterwards under this run's tmp and final names are the same for
    ANY two initial folders (stale `*.tmp` files of any length and earlier results under the same names included), and every
    other name in the folder is left exactly as it was -/
theorem preexisting_irrelevant (ts fs : List String) (rows : List (String × Fd.Bytes)) (f g : Fd.Folder)
    (hrows : ∀ r ∈ rows, r.1 ∈ ts) (hlen : ts.length = fs.length) :
    (∀ n, n ∈ ts ∨ n ∈ fs → Fd.exec f (Fd.runProg ts rows fs) n = Fd.exec g (Fd.runProg ts rows fs) n) ∧
    (∀ n, n ∉ ts → n ∉ fs → Fd.exec f (Fd.runProg ts rows fs) n = f n) :=
  Fd.run_independent_of_folder ts fs rows f g hrows hlen

theorem sumFor_perm (a : String) {l1 l2 : List (String × Nat)} (h : l1.Perm l2) : B.sumFor a l1 = B.sumFor a l2 := by
  induction h with
  | nil => rfl
  | cons x _ ih => simp [B.sumFor, ih]
  | swap x y l => simp only [B.sumFor]; omega
  | trans _ _ ih1 ih2 => rw [ih1, ih2]

theorem occurs_perm (a : String) {l1 l2 : List (String × Nat)} (h : l1.Perm l2) : B.occurs a l1 = B.occurs a l2 := by
  induction h with
  | nil => rfl
  | cons x _ ih => simp [B.occurs, ih]
  | swap x y l => simp only [B.occurs]; cases decide (x.1 = a) <;> cases decide (y.1 = a) <;> simp
  | trans _ _ ih1 ih2 => rw [ih1, ih2]

/-- **row sets of the hash-map dumps.**  The unspent and balances dumps iterate a hash map whose order depends on the hasher's
    per-process random keys; their rows are a function of the map's *content* only: two maps with the same bindings — whatever
    the insertion order, capacity or hash seeds that produced them — yield row lists that are permutations of each other -/
theorem row_sets_depend_on_content_only (m1 m2 : Std.HashMap W.Bytes CB.Unspent) (h : ∀ k : W.Bytes, m1[k]? = m2[k]?) :
    (CB.unspentRows m1).Perm (CB.unspentRows m2) ∧ (CB.balanceRows m1).Perm (CB.balanceRows m2) := by
  have he : m1.Equiv m2 := Std.HashMap.Equiv.of_forall_getElem?_eq h
  have hp := he.toList_perm
  refine ⟨hp.map _, ?_⟩
  -- per-address sums fold over the bindings: a permutation of the bindings gives a map with the same lookups
  have hpp : (Rbp.Props.C08.pairs m1).Perm (Rbp.Props.C08.pairs m2) := hp.map _
  have hb : ∀ a : String, (CB.balanceMap m1)[a]? = (CB.balanceMap m2)[a]? := by
    intro a
    rw [Rbp.Props.C08.balances_spec m1 a, Rbp.Props.C08.balances_spec m2 a, occurs_perm a hpp, sumFor_perm a hpp]
  exact (Std.HashMap.Equiv.of_forall_getElem?_eq hb).toList_perm.map _

/-- non-vacuity: a long stale tmp file and an older result are both replaced -/
example : Fd.exec (fun n => if n = "blocks.csv.tmp" then some (List.replicate 50 7) else if n = "blocks-0-1.csv" then some [1] else none)
    (Fd.runProg ["blocks.csv.tmp"] [("blocks.csv.tmp", [9, 9])] ["blocks-0-1.csv"]) "blocks-0-1.csv" = some [9, 9] := by decide

/-- non-vacuity: three tasks completed in the order 2,0,1 -/
example : runSched (· + 1) [10, 20, 30] [2, 0, 1] = [some 11, some 21, some 31] := by decide

end Rbp.Props.C13
