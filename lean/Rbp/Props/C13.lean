import Rbp.Model.Par
import Rbp.Model.Run
/-!
# C13 — output depends only on data directory and options, never on scheduling or reruns
(logical core; that rayon's indexed `collect` implements this machine, and that LevelDB's log rewrite keeps the kv
content, are runtime facts covered by the correspondence only — partial)
-/
namespace Rbp.Props.C13
open Par

/-- indexed parallel collect: whatever the completion order — any schedule in which every task runs at least once,
    in any interleaving, with any repetitions — slot `i` ends up holding `f xs[i]`: the result is `xs.map f` in input order -/
theorem parcollect_any_schedule {α β} (f : α → β) (xs : List α) (sched : List Nat)
    (hall : ∀ j, j < xs.length → j ∈ sched) : runSched f xs sched = (xs.map f).map some :=
  collect_any_schedule f xs sched hall

/-- two different schedules give the same vector -/
theorem schedule_independent {α β} (f : α → β) (xs : List α) (s1 s2 : List Nat)
    (h1 : ∀ j, j < xs.length → j ∈ s1) (h2 : ∀ j, j < xs.length → j ∈ s2) :
    runSched f xs s1 = runSched f xs s2 := by
  rw [collect_any_schedule f xs s1 h1, collect_any_schedule f xs s2 h2]

/-- nested collects (transactions of a block, outputs of a transaction) compose to map-of-map, for any pair of schedules -/
theorem nested_parcollect {α β γ} (g : β → γ) (outs : α → List β) (txs : List α) (sched : List Nat)
    (inner : α → List Nat) (hall : ∀ j, j < txs.length → j ∈ sched)
    (hin : ∀ t, ∀ j, j < (outs t).length → j ∈ inner t) :
    runSched (fun t => runSched g (outs t) (inner t)) txs sched = (txs.map (fun t => ((outs t).map g).map some)).map some := by
  rw [collect_any_schedule _ txs sched hall]
  congr 1
  apply List.map_congr_left
  intro t _
  exact collect_any_schedule g (outs t) (inner t) (hin t)

/-- the whole-program model is a function of (options, xor key, index kv pairs, blk files) alone: equal inputs, equal output.
    (Nothing else — dump-folder content, thread count, time — is an argument of `Run.run`.) -/
theorem model_is_function (o : Run.Opts) (key : Option W.Bytes) (kvs : List (W.Bytes × W.Bytes)) (files : List Run.BlkFile)
    (o' : Run.Opts) (key' : Option W.Bytes) (kvs' : List (W.Bytes × W.Bytes)) (files' : List Run.BlkFile)
    (h1 : o = o') (h2 : key = key') (h3 : kvs = kvs') (h4 : files = files') :
    Run.run o key kvs files = Run.run o' key' kvs' files' := by
  subst h1 h2 h3 h4; rfl

/-- non-vacuity: three tasks completed in the order 2,0,1 -/
example : runSched (· + 1) [10, 20, 30] [2, 0, 1] = [some 11, some 21, some 31] := by decide

end Rbp.Props.C13
