import Rbp.Model.Balances
import Rbp.Proofs.Utxo
import Rbp.Proofs.RunSpec
import Rbp.Props.C10
import Rbp.Proofs.Conservation
/-!
# C08 — balances lists each address once with the sum of its unspent outputs
-/
namespace Rbp.Props.C08
open Std CB

/-- the (address, value) pairs of the unspent set, in the map's iteration order -/
def pairs (m : HashMap W.Bytes Unspent) : List (String × Nat) := m.toList.map (fun p => (p.2.address, p.2.value))

/-- the executable accumulation of `balances` is the generic per-address fold over the unspent set -/
theorem balanceMap_eq (m : HashMap W.Bytes Unspent) : balanceMap m = B.bal ∅ (pairs m) := by
  unfold balanceMap pairs B.bal
  rw [List.foldl_map]
  rfl

/-- an address is listed iff it owns at least one unspent output (C07's set), and its balance is the exact sum of those
    outputs' values; any other address is absent -/
theorem balances_spec (m : HashMap W.Bytes Unspent) (a : String) :
    (balanceMap m)[a]? = if B.occurs a (pairs m) then some (B.sumFor a (pairs m)) else none := by
  rw [balanceMap_eq]; exact B.balances_spec _ a

/-- conservation: the balances of all rows add up to the values of all unspent outputs — aggregation by address neither creates
    nor loses a satoshi, whatever the number of addresses, outputs per address or iteration order of either map -/
theorem aggregation_conserves_value (m : HashMap W.Bytes Unspent) :
    B.total (balanceMap m).toList = B.total (pairs m) := by
  rw [balanceMap_eq]; exact B.total_bal_empty _

/-- non-vacuity of the helper behind it: three outputs over two addresses -/
example : B.total [("a", 5), ("b", 7), ("a", 11)] = 23 := by decide

/-- each address once: rows come from the bindings of a map -/
theorem one_row_per_address (m : HashMap W.Bytes Unspent) :
    (balanceMap m).toList.Pairwise (fun x y => (x.1 == y.1) = false) :=
  HashMap.distinct_keys_toList

/-- balances and unspentcsvdump run the same fold over the same blocks: the balances file is the per-address
    aggregation of the unspent set that `unspentcsvdump` lists for the same data directory and range -/
theorem balances_eq_unspent_aggregate (ver : UInt8) (bs : List EBlock) :
    balanceMap (utxo ver bs) = B.bal ∅ (pairs (U.run ∅ (opsOf ver bs))) := by
  rw [balanceMap_eq, utxo_eq_run]

/-- **whole run.**  For a stored chain, `balances` — when no per-address sum leaves u64 (`balancePanics`, the code's own
    `+=`) — exits 0 and writes one file `balances-start-maxH.csv`: the header followed by one row `address;balance` per
    binding of `balanceMap` over the unspent set of exactly the delivered blocks -/
theorem balances_run_spec (o : Run.Opts) (key : Option W.Bytes) (kvs : List (W.Bytes × W.Bytes)) (files : List Run.BlkFile)
    (coin : Run.Coin) (ld : Run.Loaded) (hcoin : Run.coinOf o.coin = some coin) (hld : Run.loadIndex o kvs = .ok ld)
    (hkey : key ≠ some []) (sz : Nat → Nat) (blk : Nat → W.Block)
    (hs : ∀ k, o.start ≤ k → k < o.start + (ld.maxH + 1 - o.start) →
      Run.Stored coin key (files.filterMap fun f => (Run.parseBlkIndex f.name).map fun n => (n, f)) ld.trimmed k (sz k) (blk k) ∧
      (o.verify = true → Run.verifyBlock coin ld.trimmed (blk k).toR k = .ok ()))
    (hne : o.start ≤ ld.maxH) (hcb : o.callback = "balances")
    (hnp : balancePanics (utxo coin.version
      ((List.range' o.start (ld.maxH + 1 - o.start)).map (fun k => (⟨k, sz k, (blk k).toR⟩ : EBlock)))) = false) :
    let bs := (List.range' o.start (ld.maxH + 1 - o.start)).map (fun k => (⟨k, sz k, (blk k).toR⟩ : EBlock))
    (Run.run o key kvs files).exit = 0 ∧
    (Run.run o key kvs files).files =
      [(s!"balances-{o.start}-{ld.maxH}.csv", "address;balance" :: balanceRows (utxo coin.version bs))] := by
  intro bs
  obtain ⟨h0, _, hf, _⟩ := Run.run_stored o key kvs files coin ld hcoin hld hkey sz blk hs hne
    (by simp only [Run.callbackPanics, hcb]; exact hnp)
  refine ⟨h0, ?_⟩
  rw [hf]; simp only [Run.callbackOut, hcb]; rfl

/-- non-vacuity: two outputs of one address and one of another -/
example : B.sumFor "a" [("a", 5), ("b", 7), ("a", 9)] = 14 ∧ B.occurs "b" [("a", 5), ("b", 7), ("a", 9)] = true := by decide


/-- **every input.**  Whenever a `balances` run exits 0, its file is the header followed by one row per binding of `balanceMap`
    over the UTXO fold of exactly the delivered blocks — the same fold `unspentcsvdump` lists (`C07.exit0_dump_is_fold_over_delivered`),
    so the two dumps of one directory and range always aggregate to each other -/
theorem exit0_balances_is_aggregate_of_delivered (o : Run.Opts) (key : Option W.Bytes) (kvs : List (W.Bytes × W.Bytes)) (files : List Run.BlkFile)
    (coin : Run.Coin) (hcoin : Run.coinOf o.coin = some coin) (hcb : o.callback = "balances")
    (h0 : (Run.run o key kvs files).exit = 0) :
    (Run.run o key kvs files).files =
      [(s!"balances-{o.start}-{o.start + (Run.deliveredBlocks o key kvs files).length - 1}.csv",
        "address;balance" :: balanceRows (utxo coin.version (Run.deliveredBlocks o key kvs files)))] := by
  have := (Rbp.Props.C10.exit0_output_is_callback_over_delivered o key kvs files coin hcoin h0).1
  rw [this]
  simp [Run.callbackOut, hcb]

/-- partial sums ADD: the sum for an address over two pieces of the unspent outputs is the sum of the two partial sums -/
theorem sumFor_append (a : String) (l1 l2 : List (String × Nat)) : B.sumFor a (l1 ++ l2) = B.sumFor a l1 + B.sumFor a l2 := by
  induction l1 with
  | nil => simp [B.sumFor]
  | cons p l ih => simp only [List.cons_append, B.sumFor, ih]; omega

theorem occurs_append (a : String) (l1 l2 : List (String × Nat)) : B.occurs a (l1 ++ l2) = (B.occurs a l1 || B.occurs a l2) := by
  induction l1 with
  | nil => simp [B.occurs]
  | cons p l ih => simp only [List.cons_append, B.occurs, ih, Bool.or_assoc]

/-- **however the unspent outputs are cut into pieces** (chunks of 65536, one per worker, one per block …): an address's balance is the
    SUM over the pieces of its partial sums, and it is listed iff some piece contains one of its outputs — a merge that keeps one
    piece's partial sum, or the last one's, is not this function -/
theorem balance_is_sum_of_chunk_sums (a : String) (chunks : List (List (String × Nat))) :
    B.sumFor a chunks.flatten = (chunks.map (B.sumFor a)).sum ∧ B.occurs a chunks.flatten = chunks.any (B.occurs a) := by
  induction chunks with
  | nil => simp [B.sumFor, B.occurs]
  | cons c cs ih => simp [sumFor_append, occurs_append, ih.1, ih.2]

/-- the accumulation can be resumed: folding a second piece into the table of the first is folding the concatenation -/
theorem bal_append (m : HashMap String Nat) (l1 l2 : List (String × Nat)) : B.bal m (l1 ++ l2) = B.bal (B.bal m l1) l2 := by
  simp [B.bal, List.foldl_append]

example : B.sumFor "a" ([[("a", 5), ("b", 7)], [("a", 9)], []] : List (List (String × Nat))).flatten = 5 + 9 + 0 := by decide
end Rbp.Props.C08
