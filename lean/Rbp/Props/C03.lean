import Rbp.Model.VarInt
namespace Rbp.Props.C03
/-- Bitcoin Core's VarInt (MSB base-128 with the +1 carry), as `index::read_varint` decodes it with both overflow guards:
    the decoder inverts the encoder for every u64 value, whatever follows in the stream -/
theorem readVarInt_enc (n : Nat) (t : List UInt8) (hn : n ≤ 18446744073709551615) :
    VI.dec 0 (VI.enc n ++ t) = .ok n t :=
  VI.dec_enc n t hn
end Rbp.Props.C03
