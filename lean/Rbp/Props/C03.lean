import Rbp.Model.VarInt
import Rbp.Proofs.Record
import Rbp.Proofs.Layout
import Rbp.Proofs.BlkName
import Rbp.Proofs.Consulted
import Rbp.Proofs.KeyOrder
/-!
# C03 — a block is read from the file and offset its index record names, wherever it is
-/
namespace Rbp.Props.C03
open Run

/-- Bitcoin Core's VarInt (MSB base-128 with the +1 carry), as `index::read_varint` decodes it with both overflow guards:
    the decoder inverts the encoder for every u64 value, whatever follows in the stream -/
theorem readVarInt_enc (n : Nat) (t : List UInt8) (hn : n ≤ 18446744073709551615) :
    VI.dec 0 (VI.enc n ++ t) = .ok n t :=
  VI.dec_enc n t hn

/-- the VarInt code is prefix-free on u64: two encodings followed by anything agree only if value and remainder agree — so the
    six fields of an index value can be cut in exactly one way, and no two different (height, status, file, offset) tuples that
    Core writes share a byte string -/
theorem varint_prefix_free (a b : Nat) (s t : List UInt8) (ha : a ≤ 18446744073709551615) (hb : b ≤ 18446744073709551615)
    (h : VI.enc a ++ s = VI.enc b ++ t) : a = b ∧ s = t := by
  have h1 := VI.dec_enc a s ha
  rw [h, VI.dec_enc b t hb] at h1
  injection h1 with e1 e2
  exact ⟨e1.symm, e2.symm⟩

theorem varint_enc_injective (a b : Nat) (ha : a ≤ 18446744073709551615) (hb : b ≤ 18446744073709551615)
    (h : VI.enc a = VI.enc b) : a = b :=
  (varint_prefix_free a b [] [] ha hb (by rw [h])).1

/-- index records: decoding what Core writes (`nFile` iff HAVE_DATA|HAVE_UNDO, `nDataPos` iff HAVE_DATA, `nUndoPos` iff
    HAVE_UNDO, then the header) gives back hash, height, status, file number, data offset and the header's prev-hash — for
    every status combination and every u64 value, i.e. every byte width of the VarInts -/
theorem record_roundtrip (hash : W.Bytes) (hh : hash.length = 32) (r : IndexRec) (hk : r.ok) :
    decodeRecFull (0x62 :: hash) r.enc =
      .ok ⟨r.client, r.ntx, ⟨hash, r.prev, r.height, r.status,
        if r.status &&& 24 > 0 then r.file else 0, if r.status &&& 8 > 0 then r.dataPos else 0⟩⟩ :=
  Run.record_roundtrip hash hh r hk

/-- positional read: when the bytes at `offset - 4` are the LE32 length prefix followed by the encoding of a well-formed block,
    that block (and that prefix) is what is delivered — whatever follows it in the file -/
theorem readAt_block (coin : Coin) (size : Nat) (hs : size < 256 ^ 4) (b : W.Block) (hb : b.ok coin.auxpow) (rest : W.Bytes) :
    parseAt coin (W.toLE 4 size ++ b.enc ++ rest) = .ok (size, b.toR) :=
  parseAt_block coin size hs b hb rest

/-- and nothing *before* `offset - 4` matters: two files that agree from there on deliver the same result for that offset
    (other blocks, garbage, holes, unindexed blocks in front are invisible) -/
theorem layout_independent_read (coin : Coin) (key : Option W.Bytes) (f g : BlkFile) (off : Nat)
    (h : bytesFrom f (off - 4) = bytesFrom g (off - 4)) : readAt coin key f off = readAt coin key g off :=
  readAt_depends_on_suffix coin key f g off h

/-- the four "magic" bytes in front of a block's length prefix are never consulted: a file holding `pre ++ rest` and one holding
    `pre' ++ rest` (`pre'` as long as `pre`: another coin's magic, zeros, noise, other blocks) read the same at offset `|pre| + 4` -/
theorem magic_never_read (coin : Coin) (key : Option W.Bytes) (name : String) (size : Nat) (pre pre' rest : W.Bytes)
    (h : pre.length = pre'.length) :
    readAt coin key ⟨name, size, [⟨0, pre ++ rest⟩]⟩ (pre.length + 4) = readAt coin key ⟨name, size, [⟨0, pre' ++ rest⟩]⟩ (pre.length + 4) := by
  apply layout_independent_read
  simp only [Nat.add_sub_cancel]
  unfold bytesFrom
  simp only []
  split
  · rfl
  · by_cases hr : 0 < rest.length
    · simp [List.find?, h, hr]
    · have : rest = [] := by cases rest <;> simp_all
      subst this
      simp [List.find?, h]

/-- **a run consults the index values only through the decoded record.**  Replace every value by any other that decodes to the same
    record (hash, prev-hash, height, status, file, offset): the run is the same, observable for observable. -/
theorem index_values_consulted_only_through_decoded_fields (o : Opts) (key : Option W.Bytes) (fs : List BlkFile)
    (f : W.Bytes → W.Bytes → W.Bytes) (hf : ∀ k v, decodeRec k (f k v) = decodeRec k v) (kvs : List (W.Bytes × W.Bytes)) :
    run o key (kvs.map fun p => (p.1, f p.1 p.2)) fs = run o key kvs fs :=
  run_map o key fs f hf kvs

/-- in particular the version of the node that wrote a record and the record's transaction count are not consulted: re-encoding a
    record with any other (u64) values for the two decodes to the same record -/
theorem node_version_and_tx_count_not_consulted (hash : W.Bytes) (hh : hash.length = 32) (r : IndexRec) (hk : r.ok)
    (c n : Nat) (hc : c < 2^64) (hn : n < 2^64) :
    decodeRec (0x62 :: hash) ({ r with client := c, ntx := n } : IndexRec).enc = decodeRec (0x62 :: hash) r.enc :=
  decodeRec_client_ntx hash hh r hk c n hc hn

/-- **whole run, same index.**  Two data directories with the same index key/value pairs in which, for every record of the
    index, "the blk file with the record's number, read at the record's offset" yields the same result, produce identical
    runs — every observable including the Opening/Closing trace.  Bytes before `offset-4`, garbage and unindexed blocks
    between blocks, holes, blk files and other directory entries named by no record, and the zero-padding of file names (only
    the parsed number matters) cannot be observed. -/
theorem same_index_same_reads (o : Opts) (k₁ k₂ : Option W.Bytes) (kvs : List (W.Bytes × W.Bytes)) (fs₁ fs₂ : List BlkFile)
    (hk₁ : k₁ ≠ some []) (hk₂ : k₂ ≠ some [])
    (hn₁ : (fs₁.filterMap fun f => (parseBlkIndex f.name).map fun n => (n, f)) ≠ [])
    (hn₂ : (fs₂.filterMap fun f => (parseBlkIndex f.name).map fun n => (n, f)) ≠ [])
    (hf : ∀ coin ld, coinOf o.coin = some coin → loadIndex o kvs = .ok ld → ∀ ht r, lookup ld.trimmed ht = some r →
      fetch coin k₁ (fs₁.filterMap fun f => (parseBlkIndex f.name).map fun n => (n, f)) r =
      fetch coin k₂ (fs₂.filterMap fun f => (parseBlkIndex f.name).map fun n => (n, f)) r) :
    run o k₁ kvs fs₁ = run o k₂ kvs fs₂ :=
  run_same_reads o k₁ k₂ kvs fs₁ fs₂ hk₁ hk₂ hn₁ hn₂ hf

/-- **whole run, any two physical layouts of one logical chain.**  Different index values (file numbers, offsets, VarInt
    widths), different distribution and order of the blocks over blk files: if both indexes load, end at the same height and
    present the same view at every height (same block hash; same result of reading the record's (file, offset)), the two
    runs agree on exit status, error report, delivered heights and hashes, every output file and stdout — for every
    callback, range and `--verify` setting.  (Only the Opening/Closing trace may differ: it is about the files.) -/
theorem layout_independent_run (o : Opts) (k₁ k₂ : Option W.Bytes) (kvs₁ kvs₂ : List (W.Bytes × W.Bytes)) (fs₁ fs₂ : List BlkFile)
    (coin : Coin) (ld₁ ld₂ : Loaded) (hc : coinOf o.coin = some coin)
    (hl₁ : loadIndex o kvs₁ = .ok ld₁) (hl₂ : loadIndex o kvs₂ = .ok ld₂) (hmax : ld₁.maxH = ld₂.maxH)
    (hk₁ : k₁ ≠ some []) (hk₂ : k₂ ≠ some [])
    (hn₁ : (fs₁.filterMap fun f => (parseBlkIndex f.name).map fun n => (n, f)) ≠ [])
    (hn₂ : (fs₂.filterMap fun f => (parseBlkIndex f.name).map fun n => (n, f)) ≠ [])
    (hv : ∀ h, view coin k₁ (fs₁.filterMap fun f => (parseBlkIndex f.name).map fun n => (n, f)) ld₁.trimmed h =
               view coin k₂ (fs₂.filterMap fun f => (parseBlkIndex f.name).map fun n => (n, f)) ld₂.trimmed h) :
    (run o k₁ kvs₁ fs₁).visible = (run o k₂ kvs₂ fs₂).visible :=
  run_layout_independent o k₁ k₂ kvs₁ kvs₂ fs₁ fs₂ coin ld₁ ld₂ hc hl₁ hl₂ hmax hk₁ hk₂ hn₁ hn₂ hv

/-- the zero-padding of file names is immaterial: `blk` + any number of zeros + the decimal number + `.dat` parses to that
    number, for every u64 file number (Core pads to five digits; `blk7.dat`, `blk00007.dat`, `blk0000000007.dat` are one file) -/
theorem blkname_roundtrip (n k : Nat) (hn : n < 2 ^ 64) :
    parseBlkIndex ("blk" ++ String.ofList (List.replicate k '0') ++ toString n ++ ".dat") = some n :=
  Run.blkname_roundtrip n k hn

/-- keys that do not start with `b` never enter the table (`f`, `l`, `F`, `R`, … records are ignored) -/
theorem foreign_keys_ignored (k v : W.Bytes) (b : UInt8) (rest : W.Bytes) (hk : k = b :: rest) (hb : b ≠ 0x62)
    (l : List (W.Bytes × W.Bytes)) (acc : List Wk.Rec) : collect.go ((k, v) :: l) acc = collect.go l acc := by
  subst hk
  simp [collect.go, hb]

/-- the model visits the index in LevelDB's order: `lexLt` (the bytewise comparator) is a strict total order and the visiting
    sequence is ascending in it — a permutation of the pairs (`sortKvs_perm`) that is sorted by key -/
theorem index_visited_in_key_order (kvs : List (W.Bytes × W.Bytes)) :
    (sortKvs kvs).Perm kvs ∧ (sortKvs kvs).Pairwise (fun x y => lexLt y.1 x.1 = false) ∧
    (∀ a b, lexLt a b = true → lexLt b a = false) ∧ (∀ a b c, lexLt a b = true → lexLt b c = true → lexLt a c = true) ∧
    (∀ a b, lexLt a b = false → lexLt b a = false → a = b) :=
  ⟨sortKvs_perm kvs, sortKvs_sorted kvs, lexLt_asymm, lexLt_trans, lexLt_total⟩

/-- **whole program, any physical arrangement of the index database.**  A LevelDB's keys are pairwise distinct; in whatever
    order the same key/value pairs reach the parser (order of `.ldb`/`.log` files, compaction levels, the order in which a
    tool wrote them), the whole run — exit status, report, delivered heights and hashes, every output file, stdout, the
    Opening/Closing trace — is the same, for every option set, XOR key and blk directory -/
theorem index_arrangement_irrelevant (o : Opts) (key : Option W.Bytes) (kvs₁ kvs₂ : List (W.Bytes × W.Bytes)) (fs : List BlkFile)
    (hp : kvs₁.Perm kvs₂) (hd : (kvs₁.map (·.1)).Nodup) : main o key kvs₁ fs = main o key kvs₂ fs :=
  main_order_independent o key kvs₁ kvs₂ fs hp hd

/-- non-vacuity of `index_arrangement_irrelevant`: two arrangements of three distinct keys, one of them foreign -/
example : ([([0x62, 2], [1]), ([0x66, 0], [2]), ([0x62, 1], [3])] : List (W.Bytes × W.Bytes)).Perm
      [([0x62, 1], [3]), ([0x62, 2], [1]), ([0x66, 0], [2])] ∧
    (([([0x62, 2], [1]), ([0x66, 0], [2]), ([0x62, 1], [3])] : List (W.Bytes × W.Bytes)).map (·.1)).Nodup ∧
    sortKvs [([0x62, 2], [1]), ([0x66, 0], [2]), ([0x62, 1], [3])] = [([0x62, 1], [3]), ([0x62, 2], [1]), ([0x66, 0], [2])] := by
  refine ⟨?_, by decide, by decide⟩
  exact (List.Perm.swap _ _ _).trans ((List.Perm.swap _ _ _).cons _) |>.symm |> fun h => by
    first | exact h | decide

/-- non-vacuity: both sides of the 1/2-byte VarInt boundary, the 2/3-byte boundary, and the `+1` carry -/
example : VI.dec 0 [0x7f] = .ok 127 [] ∧ VI.dec 0 [0x80, 0x00] = .ok 128 [] ∧ VI.dec 0 [0xff, 0x7f] = .ok 16511 [] ∧
    VI.dec 0 [0x80, 0x80, 0x00] = .ok 16512 [] := by decide

end Rbp.Props.C03
