import Rbp.Model.VarInt
import Rbp.Proofs.Record
/-!
# C03 — a block is read from the file and offset its index record names, wherever it is
-/
namespace Rbp.Props.C03
open Run

/-- Bitcoin Core's VarInt (MSB base-128 with the +1 carry), as `index::read_varint` decodes it with both overflow guards:
    the decoder inverts the encoder for every u64 value, whatever follows in the stream -/
theorem readVarInt_enc (n : Nat) (t : List UInt8) (hn : n ≤ 18446744073709551615) :
    VI.dec 0 (VI.enc n ++ t) = .ok n t :=
  VI.dec_enc n t hn

/-- index records: decoding what Core writes (`nFile` iff HAVE_DATA|HAVE_UNDO, `nDataPos` iff HAVE_DATA, `nUndoPos` iff
    HAVE_UNDO, then the header) gives back hash, height, status, file number, data offset and the header's prev-hash — for
    every status combination and every u64 value, i.e. every byte width of the VarInts -/
theorem record_roundtrip (hash : W.Bytes) (hh : hash.length = 32) (r : IndexRec) (hk : r.ok) :
    decodeRecFull (0x62 :: hash) r.enc =
      .ok ⟨r.client, r.ntx, ⟨hash, r.prev, r.height, r.status,
        if r.status &&& 24 > 0 then r.file else 0, if r.status &&& 8 > 0 then r.dataPos else 0⟩⟩ :=
  Run.record_roundtrip hash hh r hk

/-- positional read: when the bytes at `offset - 4` are the LE32 length prefix followed by the encoding of a well-formed block,
    that block (and that prefix) is what is delivered — whatever follows it in the file -/
theorem readAt_block (coin : Coin) (size : Nat) (hs : size < 256 ^ 4) (b : W.Block) (hb : b.ok coin.auxpow) (rest : W.Bytes) :
    parseAt coin (W.toLE 4 size ++ b.enc ++ rest) = .ok (size, b.toR) :=
  parseAt_block coin size hs b hb rest

/-- and nothing *before* `offset - 4` matters: two files that agree from there on deliver the same result for that offset
    (other blocks, garbage, holes, unindexed blocks in front are invisible) -/
theorem layout_independent_read (coin : Coin) (key : Option W.Bytes) (f g : BlkFile) (off : Nat)
    (h : bytesFrom f (off - 4) = bytesFrom g (off - 4)) : readAt coin key f off = readAt coin key g off :=
  readAt_depends_on_suffix coin key f g off h

/-- keys that do not start with `b` never enter the table (`f`, `l`, `F`, `R`, … records are ignored) -/
theorem foreign_keys_ignored (k v : W.Bytes) (b : UInt8) (rest : W.Bytes) (hk : k = b :: rest) (hb : b ≠ 0x62)
    (l : List (W.Bytes × W.Bytes)) (acc : List Wk.Rec) : collect.go ((k, v) :: l) acc = collect.go l acc := by
  subst hk
  simp [collect.go, hb]

/-- non-vacuity: both sides of the 1/2-byte VarInt boundary, the 2/3-byte boundary, and the `+1` carry -/
example : VI.dec 0 [0x7f] = .ok 127 [] ∧ VI.dec 0 [0x80, 0x00] = .ok 128 [] ∧ VI.dec 0 [0xff, 0x7f] = .ok 16511 [] ∧
    VI.dec 0 [0x80, 0x80, 0x00] = .ok 16512 [] := by decide

end Rbp.Props.C03
