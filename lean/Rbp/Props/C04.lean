import Rbp.Model.Walk
namespace Rbp.Props.C04
/-- placeholder until the bridge to `Run.buildIndex` is written: walking prev-links from the tip of a well-formed chain yields the chain, top down -/
theorem walk_eq_active (A : Nat → Wk.Rec) (k : Nat) (l : List Wk.Rec) (fuel : Nat)
    (hnd : (l.map (·.hash)).Nodup) (hc : Wk.Chain A k l) (hf : k < fuel) :
    Wk.walk fuel l (A k).hash = (List.range (k + 1)).reverse.map A :=
  Wk.walk_chain A k l fuel hnd hc hf
end Rbp.Props.C04
