import Rbp.Proofs.Index
/-!
# C04 — only active-chain blocks are delivered; stale and header-only records never are
Stated for the index as the repaired code builds it (records with data and no FAILED bit, keyed by hash; tip = highest
fully validated record; prev-hash links followed from the tip).
-/
namespace Rbp.Props.C04
open Run Wk

/-- walking prev-links from the tip of a well-formed chain through a table with pairwise distinct hashes yields exactly the
    chain, top down, whatever other records (stale siblings, failed blocks, reorged-out branches, …) the table holds -/
theorem walk_eq_active (A : Nat → Rec) (k : Nat) (l : List Rec) (fuel : Nat)
    (hnd : (l.map (·.hash)).Nodup) (hc : Chain A k l) (hf : k < fuel) :
    walk fuel l (A k).hash = (List.range (k + 1)).reverse.map A :=
  walk_chain A k l fuel hnd hc hf

/-- the index that `get_block_index` builds maps exactly the heights `0..T` to the active chain: for every table of
    collected records that contains the chain `A 0 … A T` (linked by prev-hash, record `k` at height `k`, root's parent not a
    key), whose tip is fully validated and above every other fully validated record -/
theorem index_is_active_chain (kvs : List (W.Bytes × W.Bytes)) (recs : List Rec) (A : Nat → Rec) (T : Nat)
    (hc : collect kvs = .ok recs) (hchain : Chain A T recs) (hh : ∀ k, k ≤ T → (A k).height = k)
    (hv : validScripts (A T) = true) (hcomp : ∀ r ∈ recs, validScripts r = true → r = A T ∨ r.height < T) :
    ∃ idx, buildIndex kvs = .ok idx ∧ ∀ h, lookup idx h = if h ≤ T then some (A h) else none :=
  buildIndex_active kvs recs A T hc hchain hh hv hcomp

/-- competitors are invisible: two key/value sets whose collected tables contain the same active chain (and meet the
    hypotheses) give indexes that answer every height identically — adding or removing header-only, stale, failed or
    reorged-out records, in any key order, changes nothing -/
theorem competitors_invisible (kvs₁ kvs₂ : List (W.Bytes × W.Bytes)) (r₁ r₂ : List Rec) (A : Nat → Rec) (T : Nat)
    (h₁ : collect kvs₁ = .ok r₁) (h₂ : collect kvs₂ = .ok r₂) (c₁ : Chain A T r₁) (c₂ : Chain A T r₂)
    (hh : ∀ k, k ≤ T → (A k).height = k) (hv : validScripts (A T) = true)
    (p₁ : ∀ r ∈ r₁, validScripts r = true → r = A T ∨ r.height < T)
    (p₂ : ∀ r ∈ r₂, validScripts r = true → r = A T ∨ r.height < T) :
    ∃ i₁ i₂, buildIndex kvs₁ = .ok i₁ ∧ buildIndex kvs₂ = .ok i₂ ∧ ∀ h, lookup i₁ h = lookup i₂ h := by
  obtain ⟨i₁, e₁, l₁⟩ := buildIndex_active kvs₁ r₁ A T h₁ c₁ hh hv p₁
  obtain ⟨i₂, e₂, l₂⟩ := buildIndex_active kvs₂ r₂ A T h₂ c₂ hh hv p₂
  exact ⟨i₁, i₂, e₁, e₂, fun h => by rw [l₁, l₂]⟩

/-- records without block data or with a FAILED bit never enter the table: the status filter, stated outright -/
theorem filter_spec (r : Rec) : passes r = true ↔ (r.status &&& 8 > 0 ∧ r.status &&& 96 = 0) := by
  simp [passes]

/-- the table has pairwise distinct hashes (a later equal key replaces) -/
theorem table_distinct (kvs : List (W.Bytes × W.Bytes)) (recs : List Rec) (hc : collect kvs = .ok recs) :
    (recs.map (·.hash)).Nodup := collect_nodup kvs recs hc

/-- the walk visits at most as many records as the table holds (visited records are removed): it terminates -/
theorem walk_bounded : ∀ (fuel : Nat) (l : List Rec) (h : Hash), (walk fuel l h).length ≤ fuel
  | 0, _, _ => by simp [walk]
  | fuel+1, l, h => by
    unfold walk
    cases find l h with
    | none => simp
    | some r => simp; exact walk_bounded fuel _ _

end Rbp.Props.C04
