import Rbp.Proofs.Index
import Rbp.Proofs.EndToEnd
import Rbp.Generated.Consts
import Rbp.Proofs.KeyOrder
/-!
# C04 — only active-chain blocks are delivered; stale and header-only records never are
Stated for the index as the repaired code builds it (records with data and no FAILED bit, keyed by hash; tip = highest
fully validated record; prev-hash links followed from the tip).
-/
namespace Rbp.Props.C04
open Run Wk

/-- walking prev-links from the tip of a well-formed chain through a table with pairwise distinct hashes yields exactly the
    chain, top down, whatever other records (stale siblings, failed blocks, reorged-out branches, …) the table holds -/
theorem walk_eq_active (A : Nat → Rec) (k : Nat) (l : List Rec) (fuel : Nat)
    (hnd : (l.map (·.hash)).Nodup) (hc : Chain A k l) (hf : k < fuel) :
    walk fuel l (A k).hash = (List.range (k + 1)).reverse.map A :=
  walk_chain A k l fuel hnd hc hf

/-- the index that `get_block_index` builds maps exactly the heights `0..T` to the active chain: for every table of
    collected records that contains the chain `A 0 … A T` (linked by prev-hash, record `k` at height `k`, root's parent not a
    key), whose tip is fully validated and above every other fully validated record -/
theorem index_is_active_chain (kvs : List (W.Bytes × W.Bytes)) (recs : List Rec) (A : Nat → Rec) (T : Nat)
    (hc : collect kvs = .ok recs) (hchain : Chain A T recs) (hh : ∀ k, k ≤ T → (A k).height = k)
    (hv : validScripts (A T) = true) (hcomp : ∀ r ∈ recs, validScripts r = true → r = A T ∨ r.height < T) :
    ∃ idx, buildIndex kvs = .ok idx ∧ ∀ h, lookup idx h = if h ≤ T then some (A h) else none :=
  buildIndex_active kvs recs A T hc hchain hh hv hcomp

/-- competitors are invisible: two key/value sets whose collected tables contain the same active chain (and meet the
    hypotheses) give indexes that answer every height identically — adding or removing header-only, stale, failed or
    reorged-out records, in any key order, changes nothing -/
theorem competitors_invisible (kvs₁ kvs₂ : List (W.Bytes × W.Bytes)) (r₁ r₂ : List Rec) (A : Nat → Rec) (T : Nat)
    (h₁ : collect kvs₁ = .ok r₁) (h₂ : collect kvs₂ = .ok r₂) (c₁ : Chain A T r₁) (c₂ : Chain A T r₂)
    (hh : ∀ k, k ≤ T → (A k).height = k) (hv : validScripts (A T) = true)
    (p₁ : ∀ r ∈ r₁, validScripts r = true → r = A T ∨ r.height < T)
    (p₂ : ∀ r ∈ r₂, validScripts r = true → r = A T ∨ r.height < T) :
    ∃ i₁ i₂, buildIndex kvs₁ = .ok i₁ ∧ buildIndex kvs₂ = .ok i₂ ∧ ∀ h, lookup i₁ h = lookup i₂ h := by
  obtain ⟨i₁, e₁, l₁⟩ := buildIndex_active kvs₁ r₁ A T h₁ c₁ hh hv p₁
  obtain ⟨i₂, e₂, l₂⟩ := buildIndex_active kvs₂ r₂ A T h₂ c₂ hh hv p₂
  exact ⟨i₁, i₂, e₁, e₂, fun h => by rw [l₁, l₂]⟩

open CB W in
/-- **whole run, from the bytes of the data directory.**  The index key/value pairs come in any order and may contain
    anything besides the active chain: header-only records, stale siblings and failed blocks with data, reorged-out fully
    validated branches below the tip, records under other keys.  If the keys are pairwise distinct, every `b` record is one
    Core could have written, and the active chain `A 0 … A T` is among them (record `k` at height `k`, with data, not failed,
    linked by prev-hash, root's parent not indexed, tip fully validated, every other fully validated record with data lower
    than `T`), and the blk files hold — at the file/offset each ACTIVE record names — the length prefix and the encoding of
    a well-formed block, then for every range, callback, key and `--verify` setting (the chain being consistent when it is
    set): exit 0, exactly the heights `start..min(end,T)` delivered, and files and stdout are the callback's function of the
    active chain's blocks.  No competitor block is ever read: nothing is assumed about what their records point to. -/
theorem active_chain_run (o : Opts) (key : Option Bytes) (kvs : List (Bytes × Bytes)) (files : List BlkFile) (coin : Coin)
    (hcoin : coinOf o.coin = some coin) (hkey : key ≠ some [])
    -- the index: distinct keys, decodable `b` records, an active chain among them
    (hnd : (kvs.map (·.1)).Nodup)
    (hdec : ∀ kv ∈ kvs, kv.1 ≠ [] ∧ (kv.1.head? = some 0x62 →
      ∃ hash r, kv = (0x62 :: hash, Run.IndexRec.enc r) ∧ hash.length = 32 ∧ r.ok))
    (A : Nat → Bytes × Run.IndexRec) (T : Nat)
    (hAok : ∀ k, k ≤ T → (A k).1.length = 32 ∧ (A k).2.ok)
    (hmem : ∀ k, k ≤ T → (0x62 :: (A k).1, (A k).2.enc) ∈ kvs)
    (hh : ∀ k, k ≤ T → (A k).2.height = k)
    (hpass : ∀ k, k ≤ T → passes ((A k).2.toRec (A k).1) = true)
    (hlink : ∀ k, k < T → (A (k + 1)).2.prev = (A k).1)
    (hinj : ∀ i j, i ≤ T → j ≤ T → (A i).1 = (A j).1 → i = j)
    (hroot : ∀ kv ∈ kvs, kv.1 ≠ 0x62 :: (A 0).2.prev)
    (hv : validScripts ((A T).2.toRec (A T).1) = true)
    (hcomp : ∀ hash r, (0x62 :: hash, Run.IndexRec.enc r) ∈ kvs → hash.length = 32 → r.ok → passes (r.toRec hash) = true →
      validScripts (r.toRec hash) = true → r.toRec hash = (A T).2.toRec (A T).1 ∨ r.height < T)
    -- the range
    (E : Nat) (hE : E = (match o.stop with | some e => min e T | none => T)) (hstart : o.start ≤ E)
    -- the blk files: every active block of the range is stored where its record says
    (sz : Nat → Nat) (blk : Nat → W.Block)
    (hplaced : ∀ k, o.start ≤ k → k ≤ E →
      ∃ f rest, ((files.filterMap fun f => (parseBlkIndex f.name).map fun n => (n, f)).find?
          (·.1 == ((A k).2.toRec (A k).1).file)).map (·.2) = some f ∧
        4 ≤ ((A k).2.toRec (A k).1).off ∧
        unxor key (((A k).2.toRec (A k).1).off - 4) (bytesFrom f (((A k).2.toRec (A k).1).off - 4)) =
          toLE 4 (sz k) ++ (blk k).enc ++ rest ∧
        sz k < 256 ^ 4 ∧ (blk k).ok coin.auxpow)
    -- with --verify: the stored blocks form a consistent chain (merkle roots, prev-hash links to the indexed hashes, genesis)
    (hver : o.verify = true → ∀ k, o.start ≤ k → k ≤ E →
      M.rootRust _root_.A.sha256d (txids (blk k).toR) = some (blk k).toR.header.merkle ∧
      (k = 0 → blockHash (blk k).toR = coin.genesis) ∧ (k > 0 → (blk k).toR.header.prev = (A (k - 1)).1))
    -- the callback's own u64 sums stay in range (vacuous for csvdump, unspentcsvdump, opreturn)
    (hnp : callbackPanics o coin.version
      ((List.range' o.start (E + 1 - o.start)).map (fun k => (⟨k, sz k, (blk k).toR⟩ : EBlock))) = false) :
    (run o key kvs files).exit = 0 ∧ (run o key kvs files).delivered = List.range' o.start (E + 1 - o.start) ∧
    (run o key kvs files).files = (callbackOut o coin.version E
      ((List.range' o.start (E + 1 - o.start)).map (fun k => (⟨k, sz k, (blk k).toR⟩ : EBlock)))).1 ∧
    (run o key kvs files).stdout = (callbackOut o coin.version E
      ((List.range' o.start (E + 1 - o.start)).map (fun k => (⟨k, sz k, (blk k).toR⟩ : EBlock)))).2 :=
  Run.run_of_directory o key kvs files coin hcoin hkey hnd hdec A T hAok hmem hh hpass hlink hinj hroot hv hcomp E hE hstart sz blk
    hplaced hver hnp

/-- the block-status constants in the SOURCE TEXT of `index.rs` (re-read on every run) are Bitcoin Core's -/
theorem status_constants_published :
    Generated.statusConsts = [("BLOCK_FAILED_MASK", 96), ("BLOCK_HAVE_DATA", 8), ("BLOCK_HAVE_UNDO", 16),
      ("BLOCK_VALID_MASK", 7), ("BLOCK_VALID_SCRIPTS", 5)] := by decide

/-- and they are the ones the model's status filter and tip test use -/
theorem model_uses_source_constants (r : Rec) :
    passes r = (decide (r.status &&& (Generated.statusConsts.lookup "BLOCK_HAVE_DATA").getD 0 > 0) &&
                (r.status &&& (Generated.statusConsts.lookup "BLOCK_FAILED_MASK").getD 0 == 0)) ∧
    validScripts r = decide (r.status &&& (Generated.statusConsts.lookup "BLOCK_VALID_MASK").getD 0 ≥
                              (Generated.statusConsts.lookup "BLOCK_VALID_SCRIPTS").getD 0) := by
  have h1 : (Generated.statusConsts.lookup "BLOCK_HAVE_DATA").getD 0 = 8 := by decide
  have h2 : (Generated.statusConsts.lookup "BLOCK_FAILED_MASK").getD 0 = 96 := by decide
  have h3 : (Generated.statusConsts.lookup "BLOCK_VALID_MASK").getD 0 = 7 := by decide
  have h4 : (Generated.statusConsts.lookup "BLOCK_VALID_SCRIPTS").getD 0 = 5 := by decide
  rw [h1, h2, h3, h4]
  exact ⟨rfl, rfl⟩

/-- records without block data or with a FAILED bit never enter the table: the status filter, stated outright -/
theorem filter_spec (r : Rec) : passes r = true ↔ (r.status &&& 8 > 0 ∧ r.status &&& 96 = 0) := by
  simp [passes]

/-- the table has pairwise distinct hashes (a later equal key replaces) -/
theorem table_distinct (kvs : List (W.Bytes × W.Bytes)) (recs : List Rec) (hc : collect kvs = .ok recs) :
    (recs.map (·.hash)).Nodup := collect_nodup kvs recs hc

/-- the walk visits at most as many records as the table holds (visited records are removed): it terminates -/
theorem walk_bounded : ∀ (fuel : Nat) (l : List Rec) (h : Hash), (walk fuel l h).length ≤ fuel
  | 0, _, _ => by simp [walk]
  | fuel+1, l, h => by
    unfold walk
    cases find l h with
    | none => simp
    | some r => simp; exact walk_bounded fuel _ _

/-- the tip at full strength: whichever fully validated record is greatest in `(height, hash)` order is the tip, wherever it sits
    in the table — including when a competing fully validated record has the *same* height (then the greater hash decides, as
    the `max_by_key((height, block_hash))` of the source does; `index_is_active_chain` assumes the competitors strictly lower) -/
theorem tip_is_greatest_validated (t : Rec) (l : List Rec) (hm : t ∈ l) (hv : validScripts t = true)
    (hall : ∀ r ∈ l, validScripts r = true → r = t ∨ tipLt r t = true) : pickTip l = some t :=
  pickTip_greatest t l hm hv hall

/-- the tip with **no hypothesis on the table**: whatever the index holds, the chosen tip is a fully validated record of the
    table and no fully validated record is greater in `(height, hash)` order; and there is no tip (empty chain, nothing
    delivered) exactly when no record is fully validated.  A header-only, stale-but-unvalidated or failed record can therefore
    never be the starting point of the walk, however high it is -/
theorem tip_sound (l : List Rec) :
    (∀ t, pickTip l = some t → t ∈ l ∧ validScripts t = true ∧ ∀ r ∈ l, validScripts r = true → tipLt t r = false) ∧
    (pickTip l = none → ∀ r ∈ l, validScripts r = false) :=
  pickTip_sound l

/-- the tip does not depend on the order of the table — which is the order the 32-byte hashes happen to sort in, i.e. noise:
    for records with pairwise distinct hashes (`table_distinct`), every rearrangement of the table yields the same tip -/
theorem tip_independent_of_table_order (l₁ l₂ : List Rec) (hp : l₁.Perm l₂) (hd : (l₁.map (·.hash)).Nodup) :
    pickTip l₁ = pickTip l₂ :=
  pickTip_perm l₁ l₂ hp hd

/-- non-vacuity: two fully validated records at height 7; the one with the greater hash is picked in either table order -/
example : pickTip [⟨[2], [0], 7, 29, 0, 8⟩, ⟨[1], [0], 7, 29, 0, 90⟩, ⟨[9], [0], 8, 24, 0, 200⟩] = some ⟨[2], [0], 7, 29, 0, 8⟩ ∧
    pickTip [⟨[9], [0], 8, 24, 0, 200⟩, ⟨[1], [0], 7, 29, 0, 90⟩, ⟨[2], [0], 7, 29, 0, 8⟩] = some ⟨[2], [0], 7, 29, 0, 8⟩ := by
  decide

end Rbp.Props.C04
