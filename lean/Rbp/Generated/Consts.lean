/-! GENERATED on every check run from `rusty-blockparser verif-hook consts` (the binary built from /repo's
    working tree).  Do not edit: theorems in Rbp.Props compare these values with the published ones. -/
namespace Generated

structure Coin where
  cli : String
  name : String
  magic : Nat
  version : Nat
  genesis : String
  auxpow : Option Nat
deriving DecidableEq, Repr

def coins : List Coin := [
  ⟨"bitcoin", "Bitcoin", 3652501241, 0, "000000000019d6689c085ae165831e934ff763ae46a2a6c172b3f1b60a8ce26f", none⟩,
  ⟨"testnet3", "TestNet3", 118034699, 111, "000000000933ea01ad0ee984209779baaec3ced90fa3f408719526f8d77f4943", none⟩,
  ⟨"namecoin", "Namecoin", 4273258233, 52, "000000000062b72c5e2ceb45fbc8587e807c155b0da735e6483dfba2f0a9c770", some 65793⟩,
  ⟨"litecoin", "Litecoin", 3686187259, 48, "12a765e31ffd4059bada1e25190f6e98c99d9714d334efa41a195a7e7e04bfe2", none⟩,
  ⟨"dogecoin", "Dogecoin", 3233857728, 30, "1a91e3dace36e2be3bf030a65679fe821aa1d6ef92e7c9902eb318182c355691", some 6422786⟩,
  ⟨"myriadcoin", "Myriadcoin", 4000728495, 50, "00000ffde4c020b5938441a0ea3d314bf619eff0b38f32f78f7583cffa1ea485", none⟩,
  ⟨"unobtanium", "Unobtanium", 62248195, 130, "000004c2fc5fffb810dccc197d603690099a68305232e552d96ccbe8e2c52b75", none⟩,
  ⟨"noteblockchain", "NoteBlockchain", 3824018932, 53, "270f3e7b185c412d57ba913d10658df54f15201a67d736cb4071a4ec4eb54836", none⟩
]

/-- block-status constants read from the source text of src/blockchain/parser/index.rs (sorted by name) -/
def statusConsts : List (String × Nat) := [("BLOCK_FAILED_MASK", 96), ("BLOCK_HAVE_DATA", 8), ("BLOCK_HAVE_UNDO", 16), ("BLOCK_VALID_MASK", 7), ("BLOCK_VALID_SCRIPTS", 5)]
/-- `get_base_reward`: `(rewardBase) >> (height / halvingInterval)`, read from the source text of src/blockchain/proto/block.rs -/
def rewardBase : Nat := 5000000000
def halvingInterval : Nat := 210000
end Generated
