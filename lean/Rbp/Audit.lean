import Lean
/-!
Audit helper: lists every user-declared theorem whose name starts with a given namespace prefix,
together with the axioms it depends on.  Used by the harness (`lake env lean <generated file>`).
-/
open Lean Elab Command

def auditNamespace (pfx : Name) : CommandElabM Unit := do
  let env ← getEnv
  let mut names : Array Name := #[]
  for (n, ci) in env.constants.toList do
    if pfx.isPrefixOf n && !n.isInternal then
      match ci with
      | .thmInfo _ =>
        -- only theorems with a source range in the module that declared them (filters auto-generated lemmas)
        if (← findDeclarationRanges? n).isSome then
          names := names.push n
      | _ => pure ()
  let sorted := names.qsort (fun a b => a.toString < b.toString)
  for n in sorted do
    let axs ← Lean.collectAxioms n
    let axs := axs.qsort (fun a b => a.toString < b.toString)
    IO.println s!"THEOREM {n} AXIOMS {String.intercalate "," (axs.toList.map toString)}"
  IO.println s!"AUDIT-DONE {pfx} {sorted.size}"

elab "#audit_ns " id:ident : command => auditNamespace id.getId
