/-!
# The floating-point figures of the simplestats report, exactly (C15)

`simplestats` converts its `u64` accumulators to `f64`, divides / multiplies them and prints the result with `{:.2}` or `{:.8}`.
Every step is a correctly rounded IEEE-754 binary64 operation (round to nearest, ties to even) and Rust's fixed-precision
`Display` rounds the exact binary value half-to-even at the requested digit.  Only non-negative values occur, and their
magnitudes (between 2^-64·10^-8 and 2^64·100) are far inside the normal range, so a double is modelled as an exact
non-negative fraction `n / d` that is representable with a 53-bit significand; `±0`, subnormals, overflow and negative
values are out of the model (they cannot arise from `u64` inputs with these operations).
-/
namespace F64

/-- round-half-even of the fraction `a / b` (`b > 0`) to a natural number -/
def rhe (a b : Nat) : Nat :=
  let q := a / b
  let r := a % b
  if 2 * r < b then q else if 2 * r > b then q + 1 else if q % 2 = 0 then q else q + 1

/-- a non-negative double: a finite fraction, `inf` (x / 0) or `NaN` (0 / 0) -/
inductive V
  | fin (n d : Nat)
  | inf
  | nan
deriving Repr, DecidableEq

/-- how often `a` must be doubled until `2^52 ≤ a / b` -/
def upN (a b : Nat) : Nat :=
  if 0 < a ∧ a < 2 ^ 52 * b then upN (2 * a) b + 1 else 0
termination_by 2 ^ 52 * b - a
decreasing_by omega

/-- how often `b` must be doubled until `a / b < 2^53` -/
def downN (a b : Nat) : Nat :=
  if 0 < b ∧ 2 ^ 53 * b ≤ a then downN a (2 * b) + 1 else 0
termination_by a + 1 - 2 ^ 53 * b
decreasing_by omega

/-- round to nearest double, ties to even: scale the fraction by a power of two into `[2^52, 2^53)`, round the 53-bit
    significand half-to-even, scale back -/
def rn (n d : Nat) : V :=
  if n = 0 then .fin 0 1 else
  let u := upN n d
  let a := n * 2 ^ u
  let w := downN a d
  let b := d * 2 ^ w
  .fin (rhe a b * 2 ^ w) (2 ^ u)

/-- `x as f64` for a `u64` -/
def ofNat (x : Nat) : V := rn x 1

def mul : V → V → V
  | .fin a b, .fin c d => rn (a * c) (b * d)
  | .nan, _ => .nan
  | _, .nan => .nan
  | .inf, .fin c _ => if c = 0 then .nan else .inf
  | .fin a _, .inf => if a = 0 then .nan else .inf
  | .inf, .inf => .inf

def div : V → V → V
  | .fin a b, .fin c d => if c = 0 then (if a = 0 then .nan else .inf) else rn (a * d) (b * c)
  | .nan, _ => .nan
  | _, .nan => .nan
  | .inf, .fin _ _ => .inf
  | .fin _ _, .inf => .fin 0 1
  | .inf, .inf => .nan

/-- the literal `1E-8`: the double nearest to 10^-8 -/
def c1em8 : V := rn 1 (10 ^ 8)

def padLeft (s : String) (w : Nat) : String := String.ofList (List.replicate (w - s.length) '0') ++ s

/-- `{:.k}`: the exact value rounded half-to-even at the `k`-th decimal -/
def fmt (k : Nat) : V → String
  | .nan => "NaN"
  | .inf => "inf"
  | .fin n d =>
    let s := rhe (n * 10 ^ k) d
    if k = 0 then toString s else toString (s / 10 ^ k) ++ "." ++ padLeft (toString (s % 10 ^ k)) k

/-- `utils::get_mean`: `0.0` for an empty slice, else `sum as f64 / len as f64` -/
def mean (sum len : Nat) : V := if len = 0 then .fin 0 1 else div (ofNat sum) (ofNat len)

/-- `x as f64 * 1E-8` printed with `{:.8}` (fees, volume, biggest value) -/
def coins (x : Nat) : String := fmt 8 (mul (ofNat x) c1em8)

/-- `a as f64 / b as f64` printed with `{:.2}` -/
def ratio (a b : Nat) : String := fmt 2 (div (ofNat a) (ofNat b))

/-- `get_mean(..) / c` printed with `{:.2}` (c = 1024.0 or 60.0: small integers, exact doubles) -/
def meanOver (sum len c : Nat) : String := fmt 2 (div (mean sum len) (ofNat c))

/-- `volume as f64 / outs as f64 * 1E-8` printed with `{:.2}` -/
def valuePerOutput (vol outs : Nat) : String := fmt 2 (mul (div (ofNat vol) (ofNat outs)) c1em8)

/-- `(count as f64 / outs as f64) * 100.00` printed with `{:.2}` -/
def share (count outs : Nat) : String := fmt 2 (mul (div (ofNat count) (ofNat outs)) (ofNat 100))

end F64
