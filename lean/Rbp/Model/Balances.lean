import Std.Data.HashMap
open Std
namespace B
abbrev Addr := String

/-- balances.rs on_complete: `*balances.entry(addr).or_insert(0) += value` over the unspent values -/
def stepBal (m : HashMap Addr Nat) (p : Addr × Nat) : HashMap Addr Nat := m.insert p.1 (m.getD p.1 0 + p.2)
def bal (m : HashMap Addr Nat) (l : List (Addr × Nat)) : HashMap Addr Nat := l.foldl stepBal m

def sumFor (a : Addr) : List (Addr × Nat) → Nat
  | [] => 0
  | p :: l => (if p.1 = a then p.2 else 0) + sumFor a l
def occurs (a : Addr) : List (Addr × Nat) → Bool
  | [] => false
  | p :: l => p.1 = a || occurs a l

theorem sumFor_zero (a : Addr) : ∀ l, occurs a l = false → sumFor a l = 0
  | [], _ => rfl
  | p :: l, h => by
    simp only [occurs, Bool.or_eq_false_iff, decide_eq_false_iff_not] at h
    simp [sumFor, h.1, sumFor_zero a l h.2]

theorem bal_lookup (l : List (Addr × Nat)) : ∀ (m : HashMap Addr Nat) (a : Addr),
    (bal m l)[a]? = if occurs a l then some (m.getD a 0 + sumFor a l) else m[a]? := by
  induction l with
  | nil => intro m a; simp [bal, occurs]
  | cons p l ih =>
    intro m a
    have := ih (stepBal m p) a
    simp only [bal, List.foldl_cons] at this ⊢
    rw [this]
    by_cases hp : p.1 = a
    · subst hp
      simp [occurs, sumFor, stepBal, HashMap.getD_insert, HashMap.getElem?_insert]
      by_cases ho : occurs p.1 l = true
      · simp [ho, Nat.add_assoc]
      · have ho' : occurs p.1 l = false := by simpa using ho
        simp [ho', sumFor_zero p.1 l ho']
    · have hne : (p.1 == a) = false := by simpa using hp
      simp [occurs, sumFor, stepBal, hp, HashMap.getD_insert, HashMap.getElem?_insert, hne]

/-- C08: starting from the empty table, an address is listed iff it owns an unspent output, with the exact sum -/
theorem balances_spec (l : List (Addr × Nat)) (a : Addr) :
    (bal ∅ l)[a]? = if occurs a l then some (sumFor a l) else none := by
  simpa using bal_lookup l ∅ a
end B
