import Rbp.Model.Addr
import Rbp.Model.Lossy
namespace S
open A
abbrev Bytes := List UInt8

inductive Cls | illegal | noop | ret | pushnum | pushbytes (n : Nat) | ordinary
deriving DecidableEq

/-- bitcoin 0.32.5 `Opcode::classify(ClassifyContext::Legacy)` -/
def classify (b : UInt8) : Cls :=
  let c := b.toNat
  if c = 0x65 ∨ c = 0x66 ∨ c = 0xff then .illegal
  else if (0x7e ≤ c ∧ c ≤ 0x81) ∨ (0x83 ≤ c ∧ c ≤ 0x86) ∨ c = 0x8d ∨ c = 0x8e ∨ (0x95 ≤ c ∧ c ≤ 0x99) then .illegal
  else if c = 0x61 ∨ (0xb0 ≤ c ∧ c ≤ 0xb9) then .noop
  else if c = 0x6a ∨ c = 0x50 ∨ c = 0x89 ∨ c = 0x8a ∨ c = 0x62 ∨ c ≥ 0xba then .ret
  else if c = 0x4f ∨ (0x51 ≤ c ∧ c ≤ 0x60) then .pushnum
  else if c ≤ 0x4b then .pushbytes c
  else .ordinary

inductive Pattern
  | opReturn (payload : Bytes) | multisig | p2pk | p2pkh | p2sh | p2wpkh | p2wsh | witnessProgram | p2tr
  | unspendable | notRecognised
deriving DecidableEq

def Pattern.name : Pattern → String
  | .opReturn _ => "OpReturn" | .multisig => "Pay2MultiSig" | .p2pk => "Pay2PublicKey" | .p2pkh => "Pay2PublicKeyHash"
  | .p2sh => "Pay2ScriptHash" | .p2wpkh => "Pay2WitnessPublicKeyHash" | .p2wsh => "Pay2WitnessScriptHash"
  | .witnessProgram => "WitnessProgram" | .p2tr => "Pay2Taproot" | .unspendable => "Unspendable"
  | .notRecognised => "NotRecognised"

structure Eval where
  pattern : Pattern
  address : Option String

/-! ### fork coins: custom.rs (after the PUSHDATA repair) -/
inductive El | op (b : UInt8) | data (d : Bytes)
deriving DecidableEq

def leN (bs : Bytes) : Nat := bs.foldr (fun b acc => b.toNat + 256 * acc) 0

/-- `ScriptEvaluator::eval`: `none` = UnexpectedEof.  `k` = number of length bytes after the opcode -/
def tokens (s : Bytes) : Option (List El) :=
  match s with
  | [] => some []
  | b :: rest =>
    let fin (k : Nat) (dataLen : Nat) : Option (List El) :=
      if dataLen > 0 then
        if dataLen ≤ (rest.drop k).length then
          (tokens ((rest.drop k).drop dataLen)).map (El.data ((rest.drop k).take dataLen) :: ·)
        else none
      else if classify b = .noop then tokens (rest.drop k)
      else (tokens (rest.drop k)).map (El.op b :: ·)
    match classify b with
    | .pushbytes n => fin 0 n
    | _ =>
      if b = 0x4c then (if 1 ≤ rest.length then fin 1 (leN (rest.take 1)) else none)
      else if b = 0x4d then (if 2 ≤ rest.length then fin 2 (leN (rest.take 2)) else none)
      else if b = 0x4e then (if 4 ≤ rest.length then fin 4 (leN (rest.take 4)) else none)
      else fin 0 0
termination_by s.length
decreasing_by all_goals (simp [List.length_drop]; try omega)

def evalCustom (ver : UInt8) (s : Bytes) : Eval :=
  match tokens s with
  | none => ⟨.notRecognised, none⟩
  | some els =>
    match els with
    | [.op 0x76, .op 0xa9, .data h, .op 0x88, .op 0xac] => ⟨.p2pkh, some (base58check (ver :: h))⟩
    | [.data k, .op 0xac] => ⟨.p2pk, some (base58check (ver :: hash160 k))⟩
    | [.op 0xa9, .data h, .op 0x87] => ⟨.p2sh, some (base58check (5 :: h))⟩
    | [.op 0x6a, .data d] => ⟨.opReturn (L.lossy d), none⟩
    | [.op 0x52, .data _, .data _, .data _, .op 0x53, .op 0xae] => ⟨.multisig, none⟩
    | _ => ⟨.notRecognised, none⟩

/-! ### bitcoin / testnet3: rust-bitcoin predicates as called by script/mod.rs (after the repairs) -/
inductive Ins | push (d : Bytes) | op (b : UInt8)
deriving DecidableEq

/-- `Script::instructions()`; an error ends the iteration (`none` marks the error position) -/
def instrs (s : Bytes) : List (Option Ins) :=
  match s with
  | [] => []
  | b :: rest =>
    let pushK (k : Nat) : List (Option Ins) :=
      if h : k ≤ rest.length then
        let n := leN (rest.take k); let r := rest.drop k
        if h2 : n ≤ r.length then some (.push (r.take n)) :: instrs (r.drop n) else [none]
      else [none]
    match classify b with
    | .pushbytes n => if h : n ≤ rest.length then some (.push (rest.take n)) :: instrs (rest.drop n) else [none]
    | _ =>
      if b = 0x4c then pushK 1 else if b = 0x4d then pushK 2 else if b = 0x4e then pushK 4
      else some (.op b) :: instrs rest
termination_by s.length
decreasing_by all_goals (simp [List.length_drop]; try omega)

def get (s : Bytes) (i : Nat) : UInt8 := s.getD i 0

def isP2pk (s : Bytes) : Option Bytes :=
  if s.length = 67 ∧ get s 0 = 0x41 ∧ get s 66 = 0xac then some ((s.drop 1).take 65)
  else if s.length = 35 ∧ get s 0 = 0x21 ∧ get s 34 = 0xac then some ((s.drop 1).take 33)
  else none
def isP2pkh (s : Bytes) : Bool :=
  s.length = 25 ∧ get s 0 = 0x76 ∧ get s 1 = 0xa9 ∧ get s 2 = 0x14 ∧ get s 23 = 0x88 ∧ get s 24 = 0xac
def isP2sh (s : Bytes) : Bool := s.length = 23 ∧ get s 0 = 0xa9 ∧ get s 1 = 0x14 ∧ get s 22 = 0x87
/-- `witness_version`: version number if the script is a witness program -/
def witnessVersion (s : Bytes) : Option Nat :=
  if 4 ≤ s.length ∧ s.length ≤ 42 then
    let p := (get s 1).toNat
    if p < 2 ∨ p > 40 then none
    else if s.length - 2 ≠ p then none
    else
      let v := (get s 0).toNat
      if v = 0 then some 0 else if 0x51 ≤ v ∧ v ≤ 0x60 then some (v - 0x50) else none
  else none

def pushnum (b : UInt8) : Option Nat := if 0x51 ≤ b.toNat ∧ b.toNat ≤ 0x60 then some (b.toNat - 0x50) else none

/-- `Script::is_multisig` with an unbounded key counter (the u8 overflow is excluded by the caller's guard) -/
def isMultisigLib (s : Bytes) : Bool :=
  match instrs s with
  | some (.op m) :: rest =>
    match pushnum m with
    | none => false
    | some req =>
      let rec keys (l : List (Option Ins)) (n : Nat) : Option (Nat × List (Option Ins)) :=
        match l with
        | some (.push _) :: r => keys r (n + 1)
        | some (.op o) :: r =>
          match pushnum o with
          | some k => if k ≠ n then none else some (n, r)
          | none => some (n, r)
        | _ => some (n, l)        -- error or end: the loop stops, the caller then needs one more instruction
      match keys rest 0 with
      | none => false
      | some (n, after) =>
        if req > n then false
        else match after with
          | [some (.op 0xae)] => true
          | _ => false
  | _ => false

/-- repo-side wrapper (Appendix E) -/
def isBareMultisig (s : Bytes) : Bool :=
  ((instrs s).take 20).length ≤ 19 && isMultisigLib s &&
    (let b := (get s (s.length - 2)).toNat; 0x51 ≤ b ∧ b ≤ 0x60)

def unspendableFirst (s : Bytes) : Bool := match s with
  | [] => false
  | b :: _ => classify b = .ret ∨ classify b = .illegal

def evalBtc (testnet : Bool) (s : Bytes) : Eval :=
  let pk : UInt8 := if testnet then 0x6f else 0x00
  let sh : UInt8 := if testnet then 0xc4 else 0x05
  let hrp := if testnet then "tb" else "bc"
  if s.head? = some 0x6a then
    let payload := match ((instrs s)[1]? : Option (Option Ins)) with
      | some (some (Ins.push d)) => if L.valid d then d else []
      | _ => []
    ⟨.opReturn payload, none⟩
  else if unspendableFirst s then ⟨.unspendable, none⟩
  else
    let address : Option String :=
      if isP2pkh s then some (base58check (pk :: (s.drop 3).take 20))
      else if isP2sh s then some (base58check (sh :: (s.drop 2).take 20))
      else match witnessVersion s with
        | some v =>
          let prog := s.drop 2
          if v = 0 ∧ prog.length ≠ 20 ∧ prog.length ≠ 32 then none else some (segwitAddr hrp v prog)
        | none => none
    match isP2pk s with
    | some key => ⟨.p2pk, some (base58check (pk :: hash160 key))⟩
    | none =>
      if isP2pkh s then ⟨.p2pkh, address⟩
      else if isP2sh s then ⟨.p2sh, address⟩
      else if s.length = 22 ∧ witnessVersion s = some 0 ∧ get s 1 = 0x14 then ⟨.p2wpkh, address⟩
      else if s.length = 34 ∧ witnessVersion s = some 0 ∧ get s 1 = 0x20 then ⟨.p2wsh, address⟩
      else if s.length = 34 ∧ witnessVersion s = some 1 ∧ get s 1 = 0x20 then ⟨.p2tr, address⟩
      else if (witnessVersion s).isSome then ⟨.witnessProgram, address⟩
      else if isBareMultisig s then ⟨.multisig, address⟩
      else ⟨.notRecognised, address⟩

def eval (ver : UInt8) (s : Bytes) : Eval :=
  if ver = 0x00 then evalBtc false s else if ver = 0x6f then evalBtc true s else evalCustom ver s
end S
