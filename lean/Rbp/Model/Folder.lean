/-!
# The dump folder across runs (C13): what a run leaves does not depend on what it found

`File::create` truncates, `rename` replaces.  A run creates its tmp files, appends its rows, renames tmp → final.
-/
namespace Fd
abbrev Bytes := List UInt8
abbrev Folder := String → Option Bytes

inductive Op
  | create (n : String)            -- File::create: new empty file, or an existing one truncated to length 0
  | append (n : String) (d : Bytes)
  | rename (a b : String)          -- rename(2): b is replaced, a disappears

def upd (f : Folder) (n : String) (v : Option Bytes) : Folder := fun m => if m = n then v else f m

def step (f : Folder) : Op → Folder
  | .create n => upd f n (some [])
  | .append n d => upd f n ((f n).map (· ++ d))
  | .rename a b => upd (upd f b (f a)) a none

def exec (f : Folder) (p : List Op) : Folder := p.foldl step f

/-- the program of one run with tmp names `ts`, row chunks `rows` (tmp name, bytes) and final names `fs` (paired with `ts`) -/
def runProg (ts : List String) (rows : List (String × Bytes)) (fs : List String) : List Op :=
  ts.map Op.create ++ rows.map (fun r => Op.append r.1 r.2) ++ (ts.zip fs).map (fun p => Op.rename p.1 p.2)

/-- the names a program touches -/
def touched : Op → List String
  | .create n => [n]
  | .append n _ => [n]
  | .rename a b => [a, b]

/-- a name that is created before anything else happens to it -/
def FreshFirst (p : List Op) (n : String) : Prop :=
  ∃ pre post, p = pre ++ Op.create n :: post ∧ ∀ o ∈ pre, n ∉ touched o

theorem step_untouched (f : Folder) (o : Op) (n : String) (h : n ∉ touched o) : step f o n = f n := by
  cases o with
  | create m => simp only [touched, List.mem_singleton] at h; simp [step, upd, h]
  | append m d => simp only [touched, List.mem_singleton] at h; simp [step, upd, h]
  | rename a b =>
    simp only [touched, List.mem_cons, List.not_mem_nil, or_false, not_or] at h
    simp [step, upd, h.1, h.2]

theorem exec_untouched (p : List Op) : ∀ (f : Folder) (n : String), (∀ o ∈ p, n ∉ touched o) → exec f p n = f n := by
  induction p with
  | nil => intro f n _; rfl
  | cons o p ih =>
    intro f n h
    simp only [exec, List.foldl_cons]
    have := ih (step f o) n (fun o' ho' => h o' (by simp [ho']))
    simp only [exec] at this
    rw [this, step_untouched f o n (h o (by simp))]

/-- two folders that agree on a set of names keep agreeing on it under any operation whose *sources* lie in the set -/
def AgreeOn (S : String → Prop) (f g : Folder) : Prop := ∀ n, S n → f n = g n

theorem creates_agree : ∀ (cs : List String) (S : String → Prop) (f g : Folder), AgreeOn S f g →
    AgreeOn (fun n => S n ∨ n ∈ cs) (exec f (cs.map Op.create)) (exec g (cs.map Op.create)) := by
  intro cs
  induction cs with
  | nil =>
    intro S f g h n hn
    rcases hn with hn | hn
    · exact h n hn
    · cases hn
  | cons c cs ih =>
    intro S f g h
    simp only [List.map_cons, exec, List.foldl_cons]
    have h1 : AgreeOn (fun n => S n ∨ n = c) (step f (.create c)) (step g (.create c)) := by
      intro n hn
      simp only [step, upd]
      by_cases e : n = c
      · simp [e]
      · simp only [e, if_false]
        rcases hn with hn | hn
        · exact h n hn
        · exact absurd hn e
    have := ih (fun n => S n ∨ n = c) _ _ h1
    intro n hn
    apply this n
    rcases hn with hn | hn
    · exact Or.inl (Or.inl hn)
    · rcases List.mem_cons.mp hn with e | e
      · exact Or.inl (Or.inr e)
      · exact Or.inr e

theorem appends_agree (S : String → Prop) : ∀ (rows : List (String × Bytes)) (f g : Folder), AgreeOn S f g →
    AgreeOn S (exec f (rows.map fun r => Op.append r.1 r.2)) (exec g (rows.map fun r => Op.append r.1 r.2)) := by
  intro rows
  induction rows with
  | nil => intro f g h; exact h
  | cons r rows ih =>
    intro f g h
    simp only [List.map_cons, exec, List.foldl_cons]
    apply ih
    intro n hn
    simp only [step, upd]
    by_cases e : n = r.1
    · simp only [e, if_true]; rw [h r.1 (e ▸ hn)]
    · simp only [e, if_false]; exact h n hn

theorem renames_agree : ∀ (ps : List (String × String)) (S : String → Prop) (f g : Folder), AgreeOn S f g →
    (∀ p ∈ ps, S p.1) →
    AgreeOn (fun n => S n ∨ n ∈ ps.map (·.2)) (exec f (ps.map fun p => Op.rename p.1 p.2)) (exec g (ps.map fun p => Op.rename p.1 p.2)) := by
  intro ps
  induction ps with
  | nil =>
    intro S f g h _ n hn
    rcases hn with hn | hn
    · exact h n hn
    · cases hn
  | cons p ps ih =>
    intro S f g h hsrc
    simp only [List.map_cons, exec, List.foldl_cons]
    have h1 : AgreeOn (fun n => S n ∨ n = p.2) (step f (.rename p.1 p.2)) (step g (.rename p.1 p.2)) := by
      intro n hn
      simp only [step, upd]
      by_cases e1 : n = p.1
      · simp [e1]
      · simp only [e1, if_false]
        by_cases e2 : n = p.2
        · simp only [e2, if_true]; exact h p.1 (hsrc p (by simp))
        · simp only [e2, if_false]
          rcases hn with hn | hn
          · exact h n hn
          · exact absurd hn e2
    have := ih (fun n => S n ∨ n = p.2) _ _ h1 (fun q hq => Or.inl (hsrc q (by simp [hq])))
    intro n hn
    apply this n
    rcases hn with hn | hn
    · exact Or.inl (Or.inl hn)
    · rcases List.mem_cons.mp hn with e | e
      · exact Or.inl (Or.inr e)
      · exact Or.inr e

/-- **C13, dump folder.**  For the program of a run (create every tmp, append the rows, rename every tmp to its final name):
    the content of this run's tmp and final names after the run is the same whatever the folder held before — stale
    `*.tmp` files and earlier results under the same names included — and every other name is left exactly as it was -/
theorem run_independent_of_folder (ts fs : List String) (rows : List (String × Bytes)) (f g : Folder)
    (hrows : ∀ r ∈ rows, r.1 ∈ ts) (hlen : ts.length = fs.length) :
    (∀ n, n ∈ ts ∨ n ∈ fs → exec f (runProg ts rows fs) n = exec g (runProg ts rows fs) n) ∧
    (∀ n, n ∉ ts → n ∉ fs → exec f (runProg ts rows fs) n = f n) := by
  constructor
  · intro n hn
    have h1 := creates_agree ts (fun _ => False) f g (fun _ h => absurd h id)
    have h2 := appends_agree _ rows _ _ h1
    have h3 := renames_agree (ts.zip fs) _ _ _ h2 (fun p hp => Or.inr (List.of_mem_zip hp).1)
    have hexec : ∀ x : Folder, exec x (runProg ts rows fs) =
        exec (exec (exec x (ts.map Op.create)) (rows.map fun r => Op.append r.1 r.2)) ((ts.zip fs).map fun p => Op.rename p.1 p.2) := by
      intro x; simp [runProg, exec, List.foldl_append]
    rw [hexec f, hexec g]
    apply h3 n
    rcases hn with hn | hn
    · exact Or.inl (Or.inr hn)
    · right
      rw [List.map_snd_zip (by omega)]
      exact hn
  · intro n h1 h2
    apply exec_untouched
    intro o ho
    simp only [runProg, List.mem_append, List.mem_map] at ho
    rcases ho with (⟨t, ht, rfl⟩ | ⟨r, hr, rfl⟩) | ⟨p, hp, rfl⟩
    · simp only [touched, List.mem_singleton]; intro e; exact h1 (e ▸ ht)
    · simp only [touched, List.mem_singleton]; intro e; exact h1 (e ▸ hrows r hr)
    · simp only [touched, List.mem_cons, List.not_mem_nil, or_false, not_or]
      have := List.of_mem_zip hp
      exact ⟨fun e => h1 (e ▸ this.1), fun e => h2 (e ▸ this.2)⟩
end Fd
