namespace Wk
abbrev Hash := List UInt8

structure Rec where
  hash : Hash
  prev : Hash
  height : Nat
  status : Nat
  file : Nat
  off : Nat
deriving DecidableEq

def find (l : List Rec) (h : Hash) : Option Rec := l.find? (fun r => r.hash == h)

/-- `while let Some(record) = cursor.and_then(|hash| records.remove(&hash))` -/
def walk : Nat → List Rec → Hash → List Rec
  | 0, _, _ => []
  | fuel+1, l, cur => match find l cur with
    | none => []
    | some r => r :: walk fuel (l.erase r) r.prev

theorem find_mem (l : List Rec) (hnd : (l.map (·.hash)).Nodup) (r : Rec) (hr : r ∈ l) : find l r.hash = some r := by
  induction l with
  | nil => cases hr
  | cons x xs ih =>
    simp only [List.map_cons, List.nodup_cons] at hnd
    unfold find
    rw [List.find?_cons]
    by_cases hx : x.hash = r.hash
    · have : r = x := by
        rcases List.mem_cons.mp hr with h | h
        · exact h
        · exact absurd (List.mem_map_of_mem (f := (·.hash)) h) (by rw [← hx]; exact hnd.1)
      simp [hx, this]
    · have hne : (x.hash == r.hash) = false := by simpa using hx
      rw [hne]
      have hr' : r ∈ xs := by
        rcases List.mem_cons.mp hr with h | h
        · exact absurd (by rw [h]) hx
        · exact h
      exact ih hnd.2 hr'

theorem find_none (l : List Rec) (h : Hash) (hn : h ∉ l.map (·.hash)) : find l h = none := by
  unfold find
  rw [List.find?_eq_none]
  intro r hr hc
  exact hn (by rw [← (by simpa using hc : r.hash = h)]; exact List.mem_map_of_mem hr)

/-- the active chain as a function of the height, `A k` for `k ≤ T` -/
structure Chain (A : Nat → Rec) (T : Nat) (l : List Rec) : Prop where
  mem : ∀ k, k ≤ T → A k ∈ l
  link : ∀ k, k < T → (A (k + 1)).prev = (A k).hash
  inj : ∀ i j, i ≤ T → j ≤ T → (A i).hash = (A j).hash → i = j
  root : (A 0).prev ∉ l.map (·.hash)

theorem nodup_erase (l : List Rec) (r : Rec) (hnd : (l.map (·.hash)).Nodup) : ((l.erase r).map (·.hash)).Nodup := by
  exact (List.Nodup.sublist ((List.erase_sublist).map _) hnd)

/-- C04 (repaired): walking prev-links from the tip of a well-formed chain yields the chain, top down,
    whatever other records (stale, failed, reorged-out, …) are in the table -/
theorem walk_chain (A : Nat → Rec) : ∀ (k : Nat) (l : List Rec) (fuel : Nat),
    (l.map (·.hash)).Nodup → Chain A k l → k < fuel →
    walk fuel l (A k).hash = (List.range (k + 1)).reverse.map A := by
  intro k
  induction k with
  | zero =>
    intro l fuel hnd hc hf
    cases fuel with
    | zero => omega
    | succ fuel =>
      simp only [walk, find_mem l hnd (A 0) (hc.mem 0 (Nat.le_refl _))]
      have hroot : (A 0).prev ∉ (l.erase (A 0)).map (·.hash) := by
        intro h
        exact hc.root ((List.erase_sublist.map _).subset h)
      cases fuel with
      | zero => simp [walk]
      | succ f => simp [walk, find_none _ _ hroot]
  | succ k ih =>
    intro l fuel hnd hc hf
    cases fuel with
    | zero => omega
    | succ fuel =>
      simp only [walk, find_mem l hnd (A (k + 1)) (hc.mem (k + 1) (Nat.le_refl _))]
      rw [hc.link k (Nat.lt_succ_self k)]
      have hc' : Chain A k (l.erase (A (k + 1))) := by
        refine ⟨?_, ?_, ?_, ?_⟩
        · intro j hj
          have hne : A j ≠ A (k + 1) := by
            intro h
            have := hc.inj j (k + 1) (by omega) (Nat.le_refl _) (by rw [h])
            omega
          exact (List.mem_erase_of_ne hne).mpr (hc.mem j (by omega))
        · intro j hj; exact hc.link j (by omega)
        · intro i j hi hj; exact hc.inj i j (by omega) (by omega)
        · intro h; exact hc.root ((List.erase_sublist.map _).subset h)
      rw [ih _ fuel (nodup_erase l _ hnd) hc' (by omega)]
      simp [List.range_succ]
end Wk
