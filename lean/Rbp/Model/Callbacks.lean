import Std.Data.HashMap
import Rbp.Model.Block
import Rbp.Model.F64
namespace CB
open W Csv Std

structure EBlock where
  height : Nat
  size : Nat
  blk : RBlock

def txid (t : RTx) : Bytes := A.sha256d t.toBytes
def key (t : Bytes) (i : Nat) : Bytes := t ++ toLE 4 (i % 2^32)

structure Unspent where
  height : Nat
  value : Nat
  address : String

/-- common.rs remove_unspents / insert_unspents, per transaction, in block order -/
def applyTx (ver : UInt8) (height : Nat) (m : HashMap Bytes Unspent) (t : RTx) : HashMap Bytes Unspent :=
  let m := t.ins.foldl (fun m i => m.erase (key i.prev i.idx)) m
  let id := txid t
  ((List.range t.outs.length).zip t.outs).foldl (fun m (k, o) =>
    match (S.eval ver o.script).address with
    | some a => m.insert (key id k) ⟨height, o.value, a⟩
    | none => m) m

def utxo (ver : UInt8) (bs : List EBlock) : HashMap Bytes Unspent :=
  bs.foldl (fun m b => b.blk.txs.foldl (applyTx ver b.height) m) {}

def unspentRows (m : HashMap Bytes Unspent) : List String :=
  m.toList.map fun (k, u) => s!"{hashHex (k.take 32)};{le (k.drop 32)};{u.height};{u.value};{u.address}"

/-- balances.rs on_complete: `*balances.entry(addr).or_insert(0) += value` over the unspent values -/
def balanceMap (m : HashMap Bytes Unspent) : HashMap String Nat :=
  m.toList.foldl (fun b (p : Bytes × Unspent) => b.insert p.2.address (b.getD p.2.address 0 + p.2.value)) {}

def balanceRows (m : HashMap Bytes Unspent) : List String :=
  (balanceMap m).toList.map fun (a, v) => s!"{a};{v}"

/-- opreturn.rs -/
def opreturnLines (ver : UInt8) (bs : List EBlock) : List String :=
  bs.flatMap fun b => b.blk.txs.flatMap fun t =>
    -- the transaction's id is computed once per transaction, not once per line (a transaction may carry thousands of OP_RETURN outputs)
    let id := hashHex (txid t)
    t.outs.filterMap fun o =>
    match (S.eval ver o.script).pattern with
    | .opReturn p => if p.isEmpty then none else
        let hs := toString b.height
        some s!"height: {hs}{String.ofList (List.replicate (9 - hs.length) ' ')} txid: {id}    data: {Sha.hex p}"
    | _ => none

/-- simplestats.rs accumulators (integers only) -/
structure Stats where
  blocks : Nat := 0
  txs : Nat := 0
  ins : Nat := 0
  outs : Nat := 0
  fees : Nat := 0
  volume : Nat := 0
  bigVal : Nat × Nat × Bytes := (0, 0, List.replicate 32 0)
  bigSize : Nat × Nat × Bytes := (0, 0, List.replicate 32 0)
  sizes : List Nat := []
  gaps : List Nat := []
  lastTs : Nat := 0
  types : List (String × Nat × Nat × Bytes) := []      -- name, count, first height, first txid

def isCoinbase (t : RTx) : Bool :=
  t.icnt.value == 1 && match t.ins with
    | i :: _ => i.prev == List.replicate 32 0 && i.idx == 0xFFFFFFFF
    | [] => false

def bump (types : List (String × Nat × Nat × Bytes)) (n : String) (h : Nat) (id : Bytes) :=
  if types.any (·.1 == n) then types.map (fun e => if e.1 == n then (e.1, e.2.1 + 1, e.2.2) else e)
  else types ++ [(n, 1, h, id)]

/-- block subsidy assumed by the fee figure: 50 coins halved every 210000 heights -/
def reward (height : Nat) : Nat := (5000000000 : Nat) >>> (height / 210000)

/-- sum of the output values of a transaction -/
def txVolume (t : RTx) : Nat := t.outs.foldl (fun a o => a + o.value) 0

/-- fee figure of one transaction: for a coinbase, first-output value above the subsidy, floored at zero; else nothing -/
def txFee (height : Nat) (t : RTx) : Nat :=
  if isCoinbase t then (match t.outs with | o :: _ => o.value - reward height | [] => 0) else 0

/-- the per-transaction part of `on_block` -/
def statsTx (ver : UInt8) (height : Nat) (s : Stats) (t : RTx) : Stats :=
  let id := txid t
  let tv := txVolume t
  let types := t.outs.foldl (fun ty o => bump ty (S.eval ver o.script).pattern.name height id) s.types
  let sz := t.toBytes.length
  { s with fees := s.fees + txFee height t, ins := s.ins + t.icnt.value, outs := s.outs + t.ocnt.value,
           bigVal := if tv > s.bigVal.1 then (tv, height, id) else s.bigVal,
           volume := s.volume + tv,
           bigSize := if sz > s.bigSize.1 then (sz, height, id) else s.bigSize,
           types := types }

def statsBlock (ver : UInt8) (s : Stats) (b : EBlock) : Stats :=
  let s := { s with blocks := s.blocks + 1, txs := s.txs + b.blk.txCount.value, sizes := s.sizes ++ [b.size] }
  let s : Stats := b.blk.txs.foldl (statsTx ver b.height) s
  let gaps := if s.lastTs > 0 then s.gaps ++ [b.blk.header.time - s.lastTs] else s.gaps
  { s with gaps := gaps, lastTs := b.blk.header.time }

/-- dev-profile panics of `SimpleStats::on_block`: `outputs[0]` of a coinbase-shaped transaction without outputs, the shift in
    `get_base_reward` at heights ≥ 64·210000, and u64 overflow of any running sum (`attempt to add with overflow`) -/
def statsPanics (ver : UInt8) (bs : List EBlock) : Bool :=
  bs.any (fun b => b.blk.txs.any fun t => isCoinbase t && (t.outs.isEmpty || decide (b.height / 210000 ≥ 64))) ||
  bs.any (fun b => b.blk.txs.any fun t => decide (txVolume t ≥ 2^64)) ||
  (let s := bs.foldl (statsBlock ver) {}
   decide (s.fees ≥ 2^64) || decide (s.volume ≥ 2^64) || decide (s.txs ≥ 2^64) || decide (s.ins ≥ 2^64) || decide (s.outs ≥ 2^64))

/-- dev-profile panic of `Balances::on_complete`: a per-address sum leaving u64 -/
def balancePanics (m : HashMap Bytes Unspent) : Bool := (balanceMap m).toList.any fun p => decide (p.2 ≥ 2^64)

/-- number of outputs `insert_unspents` reports: the address-bearing ones -/
def insertedCount (ver : UInt8) (bs : List EBlock) : Nat :=
  (bs.flatMap (·.blk.txs)).foldl (fun a t => a + (t.outs.filter fun o => (S.eval ver o.script).address.isSome).length) 0

/-- the floating-point figures of the report, as printed (`{:.8}` / `{:.2}` of correctly rounded binary64 results) -/
def figureLines (s : Stats) : List String :=
  let ssum := s.sizes.foldl (·+·) 0
  let gsum := s.gaps.foldl (·+·) 0
  [s!"f_fees={F64.coins s.fees}", s!"f_volume={F64.coins s.volume}", s!"f_bigval={F64.coins s.bigVal.1}",
   s!"f_avg_size={F64.meanOver ssum s.sizes.length 1024}", s!"f_avg_time={F64.meanOver gsum s.gaps.length 60}",
   s!"f_avg_txs={F64.ratio s.txs s.blocks}", s!"f_avg_ins={F64.ratio s.ins s.txs}", s!"f_avg_outs={F64.ratio s.outs s.txs}",
   s!"f_avg_value={F64.valuePerOutput s.volume s.outs}"] ++
  s.types.map fun (n, c, _, _) => s!"share {n} {F64.share c s.outs}"

def statsLines (s : Stats) : List String :=
  [s!"blocks={s.blocks}", s!"txs={s.txs}", s!"ins={s.ins}", s!"outs={s.outs}", s!"fees={s.fees}", s!"volume={s.volume}",
   s!"bigval={s.bigVal.1}@{s.bigVal.2.1}:{hashHex s.bigVal.2.2}", s!"bigsize={s.bigSize.1}@{s.bigSize.2.1}:{hashHex s.bigSize.2.2}",
   s!"sizesum={s.sizes.foldl (·+·) 0}/{s.sizes.length}", s!"gapsum={s.gaps.foldl (·+·) 0}/{s.gaps.length}"] ++
  (s.types.map fun (n, c, h, id) => s!"type {n} {c} {h} {hashHex id}") ++ figureLines s
end CB
