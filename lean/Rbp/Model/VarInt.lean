namespace VI
inductive Res where
  | ok (n : Nat) (rest : List UInt8)
  | eof
  | panic
deriving Repr, DecidableEq

/-- model of index.rs read_varint: acc is `n` at loop head; 144115188075855871 = u64::MAX >> 7 -/
def dec (acc : Nat) : List UInt8 → Res
  | [] => .eof
  | ch :: rest =>
    if acc > 144115188075855871 then .panic
    else
      let n := acc * 128 + ch.toNat % 128
      if ch.toNat ≥ 128 then
        if n = 18446744073709551615 then .panic else dec (n + 1) rest
      else .ok n rest

def encCont (m : Nat) : List UInt8 :=
  if h : m < 128 then [UInt8.ofNat (128 + m)]
  else encCont (m / 128 - 1) ++ [UInt8.ofNat (128 + m % 128)]
termination_by m
decreasing_by omega

def enc (n : Nat) : List UInt8 :=
  if n < 128 then [UInt8.ofNat n] else encCont (n / 128 - 1) ++ [UInt8.ofNat (n % 128)]

theorem toNat_ofNat_lt (k : Nat) (h : k < 256) : (UInt8.ofNat k).toNat = k := by
  simp [UInt8.toNat_ofNat']; omega

theorem dec_encCont (m : Nat) : ∀ (t : List UInt8), m + 1 ≤ 144115188075855871 →
    dec 0 (encCont m ++ t) = dec (m + 1) t := by
  induction m using Nat.strongRecOn with
  | _ m ih =>
    intro t hm
    unfold encCont
    split
    · rename_i h
      have e : (UInt8.ofNat (128 + m)).toNat = 128 + m := toNat_ofNat_lt _ (by omega)
      simp only [List.cons_append, List.nil_append, dec, e]
      have : (128 + m) % 128 = m := by omega
      simp [this]; omega
    · rename_i h
      have hlt : m / 128 - 1 < m := by omega
      have hb : m / 128 - 1 + 1 ≤ 144115188075855871 := by omega
      rw [List.append_assoc, ih _ hlt _ hb]
      have e1 : m / 128 - 1 + 1 = m / 128 := by omega
      have e : (UInt8.ofNat (128 + m % 128)).toNat = 128 + m % 128 := toNat_ofNat_lt _ (by omega)
      rw [e1]
      simp only [List.cons_append, List.nil_append, dec, e]
      have e3 : (128 + m % 128) % 128 = m % 128 := by omega
      have e2 : m / 128 * 128 + m % 128 = m := by omega
      simp [e3, e2]
      have h1 : ¬ 144115188075855871 < m / 128 := by omega
      have h2 : ¬ m = 18446744073709551615 := by omega
      simp [h1, h2]

theorem dec_enc (n : Nat) (t : List UInt8) (hn : n ≤ 18446744073709551615) :
    dec 0 (enc n ++ t) = .ok n t := by
  unfold enc
  split
  · rename_i h
    have e : (UInt8.ofNat n).toNat = n := toNat_ofNat_lt _ (by omega)
    simp only [List.cons_append, List.nil_append, dec, e]
    have : n % 128 = n := by omega
    simp [this]; omega
  · rename_i h
    have hb : n / 128 - 1 + 1 ≤ 144115188075855871 := by omega
    rw [List.append_assoc, dec_encCont _ _ hb]
    have e1 : n / 128 - 1 + 1 = n / 128 := by omega
    have e : (UInt8.ofNat (n % 128)).toNat = n % 128 := toNat_ofNat_lt _ (by omega)
    have e3 : n % 128 % 128 = n % 128 := by omega
    have e2 : n / 128 * 128 + n % 128 = n := by omega
    rw [e1]
    simp only [List.cons_append, List.nil_append, dec, e]
    have h1 : ¬ 144115188075855871 < n / 128 := by omega
    simp [e3, e2, h1]; omega
end VI
