import Rbp.Model.Output
/-!
# C10 for a callback with several output files (csvdump writes four)

`n` buffered writers on `n` tmp files; rows are written in any interleaving; `on_complete` flushes all writers, then renames
all files, then the writers are dropped.  One shared `ok` flag: the first reported error ends the process.
-/
namespace ON
open O

structure S where
  ws : Nat → W
  ok : Bool
  renamed : Nat → Bool

inductive Cmd
  | write (i : Nat) (d : Bytes)
  | flush (i : Nat)
  | rename (i : Nat)
  | drop (i : Nat)

def upd {α} (f : Nat → α) (i : Nat) (x : α) : Nat → α := fun j => if j = i then x else f j

@[simp] theorem upd_same {α} (f : Nat → α) (i : Nat) (x : α) : upd f i x i = x := by simp [upd]
theorem upd_other {α} (f : Nat → α) (i j : Nat) (x : α) (h : j ≠ i) : upd f i x j = f j := by simp [upd, h]

def step (s : S) (c : Cmd) : S :=
  if !s.ok then s else
  match c with
  | .write i d => let r := (s.ws i).writeAll d; { s with ws := upd s.ws i r.1, ok := r.2 }
  | .flush i => let r := (s.ws i).flushBuf; { s with ws := upd s.ws i r.1, ok := r.2 }
  | .rename i => { s with renamed := upd s.renamed i true }
  | .drop i => { s with ws := upd s.ws i (s.ws i).flushBuf.1 }

def init (cap : Nat) (budget : Nat → Nat) : S := ⟨fun i => ⟨cap, budget i, [], [], []⟩, true, fun _ => false⟩
def exec (s : S) (p : List Cmd) : S := p.foldl step s

/-- the program of a run: rows in any interleaving, then flush every writer, then rename every file, then drop the writers -/
def prog (n : Nat) (writes : List (Nat × Bytes)) : List Cmd :=
  (writes.map (fun p => Cmd.write p.1 p.2) ++ (List.range n).map Cmd.flush) ++
  ((List.range n).map Cmd.rename ++ (List.range n).map Cmd.drop)

/-- what file `i` must contain in the end -/
def content (i : Nat) (writes : List (Nat × Bytes)) : Bytes := (writes.filter (·.1 = i)).flatMap (·.2)

theorem step_frozen (s : S) (c : Cmd) (h : s.ok = false) : step s c = s := by simp [step, h]
theorem exec_frozen (s : S) (p : List Cmd) (h : s.ok = false) : exec s p = s := by
  induction p with
  | nil => rfl
  | cons c p ih => simp only [exec, List.foldl_cons]; rw [step_frozen s c h]; exact ih

def isRename : Cmd → Bool | .rename _ => true | _ => false

/-- only `rename` makes a final name appear -/
theorem exec_no_rename (p : List Cmd) (h : ∀ c ∈ p, isRename c = false) : ∀ s : S, (exec s p).renamed = s.renamed := by
  induction p with
  | nil => intro s; rfl
  | cons c p ih =>
    intro s
    simp only [exec, List.foldl_cons]
    have hc := h c (by simp)
    have := ih (fun c' hc' => h c' (by simp [hc'])) (step s c)
    simp only [exec] at this
    rw [this]
    by_cases hok : s.ok = true
    · cases c <;> simp [step, hok, isRename] at hc ⊢
    · have : s.ok = false := by simpa using hok
      rw [step_frozen s c this]

/-- write phase: while no error was reported, `disk ++ buf` of every file is what was written to it -/
theorem writes_inv (writes : List (Nat × Bytes)) : ∀ s : S,
    let s' := exec s (writes.map (fun p => Cmd.write p.1 p.2))
    (s'.ok = true → s.ok = true ∧ ∀ i, (s'.ws i).disk ++ (s'.ws i).buf = (s.ws i).disk ++ (s.ws i).buf ++ content i writes) := by
  induction writes with
  | nil => intro s; simp [exec, content]
  | cons w ws ih =>
    intro s
    simp only [List.map_cons, exec, List.foldl_cons]
    intro h'
    have ih' := ih (step s (.write w.1 w.2))
    simp only [exec] at ih'
    obtain ⟨hok1, hall⟩ := ih' h'
    by_cases hok : s.ok = true
    · have hs : (step s (.write w.1 w.2)).ok = ((s.ws w.1).writeAll w.2).2 := by simp [step, hok]
      have hw : (step s (.write w.1 w.2)).ws = upd s.ws w.1 ((s.ws w.1).writeAll w.2).1 := by simp [step, hok]
      rw [hs] at hok1
      refine ⟨hok, fun i => ?_⟩
      rw [hall i, hw]
      by_cases hi : i = w.1
      · subst hi
        rw [upd_same, writeAll_ok _ _ hok1]
        simp [content, List.filter_cons, List.append_assoc]
      · rw [upd_other _ _ _ _ hi]
        have : ¬ w.1 = i := fun e => hi e.symm
        simp [content, List.filter_cons, this]
    · have hf : s.ok = false := by simpa using hok
      rw [step_frozen s _ hf] at hok1
      exact absurd hok1 hok

/-- flush phase: content is preserved, flushed writers have empty buffers, empty buffers stay empty -/
theorem flushes_inv (L : List Nat) : ∀ s : S,
    let s' := exec s (L.map Cmd.flush)
    (s'.ok = true → s.ok = true ∧ ∀ i, (s'.ws i).disk ++ (s'.ws i).buf = (s.ws i).disk ++ (s.ws i).buf ∧
      (((s.ws i).buf = [] ∨ i ∈ L) → (s'.ws i).buf = [])) := by
  induction L with
  | nil => intro s; simp [exec]
  | cons a L ih =>
    intro s
    simp only [List.map_cons, exec, List.foldl_cons]
    intro h'
    have ih' := ih (step s (.flush a))
    simp only [exec] at ih'
    obtain ⟨hok1, hall⟩ := ih' h'
    by_cases hok : s.ok = true
    · have hs : (step s (.flush a)).ok = (s.ws a).flushBuf.2 := by simp [step, hok]
      have hw : (step s (.flush a)).ws = upd s.ws a (s.ws a).flushBuf.1 := by simp [step, hok]
      rw [hs] at hok1
      have hfo := flushBuf_ok (s.ws a) hok1
      refine ⟨hok, fun i => ?_⟩
      obtain ⟨h1, h2⟩ := hall i
      rw [hw] at h1 h2
      by_cases hi : i = a
      · subst hi
        rw [upd_same] at h1 h2
        refine ⟨by rw [h1, hfo.1, hfo.2]; simp, fun _ => h2 (Or.inl hfo.2)⟩
      · rw [upd_other _ _ _ _ hi] at h1 h2
        refine ⟨h1, fun hc => h2 ?_⟩
        rcases hc with hc | hc
        · exact Or.inl hc
        · rcases List.mem_cons.mp hc with e | e
          · exact absurd e hi
          · exact Or.inr e
    · have hf : s.ok = false := by simpa using hok
      rw [step_frozen s _ hf] at hok1
      exact absurd hok1 hok

def isRD (n : Nat) : Cmd → Prop
  | .rename j => j < n
  | .drop j => j < n
  | _ => False

/-- rename / drop phase, started with every buffer empty: nothing fails, no file content changes, buffers stay empty -/
theorem rd_inv (n : Nat) (p : List Cmd) (hp : ∀ c ∈ p, isRD n c) : ∀ s : S, s.ok = true → (∀ i, i < n → (s.ws i).buf = []) →
    (exec s p).ok = true ∧ ∀ i, i < n → ((exec s p).ws i).disk = (s.ws i).disk ∧ ((exec s p).ws i).buf = [] := by
  induction p with
  | nil => intro s hok hb; exact ⟨hok, fun i hi => ⟨rfl, hb i hi⟩⟩
  | cons c p ih =>
    intro s hok hb
    simp only [exec, List.foldl_cons]
    have hc := hp c (by simp)
    have hp' : ∀ c' ∈ p, isRD n c' := fun c' h' => hp c' (by simp [h'])
    cases c with
    | write i d => exact absurd hc (by simp [isRD])
    | flush i => exact absurd hc (by simp [isRD])
    | rename j =>
      have e : step s (.rename j) = { s with renamed := upd s.renamed j true } := by simp [step, hok]
      rw [e]
      exact ih hp' _ hok hb
    | drop j =>
      have e : step s (.drop j) = { s with ws := upd s.ws j (s.ws j).flushBuf.1 } := by simp [step, hok]
      rw [e]
      have hj : j < n := hc
      have hn := flushBuf_nil (s.ws j) (hb j hj)
      have hb' : ∀ i, i < n → ((upd s.ws j (s.ws j).flushBuf.1) i).buf = [] := by
        intro i hi
        by_cases hij : i = j
        · subst hij; rw [upd_same]; exact hn.2
        · rw [upd_other _ _ _ _ hij]; exact hb i hi
      obtain ⟨h1, h2⟩ := ih hp' { s with ws := upd s.ws j (s.ws j).flushBuf.1 } hok hb'
      refine ⟨h1, fun i hi => ?_⟩
      obtain ⟨d1, d2⟩ := h2 i hi
      refine ⟨?_, d2⟩
      show ((exec { s with ws := upd s.ws j (s.ws j).flushBuf.1 } p).ws i).disk = _
      rw [d1]
      by_cases hij : i = j
      · subst hij; simp only [upd_same]; exact hn.1
      · simp only [upd_other _ _ _ _ hij]

/-- a rename in a rename/drop list whose indices are below `n` -/
theorem rd_renamed (p : List Cmd) : ∀ s : S, ∀ i, (exec s p).renamed i = true → s.renamed i = true ∨ Cmd.rename i ∈ p := by
  induction p with
  | nil => intro s i h; exact Or.inl h
  | cons c p ih =>
    intro s i h
    simp only [exec, List.foldl_cons] at h
    rcases ih (step s c) i h with h1 | h1
    · by_cases hok : s.ok = true
      · cases c with
        | write j d => simp [step, hok] at h1; exact Or.inl h1
        | flush j => simp [step, hok] at h1; exact Or.inl h1
        | drop j => simp [step, hok] at h1; exact Or.inl h1
        | rename j =>
          simp only [step, hok, Bool.not_true, Bool.false_eq_true, if_false] at h1
          by_cases hij : i = j
          · subst hij; exact Or.inr (by simp)
          · rw [upd_other _ _ _ _ hij] at h1; exact Or.inl h1
      · have hf : s.ok = false := by simpa using hok
        rw [step_frozen s c hf] at h1; exact Or.inl h1
    · exact Or.inr (List.mem_cons_of_mem _ h1)

/-- state after the write and flush phases -/
theorem phase12 (n cap : Nat) (budget : Nat → Nat) (writes : List (Nat × Bytes)) :
    let s := exec (init cap budget) (writes.map (fun p => Cmd.write p.1 p.2) ++ (List.range n).map Cmd.flush)
    (∀ i, s.renamed i = false) ∧
    (s.ok = true → ∀ i, i < n → (s.ws i).disk = content i writes ∧ (s.ws i).buf = []) := by
  intro s
  have hnr : s.renamed = (init cap budget).renamed := by
    apply exec_no_rename
    intro c hc
    rcases List.mem_append.mp hc with h | h
    · obtain ⟨p, _, rfl⟩ := List.mem_map.mp h; rfl
    · obtain ⟨j, _, rfl⟩ := List.mem_map.mp h; rfl
  refine ⟨fun i => by rw [hnr]; rfl, ?_⟩
  intro hok i hi
  have hs : s = exec (exec (init cap budget) (writes.map (fun p => Cmd.write p.1 p.2))) ((List.range n).map Cmd.flush) := by
    simp [s, exec, List.foldl_append]
  rw [hs] at hok ⊢
  obtain ⟨hok1, hf⟩ := flushes_inv (List.range n) _ hok
  obtain ⟨_, hw⟩ := writes_inv writes (init cap budget) hok1
  obtain ⟨h1, h2⟩ := hf i
  have hb := h2 (Or.inr (List.mem_range.mpr hi))
  refine ⟨?_, hb⟩
  rw [hb, List.append_nil] at h1
  rw [h1, hw i]
  simp [init]

/-- **exit status vs. files, n writers.**  Success ⇒ every file renamed and complete; a reported failure ⇒ no file renamed -/
theorem final_n (n cap : Nat) (budget : Nat → Nat) (writes : List (Nat × Bytes)) :
    let s := exec (init cap budget) (prog n writes)
    (s.ok = true → ∀ i, i < n → s.renamed i = true ∧ (s.ws i).disk = content i writes ∧ (s.ws i).buf = []) ∧
    (s.ok = false → ∀ i, s.renamed i = false) := by
  intro s
  have h12 := phase12 n cap budget writes
  have hs : s = exec (exec (init cap budget) (writes.map (fun p => Cmd.write p.1 p.2) ++ (List.range n).map Cmd.flush))
      ((List.range n).map Cmd.rename ++ (List.range n).map Cmd.drop) := by
    simp only [s, prog, exec, List.foldl_append]
  generalize exec (init cap budget) (writes.map (fun p => Cmd.write p.1 p.2) ++ (List.range n).map Cmd.flush) = s2 at h12 hs
  obtain ⟨hr2, hc2⟩ := h12
  have hrd : ∀ c ∈ (List.range n).map Cmd.rename ++ (List.range n).map Cmd.drop, isRD n c := by
    intro c hc
    rcases List.mem_append.mp hc with h | h
    · obtain ⟨j, hj, rfl⟩ := List.mem_map.mp h; exact List.mem_range.mp hj
    · obtain ⟨j, hj, rfl⟩ := List.mem_map.mp h; exact List.mem_range.mp hj
  by_cases hok2 : s2.ok = true
  · have hc := hc2 hok2
    obtain ⟨hok, hd⟩ := rd_inv n _ hrd s2 hok2 (fun i hi => (hc i hi).2)
    rw [← hs] at hok hd
    refine ⟨fun _ i hi => ?_, fun hf => by rw [hok] at hf; cases hf⟩
    refine ⟨?_, by rw [(hd i hi).1]; exact (hc i hi).1, (hd i hi).2⟩
    -- the rename of file i is executed
    have : ∀ (p : List Cmd) (t : S), t.ok = true → (∀ c ∈ p, isRD n c) → Cmd.rename i ∈ p → (exec t p).renamed i = true ∨ False := by
      intro p
      induction p with
      | nil => intro t _ _ h; cases h
      | cons c p ih =>
        intro t hok hall hmem
        simp only [exec, List.foldl_cons]
        have hok' : (step t c).ok = true := by
          have := hall c (by simp)
          cases c <;> simp [step, hok, isRD] at this ⊢
        have hall' : ∀ c' ∈ p, isRD n c' := fun c' h' => hall c' (by simp [h'])
        rcases List.mem_cons.mp hmem with e | e
        · subst e
          left
          -- once renamed, stays renamed
          have mono : ∀ (q : List Cmd) (u : S), u.renamed i = true → (exec u q).renamed i = true := by
            intro q
            induction q with
            | nil => intro u h; exact h
            | cons c q ihq =>
              intro u h
              simp only [exec, List.foldl_cons]
              apply ihq
              by_cases huk : u.ok = true
              · cases c with
                | write j d => simpa [step, huk] using h
                | flush j => simpa [step, huk] using h
                | drop j => simpa [step, huk] using h
                | rename j =>
                  simp only [step, huk, Bool.not_true, Bool.false_eq_true, if_false]
                  by_cases hij : i = j
                  · subst hij; simp
                  · rw [upd_other _ _ _ _ hij]; exact h
              · have hf : u.ok = false := by simpa using huk
                rw [step_frozen u c hf]; exact h
          have := mono p (step t (.rename i)) (by simp [step, hok])
          simpa [exec] using this
        · exact ih (step t c) hok' hall' e
    have hmem : Cmd.rename i ∈ (List.range n).map Cmd.rename ++ (List.range n).map Cmd.drop :=
      List.mem_append.mpr (Or.inl (List.mem_map.mpr ⟨i, List.mem_range.mpr hi, rfl⟩))
    rcases this _ s2 hok2 hrd hmem with h | h
    · rw [hs]; exact h
    · cases h
  · have hf2 : s2.ok = false := by simpa using hok2
    rw [exec_frozen s2 _ hf2] at hs
    rw [hs]
    exact ⟨fun h => absurd h (by simp [hf2]), fun _ i => hr2 i⟩

/-- **at no instant, n writers.**  After ANY prefix of the program (a SIGKILL at any point), every file visible under its
    final name holds its complete content and nothing of it is left in a buffer -/
theorem no_partial_instant_n (n cap : Nat) (budget : Nat → Nat) (writes : List (Nat × Bytes)) (k : Nat) :
    let s := exec (init cap budget) ((prog n writes).take k)
    ∀ i, i < n → s.renamed i = true → (s.ws i).disk = content i writes ∧ (s.ws i).buf = [] := by
  intro s i hi hren
  let A := writes.map (fun p => Cmd.write p.1 p.2) ++ (List.range n).map Cmd.flush
  let B := (List.range n).map Cmd.rename ++ (List.range n).map Cmd.drop
  have hA : ∀ c ∈ A, isRename c = false := by
    intro c hc
    rcases List.mem_append.mp hc with h | h
    · obtain ⟨p, _, rfl⟩ := List.mem_map.mp h; rfl
    · obtain ⟨j, _, rfl⟩ := List.mem_map.mp h; rfl
  have hB : ∀ c ∈ B, isRD n c := by
    intro c hc
    rcases List.mem_append.mp hc with h | h
    · obtain ⟨j, hj, rfl⟩ := List.mem_map.mp h; exact List.mem_range.mp hj
    · obtain ⟨j, hj, rfl⟩ := List.mem_map.mp h; exact List.mem_range.mp hj
  have hprog : prog n writes = A ++ B := rfl
  by_cases hk : k ≤ A.length
  · -- no rename has been executed yet
    have : (prog n writes).take k = A.take k := by rw [hprog, List.take_append_of_le_length hk]
    have hnr := exec_no_rename (A.take k) (fun c hc => hA c (List.mem_of_mem_take hc)) (init cap budget)
    simp only [s, this] at hren
    rw [hnr] at hren
    cases hren
  · have hk' : A.length ≤ k := by omega
    have htake : (prog n writes).take k = A ++ B.take (k - A.length) := by
      rw [hprog, List.take_append, List.take_of_length_le hk']
    have h12 := phase12 n cap budget writes
    have hs : s = exec (exec (init cap budget) A) (B.take (k - A.length)) := by
      simp only [s, htake, exec, List.foldl_append]
    change (let s := exec (init cap budget) A; _) at h12
    generalize exec (init cap budget) A = s2 at h12 hs
    obtain ⟨hr2, hc2⟩ := h12
    by_cases hok2 : s2.ok = true
    · have hc := hc2 hok2
      obtain ⟨_, hd⟩ := rd_inv n (B.take (k - A.length)) (fun c hc' => hB c (List.mem_of_mem_take hc')) s2 hok2
        (fun j hj => (hc j hj).2)
      rw [hs]
      exact ⟨by rw [(hd i hi).1]; exact (hc i hi).1, (hd i hi).2⟩
    · have hf2 : s2.ok = false := by simpa using hok2
      rw [exec_frozen s2 _ hf2] at hs
      rw [hs, hr2 i] at hren
      exact absurd hren (by simp)
end ON
