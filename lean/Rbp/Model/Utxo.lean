import Std.Data.HashMap
open Std
namespace U
abbrev Key := List UInt8

inductive Op (V : Type) where
  | spend (k : Key)
  | create (k : Key) (v : V)

def Op.key {V} : Op V → Key
  | .spend k => k
  | .create k _ => k

/-- model: remove_unspents / insert_unspents as one fold over the flattened operation list -/
def apply {V} (m : HashMap Key V) : Op V → HashMap Key V
  | .spend k => m.erase k
  | .create k v => m.insert k v

def run {V} (m : HashMap Key V) (ops : List (Op V)) : HashMap Key V := ops.foldl apply m

/-- spec: what the last operation mentioning `k` says; `init` if none does -/
def lastTouch {V} (init : Option V) (k : Key) : List (Op V) → Option V
  | [] => init
  | .spend k' :: rest => lastTouch (if k' = k then none else init) k rest
  | .create k' v :: rest => lastTouch (if k' = k then some v else init) k rest

theorem run_lookup {V} (ops : List (Op V)) : ∀ (m : HashMap Key V) (k : Key),
    (run m ops)[k]? = lastTouch m[k]? k ops := by
  induction ops with
  | nil => intro m k; simp [run, lastTouch]
  | cons op rest ih =>
    intro m k
    have := ih (apply m op) k
    simp only [run, List.foldl_cons] at this ⊢
    rw [this]
    cases op with
    | spend k' => simp [apply, lastTouch, HashMap.getElem?_erase]
    | create k' v => simp [apply, lastTouch, HashMap.getElem?_insert]

/-- declarative reading: either a creation of `k ↦ v` not followed by any mention of `k`,
    or nothing mentions `k` and the initial binding was `v` -/
theorem lastTouch_iff {V} (k : Key) (v : V) (ops : List (Op V)) : ∀ (init : Option V),
    lastTouch init k ops = some v ↔
      (∃ pre post, ops = pre ++ Op.create k v :: post ∧ ∀ o ∈ post, o.key ≠ k)
      ∨ (init = some v ∧ ∀ o ∈ ops, o.key ≠ k) := by
  induction ops with
  | nil => intro init; simp [lastTouch]
  | cons op rest ih =>
    intro init
    cases op with
    | spend k' =>
      simp only [lastTouch]
      rw [ih]
      constructor
      · rintro (⟨pre, post, h, hp⟩ | ⟨h1, h2⟩)
        · exact Or.inl ⟨Op.spend k' :: pre, post, by simp [h], hp⟩
        · by_cases hk : k' = k
          · simp [hk] at h1
          · simp [hk] at h1
            exact Or.inr ⟨h1, by intro o ho; rcases List.mem_cons.mp ho with rfl | ho; exact hk; exact h2 o ho⟩
      · rintro (⟨pre, post, h, hp⟩ | ⟨h1, h2⟩)
        · cases pre with
          | nil => simp at h
          | cons p pre' =>
            simp at h
            exact Or.inl ⟨pre', post, h.2, hp⟩
        · have hk : k' ≠ k := h2 (Op.spend k') (by simp)
          exact Or.inr ⟨by simp [hk, h1], fun o ho => h2 o (by simp [ho])⟩
    | create k' v' =>
      simp only [lastTouch]
      rw [ih]
      constructor
      · rintro (⟨pre, post, h, hp⟩ | ⟨h1, h2⟩)
        · exact Or.inl ⟨Op.create k' v' :: pre, post, by simp [h], hp⟩
        · by_cases hk : k' = k
          · simp [hk] at h1
            exact Or.inl ⟨[], rest, by simp [hk, h1], h2⟩
          · simp [hk] at h1
            exact Or.inr ⟨h1, by intro o ho; rcases List.mem_cons.mp ho with rfl | ho; exact hk; exact h2 o ho⟩
      · rintro (⟨pre, post, h, hp⟩ | ⟨h1, h2⟩)
        · cases pre with
          | nil =>
            simp at h
            obtain ⟨⟨hk, hv⟩, hr⟩ := h
            exact Or.inr ⟨by simp [hk, hv], by rw [hr]; exact hp⟩
          | cons p pre' =>
            simp at h
            exact Or.inl ⟨pre', post, h.2, hp⟩
        · have hk : k' ≠ k := h2 (Op.create k' v') (by simp)
          exact Or.inr ⟨by simp [hk, h1], fun o ho => h2 o (by simp [ho])⟩

theorem unspent_from_empty {V} (ops : List (Op V)) (k : Key) :
    (run (∅ : HashMap Key V) ops)[k]? = lastTouch none k ops := by
  simpa using run_lookup ops ∅ k
end U
