import Rbp.Model.VarInt
import Rbp.Model.Block
namespace Run
open W

structure Rec where
  hash : Bytes
  height : Nat
  status : Nat
  file : Nat
  off : Nat

/-- index.rs BlockIndexRecord::from: six VarInts, whatever the status bits say -/
def decodeRec (key value : Bytes) : Option Rec :=
  match VI.dec 0 value with
  | .ok _ver r1 => match VI.dec 0 r1 with
    | .ok height r2 => match VI.dec 0 r2 with
      | .ok status r3 => match VI.dec 0 r3 with
        | .ok _ntx r4 => match VI.dec 0 r4 with
          | .ok file r5 => match VI.dec 0 r5 with
            | .ok off _ => some ⟨key.drop 1, height, status, file, off⟩
            | _ => none
          | _ => none
        | _ => none
      | _ => none
    | _ => none
  | _ => none

def lexLt : Bytes → Bytes → Bool
  | [], [] => false
  | [], _ => true
  | _, [] => false
  | a :: as, b :: bs => if a < b then true else if b < a then false else lexLt as bs

def insertSorted (kv : Bytes × Bytes) : List (Bytes × Bytes) → List (Bytes × Bytes)
  | [] => [kv]
  | x :: xs => if lexLt kv.1 x.1 then kv :: x :: xs else x :: insertSorted kv xs
def sortKvs (l : List (Bytes × Bytes)) : List (Bytes × Bytes) := l.foldr insertSorted []

/-- get_block_index: iterate in key order, keep 'b' keys passing the status filter, later key wins a height -/
def buildIndex (kvs : List (Bytes × Bytes)) : Option (List (Nat × Rec)) :=
  (sortKvs kvs).foldlM (fun (m : List (Nat × Rec)) kv =>
    if kv.1.head? = some (0x62 : UInt8) then
      match decodeRec kv.1 kv.2 with
      | none => none                                  -- `?` : the whole load fails
      | some r => if r.status &&& 12 > 0 then some ((r.height, r) :: m.filter (·.1 ≠ r.height)) else some m
    else some m) []

def lookup (m : List (Nat × Rec)) (h : Nat) : Option Rec := (m.find? (·.1 == h)).map (·.2)

structure Opts where
  start : Nat
  stop : Option Nat

/-- ChainIndex::new + the driver loop (repaired, inclusive): heights and records delivered -/
def deliveredRecs (m : List (Nat × Rec)) (o : Opts) : List (Nat × Rec) :=
  let maxKnown := m.foldl (fun a p => max a p.1) 0
  let maxH := match o.stop with | some e => if e < maxKnown then e else maxKnown | none => maxKnown
  let m' := if o.start == 0 && o.stop.isNone then m else m.filter (fun p => o.start - 1 ≤ p.1 && p.1 ≤ maxH)
  let rec go (h : Nat) (n : Nat) : List (Nat × Rec) := match n with
    | 0 => []
    | n+1 => match lookup m' h with
      | none => []
      | some r => (h, r) :: go (h + 1) n
  go o.start (maxH + 1 - o.start)

/-- BlkFile::read_block: seek(off-4), LE32 size, read_block -/
def readAt (file : Bytes) (off : Nat) : Option (Nat × Csv.RBlock) := do
  let bs := file.drop (off - 4)
  let (size, bs) ← readLE 4 bs
  let (b, _) ← Csv.readBlock bs
  pure (size, b)
end Run
