import Rbp.Model.Sha256
import Rbp.Model.Bech32
namespace A
abbrev Bytes := List UInt8

/-! RIPEMD-160 -/
def rl (x : UInt32) (n : UInt32) : UInt32 := (x <<< n) ||| (x >>> (32 - n))
def f (j : Nat) (x y z : UInt32) : UInt32 :=
  if j < 16 then x ^^^ y ^^^ z
  else if j < 32 then (x &&& y) ||| (~~~x &&& z)
  else if j < 48 then (x ||| ~~~y) ^^^ z
  else if j < 64 then (x &&& z) ||| (y &&& ~~~z)
  else x ^^^ (y ||| ~~~z)
def KL : Array UInt32 := #[0x00000000, 0x5A827999, 0x6ED9EBA1, 0x8F1BBCDC, 0xA953FD4E]
def KR : Array UInt32 := #[0x50A28BE6, 0x5C4DD124, 0x6D703EF3, 0x7A6D76E9, 0x00000000]
def RL : Array Nat := #[
 0,1,2,3,4,5,6,7,8,9,10,11,12,13,14,15,
 7,4,13,1,10,6,15,3,12,0,9,5,2,14,11,8,
 3,10,14,4,9,15,8,1,2,7,0,6,13,11,5,12,
 1,9,11,10,0,8,12,4,13,3,7,15,14,5,6,2,
 4,0,5,9,7,12,2,10,14,1,3,8,11,6,15,13]
def RR : Array Nat := #[
 5,14,7,0,9,2,11,4,13,6,15,8,1,10,3,12,
 6,11,3,7,0,13,5,10,14,15,8,12,4,9,1,2,
 15,5,1,3,7,14,6,9,11,8,12,2,10,0,4,13,
 8,6,4,1,3,11,15,0,5,12,2,13,9,7,10,14,
 12,15,10,4,1,5,8,7,6,2,13,14,0,3,9,11]
def SL : Array UInt32 := #[
 11,14,15,12,5,8,7,9,11,13,14,15,6,7,9,8,
 7,6,8,13,11,9,7,15,7,12,15,9,11,7,13,12,
 11,13,6,7,14,9,13,15,14,8,13,6,5,12,7,5,
 11,12,14,15,14,15,9,8,9,14,5,6,8,6,5,12,
 9,15,5,11,6,8,13,12,5,12,13,14,11,8,5,6]
def SR : Array UInt32 := #[
 8,9,9,11,13,15,15,5,7,7,8,11,14,14,12,6,
 9,13,15,7,12,8,9,11,7,7,12,7,6,15,13,11,
 9,7,15,11,8,6,6,14,12,13,5,14,13,13,7,5,
 15,5,8,11,14,14,6,14,6,9,12,9,12,5,15,8,
 8,5,12,9,12,5,14,6,8,13,6,5,15,13,11,11]

def le32 (a b c d : UInt8) : UInt32 :=
  a.toUInt32 ||| (b.toUInt32 <<< 8) ||| (c.toUInt32 <<< 16) ||| (d.toUInt32 <<< 24)
def wordsLE : Bytes → List UInt32
  | a :: b :: c :: d :: rest => le32 a b c d :: wordsLE rest
  | _ => []
def padLE (msg : Bytes) : Bytes :=
  let l := msg.length
  let k := (119 - l % 64) % 64
  let bits := l * 8
  msg ++ [(0x80 : UInt8)] ++ List.replicate k (0 : UInt8) ++
    (List.range 8).map (fun i => UInt8.ofNat ((bits >>> (8 * i)) % 256))

structure H5 where
  a : UInt32
  b : UInt32
  c : UInt32
  d : UInt32
  e : UInt32

def compress (h : H5) (x : Array UInt32) : H5 := Id.run do
  let mut l := h
  let mut r := h
  for j in [0:80] do
    let t := rl (l.a + f j l.b l.c l.d + x[RL[j]!]! + KL[j / 16]!) SL[j]! + l.e
    l := ⟨l.e, t, l.b, rl l.c 10, l.d⟩
    let t := rl (r.a + f (79 - j) r.b r.c r.d + x[RR[j]!]! + KR[j / 16]!) SR[j]! + r.e
    r := ⟨r.e, t, r.b, rl r.c 10, r.d⟩
  return ⟨h.b + l.c + r.d, h.c + l.d + r.e, h.d + l.e + r.a, h.e + l.a + r.b, h.a + l.b + r.c⟩

def blocks (ws : List UInt32) (s : H5) : H5 :=
  if _h : ws.length < 16 then s else blocks (ws.drop 16) (compress s (ws.take 16).toArray)
termination_by ws.length
decreasing_by simp only [List.length_drop]; omega

def out32le (x : UInt32) : Bytes := [x.toUInt8, (x >>> 8).toUInt8, (x >>> 16).toUInt8, (x >>> 24).toUInt8]
def ripemd160 (msg : Bytes) : Bytes :=
  let s := blocks (wordsLE (padLE msg)) ⟨0x67452301, 0xEFCDAB89, 0x98BADCFE, 0x10325476, 0xC3D2E1F0⟩
  out32le s.a ++ out32le s.b ++ out32le s.c ++ out32le s.d ++ out32le s.e

def sha256d (b : Bytes) : Bytes := Sha.sha256 (Sha.sha256 b)
def hash160 (b : Bytes) : Bytes := ripemd160 (Sha.sha256 b)

/-! Base58 (numeric definition) -/
def b58chars : Array Char := "123456789ABCDEFGHJKLMNPQRSTUVWXYZabcdefghijkmnopqrstuvwxyz".toList.toArray
def toNatBE (bs : Bytes) : Nat := bs.foldl (fun acc b => acc * 256 + b.toNat) 0
def digits58 (n : Nat) (acc : List Nat) : List Nat :=
  if _h : n = 0 then acc else digits58 (n / 58) (n % 58 :: acc)
termination_by n
decreasing_by omega
def base58 (bs : Bytes) : String :=
  let z := (bs.takeWhile (· == 0)).length
  String.ofList (List.replicate z '1' ++ (digits58 (toNatBE bs) []).map (fun d => b58chars[d]!))
def base58check (p : Bytes) : String := base58 (p ++ (sha256d p).take 4)

/-! Bech32 / Bech32m segwit addresses -/
def charset : Array Char := "qpzry9x8gf2tvdw0s3jn54khce6mua7l".toList.toArray
def hrpExpand (hrp : String) : List Nat :=
  hrp.toList.map (fun c => c.toNat / 32) ++ [0] ++ hrp.toList.map (fun c => c.toNat % 32)
/-- the bits of a byte string, most significant first -/
def bitsOf (bs : Bytes) : List Bool := bs.flatMap fun b => Bech.bitsN 8 b.toNat
/-- 8→5 bit regrouping with zero padding of the last group -/
def to5 (bs : Bytes) : List Nat :=
  let B := bitsOf bs
  (Bech.chunks 5 (by omega) (B ++ List.replicate ((5 - B.length % 5) % 5) false)).map Bech.groupVal
/-- the six checksum values for the values `vs` (hrp expansion ++ data) -/
def checksum (const : Bech.W) (vs : List Nat) : List Nat :=
  let pm := Bech.polymod (vs.map (BitVec.ofNat 30) ++ List.replicate 6 0) ^^^ const
  (List.range 6).map (fun i => ((pm >>> (5 * (5 - i))) &&& 31).toNat)
def bechConst (ver : Nat) : Bech.W := if ver = 0 then 1 else 0x2bc830a3
def segwitAddr (hrp : String) (ver : Nat) (prog : Bytes) : String :=
  let data := ver :: to5 prog
  hrp ++ "1" ++ String.ofList ((data ++ checksum (bechConst ver) (hrpExpand hrp ++ data)).map (fun v => charset[v]!))
end A
