namespace M
abbrev Bytes := List UInt8

/-- chunks(2) -/
def chunks2 {α} : List α → List (List α)
  | a :: b :: rest => [a, b] :: chunks2 rest
  | [a] => [[a]]
  | [] => []

/-- one iteration of the `while hashes.len() > 1` loop of utils::merkle_root, as written:
    hash full pairs, then if the length is odd push H(last ++ last) -/
def levelRust (H : Bytes → Bytes) (hs : List Bytes) : List Bytes :=
  let full := ((chunks2 hs).filter (fun c => c.length == 2)).map (fun c => H (c.flatten))
  if hs.length % 2 == 1 then
    match hs.getLast? with
    | some l => full ++ [H (l ++ l)]
    | none => full
  else full

/-- textbook level: pair up, duplicating the last element when alone -/
def level (H : Bytes → Bytes) : List Bytes → List Bytes
  | a :: b :: rest => H (a ++ b) :: level H rest
  | [a] => [H (a ++ a)]
  | [] => []

theorem level_length (H : Bytes → Bytes) : ∀ hs : List Bytes, (level H hs).length = (hs.length + 1) / 2
  | [] => by simp [level]
  | [a] => by simp [level]
  | a :: b :: rest => by
    simp only [level, List.length_cons, level_length H rest]; omega

theorem levelRust_eq (H : Bytes → Bytes) : ∀ hs : List Bytes, levelRust H hs = level H hs
  | [] => by simp [levelRust, level, chunks2]
  | [a] => by simp [levelRust, level, chunks2]
  | a :: b :: rest => by
    have ih := levelRust_eq H rest
    unfold levelRust at ih ⊢
    simp only [chunks2, level]
    have hpar : (a :: b :: rest).length % 2 = rest.length % 2 := by simp [List.length_cons]; omega
    rw [hpar]
    cases rest with
    | nil => simp [chunks2, level]
    | cons c rest' =>
      have hl : (a :: b :: c :: rest').getLast? = (c :: rest').getLast? := by simp [List.getLast?_cons_cons]
      rw [hl]
      simp only [List.filter_cons, List.length_cons, List.length_nil, beq_self_eq_true, if_true, List.map_cons,
        List.flatten_cons, List.flatten_nil, List.append_nil, List.cons_append]
      rw [← ih]
      simp only [List.length_cons]
      split
      · split <;> simp
      · simp

/-- the whole loop, with fuel-free well-founded recursion on the length -/
def root (H : Bytes → Bytes) (hs : List Bytes) : Option Bytes :=
  match hs with
  | [] => none                       -- `.expect("unable to calculate merkle root on empty hashes")`
  | [h] => some h
  | a :: b :: rest => root H (level H (a :: b :: rest))
termination_by hs.length
decreasing_by
  simp only [level_length, List.length_cons]; omega

/-- collision reduction for one level: equal images of different same-length lists of 32-byte strings give a collision -/
theorem level_collision (H : Bytes → Bytes) :
    ∀ (xs ys : List Bytes), xs.length = ys.length → (∀ x ∈ xs, x.length = 32) → (∀ y ∈ ys, y.length = 32) →
      xs ≠ ys → level H xs = level H ys → ∃ p q : Bytes, p ≠ q ∧ H p = H q
  | [], [], _, _, _, hne, _ => absurd rfl hne
  | [a], [b], _, hx, hy, hne, heq => by
    simp only [level, List.cons.injEq, and_true] at heq
    refine ⟨a ++ a, b ++ b, ?_, heq⟩
    intro h
    have hla : a.length = 32 := hx a (by simp)
    have hlb : b.length = 32 := hy b (by simp)
    have : a = b := (List.append_inj h (by omega)).1
    exact hne (by rw [this])
  | a :: a' :: xs, b :: b' :: ys, hlen, hx, hy, hne, heq => by
    simp only [level, List.cons.injEq] at heq
    by_cases hp : a ++ a' = b ++ b'
    · have ha : a.length = 32 := hx a (by simp)
      have hb : b.length = 32 := hy b (by simp)
      have hab : a = b ∧ a' = b' := List.append_inj hp (by omega)
      have hne' : xs ≠ ys := by
        intro h; apply hne; rw [hab.1, hab.2, h]
      exact level_collision H xs ys (by simpa using hlen) (fun x h => hx x (by simp [h])) (fun y h => hy y (by simp [h])) hne' heq.2
    · exact ⟨a ++ a', b ++ b', hp, heq.1⟩
  | [], _ :: _, hlen, _, _, _, _ => by simp at hlen
  | _ :: _, [], hlen, _, _, _, _ => by simp at hlen
  | [_], _ :: _ :: _, hlen, _, _, _, _ => by simp at hlen
  | _ :: _ :: _, [_], hlen, _, _, _, _ => by simp at hlen
end M

namespace M
theorem level_mem_len (H : Bytes → Bytes) (h32 : ∀ x, (H x).length = 32) :
    ∀ (xs : List Bytes) (y : Bytes), y ∈ level H xs → y.length = 32
  | [], y, h => by simp [level] at h
  | [a], y, h => by simp [level] at h; rw [h]; exact h32 _
  | a :: b :: rest, y, h => by
    simp only [level, List.mem_cons] at h
    rcases h with h | h
    · rw [h]; exact h32 _
    · exact level_mem_len H h32 rest y h

/-- C09: two different txid lists of the same length with the same merkle root yield an explicit collision of H -/
theorem root_collision (H : Bytes → Bytes) (h32 : ∀ x, (H x).length = 32) :
    ∀ (n : Nat) (xs ys : List Bytes), xs.length = n → ys.length = n →
      (∀ x ∈ xs, x.length = 32) → (∀ y ∈ ys, y.length = 32) → xs ≠ ys →
      root H xs = root H ys → root H xs ≠ none → ∃ p q : Bytes, p ≠ q ∧ H p = H q := by
  intro n
  induction n using Nat.strongRecOn with
  | _ n ih =>
    intro xs ys hx hy hxl hyl hne heq hsome
    match xs, ys, hx, hy with
    | [], [], _, _ => exact absurd rfl hne
    | [a], [b], _, _ =>
      unfold root at heq
      simp at heq
      exact absurd (by rw [heq]) hne
    | a :: a' :: xs', b :: b' :: ys', hx, hy =>
      rw [root.eq_3, root.eq_3] at heq
      rw [root.eq_3] at hsome
      by_cases hlev : level H (a :: a' :: xs') = level H (b :: b' :: ys')
      · exact level_collision H _ _ (by rw [hx, hy]) hxl hyl hne hlev
      · have hl1 := level_length H (a :: a' :: xs')
        have hl2 := level_length H (b :: b' :: ys')
        have hlt : (n + 1) / 2 < n := by
          simp only [List.length_cons] at hx; omega
        exact ih ((n + 1) / 2) hlt _ _ (by rw [hl1, hx]) (by rw [hl2, hy])
          (level_mem_len H h32 _) (level_mem_len H h32 _) hlev heq hsome
    | [], _ :: _, hx, hy => exact absurd (hx.trans hy.symm) (by simp)
    | _ :: _, [], hx, hy => exact absurd (hx.trans hy.symm) (by simp)
    | [_], _ :: _ :: _, hx, hy => exact absurd (hx.trans hy.symm) (by simp)
    | _ :: _ :: _, [_], hx, hy => exact absurd (hx.trans hy.symm) (by simp)
end M

namespace M
/-- `utils::merkle_root` as written: `while hashes.len() > 1 { hashes = <one level> }; *hashes.first().expect(..)` -/
def rootRust (H : Bytes → Bytes) (hs : List Bytes) : Option Bytes :=
  if _h : hs.length > 1 then rootRust H (levelRust H hs) else hs.head?
termination_by hs.length
decreasing_by
  rw [levelRust_eq, level_length]; omega

/-- the loop computes the textbook merkle root (and fails exactly on the empty list) -/
theorem rootRust_eq (H : Bytes → Bytes) : ∀ (n : Nat) (hs : List Bytes), hs.length = n → rootRust H hs = root H hs := by
  intro n
  induction n using Nat.strongRecOn with
  | _ n ih =>
    intro hs hn
    match hs, hn with
    | [], _ => unfold rootRust root; simp
    | [a], _ => unfold rootRust root; simp
    | a :: b :: rest, hn =>
      rw [rootRust, root.eq_3]
      have hgt : (a :: b :: rest).length > 1 := by simp
      simp only [hgt, dite_true]
      rw [levelRust_eq]
      have hl := level_length H (a :: b :: rest)
      exact ih _ (by rw [hl, hn]; simp only [List.length_cons] at hn; omega) _ rfl
end M
