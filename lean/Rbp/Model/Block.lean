import Rbp.Proofs.Wire
import Rbp.Model.Script
namespace Csv
open W

structure RHeader where
  version : Nat
  prev : Bytes
  merkle : Bytes
  time : Nat
  bits : Nat
  nonce : Nat

def readHeader : P RHeader := fun bs => do
  let (v, bs) ← readLE 4 bs
  let (p, bs) ← take 32 bs
  let (m, bs) ← take 32 bs
  let (t, bs) ← readLE 4 bs
  let (b, bs) ← readLE 4 bs
  let (n, bs) ← readLE 4 bs
  pure (⟨v, p, m, t, b, n⟩, bs)
def RHeader.toBytes (h : RHeader) : Bytes := toLE 4 h.version ++ h.prev ++ h.merkle ++ toLE 4 h.time ++ toLE 4 h.bits ++ toLE 4 h.nonce

structure RBlock where
  header : RHeader
  txCount : VarUint
  txs : List RTx

/-- `read_block` for a coin without AuxPoW -/
def readBlock : P RBlock := fun bs => do
  let (h, bs) ← readHeader bs
  let (c, bs) ← readVarUint bs
  let (txs, bs) ← readN readTx c.value bs
  pure (⟨h, c, txs⟩, bs)

def hashHex (h : Bytes) : String := Sha.hex h.reverse

/-- csvdump rows of one block: (blocks, transactions, tx_in, tx_out) -/
def rows (ver : UInt8) (size height : Nat) (b : RBlock) : String × List String × List String × List String :=
  let bh := hashHex (A.sha256d b.header.toBytes)
  let blockRow := s!"{bh};{height};{b.header.version};{size};{hashHex b.header.prev};{hashHex b.header.merkle};{b.header.time};{b.header.bits};{b.header.nonce}"
  let per := b.txs.map fun t =>
    let txid := hashHex (A.sha256d t.toBytes)
    (s!"{txid};{bh};{t.version};{t.lock}",
     t.ins.map (fun i => s!"{txid};{hashHex i.prev};{i.idx};{Sha.hex i.script};{i.seq}"),
     (List.range t.outs.length).zip t.outs |>.map (fun (k, o) =>
        s!"{txid};{k};{o.value};{Sha.hex o.script};{((S.eval ver o.script).address).getD ""}"))
  (blockRow, per.map (·.1), per.flatMap (·.2.1), per.flatMap (·.2.2))
end Csv
