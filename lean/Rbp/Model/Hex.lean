/-! Hex rendering and parsing used by the driver and by the csv renderers (`utils::arr_to_hex`). -/
namespace Hex
abbrev Bytes := List UInt8

def digit (n : Nat) : Char := if n < 10 then Char.ofNat (48 + n) else Char.ofNat (87 + n)

/-- `utils::arr_to_hex`: two lower-case hex digits per byte -/
def hexChars (bs : Bytes) : List Char := bs.flatMap fun b => [digit (b.toNat / 16), digit (b.toNat % 16)]
def hex (bs : Bytes) : String := String.ofList (hexChars bs)

def val (c : Char) : Option Nat :=
  if '0' ≤ c ∧ c ≤ '9' then some (c.toNat - 48)
  else if 'a' ≤ c ∧ c ≤ 'f' then some (c.toNat - 87)
  else if 'A' ≤ c ∧ c ≤ 'F' then some (c.toNat - 55)
  else none

def unhexChars : List Char → Option Bytes
  | [] => some []
  | [_] => none
  | a :: b :: r => do
    let x ← val a
    let y ← val b
    let t ← unhexChars r
    pure (UInt8.ofNat (x * 16 + y) :: t)

/-- tail-recursive variant for the driver (multi-megabyte requests) -/
def unhexGo : List Char → List UInt8 → Option Bytes
  | [], acc => some acc.reverse
  | [_], _ => none
  | a :: b :: r, acc =>
    match val a, val b with
    | some x, some y => unhexGo r (UInt8.ofNat (x * 16 + y) :: acc)
    | _, _ => none

def unhex (s : String) : Option Bytes := unhexGo s.toList []
end Hex
