/-!
# Model of the wire-format readers (`reader.rs`, `varuint.rs`, `tx.rs`)

Readers are `Bytes → Option (α × Bytes)`; `none` is the `io::Error` (unexpected EOF) of the Rust
reader.  Every CompactSize keeps its raw bytes, as `VarUint.buf` does, because `to_bytes` replays them.
-/
namespace W
abbrev Bytes := List UInt8
abbrev P (α : Type) := Bytes → Option (α × Bytes)

def take (n : Nat) : P Bytes := fun bs => if n ≤ bs.length then some (bs.take n, bs.drop n) else none

/-- same function without measuring the whole remaining input (used by the compiler through `take_eq_takeFast`) -/
def takeFastGo : Nat → Bytes → Bytes → Option (Bytes × Bytes)
  | 0, bs, acc => some (acc.reverse, bs)
  | _+1, [], _ => none
  | n+1, b :: bs, acc => takeFastGo n bs (b :: acc)
def takeFast (n : Nat) : P Bytes := fun bs => takeFastGo n bs []

theorem takeFastGo_eq : ∀ (n : Nat) (bs acc : Bytes),
    takeFastGo n bs acc = if n ≤ bs.length then some (acc.reverse ++ bs.take n, bs.drop n) else none
  | 0, bs, acc => by simp [takeFastGo]
  | n+1, [], acc => by simp [takeFastGo]
  | n+1, b :: bs, acc => by
    rw [takeFastGo, takeFastGo_eq n bs (b :: acc)]
    simp only [List.length_cons, Nat.add_le_add_iff_right, List.reverse_cons, List.append_assoc, List.cons_append,
      List.nil_append, List.take_succ_cons, List.drop_succ_cons]

@[csimp] theorem take_eq_takeFast : @take = @takeFast := by
  funext n bs
  simp [take, takeFast, takeFastGo_eq]

def le (bs : Bytes) : Nat := bs.foldr (fun b acc => b.toNat + 256 * acc) 0
def toLE : Nat → Nat → Bytes
  | 0, _ => []
  | k+1, n => UInt8.ofNat (n % 256) :: toLE k (n / 256)

def readLE (k : Nat) : P Nat := fun bs => (take k bs).map fun (x, r) => (le x, r)

/-- CompactSize keeping raw bytes (`VarUint { value, buf }`) -/
structure VarUint where
  value : Nat
  raw : Bytes
deriving DecidableEq, Repr

/-- `VarUint::read_from` -/
def readVarUint : P VarUint := fun bs =>
  match bs with
  | [] => none
  | b :: rest =>
    if b.toNat < 0xfd then some (⟨b.toNat, [b]⟩, rest)
    else
      let k := if b.toNat = 0xfd then 2 else if b.toNat = 0xfe then 4 else 8
      (readLE k rest).map fun (v, r) => (⟨v, b :: toLE k v⟩, r)

structure ROut where
  value : Nat
  slen : VarUint
  script : Bytes
deriving DecidableEq, Repr

def readN {α} (p : P α) : Nat → P (List α)
  | 0 => fun bs => some ([], bs)
  | n+1 => fun bs => do
    let (x, bs) ← p bs
    let (xs, bs) ← readN p n bs
    pure (x :: xs, bs)

structure RIn where
  prev : Bytes
  idx : Nat
  slen : VarUint
  script : Bytes
  seq : Nat
deriving DecidableEq, Repr

/-- `read_u8_vec(len as u32)`: the length is truncated to 32 bits -/
def takeU32 (n : Nat) : P Bytes := take (n % 2^32)

/-- one iteration of `read_tx_inputs` -/
def readIn : P RIn := fun bs => do
  let (prev, bs) ← take 32 bs
  let (idx, bs) ← readLE 4 bs
  let (l, bs) ← readVarUint bs
  let (s, bs) ← takeU32 l.value bs
  let (seq, bs) ← readLE 4 bs
  pure (⟨prev, idx, l, s, seq⟩, bs)

/-- one iteration of `read_tx_outputs` -/
def readOut : P ROut := fun bs => do
  let (v, bs) ← readLE 8 bs
  let (l, bs) ← readVarUint bs
  let (s, bs) ← takeU32 l.value bs
  pure (⟨v, l, s⟩, bs)

/-- one witness item: length, bytes (discarded) -/
def skipItem : P Unit := fun bs => do
  let (l, bs) ← readVarUint bs
  let (_, bs) ← takeU32 l.value bs
  pure ((), bs)
/-- one witness stack: item count, items -/
def skipStack : P Unit := fun bs => do
  let (c, bs) ← readVarUint bs
  let (_, bs) ← readN skipItem c.value bs
  pure ((), bs)

structure RTx where
  version : Nat
  icnt : VarUint
  ins : List RIn
  ocnt : VarUint
  outs : List ROut
  lock : Nat
deriving DecidableEq, Repr

def readU8 : P UInt8 := fun bs => match bs with | [] => none | b :: r => some (b, r)

/-- model of reader.rs `read_tx` -/
def readTx : P RTx := fun bs => do
  let (ver, bs) ← readLE 4 bs
  let (c0, bs) ← readVarUint bs
  let (flag, icnt, bs) ←
    if c0.value = 0 then do
      let (f, bs) ← readU8 bs
      let (c, bs) ← readVarUint bs
      pure (f, c, bs)
    else pure ((0 : UInt8), c0, bs)
  let (ins, bs) ← readN readIn icnt.value bs
  let (ocnt, bs) ← readVarUint bs
  let (outs, bs) ← readN readOut ocnt.value bs
  let (_, bs) ← if flag.toNat % 2 = 1 then readN skipStack icnt.value bs else pure ([], bs)
  let (lock, bs) ← readLE 4 bs
  pure (⟨ver, icnt, ins, ocnt, outs, lock⟩, bs)

/-- ToRaw for TxInput / TxOutput / EvaluatedTx -/
def RIn.toBytes (i : RIn) : Bytes := i.prev ++ toLE 4 i.idx ++ i.slen.raw ++ i.script ++ toLE 4 i.seq
def ROut.toBytes (o : ROut) : Bytes := toLE 8 o.value ++ o.slen.raw ++ o.script
def RTx.toBytes (t : RTx) : Bytes :=
  toLE 4 t.version ++ t.icnt.raw ++ t.ins.flatMap RIn.toBytes ++ t.ocnt.raw ++ t.outs.flatMap ROut.toBytes ++ toLE 4 t.lock
end W
