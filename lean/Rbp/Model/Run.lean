import Rbp.Model.Hex
import Rbp.Model.VarInt
import Rbp.Model.Walk
import Rbp.Model.AuxPow
import Rbp.Model.Merkle
import Rbp.Model.Xor
import Rbp.Model.Callbacks
import Rbp.Generated.Consts
/-!
# Whole-program model: index → chain → driver loop → positional read → XOR → parse → verify → callback

`Run.run` is a function of (kv pairs of the LevelDB index, blk files, xor key, options), mirroring
`ChainStorage::new`, `BlockchainParser::start` and the five callbacks.  Panics of the Rust code are
explicit `.panic` outcomes; `Err(..)` results that end the process with status 1 are `.err`.
-/
namespace Run
open W Csv

inductive Res (α : Type) where
  | ok (a : α)
  | err (msg : String)
  | panic (msg : String)

/-! ## block index (index.rs) -/

def varint (bs : Bytes) : Res (Nat × Bytes) :=
  match VI.dec 0 bs with
  | .ok n r => .ok (n, r)
  | .eof => .err "varint: eof"
  | .panic => .panic "size too large"

structure RecFull where
  version : Nat
  ntx : Nat
  r : Wk.Rec

/-- `BlockIndexRecord::from` (record layout of Bitcoin Core: nFile iff HAVE_DATA|HAVE_UNDO, nDataPos iff HAVE_DATA,
    nUndoPos iff HAVE_UNDO, then the 80-byte header whose bytes 4..36 are the prev-hash) -/
def decodeRecFull (key value : Bytes) : Res RecFull :=
  if key.length ≠ 33 then .panic "leveldb: malformed blockhash" else
  match varint value with
  | .ok (ver, r1) => match varint r1 with
    | .ok (height, r2) => match varint r2 with
      | .ok (status, r3) => match varint r3 with
        | .ok (ntx, r4) =>
          let fileR : Res (Nat × Bytes) := if status &&& 24 > 0 then varint r4 else .ok (0, r4)
          match fileR with
          | .ok (file, r5) =>
            let offR : Res (Nat × Bytes) := if status &&& 8 > 0 then varint r5 else .ok (0, r5)
            match offR with
            | .ok (off, r6) =>
              let undoR : Res (Nat × Bytes) := if status &&& 16 > 0 then varint r6 else .ok (0, r6)
              match undoR with
              | .ok (_, r7) =>
                if r7.length < 80 then .err "record: header truncated"
                else .ok ⟨ver, ntx, ⟨key.drop 1, (r7.drop 4).take 32, height, status, file, off⟩⟩
              | .err m => .err m | .panic m => .panic m
            | .err m => .err m | .panic m => .panic m
          | .err m => .err m | .panic m => .panic m
        | .err m => .err m | .panic m => .panic m
      | .err m => .err m | .panic m => .panic m
    | .err m => .err m | .panic m => .panic m
  | .err m => .err m | .panic m => .panic m

def decodeRec (key value : Bytes) : Res Wk.Rec :=
  match decodeRecFull key value with
  | .ok f => .ok f.r
  | .err m => .err m
  | .panic m => .panic m

def lexLt : Bytes → Bytes → Bool
  | [], [] => false
  | [], _ => true
  | _, [] => false
  | a :: as, b :: bs => if a < b then true else if b < a then false else lexLt as bs

def insertSorted (kv : Bytes × Bytes) : List (Bytes × Bytes) → List (Bytes × Bytes)
  | [] => [kv]
  | x :: xs => if lexLt kv.1 x.1 then kv :: x :: xs else x :: insertSorted kv xs
/-- LevelDB iteration order: bytewise by key -/
def sortKvs (l : List (Bytes × Bytes)) : List (Bytes × Bytes) := l.foldr insertSorted []

/-- status filter of `get_block_index`: block data on disk and no FAILED bit -/
def passes (r : Wk.Rec) : Bool := r.status &&& 8 > 0 && r.status &&& 96 == 0
/-- fully validated (`BLOCK_VALID_SCRIPTS`) -/
def validScripts (r : Wk.Rec) : Bool := r.status &&& 7 ≥ 5

/-- `records`: table keyed by hash (a later equal key replaces; LevelDB keys are unique anyway) -/
def collect (kvs : List (Bytes × Bytes)) : Res (List Wk.Rec) :=
  let rec go (l : List (Bytes × Bytes)) (acc : List Wk.Rec) : Res (List Wk.Rec) :=
    match l with
    | [] => .ok acc
    | (k, v) :: rest =>
      match k with
      | [] => .panic "unwrap on empty key"
      | b :: _ =>
        if b = 0x62 then
          match decodeRec k v with
          | .ok r => if passes r then go rest (r :: acc.filter (fun x => x.hash != r.hash)) else go rest acc
          | .err m => .err m
          | .panic m => .panic m
        else go rest acc
  go (sortKvs kvs) []

/-- `(height, block_hash)` order used to pick the tip -/
def tipLt (a b : Wk.Rec) : Bool := a.height < b.height || (a.height == b.height && lexLt a.hash b.hash)

def pickTip (l : List Wk.Rec) : Option Wk.Rec :=
  (l.filter validScripts).foldl (fun best r => match best with
    | none => some r
    | some b => if tipLt b r then some r else some b) none

/-- height-keyed map as an association list; a later insert of the same height replaces -/
def insertHeight (m : List (Nat × Wk.Rec)) (r : Wk.Rec) : List (Nat × Wk.Rec) :=
  (r.height, r) :: m.filter (·.1 ≠ r.height)

/-- `get_block_index`: walk the prev-hash links from the tip -/
def buildIndex (kvs : List (Bytes × Bytes)) : Res (List (Nat × Wk.Rec)) :=
  match collect kvs with
  | .ok recs =>
    match pickTip recs with
    | none => .ok []
    | some tip => .ok ((Wk.walk recs.length recs tip.hash).foldl insertHeight [])
  | .err m => .err m
  | .panic m => .panic m

def lookup (m : List (Nat × Wk.Rec)) (h : Nat) : Option Wk.Rec := (m.find? (·.1 == h)).map (·.2)

/-! ## blk files (blkfile.rs) -/

structure Seg where
  off : Nat
  data : Bytes

structure BlkFile where
  name : String
  size : Nat
  segs : List Seg

def isDigit (c : Char) : Bool := '0' ≤ c && c ≤ '9'

/-- Rust `str::parse::<u64>`: optional `+`, then one or more ASCII digits, value ≤ u64::MAX -/
def stripPlus : List Char → List Char
  | '+' :: r => r
  | cs => cs

def parseU64 (cs : List Char) : Option Nat :=
  let ds := stripPlus cs
  if ds.isEmpty || !ds.all isDigit then none
  else
    let v := ds.foldl (fun a c => a * 10 + (c.toNat - 48)) 0
    if v < 2^64 then some v else none

/-- `BlkFile::parse_blk_index(name, "blk", ".dat")` -/
def parseBlkIndex (name : String) : Option Nat :=
  let cs := name.toList
  if cs.take 3 == ['b', 'l', 'k'] && cs.drop (cs.length - 4) == ['.', 'd', 'a', 't'] && cs.length ≥ 7 then
    parseU64 ((cs.drop 3).take (cs.length - 7))
  else none

/-- bytes of the file from position `p` to the end of the data that is materialised there; holes read as zero
    (capped: a well-formed block never spans a hole) -/
def bytesFrom (f : BlkFile) (p : Nat) : Bytes :=
  if p ≥ f.size then [] else
  match f.segs.find? (fun s => s.off ≤ p && p < s.off + s.data.length) with
  | some s => (s.data.drop (p - s.off)).take (f.size - p)
  | none =>
    -- inside a hole: zeros up to the next segment (or the end of the file), at most 4 KiB of them
    let next := f.segs.foldl (fun a s => if s.off > p && s.off < a then s.off else a) f.size
    List.replicate (min (next - p) 4096) 0

/-- what `XorReader` hands out for the stored bytes starting at absolute position `p` -/
def unxor (key : Option Bytes) (p : Nat) (bs : Bytes) : Bytes :=
  match key with
  | none => bs
  | some k => X.xorAt k p bs

/-! ## coin parameters (types.rs through Generated.Consts) -/

structure Coin where
  version : UInt8
  genesis : Bytes          -- internal byte order
  auxpow : Option Nat

def coinOf (cli : String) : Option Coin :=
  (Generated.coins.find? (·.cli == cli)).map fun c =>
    ⟨UInt8.ofNat c.version, ((Hex.unhex c.genesis).getD []).reverse, c.auxpow⟩

/-! ## driver (parser/mod.rs, chain.rs) -/

structure Opts where
  coin : String
  verify : Bool
  start : Nat
  stop : Option Nat
  callback : String

inductive Ev | opening (f : Nat) | closing (f : Nat)
deriving DecidableEq

inductive End where
  | complete                       -- loop finished (or stopped at a gap): on_complete is called
  | errorAt (h : Nat) (msg : String)   -- `Error at height h`, exit(1)
  | panicAt (h : Nat) (msg : String)   -- exit 101

structure Driven where
  blocks : List CB.EBlock
  events : List Ev
  ending : End
  openSet : List Nat := []       -- blk files whose reader is still open when the loop stops

def blockHash (b : RBlock) : Bytes := A.sha256d b.header.toBytes
def txids (b : RBlock) : List Bytes := b.txs.map CB.txid

/-- `ChainStorage::verify` -/
def verifyBlock (coin : Coin) (idx : List (Nat × Wk.Rec)) (b : RBlock) (h : Nat) : Res Unit :=
  match M.rootRust A.sha256d (txids b) with
  | none => .panic "unable to calculate merkle root on empty hashes"
  | some r =>
    if r ≠ b.header.merkle then .err "Invalid merkle_root!"
    else if h = 0 then
      if blockHash b ≠ coin.genesis then .err "Genesis block hash doesn't match!" else .ok ()
    else match lookup idx (h - 1) with
      | none => .panic "unable to fetch prev block in chain index"
      | some p => if b.header.prev ≠ p.hash then .err "prev_hash doesn't match!" else .ok ()

/-- `max_height_blk_index`: highest height stored in each blk file, over the untrimmed index -/
def maxHeightByBlk (idx : List (Nat × Wk.Rec)) (f : Nat) : Option Nat :=
  idx.foldl (fun a p => if p.2.file = f then (match a with | none => some p.1 | some m => some (max m p.1)) else a) none

/-- what `read_block` does with the (de-obfuscated) bytes found at `offset - 4`: LE32 size, then the block -/
def parseAt (coin : Coin) (bs : Bytes) : Res (Nat × RBlock) :=
  match readLE 4 bs with
  | none => .err "Unable to read block: failed to fill whole buffer"
  | some (size, bs) =>
    match Aux.readBlockCoin coin.auxpow bs with
    | none => .err "Unable to read block: failed to fill whole buffer"
    | some (b, _) => .ok (size, b)

/-- `BlkFile::read_block` through the XorReader: seek(off-4), LE32 size, read_block -/
def readAt (coin : Coin) (key : Option Bytes) (f : BlkFile) (off : Nat) : Res (Nat × RBlock) :=
  if off < 4 then .panic "attempt to subtract with overflow" else
  parseAt coin (unxor key (off - 4) (bytesFrom f (off - 4)))

/-- the `for height in cur..=max_height` loop; `n` = heights left -/
def driveLoop (coin : Coin) (o : Opts) (key : Option Bytes) (files : List (Nat × BlkFile))
    (full trimmed : List (Nat × Wk.Rec)) : Nat → Nat → List Nat → List CB.EBlock → List Ev → Driven
  | _, 0, opened, acc, evs => ⟨acc.reverse, evs.reverse, .complete, opened⟩
  | h, n+1, opened, acc, evs =>
    match lookup trimmed h with
    | none => ⟨acc.reverse, evs.reverse, .complete, opened⟩
    | some r =>
      match (files.find? (·.1 == r.file)).map (·.2) with
      | none => ⟨acc.reverse, evs.reverse, .errorAt h "Block file for block not found", opened⟩
      | some f =>
        let evs := if opened.contains r.file then evs else Ev.opening r.file :: evs
        let opened := if opened.contains r.file then opened else r.file :: opened
        match readAt coin key f r.off with
        | .err m => ⟨acc.reverse, evs.reverse, .errorAt h m, opened⟩
        | .panic m => ⟨acc.reverse, evs.reverse, .panicAt h m, opened⟩
        | .ok (size, b) =>
          let close : Bool := match maxHeightByBlk full r.file with | some m => decide (h ≥ m) | none => false
          let evs := if close then Ev.closing r.file :: evs else evs
          let opened := if close then opened.filter (· ≠ r.file) else opened
          let v : Res Unit := if o.verify then verifyBlock coin trimmed b h else .ok ()
          match v with
          | .err m => ⟨acc.reverse, evs.reverse, .errorAt h m, opened⟩
          | .panic m => ⟨acc.reverse, evs.reverse, .panicAt h m, opened⟩
          | .ok () => driveLoop coin o key files full trimmed (h + 1) n opened (⟨h, size, b⟩ :: acc) evs

structure Loaded where
  full : List (Nat × Wk.Rec)
  trimmed : List (Nat × Wk.Rec)
  maxH : Nat

/-- `ChainIndex::new` -/
def loadIndex (o : Opts) (kvs : List (Bytes × Bytes)) : Res Loaded :=
  match buildIndex kvs with
  | .err m => .err m
  | .panic m => .panic m
  | .ok full =>
    match full with
    | [] => .panic "called `Option::unwrap()` on a `None` value"
    | _ =>
      let maxKnown := full.foldl (fun a p => max a p.1) 0
      let maxH := match o.stop with | some e => if e < maxKnown then e else maxKnown | none => maxKnown
      let trimmed := if o.start == 0 && o.stop.isNone then full
        else full.filter (fun p => o.start - 1 ≤ p.1 && p.1 ≤ maxH)
      .ok ⟨full, trimmed, maxH⟩

/-! ## outputs -/

structure Output where
  exit : Nat
  errHeight : Option Nat
  msg : String
  delivered : List Nat
  hashes : List Bytes                   -- block hash per delivered height
  files : List (String × List String)   -- final-named files with their lines (csv callbacks)
  stdout : List String                  -- opreturn lines / simplestats figures / csvdump totals
  events : List Ev

def csvFiles (ver : UInt8) (start last : Nat) (bs : List CB.EBlock) : List (String × List String) :=
  let rs := bs.map fun b => rows ver b.size b.height b.blk
  let nm (f : String) := s!"{f}-{start}-{last}.csv"
  [(nm "blocks", rs.map (·.1)), (nm "transactions", rs.flatMap (·.2.1)),
   (nm "tx_in", rs.flatMap (·.2.2.1)), (nm "tx_out", rs.flatMap (·.2.2.2))]

def totals (bs : List CB.EBlock) : List String :=
  [s!"transactions={(bs.map (·.blk.txCount.value)).foldl (·+·) 0}",
   s!"inputs={(bs.flatMap (·.blk.txs)).foldl (fun a t => a + t.icnt.value) 0}",
   s!"outputs={(bs.flatMap (·.blk.txs)).foldl (fun a t => a + t.ocnt.value) 0}"]

/-- completion summary of unspentcsvdump: transactions and inputs as csvdump, outputs = the address-bearing outputs inserted -/
def totalsUnspent (ver : UInt8) (bs : List CB.EBlock) : List String :=
  (totals bs).take 2 ++ [s!"outputs={CB.insertedCount ver bs}"]

/-- dev-profile panics inside the callbacks (exit status 101) -/
def callbackPanics (o : Opts) (ver : UInt8) (bs : List CB.EBlock) : Bool :=
  match o.callback with
  | "simplestats" => CB.statsPanics ver bs
  | "balances" => CB.balancePanics (CB.utxo ver bs)
  | _ => false

def callbackOut (o : Opts) (ver : UInt8) (last : Nat) (bs : List CB.EBlock) : List (String × List String) × List String :=
  match o.callback with
  | "csvdump" => (csvFiles ver o.start last bs, totals bs)
  | "unspentcsvdump" =>
    ([(s!"unspent-{o.start}-{last}.csv", "txid;indexOut;height;value;address" :: CB.unspentRows (CB.utxo ver bs))], totalsUnspent ver bs)
  | "balances" =>
    ([(s!"balances-{o.start}-{last}.csv", "address;balance" :: CB.balanceRows (CB.utxo ver bs))], [])
  | "opreturn" => ([], CB.opreturnLines ver bs)
  | "simplestats" => ([], CB.statsLines (bs.foldl (CB.statsBlock ver) {}))
  | _ => ([], [])

def run (o : Opts) (key : Option Bytes) (kvs : List (Bytes × Bytes)) (files : List BlkFile) : Output :=
  match coinOf o.coin with
  | none => ⟨2, none, "unknown coin", [], [], [], [], []⟩
  | some coin =>
    match loadIndex o kvs with
    | .err m => ⟨1, none, m, [], [], [], [], []⟩
    | .panic m => ⟨101, none, m, [], [], [], [], []⟩
    | .ok ld =>
      let fmap := files.filterMap fun f => (parseBlkIndex f.name).map fun n => (n, f)
      if fmap.isEmpty then ⟨1, none, "No blk files found!", [], [], [], [], []⟩ else
      match key with
      | some [] => ⟨101, none, "attempt to calculate the remainder with a divisor of zero", [], [], [], [], []⟩
      | _ =>
      let d := driveLoop coin o key fmap ld.full ld.trimmed o.start (ld.maxH + 1 - o.start) [] [] []
      let heights := d.blocks.map (·.height)
      let hashes := d.blocks.map (fun b => blockHash b.blk)
      match d.ending with
      | .errorAt h m => ⟨1, some h, m, heights, hashes, [], [], d.events⟩
      | .panicAt h m => ⟨101, some h, m, heights, hashes, [], [], d.events⟩
      | .complete =>
        if callbackPanics o coin.version d.blocks then ⟨101, none, "panic in callback", heights, hashes, [], [], d.events⟩ else
        let last := (o.start + d.blocks.length) - 1
        let (fs, out) := callbackOut o coin.version last d.blocks
        ⟨0, none, "", heights, hashes, fs, out, d.events⟩

/-- `BlockHeightRange::new` (main.rs): a range with `--end` is accepted only if start < end -/
def rejected (o : Opts) : Bool := match o.stop with | some e => decide (o.start ≥ e) | none => false

/-- the program: option validation, then `run`.  A rejected range ends the process with status 1 before any callback is
    created (no tmp file, no output) -/
def main (o : Opts) (key : Option Bytes) (kvs : List (Bytes × Bytes)) (files : List BlkFile) : Output :=
  if rejected o then ⟨1, none, "--start value must be lower than --end value", [], [], [], [], []⟩
  else run o key kvs files

/-- the blocks handed to the callback (what `run` folds the callback over); used by the driver to print the write program -/
def deliveredBlocks (o : Opts) (key : Option Bytes) (kvs : List (Bytes × Bytes)) (files : List BlkFile) : List CB.EBlock :=
  match coinOf o.coin, loadIndex o kvs with
  | some coin, .ok ld =>
    let fmap := files.filterMap fun f => (parseBlkIndex f.name).map fun n => (n, f)
    (driveLoop coin o key fmap ld.full ld.trimmed o.start (ld.maxH + 1 - o.start) [] [] []).blocks
  | _, _ => []
end Run
