namespace Par
/-- rayon's indexed collect, abstractly: a pre-sized vector of slots; task `i` computes `f xs[i]` and
    writes it into slot `i`; a schedule is the order in which the tasks happen to complete. -/
def write {β} (slots : List (Option β)) (i : Nat) (v : β) : List (Option β) := slots.set i (some v)

def runSched {α β} (f : α → β) (xs : List α) (sched : List Nat) : List (Option β) :=
  sched.foldl (fun slots i => match xs[i]? with
    | some x => write slots i (f x)
    | none => slots) (List.replicate xs.length none)

theorem fold_get {α β} (f : α → β) (xs : List α) (sched : List Nat) :
    ∀ (slots : List (Option β)), slots.length = xs.length →
    ∀ j, j < xs.length →
      (sched.foldl (fun slots i => match xs[i]? with
          | some x => write slots i (f x)
          | none => slots) slots)[j]? =
        if j ∈ sched then some (xs[j]?.map f) else slots[j]? := by
  induction sched with
  | nil => intro slots _ j _; simp
  | cons i sched ih =>
    intro slots hl j hj
    simp only [List.foldl_cons]
    cases hx : xs[i]? with
    | none =>
      have hi : xs.length ≤ i := by
        rcases Nat.lt_or_ge i xs.length with h | h
        · simp [List.getElem?_eq_getElem h] at hx
        · exact h
      rw [ih slots hl j hj]
      have : j ≠ i := by omega
      simp [this]
    | some x =>
      have hl' : (write slots i (f x)).length = xs.length := by simp [write, hl]
      rw [ih _ hl' j hj]
      by_cases hji : j = i
      · subst hji
        have hxj : xs[j] = x := by
          have := List.getElem?_eq_getElem hj
          rw [hx] at this; exact (Option.some.inj this).symm
        simp [write, hx, hl, hj, hxj]
      · have : i ≠ j := fun h => hji h.symm
        simp [hji, write, List.getElem?_set, this]

/-- C13 core: whatever the completion order (any schedule that runs every task at least once),
    the collected vector is `xs.map f` in input order -/
theorem collect_any_schedule {α β} (f : α → β) (xs : List α) (sched : List Nat)
    (hall : ∀ j, j < xs.length → j ∈ sched) :
    runSched f xs sched = (xs.map f).map some := by
  apply List.ext_getElem?
  intro j
  unfold runSched
  rcases Nat.lt_or_ge j xs.length with hj | hj
  · rw [fold_get f xs sched _ (by simp) j hj]
    simp [hall j hj, List.getElem?_map, List.getElem?_eq_getElem hj]
  · have hlen : ∀ (sched : List Nat) (slots : List (Option β)), slots.length = xs.length →
        (sched.foldl (fun slots i => match xs[i]? with
          | some x => write slots i (f x)
          | none => slots) slots).length = xs.length := by
      intro sched
      induction sched with
      | nil => intro s h; simpa using h
      | cons i sched ih =>
        intro s h
        simp only [List.foldl_cons]
        cases xs[i]? with
        | none => exact ih s h
        | some x => exact ih _ (by simp [write, h])
    rw [List.getElem?_eq_none (by rw [hlen sched _ (by simp)]; exact hj)]
    rw [List.getElem?_eq_none (by simp; exact hj)]
end Par
