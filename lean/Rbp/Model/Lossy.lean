namespace L
abbrev Bytes := List UInt8
def fffd : Bytes := [0xEF, 0xBF, 0xBD]
def isCont (b : UInt8) : Bool := 0x80 ≤ b && b ≤ 0xBF

/-- admissible range of the second byte given the lead byte (Unicode Table 3-7), `none` = invalid lead -/
def second (b0 : UInt8) : Option (Nat × UInt8 × UInt8) :=   -- (total length, lo, hi)
  if 0xC2 ≤ b0 && b0 ≤ 0xDF then some (2, 0x80, 0xBF)
  else if b0 == 0xE0 then some (3, 0xA0, 0xBF)
  else if b0 == 0xED then some (3, 0x80, 0x9F)
  else if 0xE1 ≤ b0 && b0 ≤ 0xEF then some (3, 0x80, 0xBF)
  else if b0 == 0xF0 then some (4, 0x90, 0xBF)
  else if b0 == 0xF4 then some (4, 0x80, 0x8F)
  else if 0xF1 ≤ b0 && b0 ≤ 0xF3 then some (4, 0x80, 0xBF)
  else none

/-- Rust's String::from_utf8_lossy: each maximal invalid prefix of a sequence becomes one U+FFFD -/
def lossy : Bytes → Bytes
  | [] => []
  | b0 :: rest =>
    if b0 < 0x80 then b0 :: lossy rest
    else match second b0 with
      | none => fffd ++ lossy rest
      | some (len, lo, hi) =>
        match rest with
        | [] => fffd
        | b1 :: r1 =>
          if !(lo ≤ b1 && b1 ≤ hi) then fffd ++ lossy (b1 :: r1)
          else if len == 2 then b0 :: b1 :: lossy r1
          else match r1 with
            | [] => fffd
            | b2 :: r2 =>
              if !isCont b2 then fffd ++ lossy (b2 :: r2)
              else if len == 3 then b0 :: b1 :: b2 :: lossy r2
              else match r2 with
                | [] => fffd
                | b3 :: r3 =>
                  if !isCont b3 then fffd ++ lossy (b3 :: r3)
                  else b0 :: b1 :: b2 :: b3 :: lossy r3
termination_by s => s.length
decreasing_by all_goals (simp_wf; try omega)

/-- well-formed UTF-8 (Unicode 15, Table 3-7): lead byte, admissible range of the second byte, continuation bytes -/
def valid : Bytes → Bool
  | [] => true
  | b0 :: rest =>
    if b0 < 0x80 then valid rest
    else match second b0 with
      | none => false
      | some (len, lo, hi) =>
        match rest with
        | [] => false
        | b1 :: r1 =>
          if !(lo ≤ b1 && b1 ≤ hi) then false
          else if len == 2 then valid r1
          else match r1 with
            | [] => false
            | b2 :: r2 =>
              if !isCont b2 then false
              else if len == 3 then valid r2
              else match r2 with
                | [] => false
                | b3 :: r3 =>
                  if !isCont b3 then false
                  else valid r3
termination_by s => s.length
decreasing_by all_goals (simp_wf; try omega)
end L
