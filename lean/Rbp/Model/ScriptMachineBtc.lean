import Rbp.Model.ScriptMachine
/-!
# Panic-site model of the Bitcoin/testnet3 path (`script/mod.rs` and the rust-bitcoin code it calls)

Panic sites made explicit: the `u8` key counter of `Script::is_multisig` (`num_pubkeys += 1`, overflow checks on),
`bytes[bytes.len() - 2]` in the repo's `is_bare_multisig` (usize underflow and slice index), and `unreachable!()` in `p2pk_to_string`.
`panic!("invalid network version")` is not modelled: `eval_from_bytes` dispatches to this path only for 0x00 and 0x6f.
-/
namespace SMB
open S SM

/-- the key-counting loop of `Script::is_multisig` with its `u8` counter -/
def keysM : List (Option Ins) → Nat → Out (Option (Nat × List (Option Ins)))
  | some (.push _) :: r, n => if n + 1 > 255 then .panic else keysM r (n + 1)
  | some (.op o) :: r, n =>
    (match pushnum o with
      | some k => if k ≠ n then .ok none else .ok (some (n, r))
      | none => .ok (some (n, r)))
  | [], n => .ok (some (n, []))
  | none :: r, n => .ok (some (n, none :: r))

/-- `Script::is_multisig` -/
def isMultisigLibM (s : Bytes) : Out Bool :=
  match instrs s with
  | some (.op m) :: rest =>
    (match pushnum m with
      | none => .ok false
      | some req =>
        match keysM rest 0 with
        | .panic => .panic
        | .eof => .panic
        | .ok none => .ok false
        | .ok (some (n, after)) =>
          if req > n then .ok false
          else match after with
            | [some (.op 0xae)] => .ok true
            | _ => .ok false)
  | _ => .ok false

/-- the repo's `is_bare_multisig`: instruction-count bound, then `is_multisig`, then the byte before OP_CHECKMULTISIG -/
def isBareMultisigM (s : Bytes) : Out Bool :=
  if ((instrs s).take 20).length ≤ 19 then
    match isMultisigLibM s with
    | .ok true =>
      if s.length < 2 then .panic                       -- `bytes.len() - 2` underflows
      else (match s[s.length - 2]? with
        | some b => .ok (decide (0x51 ≤ b.toNat ∧ b.toNat ≤ 0x60))
        | none => .panic)                               -- slice index out of bounds
    | .ok false => .ok false
    | _ => .panic
  else .ok false

/-- `p2pk_to_string` after `is_p2pk`: the first instruction must be a push (`_ => unreachable!()`) -/
def p2pkKeyM (s : Bytes) : Out (Option Bytes) :=
  match ((instrs s)[0]? : Option (Option Ins)) with
  | some (some (Ins.push k)) => .ok (some k)
  | some none => .ok none
  | _ => .panic

/-- `eval_from_bytes_bitcoin` with the panic sites above -/
def evalBtcM (testnet : Bool) (s : Bytes) : Out Eval :=
  let pk : UInt8 := if testnet then 0x6f else 0x00
  let sh : UInt8 := if testnet then 0xc4 else 0x05
  let hrp := if testnet then "tb" else "bc"
  if s.head? = some 0x6a then
    let payload := match ((instrs s)[1]? : Option (Option Ins)) with
      | some (some (Ins.push d)) => if L.valid d then d else []
      | _ => []
    .ok ⟨.opReturn payload, none⟩
  else if unspendableFirst s then .ok ⟨.unspendable, none⟩
  else
    let address : Option String :=
      if isP2pkh s then some (A.base58check (pk :: (s.drop 3).take 20))
      else if isP2sh s then some (A.base58check (sh :: (s.drop 2).take 20))
      else match witnessVersion s with
        | some v =>
          let prog := s.drop 2
          if v = 0 ∧ prog.length ≠ 20 ∧ prog.length ≠ 32 then none else some (A.segwitAddr hrp v prog)
        | none => none
    match isP2pk s with
    | some _ =>
      (match p2pkKeyM s with
        | .ok (some key) => .ok ⟨.p2pk, some (A.base58check (pk :: A.hash160 key))⟩
        | .ok none => .ok ⟨.p2pk, none⟩
        | _ => .panic)
    | none =>
      if isP2pkh s then .ok ⟨.p2pkh, address⟩
      else if isP2sh s then .ok ⟨.p2sh, address⟩
      else if s.length = 22 ∧ witnessVersion s = some 0 ∧ get s 1 = 0x14 then .ok ⟨.p2wpkh, address⟩
      else if s.length = 34 ∧ witnessVersion s = some 0 ∧ get s 1 = 0x20 then .ok ⟨.p2wsh, address⟩
      else if s.length = 34 ∧ witnessVersion s = some 1 ∧ get s 1 = 0x20 then .ok ⟨.p2tr, address⟩
      else if (witnessVersion s).isSome then .ok ⟨.witnessProgram, address⟩
      else match isBareMultisigM s with
        | .ok true => .ok ⟨.multisig, address⟩
        | .ok false => .ok ⟨.notRecognised, address⟩
        | _ => .panic
end SMB
