namespace O
abbrev Bytes := List UInt8

/-- `BufWriter<File>` on a `*.tmp` file; `budget` is the fault parameter: the file cannot grow beyond it -/
structure W where
  cap : Nat
  budget : Nat
  buf : Bytes
  disk : Bytes
  log : List (Nat × Nat) := []     -- every raw write: (bytes offered, bytes that landed); observation only

/-- `File::write_all` under a size budget: the prefix that fits lands; `true` iff everything landed -/
def W.raw (w : W) (d : Bytes) : W × Bool :=
  let room := w.budget - w.disk.length
  if d.length ≤ room then ({ w with disk := w.disk ++ d, log := w.log ++ [(d.length, d.length)] }, true)
  else ({ w with disk := w.disk ++ d.take room, log := w.log ++ [(d.length, room)] }, false)

def W.flushBuf (w : W) : W × Bool :=
  let r := w.raw w.buf
  if r.2 then ({ r.1 with buf := [] }, true) else (r.1, false)

/-- `BufWriter::write_all` -/
def W.writeAll (w : W) (d : Bytes) : W × Bool :=
  let r := if w.buf.length + d.length > w.cap then w.flushBuf else (w, true)
  if !r.2 then (r.1, false)
  else if d.length ≥ r.1.cap then r.1.raw d
  else ({ r.1 with buf := r.1.buf ++ d }, true)

inductive Cmd
  | write (d : Bytes)
  | flush          -- explicit `writer.flush()?` in on_complete (the repair)
  | rename         -- fs::rename(tmp, final)
  | drop           -- BufWriter dropped at the end of main: flush, error ignored

structure S where
  w : W
  ok : Bool         -- false after the first reported error: the process exits 1, nothing else runs
  renamed : Bool    -- the file is visible under its final name (same inode, so later writes show there)

def step (s : S) (c : Cmd) : S :=
  if !s.ok then s else
  match c with
  | .write d => let r := s.w.writeAll d; { s with w := r.1, ok := r.2 }
  | .flush => let r := s.w.flushBuf; { s with w := r.1, ok := r.2 }
  | .rename => { s with renamed := true }
  | .drop => { s with w := s.w.flushBuf.1 }

def init (cap budget : Nat) : S := ⟨⟨cap, budget, [], [], []⟩, true, false⟩
def exec (s : S) (p : List Cmd) : S := p.foldl step s

def fixedProg (chunks : List Bytes) : List Cmd := chunks.map .write ++ [.flush, .rename, .drop]
def oldProg (chunks : List Bytes) : List Cmd := chunks.map .write ++ [.rename, .drop]

/-- logical stream invariant: while no error was reported, disk ++ buf is exactly what was written -/
theorem raw_ok (w : W) (d : Bytes) (h : (w.raw d).2 = true) :
    (w.raw d).1.disk = w.disk ++ d ∧ (w.raw d).1.buf = w.buf := by
  by_cases hc : d.length ≤ w.budget - w.disk.length <;> simp [W.raw, hc] at h ⊢

theorem flushBuf_ok (w : W) (h : w.flushBuf.2 = true) :
    w.flushBuf.1.disk = w.disk ++ w.buf ∧ w.flushBuf.1.buf = [] := by
  by_cases hr : (w.raw w.buf).2 = true
  · have := raw_ok w w.buf hr
    simp [W.flushBuf, hr, this]
  · simp [W.flushBuf, hr] at h

theorem writeAll_ok (w : W) (d : Bytes) (h : (w.writeAll d).2 = true) :
    (w.writeAll d).1.disk ++ (w.writeAll d).1.buf = w.disk ++ w.buf ++ d := by
  by_cases hc : w.buf.length + d.length > w.cap
  · by_cases hf : w.flushBuf.2 = true
    · have hfo := flushBuf_ok w hf
      by_cases hd : d.length ≥ w.flushBuf.1.cap
      · have h' : (w.flushBuf.1.raw d).2 = true := by simpa [W.writeAll, hc, hf, hd] using h
        have := raw_ok _ d h'
        simp [W.writeAll, hc, hf, hd, this, hfo]
      · simp [W.writeAll, hc, hf, hd, hfo]
    · simp [W.writeAll, hc, hf] at h
  · by_cases hd : d.length ≥ w.cap
    · have h' : (w.raw d).2 = true := by simpa [W.writeAll, hc, hd] using h
      have := raw_ok _ d h'
      have hb : w.buf = [] := List.length_eq_zero_iff.mp (by omega)
      have hlt : ¬ w.cap < d.length := by simp [hb] at hc; omega
      have hle : w.cap ≤ d.length := hd
      rw [hb] at this
      simp [W.writeAll, hb, hlt, hle, this]
    · simp [W.writeAll, hc, hd]

/-- after the write phase: if still ok, disk ++ buf = all chunks, nothing renamed -/
theorem writes_inv (chunks : List Bytes) : ∀ (s : S), s.renamed = false →
    let s' := exec s (chunks.map .write)
    s'.renamed = false ∧ (s'.ok = true → s.ok = true ∧ s'.w.disk ++ s'.w.buf = s.w.disk ++ s.w.buf ++ chunks.flatten) := by
  induction chunks with
  | nil => intro s h; simp [exec, h]
  | cons c cs ih =>
    intro s h
    simp only [List.map_cons, exec, List.foldl_cons]
    by_cases hok : s.ok = true
    · have hstep : (step s (.write c)).renamed = false := by simp [step, hok, h]
      have := ih (step s (.write c)) hstep
      simp only [exec] at this
      refine ⟨this.1, fun h' => ?_⟩
      have h2 := this.2 h'
      have hs : (step s (.write c)).ok = (s.w.writeAll c).2 := by simp [step, hok]
      have hw : (step s (.write c)).w = (s.w.writeAll c).1 := by simp [step, hok]
      rw [hs] at h2
      have := writeAll_ok s.w c h2.1
      refine ⟨hok, ?_⟩
      rw [h2.2, hw, this]; simp [List.append_assoc]
    · have hst : step s (.write c) = s := by simp [step, hok]
      rw [hst]
      have := ih s h
      simp only [exec] at this
      refine ⟨this.1, fun h' => ?_⟩
      have := (this.2 h').1
      exact absurd this hok

theorem flushBuf_nil (w : W) (h : w.buf = []) :
    w.flushBuf.1.disk = w.disk ∧ w.flushBuf.1.buf = [] := by
  simp [W.flushBuf, W.raw, h]

/-- C10 for one output file, repaired program: success ⇒ complete final; failure ⇒ no final -/
theorem fixed_final (cap budget : Nat) (chunks : List Bytes) :
    let s := exec (init cap budget) (fixedProg chunks)
    (s.ok = true → s.renamed = true ∧ s.w.disk = chunks.flatten ∧ s.w.buf = []) ∧
    (s.ok = false → s.renamed = false) := by
  have hw := writes_inv chunks (init cap budget) rfl
  simp only [fixedProg, exec, List.foldl_append] at *
  generalize List.foldl step (init cap budget) (chunks.map .write) = s at *
  obtain ⟨hr, hinv⟩ := hw
  simp only [List.foldl_cons, List.foldl_nil]
  by_cases hok : s.ok = true
  · have hi := (hinv hok).2
    simp only [init, List.nil_append] at hi
    have e1 : step s .flush = { s with w := s.w.flushBuf.1, ok := s.w.flushBuf.2 } := by
      simp [step, hok]
    rw [e1]
    by_cases hf : s.w.flushBuf.2 = true
    · have hfo := flushBuf_ok s.w hf
      have e2 : step { s with w := s.w.flushBuf.1, ok := s.w.flushBuf.2 } .rename
          = { s with w := s.w.flushBuf.1, ok := true, renamed := true } := by simp [step, hf]
      rw [e2]
      have hn := flushBuf_nil s.w.flushBuf.1 hfo.2
      simp [step, hn, hfo, hi]
    · have hf' : s.w.flushBuf.2 = false := by simpa using hf
      simp [step, hf', hr]
  · have hok' : s.ok = false := by simpa using hok
    simp [step, hok', hr]

/-- stepping never un-renames and, once an error was reported, nothing changes -/
theorem step_frozen (s : S) (c : Cmd) (h : s.ok = false) : step s c = s := by simp [step, h]

/-- C10 "at no instant": after ANY prefix of the repaired program, a file visible under its final name
    is complete and nothing is left in the buffer (so a SIGKILL at any point never leaves a partial final) -/
theorem fixed_no_partial_instant (cap budget : Nat) (chunks : List Bytes) (k : Nat) :
    let s := exec (init cap budget) ((fixedProg chunks).take k)
    s.renamed = true → s.w.disk = chunks.flatten ∧ s.w.buf = [] := by
  have hw := writes_inv chunks (init cap budget) rfl
  by_cases hk : k ≤ chunks.length
  · -- still in the write phase: nothing renamed yet
    have hpre : (fixedProg chunks).take k = (chunks.take k).map .write := by
      simp [fixedProg, List.take_append, List.map_take, hk]
    have := writes_inv (chunks.take k) (init cap budget) rfl
    intro s hr
    simp only [s, hpre] at hr
    rw [this.1] at hr; cases hr
  · have hk' : chunks.length < k := by omega
    -- the prefix contains all writes and j ≥ 1 of [flush, rename, drop]
    have hpre : (fixedProg chunks).take k = chunks.map .write ++ ([Cmd.flush, .rename, .drop].take (k - chunks.length)) := by
      simp [fixedProg, List.take_append, List.length_map]
      rw [List.take_of_length_le (by simp; omega)]
    simp only [hpre, exec, List.foldl_append] at *
    generalize List.foldl step (init cap budget) (chunks.map .write) = s at *
    obtain ⟨hr, hinv⟩ := hw
    by_cases hok : s.ok = true
    · have hi := (hinv hok).2
      simp only [init, List.nil_append] at hi
      by_cases hf : s.w.flushBuf.2 = true
      · have hfo := flushBuf_ok s.w hf
        have hn := flushBuf_nil s.w.flushBuf.1 hfo.2
        -- k - len ∈ {1, 2, ≥3}
        rcases Nat.lt_or_ge (k - chunks.length) 2 with h1 | h2
        · have : k - chunks.length = 1 := by omega
          simp [this, step, hok, hr]
        · rcases Nat.lt_or_ge (k - chunks.length) 3 with h3 | h3
          · have : k - chunks.length = 2 := by omega
            simp [this, step, hok, hf, hfo, hi]
          · have : [Cmd.flush, .rename, .drop].take (k - chunks.length) = [Cmd.flush, .rename, .drop] :=
              List.take_of_length_le (by simp; omega)
            simp [this, step, hok, hf, hfo, hi, hn]
      · have hf' : s.w.flushBuf.2 = false := by simpa using hf
        -- flush fails: state frozen with renamed = false
        have : ∀ l : List Cmd, (List.foldl step { s with w := s.w.flushBuf.1, ok := false } l).renamed = false := by
          intro l; induction l with
          | nil => simpa using hr
          | cons c l ih => simp only [List.foldl_cons]; rw [step_frozen _ _ rfl]; exact ih
        rcases Nat.lt_or_ge (k - chunks.length) 1 with h0 | h1
        · omega
        · obtain ⟨m, hm⟩ : ∃ m, k - chunks.length = m + 1 := ⟨k - chunks.length - 1, by omega⟩
          rw [hm]
          simp only [List.take_succ_cons, List.foldl_cons]
          have e1 : step s .flush = { s with w := s.w.flushBuf.1, ok := false } := by simp [step, hok, hf']
          rw [e1]
          intro hren; rw [this] at hren; cases hren
    · have hok' : s.ok = false := by simpa using hok
      have : ∀ l : List Cmd, (List.foldl step s l).renamed = false := by
        intro l; induction l with
        | nil => exact hr
        | cons c l ih => simp only [List.foldl_cons]; rw [step_frozen _ _ hok']; exact ih
      intro hren; rw [this] at hren; cases hren

/-- the unrepaired order (rename before the buffer is written) shows a partial final file at some instant -/
def bytes (n : Nat) : Bytes := List.replicate n 7
theorem old_partial_instant :
    let s := exec (init 10 1000) ((oldProg [bytes 3]).take 2)     -- after the write and the rename, before drop
    s.renamed = true ∧ s.w.disk ≠ (bytes 3) := by decide
/-- and with a budget the old program exits 0 with a truncated final file -/
theorem old_truncated_exit0 :
    let s := exec (init 10 2) (oldProg [bytes 3])
    s.ok = true ∧ s.renamed = true ∧ s.w.disk ≠ bytes 3 := by decide
end O
