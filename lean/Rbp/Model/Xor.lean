namespace X
abbrev Bytes := List UInt8

/-- inner reader: a file and a position (seek_bufread::BufReader<File> seen as a positional reader) -/
structure Inner where
  file : Bytes
  pos : Nat

/-- XorReader state -/
structure R where
  inner : Inner
  key : Bytes          -- non-empty (xor.dat)
  absPos : Nat

/-- key byte for absolute offset p -/
def kb (key : Bytes) (p : Nat) : UInt8 := key.getD (p % key.length) 0

/-- keystream-xor of a chunk that starts at absolute offset `p` -/
def xorAt (key : Bytes) : Nat → Bytes → Bytes
  | _, [] => []
  | p, b :: bs => (b ^^^ kb key p) :: xorAt key (p + 1) bs

inductive Op
  | seek (p : Nat)           -- SeekFrom::Start(p)
  | read (want got : Nat)    -- caller offers `want` bytes; the inner reader chooses to return `got ≤ want` (0 only at EOF)

/-- one operation; returns the bytes handed to the caller -/
def step (r : R) : Op → R × Bytes
  | .seek p => ({ r with inner := { r.inner with pos := p }, absPos := p }, [])
  | .read want got =>
    let n := min (min want got) (r.inner.file.length - r.inner.pos)
    let chunk := (r.inner.file.drop r.inner.pos).take n
    ({ r with inner := { r.inner with pos := r.inner.pos + n }, absPos := r.absPos + n }, xorAt r.key r.absPos chunk)

def run (r : R) : List Op → R × List Bytes
  | [] => (r, [])
  | o :: os => let (r1, out) := step r o; let (r2, outs) := run r1 os; (r2, out :: outs)

/-- the plaintext reader: same machine with the identity transformation -/
def stepPlain (i : Inner) : Op → Inner × Bytes
  | .seek p => ({ i with pos := p }, [])
  | .read want got =>
    let n := min (min want got) (i.file.length - i.pos)
    ({ i with pos := i.pos + n }, (i.file.drop i.pos).take n)
def runPlain (i : Inner) : List Op → Inner × List Bytes
  | [] => (i, [])
  | o :: os => let (i1, out) := stepPlain i o; let (i2, outs) := runPlain i1 os; (i2, out :: outs)

theorem xor_invol (key : Bytes) : ∀ (p : Nat) (bs : Bytes), xorAt key p (xorAt key p bs) = bs
  | _, [] => rfl
  | p, b :: bs => by
    simp only [xorAt, xor_invol key (p + 1) bs, List.cons.injEq, and_true]
    rw [UInt8.xor_assoc, UInt8.xor_self, UInt8.xor_zero]

theorem xorAt_drop (key : Bytes) : ∀ (p k : Nat) (bs : Bytes), (xorAt key p bs).drop k = xorAt key (p + k) (bs.drop k)
  | _, 0, bs => by simp
  | _, k+1, [] => by simp [xorAt]
  | p, k+1, b :: bs => by
    simp only [xorAt, List.drop_succ_cons]
    rw [xorAt_drop key (p + 1) k bs]; congr 1; omega

theorem xorAt_take (key : Bytes) : ∀ (p k : Nat) (bs : Bytes), (xorAt key p bs).take k = xorAt key p (bs.take k)
  | _, 0, bs => by simp [xorAt]
  | _, k+1, [] => by simp [xorAt]
  | p, k+1, b :: bs => by simp only [xorAt, List.take_succ_cons, xorAt_take key (p + 1) k bs]

theorem xorAt_length (key : Bytes) : ∀ (p : Nat) (bs : Bytes), (xorAt key p bs).length = bs.length
  | _, [] => rfl
  | p, b :: bs => by simp [xorAt, xorAt_length key (p + 1) bs]

/-- C11 core: on an obfuscated file (plain xor-ed with the key repeating from offset 0), for every
    sequence of seeks and reads and every chunking chosen by the inner reader, the XorReader hands out
    exactly what a plain reader hands out on the plaintext, and `absPos` tracks the inner position. -/
theorem xor_plain (key plain : Bytes) : ∀ (ops : List Op) (pos : Nat),
    let r : R := ⟨⟨xorAt key 0 plain, pos⟩, key, pos⟩
    (run r ops).2 = (runPlain ⟨plain, pos⟩ ops).2 ∧ (run r ops).1.absPos = (run r ops).1.inner.pos := by
  intro ops
  induction ops with
  | nil => intro pos; simp [run, runPlain]
  | cons o os ih =>
    intro pos
    cases o with
    | seek p =>
      have := ih p
      simp only [run, runPlain, step, stepPlain] at this ⊢
      exact ⟨by simp [this.1], this.2⟩
    | read want got =>
      have hl : (xorAt key 0 plain).length = plain.length := xorAt_length key 0 plain
      have := ih (pos + min (min want got) (plain.length - pos))
      simp only [run, runPlain, step, stepPlain, hl] at this ⊢
      refine ⟨?_, this.2⟩
      rw [this.1]
      congr 1
      rw [xorAt_drop, xorAt_take, Nat.zero_add, xor_invol]
end X
