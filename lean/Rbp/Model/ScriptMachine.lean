import Rbp.Model.Script
/-!
# Panic-site model of `custom.rs`: the fork-coin evaluator as an index machine

Every Rust site that can panic — `self.bytes[self.ip]`, `&self.bytes[self.ip + 1..]`, `&self.bytes[ip..ip + len]`,
`elements[i]`, usize additions — is an explicit `.panic` outcome here.  `SM.eval` is what the driver could run;
`SM.eval_eq` (Proofs/ScriptMachine.lean) shows it never panics and computes `S.evalCustom`.
-/
namespace SM
open S

inductive Out (α : Type) where
  | ok (a : α)
  | eof            -- ScriptError::UnexpectedEof
  | panic
deriving DecidableEq

/-- `&bytes[i..]` -/
def sliceFrom (bs : Bytes) (i : Nat) : Out Bytes := if i ≤ bs.length then .ok (bs.drop i) else .panic
/-- `&bytes[i..j]` -/
def slice (bs : Bytes) (i j : Nat) : Out Bytes := if i ≤ j ∧ j ≤ bs.length then .ok ((bs.drop i).take (j - i)) else .panic

/-- `ScriptEvaluator::read_uint(data, size)` -/
def readUint (data : Bytes) (size : Nat) : Out Nat :=
  if data.length < size then .eof else .ok (leN (data.take size))

/-- the PUSHDATAk arm of `maybe_push_data`: returns (data_len, ip after the length bytes) -/
def pushDataK (bytes : Bytes) (ip k : Nat) : Out (Nat × Nat) :=
  if ip + 1 + k > bytes.length then .eof
  else match sliceFrom bytes (ip + 1) with
    | .ok d => (match readUint d k with
      | .ok v => .ok (v, ip + k)
      | .eof => .eof
      | .panic => .panic)
    | .eof => .eof
    | .panic => .panic

/-- `maybe_push_data` -/
def maybePushData (bytes : Bytes) (ip : Nat) (b : UInt8) : Out (Nat × Nat) :=
  match classify b with
  | .pushbytes n => .ok (n, ip)
  | _ =>
    if b = 0x4c then pushDataK bytes ip 1
    else if b = 0x4d then pushDataK bytes ip 2
    else if b = 0x4e then pushDataK bytes ip 4
    else .ok (0, ip)

/-- the `while self.ip < self.n_bytes` loop of `eval`; `acc` is the element vector, newest first -/
def loop (bytes : Bytes) : Nat → Nat → List El → Out (List El)
  | 0, _, _ => .panic                      -- out of fuel: shown unreachable
  | fuel+1, ip, acc =>
    if ip < bytes.length then
      match bytes[ip]? with
      | none => .panic                     -- self.bytes[self.ip]
      | some b =>
        match maybePushData bytes ip b with
        | .eof => .eof
        | .panic => .panic
        | .ok (dataLen, ip1) =>
          let ip2 := ip1 + 1
          if ip2 + dataLen ≥ 2^64 then .panic          -- `self.ip + data_len` overflows usize (dev profile)
          else if dataLen > 0 then
            if ip2 + dataLen > bytes.length then .eof
            else match slice bytes ip2 (ip2 + dataLen) with
              | .ok d => loop bytes fuel (ip2 + dataLen) (El.data d :: acc)
              | .eof => .eof
              | .panic => .panic
          else if classify b ≠ .noop then loop bytes fuel ip2 (El.op b :: acc)
          else loop bytes fuel ip2 acc
    else .ok acc.reverse

/-- `elements[i]` -/
def idx (els : List El) (i : Nat) : Out El := match els[i]? with | some e => .ok e | none => .panic

inductive DataRes | data (d : Bytes) | invalid
/-- `StackElement::data()` -/
def elData : El → DataRes
  | .data d => .data d
  | .op _ => .invalid

/-- `match_stack_pattern`: equal lengths, then element-wise comparison by index (data matches data of any content) -/
def elMatches : El → El → Bool
  | .op a, .op b => a == b
  | .data _, .data _ => true
  | _, _ => false
def matchPattern (els pat : List El) : Out Bool :=
  if els.length ≠ pat.length then .ok false
  else
    let rec go (i : Nat) (n : Nat) : Out Bool :=
      match n with
      | 0 => .ok true
      | n+1 => match idx els i, idx pat i with
        | .ok a, .ok b => if elMatches a b then go (i + 1) n else .ok false
        | _, _ => .panic
    go 0 pat.length

inductive Pat | p2pkh | p2pk | p2sh | dataOut (payload : Bytes) | multisig | notRecognised | error
deriving DecidableEq

def D : El := .data []
/-- `eval_script_pattern` -/
def scriptPattern (els : List El) : Out Pat :=
  match matchPattern els [.op 0x76, .op 0xa9, D, .op 0x88, .op 0xac] with
  | .ok true => .ok .p2pkh
  | .ok false =>
    match matchPattern els [D, .op 0xac] with
    | .ok true => .ok .p2pk
    | .ok false =>
      match matchPattern els [.op 0xa9, D, .op 0x87] with
      | .ok true => .ok .p2sh
      | .ok false =>
        match matchPattern els [.op 0x6a, D] with
        | .ok true => (match idx els 1 with
          | .ok e => (match elData e with | .data d => .ok (.dataOut d) | .invalid => .ok .error)
          | _ => .panic)
        | .ok false =>
          match matchPattern els [.op 0x52, D, D, D, .op 0x53, .op 0xae] with
          | .ok true => .ok .multisig
          | .ok false => .ok .notRecognised
          | _ => .panic
        | _ => .panic
      | _ => .panic
    | _ => .panic
  | _ => .panic

/-- `compute_stack` + `eval_from_stack` + `eval_from_bytes_custom` -/
def eval (ver : UInt8) (s : Bytes) : Out Eval :=
  match loop s (s.length + 1) 0 [] with
  | .eof => .ok ⟨.notRecognised, none⟩
  | .panic => .panic
  | .ok els =>
    match scriptPattern els with
    | .panic => .panic
    | .eof => .panic
    | .ok .p2pk => (match idx els 0 with
      | .ok e => (match elData e with
        | .data k => .ok ⟨.p2pk, some (A.base58check (ver :: A.hash160 k))⟩
        | .invalid => .panic)            -- `ScriptPattern::Error(InvalidFormat)`: not representable, shown unreachable
      | _ => .panic)
    | .ok .p2pkh => (match idx els 2 with
      | .ok e => (match elData e with
        | .data h => .ok ⟨.p2pkh, some (A.base58check (ver :: h))⟩
        | .invalid => .panic)
      | _ => .panic)
    | .ok .p2sh => (match idx els 1 with
      | .ok e => (match elData e with
        | .data h => .ok ⟨.p2sh, some (A.base58check (5 :: h))⟩
        | .invalid => .panic)
      | _ => .panic)
    | .ok (.dataOut d) => .ok ⟨.opReturn (L.lossy d), none⟩
    | .ok .multisig => (match idx els 1 with
      | .ok e => (match elData e with
        | .data _ => .ok ⟨.multisig, none⟩
        | .invalid => .panic)
      | _ => .panic)
    | .ok .notRecognised => .ok ⟨.notRecognised, none⟩
    | .ok .error => .panic
end SM
