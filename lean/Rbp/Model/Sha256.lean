namespace Sha
def K : Array UInt32 := #[
0x428a2f98,0x71374491,0xb5c0fbcf,0xe9b5dba5,0x3956c25b,0x59f111f1,0x923f82a4,0xab1c5ed5,
0xd807aa98,0x12835b01,0x243185be,0x550c7dc3,0x72be5d74,0x80deb1fe,0x9bdc06a7,0xc19bf174,
0xe49b69c1,0xefbe4786,0x0fc19dc6,0x240ca1cc,0x2de92c6f,0x4a7484aa,0x5cb0a9dc,0x76f988da,
0x983e5152,0xa831c66d,0xb00327c8,0xbf597fc7,0xc6e00bf3,0xd5a79147,0x06ca6351,0x14292967,
0x27b70a85,0x2e1b2138,0x4d2c6dfc,0x53380d13,0x650a7354,0x766a0abb,0x81c2c92e,0x92722c85,
0xa2bfe8a1,0xa81a664b,0xc24b8b70,0xc76c51a3,0xd192e819,0xd6990624,0xf40e3585,0x106aa070,
0x19a4c116,0x1e376c08,0x2748774c,0x34b0bcb5,0x391c0cb3,0x4ed8aa4a,0x5b9cca4f,0x682e6ff3,
0x748f82ee,0x78a5636f,0x84c87814,0x8cc70208,0x90befffa,0xa4506ceb,0xbef9a3f7,0xc67178f2]

@[inline] def rotr (x : UInt32) (n : UInt32) : UInt32 := (x >>> n) ||| (x <<< (32 - n))

def pad (msg : List UInt8) : List UInt8 :=
  let l := msg.length
  let k := (119 - l % 64) % 64   -- zero bytes so that (l+1+k) % 64 = 56
  let bits := l * 8
  msg ++ [(0x80 : UInt8)] ++ List.replicate k (0 : UInt8) ++
    (List.range 8).map (fun i => UInt8.ofNat ((bits >>> (8 * (7 - i))) % 256))

def be32 (a b c d : UInt8) : UInt32 :=
  (a.toUInt32 <<< 24) ||| (b.toUInt32 <<< 16) ||| (c.toUInt32 <<< 8) ||| d.toUInt32

def words : List UInt8 → List UInt32
  | a :: b :: c :: d :: rest => be32 a b c d :: words rest
  | _ => []

def schedule (w : Array UInt32) : Array UInt32 := Id.run do
  let mut w := w
  for i in [16:64] do
    let w15 := w[i-15]!
    let w2 := w[i-2]!
    let s0 := rotr w15 7 ^^^ rotr w15 18 ^^^ (w15 >>> 3)
    let s1 := rotr w2 17 ^^^ rotr w2 19 ^^^ (w2 >>> 10)
    w := w.push (w[i-16]! + s0 + w[i-7]! + s1)
  return w

structure St where
  a : UInt32
  b : UInt32
  c : UInt32
  d : UInt32
  e : UInt32
  f : UInt32
  g : UInt32
  h : UInt32

def compress (s : St) (blk : Array UInt32) : St := Id.run do
  let w := schedule blk
  let mut t := s
  for i in [0:64] do
    let S1 := rotr t.e 6 ^^^ rotr t.e 11 ^^^ rotr t.e 25
    let ch := (t.e &&& t.f) ^^^ ((~~~ t.e) &&& t.g)
    let t1 := t.h + S1 + ch + K[i]! + w[i]!
    let S0 := rotr t.a 2 ^^^ rotr t.a 13 ^^^ rotr t.a 22
    let maj := (t.a &&& t.b) ^^^ (t.a &&& t.c) ^^^ (t.b &&& t.c)
    let t2 := S0 + maj
    t := ⟨t1 + t2, t.a, t.b, t.c, t.d + t1, t.e, t.f, t.g⟩
  return ⟨s.a + t.a, s.b + t.b, s.c + t.c, s.d + t.d, s.e + t.e, s.f + t.f, s.g + t.g, s.h + t.h⟩

def init : St := ⟨0x6a09e667,0xbb67ae85,0x3c6ef372,0xa54ff53a,0x510e527f,0x9b05688c,0x1f83d9ab,0x5be0cd19⟩

/-- the next 16 words, if there are that many (no length is measured: a multi-megabyte block is hashed in one pass) -/
def split16 : List UInt32 → Option (Array UInt32 × List UInt32)
  | a0 :: a1 :: a2 :: a3 :: a4 :: a5 :: a6 :: a7 :: a8 :: a9 :: a10 :: a11 :: a12 :: a13 :: a14 :: a15 :: rest =>
    some (#[a0, a1, a2, a3, a4, a5, a6, a7, a8, a9, a10, a11, a12, a13, a14, a15], rest)
  | _ => none

def blocksFuel : Nat → List UInt32 → St → St
  | 0, _, s => s
  | n + 1, ws, s =>
    match split16 ws with
    | some (blk, rest) => blocksFuel n rest (compress s blk)
    | none => s

/-- compress every complete 16-word chunk in order -/
def blocks (ws : List UInt32) (s : St) : St := blocksFuel (ws.length / 16 + 1) ws s

def out32 (x : UInt32) : List UInt8 :=
  [(x >>> 24).toUInt8, (x >>> 16).toUInt8, (x >>> 8).toUInt8, x.toUInt8]

def sha256 (msg : List UInt8) : List UInt8 :=
  let s := blocks (words (pad msg)) init
  out32 s.a ++ out32 s.b ++ out32 s.c ++ out32 s.d ++ out32 s.e ++ out32 s.f ++ out32 s.g ++ out32 s.h

def hex (bs : List UInt8) : String :=
  String.join (bs.map fun b => String.ofList [Nat.digitChar (b.toNat / 16), Nat.digitChar (b.toNat % 16)])
end Sha
