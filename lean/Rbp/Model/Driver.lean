namespace D

structure Rec where
  file : Nat
  off : Nat
deriving DecidableEq, Repr

/-- the (filtered) index as a partial function from heights -/
abbrev Index := Nat → Option Rec

/-- `for height in cur..=max { match get(height) { None => break, Some => deliver } }`, `n` = heights left -/
def loop (idx : Index) : Nat → Nat → List Nat
  | _, 0 => []
  | h, n+1 => match idx h with
    | none => []
    | some _ => h :: loop idx (h + 1) n

/-- heights delivered for options (s, e) on an index whose highest height is T -/
def maxHeight (e : Option Nat) (T : Nat) : Nat := match e with
  | some e => if e < T then e else T
  | none => T

def trimmed (idx : Index) (s maxH : Nat) (isDefault : Bool) : Index :=
  if isDefault then idx else fun h => if s - 1 ≤ h ∧ h ≤ maxH then idx h else none

def delivered (idx : Index) (T s : Nat) (e : Option Nat) : List Nat :=
  let maxH := maxHeight e T
  loop (trimmed idx s maxH (s == 0 && e.isNone)) s (maxH + 1 - s)

theorem loop_contig (idx : Index) : ∀ (n h : Nat), (∀ k, h ≤ k → k < h + n → idx k ≠ none) →
    loop idx h n = List.range' h n := by
  intro n
  induction n with
  | zero => intro h _; simp [loop]
  | succ n ih =>
    intro h hc
    have h0 := hc h (Nat.le_refl _) (by omega)
    simp only [loop]
    cases hi : idx h with
    | none => exact absurd hi h0
    | some r =>
      simp only [List.range'_succ]
      rw [ih (h + 1) (fun k hk1 hk2 => hc k (by omega) (by omega))]

/-- C02 core: contiguous chain 0..T ⇒ exactly s..min(e,T), ascending, each once -/
theorem delivered_eq (idx : Index) (T s : Nat) (e : Option Nat) (hcontig : ∀ k, k ≤ T → idx k ≠ none) :
    delivered idx T s e = List.range' s (maxHeight e T + 1 - s) := by
  unfold delivered
  apply loop_contig
  intro k hk1 hk2
  have hmT : maxHeight e T ≤ T := by
    unfold maxHeight; cases e with
    | none => exact Nat.le_refl _
    | some e => simp only; split <;> omega
  unfold trimmed
  split
  · exact hcontig k (by omega)
  · have : s - 1 ≤ k ∧ k ≤ maxHeight e T := ⟨by omega, by omega⟩
    simp only [this, and_self, if_true]
    exact hcontig k (by omega)

theorem maxHeight_eq_min (e T : Nat) : maxHeight (some e) T = min e T := by
  simp only [maxHeight]; by_cases h : e < T <;> simp [h] <;> omega

/-! C17: open-file bookkeeping along the loop -/

/-- state after each `get_block`: the set of open files as a list without duplicates is not needed; a predicate suffices -/
def stepOpen (maxBy : Nat → Nat) (opened : Nat → Bool) (h : Nat) (r : Rec) : Nat → Bool :=
  fun f => if f = r.file then decide (h < maxBy r.file) else opened f

def runOpen (idx : Index) (maxBy : Nat → Nat) : Nat → Nat → (Nat → Bool) → (Nat → Bool)
  | _, 0, o => o
  | h, n+1, o => match idx h with
    | none => o
    | some r => runOpen idx maxBy (h + 1) n (stepOpen maxBy o h r)

/-- `maxBy f` is the greatest height stored in file `f` (computed over the untrimmed index) -/
structure MaxBySpec (idx : Index) (maxBy : Nat → Nat) : Prop where
  upper : ∀ h r, idx h = some r → h ≤ maxBy r.file
  attained : ∀ h r, idx h = some r → ∃ r', idx (maxBy r.file) = some r' ∧ r'.file = r.file

/-- invariant: every open file still holds a block above the last delivered height, and was named by some record -/
def Inv (idx : Index) (maxBy : Nat → Nat) (next : Nat) (o : Nat → Bool) : Prop :=
  ∀ f, o f = true → next ≤ maxBy f ∧ ∃ h r, idx h = some r ∧ r.file = f

theorem step_inv (idx : Index) (maxBy : Nat → Nat) (sp : MaxBySpec idx maxBy) (h : Nat) (r : Rec) (o : Nat → Bool)
    (hi : idx h = some r) (inv : Inv idx maxBy h o) : Inv idx maxBy (h + 1) (stepOpen maxBy o h r) := by
  intro f hf
  unfold stepOpen at hf
  by_cases hfr : f = r.file
  · subst hfr
    simp at hf
    exact ⟨by omega, h, r, hi, rfl⟩
  · simp [hfr] at hf
    obtain ⟨hle, h0, r0, hi0, hf0⟩ := inv f hf
    refine ⟨?_, h0, r0, hi0, hf0⟩
    -- maxBy f = h is impossible: the record at height maxBy f lives in file f, but idx h lives in r.file ≠ f
    rcases Nat.lt_or_ge h (maxBy f) with hlt | hge
    · omega
    · have heq : maxBy f = h := by omega
      obtain ⟨r', hr', hfile⟩ := sp.attained h0 r0 hi0
      rw [hf0, heq, hi] at hr'
      have : r = r' := by injection hr'
      rw [← this, hf0] at hfile
      exact absurd hfile.symm hfr

theorem run_inv (idx : Index) (maxBy : Nat → Nat) (sp : MaxBySpec idx maxBy) :
    ∀ (n h : Nat) (o : Nat → Bool), Inv idx maxBy h o → ∃ next, Inv idx maxBy next (runOpen idx maxBy h n o) := by
  intro n
  induction n with
  | zero => intro h o inv; exact ⟨h, inv⟩
  | succ n ih =>
    intro h o inv
    simp only [runOpen]
    cases hi : idx h with
    | none => exact ⟨h, inv⟩
    | some r => exact ih (h + 1) _ (step_inv idx maxBy sp h r o hi inv)

/-- disjoint height spans ⇒ at most one file open -/
theorem at_most_one (idx : Index) (maxBy : Nat → Nat) (minBy : Nat → Nat) (next : Nat) (o : Nat → Bool)
    (inv : Inv idx maxBy next o)
    (hmin : ∀ f, o f = true → minBy f < next)      -- an open file was opened at an earlier height
    (hdisj : ∀ f g, f ≠ g → maxBy f < minBy g ∨ maxBy g < minBy f) :
    ∀ f g, o f = true → o g = true → f = g := by
  intro f g hf hg
  apply Classical.byContradiction
  intro hne
  have h1 := (inv f hf).1; have h2 := (inv g hg).1
  have m1 := hmin f hf; have m2 := hmin g hg
  rcases hdisj f g hne with h | h <;> omega
end D
