import Rbp.Model.Block
/-! AuxPoW section reader (`read_aux_pow_extension`, `read_merkle_branch`) and `read_block` with the per-coin threshold. -/
namespace Aux
open W Csv

structure RBranch where
  hashes : List Bytes
  mask : Nat

structure RAux where
  coinbase : RTx
  parentHash : Bytes
  coinbaseBranch : RBranch
  chainBranch : RBranch
  parent : RHeader

/-- read_merkle_branch: count, hashes, u32 side mask -/
def readBranch : P RBranch := fun bs => do
  let (c, bs) ← readVarUint bs
  let (hs, bs) ← readN (take 32) c.value bs
  let (m, bs) ← readLE 4 bs
  pure (⟨hs, m⟩, bs)

/-- read_aux_pow_extension: parent coinbase tx, parent hash, two branches, parent header -/
def readAuxPow : P RAux := fun bs => do
  let (cb, bs) ← readTx bs
  let (ph, bs) ← take 32 bs
  let (b1, bs) ← readBranch bs
  let (b2, bs) ← readBranch bs
  let (hd, bs) ← readHeader bs
  pure (⟨cb, ph, b1, b2, hd⟩, bs)

/-- `header.version >= activation version` -/
def wantsAux (threshold : Option Nat) (version : Nat) : Bool :=
  match threshold with
  | some v => version ≥ v
  | none => false

/-- read_block: header, AuxPoW section iff the coin has an activation version and the block version reaches it, txs -/
def readBlockAux (threshold : Option Nat) : P (RBlock × Option RAux) := fun bs => do
  let (h, bs) ← readHeader bs
  let (a, bs) ← if wantsAux threshold h.version then (readAuxPow bs).map (fun (a, r) => (some a, r)) else some (none, bs)
  let (c, bs) ← readVarUint bs
  let (txs, bs) ← readN readTx c.value bs
  pure ((⟨h, c, txs⟩, a), bs)

def readBlockCoin (threshold : Option Nat) : P RBlock := fun bs =>
  (readBlockAux threshold bs).map fun ((b, _), r) => (b, r)
end Aux
