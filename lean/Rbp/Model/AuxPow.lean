import Rbp.Model.Block
namespace Aux
open W Csv

/-- read_merkle_branch: count, hashes, u32 side mask -/
def readBranch : P Unit := fun bs => do
  let (c, bs) ← readVarUint bs
  let (_, bs) ← readN (take 32) c.value bs
  let (_, bs) ← readLE 4 bs
  pure ((), bs)

/-- read_aux_pow_extension: parent coinbase tx, parent hash, two branches, parent header -/
def readAuxPow : P Unit := fun bs => do
  let (_, bs) ← readTx bs
  let (_, bs) ← take 32 bs
  let (_, bs) ← readBranch bs
  let (_, bs) ← readBranch bs
  let (_, bs) ← readHeader bs
  pure ((), bs)

/-- read_block with the per-coin activation version -/
def readBlockCoin (threshold : Option Nat) : P RBlock := fun bs => do
  let (h, bs) ← readHeader bs
  let bs ← match threshold with
    | some v => if h.version ≥ v then (readAuxPow bs).map (·.2) else some bs
    | none => some bs
  let (c, bs) ← readVarUint bs
  let (txs, bs) ← readN readTx c.value bs
  pure (⟨h, c, txs⟩, bs)
end Aux
