/-!
# Bech32 checksum state machine (BIP173 `bech32_polymod`) on 30-bit words

`chk = (chk & 0x1ffffff) << 5 ^ v`, then xor `GEN[i]` for every set bit `i` of the former top five bits.
-/
namespace Bech
abbrev W := BitVec 30

def gen (i : Nat) : W := match i with
  | 0 => 0x3b6a57b2#30 | 1 => 0x26508e6d#30 | 2 => 0x1ea119fa#30 | 3 => 0x3d4233dd#30 | _ => 0x2a1462b3#30

/-- feedback term: xor of gen i over the set bits of the top five bits -/
def mix (b : W) : W :=
  (if b.getLsbD 0 then gen 0 else 0) ^^^ (if b.getLsbD 1 then gen 1 else 0) ^^^ (if b.getLsbD 2 then gen 2 else 0) ^^^
  (if b.getLsbD 3 then gen 3 else 0) ^^^ (if b.getLsbD 4 then gen 4 else 0)

def T (c : W) : W := ((c &&& 0x1ffffff#30) <<< 5) ^^^ mix (c >>> 25)
def step (c v : W) : W := T c ^^^ v
def polymod (vs : List W) : W := vs.foldl step 1

/-- a list cut into pieces of `k` elements (the last one possibly shorter) -/
def chunks {α} (k : Nat) (hk : 0 < k) : List α → List (List α)
  | [] => []
  | a :: l => (a :: l).take k :: chunks k hk ((a :: l).drop k)
termination_by l => l.length
decreasing_by simp only [List.length_drop, List.length_cons]; omega

/-- big-endian value of a group of bits -/
def groupVal (g : List Bool) : Nat := g.foldl (fun a b => a * 2 + b.toNat) 0
/-- the `k` low bits of `n`, most significant first -/
def bitsN : Nat → Nat → List Bool
  | 0, _ => []
  | k+1, n => n.testBit k :: bitsN k n
end Bech
