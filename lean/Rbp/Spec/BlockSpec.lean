import Rbp.Spec.Chain
import Rbp.Model.AuxPow
/-! Abstract headers, AuxPoW sections and blocks with their on-disk encoders. -/
namespace W
open Csv Aux

structure Header where
  version : Nat
  prev : Bytes
  merkle : Bytes
  time : Nat
  bits : Nat
  nonce : Nat
deriving DecidableEq, Repr
def Header.ok (h : Header) : Prop :=
  h.version < 256^4 ∧ h.prev.length = 32 ∧ h.merkle.length = 32 ∧ h.time < 256^4 ∧ h.bits < 256^4 ∧ h.nonce < 256^4
def Header.enc (h : Header) : Bytes :=
  toLE 4 h.version ++ h.prev ++ h.merkle ++ toLE 4 h.time ++ toLE 4 h.bits ++ toLE 4 h.nonce
def Header.toR (h : Header) : RHeader := ⟨h.version, h.prev, h.merkle, h.time, h.bits, h.nonce⟩

structure Branch where
  cnt : Count
  hashes : List Bytes
  mask : Nat
deriving DecidableEq, Repr
def Branch.ok (b : Branch) : Prop :=
  b.cnt.ok ∧ b.cnt.v = b.hashes.length ∧ (∀ h ∈ b.hashes, h.length = 32) ∧ b.mask < 256^4
def Branch.enc (b : Branch) : Bytes := b.cnt.enc ++ b.hashes.flatMap id ++ toLE 4 b.mask
def Branch.toR (b : Branch) : RBranch := ⟨b.hashes, b.mask⟩

structure AuxPow where
  coinbase : Tx
  parentHash : Bytes
  coinbaseBranch : Branch
  chainBranch : Branch
  parent : Header
deriving DecidableEq, Repr
def AuxPow.ok (a : AuxPow) : Prop :=
  a.coinbase.ok ∧ a.parentHash.length = 32 ∧ a.coinbaseBranch.ok ∧ a.chainBranch.ok ∧ a.parent.ok
def AuxPow.enc (a : AuxPow) : Bytes :=
  a.coinbase.enc ++ a.parentHash ++ a.coinbaseBranch.enc ++ a.chainBranch.enc ++ a.parent.enc
def AuxPow.toR (a : AuxPow) : RAux :=
  ⟨a.coinbase.toR, a.parentHash, a.coinbaseBranch.toR, a.chainBranch.toR, a.parent.toR⟩

structure Block where
  header : Header
  aux : Option AuxPow
  tcnt : Count
  txs : List Tx
deriving DecidableEq, Repr

/-- well-formed for a coin whose AuxPoW activation version is `thr` -/
def Block.ok (thr : Option Nat) (b : Block) : Prop :=
  b.header.ok ∧ (wantsAux thr b.header.version = b.aux.isSome) ∧ (∀ a, b.aux = some a → a.ok) ∧
  b.tcnt.ok ∧ b.tcnt.v = b.txs.length ∧ (∀ t ∈ b.txs, t.ok)

def Block.encAux (b : Block) : Bytes := match b.aux with | none => [] | some a => a.enc
def Block.enc (b : Block) : Bytes :=
  b.header.enc ++ b.encAux ++ b.tcnt.enc ++ b.txs.flatMap Tx.enc
def Block.toR (b : Block) : RBlock := ⟨b.header.toR, ⟨b.tcnt.v, b.tcnt.enc⟩, b.txs.map Tx.toR⟩
end W
