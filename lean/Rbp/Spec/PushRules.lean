namespace T
abbrev Bytes := List UInt8

/-- push forms of Bitcoin script -/
inductive Form | direct | pd1 | pd2 | pd4 deriving DecidableEq, Repr

/-- full-fidelity tokens (spec side): every byte of the script is accounted for -/
inductive Tok
  | push (f : Form) (bs : Bytes)
  | op (b : UInt8)
deriving DecidableEq, Repr

def toLE : Nat → Nat → Bytes
  | 0, _ => []
  | k+1, n => UInt8.ofNat (n % 256) :: toLE k (n / 256)
def le (bs : Bytes) : Nat := bs.foldr (fun b acc => b.toNat + 256 * acc) 0

theorem toLE_length (k n : Nat) : (toLE k n).length = k := by
  induction k generalizing n <;> simp [toLE, *]
theorem le_toLE (k n : Nat) (h : n < 256 ^ k) : le (toLE k n) = n := by
  induction k generalizing n with
  | zero => simp [toLE, le] at *; omega
  | succ k ih =>
    have h' : n / 256 < 256 ^ k := by rw [Nat.pow_succ] at h; omega
    simp only [toLE, le, List.foldr_cons]
    have := ih (n / 256) h'
    simp only [le] at this
    rw [this]
    have : (UInt8.ofNat (n % 256)).toNat = n % 256 := by simp [UInt8.toNat_ofNat']
    rw [this]; omega

def Form.width : Form → Nat | .direct => 0 | .pd1 => 1 | .pd2 => 2 | .pd4 => 4
def Form.opcode : Form → UInt8 | .direct => 0 | .pd1 => 0x4c | .pd2 => 0x4d | .pd4 => 0x4e

def Tok.enc : Tok → Bytes
  | .push .direct bs => UInt8.ofNat bs.length :: bs
  | .push f bs => f.opcode :: (toLE f.width bs.length ++ bs)
  | .op b => [b]

def Tok.WF : Tok → Prop
  | .push .direct bs => 1 ≤ bs.length ∧ bs.length ≤ 75
  | .push f bs => bs.length < 256 ^ f.width
  | .op b => b.toNat = 0 ∨ b.toNat > 0x4e

/-- Bitcoin push rules as a tokeniser on the remaining bytes; `none` = a push runs past the end -/
def tokenise (s : Bytes) : Option (List Tok) :=
  match s with
  | [] => some []
  | b :: rest =>
    let pushK (f : Form) (k : Nat) : Option (List Tok) :=
      if h : k ≤ rest.length then
        let n := le (rest.take k)
        let r := rest.drop k
        if h2 : n ≤ r.length then
          (tokenise (r.drop n)).map (Tok.push f (r.take n) :: ·)
        else none
      else none
    if 1 ≤ b.toNat ∧ b.toNat ≤ 75 then
      if h2 : b.toNat ≤ rest.length then
        (tokenise (rest.drop b.toNat)).map (Tok.push .direct (rest.take b.toNat) :: ·)
      else none
    else if b.toNat = 0x4c then pushK .pd1 1
    else if b.toNat = 0x4d then pushK .pd2 2
    else if b.toNat = 0x4e then pushK .pd4 4
    else (tokenise rest).map (Tok.op b :: ·)
termination_by s.length
decreasing_by all_goals (simp [List.length_drop]; try omega)

theorem take_drop_append (xs ys : Bytes) : (xs ++ ys).take xs.length = xs ∧ (xs ++ ys).drop xs.length = ys := by
  simp

theorem tokenise_enc (toks : List Tok) (h : ∀ t ∈ toks, t.WF) :
    tokenise (toks.flatMap Tok.enc) = some toks := by
  induction toks with
  | nil => simp [tokenise]
  | cons t ts ih =>
    have ht := h t (by simp)
    have hts : ∀ t ∈ ts, t.WF := fun x hx => h x (by simp [hx])
    have ih' := ih hts
    rw [List.flatMap_cons]
    cases t with
    | op b =>
      simp only [Tok.WF] at ht
      rw [show Tok.enc (.op b) = [b] from rfl, List.singleton_append, tokenise]
      have h1 : ¬ (1 ≤ b.toNat ∧ b.toNat ≤ 75) := by omega
      have h2 : ¬ b.toNat = 0x4c := by omega
      have h3 : ¬ b.toNat = 0x4d := by omega
      have h4 : ¬ b.toNat = 0x4e := by omega
      simp [h1, h2, h3, h4, ih']
    | push f bs =>
      cases f with
      | direct =>
        simp only [Tok.WF] at ht
        have e : (UInt8.ofNat bs.length).toNat = bs.length := by simp [UInt8.toNat_ofNat']; omega
        rw [show Tok.enc (.push .direct bs) = UInt8.ofNat bs.length :: bs from rfl, List.cons_append, tokenise]
        simp [e, ht, ih']
      | pd1 =>
        simp only [Tok.WF, Form.width] at ht
        rw [show Tok.enc (.push .pd1 bs) = 0x4c :: (toLE 1 bs.length ++ bs) from rfl, List.cons_append, tokenise]
        have hl := le_toLE 1 bs.length (by simpa using ht)
        have hlen := toLE_length 1 bs.length
        simp [List.append_assoc, List.take_append, List.drop_append, hlen, hl, ih']
      | pd2 =>
        simp only [Tok.WF, Form.width] at ht
        rw [show Tok.enc (.push .pd2 bs) = 0x4d :: (toLE 2 bs.length ++ bs) from rfl, List.cons_append, tokenise]
        have hl := le_toLE 2 bs.length (by simpa using ht)
        have hlen := toLE_length 2 bs.length
        simp [List.append_assoc, List.take_append, List.drop_append, hlen, hl, ih']
      | pd4 =>
        simp only [Tok.WF, Form.width] at ht
        rw [show Tok.enc (.push .pd4 bs) = 0x4e :: (toLE 4 bs.length ++ bs) from rfl, List.cons_append, tokenise]
        have hl := le_toLE 4 bs.length (by simpa using ht)
        have hlen := toLE_length 4 bs.length
        simp [List.append_assoc, List.take_append, List.drop_append, hlen, hl, ih']
end T
