import Rbp.Model.Wire
/-!
# Abstract transactions and their encoders (what is "serialized on disk")

Every CompactSize is a `Count` with an explicit width tag, so non-minimal encodings are part of
the domain.  `ok` predicates are the well-formedness hypotheses of the round-trip theorems.
-/
namespace W

inductive Width | w1 | w3 | w5 | w9 deriving DecidableEq, Repr
structure Count where
  w : Width
  v : Nat
deriving DecidableEq, Repr
def Count.ok (c : Count) : Prop := match c.w with
  | .w1 => c.v < 0xfd | .w3 => c.v < 256^2 | .w5 => c.v < 256^4 | .w9 => c.v < 256^8
def Count.enc (c : Count) : Bytes := match c.w with
  | .w1 => [UInt8.ofNat c.v] | .w3 => 0xfd :: toLE 2 c.v | .w5 => 0xfe :: toLE 4 c.v | .w9 => 0xff :: toLE 8 c.v

structure TxOut where
  value : Nat
  slen : Count
  script : Bytes
deriving DecidableEq, Repr
def TxOut.ok (o : TxOut) : Prop := o.value < 256^8 ∧ o.slen.ok ∧ o.slen.v = o.script.length ∧ o.slen.v < 2^32
def TxOut.enc (o : TxOut) : Bytes := toLE 8 o.value ++ o.slen.enc ++ o.script
def TxOut.toR (o : TxOut) : ROut := ⟨o.value, ⟨o.slen.v, o.slen.enc⟩, o.script⟩

structure TxIn where
  prev : Bytes
  idx : Nat
  slen : Count
  script : Bytes
  seq : Nat
deriving DecidableEq, Repr
def TxIn.ok (i : TxIn) : Prop :=
  i.prev.length = 32 ∧ i.idx < 256^4 ∧ i.slen.ok ∧ i.slen.v = i.script.length ∧ i.slen.v < 2^32 ∧ i.seq < 256^4
def TxIn.enc (i : TxIn) : Bytes := i.prev ++ toLE 4 i.idx ++ i.slen.enc ++ i.script ++ toLE 4 i.seq
def TxIn.toR (i : TxIn) : RIn := ⟨i.prev, i.idx, ⟨i.slen.v, i.slen.enc⟩, i.script, i.seq⟩

structure WitItem where
  len : Count
  data : Bytes
deriving DecidableEq, Repr
def WitItem.ok (w : WitItem) : Prop := w.len.ok ∧ w.len.v = w.data.length ∧ w.len.v < 2^32
def WitItem.enc (w : WitItem) : Bytes := w.len.enc ++ w.data
structure WitStack where
  cnt : Count
  items : List WitItem
deriving DecidableEq, Repr
def WitStack.ok (s : WitStack) : Prop := s.cnt.ok ∧ s.cnt.v = s.items.length ∧ ∀ w ∈ s.items, w.ok
def WitStack.enc (s : WitStack) : Bytes := s.cnt.enc ++ s.items.flatMap WitItem.enc

structure Segwit where
  markerW : Width          -- the marker is a CompactSize of value 0, of any width
  flag : UInt8
  stacks : List WitStack   -- present iff flag is odd, one per input
deriving DecidableEq, Repr

structure Tx where
  version : Nat
  segwit : Option Segwit
  icnt : Count
  ins : List TxIn
  ocnt : Count
  outs : List TxOut
  lock : Nat
deriving DecidableEq, Repr

def Segwit.ok (s : Segwit) (nIn : Nat) : Prop :=
  if s.flag.toNat % 2 = 1 then s.stacks.length = nIn ∧ ∀ st ∈ s.stacks, st.ok else s.stacks = []

def Tx.ok (t : Tx) : Prop :=
  t.version < 256^4 ∧ t.lock < 256^4 ∧
  t.icnt.ok ∧ t.icnt.v = t.ins.length ∧ 1 ≤ t.icnt.v ∧ (∀ i ∈ t.ins, i.ok) ∧
  t.ocnt.ok ∧ t.ocnt.v = t.outs.length ∧ (∀ o ∈ t.outs, o.ok) ∧
  (∀ s, t.segwit = some s → s.ok t.ins.length)

def Tx.encBody (t : Tx) : Bytes :=
  t.icnt.enc ++ t.ins.flatMap TxIn.enc ++ t.ocnt.enc ++ t.outs.flatMap TxOut.enc
def Tx.encWit (t : Tx) : Bytes := match t.segwit with
  | none => []
  | some s => s.stacks.flatMap WitStack.enc
def Tx.encHead (t : Tx) : Bytes := match t.segwit with
  | none => []
  | some s => (Count.mk s.markerW 0).enc ++ [s.flag]
/-- full serialisation as found on disk -/
def Tx.enc (t : Tx) : Bytes := toLE 4 t.version ++ t.encHead ++ t.encBody ++ t.encWit ++ toLE 4 t.lock
/-- witness-stripped serialisation: the txid preimage -/
def Tx.encStripped (t : Tx) : Bytes := toLE 4 t.version ++ t.encBody ++ toLE 4 t.lock

def Tx.toR (t : Tx) : RTx :=
  ⟨t.version, ⟨t.icnt.v, t.icnt.enc⟩, t.ins.map TxIn.toR, ⟨t.ocnt.v, t.ocnt.enc⟩, t.outs.map TxOut.toR, t.lock⟩
end W
