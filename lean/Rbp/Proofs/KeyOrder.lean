import Rbp.Proofs.Collect
/-!
# The order in which the model visits the block index is the key order, and nothing else

`sortKvs` is the model's stand-in for rusty-leveldb's iterator (bytewise comparator).  `Collect.lean` shows it is a permutation
of the pairs; here: `lexLt` is a strict total order on byte strings, the result of `sortKvs` is ascending in it, and therefore —
for an index whose keys are pairwise distinct, as a LevelDB's are — the visiting order does not depend on the order in which the
pairs were handed over (the order of the `.ldb`/`.log` files, of compaction levels, of the harness's dump).
-/
namespace Run
open W

theorem lexLt_asymm : ∀ (a b : Bytes), lexLt a b = true → lexLt b a = false
  | [], [], h => by simp [lexLt] at h
  | [], _ :: _, _ => by simp [lexLt]
  | _ :: _, [], h => by simp [lexLt] at h
  | a :: as, b :: bs, h => by
    simp only [lexLt] at h ⊢
    by_cases h1 : a < b
    · have h2 : ¬ b < a := by rw [UInt8.lt_iff_toNat_lt] at h1 ⊢; omega
      simp [h2, h1]
    · by_cases h2 : b < a
      · simp [h1, h2] at h
      · simp only [h1, h2, if_false] at h ⊢
        exact lexLt_asymm as bs h

theorem lexLt_trans : ∀ (a b c : Bytes), lexLt a b = true → lexLt b c = true → lexLt a c = true
  | [], [], _, h, _ => by simp [lexLt] at h
  | [], _ :: _, [], _, h => by simp [lexLt] at h
  | [], _ :: _, _ :: _, _, _ => by simp [lexLt]
  | _ :: _, [], _, h, _ => by simp [lexLt] at h
  | _ :: _, _ :: _, [], _, h => by simp [lexLt] at h
  | a :: as, b :: bs, c :: cs, h1, h2 => by
    simp only [lexLt] at h1 h2 ⊢
    by_cases ab : a < b
    · by_cases bc : b < c
      · have : a < c := by rw [UInt8.lt_iff_toNat_lt] at ab bc ⊢; omega
        simp [this]
      · by_cases cb : c < b
        · simp [bc, cb] at h2
        · have : b = c := by
            apply UInt8.toNat_inj.mp; rw [UInt8.lt_iff_toNat_lt] at bc cb; omega
          subst this; simp [ab]
    · by_cases ba : b < a
      · simp [ab, ba] at h1
      · have e : a = b := by
          apply UInt8.toNat_inj.mp; rw [UInt8.lt_iff_toNat_lt] at ab ba; omega
        subst e
        simp only [ab, if_false] at h1
        by_cases ac : a < c
        · simp [ac]
        · by_cases ca : c < a
          · simp [ac, ca] at h2
          · simp only [ac, ca, if_false] at h2 ⊢
            exact lexLt_trans as bs cs h1 h2

theorem lexLt_total : ∀ (a b : Bytes), lexLt a b = false → lexLt b a = false → a = b
  | [], [], _, _ => rfl
  | [], _ :: _, h, _ => by simp [lexLt] at h
  | _ :: _, [], _, h => by simp [lexLt] at h
  | a :: as, b :: bs, h1, h2 => by
    simp only [lexLt] at h1 h2
    by_cases ab : a < b
    · simp [ab] at h1
    · by_cases ba : b < a
      · simp [ba] at h2
      · have e : a = b := by
          apply UInt8.toNat_inj.mp; rw [UInt8.lt_iff_toNat_lt] at ab ba; omega
        subst e
        simp only [ab, if_false] at h1 h2
        rw [lexLt_total as bs h1 h2]

/-- ascending by key (ties allowed) -/
def KeySorted (l : List (Bytes × Bytes)) : Prop := l.Pairwise (fun x y => lexLt y.1 x.1 = false)

theorem insertSorted_sorted (kv : Bytes × Bytes) : ∀ l, KeySorted l → KeySorted (insertSorted kv l)
  | [], _ => by simp [insertSorted, KeySorted]
  | x :: xs, h => by
    unfold insertSorted
    have hx := List.pairwise_cons.mp h
    split
    · rename_i hlt
      refine List.pairwise_cons.mpr ⟨?_, h⟩
      intro y hy
      rcases List.mem_cons.mp hy with rfl | hy
      · exact lexLt_asymm _ _ hlt
      · cases hyk : lexLt y.1 kv.1 with
        | false => rfl
        | true =>
          have := lexLt_trans _ _ _ hyk hlt
          rw [hx.1 y hy] at this; cases this
    · rename_i hge
      refine List.pairwise_cons.mpr ⟨?_, insertSorted_sorted kv xs hx.2⟩
      intro y hy
      rcases List.mem_cons.mp ((insertSorted_perm kv xs).mem_iff.mp hy) with rfl | hy
      · simpa using hge
      · exact hx.1 y hy

theorem sortKvs_sorted : ∀ l : List (Bytes × Bytes), KeySorted (sortKvs l)
  | [] => by simp [sortKvs, KeySorted]
  | x :: xs => by
    show KeySorted (insertSorted x (sortKvs xs))
    exact insertSorted_sorted x _ (sortKvs_sorted xs)

/-- strictly ascending lists with the same members are the same list -/
theorem strictSorted_unique : ∀ (l₁ l₂ : List (Bytes × Bytes)),
    l₁.Pairwise (fun x y => lexLt x.1 y.1 = true) → l₂.Pairwise (fun x y => lexLt x.1 y.1 = true) →
    (∀ p, p ∈ l₁ ↔ p ∈ l₂) → l₁ = l₂
  | [], [], _, _, _ => rfl
  | [], y :: _, _, _, h => by have := (h y).mpr (List.mem_cons_self ..); cases this
  | x :: _, [], _, _, h => by have := (h x).mp (List.mem_cons_self ..); cases this
  | x :: xs, y :: ys, h1, h2, h => by
    have p1 := List.pairwise_cons.mp h1
    have p2 := List.pairwise_cons.mp h2
    have irr : ∀ a : Bytes, lexLt a a = true → False := fun a ha => by
      have := lexLt_asymm a a ha; rw [ha] at this; cases this
    have exy : x = y := by
      rcases List.mem_cons.mp ((h x).mp (List.mem_cons_self ..)) with e | hx
      · exact e
      · rcases List.mem_cons.mp ((h y).mpr (List.mem_cons_self ..)) with e | hy
        · exact e.symm
        · exact (irr _ (lexLt_trans _ _ _ (p1.1 y hy) (p2.1 x hx))).elim
    subst exy
    congr 1
    refine strictSorted_unique xs ys p1.2 p2.2 (fun p => ⟨fun hp => ?_, fun hp => ?_⟩)
    · rcases List.mem_cons.mp ((h p).mp (List.mem_cons_of_mem _ hp)) with e | hp'
      · subst e; exact (irr _ (p1.1 p hp)).elim
      · exact hp'
    · rcases List.mem_cons.mp ((h p).mpr (List.mem_cons_of_mem _ hp)) with e | hp'
      · subst e; exact (irr _ (p2.1 p hp)).elim
      · exact hp'

/-- ascending with pairwise distinct keys is strictly ascending -/
theorem strict_of_sorted_nodup (l : List (Bytes × Bytes)) (hs : KeySorted l) (hd : (l.map (·.1)).Nodup) :
    l.Pairwise (fun x y => lexLt x.1 y.1 = true) := by
  induction l with
  | nil => exact List.Pairwise.nil
  | cons x xs ih =>
    have p := List.pairwise_cons.mp hs
    have d : x.1 ∉ xs.map (·.1) ∧ (xs.map (·.1)).Nodup := List.nodup_cons.mp hd
    refine List.pairwise_cons.mpr ⟨fun y hy => ?_, ih p.2 d.2⟩
    cases hxy : lexLt x.1 y.1 with
    | true => rfl
    | false =>
      have e := lexLt_total _ _ hxy (p.1 y hy)
      exact (d.1 (by rw [e]; exact List.mem_map_of_mem hy)).elim

/-- the visiting order of an index with distinct keys is a function of the *set* of pairs:
    however the same pairs are handed to the model, it visits them in the same order -/
theorem sortKvs_order_independent (l₁ l₂ : List (Bytes × Bytes)) (hp : l₁.Perm l₂) (hd : (l₁.map (·.1)).Nodup) :
    sortKvs l₁ = sortKvs l₂ := by
  have q1 := sortKvs_perm l₁
  have q2 := sortKvs_perm l₂
  have d1 : ((sortKvs l₁).map (·.1)).Nodup := ((q1.map _).nodup_iff).mpr hd
  have d2 : ((sortKvs l₂).map (·.1)).Nodup := (((q2.trans hp.symm).map _).nodup_iff).mpr hd
  refine strictSorted_unique _ _ (strict_of_sorted_nodup _ (sortKvs_sorted l₁) d1)
    (strict_of_sorted_nodup _ (sortKvs_sorted l₂) d2) (fun p => ?_)
  exact (q1.trans (hp.trans q2.symm)).mem_iff

theorem collect_order_independent (l₁ l₂ : List (Bytes × Bytes)) (hp : l₁.Perm l₂) (hd : (l₁.map (·.1)).Nodup) :
    collect l₁ = collect l₂ := by
  unfold collect; rw [sortKvs_order_independent l₁ l₂ hp hd]

theorem main_order_independent (o : Opts) (key : Option Bytes) (l₁ l₂ : List (Bytes × Bytes)) (files : List BlkFile)
    (hp : l₁.Perm l₂) (hd : (l₁.map (·.1)).Nodup) : main o key l₁ files = main o key l₂ files := by
  have hb : buildIndex l₁ = buildIndex l₂ := by unfold buildIndex; rw [collect_order_independent l₁ l₂ hp hd]
  have hl : loadIndex o l₁ = loadIndex o l₂ := by unfold loadIndex; rw [hb]
  unfold main run; rw [hl]

end Run

namespace Run
open W

theorem tipLt_asymm (a b : Wk.Rec) (h : tipLt a b = true) : tipLt b a = false := by
  simp only [tipLt, Bool.or_eq_true, Bool.and_eq_true, decide_eq_true_eq, beq_iff_eq] at h
  simp only [tipLt, Bool.or_eq_false_iff, Bool.and_eq_false_iff, decide_eq_false_iff_not, beq_eq_false_iff_ne]
  rcases h with h | ⟨he, hl⟩
  · exact ⟨by omega, Or.inl (by omega)⟩
  · exact ⟨by omega, Or.inr (lexLt_asymm _ _ hl)⟩

/-- the tip choice at full strength: the fully validated record that is greatest in `(height, hash)` order is picked, wherever it
    sits in the table — including when a competing fully validated record has the *same* height (the hash decides) -/
theorem pickTip_of_greatest (t : Wk.Rec) : ∀ (l : List Wk.Rec) (best : Option Wk.Rec),
    (best = some t ∨ (t ∈ l ∧ ∀ b, best = some b → tipLt b t = true)) →
    validScripts t = true →
    (∀ r ∈ l, validScripts r = true → r = t ∨ tipLt r t = true) →
    (l.filter validScripts).foldl (fun best r => match best with
      | none => some r
      | some b => if tipLt b r then some r else some b) best = some t := by
  intro l
  induction l with
  | nil =>
    intro best h _ _
    rcases h with h | ⟨h, _⟩
    · simpa using h
    · cases h
  | cons x xs ih =>
    intro best h hv hall
    have hall' : ∀ r ∈ xs, validScripts r = true → r = t ∨ tipLt r t = true :=
      fun r hr => hall r (List.mem_cons_of_mem _ hr)
    have tt : tipLt t t = false := by
      cases e : tipLt t t with
      | false => rfl
      | true => have := tipLt_asymm t t e; rw [e] at this; cases this
    by_cases hx : validScripts x = true
    · rw [List.filter_cons_of_pos hx, List.foldl_cons]
      apply ih _ _ hv hall'
      rcases hall x (List.mem_cons_self ..) hx with rfl | hxt
      · -- x is t
        left
        rcases h with rfl | ⟨_, hb⟩
        · simp [tt]
        · cases best with
          | none => rfl
          | some b => simp [hb b rfl]
      · rcases h with rfl | ⟨hm, hb⟩
        · left; simp [tipLt_asymm _ _ hxt]
        · right
          have hm' : t ∈ xs := by
            rcases List.mem_cons.mp hm with e | hm'
            · subst e; rw [tt] at hxt; cases hxt
            · exact hm'
          refine ⟨hm', ?_⟩
          cases best with
          | none => intro b hb'; injection hb' with e; subst e; exact hxt
          | some b0 =>
            intro b hb'
            by_cases c : tipLt b0 x = true
            · simp only [c, if_true] at hb'; injection hb' with e; subst e; exact hxt
            · simp only [c] at hb'; injection hb' with e; subst e; exact hb b0 rfl
    · rw [List.filter_cons_of_neg hx]
      apply ih _ _ hv hall'
      rcases h with h | ⟨hm, hb⟩
      · exact Or.inl h
      · right
        refine ⟨?_, hb⟩
        rcases List.mem_cons.mp hm with e | hm'
        · subst e; exact (hx hv).elim
        · exact hm'

theorem pickTip_greatest (t : Wk.Rec) (l : List Wk.Rec) (hm : t ∈ l) (hv : validScripts t = true)
    (hall : ∀ r ∈ l, validScripts r = true → r = t ∨ tipLt r t = true) : pickTip l = some t :=
  pickTip_of_greatest t l none (Or.inr ⟨hm, fun _ h => by cases h⟩) hv hall

end Run

namespace Run
open W

theorem tipLt_trans (a b c : Wk.Rec) (h1 : tipLt a b = true) (h2 : tipLt b c = true) : tipLt a c = true := by
  simp only [tipLt, Bool.or_eq_true, Bool.and_eq_true, decide_eq_true_eq, beq_iff_eq] at h1 h2 ⊢
  rcases h1 with h1 | ⟨e1, l1⟩ <;> rcases h2 with h2 | ⟨e2, l2⟩
  · left; omega
  · left; omega
  · left; omega
  · right; exact ⟨by omega, lexLt_trans _ _ _ l1 l2⟩

theorem tipLt_irrefl (a : Wk.Rec) : tipLt a a = false := by
  cases e : tipLt a a with
  | false => rfl
  | true => have := tipLt_asymm a a e; rw [e] at this; cases this

/-- fold invariant: the running best is a fully validated member of what has been seen, and nothing seen is greater -/
theorem pickTip_fold_sound : ∀ (l seen : List Wk.Rec) (best : Option Wk.Rec),
    (∀ b, best = some b → b ∈ seen ∧ validScripts b = true ∧ ∀ r ∈ seen, validScripts r = true → tipLt b r = false) →
    (best = none → ∀ r ∈ seen, validScripts r = false) →
    ∀ t, (l.filter validScripts).foldl (fun best r => match best with
      | none => some r
      | some b => if tipLt b r then some r else some b) best = t →
    (∀ b, t = some b → b ∈ seen ++ l ∧ validScripts b = true ∧ ∀ r ∈ seen ++ l, validScripts r = true → tipLt b r = false) ∧
    (t = none → ∀ r ∈ seen ++ l, validScripts r = false) := by
  intro l
  induction l with
  | nil =>
    intro seen best hs hn t ht
    simp only [List.filter_nil, List.foldl_nil] at ht
    subst ht
    simpa using ⟨hs, hn⟩
  | cons x xs ih =>
    intro seen best hs hn t ht
    have hseen : seen ++ x :: xs = (seen ++ [x]) ++ xs := by simp
    rw [hseen]
    by_cases hx : validScripts x = true
    · rw [List.filter_cons_of_pos hx, List.foldl_cons] at ht
      refine ih (seen ++ [x]) _ ?_ ?_ t ht
      · intro b hb
        cases best with
        | none =>
          simp only [Option.some.injEq] at hb; subst hb
          refine ⟨by simp, hx, fun r hr hv => ?_⟩
          rcases List.mem_append.mp hr with hr | hr
          · have := hn rfl r hr; rw [hv] at this; cases this
          · simp only [List.mem_singleton] at hr; subst hr; exact tipLt_irrefl _
        | some b0 =>
          obtain ⟨m0, v0, g0⟩ := hs b0 rfl
          by_cases c : tipLt b0 x = true
          · simp only [c, if_true, Option.some.injEq] at hb; subst hb
            refine ⟨by simp, hx, fun r hr hv => ?_⟩
            rcases List.mem_append.mp hr with hr | hr
            · cases e : tipLt x r with
              | false => rfl
              | true => have := tipLt_trans _ _ _ c e; rw [g0 r hr hv] at this; cases this
            · simp only [List.mem_singleton] at hr; subst hr; exact tipLt_irrefl _
          · have c' : tipLt b0 x = false := by simpa using c
            simp only [c', Bool.false_eq_true, if_false, Option.some.injEq] at hb; subst hb
            refine ⟨by simp [m0], v0, fun r hr hv => ?_⟩
            rcases List.mem_append.mp hr with hr | hr
            · exact g0 r hr hv
            · simp only [List.mem_singleton] at hr; subst hr; exact c'
      · intro h
        cases best with
        | none => cases h
        | some b0 => by_cases c : tipLt b0 x = true <;> simp [c] at h
    · rw [List.filter_cons_of_neg hx] at ht
      have hx' : validScripts x = false := by simpa using hx
      refine ih (seen ++ [x]) best ?_ ?_ t ht
      · intro b hb
        obtain ⟨m0, v0, g0⟩ := hs b hb
        refine ⟨by simp [m0], v0, fun r hr hv => ?_⟩
        rcases List.mem_append.mp hr with hr | hr
        · exact g0 r hr hv
        · simp only [List.mem_singleton] at hr; subst hr; rw [hx'] at hv; cases hv
      · intro h r hr
        rcases List.mem_append.mp hr with hr | hr
        · exact hn h r hr
        · simp only [List.mem_singleton] at hr; subst hr; exact hx'

/-- the tip, characterised with no hypothesis on the table: it is a fully validated member and no fully validated record is
    greater in `(height, hash)` order; there is no tip exactly when nothing is fully validated -/
theorem pickTip_sound (l : List Wk.Rec) :
    (∀ t, pickTip l = some t → t ∈ l ∧ validScripts t = true ∧ ∀ r ∈ l, validScripts r = true → tipLt t r = false) ∧
    (pickTip l = none → ∀ r ∈ l, validScripts r = false) := by
  have := pickTip_fold_sound l [] none (fun _ h => by cases h) (fun _ r hr => by cases hr) (pickTip l) rfl
  simpa using this

end Run

namespace Run
open W

theorem tipLt_total (a b : Wk.Rec) (h1 : tipLt a b = false) (h2 : tipLt b a = false) : a.height = b.height ∧ a.hash = b.hash := by
  simp only [tipLt, Bool.or_eq_false_iff, Bool.and_eq_false_iff, decide_eq_false_iff_not, beq_eq_false_iff_ne] at h1 h2
  have hh : a.height = b.height := by omega
  refine ⟨hh, ?_⟩
  rcases h1.2 with e | e
  · exact (e hh).elim
  · rcases h2.2 with e' | e'
    · exact (e' hh.symm).elim
    · exact lexLt_total _ _ e e'

theorem eq_of_hash_eq : ∀ (l : List Wk.Rec), (l.map (·.hash)).Nodup → ∀ a ∈ l, ∀ b ∈ l, a.hash = b.hash → a = b
  | [], _, _, ha, _, _, _ => by cases ha
  | x :: xs, hd, a, ha, b, hb, e => by
    have d : x.hash ∉ xs.map (·.hash) ∧ (xs.map (·.hash)).Nodup := List.nodup_cons.mp hd
    rcases List.mem_cons.mp ha with rfl | ha' <;> rcases List.mem_cons.mp hb with rfl | hb'
    · rfl
    · exact (d.1 (by rw [e]; exact List.mem_map_of_mem hb')).elim
    · exact (d.1 (by rw [← e]; exact List.mem_map_of_mem ha')).elim
    · exact eq_of_hash_eq xs d.2 a ha' b hb' e

/-- the tip does not depend on the order of the table (which is the order the keys happen to sort in): for records with pairwise
    distinct hashes, any rearrangement of the table yields the same tip -/
theorem pickTip_perm (l₁ l₂ : List Wk.Rec) (hp : l₁.Perm l₂) (hd : (l₁.map (·.hash)).Nodup) : pickTip l₁ = pickTip l₂ := by
  obtain ⟨s1, n1⟩ := pickTip_sound l₁
  obtain ⟨s2, n2⟩ := pickTip_sound l₂
  cases h1 : pickTip l₁ with
  | none =>
    cases h2 : pickTip l₂ with
    | none => rfl
    | some t2 =>
      obtain ⟨m2, v2, _⟩ := s2 t2 h2
      have := n1 h1 t2 (hp.mem_iff.mpr m2); rw [v2] at this; cases this
  | some t1 =>
    obtain ⟨m1, v1, g1⟩ := s1 t1 h1
    cases h2 : pickTip l₂ with
    | none => have := n2 h2 t1 (hp.mem_iff.mp m1); rw [v1] at this; cases this
    | some t2 =>
      obtain ⟨m2, v2, g2⟩ := s2 t2 h2
      have m2' := hp.mem_iff.mpr m2
      have e := tipLt_total t1 t2 (g1 t2 m2' v2) (g2 t1 (hp.mem_iff.mp m1) v1)
      rw [eq_of_hash_eq l₁ hd t1 m1 t2 m2' e.2]
end Run
