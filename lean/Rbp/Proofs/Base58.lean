namespace B58

/-- little-endian digits of `n` in base `b` (no trailing zero digit; 0 ↦ []) -/
def digitsLE (b : Nat) (hb : 2 ≤ b) (n : Nat) : List Nat :=
  if h : n = 0 then [] else n % b :: digitsLE b hb (n / b)
termination_by n
decreasing_by exact Nat.div_lt_self (by omega) (by omega)

def ofLE (b : Nat) : List Nat → Nat
  | [] => 0
  | d :: ds => d + b * ofLE b ds

theorem ofLE_digitsLE (b : Nat) (hb : 2 ≤ b) (n : Nat) : ofLE b (digitsLE b hb n) = n := by
  induction n using Nat.strongRecOn with
  | _ n ih =>
    unfold digitsLE
    split
    · rename_i h; simp [ofLE, h]
    · rename_i h
      have hlt : n / b < n := Nat.div_lt_self (by omega) (by omega)
      simp only [ofLE, ih _ hlt]
      exact Nat.mod_add_div n b

/-- a digit list is canonical if every digit is < b and the most significant (last) digit is non-zero -/
def Canon (b : Nat) : List Nat → Prop
  | [] => True
  | [d] => d < b ∧ d ≠ 0
  | d :: d' :: ds => d < b ∧ Canon b (d' :: ds)

theorem ofLE_pos (b : Nat) (hb : 2 ≤ b) : ∀ ds, ds ≠ [] → Canon b ds → 0 < ofLE b ds
  | [d], _, hc => by simp [Canon] at hc; simp [ofLE]; omega
  | d :: d' :: ds, _, hc => by
    have := ofLE_pos b hb (d' :: ds) (by simp) hc.2
    simp only [ofLE] at this ⊢
    have : 0 < b * (d' + b * ofLE b ds) := Nat.mul_pos (by omega) this
    omega

theorem digitsLE_ofLE (b : Nat) (hb : 2 ≤ b) : ∀ ds, Canon b ds → digitsLE b hb (ofLE b ds) = ds
  | [], _ => by unfold digitsLE; simp [ofLE]
  | [d], hc => by
    simp [Canon] at hc
    have e : ofLE b [d] = d := by simp [ofLE]
    rw [e]
    unfold digitsLE
    simp only [hc.2, dite_false]
    rw [Nat.mod_eq_of_lt hc.1, Nat.div_eq_of_lt hc.1]
    unfold digitsLE; simp
  | d :: d' :: ds, hc => by
    have hpos := ofLE_pos b hb (d' :: ds) (by simp) hc.2
    have ih := digitsLE_ofLE b hb (d' :: ds) hc.2
    unfold digitsLE
    have hne : ¬ (ofLE b (d :: d' :: ds) = 0) := by
      simp only [ofLE] at hpos ⊢
      have : 0 < b * (d' + b * ofLE b ds) := Nat.mul_pos (by omega) hpos
      omega
    simp only [hne, dite_false]
    have h1 : ofLE b (d :: d' :: ds) % b = d := by
      simp only [ofLE]; rw [Nat.add_mul_mod_self_left]; exact Nat.mod_eq_of_lt hc.1
    have h2 : ofLE b (d :: d' :: ds) / b = ofLE b (d' :: ds) := by
      simp only [ofLE]
      rw [Nat.add_mul_div_left _ _ (by omega : 0 < b), Nat.div_eq_of_lt hc.1, Nat.zero_add]
    rw [h1, h2, ih]

theorem digitsLE_canon (b : Nat) (hb : 2 ≤ b) (n : Nat) : Canon b (digitsLE b hb n) := by
  induction n using Nat.strongRecOn with
  | _ n ih =>
    unfold digitsLE
    split
    · trivial
    · rename_i h
      have hlt : n / b < n := Nat.div_lt_self (by omega) (by omega)
      have hc := ih _ hlt
      have hm : n % b < b := Nat.mod_lt _ (by omega)
      cases hq : digitsLE b hb (n / b) with
      | nil =>
        -- n / b = 0, so n % b = n ≠ 0
        have : n / b = 0 := by
          have := ofLE_digitsLE b hb (n / b); rw [hq] at this; simpa [ofLE] using this.symm
        have hn : n < b := by
          rcases Nat.lt_or_ge n b with h' | h'
          · exact h'
          · have : 0 < n / b := Nat.div_pos h' (by omega); omega
        simp [Canon, Nat.mod_eq_of_lt hn, hn, h]
      | cons d ds => rw [hq] at hc; exact ⟨hm, hc⟩

/-! Base58 on digit values (the character table is a separate bijection) -/
abbrev Bytes := List Nat       -- byte values, each < 256 (probe uses Nat for brevity)

def leadZeros : List Nat → Nat
  | 0 :: r => leadZeros r + 1
  | _ => 0
def stripZeros : List Nat → List Nat
  | 0 :: r => stripZeros r
  | l => l

theorem strip_split (l : List Nat) : List.replicate (leadZeros l) 0 ++ stripZeros l = l := by
  induction l with
  | nil => simp [leadZeros, stripZeros]
  | cons a l ih =>
    cases a with
    | zero => simp [leadZeros, stripZeros, List.replicate_succ, ih]
    | succ a => simp [leadZeros, stripZeros]

def toBE (b : Nat) (hb : 2 ≤ b) (n : Nat) : List Nat := (digitsLE b hb n).reverse
def ofBE (b : Nat) (ds : List Nat) : Nat := ofLE b ds.reverse

def encode (bs : Bytes) : List Nat :=
  List.replicate (leadZeros bs) 0 ++ toBE 58 (by omega) (ofBE 256 (stripZeros bs))
def decode (ds : List Nat) : Bytes :=
  List.replicate (leadZeros ds) 0 ++ toBE 256 (by omega) (ofBE 58 (stripZeros ds))

/-- big-endian canonical: all < b, head non-zero -/
def CanonBE (b : Nat) (l : List Nat) : Prop := (∀ d ∈ l, d < b) ∧ (∀ h t, l = h :: t → h ≠ 0)

theorem canon_iff (b : Nat) : ∀ l, Canon b l ↔ (∀ d ∈ l, d < b) ∧ l.getLast? ≠ some 0
  | [] => by simp [Canon]
  | [d] => by simp [Canon]
  | d :: d' :: ds => by
    have ih := canon_iff b (d' :: ds)
    simp only [Canon, ih, List.getLast?_cons_cons]
    constructor
    · rintro ⟨h1, h2, h3⟩
      exact ⟨by intro x hx; rcases List.mem_cons.mp hx with rfl | hx; exact h1; exact h2 x hx, h3⟩
    · rintro ⟨h1, h2⟩
      exact ⟨h1 d (by simp), fun x hx => h1 x (by simp [hx]), h2⟩

theorem canon_rev (b : Nat) (l : List Nat) (h : CanonBE b l) : Canon b l.reverse := by
  rw [canon_iff]
  refine ⟨by intro d hd; exact h.1 d (by simpa using hd), ?_⟩
  rw [List.getLast?_reverse]
  cases l with
  | nil => simp
  | cons a t => simpa using h.2 a t rfl

theorem toBE_ofBE (b : Nat) (hb : 2 ≤ b) (l : List Nat) (h : CanonBE b l) : toBE b hb (ofBE b l) = l := by
  unfold toBE ofBE
  rw [digitsLE_ofLE b hb _ (canon_rev b l h), List.reverse_reverse]

theorem ofBE_toBE (b : Nat) (hb : 2 ≤ b) (n : Nat) : ofBE b (toBE b hb n) = n := by
  unfold toBE ofBE; rw [List.reverse_reverse, ofLE_digitsLE]

theorem toBE_canon (b : Nat) (hb : 2 ≤ b) (n : Nat) : CanonBE b (toBE b hb n) := by
  have hc := (canon_iff b _).mp (digitsLE_canon b hb n)
  unfold toBE
  refine ⟨by intro d hd; exact hc.1 d (by simpa using hd), ?_⟩
  intro h t heq
  have : (digitsLE b hb n).getLast? = some h := by
    have := congrArg List.head? heq
    simpa [List.head?_reverse] using this
  intro h0; rw [h0] at this; exact hc.2 this

theorem stripZeros_canon (l : List Nat) (hl : ∀ d ∈ l, d < 256) : CanonBE 256 (stripZeros l) := by
  induction l with
  | nil => exact ⟨by simp [stripZeros], by simp [stripZeros]⟩
  | cons a l ih =>
    cases a with
    | zero => simpa [stripZeros] using ih (fun d hd => hl d (by simp [hd]))
    | succ a =>
      refine ⟨by simpa [stripZeros] using hl, ?_⟩
      intro h t heq; simp [stripZeros] at heq; omega

theorem leadZeros_rep (z : Nat) (l : List Nat) (h : ∀ a t, l = a :: t → a ≠ 0) :
    leadZeros (List.replicate z 0 ++ l) = z ∧ stripZeros (List.replicate z 0 ++ l) = l := by
  induction z with
  | zero =>
    cases l with
    | nil => simp [leadZeros, stripZeros]
    | cons a t =>
      have := h a t rfl
      cases a with
      | zero => exact absurd rfl this
      | succ a => simp [leadZeros, stripZeros]
  | succ z ih => simp [List.replicate_succ, leadZeros, stripZeros, ih]

/-- Base58 (on digit values): decoding an encoding returns the original bytes, leading zeros included -/
theorem decode_encode (bs : Bytes) (hb : ∀ d ∈ bs, d < 256) : decode (encode bs) = bs := by
  unfold decode encode
  have hc := toBE_canon 58 (by omega) (ofBE 256 (stripZeros bs))
  obtain ⟨h1, h2⟩ := leadZeros_rep (leadZeros bs) _ hc.2
  rw [h1, h2, ofBE_toBE, toBE_ofBE 256 (by omega) _ (stripZeros_canon bs hb), strip_split]
end B58
