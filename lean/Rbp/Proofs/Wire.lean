import Rbp.Spec.Chain
/-! Helper lemmas: reader ∘ encoder round trips (C01, C12, C14). -/
namespace W

theorem toLE_length (k n : Nat) : (toLE k n).length = k := by
  induction k generalizing n <;> simp [toLE, *]

theorem le_toLE (k n : Nat) (h : n < 256 ^ k) : le (toLE k n) = n := by
  induction k generalizing n with
  | zero => simp [toLE, le] at *; omega
  | succ k ih =>
    have h' : n / 256 < 256 ^ k := by
      rw [Nat.pow_succ] at h; omega
    simp only [toLE, le, List.foldr_cons]
    have := ih (n / 256) h'
    simp only [le] at this
    rw [this]
    have : (UInt8.ofNat (n % 256)).toNat = n % 256 := by simp [UInt8.toNat_ofNat']
    rw [this]; omega

theorem take_append (xs rest : Bytes) : take xs.length (xs ++ rest) = some (xs, rest) := by
  simp [take]

theorem take_len (xs rest : Bytes) (n : Nat) (h : n = xs.length) : take n (xs ++ rest) = some (xs, rest) := by
  subst h; exact take_append xs rest

theorem readLE_toLE (k n : Nat) (rest : Bytes) (h : n < 256 ^ k) :
    readLE k (toLE k n ++ rest) = some (n, rest) := by
  have := take_append (toLE k n) rest
  rw [toLE_length] at this
  simp [readLE, this, le_toLE k n h]

theorem readVarUint_enc (c : Count) (h : c.ok) (rest : Bytes) :
    readVarUint (c.enc ++ rest) = some (⟨c.v, c.enc⟩, rest) := by
  rcases c with ⟨w, v⟩
  cases w <;> simp only [Count.ok] at h
  · have e : (UInt8.ofNat v).toNat = v := by simp [UInt8.toNat_ofNat']; omega
    simp [Count.enc, readVarUint, e, h]
  · simp [Count.enc, readVarUint, readLE_toLE 2 v rest h]
  · simp [Count.enc, readVarUint, readLE_toLE 4 v rest h]
  · simp [Count.enc, readVarUint, readLE_toLE 8 v rest h]

theorem readIn_enc (i : TxIn) (h : i.ok) (rest : Bytes) : readIn (i.enc ++ rest) = some (i.toR, rest) := by
  obtain ⟨hp, hi, hl, hs, h32, hq⟩ := h
  simp only [readIn, TxIn.enc, List.append_assoc]
  rw [take_len i.prev _ 32 hp.symm]
  simp only [Option.bind_eq_bind, Option.bind_some]
  rw [readLE_toLE 4 _ _ hi]
  simp only [Option.bind_some]
  rw [readVarUint_enc _ hl]
  simp only [Option.bind_some, takeU32]
  rw [Nat.mod_eq_of_lt h32, take_len i.script _ _ hs]
  simp only [Option.bind_some]
  rw [readLE_toLE 4 _ _ hq]
  simp [TxIn.toR]

theorem readOut_enc (o : TxOut) (h : o.ok) (rest : Bytes) :
    readOut (o.enc ++ rest) = some (o.toR, rest) := by
  obtain ⟨hv, hl, hs, h32⟩ := h
  simp only [readOut, TxOut.enc, List.append_assoc]
  rw [readLE_toLE 8 _ _ hv]
  simp only [Option.bind_eq_bind, Option.bind_some]
  rw [readVarUint_enc _ hl]
  simp only [Option.bind_some, takeU32]
  rw [Nat.mod_eq_of_lt h32, take_len o.script _ _ hs]
  simp [TxOut.toR]

/-- generic list lemma: reading `xs.length` items of a round-tripping format -/
theorem readN_roundtrip {A R : Type} (p : P R) (enc : A → Bytes) (toR : A → R) (okp : A → Prop)
    (hp : ∀ a, okp a → ∀ rest, p (enc a ++ rest) = some (toR a, rest))
    (xs : List A) (h : ∀ x ∈ xs, okp x) (rest : Bytes) :
    readN p xs.length (xs.flatMap enc ++ rest) = some (xs.map toR, rest) := by
  induction xs with
  | nil => simp [readN]
  | cons x xs ih =>
    have hx := h x (by simp)
    have hxs : ∀ y ∈ xs, okp y := fun y hy => h y (by simp [hy])
    simp only [List.length_cons, readN, List.flatMap_cons, List.append_assoc]
    rw [hp x hx]
    simp only [Option.bind_eq_bind, Option.bind_some]
    rw [ih hxs]
    rfl

theorem skipItem_enc (w : WitItem) (h : w.ok) (rest : Bytes) : skipItem (w.enc ++ rest) = some ((), rest) := by
  obtain ⟨hl, hs, h32⟩ := h
  simp only [skipItem, WitItem.enc, List.append_assoc]
  rw [readVarUint_enc _ hl]
  simp only [Option.bind_eq_bind, Option.bind_some, takeU32]
  rw [Nat.mod_eq_of_lt h32, take_len w.data _ _ hs]
  rfl

theorem skipStack_enc (s : WitStack) (h : s.ok) (rest : Bytes) : skipStack (s.enc ++ rest) = some ((), rest) := by
  obtain ⟨hc, hn, hi⟩ := h
  simp only [skipStack, WitStack.enc, List.append_assoc]
  rw [readVarUint_enc _ hc]
  simp only [Option.bind_eq_bind, Option.bind_some]
  rw [hn, readN_roundtrip skipItem WitItem.enc (fun _ => ()) WitItem.ok skipItem_enc s.items hi]
  rfl

theorem RIn_toBytes (i : TxIn) : i.toR.toBytes = i.enc := by
  simp [RIn.toBytes, TxIn.toR, TxIn.enc, List.append_assoc]
theorem ROut_toBytes (o : TxOut) : o.toR.toBytes = o.enc := by
  simp [ROut.toBytes, TxOut.toR, TxOut.enc, List.append_assoc]
theorem toBytes_stripped (t : Tx) : t.toR.toBytes = t.encStripped := by
  simp [RTx.toBytes, Tx.toR, Tx.encStripped, Tx.encBody, List.flatMap_map, RIn_toBytes, ROut_toBytes,
    List.append_assoc]

theorem readTx_enc (t : Tx) (h : t.ok) (rest : Bytes) : readTx (t.enc ++ rest) = some (t.toR, rest) := by
  obtain ⟨hv, hl, hic, hin, h1, hins, hoc, hon, houts, hsw⟩ := h
  cases hs : t.segwit with
  | none =>
    simp only [readTx, Tx.enc, Tx.encHead, Tx.encWit, Tx.encBody, hs, List.append_assoc, List.nil_append]
    rw [readLE_toLE 4 _ _ hv]
    simp only [Option.bind_eq_bind, Option.bind_some]
    rw [readVarUint_enc _ hic]
    have hne : ¬ t.icnt.v = 0 := by omega
    simp only [Option.bind_some, hne, if_false, Option.pure_def]
    rw [hin, readN_roundtrip readIn TxIn.enc TxIn.toR TxIn.ok readIn_enc t.ins hins]
    simp only [Option.bind_some]
    rw [readVarUint_enc _ hoc]
    simp only [Option.bind_some]
    rw [hon, readN_roundtrip readOut TxOut.enc TxOut.toR TxOut.ok readOut_enc t.outs houts]
    simp only [Option.bind_some]
    have : ¬ ((0 : UInt8).toNat % 2 = 1) := by decide
    simp only [this, if_false, Option.pure_def, Option.bind_some]
    rw [readLE_toLE 4 _ _ hl]
    simp [Tx.toR, hin, hon]
  | some s =>
    have hsok := hsw s hs
    have hm : (Count.mk s.markerW 0).ok := by cases s.markerW <;> simp [Count.ok]
    simp only [readTx, Tx.enc, Tx.encHead, Tx.encWit, Tx.encBody, hs, List.append_assoc, List.cons_append, List.nil_append]
    rw [readLE_toLE 4 _ _ hv]
    simp only [Option.bind_eq_bind, Option.bind_some]
    rw [readVarUint_enc _ hm]
    simp only [Option.bind_some, if_true, readU8, Option.pure_def]
    rw [readVarUint_enc _ hic]
    simp only [Option.bind_some]
    rw [hin, readN_roundtrip readIn TxIn.enc TxIn.toR TxIn.ok readIn_enc t.ins hins]
    simp only [Option.bind_some]
    rw [readVarUint_enc _ hoc]
    simp only [Option.bind_some]
    rw [hon, readN_roundtrip readOut TxOut.enc TxOut.toR TxOut.ok readOut_enc t.outs houts]
    simp only [Option.bind_some]
    unfold Segwit.ok at hsok
    by_cases hf : s.flag.toNat % 2 = 1
    · simp only [hf, if_true] at hsok ⊢
      rw [← hsok.1, readN_roundtrip skipStack WitStack.enc (fun _ => ()) WitStack.ok skipStack_enc s.stacks hsok.2]
      simp only [Option.bind_some]
      rw [readLE_toLE 4 _ _ hl]
      simp [Tx.toR, hin, hon, hsok.1]
    · simp only [hf, if_false] at hsok ⊢
      simp only [hsok, List.flatMap_nil, List.nil_append, Option.bind_some, Option.pure_def]
      rw [readLE_toLE 4 _ _ hl]
      simp [Tx.toR, hin, hon]
end W
