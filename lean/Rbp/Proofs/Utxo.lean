import Rbp.Model.Utxo
import Rbp.Model.Callbacks
/-! Bridge: the executable callback fold (`CB.utxo`) is `U.run` over the flattened operation list (C07, C08). -/
namespace CB
open Std W Csv

/-- operations of one transaction: a spend per input, then a creation per address-bearing output -/
def opsOfTx (ver : UInt8) (height : Nat) (t : RTx) : List (U.Op Unspent) :=
  t.ins.map (fun i => U.Op.spend (key i.prev i.idx)) ++
  ((List.range t.outs.length).zip t.outs).filterMap (fun (k, o) =>
    (S.eval ver o.script).address.map (fun a => U.Op.create (key (txid t) k) ⟨height, o.value, a⟩))

def opsOfBlock (ver : UInt8) (b : EBlock) : List (U.Op Unspent) := b.blk.txs.flatMap (opsOfTx ver b.height)
def opsOf (ver : UInt8) (bs : List EBlock) : List (U.Op Unspent) := bs.flatMap (opsOfBlock ver)

theorem foldl_spends (l : List RIn) : ∀ (m : HashMap Bytes Unspent),
    l.foldl (fun m i => m.erase (key i.prev i.idx)) m = U.run m (l.map (fun i => U.Op.spend (key i.prev i.idx))) := by
  induction l with
  | nil => intro m; rfl
  | cons i l ih => intro m; simp only [List.foldl_cons, List.map_cons, U.run, U.apply]; exact ih _

theorem foldl_creates (ver : UInt8) (height : Nat) (id : Bytes) (l : List (Nat × ROut)) : ∀ (m : HashMap Bytes Unspent),
    l.foldl (fun m (p : Nat × ROut) => match (S.eval ver p.2.script).address with
      | some a => m.insert (key id p.1) ⟨height, p.2.value, a⟩
      | none => m) m =
    U.run m (l.filterMap (fun (p : Nat × ROut) =>
      (S.eval ver p.2.script).address.map (fun a => U.Op.create (key id p.1) ⟨height, p.2.value, a⟩))) := by
  induction l with
  | nil => intro m; rfl
  | cons p l ih =>
    intro m
    simp only [List.foldl_cons, List.filterMap_cons]
    cases h : (S.eval ver p.2.script).address with
    | none => simp only [Option.map_none]; exact ih m
    | some a => simp only [Option.map_some, U.run, List.foldl_cons, U.apply]; exact ih _

theorem run_append {V} (m : HashMap U.Key V) (a b : List (U.Op V)) : U.run m (a ++ b) = U.run (U.run m a) b := by
  simp [U.run, List.foldl_append]

theorem applyTx_eq (ver : UInt8) (height : Nat) (m : HashMap Bytes Unspent) (t : RTx) :
    applyTx ver height m t = U.run m (opsOfTx ver height t) := by
  unfold applyTx opsOfTx
  rw [run_append, ← foldl_spends]
  exact foldl_creates ver height (txid t) _ _

theorem foldl_txs (ver : UInt8) (height : Nat) (txs : List RTx) : ∀ (m : HashMap Bytes Unspent),
    txs.foldl (applyTx ver height) m = U.run m (txs.flatMap (opsOfTx ver height)) := by
  induction txs with
  | nil => intro m; rfl
  | cons t txs ih =>
    intro m
    simp only [List.foldl_cons, List.flatMap_cons]
    rw [run_append, ← applyTx_eq]
    exact ih _

theorem foldl_blocks (ver : UInt8) (bs : List EBlock) : ∀ (m : HashMap Bytes Unspent),
    bs.foldl (fun m b => b.blk.txs.foldl (applyTx ver b.height) m) m = U.run m (opsOf ver bs) := by
  induction bs with
  | nil => intro m; rfl
  | cons b bs ih =>
    intro m
    simp only [List.foldl_cons, opsOf, List.flatMap_cons]
    rw [run_append, foldl_txs]
    exact ih _

/-- the executable UTXO fold of the callbacks is the generic fold over the flattened operation list -/
theorem utxo_eq_run (ver : UInt8) (bs : List EBlock) : utxo ver bs = U.run ∅ (opsOf ver bs) := by
  unfold utxo
  exact foldl_blocks ver bs ∅
end CB
