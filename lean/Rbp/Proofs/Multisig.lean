import Rbp.Proofs.Classify
import Rbp.Proofs.TokeniseSound
/-!
# Bare m-of-n multisig ⇔ the template `OP_m <key>{n} OP_n OP_CHECKMULTISIG` (C05)
-/
namespace S
open SMB

/-- if the instruction iterator meets no error, the script is tokenisable by the push rules -/
theorem tokenise_of_instrs : ∀ (n : Nat) (s : Bytes), s.length = n → (∀ x ∈ instrs s, x ≠ none) → ∃ toks, T.tokenise s = some toks := by
  intro n
  induction n using Nat.strongRecOn with
  | _ n ih =>
    intro s hn hno
    cases s with
    | nil => exact ⟨[], by rw [T.tokenise]⟩
    | cons b rest =>
      rw [instrs_cons] at hno
      simp only at hno
      rw [T.tokenise]
      simp only
      -- PUSHDATA forms
      have pushK : ∀ (f : T.Form) (k : Nat),
          (∀ x ∈ (if h : k ≤ rest.length then
              (if h2 : leN (rest.take k) ≤ (rest.drop k).length then
                some (Ins.push ((rest.drop k).take (leN (rest.take k)))) :: instrs ((rest.drop k).drop (leN (rest.take k)))
              else [none])
            else [none]), x ≠ none) →
          ∃ toks, (if h : k ≤ rest.length then
              (if h2 : T.le (rest.take k) ≤ (rest.drop k).length then
                (T.tokenise ((rest.drop k).drop (T.le (rest.take k)))).map (T.Tok.push f ((rest.drop k).take (T.le (rest.take k))) :: ·)
              else none)
            else none) = some toks := by
        intro f k hx
        by_cases hk : k ≤ rest.length
        · simp only [hk, dite_true] at hx ⊢
          by_cases h2 : leN (rest.take k) ≤ (rest.drop k).length
          · have h2' : T.le (rest.take k) ≤ (rest.drop k).length := h2
            simp only [h2, dite_true] at hx
            simp only [h2', dite_true]
            obtain ⟨ts, hts⟩ := ih ((rest.drop k).drop (leN (rest.take k))).length
              (by rw [← hn]; simp only [List.length_drop, List.length_cons]; omega) _ rfl
              (fun x hxm => hx x (List.mem_cons_of_mem _ hxm))
            exact ⟨_, by rw [show T.le (rest.take k) = leN (rest.take k) from rfl, hts]; rfl⟩
          · simp only [h2, dite_false] at hx
            exact absurd rfl (hx none (by simp))
        · simp only [hk, dite_false] at hx
          exact absurd rfl (hx none (by simp))
      by_cases h75 : 1 ≤ b.toNat ∧ b.toNat ≤ 75
      · simp only [h75, and_self, if_true]
        rw [SM.classify_small b (by omega)] at hno
        simp only at hno
        by_cases hk : b.toNat ≤ rest.length
        · simp only [hk, dite_true] at hno ⊢
          obtain ⟨ts, hts⟩ := ih (rest.drop b.toNat).length (by rw [← hn]; simp only [List.length_drop, List.length_cons]; omega) _ rfl
            (fun x hxm => hno x (List.mem_cons_of_mem _ hxm))
          exact ⟨_, by rw [hts]; rfl⟩
        · simp only [hk, dite_false] at hno
          exact absurd rfl (hno none (by simp))
      · simp only [h75, if_false]
        by_cases h0 : b.toNat = 0
        · -- OP_0: an empty push for the iterator, an opcode token for the grammar
          have hb : b = 0 := UInt8.toNat_inj.mp (by simpa using h0)
          subst hb
          have hc : classify (0 : UInt8) = .pushbytes 0 := by decide
          rw [hc] at hno
          simp only [Nat.zero_le, dite_true, List.drop_zero] at hno
          obtain ⟨ts, hts⟩ := ih rest.length (by rw [← hn]; simp) _ rfl (fun x hxm => hno x (List.mem_cons_of_mem _ hxm))
          have e1 : ¬ ((0 : UInt8).toNat = 0x4c) := by decide
          have e2 : ¬ ((0 : UInt8).toNat = 0x4d) := by decide
          have e3 : ¬ ((0 : UInt8).toNat = 0x4e) := by decide
          simp only [e1, e2, e3, if_false]
          exact ⟨_, by rw [hts]; rfl⟩
        · have hbig : 0x4c ≤ b.toNat := by omega
          cases hc : classify b with
          | pushbytes k => exact absurd hc (SM.classify_big b hbig k)
          | illegal | noop | ret | pushnum | ordinary =>
            simp only [hc] at hno
            by_cases h1 : b = 0x4c
            · subst h1
              rw [if_pos rfl] at hno
              have : (0x4c : UInt8).toNat = 0x4c := by decide
              simp only [this, if_true]
              exact pushK .pd1 1 hno
            · by_cases h2 : b = 0x4d
              · subst h2
                rw [if_neg (by decide), if_pos rfl] at hno
                have a1 : ¬ (0x4d : UInt8).toNat = 0x4c := by decide
                have a2 : (0x4d : UInt8).toNat = 0x4d := by decide
                simp only [a1, a2, if_false, if_true]
                exact pushK .pd2 2 hno
              · by_cases h3 : b = 0x4e
                · subst h3
                  rw [if_neg (by decide), if_neg (by decide), if_pos rfl] at hno
                  have a1 : ¬ (0x4e : UInt8).toNat = 0x4c := by decide
                  have a2 : ¬ (0x4e : UInt8).toNat = 0x4d := by decide
                  have a3 : (0x4e : UInt8).toNat = 0x4e := by decide
                  simp only [a1, a2, a3, if_false, if_true]
                  exact pushK .pd4 4 hno
                · simp only [h1, h2, h3, if_false] at hno
                  have n1 : ¬ b.toNat = 0x4c := fun e => h1 (UInt8.toNat_inj.mp (by rw [e]; rfl))
                  have n2 : ¬ b.toNat = 0x4d := fun e => h2 (UInt8.toNat_inj.mp (by rw [e]; rfl))
                  have n3 : ¬ b.toNat = 0x4e := fun e => h3 (UInt8.toNat_inj.mp (by rw [e]; rfl))
                  simp only [n1, n2, n3, if_false]
                  obtain ⟨ts, hts⟩ := ih rest.length (by rw [← hn]; simp) _ rfl (fun x hxm => hno x (List.mem_cons_of_mem _ hxm))
                  exact ⟨_, by rw [hts]; rfl⟩

/-- the key loop hands back exactly `[OP_CHECKMULTISIG]` only after walking over pushes and then one opcode -/
theorem keys_shape : ∀ (l : List (Option Ins)) (a n : Nat), isMultisigLib.keys l a = some (n, [some (Ins.op 0xae)]) →
    ∃ (ps : List Bytes) (o : UInt8), l = ps.map (fun d => some (Ins.push d)) ++ [some (Ins.op o), some (Ins.op 0xae)] ∧
      n = a + ps.length ∧ (pushnum o = some n ∨ pushnum o = none)
  | [], a, n, h => by simp [isMultisigLib.keys] at h
  | none :: r, a, n, h => by simp [isMultisigLib.keys] at h
  | some (.push d) :: r, a, n, h => by
    simp only [isMultisigLib.keys] at h
    obtain ⟨ps, o, hl, hn, ho⟩ := keys_shape r (a + 1) n h
    exact ⟨d :: ps, o, by simp [hl], by simp; omega, ho⟩
  | some (.op o) :: r, a, n, h => by
    simp only [isMultisigLib.keys] at h
    cases hp : pushnum o with
    | none =>
      simp only [hp, Option.some.injEq, Prod.mk.injEq] at h
      exact ⟨[], o, by simp [h.2], by simp [h.1], Or.inr hp⟩
    | some k =>
      simp only [hp] at h
      split at h
      · cases h
      · rename_i hk
        simp only [Option.some.injEq, Prod.mk.injEq] at h
        have : k = a := by simpa using hk
        exact ⟨[], o, by simp [h.2], by simp [h.1], Or.inl (by rw [hp, this, h.1])⟩

/-- a token that the instruction iterator reports as a push: a push of any form, or OP_0 (the empty push) -/
def IsKey (t : T.Tok) : Prop := (∃ f bs, t = T.Tok.push f bs) ∨ t = T.Tok.op 0

theorem toIns_push (t : T.Tok) (d : Bytes) (h : SM.toIns t = Ins.push d) : IsKey t := by
  cases t with
  | push f bs => exact Or.inl ⟨f, bs, rfl⟩
  | op b =>
    simp only [SM.toIns] at h
    by_cases hb : b = 0
    · subst hb; exact Or.inr rfl
    · simp [hb] at h

theorem toIns_op (t : T.Tok) (b : UInt8) (h : SM.toIns t = Ins.op b) : t = T.Tok.op b ∧ b ≠ 0 := by
  cases t with
  | push f bs => simp [SM.toIns] at h
  | op c =>
    simp only [SM.toIns] at h
    by_cases hc : c = 0
    · simp [hc] at h
    · simp only [hc, if_false, Ins.op.injEq] at h
      exact ⟨by rw [h], by rw [← h]; exact hc⟩

theorem map_eq_append_split {α β} (f : α → β) : ∀ (l : List α) (xs ys : List β), l.map f = xs ++ ys →
    ∃ l1 l2, l = l1 ++ l2 ∧ l1.map f = xs ∧ l2.map f = ys := by
  intro l xs
  induction xs generalizing l with
  | nil => intro ys h; exact ⟨[], l, rfl, rfl, h⟩
  | cons x xs ih =>
    intro ys h
    cases l with
    | nil => simp at h
    | cons a l =>
      simp only [List.map_cons, List.cons_append, List.cons.injEq] at h
      obtain ⟨l1, l2, hl, h1, h2⟩ := ih l ys h.2
      exact ⟨a :: l1, l2, by simp [hl], by simp [h.1, h1], h2⟩

/-- **bare multisig ⇒ template.**  A script that passes the bare-multisig test is `OP_m`, then `n` key tokens (pushes of any
    form, or OP_0), then `OP_n OP_CHECKMULTISIG`, with 1 ≤ m ≤ n ≤ 16 — nothing else -/
theorem bare_multisig_is_template (s : Bytes) (h : isBareMultisig s = true) :
    ∃ (m n : Nat) (ks : List T.Tok), 1 ≤ m ∧ m ≤ n ∧ n ≤ 16 ∧ ks.length = n ∧ (∀ k ∈ ks, k.WF ∧ IsKey k) ∧
      s = [UInt8.ofNat (0x50 + m)] ++ ks.flatMap T.Tok.enc ++ [UInt8.ofNat (0x50 + n), 0xae] := by
  have hb := h
  unfold isBareMultisig at hb
  simp only [Bool.and_eq_true, decide_eq_true_eq] at hb
  obtain ⟨⟨_, hlib⟩, hlo, hhi⟩ := hb
  -- the shape of the instruction list
  have hl := hlib
  unfold isMultisigLib at hl
  cases hi : instrs s with
  | nil => simp [hi] at hl
  | cons x rest =>
    cases x with
    | none => simp [hi] at hl
    | some ins =>
      cases ins with
      | push d => simp [hi] at hl
      | op mb =>
        simp only [hi] at hl
        cases hp : pushnum mb with
        | none => simp [hp] at hl
        | some req =>
          simp only [hp] at hl
          cases hk : isMultisigLib.keys rest 0 with
          | none => simp [hk] at hl
          | some pr =>
            obtain ⟨n, after⟩ := pr
            simp only [hk] at hl
            by_cases hreq : req > n
            · simp [hreq] at hl
            · simp only [hreq, if_false] at hl
              have hafter : after = [some (Ins.op 0xae)] := by
                split at hl
                · rfl
                · cases hl
              subst hafter
              obtain ⟨ps, o, hrest, hn, ho⟩ := keys_shape rest 0 n hk
              -- no error anywhere: the script tokenises
              have hno : ∀ x ∈ instrs s, x ≠ none := by
                rw [hi, hrest]
                intro x hx
                simp only [List.mem_cons, List.mem_append, List.mem_map, List.not_mem_nil, or_false] at hx
                rcases hx with rfl | ⟨d, _, rfl⟩ | rfl | rfl <;> simp
              obtain ⟨toks, htok⟩ := tokenise_of_instrs s.length s rfl hno
              obtain ⟨hs, hwf⟩ := T.tokenise_sound s.length s toks rfl htok
              have hie := SM.instrs_enc toks hwf
              rw [← hs, hi, hrest] at hie
              -- split the token list along the instruction list
              have hmap : toks.map (fun t => some (SM.toIns t)) =
                  [some (Ins.op mb)] ++ (ps.map (fun d => some (Ins.push d)) ++ [some (Ins.op o), some (Ins.op 0xae)]) := by
                rw [← hie]; rfl
              obtain ⟨t0, tr, ht, h0, hr⟩ := map_eq_append_split _ toks _ _ hmap
              obtain ⟨ks, te, htr, hks, hte⟩ := map_eq_append_split _ tr _ _ hr
              -- the first token is OP_m
              obtain ⟨a0, rfl⟩ : ∃ a0, t0 = [a0] := by
                cases t0 with
                | nil => simp at h0
                | cons a l => cases l with
                  | nil => exact ⟨a, rfl⟩
                  | cons b l => simp at h0
              simp only [List.map_cons, List.map_nil, List.cons.injEq, Option.some.injEq, and_true] at h0
              obtain ⟨ha0, hm0⟩ := toIns_op a0 mb h0
              -- the last two tokens are OP_n OP_CHECKMULTISIG
              obtain ⟨e1, e2, rfl⟩ : ∃ e1 e2, te = [e1, e2] := by
                cases te with
                | nil => simp at hte
                | cons a l => cases l with
                  | nil => simp at hte
                  | cons b l => cases l with
                    | nil => exact ⟨a, b, rfl⟩
                    | cons c l => simp at hte
              simp only [List.map_cons, List.map_nil, List.cons.injEq, Option.some.injEq, and_true] at hte
              obtain ⟨he1, _⟩ := toIns_op e1 o hte.1
              obtain ⟨he2, _⟩ := toIns_op e2 0xae hte.2
              -- the keys
              have hkeys : ∀ k ∈ ks, k.WF ∧ IsKey k := by
                intro k hk
                refine ⟨hwf k (by rw [ht, htr]; simp [hk]), ?_⟩
                have : some (SM.toIns k) ∈ ks.map (fun t => some (SM.toIns t)) := List.mem_map_of_mem hk
                rw [hks] at this
                obtain ⟨d, _, hd⟩ := List.mem_map.mp this
                exact toIns_push k d (by simpa using hd.symm)
              have hlen : ks.length = n := by
                have := congrArg List.length hks
                simp at this; omega
              -- the script
              have hscript : s = [mb] ++ ks.flatMap T.Tok.enc ++ [o, 0xae] := by
                rw [hs, ht, htr, ha0, he1, he2]
                simp [List.flatMap_append, T.Tok.enc]
              -- OP_n is a PUSHNUM (the wrapper's byte test) and equals n
              have hob : get s (s.length - 2) = o := by
                rw [hscript]
                simp only [get, List.getD]
                have : ([mb] ++ ks.flatMap T.Tok.enc ++ [o, 0xae]).length - 2 = ([mb] ++ ks.flatMap T.Tok.enc).length := by simp
                rw [this, List.getElem?_append_right (Nat.le_refl _)]
                simp
              rw [hob] at hlo hhi
              have hpo : pushnum o = some (o.toNat - 0x50) := by unfold pushnum; simp [hlo, hhi]
              have hno' : o.toNat - 0x50 = n := by
                rcases ho with ho | ho
                · rw [hpo] at ho; exact Option.some.inj ho
                · rw [hpo] at ho; cases ho
              have hpm : req = mb.toNat - 0x50 ∧ 0x51 ≤ mb.toNat ∧ mb.toNat ≤ 0x60 := by
                unfold pushnum at hp
                split at hp
                · rename_i hc; injection hp with hp; exact ⟨hp.symm, hc.1, hc.2⟩
                · cases hp
              refine ⟨mb.toNat - 0x50, n, ks, by omega, by omega, by omega, hlen, hkeys, ?_⟩
              rw [hscript]
              have e1 : UInt8.ofNat (0x50 + (mb.toNat - 0x50)) = mb := by
                apply UInt8.toNat_inj.mp
                have := mb.toNat_lt
                simp; omega
              have e2 : UInt8.ofNat (0x50 + n) = o := by
                apply UInt8.toNat_inj.mp
                have := o.toNat_lt
                simp; omega
              rw [e1, e2]

def keyData (t : T.Tok) : Bytes := match SM.toIns t with | .push d => d | .op _ => []

theorem toIns_key (t : T.Tok) (h : IsKey t) : SM.toIns t = Ins.push (keyData t) := by
  rcases h with ⟨f, bs, rfl⟩ | rfl
  · rfl
  · simp [keyData, SM.toIns]

/-- **template ⇒ bare multisig**, keys being any well-formed push or OP_0 -/
theorem template_is_bare_multisig (m n : Nat) (ks : List T.Tok) (hm : 1 ≤ m) (hmn : m ≤ n) (hn : n ≤ 16)
    (hk : ks.length = n) (hwf : ∀ k ∈ ks, k.WF ∧ IsKey k) :
    isBareMultisig ([UInt8.ofNat (0x50 + m)] ++ ks.flatMap T.Tok.enc ++ [UInt8.ofNat (0x50 + n), 0xae]) = true := by
  let toks : List T.Tok := [T.Tok.op (UInt8.ofNat (0x50 + m))] ++ ks ++ [T.Tok.op (UInt8.ofNat (0x50 + n)), T.Tok.op 0xae]
  have em : (UInt8.ofNat (0x50 + m)).toNat = 0x50 + m := by simp; omega
  have en : (UInt8.ofNat (0x50 + n)).toNat = 0x50 + n := by simp; omega
  have hs : [UInt8.ofNat (0x50 + m)] ++ ks.flatMap T.Tok.enc ++ [UInt8.ofNat (0x50 + n), 0xae] = toks.flatMap T.Tok.enc := by
    simp [toks, List.flatMap_append, T.Tok.enc]
  have hwft : ∀ t ∈ toks, t.WF := by
    intro t ht
    simp only [toks, List.mem_append, List.mem_cons, List.not_mem_nil, or_false] at ht
    rcases ht with (rfl | hk') | rfl | rfl
    · simp only [T.Tok.WF]; right; omega
    · exact (hwf t hk').1
    · simp only [T.Tok.WF]; right; omega
    · simp only [T.Tok.WF]; right; decide
  have hi := SM.instrs_enc toks hwft
  have nzm : ¬ UInt8.ofNat (0x50 + m) = 0 := by intro e; have := congrArg UInt8.toNat e; rw [em] at this; simp at this
  have nzn : ¬ UInt8.ofNat (0x50 + n) = 0 := by intro e; have := congrArg UInt8.toNat e; rw [en] at this; simp at this
  have nzae : ¬ (0xae : UInt8) = 0 := by decide
  have hkm : ks.map (fun t => some (SM.toIns t)) = (ks.map keyData).map (fun d => some (Ins.push d)) := by
    rw [List.map_map]
    apply List.map_congr_left
    intro k hk'
    simp only [Function.comp, toIns_key k (hwf k hk').2]
  have hi' : instrs (toks.flatMap T.Tok.enc) =
      some (Ins.op (UInt8.ofNat (0x50 + m))) :: ((ks.map keyData).map (fun d => some (Ins.push d)) ++
        [some (Ins.op (UInt8.ofNat (0x50 + n))), some (Ins.op 0xae)]) := by
    rw [hi]
    have t1 : SM.toIns (T.Tok.op (UInt8.ofNat (0x50 + m))) = Ins.op (UInt8.ofNat (0x50 + m)) := by
      show (if UInt8.ofNat (0x50 + m) = 0 then Ins.push [] else Ins.op (UInt8.ofNat (0x50 + m))) = _
      rw [if_neg nzm]
    have t2 : SM.toIns (T.Tok.op (UInt8.ofNat (0x50 + n))) = Ins.op (UInt8.ofNat (0x50 + n)) := by
      show (if UInt8.ofNat (0x50 + n) = 0 then Ins.push [] else Ins.op (UInt8.ofNat (0x50 + n))) = _
      rw [if_neg nzn]
    have t3 : SM.toIns (T.Tok.op 0xae) = Ins.op 0xae := by simp [SM.toIns]
    simp only [toks, List.map_append, List.map_cons, List.map_nil]
    rw [hkm, t1, t2, t3]
    rfl
  rw [hs]
  unfold isBareMultisig
  have hpm : pushnum (UInt8.ofNat (0x50 + m)) = some m := by unfold pushnum; rw [em]; simp; omega
  have hpn : pushnum (UInt8.ofNat (0x50 + n)) = some n := by unfold pushnum; rw [en]; simp; omega
  have hlib : isMultisigLib (toks.flatMap T.Tok.enc) = true := by
    unfold isMultisigLib
    rw [hi']
    simp only [hpm]
    rw [keys_pushes]
    simp only [isMultisigLib.keys, hpn, List.length_map, hk, Nat.zero_add, ne_eq, not_true_eq_false, if_false]
    have : ¬ m > n := by omega
    simp [this]
  have hcount : ((instrs (toks.flatMap T.Tok.enc)).take 20).length ≤ 19 := by
    rw [hi']; simp [hk]; omega
  have hbyte : (get (toks.flatMap T.Tok.enc) ((toks.flatMap T.Tok.enc).length - 2)) = UInt8.ofNat (0x50 + n) := by
    rw [← hs]
    simp only [get, List.getD]
    have : ([UInt8.ofNat (0x50 + m)] ++ ks.flatMap T.Tok.enc ++ [UInt8.ofNat (0x50 + n), 0xae]).length - 2 =
        ([UInt8.ofNat (0x50 + m)] ++ ks.flatMap T.Tok.enc).length := by simp
    rw [this, List.getElem?_append_right (Nat.le_refl _)]
    simp
  simp only [hlib, hbyte, en, Bool.and_true, Bool.and_eq_true, decide_eq_true_eq]
  exact ⟨hcount, by omega, by omega⟩

/-- **bare m-of-n multisig ⇔ template** -/
theorem bare_multisig_iff (s : Bytes) :
    isBareMultisig s = true ↔
      ∃ (m n : Nat) (ks : List T.Tok), 1 ≤ m ∧ m ≤ n ∧ n ≤ 16 ∧ ks.length = n ∧ (∀ k ∈ ks, k.WF ∧ IsKey k) ∧
        s = [UInt8.ofNat (0x50 + m)] ++ ks.flatMap T.Tok.enc ++ [UInt8.ofNat (0x50 + n), 0xae] :=
  ⟨bare_multisig_is_template s, fun ⟨m, n, ks, h1, h2, h3, h4, h5, hs⟩ => by rw [hs]; exact template_is_bare_multisig m n ks h1 h2 h3 h4 h5⟩
end S
