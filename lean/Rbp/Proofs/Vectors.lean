import Rbp.Model.Addr
import Rbp.Model.Hex
/-!
# Published test vectors, checked by the kernel (`decide +kernel`: definitional evaluation, no `native_decide`, no extra axiom)

These are TESTS stated as theorems — finitely many literals, not the unbounded claims of `Rbp.Props`.  Their purpose is to pin the
model's own primitives (SHA-256, RIPEMD-160, Base58Check, Bech32 / Bech32m) to constants published outside this repository, so that
"the model and the code agree" (the correspondence) cannot mean "both are wrong in the same way" for these functions.
-/
namespace Vec
def bytes (s : String) : List UInt8 := (Hex.unhex s).getD []

/-- NIST FIPS 180-4 examples: SHA-256 of "abc", of the empty string, and of the 56-byte two-block message -/
theorem sha256_nist :
    Sha.hex (Sha.sha256 [0x61, 0x62, 0x63]) = "ba7816bf8f01cfea414140de5dae2223b00361a396177a9cb410ff61f20015ad" ∧
    Sha.hex (Sha.sha256 []) = "e3b0c44298fc1c149afbf4c8996fb92427ae41e4649b934ca495991b7852b855" ∧
    Sha.hex (Sha.sha256 "abcdbcdecdefdefgefghfghighijhijkijkljklmklmnlmnomnopnopq".toUTF8.toList) =
      "248d6a61d20638b8e5c026930c3e6039a33ce45964ff2167f6ecedd419db06c1" := by
  refine ⟨?_, ?_, ?_⟩ <;> decide +kernel

/-- RIPEMD-160 reference vectors (Dobbertin, Bosselaers, Preneel): "", "abc", "message digest" -/
theorem ripemd160_reference :
    Sha.hex (A.ripemd160 []) = "9c1185a5c5e9fc54612808977ee8f548b2258d31" ∧
    Sha.hex (A.ripemd160 [0x61, 0x62, 0x63]) = "8eb208f7e05d987a9b044a8e98c6b087f15a0bfc" ∧
    Sha.hex (A.ripemd160 "message digest".toUTF8.toList) = "5d0689ef49d2fae572b881b123a85ffa21595f36" := by
  refine ⟨?_, ?_, ?_⟩ <;> decide +kernel

/-- the Bitcoin genesis block: its 80-byte header hashes to the published block hash, and its coinbase key gives the well-known address -/
theorem bitcoin_genesis :
    Sha.hex (A.sha256d (bytes "0100000000000000000000000000000000000000000000000000000000000000000000003ba3edfd7a7b12b27ac72c3e67768f617fc81bc3888a51323a9fb8aa4b1e5e4a29ab5f49ffff001d1dac2b7c")).reverse =
      "000000000019d6689c085ae165831e934ff763ae46a2a6c172b3f1b60a8ce26f" ∧
    A.base58check (0x00 :: A.hash160 (bytes "04678afdb0fe5548271967f1a67130b7105cd6a828e03909a67962e0ea1f61deb649f6bc3f4cef38c4f35504e51ec112de5c384df7ba0b8d578a4c702b6bf11d5f")) =
      "1A1zP1eP5QGefi2DMPTfTL5SLmv7DivfNa" := by
  refine ⟨?_, ?_⟩ <;> decide +kernel

/-- BIP173 / BIP350 address vectors: P2WPKH and P2WSH (Bech32), a version-1 program (Bech32m), on mainnet and testnet -/
theorem segwit_bip_vectors :
    A.segwitAddr "bc" 0 (bytes "751e76e8199196d454941c45d1b3a323f1433bd6") = "bc1qw508d6qejxtdg4y5r3zarvary0c5xw7kv8f3t4" ∧
    A.segwitAddr "tb" 0 (bytes "1863143c14c5166804bd19203356da136c985678cd4d27a1b8c6329604903262") =
      "tb1qrp33g0q5c5txsp9arysrx4k6zdkfs4nce4xj0gdcccefvpysxf3q0sl5k7" ∧
    A.segwitAddr "bc" 1 (bytes "79be667ef9dcbbac55a06295ce870b07029bfcdb2dce28d959f2815b16f81798") =
      "bc1p0xlxvlhemja6c4dqv22uapctqupfhlxm9h8z3k2e72q4k9hcz7vqzk5jj0" := by
  refine ⟨?_, ?_, ?_⟩ <;> decide +kernel
end Vec
