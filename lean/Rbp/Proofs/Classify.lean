import Rbp.Proofs.Templates
import Rbp.Proofs.ScriptMachineBtc
import Rbp.Proofs.OpReturn
/-!
# The Bitcoin/testnet3 cascade is a set of pairwise exclusive templates (C05)

Each predicate the cascade consults excludes all the others, so the reported type does not depend on the order of the
tests: `pattern = X ↔ template X`.
-/
namespace S
open SMB

theorem head_get (s : Bytes) (b : UInt8) (h : 0 < s.length) : s.head? = some b ↔ get s 0 = b := by
  cases s with
  | nil => simp at h
  | cons x r => simp [get, List.getD]

/-- P2PK predicate ⇔ byte template `<len> <33- or 65-byte key> ac` -/
theorem isP2pk_iff (s k : Bytes) :
    isP2pk s = some k ↔ (k.length = 33 ∨ k.length = 65) ∧ s = UInt8.ofNat k.length :: k ++ [0xac] := by
  constructor
  · intro h
    unfold isP2pk at h
    split at h
    · rename_i hc
      obtain ⟨hl, h0, h66⟩ := hc
      rw [get_eq s _ _ (by omega)] at h0 h66
      injection h with h
      obtain ⟨mid, hm, hs⟩ := decompose s [0x41] [0xac] 65 (by simpa using hl)
        (by apply List.ext_getElem?; intro i; rcases i with _ | i <;> simp_all [List.getElem?_take])
        (by apply List.ext_getElem?; intro i; rcases i with _ | i
            · simpa using h66
            · simp [List.getElem?_drop]; omega)
      have : k = mid := by rw [← h, hs]; simp [hm]
      subst this
      exact ⟨Or.inr hm, by rw [hs, hm]; rfl⟩
    · split at h
      · rename_i hc
        obtain ⟨hl, h0, h34⟩ := hc
        rw [get_eq s _ _ (by omega)] at h0 h34
        injection h with h
        obtain ⟨mid, hm, hs⟩ := decompose s [0x21] [0xac] 33 (by simpa using hl)
          (by apply List.ext_getElem?; intro i; rcases i with _ | i <;> simp_all [List.getElem?_take])
          (by apply List.ext_getElem?; intro i; rcases i with _ | i
              · simpa using h34
              · simp [List.getElem?_drop]; omega)
        have : k = mid := by rw [← h, hs]; simp [hm]
        subst this
        exact ⟨Or.inl hm, by rw [hs, hm]; rfl⟩
      · cases h
  · rintro ⟨hl, rfl⟩
    rcases hl with hl | hl
    · simp [isP2pk, hl, get, List.getD, List.getElem?_append_right, take_append_len k _ 33 hl]
    · simp [isP2pk, hl, get, List.getD, List.getElem?_append_right, take_append_len k _ 65 hl]

/-- what the first byte of a witness program can be -/
theorem witnessVersion_first (s : Bytes) (v : Nat) (h : witnessVersion s = some v) :
    4 ≤ s.length ∧ s.length ≤ 42 ∧ (get s 1).toNat = s.length - 2 ∧
    (((get s 0).toNat = 0 ∧ v = 0) ∨ (0x51 ≤ (get s 0).toNat ∧ (get s 0).toNat ≤ 0x60 ∧ v = (get s 0).toNat - 0x50)) := by
  unfold witnessVersion at h
  split at h
  · rename_i hl
    simp only at h
    split at h
    · cases h
    · split at h
      · cases h
      · rename_i hp hq
        split at h
        · injection h with h; exact ⟨hl.1, hl.2, by omega, Or.inl ⟨by assumption, h.symm⟩⟩
        · split at h
          · injection h with h; rename_i hr; exact ⟨hl.1, hl.2, by omega, Or.inr ⟨hr.1, hr.2, h.symm⟩⟩
          · cases h
  · cases h

/-- witness program predicate ⇔ byte template `<OP_0 | OP_1..OP_16> <len 2..40> <len bytes>` -/
theorem witnessVersion_iff (s : Bytes) (v : Nat) :
    witnessVersion s = some v ↔
      ∃ prog : Bytes, 2 ≤ prog.length ∧ prog.length ≤ 40 ∧ v ≤ 16 ∧
        s = (if v = 0 then 0x00 else UInt8.ofNat (0x50 + v)) :: UInt8.ofNat prog.length :: prog := by
  constructor
  · intro h
    obtain ⟨h4, h42, hp, hv⟩ := witnessVersion_first s v h
    obtain ⟨a, b, prog, rfl⟩ : ∃ a b prog, s = a :: b :: prog := by
      match s, h4 with
      | a :: b :: prog, _ => exact ⟨a, b, prog, rfl⟩
    · simp only [get, List.getD, List.getElem?_cons_zero, List.getElem?_cons_succ, Option.getD_some, List.length_cons] at hp hv h42 h4
      refine ⟨prog, by omega, by omega, ?_, ?_⟩
      · rcases hv with ⟨_, rfl⟩ | ⟨_, _, rfl⟩ <;> omega
      · have hb : b = UInt8.ofNat prog.length := by
          apply UInt8.toNat_inj.mp
          rw [hp]; simp; omega
        rcases hv with ⟨h0, rfl⟩ | ⟨h1, h2, rfl⟩
        · have : a = 0 := UInt8.toNat_inj.mp (by simpa using h0)
          simp [this, hb]
        · have hne : ¬ a.toNat - 0x50 = 0 := by omega
          have : a = UInt8.ofNat (0x50 + (a.toNat - 0x50)) := by
            apply UInt8.toNat_inj.mp
            have := a.toNat_lt
            simp; omega
          simp only [hne, if_false]
          rw [← this, hb]
  · rintro ⟨prog, h2, h40, hv, rfl⟩
    by_cases h0 : v = 0
    · subst h0
      simp [witnessVersion, get, List.getD]
      have : prog.length % 256 = prog.length := by omega
      simp [this]; omega
    · simp only [h0, if_false]
      have e1 : (UInt8.ofNat (0x50 + v)).toNat = 0x50 + v := by simp; omega
      have e2 : (UInt8.ofNat prog.length).toNat = prog.length := by simp; omega
      simp only [witnessVersion, get, List.getD, List.getElem?_cons_zero, List.getElem?_cons_succ, Option.getD_some,
        List.length_cons, e1, e2]
      have c1 : 4 ≤ prog.length + 1 + 1 ∧ prog.length + 1 + 1 ≤ 42 := by omega
      have c2 : ¬ (prog.length < 2 ∨ prog.length > 40) := by omega
      have c3 : ¬ (prog.length + 1 + 1 - 2 ≠ prog.length) := by omega
      have c4 : ¬ (0x50 + v = 0) := by omega
      have c5 : 0x51 ≤ 0x50 + v ∧ 0x50 + v ≤ 0x60 := by omega
      simp only [c1, c2, c3, c4, c5, and_self, if_true, if_false]
      congr 1; omega

theorem classify_pushnum (b : UInt8) (h1 : 0x51 ≤ b.toNat) (h2 : b.toNat ≤ 0x60) : classify b = .pushnum := by
  unfold classify
  simp only
  rw [if_neg (by omega), if_neg (by omega), if_neg (by omega), if_neg (by omega), if_pos (by omega)]

theorem instrs_nil : instrs [] = [] := by rw [instrs]

/-- if the first instruction is a plain opcode, it is the first byte -/
theorem instrs_head_op (b : UInt8) (rest : Bytes) (m : UInt8) (tl : List (Option Ins))
    (h : instrs (b :: rest) = some (.op m) :: tl) : m = b := by
  rw [instrs_cons] at h
  simp only at h
  cases hc : classify b with
  | pushbytes n =>
    simp only [hc] at h
    split at h <;> simp at h
  | illegal | noop | ret | pushnum | ordinary =>
    simp only [hc] at h
    by_cases h1 : b = 0x4c
    · subst h1
      rw [if_pos rfl] at h
      split at h
      · split at h <;> simp at h
      · simp at h
    · by_cases h2 : b = 0x4d
      · subst h2
        rw [if_neg (by decide), if_pos rfl] at h
        split at h
        · split at h <;> simp at h
        · simp at h
      · by_cases h3 : b = 0x4e
        · subst h3
          rw [if_neg (by decide), if_neg (by decide), if_pos rfl] at h
          split at h
          · split at h <;> simp at h
          · simp at h
        · simp only [h1, h2, h3, if_false, List.cons.injEq, Option.some.injEq, Ins.op.injEq] at h
          exact h.1.symm

/-- the first instruction of a script typed multisig by the library is a PUSHNUM opcode, and it is the first byte -/
theorem multisig_first (s : Bytes) (h : isMultisigLib s = true) :
    ∃ m rest, s = m :: rest ∧ 0x51 ≤ m.toNat ∧ m.toNat ≤ 0x60 := by
  unfold isMultisigLib at h
  cases s with
  | nil => rw [instrs_nil] at h; simp at h
  | cons b rest =>
    refine ⟨b, rest, rfl, ?_⟩
    cases hi : instrs (b :: rest) with
    | nil => simp [hi] at h
    | cons x tl =>
      cases x with
      | none => simp [hi] at h
      | some ins =>
        cases ins with
        | push d => simp [hi] at h
        | op m =>
          have hm := instrs_head_op b rest m tl hi
          subst hm
          simp only [hi] at h
          cases hp : pushnum m with
          | none => simp [hp] at h
          | some req =>
            unfold pushnum at hp
            split at hp
            · assumption
            · cases hp

/-- a witness program is never typed multisig: after the version opcode there is exactly one push and nothing else -/
theorem witness_not_multisig (s : Bytes) (v : Nat) (h : witnessVersion s = some v) : isMultisigLib s = false := by
  obtain ⟨prog, h2, h40, hv, rfl⟩ := (witnessVersion_iff s v).mp h
  have e2 : (UInt8.ofNat prog.length).toNat = prog.length := by simp; omega
  have hc2 : classify (UInt8.ofNat prog.length) = .pushbytes prog.length := by
    have := SM.classify_small (UInt8.ofNat prog.length) (by rw [e2]; omega)
    rw [e2] at this; exact this
  by_cases h0 : v = 0
  · subst h0
    unfold isMultisigLib
    rw [instrs_cons]
    have : classify (0x00 : UInt8) = .pushbytes 0 := by decide
    simp [this]
  · simp only [h0, if_false]
    have e1 : (UInt8.ofNat (0x50 + v)).toNat = 0x50 + v := by simp; omega
    have hc1 : classify (UInt8.ofNat (0x50 + v)) = .pushnum := classify_pushnum _ (by omega) (by omega)
    have hne : ¬ UInt8.ofNat (0x50 + v) = 0x4c ∧ ¬ UInt8.ofNat (0x50 + v) = 0x4d ∧ ¬ UInt8.ofNat (0x50 + v) = 0x4e := by
      refine ⟨?_, ?_, ?_⟩ <;> intro e <;> have := congrArg UInt8.toNat e <;> rw [e1] at this <;> simp at this <;> omega
    have hi : instrs (UInt8.ofNat (0x50 + v) :: UInt8.ofNat prog.length :: prog) =
        [some (.op (UInt8.ofNat (0x50 + v))), some (.push prog)] := by
      rw [instrs_cons]
      simp only [hc1, hne.1, hne.2.1, hne.2.2, if_false]
      rw [instrs_cons]
      simp only [hc2, Nat.le_refl, dite_true, List.take_length, List.drop_length, instrs_nil]
    unfold isMultisigLib
    rw [hi]
    have hp : pushnum (UInt8.ofNat (0x50 + v)) = some v := by
      unfold pushnum; rw [e1]; simp; omega
    simp only [hp, isMultisigLib.keys]
    split <;> simp

/-- exclusions: each predicate the cascade consults rules out everything the cascade tests before it -/
theorem p2pk_excl (s k : Bytes) (h : isP2pk s = some k) : s.head? ≠ some 0x6a ∧ unspendableFirst s = false := by
  obtain ⟨hl, rfl⟩ := (isP2pk_iff s k).mp h
  rcases hl with hl | hl <;> simp [hl, unspendableFirst] <;> decide

theorem p2pkh_excl (s : Bytes) (h : isP2pkh s = true) :
    s.head? ≠ some 0x6a ∧ unspendableFirst s = false ∧ isP2pk s = none := by
  obtain ⟨hh, hl, rfl⟩ := (isP2pkh_iff s).mp h
  refine ⟨by simp, by simp [unspendableFirst]; decide, by simp [isP2pk, hl]⟩

theorem p2sh_excl (s : Bytes) (h : isP2sh s = true) :
    s.head? ≠ some 0x6a ∧ unspendableFirst s = false ∧ isP2pk s = none ∧ isP2pkh s = false := by
  obtain ⟨hh, hl, rfl⟩ := (isP2sh_iff s).mp h
  refine ⟨by simp, by simp [unspendableFirst]; decide, by simp [isP2pk, hl], by simp [isP2pkh, hl]⟩

theorem classify_not_unspendable (b : UInt8) (h : b.toNat = 0 ∨ (0x51 ≤ b.toNat ∧ b.toNat ≤ 0x60)) :
    ¬ (classify b = .ret ∨ classify b = .illegal) := by
  rcases h with h | ⟨h1, h2⟩
  · have : b = 0 := UInt8.toNat_inj.mp (by simpa using h)
    subst this; decide
  · rw [classify_pushnum b h1 h2]; simp

theorem witness_excl (s : Bytes) (v : Nat) (h : witnessVersion s = some v) :
    s.head? ≠ some 0x6a ∧ unspendableFirst s = false ∧ isP2pk s = none ∧ isP2pkh s = false ∧ isP2sh s = false := by
  obtain ⟨h4, h42, hp, hv⟩ := witnessVersion_first s v h
  obtain ⟨a, b, prog, rfl⟩ : ∃ a b prog, s = a :: b :: prog := by
    match s, h4 with
    | a :: b :: prog, _ => exact ⟨a, b, prog, rfl⟩
  simp only [get, List.getD, List.getElem?_cons_zero, Option.getD_some] at hv
  have hfirst : a.toNat = 0 ∨ (0x51 ≤ a.toNat ∧ a.toNat ≤ 0x60) := by
    rcases hv with ⟨h0, _⟩ | ⟨h1, h2, _⟩
    · exact Or.inl h0
    · exact Or.inr ⟨h1, h2⟩
  have hu := classify_not_unspendable a hfirst
  refine ⟨?_, ?_, ?_, ?_, ?_⟩
  · simp only [List.head?_cons, ne_eq, Option.some.injEq]
    intro e; subst e; rcases hfirst with h | h <;> simp at h
  · simp only [unspendableFirst]; simpa using hu
  · unfold isP2pk
    simp only [get, List.getD, List.getElem?_cons_zero, Option.getD_some]
    have n1 : ¬ a = 0x41 := by intro e; subst e; rcases hfirst with h | h <;> simp at h
    have n2 : ¬ a = 0x21 := by intro e; subst e; rcases hfirst with h | h <;> simp at h
    simp [n1, n2]
  · unfold isP2pkh
    simp only [get, List.getD, List.getElem?_cons_zero, Option.getD_some]
    have n1 : ¬ a = 0x76 := by intro e; subst e; rcases hfirst with h | h <;> simp at h
    simp [n1]
  · unfold isP2sh
    simp only [get, List.getD, List.getElem?_cons_zero, Option.getD_some]
    have n1 : ¬ a = 0xa9 := by intro e; subst e; rcases hfirst with h | h <;> simp at h
    simp [n1]

theorem multisig_excl (s : Bytes) (h : isBareMultisig s = true) :
    s.head? ≠ some 0x6a ∧ unspendableFirst s = false ∧ isP2pk s = none ∧ isP2pkh s = false ∧ isP2sh s = false ∧
    witnessVersion s = none := by
  have hm : isMultisigLib s = true := by
    unfold isBareMultisig at h
    simp only [Bool.and_eq_true] at h
    exact h.1.2
  obtain ⟨m, rest, rfl, h1, h2⟩ := multisig_first s hm
  have hu := classify_not_unspendable m (Or.inr ⟨h1, h2⟩)
  refine ⟨?_, ?_, ?_, ?_, ?_, ?_⟩
  · simp only [List.head?_cons, ne_eq, Option.some.injEq]; intro e; subst e; simp at h1 h2
  · simp only [unspendableFirst]; simpa using hu
  · unfold isP2pk
    simp only [get, List.getD, List.getElem?_cons_zero, Option.getD_some]
    have n1 : ¬ m = 0x41 := by intro e; subst e; simp at h1 h2
    have n2 : ¬ m = 0x21 := by intro e; subst e; simp at h1 h2
    simp [n1, n2]
  · unfold isP2pkh
    simp only [get, List.getD, List.getElem?_cons_zero, Option.getD_some]
    have n1 : ¬ m = 0x76 := by intro e; subst e; simp at h1 h2
    simp [n1]
  · unfold isP2sh
    simp only [get, List.getD, List.getElem?_cons_zero, Option.getD_some]
    have n1 : ¬ m = 0xa9 := by intro e; subst e; simp at h1 h2
    simp [n1]
  · cases hw : witnessVersion (m :: rest) with
    | none => rfl
    | some v => rw [witness_not_multisig _ v hw] at hm; cases hm

/-- the decision cascade of `eval_from_bytes_bitcoin` on the type alone -/
def opPayload (s : Bytes) : Bytes := match (evalBtc false s).pattern with | .opReturn p => p | _ => []

def cascade (s : Bytes) : Pattern :=
  if s.head? = some 0x6a then .opReturn (opPayload s)
  else if unspendableFirst s then .unspendable
  else match isP2pk s with
    | some _ => .p2pk
    | none =>
      if isP2pkh s then .p2pkh
      else if isP2sh s then .p2sh
      else if s.length = 22 ∧ witnessVersion s = some 0 ∧ get s 1 = 0x14 then .p2wpkh
      else if s.length = 34 ∧ witnessVersion s = some 0 ∧ get s 1 = 0x20 then .p2wsh
      else if s.length = 34 ∧ witnessVersion s = some 1 ∧ get s 1 = 0x20 then .p2tr
      else if (witnessVersion s).isSome then .witnessProgram
      else if isBareMultisig s then .multisig
      else .notRecognised

theorem pattern_eq_cascade (testnet : Bool) (s : Bytes) : (evalBtc testnet s).pattern = cascade s := by
  unfold evalBtc cascade
  by_cases h1 : s.head? = some 0x6a
  · simp only [h1, if_true, opPayload, evalBtc]
  · simp only [h1, if_false]
    by_cases h2 : unspendableFirst s = true
    · simp only [h2, if_true]
    · simp only [h2, Bool.false_eq_true, if_false]
      cases isP2pk s with
      | some k => rfl
      | none =>
        simp only
        by_cases c1 : isP2pkh s = true
        · simp only [c1, if_true]
        · simp only [c1, Bool.false_eq_true, if_false]
          by_cases c2 : isP2sh s = true
          · simp only [c2, if_true]
          · simp only [c2, Bool.false_eq_true, if_false]
            by_cases c3 : s.length = 22 ∧ witnessVersion s = some 0 ∧ get s 1 = 0x14
            · simp only [c3, and_self, if_true]
            · simp only [c3, if_false]
              by_cases c4 : s.length = 34 ∧ witnessVersion s = some 0 ∧ get s 1 = 0x20
              · simp only [c4, and_self, if_true]
              · simp only [c4, if_false]
                by_cases c5 : s.length = 34 ∧ witnessVersion s = some 1 ∧ get s 1 = 0x20
                · simp only [c5, and_self, if_true]
                · simp only [c5, if_false]
                  by_cases c6 : (witnessVersion s).isSome = true
                  · simp only [c6, if_true]
                  · simp only [c6, Bool.false_eq_true, if_false]
                    by_cases c7 : isBareMultisig s = true
                    · simp only [c7, if_true]
                    · simp only [c7, Bool.false_eq_true, if_false]

theorem get1_of_witness (s : Bytes) (v : Nat) (h : witnessVersion s = some v) (b : UInt8) :
    get s 1 = b ↔ s.length = b.toNat + 2 := by
  obtain ⟨h4, _, hp, _⟩ := witnessVersion_first s v h
  constructor
  · intro e; rw [e] at hp; omega
  · intro e; apply UInt8.toNat_inj.mp; omega

/-- the cascade under the facts that single out one branch -/
theorem cascade_p2pk (s k : Bytes) (h : isP2pk s = some k) : cascade s = .p2pk := by
  obtain ⟨a, b⟩ := p2pk_excl s k h
  simp [cascade, a, b, h]

theorem cascade_p2pkh (s : Bytes) (h : isP2pkh s = true) : cascade s = .p2pkh := by
  obtain ⟨a, b, c⟩ := p2pkh_excl s h
  simp [cascade, a, b, c, h]

theorem cascade_p2sh (s : Bytes) (h : isP2sh s = true) : cascade s = .p2sh := by
  obtain ⟨a, b, c, d⟩ := p2sh_excl s h
  simp [cascade, a, b, c, d, h]

theorem cascade_witness (s : Bytes) (v : Nat) (h : witnessVersion s = some v) :
    cascade s = if s.length = 22 ∧ v = 0 then .p2wpkh else if s.length = 34 ∧ v = 0 then .p2wsh
      else if s.length = 34 ∧ v = 1 then .p2tr else .witnessProgram := by
  obtain ⟨a, b, c, d, e⟩ := witness_excl s v h
  have g14 := get1_of_witness s v h 0x14
  have g20 := get1_of_witness s v h 0x20
  simp only [cascade, a, b, c, d, e, h, if_false, Bool.false_eq_true, Option.some.injEq, Option.isSome_some, if_true, g14, g20]
  have e1 : (0x14 : UInt8).toNat + 2 = 22 := by decide
  have e2 : (0x20 : UInt8).toNat + 2 = 34 := by decide
  rw [e1, e2]
  by_cases c1 : s.length = 22
  · by_cases c2 : v = 0 <;> simp [c1, c2]
  · by_cases c3 : s.length = 34
    · by_cases c2 : v = 0
      · simp [c3, c2]
      · by_cases c4 : v = 1 <;> simp [c3, c2, c4]
    · simp [c1, c3]

theorem cascade_multisig (s : Bytes) (h : isBareMultisig s = true) : cascade s = .multisig := by
  obtain ⟨a, b, c, d, e, f⟩ := multisig_excl s h
  simp [cascade, a, b, c, d, e, f, h]

/-- **type ⇔ template, for every byte string**: the reported type is decided by which template the script matches, and
    the templates are pairwise exclusive (so the order of the tests in the code is immaterial) -/
theorem pattern_iff (testnet : Bool) (s : Bytes) :
    ((∃ p, (evalBtc testnet s).pattern = .opReturn p) ↔ s.head? = some 0x6a) ∧
    ((evalBtc testnet s).pattern = .unspendable ↔ (s.head? ≠ some 0x6a ∧ unspendableFirst s = true)) ∧
    ((evalBtc testnet s).pattern = .p2pk ↔ ∃ k, isP2pk s = some k) ∧
    ((evalBtc testnet s).pattern = .p2pkh ↔ isP2pkh s = true) ∧
    ((evalBtc testnet s).pattern = .p2sh ↔ isP2sh s = true) ∧
    ((evalBtc testnet s).pattern = .p2wpkh ↔ (s.length = 22 ∧ witnessVersion s = some 0)) ∧
    ((evalBtc testnet s).pattern = .p2wsh ↔ (s.length = 34 ∧ witnessVersion s = some 0)) ∧
    ((evalBtc testnet s).pattern = .p2tr ↔ (s.length = 34 ∧ witnessVersion s = some 1)) ∧
    ((evalBtc testnet s).pattern = .witnessProgram ↔
      ∃ v, witnessVersion s = some v ∧ ¬ (s.length = 22 ∧ v = 0) ∧ ¬ (s.length = 34 ∧ (v = 0 ∨ v = 1))) ∧
    ((evalBtc testnet s).pattern = .multisig ↔ isBareMultisig s = true) := by
  rw [pattern_eq_cascade]
  -- which branch is taken
  by_cases h1 : s.head? = some 0x6a
  · have hc : cascade s = .opReturn (opPayload s) := by simp [cascade, h1]
    have nk : ∀ k, isP2pk s ≠ some k := fun k hk => (p2pk_excl s k hk).1 h1
    have n1 : ¬ isP2pkh s = true := fun h => (p2pkh_excl s h).1 h1
    have n2 : ¬ isP2sh s = true := fun h => (p2sh_excl s h).1 h1
    have nw : ∀ v, witnessVersion s ≠ some v := fun v h => (witness_excl s v h).1 h1
    have nm : ¬ isBareMultisig s = true := fun h => (multisig_excl s h).1 h1
    rw [hc]
    refine ⟨⟨fun _ => h1, fun _ => ⟨_, rfl⟩⟩, ?_, ?_, ?_, ?_, ?_, ?_, ?_, ?_, ?_⟩
    · simp [h1]
    · simp; exact nk
    · simpa using n1
    · simpa using n2
    · simp; intro _; exact nw 0
    · simp; intro _; exact nw 0
    · simp; intro _; exact nw 1
    · simp; intro v hv; exact absurd hv (nw v)
    · simpa using nm
  · by_cases h2 : unspendableFirst s = true
    · have hc : cascade s = .unspendable := by simp [cascade, h1, h2]
      have nk : ∀ k, isP2pk s ≠ some k := fun k hk => by have := (p2pk_excl s k hk).2; rw [h2] at this; cases this
      have n1 : ¬ isP2pkh s = true := fun h => by have := (p2pkh_excl s h).2.1; rw [h2] at this; cases this
      have n2 : ¬ isP2sh s = true := fun h => by have := (p2sh_excl s h).2.1; rw [h2] at this; cases this
      have nw : ∀ v, witnessVersion s ≠ some v := fun v h => by have := (witness_excl s v h).2.1; rw [h2] at this; cases this
      have nm : ¬ isBareMultisig s = true := fun h => by have := (multisig_excl s h).2.1; rw [h2] at this; cases this
      rw [hc]
      refine ⟨by simp [h1], by simp [h1, h2], ?_, ?_, ?_, ?_, ?_, ?_, ?_, ?_⟩
      · simp; exact nk
      · simpa using n1
      · simpa using n2
      · simp; intro _; exact nw 0
      · simp; intro _; exact nw 0
      · simp; intro _; exact nw 1
      · simp; intro v hv; exact absurd hv (nw v)
      · simpa using nm
    · cases hk : isP2pk s with
      | some k =>
        have n1 : ¬ isP2pkh s = true := fun h => by have := (p2pkh_excl s h).2.2; rw [hk] at this; cases this
        have n2 : ¬ isP2sh s = true := fun h => by have := (p2sh_excl s h).2.2.1; rw [hk] at this; cases this
        have nw : ∀ v, witnessVersion s ≠ some v := fun v h => by have := (witness_excl s v h).2.2.1; rw [hk] at this; cases this
        have nm : ¬ isBareMultisig s = true := fun h => by have := (multisig_excl s h).2.2.1; rw [hk] at this; cases this
        rw [cascade_p2pk s k hk]
        refine ⟨by simp [h1], by simp [h2], by simp, ?_, ?_, ?_, ?_, ?_, ?_, ?_⟩
        · simpa using n1
        · simpa using n2
        · simp; intro _; exact nw 0
        · simp; intro _; exact nw 0
        · simp; intro _; exact nw 1
        · simp; intro v hv; exact absurd hv (nw v)
        · simpa using nm
      | none =>
        by_cases c1 : isP2pkh s = true
        · have n2 : ¬ isP2sh s = true := fun h => by have := (p2sh_excl s h).2.2.2; rw [c1] at this; cases this
          have nw : ∀ v, witnessVersion s ≠ some v := fun v h => by have := (witness_excl s v h).2.2.2.1; rw [c1] at this; cases this
          have nm : ¬ isBareMultisig s = true := fun h => by have := (multisig_excl s h).2.2.2.1; rw [c1] at this; cases this
          rw [cascade_p2pkh s c1]
          refine ⟨by simp [h1], by simp [h2], by simp, by simp [c1], ?_, ?_, ?_, ?_, ?_, ?_⟩
          · simpa using n2
          · simp; intro _; exact nw 0
          · simp; intro _; exact nw 0
          · simp; intro _; exact nw 1
          · simp; intro v hv; exact absurd hv (nw v)
          · simpa using nm
        · by_cases c2 : isP2sh s = true
          · have nw : ∀ v, witnessVersion s ≠ some v := fun v h => by have := (witness_excl s v h).2.2.2.2; rw [c2] at this; cases this
            have nm : ¬ isBareMultisig s = true := fun h => by have := (multisig_excl s h).2.2.2.2.1; rw [c2] at this; cases this
            rw [cascade_p2sh s c2]
            refine ⟨by simp [h1], by simp [h2], by simp, by simp [c1], by simp [c2], ?_, ?_, ?_, ?_, ?_⟩
            · simp; intro _; exact nw 0
            · simp; intro _; exact nw 0
            · simp; intro _; exact nw 1
            · simp; intro v hv; exact absurd hv (nw v)
            · simpa using nm
          · cases hw : witnessVersion s with
            | some v =>
              have nm : ¬ isBareMultisig s = true := fun h => by have := (multisig_excl s h).2.2.2.2.2; rw [hw] at this; cases this
              rw [cascade_witness s v hw]
              have hW : ∀ q : Pattern, q ≠ .p2wpkh → q ≠ .p2wsh → q ≠ .p2tr → q ≠ .witnessProgram →
                  (if s.length = 22 ∧ v = 0 then Pattern.p2wpkh else if s.length = 34 ∧ v = 0 then .p2wsh
                    else if s.length = 34 ∧ v = 1 then .p2tr else .witnessProgram) ≠ q := by
                intro q q1 q2 q3 q4
                split
                · exact fun e => q1 e.symm
                · split
                  · exact fun e => q2 e.symm
                  · split
                    · exact fun e => q3 e.symm
                    · exact fun e => q4 e.symm
              refine ⟨?_, ?_, ?_, ?_, ?_, ?_, ?_, ?_, ?_, ?_⟩
              · simp only [h1, iff_false]; rintro ⟨p, hp⟩
                exact hW (.opReturn p) (by simp) (by simp) (by simp) (by simp) hp
              · constructor
                · intro hp; exact absurd hp (hW _ (by simp) (by simp) (by simp) (by simp))
                · rintro ⟨_, hx⟩; exact absurd hx h2
              · constructor
                · intro hp; exact absurd hp (hW _ (by simp) (by simp) (by simp) (by simp))
                · rintro ⟨k, hx⟩; cases hx
              · constructor
                · intro hp; exact absurd hp (hW _ (by simp) (by simp) (by simp) (by simp))
                · intro hx; exact absurd hx c1
              · constructor
                · intro hp; exact absurd hp (hW _ (by simp) (by simp) (by simp) (by simp))
                · intro hx; exact absurd hx c2
              · by_cases a1 : s.length = 22 <;> by_cases a2 : v = 0 <;> by_cases a3 : s.length = 34 <;> by_cases a4 : v = 1 <;>
                  simp [a1, a2, a3, a4] <;> omega
              · by_cases a1 : s.length = 22 <;> by_cases a2 : v = 0 <;> by_cases a3 : s.length = 34 <;> by_cases a4 : v = 1 <;>
                  simp [a1, a2, a3, a4] <;> omega
              · by_cases a1 : s.length = 22 <;> by_cases a2 : v = 0 <;> by_cases a3 : s.length = 34 <;> by_cases a4 : v = 1 <;>
                  simp [a1, a2, a3, a4] <;> omega
              · by_cases a1 : s.length = 22 <;> by_cases a2 : v = 0 <;> by_cases a3 : s.length = 34 <;> by_cases a4 : v = 1 <;>
                  simp [a1, a2, a3, a4] <;> omega
              · constructor
                · intro hp; exact absurd hp (hW _ (by simp) (by simp) (by simp) (by simp))
                · intro hx; exact absurd hx nm
            | none =>
              by_cases c7 : isBareMultisig s = true
              · rw [cascade_multisig s c7]
                simp [h1, h2, hk, c1, c2, hw, c7]
              · have hc : cascade s = .notRecognised := by simp [cascade, h1, h2, hk, c1, c2, hw, c7]
                rw [hc]
                simp [h1, h2, hk, c1, c2, hw, c7]

/-! ### bare m-of-n multisig: the canonical template is typed multisig -/

theorem keys_pushes (ps : List Bytes) (tail : List (Option Ins)) (a : Nat) :
    isMultisigLib.keys (ps.map (fun d => some (Ins.push d)) ++ tail) a = isMultisigLib.keys tail (a + ps.length) := by
  induction ps generalizing a with
  | nil => simp
  | cons d ps ih =>
    simp only [List.map_cons, List.cons_append, isMultisigLib.keys, List.length_cons]
    rw [ih]; congr 1; omega

/-- `OP_m <key>{n} OP_n OP_CHECKMULTISIG` with 1 ≤ m ≤ n ≤ 16 — every key any well-formed push, of any length and in any
    push form — is typed bare multisig -/
theorem bare_multisig_template (m n : Nat) (keys : List (T.Form × Bytes)) (hm : 1 ≤ m) (hmn : m ≤ n) (hn : n ≤ 16)
    (hk : keys.length = n) (hwf : ∀ p ∈ keys, (T.Tok.push p.1 p.2).WF) :
    isBareMultisig ([UInt8.ofNat (0x50 + m)] ++ keys.flatMap (fun p => (T.Tok.push p.1 p.2).enc) ++
      [UInt8.ofNat (0x50 + n), 0xae]) = true := by
  let toks : List T.Tok := [T.Tok.op (UInt8.ofNat (0x50 + m))] ++ keys.map (fun p => T.Tok.push p.1 p.2) ++
    [T.Tok.op (UInt8.ofNat (0x50 + n)), T.Tok.op 0xae]
  have em : (UInt8.ofNat (0x50 + m)).toNat = 0x50 + m := by simp; omega
  have en : (UInt8.ofNat (0x50 + n)).toNat = 0x50 + n := by simp; omega
  have hs : [UInt8.ofNat (0x50 + m)] ++ keys.flatMap (fun p => (T.Tok.push p.1 p.2).enc) ++ [UInt8.ofNat (0x50 + n), 0xae] =
      toks.flatMap T.Tok.enc := by
    simp [toks, List.flatMap_append, List.flatMap_map, T.Tok.enc]
  have hwft : ∀ t ∈ toks, t.WF := by
    intro t ht
    simp only [toks, List.mem_append, List.mem_cons, List.mem_map, List.not_mem_nil, or_false] at ht
    rcases ht with (rfl | ⟨p, hp, rfl⟩) | rfl | rfl
    · simp only [T.Tok.WF]; right; omega
    · exact hwf p hp
    · simp only [T.Tok.WF]; right; omega
    · simp only [T.Tok.WF]; right; decide
  have hi := SM.instrs_enc toks hwft
  have nzm : ¬ UInt8.ofNat (0x50 + m) = 0 := by intro e; have := congrArg UInt8.toNat e; rw [em] at this; simp at this
  have nzn : ¬ UInt8.ofNat (0x50 + n) = 0 := by intro e; have := congrArg UInt8.toNat e; rw [en] at this; simp at this
  have hi' : instrs (toks.flatMap T.Tok.enc) =
      some (Ins.op (UInt8.ofNat (0x50 + m))) :: ((keys.map (·.2)).map (fun d => some (Ins.push d)) ++
        [some (Ins.op (UInt8.ofNat (0x50 + n))), some (Ins.op 0xae)]) := by
    rw [hi]
    have nzae : ¬ (0xae : UInt8) = 0 := by decide
    simp only [toks, List.map_append, List.map_cons, List.map_nil, List.map_map, SM.toIns, nzm, nzn, nzae, if_false,
      Function.comp_def, List.singleton_append, List.cons_append, List.nil_append]
  rw [hs]
  unfold isBareMultisig
  have hpm : pushnum (UInt8.ofNat (0x50 + m)) = some m := by unfold pushnum; rw [em]; simp; omega
  have hpn : pushnum (UInt8.ofNat (0x50 + n)) = some n := by unfold pushnum; rw [en]; simp; omega
  have hlib : isMultisigLib (toks.flatMap T.Tok.enc) = true := by
    unfold isMultisigLib
    rw [hi']
    simp only [hpm]
    rw [keys_pushes]
    simp only [isMultisigLib.keys, hpn, List.length_map, hk, Nat.zero_add, ne_eq, not_true_eq_false, if_false]
    have : ¬ m > n := by omega
    simp [this]
  have hcount : ((instrs (toks.flatMap T.Tok.enc)).take 20).length ≤ 19 := by
    rw [hi']; simp [hk]; omega
  have hbyte : (get (toks.flatMap T.Tok.enc) ((toks.flatMap T.Tok.enc).length - 2)) = UInt8.ofNat (0x50 + n) := by
    rw [← hs]
    simp only [get, List.getD]
    have : ([UInt8.ofNat (0x50 + m)] ++ keys.flatMap (fun p => (T.Tok.push p.1 p.2).enc) ++ [UInt8.ofNat (0x50 + n), 0xae]).length - 2 =
        ([UInt8.ofNat (0x50 + m)] ++ keys.flatMap (fun p => (T.Tok.push p.1 p.2).enc)).length := by simp
    rw [this, List.getElem?_append_right (Nat.le_refl _)]
    simp
  simp only [hlib, hbyte, en, Bool.and_true, Bool.and_eq_true, decide_eq_true_eq]
  exact ⟨hcount, by omega, by omega⟩

/-- what a script typed bare multisig must look like at its two ends: first byte OP_1..OP_16, last byte OP_CHECKMULTISIG
    preceded by OP_1..OP_16, at most 19 instructions -/
theorem bare_multisig_ends (s : Bytes) (h : isBareMultisig s = true) :
    (∃ m rest, s = m :: rest ∧ 0x51 ≤ m.toNat ∧ m.toNat ≤ 0x60) ∧ 3 ≤ s.length ∧
    0x51 ≤ (get s (s.length - 2)).toNat ∧ (get s (s.length - 2)).toNat ≤ 0x60 ∧ ((instrs s).take 20).length ≤ 19 := by
  unfold isBareMultisig at h
  simp only [Bool.and_eq_true, decide_eq_true_eq] at h
  obtain ⟨⟨h1, h2⟩, h3, h4⟩ := h
  exact ⟨multisig_first s h2, multisig_len s h2, h3, h4, h1⟩
end S
