import Rbp.Model.Script
/-! Byte-template characterisations of the rust-bitcoin predicates as modelled in `S` (C05). -/
namespace S

/-- generic: a list with known prefix bytes, total length, and suffix bytes decomposes -/
theorem decompose (s pre suf : Bytes) (n : Nat)
    (hlen : s.length = pre.length + n + suf.length)
    (hpre : s.take pre.length = pre)
    (hsuf : s.drop (pre.length + n) = suf) :
    ∃ mid, mid.length = n ∧ s = pre ++ mid ++ suf := by
  refine ⟨(s.drop pre.length).take n, ?_, ?_⟩
  · simp [List.length_take, List.length_drop]; omega
  · have h1 : s = s.take pre.length ++ s.drop pre.length := (List.take_append_drop _ _).symm
    have h2 : s.drop pre.length = (s.drop pre.length).take n ++ (s.drop pre.length).drop n :=
      (List.take_append_drop _ _).symm
    have h3 : (s.drop pre.length).drop n = suf := by rw [List.drop_drop]; exact hsuf
    rw [h3] at h2
    rw [hpre] at h1
    rw [h2] at h1
    simpa [List.append_assoc] using h1

theorem get_eq (s : Bytes) (i : Nat) (b : UInt8) (h : i < s.length) : get s i = b ↔ s[i]? = some b := by
  unfold get
  simp [List.getD, List.getElem?_eq_getElem h]

theorem isP2pkh_iff (s : Bytes) :
    isP2pkh s = true ↔ ∃ h : Bytes, h.length = 20 ∧ s = [0x76, 0xa9, 0x14] ++ h ++ [0x88, 0xac] := by
  constructor
  · intro h
    simp only [isP2pkh, decide_eq_true_eq] at h
    obtain ⟨hl, h0, h1, h2, h23, h24⟩ := h
    rw [get_eq s _ _ (by omega)] at h0 h1 h2 h23 h24
    apply decompose s [0x76, 0xa9, 0x14] [0x88, 0xac] 20
    · simpa using hl
    · apply List.ext_getElem? ; intro i
      rcases i with _ | _ | _ | i <;> simp_all [List.getElem?_take]
    · apply List.ext_getElem? ; intro i
      rcases i with _ | _ | i
      · simpa using h23
      · simpa using h24
      · simp [List.getElem?_drop]
        omega
  · rintro ⟨h, hl, rfl⟩
    simp [isP2pkh, get, hl, List.getD, List.getElem?_append_left, List.getElem?_append_right]

theorem isP2sh_iff (s : Bytes) :
    isP2sh s = true ↔ ∃ h : Bytes, h.length = 20 ∧ s = [0xa9, 0x14] ++ h ++ [0x87] := by
  constructor
  · intro h
    simp only [isP2sh, decide_eq_true_eq] at h
    obtain ⟨hl, h0, h1, h22⟩ := h
    rw [get_eq s _ _ (by omega)] at h0 h1 h22
    apply decompose s [0xa9, 0x14] [0x87] 20
    · simpa using hl
    · apply List.ext_getElem? ; intro i
      rcases i with _ | _ | i <;> simp_all [List.getElem?_take]
    · apply List.ext_getElem? ; intro i
      rcases i with _ | i
      · simpa using h22
      · simp [List.getElem?_drop]
        omega
  · rintro ⟨h, hl, rfl⟩
    simp [isP2sh, get, hl, List.getD, List.getElem?_append_left, List.getElem?_append_right]

def pkPrefix (testnet : Bool) : UInt8 := if testnet then 0x6f else 0x00
def shPrefix (testnet : Bool) : UInt8 := if testnet then 0xc4 else 0x05
def hrp (testnet : Bool) : String := if testnet then "tb" else "bc"

theorem take_append_len (h rest : Bytes) (n : Nat) (hl : h.length = n) : (h ++ rest).take n = h := by
  rw [← hl]; simp

theorem eval_p2pkh (testnet : Bool) (h : Bytes) (hl : h.length = 20) :
    evalBtc testnet ([0x76, 0xa9, 0x14] ++ h ++ [0x88, 0xac]) = ⟨.p2pkh, some (A.base58check (pkPrefix testnet :: h))⟩ := by
  have hp : isP2pkh ([0x76, 0xa9, 0x14] ++ h ++ [0x88, 0xac]) = true := (isP2pkh_iff _).mpr ⟨h, hl, rfl⟩
  have hk : isP2pk ([0x76, 0xa9, 0x14] ++ h ++ [0x88, 0xac]) = none := by simp [isP2pk, hl]
  have hu : unspendableFirst ([0x76, 0xa9, 0x14] ++ h ++ [0x88, 0xac]) = false := by
    simp [unspendableFirst]; decide
  unfold evalBtc
  simp only [hp, hk, hu]
  cases testnet <;> simp [pkPrefix, take_append_len h _ 20 hl]

theorem eval_p2sh (testnet : Bool) (h : Bytes) (hl : h.length = 20) :
    evalBtc testnet ([0xa9, 0x14] ++ h ++ [0x87]) = ⟨.p2sh, some (A.base58check (shPrefix testnet :: h))⟩ := by
  have hp : isP2sh ([0xa9, 0x14] ++ h ++ [0x87]) = true := (isP2sh_iff _).mpr ⟨h, hl, rfl⟩
  have hq : isP2pkh ([0xa9, 0x14] ++ h ++ [0x87]) = false := by simp [isP2pkh, hl]
  have hk : isP2pk ([0xa9, 0x14] ++ h ++ [0x87]) = none := by simp [isP2pk, hl]
  have hu : unspendableFirst ([0xa9, 0x14] ++ h ++ [0x87]) = false := by
    simp [unspendableFirst]; decide
  unfold evalBtc
  simp only [hp, hq, hk, hu]
  cases testnet <;> simp [shPrefix, take_append_len h _ 20 hl]

theorem eval_p2pk (testnet : Bool) (k : Bytes) (hl : k.length = 33 ∨ k.length = 65) :
    evalBtc testnet (UInt8.ofNat k.length :: k ++ [0xac]) = ⟨.p2pk, some (A.base58check (pkPrefix testnet :: A.hash160 k))⟩ := by
  rcases hl with hl | hl
  · have hk : isP2pk (UInt8.ofNat k.length :: k ++ [0xac]) = some k := by
      simp [isP2pk, hl, get, List.getD, List.getElem?_append_right, take_append_len k _ 33 hl]
    have hu : unspendableFirst (UInt8.ofNat k.length :: k ++ [0xac]) = false := by
      simp [unspendableFirst, hl]; decide
    unfold evalBtc
    simp only [hk, hu]
    cases testnet <;> simp [pkPrefix, hl]
  · have hk : isP2pk (UInt8.ofNat k.length :: k ++ [0xac]) = some k := by
      simp [isP2pk, hl, get, List.getD, List.getElem?_append_right, take_append_len k _ 65 hl]
    have hu : unspendableFirst (UInt8.ofNat k.length :: k ++ [0xac]) = false := by
      simp [unspendableFirst, hl]; decide
    unfold evalBtc
    simp only [hk, hu]
    cases testnet <;> simp [pkPrefix, hl]

theorem eval_p2wpkh (testnet : Bool) (h : Bytes) (hl : h.length = 20) :
    evalBtc testnet ([0x00, 0x14] ++ h) = ⟨.p2wpkh, some (A.segwitAddr (hrp testnet) 0 h)⟩ := by
  have hw : witnessVersion ([0x00, 0x14] ++ h) = some 0 := by simp [witnessVersion, get, List.getD, hl]
  have hk : isP2pk ([0x00, 0x14] ++ h) = none := by simp [isP2pk, hl]
  have h1 : isP2pkh ([0x00, 0x14] ++ h) = false := by simp [isP2pkh, hl]
  have h2 : isP2sh ([0x00, 0x14] ++ h) = false := by simp [isP2sh, hl]
  have hu : unspendableFirst ([0x00, 0x14] ++ h) = false := by simp [unspendableFirst]; decide
  unfold evalBtc
  simp only [hw, hk, h1, h2, hu]
  cases testnet <;> simp [hrp, hl, get, List.getD]

theorem eval_p2wsh (testnet : Bool) (h : Bytes) (hl : h.length = 32) :
    evalBtc testnet ([0x00, 0x20] ++ h) = ⟨.p2wsh, some (A.segwitAddr (hrp testnet) 0 h)⟩ := by
  have hw : witnessVersion ([0x00, 0x20] ++ h) = some 0 := by simp [witnessVersion, get, List.getD, hl]
  have hk : isP2pk ([0x00, 0x20] ++ h) = none := by simp [isP2pk, hl]
  have h1 : isP2pkh ([0x00, 0x20] ++ h) = false := by simp [isP2pkh, hl]
  have h2 : isP2sh ([0x00, 0x20] ++ h) = false := by simp [isP2sh, hl]
  have hu : unspendableFirst ([0x00, 0x20] ++ h) = false := by simp [unspendableFirst]; decide
  unfold evalBtc
  simp only [hw, hk, h1, h2, hu]
  cases testnet <;> simp [hrp, hl, get, List.getD]

theorem eval_p2tr (testnet : Bool) (h : Bytes) (hl : h.length = 32) :
    evalBtc testnet ([0x51, 0x20] ++ h) = ⟨.p2tr, some (A.segwitAddr (hrp testnet) 1 h)⟩ := by
  have hw : witnessVersion ([0x51, 0x20] ++ h) = some 1 := by simp [witnessVersion, get, List.getD, hl]
  have hk : isP2pk ([0x51, 0x20] ++ h) = none := by simp [isP2pk, hl]
  have h1 : isP2pkh ([0x51, 0x20] ++ h) = false := by simp [isP2pkh, hl]
  have h2 : isP2sh ([0x51, 0x20] ++ h) = false := by simp [isP2sh, hl]
  have hu : unspendableFirst ([0x51, 0x20] ++ h) = false := by simp [unspendableFirst]; decide
  unfold evalBtc
  simp only [hw, hk, h1, h2, hu]
  cases testnet <;> simp [hrp, hl, get, List.getD]

/-- every script whose first byte is OP_RETURN is typed OpReturn with no address; every script whose first opcode is of
    class Return/Illegal is Unspendable with no address -/
theorem eval_opreturn_no_address (testnet : Bool) (rest : Bytes) :
    (evalBtc testnet (0x6a :: rest)).address = none ∧ ∃ p, (evalBtc testnet (0x6a :: rest)).pattern = .opReturn p := by
  unfold evalBtc
  simp

theorem eval_unspendable (testnet : Bool) (b : UInt8) (rest : Bytes) (hb : b ≠ 0x6a)
    (hc : classify b = .ret ∨ classify b = .illegal) :
    evalBtc testnet (b :: rest) = ⟨.unspendable, none⟩ := by
  unfold evalBtc
  have : unspendableFirst (b :: rest) = true := by simp [unspendableFirst, hc]
  simp [hb, this]
end S
