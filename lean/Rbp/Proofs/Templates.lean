namespace C
abbrev Bytes := List UInt8

def isP2pkh (s : Bytes) : Bool :=
  s.length == 25 && s[0]? == some 0x76 && s[1]? == some 0xa9 && s[2]? == some 0x14 &&
  s[23]? == some 0x88 && s[24]? == some 0xac

def isP2sh (s : Bytes) : Bool :=
  s.length == 23 && s[0]? == some 0xa9 && s[1]? == some 0x14 && s[22]? == some 0x87

/-- generic: a list with known prefix bytes, total length, and suffix bytes decomposes -/
theorem decompose (s pre suf : Bytes) (n : Nat)
    (hlen : s.length = pre.length + n + suf.length)
    (hpre : s.take pre.length = pre)
    (hsuf : s.drop (pre.length + n) = suf) :
    ∃ mid, mid.length = n ∧ s = pre ++ mid ++ suf := by
  refine ⟨(s.drop pre.length).take n, ?_, ?_⟩
  · simp [List.length_take, List.length_drop]; omega
  · have h1 : s = s.take pre.length ++ s.drop pre.length := (List.take_append_drop _ _).symm
    have h2 : s.drop pre.length = (s.drop pre.length).take n ++ (s.drop pre.length).drop n :=
      (List.take_append_drop _ _).symm
    have h3 : (s.drop pre.length).drop n = suf := by rw [List.drop_drop]; exact hsuf
    rw [h3] at h2
    rw [hpre] at h1
    rw [h2] at h1
    simpa [List.append_assoc] using h1

theorem isP2pkh_iff (s : Bytes) :
    isP2pkh s = true ↔ ∃ h : Bytes, h.length = 20 ∧ s = [0x76, 0xa9, 0x14] ++ h ++ [0x88, 0xac] := by
  constructor
  · intro h
    simp only [isP2pkh, Bool.and_eq_true, beq_iff_eq] at h
    obtain ⟨⟨⟨⟨⟨hl, h0⟩, h1⟩, h2⟩, h23⟩, h24⟩ := h
    apply decompose s [0x76, 0xa9, 0x14] [0x88, 0xac] 20
    · simpa using hl
    · apply List.ext_getElem? ; intro i
      rcases i with _ | _ | _ | i <;> simp_all [List.getElem?_take]
    · apply List.ext_getElem? ; intro i
      rcases i with _ | _ | i
      · simpa using h23
      · simpa using h24
      · simp [List.getElem?_drop]
        omega
  · rintro ⟨h, hl, rfl⟩
    simp [isP2pkh, hl, List.getElem?_append_left, List.getElem?_append_right]

end C
