import Rbp.Model.Addr
import Rbp.Proofs.Base58
/-!
# Base58Check: every address the model prints decodes to its payload, with a valid checksum (C05, C06)

`A.base58` / `A.base58check` are the executed encoders.  The reference decoder below is the textbook one: map characters
to digit values, convert base 58 → base 256 keeping leading zeros, split off the last four bytes and compare them with the
double-SHA256 of the rest.
-/
namespace A

def b58val (c : Char) : Option Nat := b58chars.toList.findIdx? (· == c)

/-- reference Base58 decoder -/
def base58Decode (s : String) : Option Bytes :=
  (s.toList.mapM b58val).map fun ds => (B58.decode ds).map UInt8.ofNat

/-- reference Base58Check decoder: payload iff the trailing four bytes are the checksum of the rest -/
def base58checkDecode (s : String) : Option Bytes :=
  (base58Decode s).bind fun bs =>
    if bs.length < 4 then none
    else if (sha256d (bs.take (bs.length - 4))).take 4 = bs.drop (bs.length - 4) then some (bs.take (bs.length - 4)) else none

theorem b58val_char : ∀ d : Fin 58, b58val (b58chars[d.val]!) = some d.val := by
  simp only [b58val]
  decide

theorem digits58_eq : ∀ (n : Nat) (acc : List Nat), digits58 n acc = B58.toBE 58 (by omega) n ++ acc := by
  intro n
  induction n using Nat.strongRecOn with
  | _ n ih =>
    intro acc
    rw [digits58]
    by_cases h : n = 0
    · subst h; simp [B58.toBE, B58.digitsLE]
    · simp only [h, dite_false]
      rw [ih (n / 58) (Nat.div_lt_self (by omega) (by omega))]
      have : B58.toBE 58 (by omega) n = B58.toBE 58 (by omega) (n / 58) ++ [n % 58] := by
        simp only [B58.toBE]
        rw [B58.digitsLE]
        simp [h]
      rw [this]; simp

theorem ofLE_snoc (l : List Nat) (x : Nat) : B58.ofLE 256 (l ++ [x]) = B58.ofLE 256 l + 256 ^ l.length * x := by
  induction l with
  | nil => simp [B58.ofLE]
  | cons y l ih =>
    simp only [List.cons_append, B58.ofLE, ih, List.length_cons, Nat.pow_succ, Nat.mul_add]
    rw [Nat.mul_comm (256 ^ l.length) 256, Nat.mul_assoc]
    omega

theorem toNatBE_eq (bs : Bytes) : toNatBE bs = B58.ofBE 256 (bs.map (·.toNat)) := by
  have gen : ∀ (bs : Bytes) (a : Nat), bs.foldl (fun acc b => acc * 256 + b.toNat) a =
      a * 256 ^ bs.length + B58.ofLE 256 (bs.map (·.toNat)).reverse := by
    intro bs
    induction bs with
    | nil => intro a; simp [B58.ofLE]
    | cons b bs ih =>
      intro a
      simp only [List.foldl_cons, List.map_cons, List.reverse_cons, List.length_cons]
      rw [ih, ofLE_snoc]
      simp only [List.length_reverse, List.length_map, Nat.pow_succ, Nat.add_mul]
      rw [Nat.mul_assoc a, Nat.mul_comm 256 (256 ^ bs.length), Nat.mul_comm b.toNat]
      omega
  unfold toNatBE B58.ofBE
  rw [gen]; simp

theorem leadZeros_eq (bs : Bytes) : (bs.takeWhile (· == 0)).length = B58.leadZeros (bs.map (·.toNat)) := by
  induction bs with
  | nil => simp [B58.leadZeros]
  | cons b bs ih =>
    by_cases hb : b = 0
    · subst hb; simp [List.takeWhile_cons, B58.leadZeros, ih]
    · have h1 : (b == 0) = false := by simpa using hb
      have h2 : b.toNat ≠ 0 := fun e => hb (UInt8.toNat_inj.mp (by simpa using e))
      simp only [List.takeWhile_cons, h1, List.map_cons]
      cases hn : b.toNat with
      | zero => exact absurd hn h2
      | succ k => simp [B58.leadZeros]

theorem ofBE_strip (l : List Nat) : B58.ofBE 256 (B58.stripZeros l) = B58.ofBE 256 l := by
  induction l with
  | nil => rfl
  | cons a l ih =>
    cases a with
    | zero =>
      simp only [B58.stripZeros, ih]
      simp only [B58.ofBE, List.reverse_cons, ofLE_snoc]
      simp
    | succ a => simp [B58.stripZeros]

/-- the executed encoder is the digit-level encoder followed by the character table -/
theorem base58_toList (bs : Bytes) :
    (base58 bs).toList = (B58.encode (bs.map (·.toNat))).map (fun d => b58chars[d]!) := by
  unfold base58 B58.encode
  simp only [String.toList_ofList, List.map_append, List.map_replicate]
  rw [leadZeros_eq, digits58_eq, List.append_nil, toNatBE_eq, ofBE_strip]
  rfl

theorem encode_lt (l : List Nat) : ∀ d ∈ B58.encode l, d < 58 := by
  intro d hd
  unfold B58.encode at hd
  rcases List.mem_append.mp hd with h | h
  · have := List.eq_of_mem_replicate h; omega
  · exact (B58.toBE_canon 58 (by omega) _).1 d h

theorem mapM_b58val (ds : List Nat) (h : ∀ d ∈ ds, d < 58) : (ds.map (fun d => b58chars[d]!)).mapM b58val = some ds := by
  induction ds with
  | nil => rfl
  | cons d ds ih =>
    have hd := h d (by simp)
    have := b58val_char ⟨d, hd⟩
    simp only at this
    simp only [List.map_cons, List.mapM_cons, this, ih (fun x hx => h x (by simp [hx]))]
    rfl

/-- **Base58 round trip on the executed encoder**: decoding what `A.base58` prints gives the bytes back, leading zeros included -/
theorem base58Decode_base58 (bs : Bytes) : base58Decode (base58 bs) = some bs := by
  unfold base58Decode
  rw [base58_toList, mapM_b58val _ (encode_lt _)]
  simp only [Option.map_some]
  rw [B58.decode_encode _ (by intro d hd; obtain ⟨b, _, rfl⟩ := List.mem_map.mp hd; exact b.toNat_lt)]
  simp [List.map_map, Function.comp_def]

theorem sha256_length (b : Bytes) : (Sha.sha256 b).length = 32 := by
  simp [Sha.sha256, Sha.out32]

/-- **Base58Check**: what `A.base58check p` prints decodes — with a valid checksum — to exactly `p`; in particular the
    version / network prefix byte and the embedded hash are recovered -/
theorem base58checkDecode_base58check (p : Bytes) : base58checkDecode (base58check p) = some p := by
  unfold base58checkDecode base58check
  rw [base58Decode_base58]
  have h4 : ((sha256d p).take 4).length = 4 := by simp [sha256d, sha256_length]
  simp only [Option.bind_some, List.length_append, h4]
  have e1 : p.length + 4 - 4 = p.length := by omega
  have hn : ¬ p.length + 4 < 4 := by omega
  simp only [hn, if_false, e1, List.take_left', List.drop_left', if_true]
end A
