import Rbp.Model.Balances
open Std
namespace B

def total (l : List (Addr × Nat)) : Nat := (l.map (·.2)).sum

theorem filter_absent (k : Addr) (l : List (Addr × Nat)) (h : ∀ p ∈ l, p.1 ≠ k) :
    l.filter (fun p => !(k == p.1)) = l := by
  apply List.filter_eq_self.mpr
  intro p hp
  have := h p hp
  simp only [Bool.not_eq_eq_eq_not, Bool.not_true, beq_eq_false_iff_ne, ne_eq]
  exact fun e => this e.symm

theorem total_split_mem (k : Addr) (v : Nat) : ∀ (l : List (Addr × Nat)),
    l.Pairwise (fun a b => (a.1 == b.1) = false) → (k, v) ∈ l →
    total l = v + total (l.filter (fun p => !(k == p.1)))
  | [], _, h => by cases h
  | x :: xs, hp, hm => by
    have hp' := List.pairwise_cons.mp hp
    rcases List.mem_cons.mp hm with e | hm'
    · subst e
      have hf : xs.filter (fun p => !(k == p.1)) = xs :=
        filter_absent k xs (fun p hp1 e => by have := hp'.1 p hp1; simp [e] at this)
      rw [List.filter_cons_of_neg (by simp), hf]
      simp [total]
    · have hne : (k == x.1) = false := by
        have := hp'.1 (k, v) hm'
        simp only [beq_eq_false_iff_ne, ne_eq] at this ⊢
        exact fun e => this e.symm
      have ih := total_split_mem k v xs hp'.2 hm'
      rw [List.filter_cons_of_pos (by simp [hne])]
      simp only [total, List.map_cons, List.sum_cons] at ih ⊢
      omega

theorem total_step (m : HashMap Addr Nat) (p : Addr × Nat) : total (stepBal m p).toList = total m.toList + p.2 := by
  unfold stepBal
  have hperm := HashMap.toList_insert_perm (m := m) (k := p.1) (v := m.getD p.1 0 + p.2)
  have h1 : total (m.insert p.1 (m.getD p.1 0 + p.2)).toList =
      (m.getD p.1 0 + p.2) + total (m.toList.filter (fun q => !(p.1 == q.1))) := by
    unfold total
    have := (hperm.map (fun q : Addr × Nat => q.2)).sum_nat
    simp only [List.map_cons, List.sum_cons] at this
    rw [this]
    congr 3
    apply List.filter_congr
    intro x _
    by_cases e : p.1 = x.1 <;> simp [e]
  rw [h1]
  cases hg : m[p.1]? with
  | none =>
    have habs : ∀ q ∈ m.toList, q.1 ≠ p.1 := by
      intro q hq e
      have := HashMap.mem_toList_iff_getElem?_eq_some.mp (show (q.1, q.2) ∈ m.toList from hq)
      rw [e, hg] at this; cases this
    rw [filter_absent p.1 _ habs]
    have : m.getD p.1 0 = 0 := by simp [HashMap.getD_eq_getD_getElem?, hg]
    rw [this]; omega
  | some v =>
    have hm : (p.1, v) ∈ m.toList := HashMap.mem_toList_iff_getElem?_eq_some.mpr hg
    have := total_split_mem p.1 v m.toList HashMap.distinct_keys_toList hm
    have hd : m.getD p.1 0 = v := by simp [HashMap.getD_eq_getD_getElem?, hg]
    rw [this, hd]; omega

/-- conservation: aggregation neither creates nor loses value -/
theorem total_bal (l : List (Addr × Nat)) : ∀ (m : HashMap Addr Nat), total (bal m l).toList = total m.toList + total l := by
  induction l with
  | nil => intro m; simp [bal, total]
  | cons p l ih =>
    intro m
    simp only [bal, List.foldl_cons] at ih ⊢
    rw [ih, total_step]
    simp only [total, List.map_cons, List.sum_cons]; omega

theorem total_bal_empty (l : List (Addr × Nat)) : total (bal ∅ l).toList = total l := by
  rw [total_bal]; simp [total]
end B
