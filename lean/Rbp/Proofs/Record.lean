import Rbp.Model.Run
import Rbp.Proofs.Block
namespace Run
open Wk

/-- an index record as Bitcoin Core writes it -/
structure IndexRec where
  client : Nat
  height : Nat
  status : Nat
  ntx : Nat
  file : Nat
  dataPos : Nat
  undoPos : Nat
  headVersion : W.Bytes      -- 4 bytes
  prev : W.Bytes             -- 32 bytes
  headRest : W.Bytes         -- 44 bytes: merkle root, time, bits, nonce

def IndexRec.ok (r : IndexRec) : Prop :=
  r.client < 2^64 ∧ r.height < 2^64 ∧ r.status < 2^64 ∧ r.ntx < 2^64 ∧ r.file < 2^64 ∧ r.dataPos < 2^64 ∧ r.undoPos < 2^64 ∧
  r.headVersion.length = 4 ∧ r.prev.length = 32 ∧ r.headRest.length = 44

/-- `CDiskBlockIndex` serialisation: nFile iff HAVE_DATA|HAVE_UNDO, nDataPos iff HAVE_DATA, nUndoPos iff HAVE_UNDO, header -/
def IndexRec.enc (r : IndexRec) : W.Bytes :=
  VI.enc r.client ++ VI.enc r.height ++ VI.enc r.status ++ VI.enc r.ntx ++
  (if r.status &&& 24 > 0 then VI.enc r.file else []) ++
  (if r.status &&& 8 > 0 then VI.enc r.dataPos else []) ++
  (if r.status &&& 16 > 0 then VI.enc r.undoPos else []) ++
  r.headVersion ++ r.prev ++ r.headRest

theorem varint_enc (n : Nat) (t : W.Bytes) (hn : n < 2^64) : varint (VI.enc n ++ t) = .ok (n, t) := by
  unfold varint
  rw [VI.dec_enc n t (by omega)]

theorem record_roundtrip (hash : W.Bytes) (hh : hash.length = 32) (r : IndexRec) (hk : r.ok) :
    decodeRecFull (0x62 :: hash) r.enc =
      .ok ⟨r.client, r.ntx, ⟨hash, r.prev, r.height, r.status,
        if r.status &&& 24 > 0 then r.file else 0, if r.status &&& 8 > 0 then r.dataPos else 0⟩⟩ := by
  obtain ⟨h1, h2, h3, h4, h5, h6, h7, hv, hp, hr⟩ := hk
  unfold decodeRecFull IndexRec.enc
  have hkey : ¬ (0x62 :: hash).length ≠ 33 := by simp [hh]
  simp only [hkey, if_false, List.append_assoc]
  rw [varint_enc _ _ h1]; simp only
  rw [varint_enc _ _ h2]; simp only
  rw [varint_enc _ _ h3]; simp only
  rw [varint_enc _ _ h4]; simp only
  by_cases c1 : r.status &&& 24 > 0
  · simp only [c1, if_true]
    rw [varint_enc _ _ h5]; simp only
    by_cases c2 : r.status &&& 8 > 0
    · simp only [c2, if_true]
      rw [varint_enc _ _ h6]; simp only
      by_cases c3 : r.status &&& 16 > 0
      · simp only [c3, if_true]
        rw [varint_enc _ _ h7]; simp only
        simp [hv, hp, hr]
      · simp only [c3, if_false, List.nil_append]
        simp [hv, hp, hr]
    · simp only [c2, if_false, List.nil_append]
      by_cases c3 : r.status &&& 16 > 0
      · simp only [c3, if_true]
        rw [varint_enc _ _ h7]; simp only
        simp [hv, hp, hr]
      · simp only [c3, if_false, List.nil_append]
        simp [hv, hp, hr]
  · have z : r.status &&& 24 = 0 := by omega
    have e8 : r.status &&& 8 = 0 := by
      have : r.status &&& 8 = (r.status &&& 24) &&& 8 := by rw [Nat.and_assoc]; rfl
      rw [this, z]; simp
    have e16 : r.status &&& 16 = 0 := by
      have : r.status &&& 16 = (r.status &&& 24) &&& 16 := by rw [Nat.and_assoc]; rfl
      rw [this, z]; simp
    simp only [c1, e8, e16, if_false, Nat.lt_irrefl, List.nil_append, gt_iff_lt]
    simp [hv, hp, hr]

/-- the block found at the named offset is the block delivered, whatever follows it in the file -/
theorem parseAt_block (coin : Coin) (size : Nat) (hs : size < 256 ^ 4) (b : W.Block) (hb : b.ok coin.auxpow) (rest : W.Bytes) :
    parseAt coin (W.toLE 4 size ++ b.enc ++ rest) = .ok (size, b.toR) := by
  unfold parseAt
  rw [List.append_assoc, W.readLE_toLE 4 size _ hs]
  simp only
  rw [W.readBlockCoin_enc coin.auxpow b hb rest]

/-- position-independence: the bytes handed to the parser for an offset depend only on the file content from `offset - 4`
    on — nothing before it (other blocks, garbage, holes) matters -/
theorem readAt_depends_on_suffix (coin : Coin) (key : Option W.Bytes) (f g : BlkFile) (off : Nat)
    (h : bytesFrom f (off - 4) = bytesFrom g (off - 4)) : readAt coin key f off = readAt coin key g off := by
  unfold readAt
  rw [h]

/-- de-obfuscation followed by parsing: an obfuscated copy yields the same block as the plaintext -/
theorem parseAt_xor (coin : Coin) (k : W.Bytes) (p : Nat) (plain : W.Bytes) :
    parseAt coin (unxor (some k) p (X.xorAt k p plain)) = parseAt coin plain := by
  simp only [unxor]
  rw [X.xor_invol]
end Run
