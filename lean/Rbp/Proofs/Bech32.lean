import Rbp.Model.Bech32
namespace Bech

theorem ite_xor (p q : Bool) (g : W) :
    (if (p ^^ q) then g else 0) = (if p then g else 0) ^^^ (if q then g else 0) := by
  cases p <;> cases q <;> simp

theorem mix_xor (a b : W) : mix (a ^^^ b) = mix a ^^^ mix b := by
  simp only [mix, BitVec.getLsbD_xor, ite_xor]
  ac_rfl

theorem and_xor_right (a b m : W) : (a ^^^ b) &&& m = (a &&& m) ^^^ (b &&& m) := by
  ext i hi
  simp only [BitVec.getElem_and, BitVec.getElem_xor]
  cases a[i] <;> cases b[i] <;> cases m[i] <;> rfl

theorem T_xor (a b : W) : T (a ^^^ b) = T a ^^^ T b := by
  simp only [T, BitVec.ushiftRight_xor_distrib, mix_xor, and_xor_right, BitVec.shiftLeft_xor_distrib]
  ac_rfl

theorem T_zero : T 0 = 0 := by decide

theorem step_lin (c d v w : W) : step (c ^^^ d) (v ^^^ w) = step c v ^^^ step d w := by
  simp only [step, T_xor]; ac_rfl

/-- small values are just shifted: no feedback while the value stays below bit 25 -/
theorem T_small (v : W) (h : v.toNat < 2^25) : T v = v <<< 5 := by
  have h1 : v >>> 25 = 0 := by
    apply BitVec.eq_of_toNat_eq
    simp [BitVec.toNat_ushiftRight, Nat.shiftRight_eq_div_pow]
    omega
  have h2 : v &&& 0x1ffffff#30 = v := by
    apply BitVec.eq_of_toNat_eq
    simp only [BitVec.toNat_and, BitVec.toNat_ofNat]
    have : (33554431 % 2^30) = 2^25 - 1 := by decide
    rw [this, Nat.and_two_pow_sub_one_eq_mod, Nat.mod_eq_of_lt h]
  rw [T, h1, h2]
  have : mix 0 = 0 := by decide
  rw [this]; simp
end Bech
