import Rbp.Proofs.OpenFiles
/-!
# C17 on the executed model: which files can be open, and the constant bound for disjoint spans
-/
namespace Run
open Wk CB

/-- the file has been touched by the run: it stores a block of a height ≤ `next` -/
def Touched (full : List (Nat × Rec)) (next : Nat) (f : Nat) : Prop :=
  ∃ h r, h ≤ next ∧ (h, r) ∈ full ∧ r.file = f

theorem driveLoop_len (coin : Coin) (o : Opts) (key : Option W.Bytes) (files : List (Nat × BlkFile))
    (full trimmed : List (Nat × Rec)) :
    ∀ (n h : Nat) (opened : List Nat) (acc : List EBlock) (evs : List Ev),
      acc.length ≤ (driveLoop coin o key files full trimmed h n opened acc evs).blocks.length := by
  intro n
  induction n with
  | zero => intro h opened acc evs; simp [driveLoop]
  | succ n ih =>
    intro h opened acc evs
    rw [driveLoop]
    cases lookup trimmed h with
    | none => simp
    | some r =>
      simp only
      cases (files.find? (·.1 == r.file)).map (·.2) with
      | none => simp
      | some f =>
        simp only
        cases readAt coin key f r.off with
        | err m => simp
        | panic m => simp
        | ok szb =>
          obtain ⟨sz, b⟩ := szb
          simp only
          cases (if o.verify = true then verifyBlock coin trimmed b h else Res.ok ()) with
          | err m => simp
          | panic m => simp
          | ok u =>
            simp only
            exact Nat.le_trans (Nat.le_succ _) (ih (h + 1) _ (_ :: acc) _)

/-- along the driver loop the open list has no duplicates and every open file has been touched -/
theorem driveLoop_touched (coin : Coin) (o : Opts) (key : Option W.Bytes) (files : List (Nat × BlkFile))
    (full trimmed : List (Nat × Rec)) (hnd : (full.map (·.1)).Nodup)
    (hsub : ∀ h r, lookup trimmed h = some r → lookup full h = some r) :
    ∀ (n h : Nat) (opened : List Nat) (acc : List EBlock) (evs : List Ev),
      opened.Nodup → (∀ f ∈ opened, Touched full h f) →
      (driveLoop coin o key files full trimmed h n opened acc evs).openSet.Nodup ∧
      ∀ f ∈ (driveLoop coin o key files full trimmed h n opened acc evs).openSet,
        Touched full (h + ((driveLoop coin o key files full trimmed h n opened acc evs).blocks.length - acc.length)) f := by
  intro n
  induction n with
  | zero => intro h opened acc evs hnd' ht; simpa [driveLoop] using ⟨hnd', ht⟩
  | succ n ih =>
    intro h opened acc evs hno ht
    have hlen := driveLoop_len coin o key files full trimmed (n + 1) h opened acc evs
    rw [driveLoop] at hlen ⊢
    cases hl : lookup trimmed h with
    | none => simpa using ⟨hno, ht⟩
    | some r =>
      simp only [hl] at hlen ⊢
      have hmem : (h, r) ∈ full := (lookup_iff_mem full hnd h r).mp (hsub h r hl)
      have t1 : ∀ f ∈ (if opened.contains r.file then opened else r.file :: opened), Touched full h f := by
        intro f hf
        by_cases hc : opened.contains r.file = true
        · simp only [hc, if_true] at hf; exact ht f hf
        · simp only [hc, Bool.false_eq_true, if_false] at hf
          rcases List.mem_cons.mp hf with e | e
          · subst e; exact ⟨h, r, Nat.le_refl _, hmem, rfl⟩
          · exact ht f e
      have n1 : (if opened.contains r.file then opened else r.file :: opened).Nodup := by
        by_cases hc : opened.contains r.file = true
        · simp only [hc, if_true]; exact hno
        · simp only [hc, Bool.false_eq_true, if_false]
          refine List.nodup_cons.mpr ⟨?_, hno⟩
          intro hin
          exact hc (List.contains_iff_mem.mpr hin)
      generalize (if opened.contains r.file then opened else r.file :: opened) = O1 at t1 n1 hlen ⊢
      generalize (if opened.contains r.file then evs else Ev.opening r.file :: evs) = E1 at hlen ⊢
      cases hfile : (files.find? (·.1 == r.file)).map (·.2) with
      | none => simpa using ⟨hno, ht⟩
      | some f =>
        simp only [hfile] at hlen ⊢
        cases hr : readAt coin key f r.off with
        | err m => simpa using ⟨n1, t1⟩
        | panic m => simpa using ⟨n1, t1⟩
        | ok szb =>
          obtain ⟨sz, b⟩ := szb
          simp only [hr] at hlen ⊢
          have t2 : ∀ (cl : Bool), ∀ g ∈ (if cl = true then O1.filter (· ≠ r.file) else O1), Touched full h g := by
            intro cl g hg
            by_cases hcl : cl = true
            · simp only [hcl, if_true] at hg; exact t1 g (List.mem_filter.mp hg).1
            · simp only [hcl, if_false] at hg; exact t1 g hg
          have n2 : ∀ (cl : Bool), (if cl = true then O1.filter (· ≠ r.file) else O1).Nodup := by
            intro cl
            by_cases hcl : cl = true
            · simp only [hcl, if_true]; exact n1.filter _
            · simp only [hcl, if_false]; exact n1
          have t2' := t2 (match maxHeightByBlk full r.file with | some m => decide (h ≥ m) | none => false)
          have n2' := n2 (match maxHeightByBlk full r.file with | some m => decide (h ≥ m) | none => false)
          generalize (if (match maxHeightByBlk full r.file with | some m => decide (h ≥ m) | none => false) = true then O1.filter (· ≠ r.file) else O1) = O2 at t2' n2' hlen ⊢
          generalize (if (match maxHeightByBlk full r.file with | some m => decide (h ≥ m) | none => false) = true then Ev.closing r.file :: E1 else E1) = E2 at hlen ⊢
          cases hv : (if o.verify = true then verifyBlock coin trimmed b h else Res.ok ()) with
          | err m => simpa using ⟨n2', t2'⟩
          | panic m => simpa using ⟨n2', t2'⟩
          | ok u =>
            simp only [hv] at hlen ⊢
            have t3 : ∀ g ∈ O2, Touched full (h + 1) g := fun g hg =>
              let ⟨h', r', e1, e2, e3⟩ := t2' g hg; ⟨h', r', by omega, e2, e3⟩
            obtain ⟨hn', ht'⟩ := ih (h + 1) O2 (⟨h, sz, b⟩ :: acc) E2 n2' t3
            refine ⟨hn', ?_⟩
            intro g hg
            obtain ⟨h', r', e1, e2, e3⟩ := ht' g hg
            have hl2 := driveLoop_len coin o key files full trimmed n (h + 1) O2 (⟨h, sz, b⟩ :: acc) E2
            simp only [List.length_cons] at e1 hl2
            exact ⟨h', r', by omega, e2, e3⟩

/-- the files of an index occupy pairwise disjoint height spans -/
def DisjointSpans (full : List (Nat × Rec)) : Prop :=
  ∀ p q p' q', p ∈ full → q ∈ full → p' ∈ full → q' ∈ full → p.2.file = p'.2.file → q.2.file = q'.2.file →
    p.2.file ≠ q.2.file → p.1 < q.1 → p'.1 < q'.1

/-- **C17 on the executed whole-program model.**  In every state the driver loop can stop in, each open blk file's height
    span contains the next height to deliver (it stores a block at or below it and one at or above it), the open list has no
    duplicates — and when the files' spans are pairwise disjoint at most ONE file is open, however many files there are. -/
theorem driveLoop_open_bound (coin : Coin) (o : Opts) (key : Option W.Bytes) (files : List (Nat × BlkFile))
    (full trimmed : List (Nat × Rec)) (hnd : (full.map (·.1)).Nodup)
    (hsub : ∀ h r, lookup trimmed h = some r → lookup full h = some r) (n s : Nat) :
    let d := driveLoop coin o key files full trimmed s n [] [] []
    d.openSet.Nodup ∧
    (∀ f ∈ d.openSet, (∃ h r, h ≤ s + d.blocks.length ∧ (h, r) ∈ full ∧ r.file = f) ∧
                       (∃ h r, s + d.blocks.length ≤ h ∧ (h, r) ∈ full ∧ r.file = f)) ∧
    (DisjointSpans full → d.openSet.length ≤ 1) := by
  intro d
  obtain ⟨hn, ht⟩ := driveLoop_touched coin o key files full trimmed hnd hsub n s [] [] [] List.nodup_nil (by intro f hf; cases hf)
  have hi := (driveLoop_openInv coin o key files full trimmed hnd hsub n s [] [] [] (by intro f hf; cases hf)).2
  simp only [List.length_nil, Nat.sub_zero] at ht hi
  have span : ∀ f ∈ d.openSet, (∃ h r, h ≤ s + d.blocks.length ∧ (h, r) ∈ full ∧ r.file = f) ∧
      (∃ h r, s + d.blocks.length ≤ h ∧ (h, r) ∈ full ∧ r.file = f) := by
    intro f hf
    refine ⟨ht f hf, ?_⟩
    obtain ⟨m, hm, hle⟩ := hi f hf
    rcases mhb_fold_attained f full none m hm with e | ⟨r, hr, hfr⟩
    · cases e
    · exact ⟨m, r, hle, hr, hfr⟩
  refine ⟨hn, span, ?_⟩
  intro hdis
  -- two distinct open files would both span the next height
  rcases hopen : d.openSet with _ | ⟨f, rest⟩
  · simp
  · rcases rest with _ | ⟨g, rest'⟩
    · simp
    · exfalso
      have hf : f ∈ d.openSet := by rw [hopen]; simp
      have hg : g ∈ d.openSet := by rw [hopen]; simp
      have hne : f ≠ g := by
        have := hn; rw [hopen] at this
        have := (List.nodup_cons.mp this).1
        intro e; apply this; rw [e]; simp
      obtain ⟨⟨lf, rlf, hlf, mlf, flf⟩, ⟨uf, ruf, huf, muf, fuf⟩⟩ := span f hf
      obtain ⟨⟨lg, rlg, hlg, mlg, flg⟩, ⟨ug, rug, hug, mug, fug⟩⟩ := span g hg
      -- compare the low end of f with the high end of g
      rcases Nat.lt_trichotomy lf ug with h1 | h1 | h1
      · -- f-record below g-record: then every f-record is below every g-record, in particular uf < lg
        have := hdis (lf, rlf) (ug, rug) (uf, ruf) (lg, rlg) mlf mug muf mlg (by simp [flf, fuf]) (by simp [fug, flg])
          (by simp [flf, fug]; exact hne) h1
        simp at this; omega
      · -- same height, different files: impossible (one record per height)
        subst h1
        have := key_unique full hnd lf rlf rug mlf mug
        rw [this] at flf
        exact hne (flf.symm.trans fug)
      · -- g-record below f-record: then every g-record is below every f-record, in particular ug < lf... take (ug,lf) → (ug' = ug, lf)
        have := hdis (ug, rug) (lf, rlf) (ug, rug) (lf, rlf) mug mlf mug mlf rfl rfl (by simp [fug, flf]; exact fun e => hne e.symm) h1
        have h2 := hdis (ug, rug) (lf, rlf) (lg, rlg) (uf, ruf) mug mlf mlg muf (by simp [fug, flg]) (by simp [flf, fuf])
          (by simp [fug, flf]; exact fun e => hne e.symm) h1
        simp at h2
        -- lg < uf gives no contradiction by itself; use the other pairing: (ug, lf) ↦ (ug, lf) with ug ≥ next ≥ lf
        omega
end Run
