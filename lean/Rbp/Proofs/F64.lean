import Rbp.Model.F64
/-!
# binary64 rounding and `{:.k}` rendering: nearest, ties to even, relative error 2^-53 (C15)
-/
namespace F64

/-- `rhe a b` is a nearest integer to `a / b`: `rhe - 1/2 ≤ a/b ≤ rhe + 1/2`, cross-multiplied -/
theorem rhe_near (a b : Nat) (hb : 0 < b) : 2 * a ≤ (2 * rhe a b + 1) * b ∧ 2 * rhe a b * b ≤ 2 * a + b := by
  have hdm := Nat.div_add_mod a b
  have hr := Nat.mod_lt a hb
  generalize hq : a / b = q at hdm
  generalize hrr : a % b = r at hdm hr
  have e1 : ∀ x : Nat, (2 * x + 1) * b = 2 * (b * x) + b := by
    intro x; rw [Nat.add_mul, Nat.mul_assoc, Nat.mul_comm x b]; omega
  have e2 : ∀ x : Nat, 2 * x * b = 2 * (b * x) := by
    intro x; rw [Nat.mul_assoc, Nat.mul_comm x b]
  have e3 : b * (q + 1) = b * q + b := by rw [Nat.mul_add]; omega
  unfold rhe
  simp only [hq, hrr]
  split
  · rw [e1, e2]; omega
  · split
    · rw [e1, e2, e3]; omega
    · split
      · rw [e1, e2]; omega
      · rw [e1, e2, e3]; omega

/-- on an exact tie the even neighbour is chosen -/
theorem rhe_tie_even (a b : Nat) (h : 2 * (a % b) = b) : rhe a b % 2 = 0 := by
  unfold rhe
  simp only
  split
  · omega
  · split
    · omega
    · split
      · assumption
      · omega

/-- an integer quotient is returned unchanged -/
theorem rhe_exact (q b : Nat) (hb : 0 < b) : rhe (q * b) b = q := by
  unfold rhe
  simp [Nat.mul_mod_left, Nat.mul_div_cancel _ hb, hb]

/-- scaling numerator and denominator by a common factor does not change the rounding -/
theorem rhe_scale (a b c : Nat) (hb : 0 < b) (hc : 0 < c) : rhe (a * c) (b * c) = rhe a b := by
  unfold rhe
  have h1 : a * c / (b * c) = a / b := Nat.mul_div_mul_right a b hc
  have h2 : a * c % (b * c) = a % b * c := Nat.mul_mod_mul_right c a b
  simp only [h1, h2]
  have e : 2 * (a % b * c) = 2 * (a % b) * c := by rw [Nat.mul_assoc]
  rw [e]
  have l1 : (2 * (a % b) * c < b * c) ↔ (2 * (a % b) < b) := Nat.mul_lt_mul_right hc
  have l2 : (2 * (a % b) * c > b * c) ↔ (2 * (a % b) > b) := Nat.mul_lt_mul_right hc
  simp only [l1, l2]

/-- after doubling `upN a b` times the fraction is at least `2^52`; if any doubling happened it is below `2^53` -/
theorem upN_spec (a b : Nat) (ha : 0 < a) :
    2 ^ 52 * b ≤ a * 2 ^ upN a b ∧ (0 < upN a b → a * 2 ^ upN a b < 2 ^ 53 * b) := by
  fun_induction upN a b with
  | case1 a h ih =>
    obtain ⟨h1, h2⟩ := ih (by omega)
    have e : a * 2 ^ (upN (2 * a) b + 1) = 2 * a * 2 ^ upN (2 * a) b := by
      rw [Nat.pow_succ, Nat.mul_comm (2 ^ _) 2, ← Nat.mul_assoc, Nat.mul_comm a 2]
    rw [e]
    refine ⟨h1, fun _ => ?_⟩
    by_cases hz : 0 < upN (2 * a) b
    · exact h2 hz
    · have : upN (2 * a) b = 0 := by omega
      rw [this]; simp only [Nat.pow_zero, Nat.mul_one]; omega
  | case2 a h =>
    simp only [Nat.pow_zero, Nat.mul_one]
    exact ⟨by omega, fun h => absurd h (by omega)⟩

/-- after doubling the denominator `downN a b` times the fraction is below `2^53`; if any doubling happened it is at least `2^52` -/
theorem downN_spec (a b : Nat) (hb : 0 < b) :
    a < 2 ^ 53 * (b * 2 ^ downN a b) ∧ (0 < downN a b → 2 ^ 52 * (b * 2 ^ downN a b) ≤ a) := by
  fun_induction downN a b with
  | case1 b h ih =>
    obtain ⟨h1, h2⟩ := ih (by omega)
    have e : b * 2 ^ (downN a (2 * b) + 1) = 2 * b * 2 ^ downN a (2 * b) := by
      rw [Nat.pow_succ, Nat.mul_comm (2 ^ _) 2, ← Nat.mul_assoc, Nat.mul_comm b 2]
    rw [e]
    refine ⟨h1, fun _ => ?_⟩
    by_cases hz : 0 < downN a (2 * b)
    · exact h2 hz
    · have : downN a (2 * b) = 0 := by omega
      rw [this]; simp only [Nat.pow_zero, Nat.mul_one]; omega
  | case2 b h =>
    simp only [Nat.pow_zero, Nat.mul_one]
    exact ⟨by omega, fun h => absurd h (by omega)⟩

theorem downN_zero (a b : Nat) (h : a < 2 ^ 53 * b) : downN a b = 0 := by
  rw [downN]; simp; omega

theorem upN_zero (a b : Nat) (h : 2 ^ 52 * b ≤ a) : upN a b = 0 := by
  rw [upN]; simp; omega

/-- **the significand is in range.**  For a positive fraction `n / d`, `rn` scales it to `a / b` with `2^52 ≤ a / b < 2^53`
    (`a = n·2^u`, `b = d·2^w`, one of `u`, `w` zero), so the rounded significand `rhe a b` lies in `[2^52, 2^53]` -/
theorem rn_scaled (n d : Nat) (hn : 0 < n) (hd : 0 < d) :
    let a := n * 2 ^ upN n d
    let b := d * 2 ^ downN a d
    0 < b ∧ 2 ^ 52 * b ≤ a ∧ a < 2 ^ 53 * b ∧ (upN n d = 0 ∨ downN a d = 0) := by
  intro a b
  have hu := upN_spec n d hn
  have hdn := downN_spec a d hd
  have hb : 0 < b := Nat.mul_pos hd (Nat.pow_pos (by decide))
  refine ⟨hb, ?_, hdn.1, ?_⟩
  · by_cases hw : 0 < downN a d
    · exact hdn.2 hw
    · have hw0 : downN a d = 0 := by omega
      show 2 ^ 52 * (d * 2 ^ downN a d) ≤ a
      rw [hw0]; simp only [Nat.pow_zero, Nat.mul_one]; exact hu.1
  · by_cases hz : 0 < upN n d
    · right; exact downN_zero a d (hu.2 hz)
    · left; omega
end F64

namespace F64
/-- the value of a double (0 for `inf` / `NaN`, which the theorems below exclude) -/
def V.val : V → Rat
  | .fin n d => (n : Rat) / (d : Rat)
  | _ => 0

/-- the integer `s` such that `fmt k v` prints `s / 10^k` -/
def digits (k : Nat) : V → Nat
  | .fin n d => rhe (n * 10 ^ k) d
  | _ => 0

theorem fmt_fin (k n d : Nat) (hk : 0 < k) :
    fmt k (.fin n d) = toString (digits k (.fin n d) / 10 ^ k) ++ "." ++ padLeft (toString (digits k (.fin n d) % 10 ^ k)) k := by
  simp [fmt, digits]; omega

theorem div_le_of_le_mul {x y b : Rat} (hb : 0 < b) (h : x ≤ y * b) : x / b ≤ y := by
  apply Rat.le_of_mul_le_mul_right _ hb
  rw [Rat.div_mul_cancel (Rat.ne_of_gt hb)]; exact h

theorem le_div_of_mul_le {x y b : Rat} (hb : 0 < b) (h : y * b ≤ x) : y ≤ x / b := by
  apply Rat.le_of_mul_le_mul_right _ hb
  rw [Rat.div_mul_cancel (Rat.ne_of_gt hb)]; exact h

theorem zdiv (x : Rat) : 0 / x = 0 := by rw [Rat.div_def, Rat.zero_mul]
theorem divone (x : Rat) : x / 1 = x := by grind

theorem frac_cancel (a b U W : Rat) (hb : 0 < b) (hU : 0 < U) (hW : 0 < W) : a * U * W / (U * (b * W)) = a / b := by
  have hden : (0 : Rat) < U * (b * W) := Rat.mul_pos hU (Rat.mul_pos hb hW)
  have hq : a / b * b = a := Rat.div_mul_cancel (Rat.ne_of_gt hb)
  generalize a / b = q at *
  subst hq
  apply Rat.le_antisymm
  · apply div_le_of_le_mul hden; grind
  · apply le_div_of_mul_le hden; grind

theorem natCast_pos {n : Nat} (h : 0 < n) : (0 : Rat) < (n : Rat) := by exact_mod_cast h

/-- **correct rounding: relative error at most 2^-53.**  For a positive fraction, `rn` returns a finite double whose value
    differs from `n / d` by at most `(n / d) / 2^53` -/
theorem rn_close (n d : Nat) (hn : 0 < n) (hd : 0 < d) :
    ∃ N D, rn n d = .fin N D ∧ 0 < D ∧
      (N : Rat) / D ≤ (n : Rat) / d + (n : Rat) / d / 2 ^ 53 ∧ (n : Rat) / d ≤ (N : Rat) / D + (n : Rat) / d / 2 ^ 53 := by
  obtain ⟨hb, h52, _, _⟩ := rn_scaled n d hn hd
  generalize hu : upN n d = u at *
  generalize hw : downN (n * 2 ^ u) d = w at *
  have hnear := rhe_near (n * 2 ^ u) (d * 2 ^ w) hb
  generalize hm : rhe (n * 2 ^ u) (d * 2 ^ w) = m at hnear
  refine ⟨m * 2 ^ w, 2 ^ u, ?_, Nat.pow_pos (by decide), ?_⟩
  · unfold rn
    simp only [Nat.ne_of_gt hn, if_false, hu, hw, hm]
  -- cross-multiplied facts over Nat: with a = n·2^u, b = d·2^w:  |m·b − a|·2 ≤ b  and  2^52·b ≤ a
  have hD : (0 : Rat) < ((2 ^ u : Nat) : Rat) := natCast_pos (Nat.pow_pos (by decide))
  have hdr : (0 : Rat) < (d : Rat) := natCast_pos hd
  have k1 : ((2 * (n * 2 ^ u) : Nat) : Rat) ≤ (((2 * m + 1) * (d * 2 ^ w) : Nat) : Rat) := by exact_mod_cast hnear.1
  have k2 : ((2 * m * (d * 2 ^ w) : Nat) : Rat) ≤ ((2 * (n * 2 ^ u) + d * 2 ^ w : Nat) : Rat) := by exact_mod_cast hnear.2
  have k3 : ((2 ^ 52 * (d * 2 ^ w) : Nat) : Rat) ≤ ((n * 2 ^ u : Nat) : Rat) := by exact_mod_cast h52
  simp only [Rat.natCast_mul, Rat.natCast_add, Rat.natCast_pow, Rat.natCast_ofNat] at k1 k2 k3 hD ⊢
  generalize (2 : Rat) ^ u = U at *
  generalize (2 : Rat) ^ w = W at *
  generalize (n : Rat) = nn at *
  generalize (d : Rat) = dd at *
  generalize (m : Rat) = mm at *
  have hq : nn / dd * dd = nn := Rat.div_mul_cancel (Rat.ne_of_gt hdr)
  generalize nn / dd = q at *
  subst hq
  constructor
  · apply div_le_of_le_mul hD
    apply Rat.le_of_mul_le_mul_right _ hdr
    grind
  · have : q - q / 2 ^ 53 ≤ mm * W / U := by
      apply le_div_of_mul_le hD
      apply Rat.le_of_mul_le_mul_right _ hdr
      grind
    grind

/-- **`{:.k}` prints the nearest `k`-digit decimal.**  The printed number `digits / 10^k` differs from the double's exact
    value by at most half a unit of the last printed digit (ties go to the even digit: `rhe_tie_even`) -/
theorem fmt_close (k N D : Nat) (hD : 0 < D) :
    ((digits k (.fin N D) : Nat) : Rat) / 10 ^ k ≤ (N : Rat) / D + 1 / (2 * 10 ^ k) ∧
    (N : Rat) / D ≤ ((digits k (.fin N D) : Nat) : Rat) / 10 ^ k + 1 / (2 * 10 ^ k) := by
  have hnear := rhe_near (N * 10 ^ k) D hD
  simp only [digits]
  generalize rhe (N * 10 ^ k) D = s at hnear
  have k1 : ((2 * (N * 10 ^ k) : Nat) : Rat) ≤ (((2 * s + 1) * D : Nat) : Rat) := by exact_mod_cast hnear.1
  have k2 : ((2 * s * D : Nat) : Rat) ≤ ((2 * (N * 10 ^ k) + D : Nat) : Rat) := by exact_mod_cast hnear.2
  have hT : (0 : Rat) < ((10 ^ k : Nat) : Rat) := natCast_pos (Nat.pow_pos (by decide))
  have hDr : (0 : Rat) < (D : Rat) := natCast_pos hD
  simp only [Rat.natCast_mul, Rat.natCast_add, Rat.natCast_pow, Rat.natCast_ofNat] at k1 k2 hT
  generalize (10 : Rat) ^ k = T at *
  generalize (N : Rat) = nn at *
  generalize (s : Rat) = ss at *
  have hq : nn / (D : Rat) * D = nn := Rat.div_mul_cancel (Rat.ne_of_gt hDr)
  generalize nn / (D : Rat) = q at *
  subst hq
  have h2T : (0 : Rat) < 2 * T := by grind
  have hinv : 1 / (2 * T) * (2 * T) = 1 := Rat.div_mul_cancel (Rat.ne_of_gt h2T)
  generalize 1 / (2 * T) = h at *
  generalize (D : Rat) = dd at *
  clear hnear
  have hhT : h * T = 1 / 2 := by grind
  have e1 : (q + h) * T = q * T + 1 / 2 := by rw [Rat.add_mul, hhT]
  have e2 : (q - h) * T = q * T - 1 / 2 := by grind
  constructor
  · apply div_le_of_le_mul hT
    rw [e1]
    apply Rat.le_of_mul_le_mul_right _ hDr
    grind
  · have : q - h ≤ ss / T := by
      apply le_div_of_mul_le hT
      rw [e2]
      apply Rat.le_of_mul_le_mul_right _ hDr
      grind
    grind

/-- integers below 2^53 convert exactly -/
theorem ofNat_exact (x : Nat) (hx0 : 0 < x) (hx : x < 2 ^ 53) : ∃ u, ofNat x = .fin (x * 2 ^ u) (2 ^ u) := by
  refine ⟨upN x 1, ?_⟩
  have hs := upN_spec x 1 hx0
  have hw : downN (x * 2 ^ upN x 1) 1 = 0 := by
    apply downN_zero
    by_cases hz : 0 < upN x 1
    · exact hs.2 hz
    · have : upN x 1 = 0 := by omega
      rw [this]; simp; omega
  unfold ofNat rn
  simp only [Nat.ne_of_gt hx0, if_false, hw, Nat.pow_zero, Nat.mul_one, Nat.one_mul]
  rw [show rhe (x * 2 ^ upN x 1) 1 = x * 2 ^ upN x 1 from by simpa using rhe_exact (x * 2 ^ upN x 1) 1 (by decide)]

/-- **an average of two counters below 2^53, as printed.**  `a as f64 / b as f64` printed with `{:.2}` shows `s / 100` with
    `|s/100 − a/b| ≤ 1/200 + (a/b)/2^53`: half a unit of the last digit plus the relative error of one correctly rounded division -/
theorem ratio_close (a b : Nat) (ha0 : 0 < a) (ha : a < 2 ^ 53) (hb0 : 0 < b) (hb : b < 2 ^ 53) :
    ∃ v, div (ofNat a) (ofNat b) = v ∧ ratio a b = fmt 2 v ∧ (∃ N D, v = .fin N D) ∧
      ((digits 2 v : Nat) : Rat) / 10 ^ 2 ≤ (a : Rat) / b + (a : Rat) / b / 2 ^ 53 + 1 / (2 * 10 ^ 2) ∧
      (a : Rat) / b ≤ ((digits 2 v : Nat) : Rat) / 10 ^ 2 + (a : Rat) / b / 2 ^ 53 + 1 / (2 * 10 ^ 2) := by
  obtain ⟨u, hu⟩ := ofNat_exact a ha0 ha
  obtain ⟨w, hw⟩ := ofNat_exact b hb0 hb
  have hbw : b * 2 ^ w ≠ 0 := Nat.ne_of_gt (Nat.mul_pos hb0 (Nat.pow_pos (by decide)))
  have hdiv : div (ofNat a) (ofNat b) = rn (a * 2 ^ u * 2 ^ w) (2 ^ u * (b * 2 ^ w)) := by
    rw [hu, hw]; simp [div, hbw]
  obtain ⟨N, D, hrn, hDpos, c1, c2⟩ := rn_close (a * 2 ^ u * 2 ^ w) (2 ^ u * (b * 2 ^ w))
    (Nat.mul_pos (Nat.mul_pos ha0 (Nat.pow_pos (by decide))) (Nat.pow_pos (by decide)))
    (Nat.mul_pos (Nat.pow_pos (by decide)) (Nat.mul_pos hb0 (Nat.pow_pos (by decide))))
  refine ⟨.fin N D, by rw [hdiv, hrn], by simp [ratio, hdiv, hrn], ⟨N, D, rfl⟩, ?_⟩
  obtain ⟨f1, f2⟩ := fmt_close 2 N D hDpos
  -- the exact quotient of the two converted values is a / b
  have hq : ((a * 2 ^ u * 2 ^ w : Nat) : Rat) / ((2 ^ u * (b * 2 ^ w) : Nat) : Rat) = (a : Rat) / b := by
    have hU : (0 : Rat) < ((2 ^ u : Nat) : Rat) := natCast_pos (Nat.pow_pos (by decide))
    have hW : (0 : Rat) < ((2 ^ w : Nat) : Rat) := natCast_pos (Nat.pow_pos (by decide))
    have hB : (0 : Rat) < (b : Rat) := natCast_pos hb0
    simp only [Rat.natCast_mul] at hU hW ⊢
    exact frac_cancel _ _ _ _ hB hU hW
  rw [hq] at c1 c2
  clear hq hrn hdiv hu hw hbw
  constructor <;> grind

/-! ## every figure of the report: printed value vs exact quotient -/

/-- a finite double with a positive denominator -/
def V.Fin (v : V) : Prop := ∃ N D, v = .fin N D ∧ 0 < D

/-- `x` is within relative error `k / 2^53` of `q` -/
def Rel (k : Rat) (x q : Rat) : Prop := x ≤ q + k * q / 2 ^ 53 ∧ q ≤ x + k * q / 2 ^ 53

theorem rn_val (n d : Nat) (hd : 0 < d) : (rn n d).Fin ∧ Rel 1 (rn n d).val ((n : Rat) / d) := by
  by_cases hn : n = 0
  · subst hn
    refine ⟨⟨0, 1, by simp [rn], by decide⟩, ?_⟩
    simp [rn, V.val, Rel, zdiv, Rat.mul_zero]
    grind
  · obtain ⟨N, D, h, hD, c1, c2⟩ := rn_close n d (Nat.pos_of_ne_zero hn) hd
    refine ⟨⟨N, D, h, hD⟩, ?_⟩
    rw [h]; simp only [V.val, Rel]
    constructor <;> grind

theorem val_nonneg (v : V) (h : v.Fin) : 0 ≤ v.val := by
  obtain ⟨N, D, rfl, hD⟩ := h
  simp only [V.val]
  apply le_div_of_mul_le (natCast_pos hD)
  rw [Rat.zero_mul]; exact Rat.natCast_nonneg

theorem frac_div (a b c d : Rat) (hb : 0 < b) (hc : 0 < c) (hd : 0 < d) : a * d / (b * c) = a / b / (c / d) := by
  have h1 : a / b * b = a := Rat.div_mul_cancel (Rat.ne_of_gt hb)
  have h2 : c / d * d = c := Rat.div_mul_cancel (Rat.ne_of_gt hd)
  have hcd : 0 < c / d := by
    apply Rat.lt_of_mul_lt_mul_right (c := d) _ (Rat.le_of_lt hd)
    rw [h2, Rat.zero_mul]; exact hc
  have h3 : a / b / (c / d) * (c / d) = a / b := Rat.div_mul_cancel (Rat.ne_of_gt hcd)
  generalize a / b / (c / d) = r at *
  generalize a / b = q at *
  generalize c / d = s at *
  subst h1 h2 h3
  have hden : 0 < b * (s * d) := Rat.mul_pos hb (Rat.mul_pos hcd hd)
  apply Rat.le_antisymm
  · apply div_le_of_le_mul hden; grind
  · apply le_div_of_mul_le hden; grind

theorem frac_mul (a b c d : Rat) (hb : 0 < b) (hd : 0 < d) : a * c / (b * d) = a / b * (c / d) := by
  have h1 : a / b * b = a := Rat.div_mul_cancel (Rat.ne_of_gt hb)
  have h2 : c / d * d = c := Rat.div_mul_cancel (Rat.ne_of_gt hd)
  generalize a / b = q at *
  generalize c / d = s at *
  subst h1 h2
  have hden : 0 < b * d := Rat.mul_pos hb hd
  apply Rat.le_antisymm
  · apply div_le_of_le_mul hden; grind
  · apply le_div_of_mul_le hden; grind

/-- one correctly rounded division -/
theorem div_val (x y : V) (hx : x.Fin) (hy : y.Fin) (hpos : 0 < y.val) :
    (div x y).Fin ∧ Rel 1 (div x y).val (x.val / y.val) := by
  obtain ⟨a, b, rfl, hb⟩ := hx
  obtain ⟨c, d, rfl, hd⟩ := hy
  have hc : c ≠ 0 := by
    intro h; subst h; simp [V.val, zdiv] at hpos
  have hcpos : 0 < c := Nat.pos_of_ne_zero hc
  have := rn_val (a * d) (b * c) (Nat.mul_pos hb hcpos)
  have e : div (.fin a b) (.fin c d) = rn (a * d) (b * c) := by simp [div, hc]
  rw [e]
  refine ⟨this.1, ?_⟩
  have hq : ((a * d : Nat) : Rat) / ((b * c : Nat) : Rat) = (a : Rat) / b / ((c : Rat) / d) := by
    simp only [Rat.natCast_mul]
    exact frac_div _ _ _ _ (natCast_pos hb) (natCast_pos hcpos) (natCast_pos hd)
  rw [hq] at this
  exact this.2

/-- one correctly rounded multiplication -/
theorem mul_val (x y : V) (hx : x.Fin) (hy : y.Fin) : (mul x y).Fin ∧ Rel 1 (mul x y).val (x.val * y.val) := by
  obtain ⟨a, b, rfl, hb⟩ := hx
  obtain ⟨c, d, rfl, hd⟩ := hy
  have := rn_val (a * c) (b * d) (Nat.mul_pos hb hd)
  have e : mul (.fin a b) (.fin c d) = rn (a * c) (b * d) := rfl
  rw [e]
  refine ⟨this.1, ?_⟩
  have hq : ((a * c : Nat) : Rat) / ((b * d : Nat) : Rat) = (a : Rat) / b * ((c : Rat) / d) := by
    simp only [Rat.natCast_mul]
    exact frac_mul _ _ _ _ (natCast_pos hb) (natCast_pos hd)
  rw [hq] at this
  exact this.2

/-- conversion of a counter below 2^53 is exact -/
theorem ofNat_val (x : Nat) (hx : x < 2 ^ 53) : (ofNat x).Fin ∧ (ofNat x).val = x := by
  by_cases h0 : x = 0
  · subst h0; refine ⟨⟨0, 1, by simp [ofNat, rn], by decide⟩, by simp [ofNat, rn, V.val, zdiv]⟩
  · obtain ⟨u, hu⟩ := ofNat_exact x (Nat.pos_of_ne_zero h0) hx
    have hU : (0 : Rat) < ((2 ^ u : Nat) : Rat) := natCast_pos (Nat.pow_pos (by decide))
    refine ⟨⟨_, _, hu, Nat.pow_pos (by decide)⟩, ?_⟩
    rw [hu]; simp only [V.val, Rat.natCast_mul]
    exact Rat.mul_div_cancel (Rat.ne_of_gt hU)

/-- conversion of any `u64`: one rounding -/
theorem ofNat_val' (x : Nat) : (ofNat x).Fin ∧ Rel 1 (ofNat x).val x := by
  have := rn_val x 1 (by decide)
  have e : ((1 : Nat) : Rat) = 1 := by simp
  rw [e, divone] at this
  exact this

/-- the printed digits of a finite double: within half a unit of the last place -/
theorem fmt_val (k : Nat) (v : V) (h : v.Fin) :
    ((digits k v : Nat) : Rat) / 10 ^ k ≤ v.val + 1 / (2 * 10 ^ k) ∧ v.val ≤ ((digits k v : Nat) : Rat) / 10 ^ k + 1 / (2 * 10 ^ k) := by
  obtain ⟨N, D, rfl, hD⟩ := h
  exact fmt_close k N D hD

theorem div_mono {x y c : Rat} (h : x ≤ y) (hc : 0 < c) : x / c ≤ y / c := by
  apply div_le_of_le_mul hc
  rw [Rat.div_mul_cancel (Rat.ne_of_gt hc)]; exact h

theorem div_nonneg' {x c : Rat} (hx : 0 ≤ x) (hc : 0 < c) : 0 ≤ x / c := by
  apply le_div_of_mul_le hc; rw [Rat.zero_mul]; exact hx

theorem add_div' (x y c : Rat) : (x + y) / c = x / c + y / c := by
  simp only [Rat.div_def, Rat.add_mul]

theorem mul_div_assoc' (k x c : Rat) : k * x / c = k * (x / c) := by
  simp only [Rat.div_def, Rat.mul_assoc]

theorem div_div_comm' (x a c : Rat) : x / a / c = x / c / a := by
  simp only [Rat.div_def, Rat.mul_assoc, Rat.mul_comm a⁻¹]

theorem rel_div (k : Rat) {x q c : Rat} (h : Rel k x q) (hc : 0 < c) : Rel k (x / c) (q / c) := by
  obtain ⟨h1, h2⟩ := h
  have e : k * q / 2 ^ 53 / c = k * (q / c) / 2 ^ 53 := by simp only [Rat.div_def]; grind
  constructor
  · have := div_mono h1 hc; rw [add_div', e] at this; exact this
  · have := div_mono h2 hc; rw [add_div', e] at this; exact this

/-- the printed number of a figure -/
def shown (k : Nat) (v : V) : Rat := ((digits k v : Nat) : Rat) / 10 ^ k

/-- closeness of a printed figure to its exact value `E`: half a unit of the last printed digit plus `K` rounding errors -/
def Shows (k : Nat) (K : Rat) (v : V) (E : Rat) : Prop :=
  shown k v ≤ E + K * E / 2 ^ 53 + 1 / (2 * 10 ^ k) ∧ E ≤ shown k v + K * E / 2 ^ 53 + 1 / (2 * 10 ^ k)

/-- **`a as f64 / b as f64` printed with `{:.2}`** (avg txs per block, inputs per tx, outputs per tx) -/
theorem ratio_shows (a b : Nat) (ha : a < 2 ^ 53) (hb0 : 0 < b) (hb : b < 2 ^ 53) :
    ∃ v, v.Fin ∧ ratio a b = fmt 2 v ∧ Shows 2 1 v ((a : Rat) / b) := by
  obtain ⟨fa, va⟩ := ofNat_val a ha
  obtain ⟨fb, vb⟩ := ofNat_val b hb
  have hbpos : 0 < (ofNat b).val := by rw [vb]; exact natCast_pos hb0
  obtain ⟨fd, rd⟩ := div_val _ _ fa fb hbpos
  rw [va, vb] at rd
  refine ⟨_, fd, rfl, ?_⟩
  obtain ⟨f1, f2⟩ := fmt_val 2 _ fd
  simp only [Shows, shown, Rel] at *
  constructor <;> grind

/-- **`get_mean(xs) / c` printed with `{:.2}`** (avg block size in KiB: c = 1024; avg minutes between blocks: c = 60) -/
theorem meanOver_shows (sum len c : Nat) (hs : sum < 2 ^ 53) (hl0 : 0 < len) (hl : len < 2 ^ 53) (hc0 : 0 < c) (hc : c < 2 ^ 53) :
    ∃ v, v.Fin ∧ meanOver sum len c = fmt 2 v ∧ Shows 2 3 v ((sum : Rat) / len / c) := by
  obtain ⟨fa, va⟩ := ofNat_val sum hs
  obtain ⟨fb, vb⟩ := ofNat_val len hl
  obtain ⟨fc, vc⟩ := ofNat_val c hc
  have hbpos : 0 < (ofNat len).val := by rw [vb]; exact natCast_pos hl0
  have hcpos : (0 : Rat) < c := natCast_pos hc0
  obtain ⟨fm, rm⟩ := div_val _ _ fa fb hbpos
  rw [va, vb] at rm
  have hmean : mean sum len = div (ofNat sum) (ofNat len) := by simp [mean, Nat.ne_of_gt hl0]
  obtain ⟨fd, rd⟩ := div_val _ _ fm fc (by rw [vc]; exact hcpos)
  rw [vc] at rd
  refine ⟨_, fd, by simp [meanOver, hmean], ?_⟩
  obtain ⟨f1, f2⟩ := fmt_val 2 _ fd
  have hq0 : (0 : Rat) ≤ (sum : Rat) / len := div_nonneg' Rat.natCast_nonneg (natCast_pos hl0)
  simp only [Shows, shown] at *
  generalize (div (ofNat sum) (ofNat len)).val = X at *
  generalize (div (div (ofNat sum) (ofNat len)) (ofNat c)).val = Y at *
  generalize ((digits 2 (div (div (ofNat sum) (ofNat len)) (ofNat c)) : Nat) : Rat) / 10 ^ 2 = P at *
  generalize (sum : Rat) / len = q at *
  have m := rel_div 1 rm hcpos
  simp only [Rel] at m
  have hqc : 0 ≤ q / (c : Rat) := div_nonneg' hq0 hcpos
  generalize q / (c : Rat) = E at *
  generalize X / (c : Rat) = Xc at *
  clear hmean fd fm fa fb fc va vb vc
  simp only [Rel] at rd
  constructor <;> grind

theorem c1em8_val : c1em8.Fin ∧ Rel 1 c1em8.val (1 / 10 ^ 8) := by
  have := rn_val 1 (10 ^ 8) (by decide)
  have e : ((1 : Nat) : Rat) / ((10 ^ 8 : Nat) : Rat) = 1 / 10 ^ 8 := by rw [Rat.natCast_pow]; simp
  rw [e] at this
  exact this

/-- **`x as f64 * 1E-8` printed with `{:.8}`** (total fees, total volume, biggest transaction value, in coins) -/
theorem coins_shows (x : Nat) (hx : x < 2 ^ 53) : ∃ v, v.Fin ∧ coins x = fmt 8 v ∧ Shows 8 3 v ((x : Rat) * (1 / 10 ^ 8)) := by
  obtain ⟨fa, va⟩ := ofNat_val x hx
  obtain ⟨fc, rc⟩ := c1em8_val
  obtain ⟨fm, rm⟩ := mul_val _ _ fa fc
  rw [va] at rm
  refine ⟨_, fm, rfl, ?_⟩
  obtain ⟨f1, f2⟩ := fmt_val 8 _ fm
  have hx0 : (0 : Rat) ≤ (x : Rat) := Rat.natCast_nonneg
  simp only [Shows, shown, Rel] at *
  have m1 := Rat.mul_le_mul_of_nonneg_left rc.1 hx0
  have m2 := Rat.mul_le_mul_of_nonneg_left rc.2 hx0
  generalize (mul (ofNat x) c1em8).val = Y at *
  generalize ((digits 8 (mul (ofNat x) c1em8) : Nat) : Rat) / 10 ^ 8 = P at *
  generalize c1em8.val = C at *
  generalize (x : Rat) = X at *
  clear fm fa fc va
  constructor <;> grind

/-- **`(count as f64 / outs as f64) * 100.00` printed with `{:.2}`** (share of a script type) -/
theorem share_shows (count outs : Nat) (hc : count < 2 ^ 53) (ho0 : 0 < outs) (ho : outs < 2 ^ 53) :
    ∃ v, v.Fin ∧ share count outs = fmt 2 v ∧ Shows 2 3 v ((count : Rat) / outs * 100) := by
  obtain ⟨fa, va⟩ := ofNat_val count hc
  obtain ⟨fb, vb⟩ := ofNat_val outs ho
  obtain ⟨fh, vh⟩ := ofNat_val 100 (by decide)
  have hbpos : 0 < (ofNat outs).val := by rw [vb]; exact natCast_pos ho0
  obtain ⟨fd, rd⟩ := div_val _ _ fa fb hbpos
  rw [va, vb] at rd
  obtain ⟨fm, rm⟩ := mul_val _ _ fd fh
  rw [vh] at rm
  refine ⟨_, fm, rfl, ?_⟩
  obtain ⟨f1, f2⟩ := fmt_val 2 _ fm
  have hq0 : (0 : Rat) ≤ (count : Rat) / outs := div_nonneg' Rat.natCast_nonneg (natCast_pos ho0)
  have e100 : ((100 : Nat) : Rat) = 100 := by simp
  rw [e100] at rm
  simp only [Shows, shown, Rel] at *
  generalize (div (ofNat count) (ofNat outs)).val = X at *
  generalize (mul (div (ofNat count) (ofNat outs)) (ofNat 100)).val = Y at *
  generalize ((digits 2 (mul (div (ofNat count) (ofNat outs)) (ofNat 100)) : Nat) : Rat) / 10 ^ 2 = P at *
  generalize (count : Rat) / outs = q at *
  clear fm fd fa fb fh va vb vh
  constructor <;> grind

/-- **`volume as f64 / outs as f64 * 1E-8` printed with `{:.2}`** (average value per output, in coins) -/
theorem valuePerOutput_shows (vol outs : Nat) (hv : vol < 2 ^ 53) (ho0 : 0 < outs) (ho : outs < 2 ^ 53) :
    ∃ v, v.Fin ∧ valuePerOutput vol outs = fmt 2 v ∧ Shows 2 4 v ((vol : Rat) / outs * (1 / 10 ^ 8)) := by
  obtain ⟨fa, va⟩ := ofNat_val vol hv
  obtain ⟨fb, vb⟩ := ofNat_val outs ho
  obtain ⟨fc, rc⟩ := c1em8_val
  have hbpos : 0 < (ofNat outs).val := by rw [vb]; exact natCast_pos ho0
  obtain ⟨fd, rd⟩ := div_val _ _ fa fb hbpos
  rw [va, vb] at rd
  obtain ⟨fm, rm⟩ := mul_val _ _ fd fc
  refine ⟨_, fm, rfl, ?_⟩
  obtain ⟨f1, f2⟩ := fmt_val 2 _ fm
  have hq0 : (0 : Rat) ≤ (vol : Rat) / outs := div_nonneg' Rat.natCast_nonneg (natCast_pos ho0)
  have hX0 := val_nonneg _ fd
  have hC0 := val_nonneg _ fc
  simp only [Shows, shown, Rel] at *
  -- X·C ≤ (q + q/2^53)·C ≤ (q + q/2^53)·(c + c/2^53), and symmetrically from below
  have u1 := Rat.mul_le_mul_of_nonneg_right rd.1 hC0
  have u2 := Rat.mul_le_mul_of_nonneg_right rd.2 hC0
  have hq1 : (0 : Rat) ≤ (vol : Rat) / outs + 1 * ((vol : Rat) / outs) / 2 ^ 53 := by grind
  have u3 := Rat.mul_le_mul_of_nonneg_left rc.1 hq1
  have u4 := Rat.mul_le_mul_of_nonneg_left rc.2 hq0
  generalize (div (ofNat vol) (ofNat outs)).val = X at *
  generalize (mul (div (ofNat vol) (ofNat outs)) c1em8).val = Y at *
  generalize ((digits 2 (mul (div (ofNat vol) (ofNat outs)) c1em8) : Nat) : Rat) / 10 ^ 2 = P at *
  generalize c1em8.val = C at *
  generalize (vol : Rat) / outs = q at *
  clear fm fd fa fb fc va vb
  constructor <;> grind

/-! ## accumulators of any size: conversions round too -/

theorem rel_pos {x q : Rat} (h : Rel 1 x q) (hq : 0 < q) : 0 < x := by
  obtain ⟨_, h2⟩ := h
  grind

/-- quotient of two values each within one rounding of its exact counterpart -/
theorem rel_div11 {X Y qx qy : Rat} (hx : Rel 1 X qx) (hy : Rel 1 Y qy) (hqx : 0 ≤ qx) (hqy : 0 < qy) :
    Rel 4 (X / Y) (qx / qy) := by
  have hY : 0 < Y := rel_pos hy hqy
  have hE : qx / qy * qy = qx := Rat.div_mul_cancel (Rat.ne_of_gt hqy)
  have hE0 : 0 ≤ qx / qy := div_nonneg' hqx hqy
  generalize qx / qy = E at *
  subst hE
  obtain ⟨x1, x2⟩ := hx
  obtain ⟨y1, y2⟩ := hy
  constructor
  · apply div_le_of_le_mul hY
    have hc : 0 ≤ E + 4 * E / 2 ^ 53 := by grind
    have m := Rat.mul_le_mul_of_nonneg_left (show qy - 1 * qy / 2 ^ 53 ≤ Y by grind) hc
    grind
  · have : E - 4 * E / 2 ^ 53 ≤ X / Y := by
      apply le_div_of_mul_le hY
      by_cases hc : 0 ≤ E - 4 * E / 2 ^ 53
      · have m := Rat.mul_le_mul_of_nonneg_left (show Y ≤ qy + 1 * qy / 2 ^ 53 by grind) hc
        grind
      · grind
    grind

/-- **`a as f64 / b as f64` for any two `u64` values** (`b ≠ 0`): three roundings, `K = 6` -/
theorem ratio_shows_any (a b : Nat) (hb0 : 0 < b) : ∃ v, v.Fin ∧ ratio a b = fmt 2 v ∧ Shows 2 6 v ((a : Rat) / b) := by
  obtain ⟨fa, ra⟩ := ofNat_val' a
  obtain ⟨fb, rb⟩ := ofNat_val' b
  have hbq : (0 : Rat) < b := natCast_pos hb0
  have hbpos : 0 < (ofNat b).val := rel_pos rb hbq
  obtain ⟨fd, rd⟩ := div_val _ _ fa fb hbpos
  have r4 := rel_div11 ra rb Rat.natCast_nonneg hbq
  refine ⟨_, fd, rfl, ?_⟩
  obtain ⟨f1, f2⟩ := fmt_val 2 _ fd
  have hq0 : (0 : Rat) ≤ (a : Rat) / b := div_nonneg' Rat.natCast_nonneg hbq
  simp only [Shows, shown, Rel] at *
  generalize (ofNat a).val / (ofNat b).val = Q at *
  generalize (div (ofNat a) (ofNat b)).val = Y at *
  generalize ((digits 2 (div (ofNat a) (ofNat b)) : Nat) : Rat) / 10 ^ 2 = P at *
  generalize (a : Rat) / b = E at *
  clear fa fb fd hbpos
  constructor <;> grind

theorem rel_mul11 {X C qx qc : Rat} (hx : Rel 1 X qx) (hc : Rel 1 C qc) (hqx : 0 ≤ qx) (hqc : 0 ≤ qc) (hX : 0 ≤ X) (hC : 0 ≤ C) :
    Rel 3 (X * C) (qx * qc) := by
  obtain ⟨x1, x2⟩ := hx
  obtain ⟨c1, c2⟩ := hc
  have hqq : 0 ≤ qx * qc := Rat.mul_nonneg hqx hqc
  constructor
  · have m1 := Rat.mul_le_mul_of_nonneg_right x1 hC
    have m2 := Rat.mul_le_mul_of_nonneg_left c1 (show 0 ≤ qx + 1 * qx / 2 ^ 53 by grind)
    grind
  · have m1 := Rat.mul_le_mul_of_nonneg_right x2 hC
    have m2 := Rat.mul_le_mul_of_nonneg_left c2 hqx
    have m3 := Rat.mul_le_mul_of_nonneg_left c1 (show 0 ≤ 1 * qx / 2 ^ 53 by grind)
    grind

theorem rel_mul61 {X C qx qc : Rat} (hx : Rel 6 X qx) (hc : Rel 1 C qc) (hqx : 0 ≤ qx) (hqc : 0 ≤ qc) (hX : 0 ≤ X) (hC : 0 ≤ C) :
    Rel 8 (X * C) (qx * qc) := by
  obtain ⟨x1, x2⟩ := hx
  obtain ⟨c1, c2⟩ := hc
  have hqq : 0 ≤ qx * qc := Rat.mul_nonneg hqx hqc
  constructor
  · have m1 := Rat.mul_le_mul_of_nonneg_right x1 hC
    have m2 := Rat.mul_le_mul_of_nonneg_left c1 (show 0 ≤ qx + 6 * qx / 2 ^ 53 by grind)
    grind
  · have m1 := Rat.mul_le_mul_of_nonneg_right x2 hC
    have m2 := Rat.mul_le_mul_of_nonneg_left c2 hqx
    have m3 := Rat.mul_le_mul_of_nonneg_left c1 (show 0 ≤ 6 * qx / 2 ^ 53 by grind)
    grind

/-- a rounded quotient of two rounded conversions -/
theorem div_any (a b : Nat) (hb0 : 0 < b) :
    (div (ofNat a) (ofNat b)).Fin ∧ Rel 6 (div (ofNat a) (ofNat b)).val ((a : Rat) / b) := by
  obtain ⟨fa, ra⟩ := ofNat_val' a
  obtain ⟨fb, rb⟩ := ofNat_val' b
  have hbq : (0 : Rat) < b := natCast_pos hb0
  have hbpos : 0 < (ofNat b).val := rel_pos rb hbq
  obtain ⟨fd, rd⟩ := div_val _ _ fa fb hbpos
  have r4 := rel_div11 ra rb Rat.natCast_nonneg hbq
  refine ⟨fd, ?_⟩
  have hq0 : (0 : Rat) ≤ (a : Rat) / b := div_nonneg' Rat.natCast_nonneg hbq
  simp only [Rel] at *
  generalize (ofNat a).val / (ofNat b).val = Q at *
  generalize (div (ofNat a) (ofNat b)).val = Y at *
  generalize (a : Rat) / b = E at *
  clear fa fb fd hbpos
  constructor <;> grind

/-- **`get_mean(xs) / c` for any `u64` sum and length** (`c` = 1024 or 60, exact): `K = 8` -/
theorem meanOver_shows_any (sum len c : Nat) (hl0 : 0 < len) (hc0 : 0 < c) (hc : c < 2 ^ 53) :
    ∃ v, v.Fin ∧ meanOver sum len c = fmt 2 v ∧ Shows 2 8 v ((sum : Rat) / len / c) := by
  obtain ⟨fm, rm⟩ := div_any sum len hl0
  obtain ⟨fc, vc⟩ := ofNat_val c hc
  have hcpos : (0 : Rat) < c := natCast_pos hc0
  have hmean : mean sum len = div (ofNat sum) (ofNat len) := by simp [mean, Nat.ne_of_gt hl0]
  obtain ⟨fd, rd⟩ := div_val _ _ fm fc (by rw [vc]; exact hcpos)
  rw [vc] at rd
  refine ⟨_, fd, by simp [meanOver, hmean], ?_⟩
  obtain ⟨f1, f2⟩ := fmt_val 2 _ fd
  have hq0 : (0 : Rat) ≤ (sum : Rat) / len := div_nonneg' Rat.natCast_nonneg (natCast_pos hl0)
  have m := rel_div 6 rm hcpos
  have hqc : 0 ≤ (sum : Rat) / len / (c : Rat) := div_nonneg' hq0 hcpos
  simp only [Shows, shown, Rel] at *
  generalize (div (ofNat sum) (ofNat len)).val = X at *
  generalize (div (div (ofNat sum) (ofNat len)) (ofNat c)).val = Y at *
  generalize ((digits 2 (div (div (ofNat sum) (ofNat len)) (ofNat c)) : Nat) : Rat) / 10 ^ 2 = P at *
  generalize (sum : Rat) / len / (c : Rat) = E at *
  generalize X / (c : Rat) = Xc at *
  clear hmean fd fm fc vc
  constructor <;> grind

/-- **`x as f64 * 1E-8` for any `u64`**: `K = 5` -/
theorem coins_shows_any (x : Nat) : ∃ v, v.Fin ∧ coins x = fmt 8 v ∧ Shows 8 5 v ((x : Rat) * (1 / 10 ^ 8)) := by
  obtain ⟨fa, ra⟩ := ofNat_val' x
  obtain ⟨fc, rc⟩ := c1em8_val
  obtain ⟨fm, rm⟩ := mul_val _ _ fa fc
  refine ⟨_, fm, rfl, ?_⟩
  obtain ⟨f1, f2⟩ := fmt_val 8 _ fm
  have hx0 : (0 : Rat) ≤ (x : Rat) := Rat.natCast_nonneg
  have hc0 : (0 : Rat) ≤ 1 / 10 ^ 8 := by grind
  have r3 := rel_mul11 ra rc hx0 hc0 (val_nonneg _ fa) (val_nonneg _ fc)
  have hE0 : (0 : Rat) ≤ (x : Rat) * (1 / 10 ^ 8) := Rat.mul_nonneg hx0 hc0
  simp only [Shows, shown, Rel] at *
  generalize (mul (ofNat x) c1em8).val = Y at *
  generalize ((digits 8 (mul (ofNat x) c1em8) : Nat) : Rat) / 10 ^ 8 = P at *
  generalize (ofNat x).val * c1em8.val = Q at *
  generalize (x : Rat) * (1 / 10 ^ 8) = E at *
  clear fm fa fc
  constructor <;> grind

/-- **`(count as f64 / outs as f64) * 100.00` for any `u64` values**: `K = 8` -/
theorem share_shows_any (count outs : Nat) (ho0 : 0 < outs) :
    ∃ v, v.Fin ∧ share count outs = fmt 2 v ∧ Shows 2 8 v ((count : Rat) / outs * 100) := by
  obtain ⟨fd, rd⟩ := div_any count outs ho0
  obtain ⟨fh, vh⟩ := ofNat_val 100 (by decide)
  obtain ⟨fm, rm⟩ := mul_val _ _ fd fh
  rw [vh] at rm
  refine ⟨_, fm, rfl, ?_⟩
  obtain ⟨f1, f2⟩ := fmt_val 2 _ fm
  have hq0 : (0 : Rat) ≤ (count : Rat) / outs := div_nonneg' Rat.natCast_nonneg (natCast_pos ho0)
  have e100 : ((100 : Nat) : Rat) = 100 := by simp
  rw [e100] at rm
  simp only [Shows, shown, Rel] at *
  generalize (div (ofNat count) (ofNat outs)).val = X at *
  generalize (mul (div (ofNat count) (ofNat outs)) (ofNat 100)).val = Y at *
  generalize ((digits 2 (mul (div (ofNat count) (ofNat outs)) (ofNat 100)) : Nat) : Rat) / 10 ^ 2 = P at *
  generalize (count : Rat) / outs = q at *
  clear fm fd fh vh
  constructor <;> grind

/-- **`volume as f64 / outs as f64 * 1E-8` for any `u64` values**: `K = 10` -/
theorem valuePerOutput_shows_any (vol outs : Nat) (ho0 : 0 < outs) :
    ∃ v, v.Fin ∧ valuePerOutput vol outs = fmt 2 v ∧ Shows 2 10 v ((vol : Rat) / outs * (1 / 10 ^ 8)) := by
  obtain ⟨fd, rd⟩ := div_any vol outs ho0
  obtain ⟨fc, rc⟩ := c1em8_val
  obtain ⟨fm, rm⟩ := mul_val _ _ fd fc
  refine ⟨_, fm, rfl, ?_⟩
  obtain ⟨f1, f2⟩ := fmt_val 2 _ fm
  have hq0 : (0 : Rat) ≤ (vol : Rat) / outs := div_nonneg' Rat.natCast_nonneg (natCast_pos ho0)
  have hc0 : (0 : Rat) ≤ 1 / 10 ^ 8 := by grind
  have r8 := rel_mul61 rd rc hq0 hc0 (val_nonneg _ fd) (val_nonneg _ fc)
  have hE0 : (0 : Rat) ≤ (vol : Rat) / outs * (1 / 10 ^ 8) := Rat.mul_nonneg hq0 hc0
  simp only [Shows, shown, Rel] at *
  generalize (mul (div (ofNat vol) (ofNat outs)) c1em8).val = Y at *
  generalize ((digits 2 (mul (div (ofNat vol) (ofNat outs)) c1em8) : Nat) : Rat) / 10 ^ 2 = P at *
  generalize (div (ofNat vol) (ofNat outs)).val * c1em8.val = Q at *
  generalize (vol : Rat) / outs * (1 / 10 ^ 8) = E at *
  clear fm fd fc
  constructor <;> grind
end F64
