import Rbp.Model.Run
import Rbp.Proofs.Record
/-!
# Whole-run independence from the physical layout and from XOR obfuscation (C03, C11)

`driveLoop` looks at the blk files only through `fetch`: "the file named by the record, read at the record's offset".
Two (key, file table) pairs that answer `fetch` identically for every record of the index are indistinguishable
for the whole run — events, rows, exit status, everything.
-/
namespace Run
open Wk CB

def fileOf (fm : List (Nat × BlkFile)) (n : Nat) : Option BlkFile := (fm.find? (·.1 == n)).map (·.2)

/-- what `get_block` obtains for a record: `none` when no blk file carries the record's number -/
def fetch (coin : Coin) (key : Option W.Bytes) (fm : List (Nat × BlkFile)) (r : Rec) : Option (Res (Nat × Csv.RBlock)) :=
  (fileOf fm r.file).map fun f => readAt coin key f r.off

theorem driveLoop_congr (coin : Coin) (o : Opts) (k₁ k₂ : Option W.Bytes) (fm₁ fm₂ : List (Nat × BlkFile))
    (full trimmed : List (Nat × Rec))
    (hf : ∀ ht r, lookup trimmed ht = some r → fetch coin k₁ fm₁ r = fetch coin k₂ fm₂ r) :
    ∀ (n h : Nat) (opened : List Nat) (acc : List EBlock) (evs : List Ev),
      driveLoop coin o k₁ fm₁ full trimmed h n opened acc evs = driveLoop coin o k₂ fm₂ full trimmed h n opened acc evs := by
  intro n
  induction n with
  | zero => intro h opened acc evs; simp [driveLoop]
  | succ n ih =>
    intro h opened acc evs
    rw [driveLoop, driveLoop]
    cases hl : lookup trimmed h with
    | none => rfl
    | some r =>
      simp only
      have hfr := hf h r hl
      unfold fetch fileOf at hfr
      cases h1 : (fm₁.find? (·.1 == r.file)).map (·.2) with
      | none =>
        cases h2 : (fm₂.find? (·.1 == r.file)).map (·.2) with
        | none => rfl
        | some g => rw [h1, h2] at hfr; simp at hfr
      | some f =>
        cases h2 : (fm₂.find? (·.1 == r.file)).map (·.2) with
        | none => rw [h1, h2] at hfr; simp at hfr
        | some g =>
          rw [h1, h2] at hfr
          simp only [Option.map_some, Option.some.injEq] at hfr
          simp only [hfr]
          cases readAt coin k₂ g r.off with
          | err m => rfl
          | panic m => rfl
          | ok p =>
            obtain ⟨size, b⟩ := p
            simp only
            cases (if o.verify = true then verifyBlock coin trimmed b h else Res.ok ()) with
            | err m => rfl
            | panic m => rfl
            | ok u => simp only; exact ih _ _ _ _

/-- **Whole-run layout independence (same index).**  If two data directories carry the same index key/value pairs and, for
    every record of the (trimmed) index, "the file with the record's number read at the record's offset" gives the same
    result in both — then the two runs are identical in every observable: exit status, error height and message, delivered
    heights and hashes, every output file, stdout, and the Opening/Closing trace.  Bytes before `offset-4`, garbage and
    unindexed blocks between blocks, holes, blk files named by no record, other directory entries, and the zero-padding of
    file names (only the parsed number matters) are all invisible. -/
theorem run_same_reads (o : Opts) (k₁ k₂ : Option W.Bytes) (kvs : List (W.Bytes × W.Bytes)) (fs₁ fs₂ : List BlkFile)
    (hk₁ : k₁ ≠ some []) (hk₂ : k₂ ≠ some [])
    (hn₁ : (fs₁.filterMap fun f => (parseBlkIndex f.name).map fun n => (n, f)) ≠ [])
    (hn₂ : (fs₂.filterMap fun f => (parseBlkIndex f.name).map fun n => (n, f)) ≠ [])
    (hf : ∀ coin ld, coinOf o.coin = some coin → loadIndex o kvs = .ok ld → ∀ ht r, lookup ld.trimmed ht = some r →
      fetch coin k₁ (fs₁.filterMap fun f => (parseBlkIndex f.name).map fun n => (n, f)) r =
      fetch coin k₂ (fs₂.filterMap fun f => (parseBlkIndex f.name).map fun n => (n, f)) r) :
    run o k₁ kvs fs₁ = run o k₂ kvs fs₂ := by
  unfold run
  cases hc : coinOf o.coin with
  | none => rfl
  | some coin =>
    simp only
    cases hl : loadIndex o kvs with
    | err m => rfl
    | panic m => rfl
    | ok ld =>
      simp only
      have e₁ : (fs₁.filterMap fun f => (parseBlkIndex f.name).map fun n => (n, f)).isEmpty = false := by
        cases hx : (fs₁.filterMap fun f => (parseBlkIndex f.name).map fun n => (n, f)) with
        | nil => exact absurd hx hn₁
        | cons a l => rfl
      have e₂ : (fs₂.filterMap fun f => (parseBlkIndex f.name).map fun n => (n, f)).isEmpty = false := by
        cases hx : (fs₂.filterMap fun f => (parseBlkIndex f.name).map fun n => (n, f)) with
        | nil => exact absurd hx hn₂
        | cons a l => rfl
      simp only [e₁, e₂, Bool.false_eq_true, if_false]
      have hd := driveLoop_congr coin o k₁ k₂ _ _ ld.full ld.trimmed (hf coin ld hc hl)
        (ld.maxH + 1 - o.start) o.start [] [] []
      cases k₁ with
      | none =>
        cases k₂ with
        | none => simp only [hd]
        | some b => cases b with
          | nil => exact absurd rfl hk₂
          | cons x xs => simp only [hd]
      | some a =>
        cases a with
        | nil => exact absurd rfl hk₁
        | cons y ys =>
          cases k₂ with
          | none => simp only [hd]
          | some b => cases b with
            | nil => exact absurd rfl hk₂
            | cons x xs => simp only [hd]

/-- reading an obfuscated file with its key = reading the plaintext file without one, at every offset -/
theorem readAt_xor (coin : Coin) (k : W.Bytes) (f g : BlkFile) (off : Nat)
    (hx : bytesFrom g (off - 4) = X.xorAt k (off - 4) (bytesFrom f (off - 4))) :
    readAt coin (some k) g off = readAt coin none f off := by
  unfold readAt
  by_cases h4 : off < 4
  · simp [h4]
  · simp only [h4, if_false]
    rw [hx, parseAt_xor]
    rfl

/-- **C11, whole run.**  A data directory whose blk files are XOR-ed with a non-empty key repeating from file offset 0
    (same names, same index), read with that key, gives the run of the plaintext directory read without a key — identical in
    every observable, for every callback, range and `--verify` setting. -/
theorem run_xor_eq_plain (o : Opts) (k : W.Bytes) (hk : k ≠ []) (kvs : List (W.Bytes × W.Bytes)) (plain obf : List BlkFile)
    (hnames : obf.map (·.name) = plain.map (·.name))
    (hne : (plain.filterMap fun f => (parseBlkIndex f.name).map fun n => (n, f)) ≠ [])
    (hx : ∀ i (hi : i < plain.length) (hj : i < obf.length) p,
      bytesFrom obf[i] p = X.xorAt k p (bytesFrom plain[i] p)) :
    run o (some k) kvs obf = run o none kvs plain := by
  -- the two number → file tables are position-wise related
  have key : ∀ (pl ob : List BlkFile), ob.map (·.name) = pl.map (·.name) →
      (∀ i (hi : i < pl.length) (hj : i < ob.length) p, bytesFrom ob[i] p = X.xorAt k p (bytesFrom pl[i] p)) →
      ∀ coin n, (fileOf (ob.filterMap fun f => (parseBlkIndex f.name).map fun n => (n, f)) n).map
                  (fun g => fun off => readAt coin (some k) g off) =
                (fileOf (pl.filterMap fun f => (parseBlkIndex f.name).map fun n => (n, f)) n).map
                  (fun f => fun off => readAt coin none f off) := by
    intro pl
    induction pl with
    | nil =>
      intro ob hm _ coin n
      cases ob with
      | nil => rfl
      | cons a l => simp at hm
    | cons f pl ih =>
      intro ob hm hb coin n
      cases ob with
      | nil => simp at hm
      | cons g ob =>
        simp only [List.map_cons, List.cons.injEq] at hm
        have hfg : ∀ p, bytesFrom g p = X.xorAt k p (bytesFrom f p) := fun p => hb 0 (by simp) (by simp) p
        have hrest := ih ob hm.2 (fun i hi hj p => by
          have := hb (i + 1) (by simp; omega) (by simp; omega) p
          simpa using this) coin n
        unfold fileOf at hrest ⊢
        simp only [List.filterMap_cons, hm.1]
        cases hp : parseBlkIndex f.name with
        | none => simpa using hrest
        | some m =>
          simp only [Option.map_some, List.find?_cons]
          by_cases hmn : (m == n) = true
          · simp only [hmn, Option.map_some, Option.some.injEq]
            funext off
            exact readAt_xor coin k f g off (hfg _)
          · simp only [hmn]
            exact hrest
  have hlen : obf.length = plain.length := by simpa using congrArg List.length hnames
  have hne' : (obf.filterMap fun f => (parseBlkIndex f.name).map fun n => (n, f)) ≠ [] := by
    intro he
    apply hne
    have : ((obf.filterMap fun f => (parseBlkIndex f.name).map fun n => (n, f)).map (·.1)) =
        ((plain.filterMap fun f => (parseBlkIndex f.name).map fun n => (n, f)).map (·.1)) := by
      have e : ∀ (l : List BlkFile), (l.filterMap fun f => (parseBlkIndex f.name).map fun n => (n, f)).map (·.1) =
          (l.map (·.name)).filterMap parseBlkIndex := by
        intro l
        induction l with
        | nil => rfl
        | cons a l ih =>
          simp only [List.filterMap_cons, List.map_cons]
          cases parseBlkIndex a.name <;> simp [ih]
      rw [e, e, hnames]
    rw [he] at this
    simpa using this.symm
  apply run_same_reads o (some k) none kvs obf plain (by simpa using hk) (by simp) hne' hne
  intro coin ld _ _ ht r _
  unfold fetch
  have := key plain obf hnames hx coin r.file
  cases h1 : fileOf (obf.filterMap fun f => (parseBlkIndex f.name).map fun n => (n, f)) r.file with
  | none =>
    cases h2 : fileOf (plain.filterMap fun f => (parseBlkIndex f.name).map fun n => (n, f)) r.file with
    | none => rfl
    | some f => rw [h1, h2] at this; simp at this
  | some g =>
    cases h2 : fileOf (plain.filterMap fun f => (parseBlkIndex f.name).map fun n => (n, f)) r.file with
    | none => rw [h1, h2] at this; simp at this
    | some f =>
      rw [h1, h2] at this
      simp only [Option.map_some, Option.some.injEq] at this ⊢
      exact congrFun this r.off
end Run

namespace Run
open Wk CB

/-- what the run can see of an index entry: the block hash (used by --verify for the next height) and what reading it yields -/
def view (coin : Coin) (key : Option W.Bytes) (fm : List (Nat × BlkFile)) (tr : List (Nat × Rec)) (h : Nat) :
    Option (W.Bytes × Option (Res (Nat × Csv.RBlock))) :=
  (lookup tr h).map fun r => (r.hash, fetch coin key fm r)

theorem verifyBlock_view (coin : Coin) (tr₁ tr₂ : List (Nat × Rec)) (b : Csv.RBlock) (h : Nat)
    (hv : (lookup tr₁ (h - 1)).map (·.hash) = (lookup tr₂ (h - 1)).map (·.hash)) :
    verifyBlock coin tr₁ b h = verifyBlock coin tr₂ b h := by
  unfold verifyBlock
  cases M.rootRust A.sha256d (txids b) with
  | none => rfl
  | some r =>
    simp only
    split
    · rfl
    · split
      · rfl
      · cases h1 : lookup tr₁ (h - 1) with
        | none =>
          cases h2 : lookup tr₂ (h - 1) with
          | none => rfl
          | some q => rw [h1, h2] at hv; simp at hv
        | some p =>
          cases h2 : lookup tr₂ (h - 1) with
          | none => rw [h1, h2] at hv; simp at hv
          | some q =>
            rw [h1, h2] at hv
            simp only [Option.map_some, Option.some.injEq] at hv
            simp only [hv]

theorem driveLoop_view (coin : Coin) (o : Opts) (k₁ k₂ : Option W.Bytes) (fm₁ fm₂ : List (Nat × BlkFile))
    (full₁ full₂ tr₁ tr₂ : List (Nat × Rec))
    (hv : ∀ h, view coin k₁ fm₁ tr₁ h = view coin k₂ fm₂ tr₂ h) :
    ∀ (n h : Nat) (op₁ op₂ : List Nat) (acc : List EBlock) (ev₁ ev₂ : List Ev),
      (driveLoop coin o k₁ fm₁ full₁ tr₁ h n op₁ acc ev₁).blocks = (driveLoop coin o k₂ fm₂ full₂ tr₂ h n op₂ acc ev₂).blocks ∧
      (driveLoop coin o k₁ fm₁ full₁ tr₁ h n op₁ acc ev₁).ending = (driveLoop coin o k₂ fm₂ full₂ tr₂ h n op₂ acc ev₂).ending := by
  intro n
  induction n with
  | zero => intro h op₁ op₂ acc ev₁ ev₂; simp [driveLoop]
  | succ n ih =>
    intro h op₁ op₂ acc ev₁ ev₂
    rw [driveLoop, driveLoop]
    have hvh := hv h
    unfold view at hvh
    cases hl₁ : lookup tr₁ h with
    | none =>
      cases hl₂ : lookup tr₂ h with
      | none => simp
      | some r₂ => rw [hl₁, hl₂] at hvh; simp at hvh
    | some r₁ =>
      cases hl₂ : lookup tr₂ h with
      | none => rw [hl₁, hl₂] at hvh; simp at hvh
      | some r₂ =>
        rw [hl₁, hl₂] at hvh
        simp only [Option.map_some, Option.some.injEq, Prod.mk.injEq] at hvh
        obtain ⟨_, hfr⟩ := hvh
        unfold fetch fileOf at hfr
        simp only
        cases h1 : (fm₁.find? (·.1 == r₁.file)).map (·.2) with
        | none =>
          cases h2 : (fm₂.find? (·.1 == r₂.file)).map (·.2) with
          | none => simp
          | some g => rw [h1, h2] at hfr; simp at hfr
        | some f =>
          cases h2 : (fm₂.find? (·.1 == r₂.file)).map (·.2) with
          | none => rw [h1, h2] at hfr; simp at hfr
          | some g =>
            rw [h1, h2] at hfr
            simp only [Option.map_some, Option.some.injEq] at hfr
            simp only [hfr]
            cases readAt coin k₂ g r₂.off with
            | err m => simp
            | panic m => simp
            | ok p =>
              obtain ⟨size, b⟩ := p
              simp only
              have hvb : verifyBlock coin tr₁ b h = verifyBlock coin tr₂ b h := by
                apply verifyBlock_view
                have := hv (h - 1)
                unfold view at this
                have := congrArg (Option.map (·.1)) this
                simpa [Option.map_map, Function.comp_def] using this
              rw [hvb]
              cases (if o.verify = true then verifyBlock coin tr₂ b h else Res.ok ()) with
              | err m => simp
              | panic m => simp
              | ok u => simp only; exact ih _ _ _ _ _ _

/-- the observables of a run other than the Opening/Closing trace -/
def Output.visible (x : Output) : Nat × Option Nat × String × List Nat × List W.Bytes × List (String × List String) × List String :=
  (x.exit, x.errHeight, x.msg, x.delivered, x.hashes, x.files, x.stdout)

/-- **C03, whole run, any two physical layouts.**  Two data directories — different index values (file numbers, offsets),
    different distribution of blocks over blk files, different keys — whose indexes load, name the same range end, and
    present the same *view* at every height (same block hash, same result of reading the record's (file, offset)) produce the
    same exit status, error report, delivered heights and hashes, output files and stdout, for every callback. -/
theorem run_layout_independent (o : Opts) (k₁ k₂ : Option W.Bytes) (kvs₁ kvs₂ : List (W.Bytes × W.Bytes)) (fs₁ fs₂ : List BlkFile)
    (coin : Coin) (ld₁ ld₂ : Loaded) (hc : coinOf o.coin = some coin)
    (hl₁ : loadIndex o kvs₁ = .ok ld₁) (hl₂ : loadIndex o kvs₂ = .ok ld₂) (hmax : ld₁.maxH = ld₂.maxH)
    (hk₁ : k₁ ≠ some []) (hk₂ : k₂ ≠ some [])
    (hn₁ : (fs₁.filterMap fun f => (parseBlkIndex f.name).map fun n => (n, f)) ≠ [])
    (hn₂ : (fs₂.filterMap fun f => (parseBlkIndex f.name).map fun n => (n, f)) ≠ [])
    (hv : ∀ h, view coin k₁ (fs₁.filterMap fun f => (parseBlkIndex f.name).map fun n => (n, f)) ld₁.trimmed h =
               view coin k₂ (fs₂.filterMap fun f => (parseBlkIndex f.name).map fun n => (n, f)) ld₂.trimmed h) :
    (run o k₁ kvs₁ fs₁).visible = (run o k₂ kvs₂ fs₂).visible := by
  unfold run
  simp only [hc, hl₁, hl₂]
  have e₁ : (fs₁.filterMap fun f => (parseBlkIndex f.name).map fun n => (n, f)).isEmpty = false := by
    cases hx : (fs₁.filterMap fun f => (parseBlkIndex f.name).map fun n => (n, f)) with
    | nil => exact absurd hx hn₁
    | cons a l => rfl
  have e₂ : (fs₂.filterMap fun f => (parseBlkIndex f.name).map fun n => (n, f)).isEmpty = false := by
    cases hx : (fs₂.filterMap fun f => (parseBlkIndex f.name).map fun n => (n, f)) with
    | nil => exact absurd hx hn₂
    | cons a l => rfl
  simp only [e₁, e₂, Bool.false_eq_true, if_false]
  have hd := driveLoop_view coin o k₁ k₂ _ _ ld₁.full ld₂.full ld₁.trimmed ld₂.trimmed hv
    (ld₁.maxH + 1 - o.start) o.start [] [] [] [] []
  rw [← hmax]
  obtain ⟨hb, he⟩ := hd
  have body : ∀ (d₁ d₂ : Driven), d₁.blocks = d₂.blocks → d₁.ending = d₂.ending →
      Output.visible (match d₁.ending with
        | .errorAt h m => ⟨1, some h, m, d₁.blocks.map (·.height), d₁.blocks.map (fun b => blockHash b.blk), [], [], d₁.events⟩
        | .panicAt h m => ⟨101, some h, m, d₁.blocks.map (·.height), d₁.blocks.map (fun b => blockHash b.blk), [], [], d₁.events⟩
        | .complete =>
          if callbackPanics o coin.version d₁.blocks then ⟨101, none, "panic in callback", d₁.blocks.map (·.height), d₁.blocks.map (fun b => blockHash b.blk), [], [], d₁.events⟩ else
          let last := (o.start + d₁.blocks.length) - 1
          let (fs, out) := callbackOut o coin.version last d₁.blocks
          ⟨0, none, "", d₁.blocks.map (·.height), d₁.blocks.map (fun b => blockHash b.blk), fs, out, d₁.events⟩) =
      Output.visible (match d₂.ending with
        | .errorAt h m => ⟨1, some h, m, d₂.blocks.map (·.height), d₂.blocks.map (fun b => blockHash b.blk), [], [], d₂.events⟩
        | .panicAt h m => ⟨101, some h, m, d₂.blocks.map (·.height), d₂.blocks.map (fun b => blockHash b.blk), [], [], d₂.events⟩
        | .complete =>
          if callbackPanics o coin.version d₂.blocks then ⟨101, none, "panic in callback", d₂.blocks.map (·.height), d₂.blocks.map (fun b => blockHash b.blk), [], [], d₂.events⟩ else
          let last := (o.start + d₂.blocks.length) - 1
          let (fs, out) := callbackOut o coin.version last d₂.blocks
          ⟨0, none, "", d₂.blocks.map (·.height), d₂.blocks.map (fun b => blockHash b.blk), fs, out, d₂.events⟩) := by
    intro d₁ d₂ hb he
    rw [he, hb]
    cases d₂.ending <;> simp only [Output.visible] <;> split <;> simp
  cases k₁ with
  | none =>
    cases k₂ with
    | none => exact body _ _ hb he
    | some b => cases b with
      | nil => exact absurd rfl hk₂
      | cons x xs => exact body _ _ hb he
  | some a =>
    cases a with
    | nil => exact absurd rfl hk₁
    | cons y ys =>
      cases k₂ with
      | none => exact body _ _ hb he
      | some b => cases b with
        | nil => exact absurd rfl hk₂
        | cons x xs => exact body _ _ hb he
end Run

namespace Run
/-- a blk file without holes: one segment from offset 0 to the end -/
def dense (name : String) (d : W.Bytes) : BlkFile := ⟨name, d.length, [⟨0, d⟩]⟩

theorem bytesFrom_dense (name : String) (d : W.Bytes) (p : Nat) : bytesFrom (dense name d) p = d.drop p := by
  unfold bytesFrom dense
  by_cases hp : p ≥ d.length
  · simp [hp, List.drop_eq_nil_of_le hp]
  · simp only [hp, if_false]
    have : (decide (0 ≤ p) && decide (p < 0 + d.length)) = true := by simp; omega
    simp only [List.find?_cons, this, Nat.sub_zero]
    rw [List.take_of_length_le]
    simp

theorem xorAt_length (k : W.Bytes) : ∀ (p : Nat) (bs : W.Bytes), (X.xorAt k p bs).length = bs.length
  | _, [] => rfl
  | p, b :: bs => by simp [X.xorAt, xorAt_length k (p + 1) bs]

/-- **C11 for ordinary (hole-free) blk files, stated on concrete directories.**  XOR every file of the plaintext directory
    with the key repeating from offset 0; reading that directory with the key gives the plaintext run. -/
theorem run_xor_dense (o : Opts) (k : W.Bytes) (hk : k ≠ []) (kvs : List (W.Bytes × W.Bytes)) (dir : List (String × W.Bytes))
    (hne : ((dir.map fun f => dense f.1 f.2).filterMap fun f => (parseBlkIndex f.name).map fun n => (n, f)) ≠ []) :
    run o (some k) kvs (dir.map fun f => dense f.1 (X.xorAt k 0 f.2)) = run o none kvs (dir.map fun f => dense f.1 f.2) := by
  apply run_xor_eq_plain o k hk kvs _ _ (by simp [dense, Function.comp_def]) hne
  intro i hi hj p
  simp only [List.getElem_map]
  rw [bytesFrom_dense, bytesFrom_dense, X.xorAt_drop, Nat.zero_add]
end Run
