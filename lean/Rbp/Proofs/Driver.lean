import Rbp.Model.Run
namespace Run
open Wk CB

theorem find_congr' {α} (p q : α → Bool) : ∀ (l : List α), (∀ a ∈ l, p a = q a) → l.find? p = l.find? q
  | [], _ => rfl
  | a :: l, h => by
    have ha := h a (by simp)
    have := find_congr' p q l (fun x hx => h x (by simp [hx]))
    simp [List.find?_cons, ha, this]

/-- height `k` can be served: its record is in the (trimmed) index, its blk file is present, the block parses there and,
    with --verify, passes verification -/
def Servable (coin : Coin) (o : Opts) (key : Option W.Bytes) (files : List (Nat × BlkFile)) (trimmed : List (Nat × Rec)) (k : Nat) : Prop :=
  ∃ r f sz b, lookup trimmed k = some r ∧ (files.find? (·.1 == r.file)).map (·.2) = some f ∧
    readAt coin key f r.off = .ok (sz, b) ∧ (o.verify = true → verifyBlock coin trimmed b k = .ok ())

theorem driveLoop_all (coin : Coin) (o : Opts) (key : Option W.Bytes) (files : List (Nat × BlkFile)) (full trimmed : List (Nat × Rec)) :
    ∀ (n h : Nat) (opened : List Nat) (acc : List EBlock) (evs : List Ev),
      (∀ k, h ≤ k → k < h + n → Servable coin o key files trimmed k) →
      ((driveLoop coin o key files full trimmed h n opened acc evs).blocks.map (·.height) =
          acc.reverse.map (·.height) ++ List.range' h n) ∧
      (∃ x, (driveLoop coin o key files full trimmed h n opened acc evs).ending = x ∧ x = End.complete) := by
  intro n
  induction n with
  | zero => intro h opened acc evs _; simp [driveLoop]
  | succ n ih =>
    intro h opened acc evs hs
    obtain ⟨r, f, sz, b, hl, hf, hr, hv⟩ := hs h (Nat.le_refl _) (by omega)
    rw [driveLoop]
    simp only [hl, hf, hr]
    have hvv : (if o.verify = true then verifyBlock coin trimmed b h else Res.ok ()) = Res.ok () := by
      by_cases hvb : o.verify = true
      · simp [hvb, hv hvb]
      · simp [hvb]
    simp only [hvv]
    have hs' : ∀ k, h + 1 ≤ k → k < h + 1 + n → Servable coin o key files trimmed k :=
      fun k hk1 hk2 => hs k (by omega) (by omega)
    constructor
    · rw [(ih (h + 1) _ _ _ hs').1]
      simp [List.range'_succ]
    · exact (ih (h + 1) _ _ _ hs').2

/-- the upper end of the processed range: `min(--end, tip)`, the tip when no end is given -/
theorem loadIndex_maxH (o : Opts) (kvs : List (W.Bytes × W.Bytes)) (ld : Loaded) (h : loadIndex o kvs = .ok ld) :
    ld.maxH = (match o.stop with
      | some e => min e (ld.full.foldl (fun a p => max a p.1) 0)
      | none => ld.full.foldl (fun a p => max a p.1) 0) := by
  unfold loadIndex at h
  cases hb : buildIndex kvs with
  | err m => simp [hb] at h
  | panic m => simp [hb] at h
  | ok full =>
    simp only [hb] at h
    cases full with
    | nil => simp at h
    | cons p ps =>
      simp only at h
      injection h with h
      subst h
      cases o.stop with
      | none => rfl
      | some e =>
        simp only
        generalize List.foldl (fun a p => max a p.1) 0 (p :: ps) = M
        by_cases he : e < M
        · rw [if_pos he]; omega
        · rw [if_neg he]; omega

/-- trimming keeps exactly the heights `start-1 .. maxH` (and everything when no range is given) -/
theorem loadIndex_trimmed (o : Opts) (kvs : List (W.Bytes × W.Bytes)) (ld : Loaded) (h : loadIndex o kvs = .ok ld)
    (k : Nat) (hk1 : o.start - 1 ≤ k) (hk2 : k ≤ ld.maxH) : lookup ld.trimmed k = lookup ld.full k := by
  unfold loadIndex at h
  cases hb : buildIndex kvs with
  | err m => simp [hb] at h
  | panic m => simp [hb] at h
  | ok full =>
    simp only [hb] at h
    cases full with
    | nil => simp at h
    | cons p ps =>
      simp only at h
      injection h with h
      subst h
      simp only
      split
      · rfl
      · unfold lookup
        rw [List.find?_filter]
        congr 1
        apply find_congr'
        intro a _
        by_cases ha : a.1 = k
        · simp [ha, hk1]
          simpa using hk2
        · simp [ha]

/-- whole run: when every height of `start..maxH` can be served, exactly those heights are delivered, ascending, each once,
    and the run completes: exit 0, or 101 when the callback itself panics on the delivered values (simplestats / balances
    arithmetic in the dev profile — never for csvdump, unspentcsvdump, opreturn) -/
theorem run_delivers_range (o : Opts) (key : Option W.Bytes) (kvs : List (W.Bytes × W.Bytes)) (files : List BlkFile)
    (coin : Coin) (ld : Loaded) (hcoin : coinOf o.coin = some coin) (hld : loadIndex o kvs = .ok ld)
    (hfiles : (files.filterMap fun f => (parseBlkIndex f.name).map fun n => (n, f)) ≠ [])
    (hkey : key ≠ some [])
    (hs : ∀ k, o.start ≤ k → k < o.start + (ld.maxH + 1 - o.start) →
      Servable coin o key (files.filterMap fun f => (parseBlkIndex f.name).map fun n => (n, f)) ld.trimmed k) :
    (run o key kvs files).delivered = List.range' o.start (ld.maxH + 1 - o.start) ∧
    ((run o key kvs files).exit = 0 ∨ (run o key kvs files).exit = 101) ∧
    (o.callback ≠ "simplestats" → o.callback ≠ "balances" → (run o key kvs files).exit = 0) := by
  unfold run
  simp only [hcoin, hld]
  have hne : (files.filterMap fun f => (parseBlkIndex f.name).map fun n => (n, f)).isEmpty = false := by
    cases hx : (files.filterMap fun f => (parseBlkIndex f.name).map fun n => (n, f)) with
    | nil => exact absurd hx hfiles
    | cons a l => rfl
  simp only [hne, Bool.false_eq_true, if_false]
  have hall := driveLoop_all coin o key _ ld.full ld.trimmed (ld.maxH + 1 - o.start) o.start [] [] [] hs
  obtain ⟨hd, x, hx, hxc⟩ := hall
  subst hxc
  have hcp : o.callback ≠ "simplestats" → o.callback ≠ "balances" → ∀ bs, callbackPanics o coin.version bs = false := by
    intro h1 h2 bs
    unfold callbackPanics
    split
    · exact absurd (by assumption) h1
    · exact absurd (by assumption) h2
    · rfl
  cases key with
  | none =>
    simp only [hx, hd]
    refine ⟨by split <;> simp, by split <;> simp, ?_⟩
    intro h1 h2
    simp [hcp h1 h2]
  | some k =>
    cases k with
    | nil => exact absurd rfl hkey
    | cons a l =>
      simp only [hx, hd]
      refine ⟨by split <;> simp, by split <;> simp, ?_⟩
      intro h1 h2
      simp [hcp h1 h2]
end Run
