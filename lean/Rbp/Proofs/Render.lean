import Rbp.Model.Hex
import Rbp.Model.Sha256
/-!
# Rendering used in every csv row: lower-case hex and decimal (C01)
-/
namespace Render

theorem join_toList (l : List String) : (String.join l).toList = l.flatMap String.toList := by
  induction l with
  | nil => simp [String.join]
  | cons a l ih =>
    have : String.join (a :: l) = a ++ String.join l := by
      simp [String.join, List.foldl_cons]
      have gen : ∀ (l : List String) (x : String), List.foldl (fun r s => r ++ s) x l = x ++ List.foldl (fun r s => r ++ s) "" l := by
        intro l
        induction l with
        | nil => simp
        | cons b l ih => intro x; simp only [List.foldl_cons]; rw [ih (x ++ b), ih ("" ++ b)]; simp [String.append_assoc]
      rw [gen]
    rw [this, String.toList_append, ih]; rfl

/-- the characters of `arr_to_hex`: two per byte, high nibble first -/
theorem hex_toList (bs : List UInt8) :
    (Sha.hex bs).toList = bs.flatMap fun b => [Nat.digitChar (b.toNat / 16), Nat.digitChar (b.toNat % 16)] := by
  unfold Sha.hex
  rw [join_toList, List.flatMap_map]
  simp

theorem digit_lower : ∀ n : Fin 16, Nat.digitChar n.val ∈ ['0','1','2','3','4','5','6','7','8','9','a','b','c','d','e','f'] := by decide
theorem digit_val : ∀ n : Fin 16, Hex.val (Nat.digitChar n.val) = some n.val := by decide

/-- scripts and hashes are rendered in lower-case hex, two characters per byte -/
theorem hex_lowercase (bs : List UInt8) :
    (Sha.hex bs).toList.length = 2 * bs.length ∧
    ∀ c ∈ (Sha.hex bs).toList, c ∈ ['0','1','2','3','4','5','6','7','8','9','a','b','c','d','e','f'] := by
  rw [hex_toList]
  constructor
  · induction bs with
    | nil => rfl
    | cons b bs ih => simp [List.flatMap_cons, ih]; omega
  · intro c hc
    simp only [List.mem_flatMap, List.mem_cons, List.not_mem_nil, or_false] at hc
    obtain ⟨b, _, h | h⟩ := hc
    · rw [h]; exact digit_lower ⟨b.toNat / 16, by have := b.toNat_lt; omega⟩
    · rw [h]; exact digit_lower ⟨b.toNat % 16, by omega⟩

theorem unhexGo_hex (bs : List UInt8) (acc : List UInt8) :
    Hex.unhexGo (bs.flatMap fun b => [Nat.digitChar (b.toNat / 16), Nat.digitChar (b.toNat % 16)]) acc = some (acc.reverse ++ bs) := by
  induction bs generalizing acc with
  | nil => simp [Hex.unhexGo]
  | cons b bs ih =>
    simp only [List.flatMap_cons, List.cons_append, List.nil_append, Hex.unhexGo]
    have h1 := digit_val ⟨b.toNat / 16, by have := b.toNat_lt; omega⟩
    have h2 := digit_val ⟨b.toNat % 16, by omega⟩
    simp only at h1 h2
    rw [h1, h2]
    simp only
    rw [ih]
    have : UInt8.ofNat (b.toNat / 16 * 16 + b.toNat % 16) = b := by
      have : b.toNat / 16 * 16 + b.toNat % 16 = b.toNat := by omega
      rw [this]; simp
    simp [this]

/-- the hex rendering determines the bytes: parsing it gives them back (nothing is lost or merged in a script/hash column) -/
theorem unhex_hex (bs : List UInt8) : Hex.unhex (Sha.hex bs) = some bs := by
  unfold Hex.unhex
  rw [hex_toList, unhexGo_hex]
  rfl

/-- integers are rendered in decimal and the rendering determines the number -/
theorem decimal_roundtrip (n : Nat) : Nat.ofDigitChars 10 (toString n).toList 0 = n := by
  simp

/-- decimal digits only -/
theorem decimal_digits (n : Nat) : ∀ c ∈ (toString n).toList, c.isDigit = true := by
  intro c hc
  simp only [Nat.toString_eq_repr, Nat.toList_repr] at hc
  exact Nat.isDigit_of_mem_toDigits (by decide) (by decide) hc
end Render
