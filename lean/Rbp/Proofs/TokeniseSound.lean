import Rbp.Spec.PushRules
/-!
# The push-rule tokeniser is sound: it only ever returns a token list that re-encodes to the script (C06)

Together with `tokenise_enc` (completeness on encodings) this says: `tokenise s = some toks` iff `s` is the encoding of the
well-formed token list `toks`; hence `tokenise s = none` exactly when `s` is the encoding of no token list — some push runs
past the end of the script.
-/
namespace T

theorem le_lt : ∀ bs : Bytes, le bs < 256 ^ bs.length
  | [] => by simp [le]
  | b :: bs => by
    have ih := le_lt bs
    have hb := b.toNat_lt
    simp only [le, List.foldr_cons, List.length_cons, Nat.pow_succ] at ih ⊢
    omega

theorem toLE_le : ∀ bs : Bytes, toLE bs.length (le bs) = bs
  | [] => rfl
  | b :: bs => by
    have ih := toLE_le bs
    have hb := b.toNat_lt
    simp only [le, List.foldr_cons, List.length_cons, toLE] at ih ⊢
    have h1 : (b.toNat + 256 * List.foldr (fun b acc => b.toNat + 256 * acc) 0 bs) % 256 = b.toNat := by omega
    have h2 : (b.toNat + 256 * List.foldr (fun b acc => b.toNat + 256 * acc) 0 bs) / 256 = List.foldr (fun b acc => b.toNat + 256 * acc) 0 bs := by omega
    rw [h1, h2, ih]
    simp

theorem map_cons_eq_some {α} (o : Option (List α)) (x : α) (l : List α) (h : o.map (x :: ·) = some l) :
    ∃ ts, o = some ts ∧ l = x :: ts := by
  cases o with
  | none => simp at h
  | some ts => simp at h; exact ⟨ts, rfl, h.symm⟩

theorem tokenise_sound : ∀ (n : Nat) (s : Bytes) (toks : List Tok), s.length = n → tokenise s = some toks →
    s = toks.flatMap Tok.enc ∧ ∀ t ∈ toks, t.WF := by
  intro n
  induction n using Nat.strongRecOn with
  | _ n ih =>
    intro s toks hn h
    cases s with
    | nil =>
      rw [tokenise] at h
      injection h with h
      subst h
      simp
    | cons b rest =>
      rw [tokenise] at h
      simp only at h
      -- the three PUSHDATA forms share one argument
      have pushK : ∀ (f : Form) (k : Nat), f ≠ .direct → f.width = k → f.opcode = b →
          (if h : k ≤ rest.length then
            if h2 : le (rest.take k) ≤ (rest.drop k).length then
              (tokenise ((rest.drop k).drop (le (rest.take k)))).map (Tok.push f ((rest.drop k).take (le (rest.take k))) :: ·)
            else none
          else none) = some toks → b :: rest = toks.flatMap Tok.enc ∧ ∀ t ∈ toks, t.WF := by
        intro f k hf hw hop hk
        split at hk
        · rename_i hkl
          split at hk
          · rename_i hnl
            obtain ⟨ts, hts, rfl⟩ := map_cons_eq_some _ _ _ hk
            have := ih ((rest.drop k).drop (le (rest.take k))).length (by rw [← hn]; simp only [List.length_drop, List.length_cons]; omega) _ ts rfl hts
            obtain ⟨hs, hwf⟩ := this
            have htl : (rest.take k).length = k := by simp; omega
            have hdl : ((rest.drop k).take (le (rest.take k))).length = le (rest.take k) := by
              rw [List.length_take]; exact Nat.min_eq_left hnl
            refine ⟨?_, ?_⟩
            · rw [List.flatMap_cons, ← hs]
              have henc : Tok.enc (.push f ((rest.drop k).take (le (rest.take k)))) =
                  f.opcode :: (toLE f.width ((rest.drop k).take (le (rest.take k))).length ++ (rest.drop k).take (le (rest.take k))) := by
                cases f <;> first | exact absurd rfl hf | rfl
              rw [henc, hdl, hw, hop]
              have := toLE_le (rest.take k)
              rw [htl] at this
              rw [this]
              simp only [List.cons_append, List.append_assoc, List.take_append_drop]
            · intro t ht
              rcases List.mem_cons.mp ht with e | e
              · subst e
                have hwf' : (Tok.push f ((rest.drop k).take (le (rest.take k)))).WF =
                    (((rest.drop k).take (le (rest.take k))).length < 256 ^ f.width) := by
                  cases f <;> first | exact absurd rfl hf | rfl
                rw [hwf', hdl, hw]
                have := le_lt (rest.take k)
                rw [htl] at this
                exact this
              · exact hwf t e
          · cases hk
        · cases hk
      by_cases h1 : 1 ≤ b.toNat ∧ b.toNat ≤ 75
      · simp only [h1, and_self, if_true] at h
        split at h
        · rename_i hbl
          obtain ⟨ts, hts, rfl⟩ := map_cons_eq_some _ _ _ h
          obtain ⟨hs, hwf⟩ := ih (rest.drop b.toNat).length (by rw [← hn]; simp only [List.length_drop, List.length_cons]; omega) _ ts rfl hts
          have htl : (rest.take b.toNat).length = b.toNat := by simp; omega
          refine ⟨?_, ?_⟩
          · rw [List.flatMap_cons, ← hs]
            show b :: rest = (UInt8.ofNat (rest.take b.toNat).length :: rest.take b.toNat) ++ rest.drop b.toNat
            rw [htl]
            simp
          · intro t ht
            rcases List.mem_cons.mp ht with e | e
            · subst e; show 1 ≤ (rest.take b.toNat).length ∧ (rest.take b.toNat).length ≤ 75; rw [htl]; exact h1
            · exact hwf t e
        · cases h
      · simp only [h1, if_false] at h
        by_cases h2 : b.toNat = 0x4c
        · simp only [h2, if_true] at h
          exact pushK .pd1 1 (by simp) rfl (by apply UInt8.toNat_inj.mp; rw [h2]; rfl) h
        · simp only [h2, if_false] at h
          by_cases h3 : b.toNat = 0x4d
          · simp only [h3, if_true] at h
            exact pushK .pd2 2 (by simp) rfl (by apply UInt8.toNat_inj.mp; rw [h3]; rfl) h
          · simp only [h3, if_false] at h
            by_cases h4 : b.toNat = 0x4e
            · simp only [h4, if_true] at h
              exact pushK .pd4 4 (by simp) rfl (by apply UInt8.toNat_inj.mp; rw [h4]; rfl) h
            · simp only [h4, if_false] at h
              obtain ⟨ts, hts, rfl⟩ := map_cons_eq_some _ _ _ h
              obtain ⟨hs, hwf⟩ := ih rest.length (by rw [← hn]; simp) _ ts rfl hts
              refine ⟨?_, ?_⟩
              · rw [List.flatMap_cons, ← hs]; rfl
              · intro t ht
                rcases List.mem_cons.mp ht with e | e
                · subst e; show b.toNat = 0 ∨ b.toNat > 0x4e; omega
                · exact hwf t e
end T
