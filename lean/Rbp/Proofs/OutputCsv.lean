import Rbp.Model.OutputN
import Rbp.Proofs.RunSpec
/-!
# The write program of csvdump, and what its four files must contain (C10 ∘ C01)
-/
namespace Run
open CB W

/-- a csv line as written: the row and a newline -/
def lineBytes (s : String) : Bytes := s.toUTF8.toList ++ [10]

/-- `CsvDump::on_block`: the block row to file 0; then per transaction its row to file 1, its input rows to file 2, its output
    rows to file 3 — four writers, interleaved in this order -/
def csvWritesBlock (ver : UInt8) (b : EBlock) : List (Nat × Bytes) :=
  let bh := Csv.hashHex (A.sha256d b.blk.header.toBytes)
  (0, lineBytes (Csv.rows ver b.size b.height b.blk).1) ::
    b.blk.txs.flatMap fun t =>
      (1, lineBytes (txRowsR ver bh t).1) :: ((txRowsR ver bh t).2.1.map fun l => (2, lineBytes l)) ++
        ((txRowsR ver bh t).2.2.map fun l => (3, lineBytes l))

def csvWrites (ver : UInt8) (bs : List EBlock) : List (Nat × Bytes) := bs.flatMap (csvWritesBlock ver)

theorem content_append (i : Nat) (a b : List (Nat × Bytes)) : ON.content i (a ++ b) = ON.content i a ++ ON.content i b := by
  simp [ON.content, List.filter_append]

theorem content_flatMap {α} (i : Nat) (f : α → List (Nat × Bytes)) (l : List α) :
    ON.content i (l.flatMap f) = l.flatMap (fun a => ON.content i (f a)) := by
  induction l with
  | nil => rfl
  | cons a l ih => simp [List.flatMap_cons, content_append, ih]

theorem content_map_tag (i j : Nat) (ls : List String) :
    ON.content i (ls.map fun l => (j, lineBytes l)) = if j = i then ls.flatMap lineBytes else [] := by
  induction ls with
  | nil => simp [ON.content]
  | cons l ls ih =>
    have : ON.content i ((j, lineBytes l) :: ls.map fun l => (j, lineBytes l)) =
        (if j = i then lineBytes l else []) ++ ON.content i (ls.map fun l => (j, lineBytes l)) := by
      by_cases h : j = i <;> simp [ON.content, List.filter_cons, h]
    rw [List.map_cons, this, ih]
    by_cases h : j = i <;> simp [h]

theorem content_cons (i j : Nat) (d : Bytes) (rest : List (Nat × Bytes)) :
    ON.content i ((j, d) :: rest) = (if j = i then d else []) ++ ON.content i rest := by
  by_cases h : j = i <;> simp [ON.content, List.filter_cons, h]

theorem flatMap_flatMap_map {α β γ} (l : List α) (f : α → List β) (g : β → List γ) :
    (l.flatMap f).flatMap g = l.flatMap (fun a => (f a).flatMap g) := by
  induction l with
  | nil => rfl
  | cons a l ih => simp [List.flatMap_cons, List.flatMap_append, ih]

/-- one block: what its writes add to each of the four files = its rows, one line each -/
theorem csv_content_block (ver : UInt8) (b : EBlock) :
    ON.content 0 (csvWritesBlock ver b) = lineBytes (Csv.rows ver b.size b.height b.blk).1 ∧
    ON.content 1 (csvWritesBlock ver b) = (Csv.rows ver b.size b.height b.blk).2.1.flatMap lineBytes ∧
    ON.content 2 (csvWritesBlock ver b) = (Csv.rows ver b.size b.height b.blk).2.2.1.flatMap lineBytes ∧
    ON.content 3 (csvWritesBlock ver b) = (Csv.rows ver b.size b.height b.blk).2.2.2.flatMap lineBytes := by
  have key : ∀ i, ON.content i (csvWritesBlock ver b) =
      (if 0 = i then lineBytes (Csv.rows ver b.size b.height b.blk).1 else []) ++
      b.blk.txs.flatMap fun t =>
        (if 1 = i then lineBytes (txRowsR ver (Csv.hashHex (A.sha256d b.blk.header.toBytes)) t).1 else []) ++
        ((if 2 = i then (txRowsR ver (Csv.hashHex (A.sha256d b.blk.header.toBytes)) t).2.1.flatMap lineBytes else []) ++
         (if 3 = i then (txRowsR ver (Csv.hashHex (A.sha256d b.blk.header.toBytes)) t).2.2.flatMap lineBytes else [])) := by
    intro i
    simp only [csvWritesBlock, content_cons, content_flatMap, content_append, content_map_tag, List.append_assoc]
  rw [rows_eq_txRowsR]
  refine ⟨?_, ?_, ?_, ?_⟩
  · rw [key 0]; simp [rows_eq_txRowsR]
  · rw [key 1]; simp [List.flatMap_map, flatMap_flatMap_map]
  · rw [key 2]; simp [List.flatMap_map, flatMap_flatMap_map]
  · rw [key 3]; simp [List.flatMap_map, flatMap_flatMap_map]

/-- the whole run: what each of the four tmp files must contain in the end = the lines of the corresponding csv file -/
theorem csv_content (ver : UInt8) (start last : Nat) (bs : List EBlock) :
    ((csvFiles ver start last bs).map (·.2)) =
      [(bs.map fun b => (Csv.rows ver b.size b.height b.blk).1), bs.flatMap (fun b => (Csv.rows ver b.size b.height b.blk).2.1),
       bs.flatMap (fun b => (Csv.rows ver b.size b.height b.blk).2.2.1), bs.flatMap (fun b => (Csv.rows ver b.size b.height b.blk).2.2.2)] ∧
    ON.content 0 (csvWrites ver bs) = (bs.map fun b => (Csv.rows ver b.size b.height b.blk).1).flatMap lineBytes ∧
    ON.content 1 (csvWrites ver bs) = (bs.flatMap fun b => (Csv.rows ver b.size b.height b.blk).2.1).flatMap lineBytes ∧
    ON.content 2 (csvWrites ver bs) = (bs.flatMap fun b => (Csv.rows ver b.size b.height b.blk).2.2.1).flatMap lineBytes ∧
    ON.content 3 (csvWrites ver bs) = (bs.flatMap fun b => (Csv.rows ver b.size b.height b.blk).2.2.2).flatMap lineBytes := by
  refine ⟨by simp [csvFiles, List.flatMap_map], ?_, ?_, ?_, ?_⟩
  · simp only [csvWrites, content_flatMap, (csv_content_block ver _).1, List.flatMap_map]
  · simp only [csvWrites, content_flatMap, (csv_content_block ver _).2.1, flatMap_flatMap_map]
  · simp only [csvWrites, content_flatMap, (csv_content_block ver _).2.2.1, flatMap_flatMap_map]
  · simp only [csvWrites, content_flatMap, (csv_content_block ver _).2.2.2, flatMap_flatMap_map]
end Run
