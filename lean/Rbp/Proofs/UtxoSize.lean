import Rbp.Model.Utxo
open Std
namespace U

def creates {V} : List (Op V) → Nat
  | [] => 0
  | .spend _ :: r => creates r
  | .create _ _ :: r => creates r + 1

/-- the unspent set never holds more entries than outputs were created (plus what it started with): a spend can only shrink it,
    a creation grows it by at most one (an equal key — a duplicate coinbase — replaces) -/
theorem run_size_le {V} (ops : List (Op V)) : ∀ (m : HashMap Key V), (run m ops).size ≤ m.size + creates ops := by
  induction ops with
  | nil => intro m; simp [run, creates]
  | cons op rest ih =>
    intro m
    have := ih (apply m op)
    simp only [run, List.foldl_cons] at this ⊢
    cases op with
    | spend k =>
      have h : (m.erase k).size ≤ m.size := HashMap.size_erase_le
      simp only [apply, creates] at this ⊢; omega
    | create k v =>
      have h : (m.insert k v).size ≤ m.size + 1 := HashMap.size_insert_le
      simp only [apply, creates] at this ⊢; omega
end U
