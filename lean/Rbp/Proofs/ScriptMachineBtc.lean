import Rbp.Model.ScriptMachineBtc
import Rbp.Proofs.Tokens
namespace SMB
open S SM

theorem keysM_eq : ∀ (l : List (Option Ins)) (n : Nat), n + l.length ≤ 255 →
    keysM l n = .ok (isMultisigLib.keys l n)
  | [], n, _ => by simp [keysM, isMultisigLib.keys]
  | none :: r, n, _ => by simp [keysM, isMultisigLib.keys]
  | some (.op o) :: r, n, _ => by
    simp only [keysM, isMultisigLib.keys]
    cases pushnum o with
    | none => rfl
    | some k => by_cases hk : k = n <;> simp [hk]
  | some (.push d) :: r, n, h => by
    have h' : n + 1 + r.length ≤ 255 := by simp at h; omega
    have hn : ¬ n + 1 > 255 := by omega
    simp only [keysM, isMultisigLib.keys, hn, if_false]
    exact keysM_eq r (n + 1) h'

/-- one unfolding of the instruction iterator -/
theorem instrs_cons (b : UInt8) (rest : Bytes) :
    instrs (b :: rest) =
      (let pushK (k : Nat) : List (Option Ins) :=
        if h : k ≤ rest.length then
          let n := leN (rest.take k); let r := rest.drop k
          if h2 : n ≤ r.length then some (.push (r.take n)) :: instrs (r.drop n) else [none]
        else [none]
      match classify b with
      | .pushbytes n => if h : n ≤ rest.length then some (.push (rest.take n)) :: instrs (rest.drop n) else [none]
      | _ =>
        if b = 0x4c then pushK 1 else if b = 0x4d then pushK 2 else if b = 0x4e then pushK 4
        else some (.op b) :: instrs rest) := by
  rw [instrs]
  rfl

theorem instrs_length : ∀ (n : Nat) (s : Bytes), s.length = n → (instrs s).length ≤ s.length + 1 := by
  intro n
  induction n using Nat.strongRecOn with
  | _ n ih =>
    intro s hn
    cases s with
    | nil => simp [instrs]
    | cons b rest =>
      have ihd : ∀ k, (instrs (rest.drop k)).length ≤ (rest.drop k).length + 1 := by
        intro k; exact ih (rest.drop k).length (by simp at hn ⊢; omega) _ rfl
      have ihdd : ∀ k m, (instrs ((rest.drop k).drop m)).length ≤ ((rest.drop k).drop m).length + 1 := by
        intro k m; rw [List.drop_drop]; exact ihd _
      have pushK (k : Nat) : (if h : k ≤ rest.length then
          (if h2 : leN (rest.take k) ≤ (rest.drop k).length then
            some (Ins.push ((rest.drop k).take (leN (rest.take k)))) :: instrs ((rest.drop k).drop (leN (rest.take k)))
          else [none])
        else [none]).length ≤ (b :: rest).length + 1 := by
        by_cases hk : k ≤ rest.length
        · simp only [hk, dite_true]
          by_cases h2 : leN (rest.take k) ≤ (rest.drop k).length
          · simp only [h2, dite_true, List.length_cons]
            have := ihdd k (leN (rest.take k))
            simp only [List.length_drop] at this h2 ⊢
            omega
          · simp only [h2, dite_false, List.length_cons, List.length_nil]; omega
        · simp only [hk, dite_false, List.length_cons, List.length_nil]; omega
      rw [instrs_cons]
      simp only
      cases hc : classify b with
      | pushbytes m =>
        simp only
        by_cases hm : m ≤ rest.length
        · simp only [hm, dite_true, List.length_cons]
          have := ihd m
          simp only [List.length_drop] at this ⊢
          omega
        · simp only [hm, dite_false, List.length_cons, List.length_nil]; omega
      | illegal | noop | ret | pushnum | ordinary =>
        simp only
        by_cases h1 : b = 0x4c
        · simp only [if_pos h1]; exact pushK 1
        · simp only [if_neg h1]
          by_cases h2 : b = 0x4d
          · simp only [if_pos h2]; exact pushK 2
          · simp only [if_neg h2]
            by_cases h4 : b = 0x4e
            · simp only [if_pos h4]; exact pushK 4
            · simp only [if_neg h4, List.length_cons]
              have := ihd 0
              simp only [List.drop_zero] at this
              omega

def somes (l : List (Option Ins)) : Nat := (l.filter Option.isSome).length

theorem somes_cons_some (x : Ins) (l : List (Option Ins)) : somes (some x :: l) = somes l + 1 := by simp [somes]
theorem somes_none : somes [none] = 0 := by simp [somes]

/-- every successfully decoded instruction consumes at least one byte -/
theorem somes_le : ∀ (n : Nat) (s : Bytes), s.length = n → somes (instrs s) ≤ s.length := by
  intro n
  induction n using Nat.strongRecOn with
  | _ n ih =>
    intro s hn
    cases s with
    | nil => simp [instrs, somes]
    | cons b rest =>
      have ihd : ∀ k, somes (instrs (rest.drop k)) ≤ (rest.drop k).length := by
        intro k; exact ih (rest.drop k).length (by simp at hn ⊢; omega) _ rfl
      have ihdd : ∀ k m, somes (instrs ((rest.drop k).drop m)) ≤ ((rest.drop k).drop m).length := by
        intro k m; rw [List.drop_drop]; exact ihd _
      have pushK (k : Nat) : somes (if h : k ≤ rest.length then
          (if h2 : leN (rest.take k) ≤ (rest.drop k).length then
            some (Ins.push ((rest.drop k).take (leN (rest.take k)))) :: instrs ((rest.drop k).drop (leN (rest.take k)))
          else [none])
        else [none]) ≤ (b :: rest).length := by
        by_cases hk : k ≤ rest.length
        · simp only [hk, dite_true]
          by_cases h2 : leN (rest.take k) ≤ (rest.drop k).length
          · simp only [h2, dite_true, somes_cons_some, List.length_cons]
            have := ihdd k (leN (rest.take k))
            simp only [List.length_drop] at this h2 ⊢
            omega
          · simp only [h2, dite_false, somes_none]; omega
        · simp only [hk, dite_false, somes_none]; omega
      rw [instrs_cons]
      simp only
      cases hc : classify b with
      | pushbytes m =>
        simp only
        by_cases hm : m ≤ rest.length
        · simp only [hm, dite_true, somes_cons_some, List.length_cons]
          have := ihd m
          simp only [List.length_drop] at this ⊢
          omega
        · simp only [hm, dite_false, somes_none]; omega
      | illegal | noop | ret | pushnum | ordinary =>
        simp only
        by_cases h1 : b = 0x4c
        · simp only [if_pos h1]; exact pushK 1
        · simp only [if_neg h1]
          by_cases h2 : b = 0x4d
          · simp only [if_pos h2]; exact pushK 2
          · simp only [if_neg h2]
            by_cases h4 : b = 0x4e
            · simp only [if_pos h4]; exact pushK 4
            · simp only [if_neg h4, somes_cons_some, List.length_cons]
              have := ihd 0
              simp only [List.drop_zero] at this
              omega

/-- when the key loop hands back exactly `[OP_CHECKMULTISIG]`, it has walked over at least two instructions -/
theorem keys_after_two : ∀ (l : List (Option Ins)) (n k : Nat),
    isMultisigLib.keys l n = some (k, [some (Ins.op 0xae)]) → 2 ≤ somes l
  | [], n, k, h => by simp [isMultisigLib.keys] at h
  | none :: r, n, k, h => by simp [isMultisigLib.keys] at h
  | some (.push d) :: r, n, k, h => by
    simp only [isMultisigLib.keys] at h
    have := keys_after_two r (n + 1) k h
    rw [somes_cons_some]; omega
  | some (.op o) :: r, n, k, h => by
    simp only [isMultisigLib.keys] at h
    have hr : r = [some (Ins.op 0xae)] := by
      cases hp : pushnum o with
      | none => simp [hp] at h; exact h.2
      | some j =>
        simp only [hp] at h
        split at h
        · cases h
        · simp at h; exact h.2
    subst hr
    simp [somes]

theorem multisig_len (s : Bytes) (h : isMultisigLib s = true) : 3 ≤ s.length := by
  unfold isMultisigLib at h
  have hle := somes_le s.length s rfl
  cases hi : instrs s with
  | nil => simp [hi] at h
  | cons x rest =>
    cases x with
    | none => simp [hi] at h
    | some ins =>
      cases ins with
      | push d => simp [hi] at h
      | op m =>
        simp only [hi] at h
        cases hp : pushnum m with
        | none => simp [hp] at h
        | some req =>
          simp only [hp] at h
          cases hk : isMultisigLib.keys rest 0 with
          | none => simp [hk] at h
          | some p =>
            obtain ⟨n, after⟩ := p
            simp only [hk] at h
            split at h
            · cases h
            · split at h
              · have := keys_after_two rest 0 n hk
                rw [hi, somes_cons_some] at hle
                omega
              · cases h

theorem isBareMultisigM_eq (s : Bytes) : isBareMultisigM s = .ok (isBareMultisig s) := by
  unfold isBareMultisigM isBareMultisig
  by_cases hg : ((instrs s).take 20).length ≤ 19
  · simp only [hg, if_true, decide_true, Bool.true_and]
    -- the guard bounds the instruction count, so the u8 counter cannot overflow
    have hlen : (instrs s).length ≤ 19 := by
      rcases Nat.lt_or_ge (instrs s).length 20 with h | h
      · omega
      · have : ((instrs s).take 20).length = 20 := by simp [List.length_take]; omega
        omega
    have hlib : isMultisigLibM s = .ok (isMultisigLib s) := by
      unfold isMultisigLibM isMultisigLib
      cases hi : instrs s with
      | nil => rfl
      | cons x rest =>
        cases x with
        | none => rfl
        | some ins =>
          cases ins with
          | push d => rfl
          | op m =>
            simp only
            cases hp : pushnum m with
            | none => rfl
            | some req =>
              simp only
              have hr : 0 + rest.length ≤ 255 := by rw [hi] at hlen; simp at hlen; omega
              rw [keysM_eq rest 0 hr]
              cases hk : isMultisigLib.keys rest 0 with
              | none => rfl
              | some p =>
                obtain ⟨n, after⟩ := p
                simp only
                by_cases hq : req > n
                · simp [hq]
                · simp only [hq, if_false]
                  split
                  · rfl
                  · rename_i hne
                    split
                    · exact absurd rfl hne
                    · rfl
    rw [hlib]
    cases hm : isMultisigLib s with
    | false => simp
    | true =>
      have h3 := multisig_len s hm
      have h2 : ¬ s.length < 2 := by omega
      have hidx : s.length - 2 < s.length := by omega
      simp only [h2, if_false, List.getElem?_eq_getElem hidx, Bool.true_and]
      have hget : S.get s (s.length - 2) = s[s.length - 2] := by
        simp [S.get, List.getD, List.getElem?_eq_getElem hidx]
      rw [hget]
  · simp only [hg, if_false, decide_false, Bool.false_and]

theorem p2pkKeyM_eq (s : Bytes) (key : Bytes) (h : isP2pk s = some key) : p2pkKeyM s = .ok (some key) := by
  unfold isP2pk at h
  cases s with
  | nil => simp at h
  | cons b rest =>
    have hg0 : S.get (b :: rest) 0 = b := by simp [S.get, List.getD]
    unfold p2pkKeyM
    rw [instrs_cons]
    by_cases h1 : (b :: rest).length = 67 ∧ S.get (b :: rest) 0 = 0x41 ∧ S.get (b :: rest) 66 = 0xac
    · simp only [h1, and_self, if_true, Option.some.injEq] at h
      have hb : b = 0x41 := by rw [← hg0]; exact h1.2.1
      have hl : rest.length = 66 := by have := h1.1; simp at this; omega
      subst hb
      have hc : classify 0x41 = .pushbytes 65 := by decide
      simp only [hc]
      have : 65 ≤ rest.length := by omega
      simp only [this, dite_true, List.getElem?_cons_zero]
      rw [← h]; simp
    · rw [if_neg h1] at h
      by_cases h2 : (b :: rest).length = 35 ∧ S.get (b :: rest) 0 = 0x21 ∧ S.get (b :: rest) 34 = 0xac
      · simp only [h2, and_self, if_true, Option.some.injEq] at h
        have hb : b = 0x21 := by rw [← hg0]; exact h2.2.1
        have hl : rest.length = 34 := by have := h2.1; simp at this; omega
        subst hb
        have hc : classify 0x21 = .pushbytes 33 := by decide
        simp only [hc]
        have : 33 ≤ rest.length := by omega
        simp only [this, dite_true, List.getElem?_cons_zero]
        rw [← h]; simp
      · rw [if_neg h2] at h; cases h

/-- the Bitcoin/testnet3 path, modelled with its panic sites explicit, never panics and computes `S.evalBtc` -/
theorem evalBtcM_eq (testnet : Bool) (s : Bytes) : evalBtcM testnet s = .ok (evalBtc testnet s) := by
  unfold evalBtcM evalBtc
  simp only
  by_cases h6 : s.head? = some 0x6a
  · rw [if_pos h6, if_pos h6]; rfl
  · rw [if_neg h6, if_neg h6]
    by_cases hu : unspendableFirst s = true
    · rw [if_pos hu, if_pos hu]
    · rw [if_neg hu, if_neg hu]
      cases hk : isP2pk s with
      | some key =>
        simp only
        rw [p2pkKeyM_eq s key hk]
      | none =>
        simp only
        rw [isBareMultisigM_eq]
        cases isBareMultisig s <;> simp only [apply_ite (Out.ok (α := Eval))] <;> rfl
end SMB
