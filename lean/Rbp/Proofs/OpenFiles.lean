import Rbp.Proofs.Driver
import Rbp.Proofs.Index
namespace Run
open Wk CB

/-- keys of the height map are pairwise distinct -/
theorem insertHeight_nodup (m : List (Nat × Rec)) (r : Rec) (h : (m.map (·.1)).Nodup) :
    ((insertHeight m r).map (·.1)).Nodup := by
  unfold insertHeight
  simp only [List.map_cons, List.nodup_cons]
  refine ⟨?_, h.sublist (List.Sublist.map _ List.filter_sublist)⟩
  intro hm
  obtain ⟨x, hx, hxe⟩ := List.mem_map.mp hm
  have := (List.mem_filter.mp hx).2
  simp [hxe] at this

theorem foldl_insertHeight_nodup (l : List Rec) : ∀ (m : List (Nat × Rec)), (m.map (·.1)).Nodup →
    ((l.foldl insertHeight m).map (·.1)).Nodup := by
  induction l with
  | nil => intro m h; exact h
  | cons r l ih => intro m h; exact ih _ (insertHeight_nodup m r h)

theorem buildIndex_nodup (kvs : List (W.Bytes × W.Bytes)) (idx : List (Nat × Rec)) (h : buildIndex kvs = .ok idx) :
    (idx.map (·.1)).Nodup := by
  unfold buildIndex at h
  cases hc : collect kvs with
  | err m => simp [hc] at h
  | panic m => simp [hc] at h
  | ok recs =>
    simp only [hc] at h
    cases ht : pickTip recs with
    | none => simp [ht] at h; subst h; simp
    | some tip =>
      simp only [ht] at h
      injection h with h
      subst h
      exact foldl_insertHeight_nodup _ [] (by simp)

/-- with distinct keys, `lookup` finds exactly the members -/
theorem lookup_iff_mem (m : List (Nat × Rec)) (hnd : (m.map (·.1)).Nodup) (h : Nat) (r : Rec) :
    lookup m h = some r ↔ (h, r) ∈ m := by
  induction m with
  | nil => simp [lookup]
  | cons p m ih =>
    simp only [List.map_cons, List.nodup_cons] at hnd
    obtain ⟨k, v⟩ := p
    unfold lookup at ih ⊢
    by_cases hp : k = h
    · subst hp
      simp only [List.find?_cons, beq_self_eq_true, Option.map_some, Option.some.injEq, List.mem_cons, Prod.mk.injEq, true_and]
      constructor
      · intro e; exact Or.inl e.symm
      · rintro (e | e)
        · exact e.symm
        · exact absurd (List.mem_map_of_mem (f := (·.1)) e) hnd.1
    · have hb : (k == h) = false := by simpa using hp
      simp only [List.find?_cons, hb, List.mem_cons, Prod.mk.injEq]
      rw [ih hnd.2]
      constructor
      · intro e; exact Or.inr e
      · rintro (⟨e, _⟩ | e)
        · exact absurd e.symm hp
        · exact e

def mhbStep (f : Nat) (a : Option Nat) (p : Nat × Rec) : Option Nat :=
  if p.2.file = f then (match a with | none => some p.1 | some m => some (max m p.1)) else a

theorem maxHeightByBlk_eq (idx : List (Nat × Rec)) (f : Nat) : maxHeightByBlk idx f = idx.foldl (mhbStep f) none := rfl

/-- the fold only grows, and covers every record of the file -/
theorem mhb_fold_ge (f : Nat) : ∀ (idx : List (Nat × Rec)) (a : Option Nat),
    (∀ m0, a = some m0 → ∃ m, idx.foldl (mhbStep f) a = some m ∧ m0 ≤ m) ∧
    (∀ h r, (h, r) ∈ idx → r.file = f → ∃ m, idx.foldl (mhbStep f) a = some m ∧ h ≤ m) := by
  intro idx
  induction idx with
  | nil => intro a; exact ⟨fun m0 h => ⟨m0, by simpa using h, Nat.le_refl _⟩, fun h r hm => by cases hm⟩
  | cons p idx ih =>
    intro a
    simp only [List.foldl_cons]
    obtain ⟨ih1, ih2⟩ := ih (mhbStep f a p)
    constructor
    · intro m0 ha
      subst ha
      by_cases hp : p.2.file = f
      · obtain ⟨m, hm, hle⟩ := ih1 (max m0 p.1) (by simp [mhbStep, hp])
        exact ⟨m, hm, by omega⟩
      · exact ih1 m0 (by simp [mhbStep, hp])
    · intro h r hm hf
      rcases List.mem_cons.mp hm with e | e
      · subst e
        cases a with
        | none =>
          obtain ⟨m, hm', hle⟩ := ih1 h (by simp [mhbStep, hf])
          exact ⟨m, hm', hle⟩
        | some m0 =>
          obtain ⟨m, hm', hle⟩ := ih1 (max m0 h) (by simp [mhbStep, hf])
          exact ⟨m, hm', by omega⟩
      · exact ih2 h r e hf

/-- the maximum is attained by a record of that file (or was the initial value) -/
theorem mhb_fold_attained (f : Nat) : ∀ (idx : List (Nat × Rec)) (a : Option Nat) (m : Nat),
    idx.foldl (mhbStep f) a = some m → a = some m ∨ ∃ r, (m, r) ∈ idx ∧ r.file = f := by
  intro idx
  induction idx with
  | nil => intro a m h; exact Or.inl (by simpa using h)
  | cons p idx ih =>
    intro a m h
    simp only [List.foldl_cons] at h
    rcases ih _ m h with e | ⟨r, hr, hf⟩
    · by_cases hp : p.2.file = f
      · cases a with
        | none =>
          simp [mhbStep, hp] at e
          exact Or.inr ⟨p.2, by rw [← e]; simp, hp⟩
        | some m0 =>
          simp [mhbStep, hp] at e
          by_cases hmax : m0 ≤ p.1
          · have : m = p.1 := by omega
            exact Or.inr ⟨p.2, by rw [this]; simp, hp⟩
          · have : m = m0 := by omega
            exact Or.inl (by rw [this])
      · simp [mhbStep, hp] at e
        exact Or.inl e
    · exact Or.inr ⟨r, List.mem_cons_of_mem _ hr, hf⟩

/-- invariant of the open set: every open file still holds a block at or above `next` -/
def OpenInv (full : List (Nat × Rec)) (next : Nat) (opened : List Nat) : Prop :=
  ∀ f ∈ opened, ∃ m, maxHeightByBlk full f = some m ∧ next ≤ m

theorem key_unique (full : List (Nat × Rec)) (hnd : (full.map (·.1)).Nodup) (h : Nat) (r r' : Rec)
    (h1 : (h, r) ∈ full) (h2 : (h, r') ∈ full) : r = r' := by
  have e1 := (lookup_iff_mem full hnd h r).mpr h1
  have e2 := (lookup_iff_mem full hnd h r').mpr h2
  rw [e1] at e2
  exact Option.some.inj e2

/-- C17 on the executed model: along the driver loop, every blk file whose reader is open still holds a block of a height
    yet to come — in every state the loop can stop in (complete, gap, error) -/
theorem driveLoop_openInv (coin : Coin) (o : Opts) (key : Option W.Bytes) (files : List (Nat × BlkFile))
    (full trimmed : List (Nat × Rec)) (hnd : (full.map (·.1)).Nodup)
    (hsub : ∀ h r, lookup trimmed h = some r → lookup full h = some r) :
    ∀ (n h : Nat) (opened : List Nat) (acc : List EBlock) (evs : List Ev), OpenInv full h opened →
      acc.length ≤ (driveLoop coin o key files full trimmed h n opened acc evs).blocks.length ∧
      OpenInv full (h + ((driveLoop coin o key files full trimmed h n opened acc evs).blocks.length - acc.length))
        (driveLoop coin o key files full trimmed h n opened acc evs).openSet := by
  intro n
  induction n with
  | zero => intro h opened acc evs inv; simpa [driveLoop] using inv
  | succ n ih =>
    intro h opened acc evs inv
    rw [driveLoop]
    cases hl : lookup trimmed h with
    | none => simpa using inv
    | some r =>
      simp only
      have hmem : (h, r) ∈ full := (lookup_iff_mem full hnd h r).mp (hsub h r hl)
      obtain ⟨mr, hmr, hle⟩ := (mhb_fold_ge r.file full none).2 h r hmem rfl
      have hmr' : maxHeightByBlk full r.file = some mr := hmr
      -- the open set after `open()`
      have inv1 : OpenInv full h (if opened.contains r.file then opened else r.file :: opened) := by
        intro f hf
        by_cases hc : opened.contains r.file = true
        · simp only [hc, if_true] at hf; exact inv f hf
        · simp only [hc, Bool.false_eq_true, if_false] at hf
          rcases List.mem_cons.mp hf with e | e
          · subst e; exact ⟨mr, hmr, hle⟩
          · exact inv f e
      generalize (if opened.contains r.file then opened else r.file :: opened) = O1 at inv1 ⊢
      generalize (if opened.contains r.file then evs else Ev.opening r.file :: evs) = E1
      cases hfile : (files.find? (·.1 == r.file)).map (·.2) with
      | none => simpa using inv
      | some f =>
        simp only
        cases hr : readAt coin key f r.off with
        | err m => simpa using inv1
        | panic m => simpa using inv1
        | ok szb =>
          obtain ⟨sz, b⟩ := szb
          simp only [hmr']
          -- the open set after the conditional `close()`
          have inv2 : OpenInv full (h + 1) (if decide (h ≥ mr) = true then O1.filter (· ≠ r.file) else O1) := by
            intro g hg
            have hg1 : g ∈ O1 := by
              by_cases hcl : decide (h ≥ mr) = true
              · simp only [hcl, if_true] at hg; exact (List.mem_filter.mp hg).1
              · simp only [hcl, Bool.false_eq_true, if_false] at hg; exact hg
            obtain ⟨mg, hmg, hleg⟩ := inv1 g hg1
            refine ⟨mg, hmg, ?_⟩
            by_cases hgr : g = r.file
            · subst hgr
              rw [hmg] at hmr'
              have : mg = mr := Option.some.inj hmr'
              subst this
              by_cases hcl : decide (h ≥ mg) = true
              · simp only [hcl, if_true] at hg
                have := (List.mem_filter.mp hg).2
                simp at this
              · have : ¬ h ≥ mg := by simpa using hcl
                omega
            · rcases Nat.lt_or_ge h mg with hlt | hge
              · omega
              · have heq : mg = h := by omega
                rcases mhb_fold_attained g full none mg hmg with e | ⟨r', hr', hf'⟩
                · cases e
                · rw [heq] at hr'
                  have := key_unique full hnd h r r' hmem hr'
                  rw [← this] at hf'
                  exact absurd hf'.symm hgr
          generalize (if decide (h ≥ mr) = true then O1.filter (· ≠ r.file) else O1) = O2 at inv2 ⊢
          generalize (if decide (h ≥ mr) = true then Ev.closing r.file :: E1 else E1) = E2
          cases hv : (if o.verify = true then verifyBlock coin trimmed b h else Res.ok ()) with
          | err m =>
            have inv3 : OpenInv full h O2 := fun g hg => let ⟨m', e1, e2⟩ := inv2 g hg; ⟨m', e1, by omega⟩
            simpa using inv3
          | panic m =>
            have inv3 : OpenInv full h O2 := fun g hg => let ⟨m', e1, e2⟩ := inv2 g hg; ⟨m', e1, by omega⟩
            simpa using inv3
          | ok u =>
            simp only
            obtain ⟨hlen, hinv⟩ := ih (h + 1) O2 (⟨h, sz, b⟩ :: acc) E2 inv2
            simp only [List.length_cons] at hlen hinv
            refine ⟨by omega, ?_⟩
            have : h + 1 + ((driveLoop coin o key files full trimmed (h + 1) n O2 (⟨h, sz, b⟩ :: acc) E2).blocks.length - (acc.length + 1)) =
                h + ((driveLoop coin o key files full trimmed (h + 1) n O2 (⟨h, sz, b⟩ :: acc) E2).blocks.length - acc.length) := by omega
            rw [← this]
            exact hinv

theorem lookup_filter_key (m : List (Nat × Rec)) (q : Nat → Bool) (k : Nat) :
    lookup (m.filter (fun p => q p.1)) k = if q k then lookup m k else none := by
  unfold lookup
  rw [List.find?_filter]
  by_cases hq : q k = true
  · simp only [hq, if_true]
    congr 1
    apply find_congr
    intro a _
    by_cases ha : a.1 = k
    · simp [ha, hq]
    · simp [ha]
  · simp only [hq, Bool.false_eq_true, if_false]
    have : List.find? (fun (a : Nat × Rec) => decide (q a.1 = true ∧ (a.1 == k) = true)) m = none := by
      rw [List.find?_eq_none]
      intro a _
      by_cases ha : a.1 = k
      · simp [ha, hq]
      · simp [ha]
    simp only [Bool.and_eq_true, Bool.decide_and, Bool.decide_eq_true] at this ⊢
    rw [this]; rfl

theorem loadIndex_trimmed_eq (o : Opts) (kvs : List (W.Bytes × W.Bytes)) (ld : Loaded) (h : loadIndex o kvs = .ok ld) :
    ld.trimmed = if o.start == 0 && o.stop.isNone then ld.full
      else ld.full.filter (fun p => decide (o.start - 1 ≤ p.1) && decide (p.1 ≤ ld.maxH)) := by
  unfold loadIndex at h
  cases hb : buildIndex kvs with
  | err m => simp [hb] at h
  | panic m => simp [hb] at h
  | ok full =>
    simp only [hb] at h
    cases full with
    | nil => simp at h
    | cons p ps =>
      simp only at h
      injection h with h
      subst h
      rfl

/-- whatever the trimmed index answers, the full index answers too (trimming filters by height only) -/
theorem loadIndex_sub (o : Opts) (kvs : List (W.Bytes × W.Bytes)) (ld : Loaded) (h : loadIndex o kvs = .ok ld)
    (k : Nat) (r : Rec) (hk : lookup ld.trimmed k = some r) : lookup ld.full k = some r := by
  rw [loadIndex_trimmed_eq o kvs ld h] at hk
  split at hk
  · exact hk
  · have := lookup_filter_key ld.full (fun x => decide (o.start - 1 ≤ x) && decide (x ≤ ld.maxH)) k
    rw [this] at hk
    split at hk
    · exact hk
    · cases hk

/-- the index built by `get_block_index` has pairwise distinct heights, so the invariant applies to every run -/
theorem loadIndex_nodup (o : Opts) (kvs : List (W.Bytes × W.Bytes)) (ld : Loaded) (h : loadIndex o kvs = .ok ld) :
    (ld.full.map (·.1)).Nodup := by
  unfold loadIndex at h
  cases hb : buildIndex kvs with
  | err m => simp [hb] at h
  | panic m => simp [hb] at h
  | ok full =>
    simp only [hb] at h
    cases full with
    | nil => simp at h
    | cons p ps =>
      simp only at h
      injection h with h
      subst h
      exact buildIndex_nodup kvs _ hb
end Run
