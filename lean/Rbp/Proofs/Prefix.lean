import Rbp.Model.Run
/-!
# For EVERY input the delivered heights are an initial segment of the requested range (C02)
-/
namespace Run
open CB

/-- the driver loop, whatever the index and the files contain, only ever appends consecutive heights starting at `h`, at most `n`
    of them -/
theorem driveLoop_prefix (coin : Coin) (o : Opts) (key : Option W.Bytes) (files : List (Nat × BlkFile)) (full trimmed : List (Nat × Wk.Rec)) :
    ∀ (n h : Nat) (opened : List Nat) (acc : List EBlock) (evs : List Ev),
      ∃ k, k ≤ n ∧ (driveLoop coin o key files full trimmed h n opened acc evs).blocks.map (·.height) =
        acc.reverse.map (·.height) ++ List.range' h k := by
  intro n
  induction n with
  | zero => intro h opened acc evs; exact ⟨0, Nat.le_refl _, by simp [driveLoop]⟩
  | succ n ih =>
    intro h opened acc evs
    rw [driveLoop]
    cases lookup trimmed h with
    | none => exact ⟨0, Nat.zero_le _, by simp⟩
    | some r =>
      simp only
      cases (files.find? (·.1 == r.file)).map (·.2) with
      | none => exact ⟨0, Nat.zero_le _, by simp⟩
      | some f =>
        simp only
        cases readAt coin key f r.off with
        | err m => exact ⟨0, Nat.zero_le _, by simp⟩
        | panic m => exact ⟨0, Nat.zero_le _, by simp⟩
        | ok szb =>
          obtain ⟨sz, b⟩ := szb
          simp only
          cases (if o.verify = true then verifyBlock coin trimmed b h else Res.ok ()) with
          | err m => exact ⟨0, Nat.zero_le _, by simp⟩
          | panic m => exact ⟨0, Nat.zero_le _, by simp⟩
          | ok u =>
            simp only
            have step : ∀ (x : Driven) (e : EBlock), e.height = h →
                (∃ k, k ≤ n ∧ x.blocks.map (·.height) = (e :: acc).reverse.map (·.height) ++ List.range' (h + 1) k) →
                ∃ k, k ≤ n + 1 ∧ x.blocks.map (·.height) = acc.reverse.map (·.height) ++ List.range' h k := by
              intro x e he ⟨k, hk, hx⟩
              refine ⟨k + 1, by omega, ?_⟩
              rw [hx]
              simp [List.range'_succ, he]
            exact step _ ⟨h, sz, b⟩ rfl (ih (h + 1) _ _ _)

/-- **every run.**  Whatever the options, key, index and files: the heights delivered to the callback are `start, start+1, …` —
    ascending, each once, none below `--start`, none above `min(--end, tip)` -/
theorem run_delivers_prefix (o : Opts) (key : Option W.Bytes) (kvs : List (W.Bytes × W.Bytes)) (files : List BlkFile) :
    ∃ k, (run o key kvs files).delivered = List.range' o.start k ∧
      (∀ ld, loadIndex o kvs = .ok ld → k ≤ ld.maxH + 1 - o.start) := by
  unfold run
  cases hc : coinOf o.coin with
  | none => exact ⟨0, rfl, fun _ _ => Nat.zero_le _⟩
  | some coin =>
    cases hl : loadIndex o kvs with
    | err m => exact ⟨0, rfl, fun _ h => by cases h⟩
    | panic m => exact ⟨0, rfl, fun _ h => by cases h⟩
    | ok ld =>
      dsimp only
      split
      · exact ⟨0, rfl, fun _ _ => Nat.zero_le _⟩
      · split
        · exact ⟨0, rfl, fun _ _ => Nat.zero_le _⟩
        · obtain ⟨k, hk, he⟩ := driveLoop_prefix coin o key
            (files.filterMap fun f => (parseBlkIndex f.name).map fun n => (n, f)) ld.full ld.trimmed (ld.maxH + 1 - o.start) o.start [] [] []
          simp only [List.reverse_nil, List.map_nil, List.nil_append] at he
          refine ⟨k, ?_, fun ld' h' => by cases h'; exact hk⟩
          split <;> try (split) <;> simp [he]
          all_goals simp [he]
/-- every block the driver loop hands on has passed `verifyBlock` at its height when `--verify` is on -/
theorem driveLoop_verified (coin : Coin) (o : Opts) (key : Option W.Bytes) (files : List (Nat × BlkFile)) (full trimmed : List (Nat × Wk.Rec))
    (hv : o.verify = true) :
    ∀ (n h : Nat) (opened : List Nat) (acc : List EBlock) (evs : List Ev),
      (∀ b ∈ acc, verifyBlock coin trimmed b.blk b.height = .ok ()) →
      ∀ b ∈ (driveLoop coin o key files full trimmed h n opened acc evs).blocks, verifyBlock coin trimmed b.blk b.height = .ok () := by
  intro n
  induction n with
  | zero => intro h opened acc evs hacc b hb; simp [driveLoop] at hb; exact hacc b hb
  | succ n ih =>
    intro h opened acc evs hacc
    rw [driveLoop]
    cases lookup trimmed h with
    | none => intro b hb; simp at hb; exact hacc b hb
    | some r =>
      simp only
      cases (files.find? (·.1 == r.file)).map (·.2) with
      | none => intro b hb; simp at hb; exact hacc b hb
      | some f =>
        simp only
        cases readAt coin key f r.off with
        | err m => intro b hb; simp at hb; exact hacc b hb
        | panic m => intro b hb; simp at hb; exact hacc b hb
        | ok szb =>
          obtain ⟨sz, blk⟩ := szb
          simp only [hv, if_true]
          cases hvb : verifyBlock coin trimmed blk h with
          | err m => intro b hb; simp at hb; exact hacc b hb
          | panic m => intro b hb; simp at hb; exact hacc b hb
          | ok u =>
            simp only
            apply ih
            intro b hb
            rcases List.mem_cons.mp hb with e | e
            · subst e; cases u; exact hvb
            · exact hacc b e

/-- **`--verify`, every input: success only if every delivered block was accepted.**  Whatever the directory holds, when a
    `--verify` run exits 0 every block handed to the callback satisfied `verifyBlock` at its height (merkle root, genesis hash
    at height 0, prev-hash against the indexed hash of the preceding height — `C09.verify_iff`) -/
theorem run_exit0_all_verified (o : Opts) (key : Option W.Bytes) (kvs : List (W.Bytes × W.Bytes)) (files : List BlkFile)
    (coin : Coin) (ld : Loaded) (hcoin : coinOf o.coin = some coin) (hld : loadIndex o kvs = .ok ld) (hv : o.verify = true) :
    ∀ b ∈ deliveredBlocks o key kvs files, verifyBlock coin ld.trimmed b.blk b.height = .ok () := by
  unfold deliveredBlocks
  simp only [hcoin, hld]
  exact driveLoop_verified coin o key _ ld.full ld.trimmed hv _ _ [] [] [] (fun b hb => by cases hb)
end Run
