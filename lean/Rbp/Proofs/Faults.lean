import Rbp.Model.Run
import Rbp.Proofs.Driver
import Rbp.Proofs.Mono
/-!
# A failing height ends the run with status 1, names the height, and leaves no final-named file (C09, C10)
-/
namespace Run
open Wk CB

/-- height `k` cannot be served, with error message `m`: its blk file is absent, or reading the block at the recorded offset
    fails (file emptied / truncated inside the block / offset past the end: `readAt` returns an error), or `--verify` rejects
    the block that was read -/
def FailsAt (coin : Coin) (o : Opts) (key : Option W.Bytes) (files : List (Nat × BlkFile)) (trimmed : List (Nat × Rec))
    (k : Nat) (m : String) : Prop :=
  ∃ r, lookup trimmed k = some r ∧
    (((files.find? (·.1 == r.file)).map (·.2) = none ∧ m = "Block file for block not found") ∨
     (∃ f, (files.find? (·.1 == r.file)).map (·.2) = some f ∧
        (readAt coin key f r.off = .err m ∨
         (∃ sz b, readAt coin key f r.off = .ok (sz, b) ∧ o.verify = true ∧ verifyBlock coin trimmed b k = .err m))))

theorem driveLoop_fails (coin : Coin) (o : Opts) (key : Option W.Bytes) (files : List (Nat × BlkFile)) (full trimmed : List (Nat × Rec))
    (k : Nat) (m : String) (hf : FailsAt coin o key files trimmed k m) :
    ∀ (n h : Nat) (opened : List Nat) (acc : List EBlock) (evs : List Ev), h ≤ k → k < h + n →
      (∀ j, h ≤ j → j < k → Servable coin o key files trimmed j) →
      (driveLoop coin o key files full trimmed h n opened acc evs).ending = End.errorAt k m ∧
      (driveLoop coin o key files full trimmed h n opened acc evs).blocks.map (·.height) =
        acc.reverse.map (·.height) ++ List.range' h (k - h) := by
  intro n
  induction n with
  | zero => intro h _ _ _ h1 h2; omega
  | succ n ih =>
    intro h opened acc evs h1 h2 hs
    rw [driveLoop]
    by_cases hk : h = k
    · subst hk
      obtain ⟨r, hl, hcase⟩ := hf
      simp only [hl]
      rcases hcase with ⟨hnone, hm⟩ | ⟨f, hsome, hrd⟩
      · simp [hnone, hm]
      · simp only [hsome]
        rcases hrd with he | ⟨sz, b, hok, hv, hve⟩
        · simp [he]
        · simp [hok, hv, hve]
    · obtain ⟨r, f, sz, b, hl, hfile, hr, hv⟩ := hs h (Nat.le_refl _) (by omega)
      simp only [hl, hfile, hr]
      have hvv : (if o.verify = true then verifyBlock coin trimmed b h else Res.ok ()) = Res.ok () := by
        by_cases hvb : o.verify = true
        · simp [hvb, hv hvb]
        · simp [hvb]
      simp only [hvv]
      obtain ⟨e1, e2⟩ := ih (h + 1) _ (⟨h, sz, b⟩ :: acc) _ (by omega) (by omega) (fun j hj1 hj2 => hs j (by omega) hj2)
      refine ⟨e1, ?_⟩
      rw [e2]
      have : k - h = (k - (h + 1)) + 1 := by omega
      rw [this, List.range'_succ]
      simp

/-- **A failing height ends the run.**  If the heights before `k` (from `--start`) can be served and height `k` (inside the
    range) cannot — blk file missing, block unreadable at its offset, or rejected by `--verify` — then the process exits with
    status 1, reports exactly height `k` with the error message, delivered exactly `start..k-1` to the callback, and **no
    final-named output file exists** (`on_complete`, the only place files are renamed, is never reached). -/
theorem run_fails_at (o : Opts) (key : Option W.Bytes) (kvs : List (W.Bytes × W.Bytes)) (files : List BlkFile)
    (coin : Coin) (ld : Loaded) (hcoin : coinOf o.coin = some coin) (hld : loadIndex o kvs = .ok ld)
    (hfiles : (files.filterMap fun f => (parseBlkIndex f.name).map fun n => (n, f)) ≠ [])
    (hkey : key ≠ some []) (k : Nat) (m : String) (hk1 : o.start ≤ k) (hk2 : k ≤ ld.maxH)
    (hf : FailsAt coin o key (files.filterMap fun f => (parseBlkIndex f.name).map fun n => (n, f)) ld.trimmed k m)
    (hs : ∀ j, o.start ≤ j → j < k →
      Servable coin o key (files.filterMap fun f => (parseBlkIndex f.name).map fun n => (n, f)) ld.trimmed j) :
    (run o key kvs files).exit = 1 ∧ (run o key kvs files).errHeight = some k ∧ (run o key kvs files).msg = m ∧
    (run o key kvs files).files = [] ∧ (run o key kvs files).delivered = List.range' o.start (k - o.start) := by
  unfold run
  simp only [hcoin, hld]
  have hne : (files.filterMap fun f => (parseBlkIndex f.name).map fun n => (n, f)).isEmpty = false := by
    cases hx : (files.filterMap fun f => (parseBlkIndex f.name).map fun n => (n, f)) with
    | nil => exact absurd hx hfiles
    | cons a l => rfl
  simp only [hne, Bool.false_eq_true, if_false]
  obtain ⟨he, hb⟩ := driveLoop_fails coin o key _ ld.full ld.trimmed k m hf (ld.maxH + 1 - o.start) o.start [] [] []
    hk1 (by omega) hs
  cases key with
  | none => simp only [he, hb]; simp
  | some kk =>
    cases kk with
    | nil => exact absurd rfl hkey
    | cons a l => simp only [he, hb]; simp
end Run

namespace Run
open W

/-- **C10, truncated or emptied blk file.**  If what the file holds from `offset - 4` on is only a strict prefix of
    `LE32 size ‖ encoding of a well-formed block` (file cut at *any* byte of the prefix or of the block, or empty), reading the
    block fails with the I/O error — it can never yield a (different, shorter) block. -/
theorem parseAt_truncated (coin : Coin) (size : Nat) (hs : size < 256 ^ 4) (b : W.Block) (hb : b.ok coin.auxpow)
    (pre suf : Bytes) (he : toLE 4 size ++ b.enc = pre ++ suf) (hsuf : suf ≠ []) :
    parseAt coin pre = .err "Unable to read block: failed to fill whole buffer" := by
  unfold parseAt
  by_cases hl : pre.length < 4
  · have : readLE 4 pre = none := by simp [readLE, take]; omega
    rw [this]
  · have hlen : (toLE 4 size).length ≤ pre.length := by rw [toLE_length]; omega
    obtain ⟨pre', hp⟩ : ∃ pre', pre = toLE 4 size ++ pre' := by
      rcases List.append_eq_append_iff.mp he with ⟨a', h1, h2⟩ | ⟨c', h1, h2⟩
      · exact ⟨a', h1⟩
      · have : (toLE 4 size).length = pre.length + c'.length := by rw [h1]; simp
        have hc : c' = [] := by
          cases c' with
          | nil => rfl
          | cons x xs => simp at this; omega
        subst hc
        exact ⟨[], by simpa using h1.symm⟩
    subst hp
    rw [readLE_toLE 4 size pre' hs]
    simp only
    have he' : b.enc = pre' ++ suf := by
      rw [List.append_assoc] at he
      exact List.append_cancel_left he
    rw [readBlock_truncated coin.auxpow b hb pre' suf he' hsuf]

/-- an offset at or past the end of the file (nothing to read) is the same fault -/
theorem parseAt_nil (coin : Coin) : parseAt coin [] = .err "Unable to read block: failed to fill whole buffer" := by
  simp [parseAt, readLE, take]
end Run
