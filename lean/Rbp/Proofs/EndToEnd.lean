import Rbp.Proofs.Collect
import Rbp.Proofs.RunSpec
/-!
# From a data directory to the output of the run: one theorem (C01–C04, C09, C11, C12, C14)

A data directory is described by what it *stores*: index key/value pairs among which the records of an active chain
`A 0 … A T` can be found (plus anything else), and blk files that hold, at the offset each active record names, the length
prefix and the encoding of a well-formed block.  For every such directory, every range, every callback:
the run exits 0, delivers exactly `start..min(end,T)`, and its output is the callback's function of those abstract blocks.
-/
namespace Run
open Wk CB W

/-- `ChainStorage::verify` accepts a block iff its merkle root matches and it links to the indexed predecessor (or is the
    coin's genesis block at height 0) -/
theorem verifyBlock_ok (coin : Coin) (idx : List (Nat × Rec)) (b : Csv.RBlock) (h : Nat) (p : Rec)
    (hp : h > 0 → lookup idx (h - 1) = some p)
    (hroot : M.rootRust A.sha256d (txids b) = some b.header.merkle)
    (hgen : h = 0 → blockHash b = coin.genesis) (hprev : h > 0 → b.header.prev = p.hash) :
    verifyBlock coin idx b h = .ok () := by
  unfold verifyBlock
  rw [hroot]
  simp only [ne_eq, not_true_eq_false, if_false]
  by_cases h0 : h = 0
  · simp [h0, hgen h0]
  · have hpos : h > 0 := Nat.pos_of_ne_zero h0
    simp [h0, hp hpos, hprev hpos]

/-- **the run of a data directory.** -/
theorem run_of_directory (o : Opts) (key : Option Bytes) (kvs : List (Bytes × Bytes)) (files : List BlkFile) (coin : Coin)
    (hcoin : coinOf o.coin = some coin) (hkey : key ≠ some [])
    -- the index: distinct keys, decodable `b` records, an active chain among them
    (hnd : (kvs.map (·.1)).Nodup)
    (hdec : ∀ kv ∈ kvs, kv.1 ≠ [] ∧ (kv.1.head? = some 0x62 →
      ∃ hash r, kv = (0x62 :: hash, IndexRec.enc r) ∧ hash.length = 32 ∧ r.ok))
    (A : Nat → Bytes × IndexRec) (T : Nat)
    (hAok : ∀ k, k ≤ T → (A k).1.length = 32 ∧ (A k).2.ok)
    (hmem : ∀ k, k ≤ T → (0x62 :: (A k).1, (A k).2.enc) ∈ kvs)
    (hh : ∀ k, k ≤ T → (A k).2.height = k)
    (hpass : ∀ k, k ≤ T → passes ((A k).2.toRec (A k).1) = true)
    (hlink : ∀ k, k < T → (A (k + 1)).2.prev = (A k).1)
    (hinj : ∀ i j, i ≤ T → j ≤ T → (A i).1 = (A j).1 → i = j)
    (hroot : ∀ kv ∈ kvs, kv.1 ≠ 0x62 :: (A 0).2.prev)
    (hv : validScripts ((A T).2.toRec (A T).1) = true)
    (hcomp : ∀ hash r, (0x62 :: hash, IndexRec.enc r) ∈ kvs → hash.length = 32 → r.ok → passes (r.toRec hash) = true →
      validScripts (r.toRec hash) = true → r.toRec hash = (A T).2.toRec (A T).1 ∨ r.height < T)
    -- the range
    (E : Nat) (hE : E = (match o.stop with | some e => min e T | none => T)) (hstart : o.start ≤ E)
    -- the blk files: every active block of the range is stored where its record says
    (sz : Nat → Nat) (blk : Nat → W.Block)
    (hplaced : ∀ k, o.start ≤ k → k ≤ E →
      ∃ f rest, ((files.filterMap fun f => (parseBlkIndex f.name).map fun n => (n, f)).find?
          (·.1 == ((A k).2.toRec (A k).1).file)).map (·.2) = some f ∧
        4 ≤ ((A k).2.toRec (A k).1).off ∧
        unxor key (((A k).2.toRec (A k).1).off - 4) (bytesFrom f (((A k).2.toRec (A k).1).off - 4)) =
          toLE 4 (sz k) ++ (blk k).enc ++ rest ∧
        sz k < 256 ^ 4 ∧ (blk k).ok coin.auxpow)
    -- with --verify: the stored blocks form a consistent chain (merkle roots, prev-hash links to the indexed hashes, genesis)
    (hver : o.verify = true → ∀ k, o.start ≤ k → k ≤ E →
      M.rootRust _root_.A.sha256d (txids (blk k).toR) = some (blk k).toR.header.merkle ∧
      (k = 0 → blockHash (blk k).toR = coin.genesis) ∧ (k > 0 → (blk k).toR.header.prev = (A (k - 1)).1))
    -- the callback's own u64 sums stay in range (vacuous for csvdump, unspentcsvdump, opreturn)
    (hnp : callbackPanics o coin.version
      ((List.range' o.start (E + 1 - o.start)).map (fun k => (⟨k, sz k, (blk k).toR⟩ : EBlock))) = false) :
    (run o key kvs files).exit = 0 ∧ (run o key kvs files).delivered = List.range' o.start (E + 1 - o.start) ∧
    (run o key kvs files).files = (callbackOut o coin.version E
      ((List.range' o.start (E + 1 - o.start)).map (fun k => (⟨k, sz k, (blk k).toR⟩ : EBlock)))).1 ∧
    (run o key kvs files).stdout = (callbackOut o coin.version E
      ((List.range' o.start (E + 1 - o.start)).map (fun k => (⟨k, sz k, (blk k).toR⟩ : EBlock)))).2 := by
  obtain ⟨ld, hld, hmax, hfull, htrim⟩ := loadIndex_active o kvs hnd hdec A T hAok hmem hh hpass hlink hinj hroot hv hcomp
  have hET : E ≤ T := by rw [hE]; cases o.stop <;> simp <;> omega
  have hmE : ld.maxH = E := by
    rw [hE]
    cases hs : o.stop with
    | none => rw [hs] at hmax; exact hmax
    | some e => rw [hs] at hmax; exact hmax
  have hs : ∀ k, o.start ≤ k → k < o.start + (ld.maxH + 1 - o.start) →
      Stored coin key (files.filterMap fun f => (parseBlkIndex f.name).map fun n => (n, f)) ld.trimmed k (sz k) (blk k) ∧
      (o.verify = true → verifyBlock coin ld.trimmed (blk k).toR k = .ok ()) := by
    intro k hk1 hk2
    have hkE : k ≤ E := by omega
    have hlk : lookup ld.trimmed k = some ((A k).2.toRec (A k).1) := by
      rw [htrim k (by omega) (by omega)]; simp [Nat.le_trans hkE hET]
    obtain ⟨f, rest, hf, h4, hb, hsz, hok⟩ := hplaced k hk1 hkE
    refine ⟨⟨_, f, rest, hlk, hf, h4, hb, hsz, hok⟩, fun hvt => ?_⟩
    obtain ⟨hr, hg, hp⟩ := hver hvt k hk1 hkE
    apply verifyBlock_ok coin ld.trimmed _ k ((A (k - 1)).2.toRec (A (k - 1)).1) _ hr hg
    · intro hpos; rw [hp hpos]; rfl
    · intro hpos
      rw [htrim (k - 1) (by omega) (by omega)]
      simp [Nat.le_trans (by omega : k - 1 ≤ E) hET]
  have := run_stored o key kvs files coin ld hcoin hld hkey sz blk hs (by omega) (by rw [hmE]; exact hnp)
  rw [hmE] at this
  exact this
end Run
