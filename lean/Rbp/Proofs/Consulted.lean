import Rbp.Model.Run
import Rbp.Proofs.Record
/-!
# What a run consults of the index values

`run` uses the key/value pairs of the index only through `decodeRec`: a value may be replaced by any other value that decodes to
the same record (block hash, prev-hash, height, status, file number, data offset) without changing anything a run does.  The
version of the node that wrote the record and its transaction count are decoded and dropped.
-/
namespace Run
open W

theorem insertSorted_map (g : Bytes × Bytes → Bytes × Bytes) (hg : ∀ p, (g p).1 = p.1) (kv : Bytes × Bytes) (l : List (Bytes × Bytes)) :
    insertSorted (g kv) (l.map g) = (insertSorted kv l).map g := by
  induction l with
  | nil => rfl
  | cons x xs ih =>
    simp only [List.map_cons, insertSorted, hg]
    split
    · simp
    · simp [ih]

theorem sortKvs_map (g : Bytes × Bytes → Bytes × Bytes) (hg : ∀ p, (g p).1 = p.1) (l : List (Bytes × Bytes)) :
    sortKvs (l.map g) = (sortKvs l).map g := by
  induction l with
  | nil => rfl
  | cons x xs ih =>
    simp only [sortKvs, List.map_cons, List.foldr_cons] at ih ⊢
    rw [ih, insertSorted_map g hg]

theorem collect_go_map (f : Bytes → Bytes → Bytes) (hf : ∀ k v, decodeRec k (f k v) = decodeRec k v)
    (l : List (Bytes × Bytes)) (acc : List Wk.Rec) :
    collect.go (l.map fun p => (p.1, f p.1 p.2)) acc = collect.go l acc := by
  induction l generalizing acc with
  | nil => rfl
  | cons x xs ih =>
    obtain ⟨k, v⟩ := x
    simp only [List.map_cons, collect.go]
    cases k with
    | nil => rfl
    | cons b t =>
      simp only [hf]
      split
      · split
        · split <;> exact ih _
        · rfl
        · rfl
      · exact ih _

theorem collect_map (f : Bytes → Bytes → Bytes) (hf : ∀ k v, decodeRec k (f k v) = decodeRec k v) (kvs : List (Bytes × Bytes)) :
    collect (kvs.map fun p => (p.1, f p.1 p.2)) = collect kvs := by
  unfold collect
  rw [sortKvs_map (fun p => (p.1, f p.1 p.2)) (fun _ => rfl)]
  exact collect_go_map f hf _ _
theorem buildIndex_map (f : Bytes → Bytes → Bytes) (hf : ∀ k v, decodeRec k (f k v) = decodeRec k v) (kvs : List (Bytes × Bytes)) :
    buildIndex (kvs.map fun p => (p.1, f p.1 p.2)) = buildIndex kvs := by
  unfold buildIndex; rw [collect_map f hf]

theorem loadIndex_map (o : Opts) (f : Bytes → Bytes → Bytes) (hf : ∀ k v, decodeRec k (f k v) = decodeRec k v) (kvs : List (Bytes × Bytes)) :
    loadIndex o (kvs.map fun p => (p.1, f p.1 p.2)) = loadIndex o kvs := by
  unfold loadIndex; rw [buildIndex_map f hf]

theorem run_map (o : Opts) (key : Option Bytes) (fs : List BlkFile) (f : Bytes → Bytes → Bytes)
    (hf : ∀ k v, decodeRec k (f k v) = decodeRec k v) (kvs : List (Bytes × Bytes)) :
    run o key (kvs.map fun p => (p.1, f p.1 p.2)) fs = run o key kvs fs := by
  unfold run; rw [loadIndex_map o f hf]

theorem decodeRec_client_ntx (hash : Bytes) (hh : hash.length = 32) (r : IndexRec) (hk : r.ok) (c n : Nat) (hc : c < 2^64) (hn : n < 2^64) :
    decodeRec (0x62 :: hash) ({ r with client := c, ntx := n } : IndexRec).enc = decodeRec (0x62 :: hash) r.enc := by
  have hk' : ({ r with client := c, ntx := n } : IndexRec).ok := by
    unfold IndexRec.ok at hk ⊢
    simp only
    exact ⟨hc, hk.2.1, hk.2.2.1, hn, hk.2.2.2.2⟩
  unfold decodeRec
  rw [record_roundtrip hash hh r hk, record_roundtrip hash hh _ hk']
end Run
