import Rbp.Model.Run
import Rbp.Proofs.Record
import Rbp.Proofs.Driver
/-!
# From a data directory that stores a chain to the rows of the run (C01, C02, C14)

`Stored … k sz b`: the index names, for height `k`, a blk file that is present and whose bytes at `offset - 4` are the LE32
length prefix `sz` followed by the on-disk encoding of the well-formed abstract block `b` (anything may follow).
When every height of the range is stored like this the run delivers exactly those blocks and the callback output is
the callback's function of *the abstract blocks*.
-/
namespace Run
open Wk CB W

/-- rows of one parsed transaction (what `Csv.rows` does per transaction) -/
def txRowsR (ver : UInt8) (bh : String) (t : RTx) : String × List String × List String :=
  let txid := Csv.hashHex (A.sha256d t.toBytes)
  (s!"{txid};{bh};{t.version};{t.lock}",
   t.ins.map (fun i => s!"{txid};{Csv.hashHex i.prev};{i.idx};{Sha.hex i.script};{i.seq}"),
   (List.range t.outs.length).zip t.outs |>.map (fun (k, o) =>
      s!"{txid};{k};{o.value};{Sha.hex o.script};{((S.eval ver o.script).address).getD ""}"))

/-- rows of one abstract transaction: txid = double-SHA256 of the witness-stripped serialisation; one row per input and per
    output, in order; scripts in hex, integers in decimal -/
def txRowsA (ver : UInt8) (bh : String) (t : W.Tx) : String × List String × List String :=
  let txid := Csv.hashHex (A.sha256d t.encStripped)
  (s!"{txid};{bh};{t.version};{t.lock}",
   t.ins.map (fun i => s!"{txid};{Csv.hashHex i.prev};{i.idx};{Sha.hex i.script};{i.seq}"),
   (List.range t.outs.length).zip t.outs |>.map (fun (k, o) =>
      s!"{txid};{k};{o.value};{Sha.hex o.script};{((S.eval ver o.script).address).getD ""}"))

/-- the csv rows of a block written directly from the abstract (on-disk) values: block hash = double-SHA256 of the 80 header
    bytes on disk, txid = double-SHA256 of the witness-stripped serialisation, scripts in hex, integers in decimal,
    blocksize = the stored length prefix -/
def specRows (ver : UInt8) (size height : Nat) (b : W.Block) : String × List String × List String × List String :=
  let bh := Csv.hashHex (A.sha256d b.header.enc)
  let blockRow := s!"{bh};{height};{b.header.version};{size};{Csv.hashHex b.header.prev};{Csv.hashHex b.header.merkle};{b.header.time};{b.header.bits};{b.header.nonce}"
  let per := b.txs.map (txRowsA ver bh)
  (blockRow, per.map (·.1), per.flatMap (·.2.1), per.flatMap (·.2.2))

theorem zip_range_map {α β} (f : α → β) (l : List α) :
    (List.range (l.map f).length).zip (l.map f) = ((List.range l.length).zip l).map (fun p => (p.1, f p.2)) := by
  rw [List.length_map]
  generalize List.range l.length = r
  induction l generalizing r with
  | nil => simp
  | cons a l ih =>
    cases r with
    | nil => simp
    | cons x r => simp [ih]

theorem rows_eq_txRowsR (ver : UInt8) (size height : Nat) (b : Csv.RBlock) :
    Csv.rows ver size height b =
      (let bh := Csv.hashHex (A.sha256d b.header.toBytes)
       (s!"{bh};{height};{b.header.version};{size};{Csv.hashHex b.header.prev};{Csv.hashHex b.header.merkle};{b.header.time};{b.header.bits};{b.header.nonce}",
        (b.txs.map (txRowsR ver bh)).map (·.1), (b.txs.map (txRowsR ver bh)).flatMap (·.2.1),
        (b.txs.map (txRowsR ver bh)).flatMap (·.2.2))) := rfl

theorem txRows_toR (ver : UInt8) (bh : String) (t : W.Tx) : txRowsR ver bh t.toR = txRowsA ver bh t := by
  unfold txRowsR txRowsA
  simp only [toBytes_stripped]
  simp only [Tx.toR, List.map_map, zip_range_map, Function.comp_def, TxIn.toR, TxOut.toR]

/-- the rows the model writes for the parsed block are the rows of the abstract block -/
theorem rows_toR (ver : UInt8) (size height : Nat) (b : W.Block) :
    Csv.rows ver size height b.toR = specRows ver size height b := by
  rw [rows_eq_txRowsR]
  unfold specRows
  have hh : b.toR.header.toBytes = b.header.enc := header_toBytes b.header
  simp only [hh]
  simp only [Block.toR, List.map_map, Function.comp_def, Header.toR, txRows_toR]

/-- one row per block, transaction, input and output -/
theorem specRows_counts (ver : UInt8) (size height : Nat) (b : W.Block) :
    (specRows ver size height b).2.1.length = b.txs.length ∧
    (specRows ver size height b).2.2.1.length = (b.txs.map (·.ins.length)).sum ∧
    (specRows ver size height b).2.2.2.length = (b.txs.map (·.outs.length)).sum := by
  unfold specRows
  refine ⟨by simp, ?_, ?_⟩
  · simp only [List.length_flatMap, List.map_map, Function.comp_def, List.length_map, txRowsA]
  · simp only [List.length_flatMap, List.map_map, Function.comp_def, List.length_map, List.length_zip, List.length_range,
      Nat.min_self, txRowsA]

/-- height `k` is stored: record present, file present, and the file holds `LE32 sz ++ enc b` at `offset - 4` -/
def Stored (coin : Coin) (key : Option Bytes) (files : List (Nat × BlkFile)) (trimmed : List (Nat × Rec))
    (k sz : Nat) (b : W.Block) : Prop :=
  ∃ r f rest, lookup trimmed k = some r ∧ (files.find? (·.1 == r.file)).map (·.2) = some f ∧ 4 ≤ r.off ∧
    unxor key (r.off - 4) (bytesFrom f (r.off - 4)) = toLE 4 sz ++ b.enc ++ rest ∧ sz < 256 ^ 4 ∧ b.ok coin.auxpow

theorem stored_readAt (coin : Coin) (key : Option Bytes) (files : List (Nat × BlkFile)) (trimmed : List (Nat × Rec))
    (k sz : Nat) (b : W.Block) (h : Stored coin key files trimmed k sz b) :
    ∃ r f, lookup trimmed k = some r ∧ (files.find? (·.1 == r.file)).map (·.2) = some f ∧
      readAt coin key f r.off = .ok (sz, b.toR) := by
  obtain ⟨r, f, rest, hl, hf, h4, hb, hs, hk⟩ := h
  refine ⟨r, f, hl, hf, ?_⟩
  unfold readAt
  have : ¬ r.off < 4 := by omega
  simp only [this, if_false]
  rw [hb]
  exact parseAt_block coin sz hs b hk rest

/-- the driver loop over stored heights delivers exactly those blocks, parsed, with their stored length prefixes -/
theorem driveLoop_blocks (coin : Coin) (o : Opts) (key : Option Bytes) (files : List (Nat × BlkFile)) (full trimmed : List (Nat × Rec))
    (sz : Nat → Nat) (blk : Nat → W.Block) :
    ∀ (n h : Nat) (opened : List Nat) (acc : List EBlock) (evs : List Ev),
      (∀ k, h ≤ k → k < h + n → Stored coin key files trimmed k (sz k) (blk k) ∧
        (o.verify = true → verifyBlock coin trimmed (blk k).toR k = .ok ())) →
      (driveLoop coin o key files full trimmed h n opened acc evs).blocks =
          acc.reverse ++ (List.range' h n).map (fun k => ⟨k, sz k, (blk k).toR⟩) ∧
      (driveLoop coin o key files full trimmed h n opened acc evs).ending = End.complete := by
  intro n
  induction n with
  | zero => intro h opened acc evs _; simp [driveLoop]
  | succ n ih =>
    intro h opened acc evs hs
    obtain ⟨hst, hv⟩ := hs h (Nat.le_refl _) (by omega)
    obtain ⟨r, f, hl, hf, hr⟩ := stored_readAt coin key files trimmed h _ _ hst
    rw [driveLoop]
    simp only [hl, hf, hr]
    have hvv : (if o.verify = true then verifyBlock coin trimmed (blk h).toR h else Res.ok ()) = Res.ok () := by
      by_cases hvb : o.verify = true
      · simp [hvb, hv hvb]
      · simp [hvb]
    simp only [hvv]
    have hs' : ∀ k, h + 1 ≤ k → k < h + 1 + n → Stored coin key files trimmed k (sz k) (blk k) ∧
        (o.verify = true → verifyBlock coin trimmed (blk k).toR k = .ok ()) :=
      fun k hk1 hk2 => hs k (by omega) (by omega)
    obtain ⟨h1, h2⟩ := ih (h + 1) _ _ _ hs'
    refine ⟨?_, h2⟩
    rw [h1]
    simp [List.range'_succ]

/-- **Whole run over a stored chain.**  If the index loads and every height of `start..maxH` is stored (and passes
    verification when `--verify` is given), the run exits 0, delivers exactly `start..maxH`, and its output files and stdout
    are the callback's function of the parsed abstract blocks with their stored length prefixes. -/
theorem run_stored (o : Opts) (key : Option Bytes) (kvs : List (Bytes × Bytes)) (files : List BlkFile)
    (coin : Coin) (ld : Loaded) (hcoin : coinOf o.coin = some coin) (hld : loadIndex o kvs = .ok ld)
    (hkey : key ≠ some []) (sz : Nat → Nat) (blk : Nat → W.Block)
    (hs : ∀ k, o.start ≤ k → k < o.start + (ld.maxH + 1 - o.start) →
      Stored coin key (files.filterMap fun f => (parseBlkIndex f.name).map fun n => (n, f)) ld.trimmed k (sz k) (blk k) ∧
      (o.verify = true → verifyBlock coin ld.trimmed (blk k).toR k = .ok ()))
    (hne : o.start ≤ ld.maxH)
    (hnp : callbackPanics o coin.version
      ((List.range' o.start (ld.maxH + 1 - o.start)).map (fun k => (⟨k, sz k, (blk k).toR⟩ : EBlock))) = false) :
    (run o key kvs files).exit = 0 ∧ (run o key kvs files).delivered = List.range' o.start (ld.maxH + 1 - o.start) ∧
    (run o key kvs files).files = (callbackOut o coin.version ld.maxH
      ((List.range' o.start (ld.maxH + 1 - o.start)).map (fun k => (⟨k, sz k, (blk k).toR⟩ : EBlock)))).1 ∧
    (run o key kvs files).stdout = (callbackOut o coin.version ld.maxH
      ((List.range' o.start (ld.maxH + 1 - o.start)).map (fun k => (⟨k, sz k, (blk k).toR⟩ : EBlock)))).2 := by
  have hfm : (files.filterMap fun f => (parseBlkIndex f.name).map fun n => (n, f)).isEmpty = false := by
    obtain ⟨⟨r, f, _, _, hf, _⟩, _⟩ := hs o.start (Nat.le_refl _) (by omega)
    cases hx : (files.filterMap fun f => (parseBlkIndex f.name).map fun n => (n, f)) with
    | nil => rw [hx] at hf; simp at hf
    | cons a l => rfl
  obtain ⟨hb, he⟩ := driveLoop_blocks coin o key _ ld.full ld.trimmed sz blk (ld.maxH + 1 - o.start) o.start [] [] [] hs
  simp only [List.reverse_nil, List.nil_append] at hb
  have hlast : o.start + (ld.maxH + 1 - o.start) - 1 = ld.maxH := by omega
  unfold run
  simp only [hcoin, hld, hfm, Bool.false_eq_true, if_false]
  cases key with
  | none =>
    simp only [he, hb, hnp, Bool.false_eq_true, if_false, List.length_map, List.length_range', hlast, List.map_map, Function.comp_def, List.map_id']
    exact ⟨trivial, trivial, trivial, trivial⟩
  | some kk =>
    cases kk with
    | nil => exact absurd rfl hkey
    | cons a l =>
      simp only [he, hb, hnp, Bool.false_eq_true, if_false, List.length_map, List.length_range', hlast, List.map_map, Function.comp_def, List.map_id']
      exact ⟨trivial, trivial, trivial, trivial⟩

/-- csvdump's four files written from the abstract blocks -/
def specCsvFiles (ver : UInt8) (start last : Nat) (bs : List (Nat × Nat × W.Block)) : List (String × List String) :=
  let rs := bs.map fun b => specRows ver b.2.1 b.1 b.2.2
  let nm (f : String) := s!"{f}-{start}-{last}.csv"
  [(nm "blocks", rs.map (·.1)), (nm "transactions", rs.flatMap (·.2.1)),
   (nm "tx_in", rs.flatMap (·.2.2.1)), (nm "tx_out", rs.flatMap (·.2.2.2))]

theorem csvFiles_toR (ver : UInt8) (start last : Nat) (bs : List (Nat × Nat × W.Block)) :
    csvFiles ver start last (bs.map fun b => ⟨b.1, b.2.1, b.2.2.toR⟩) = specCsvFiles ver start last bs := by
  simp only [csvFiles, specCsvFiles, List.map_map, Function.comp_def, rows_toR]

theorem sum_map_flatMap {α β} (g : α → List β) (f : β → Nat) (l : List α) :
    ((l.flatMap g).map f).sum = (l.map (fun a => ((g a).map f).sum)).sum := by
  induction l with
  | nil => rfl
  | cons a l ih => simp [List.flatMap_cons, List.sum_append, ih]

theorem foldl_add_eq_sum {α} (f : α → Nat) (l : List α) (a : Nat) : l.foldl (fun a t => a + f t) a = a + (l.map f).sum := by
  induction l generalizing a with
  | nil => simp
  | cons t l ih => simp [ih]; omega

/-- the three totals printed on completion, for well-formed blocks, are the numbers of rows written -/
theorem totals_eq_rows (ver : UInt8) (thr : Option Nat) (bs : List (Nat × Nat × W.Block)) (hk : ∀ b ∈ bs, b.2.2.ok thr) :
    totals (bs.map fun b => ⟨b.1, b.2.1, b.2.2.toR⟩) =
      [s!"transactions={((bs.map fun b => specRows ver b.2.1 b.1 b.2.2).flatMap (·.2.1)).length}",
       s!"inputs={((bs.map fun b => specRows ver b.2.1 b.1 b.2.2).flatMap (·.2.2.1)).length}",
       s!"outputs={((bs.map fun b => specRows ver b.2.1 b.1 b.2.2).flatMap (·.2.2.2)).length}"] := by
  unfold totals
  have h1 : ((bs.map fun b => (⟨b.1, b.2.1, b.2.2.toR⟩ : EBlock)).map (·.blk.txCount.value)).foldl (·+·) 0 =
      ((bs.map fun b => specRows ver b.2.1 b.1 b.2.2).flatMap (·.2.1)).length := by
    rw [← List.sum_eq_foldl]
    simp only [List.length_flatMap, List.map_map, Function.comp_def, (specRows_counts ver _ _ _).1, Block.toR]
    congr 1
    apply List.map_congr_left
    intro b hb
    exact (hk b hb).2.2.2.2.1
  have h2 : ((bs.map fun b => (⟨b.1, b.2.1, b.2.2.toR⟩ : EBlock)).flatMap (·.blk.txs)).foldl (fun a t => a + t.icnt.value) 0 =
      ((bs.map fun b => specRows ver b.2.1 b.1 b.2.2).flatMap (·.2.2.1)).length := by
    rw [foldl_add_eq_sum, sum_map_flatMap]
    simp only [Nat.zero_add, List.length_flatMap, List.map_map, Function.comp_def, (specRows_counts ver _ _ _).2.1, Block.toR]
    congr 1
    apply List.map_congr_left
    intro b hb
    congr 1
    apply List.map_congr_left
    intro t ht
    exact ((hk b hb).2.2.2.2.2 t ht).2.2.2.1
  have h3 : ((bs.map fun b => (⟨b.1, b.2.1, b.2.2.toR⟩ : EBlock)).flatMap (·.blk.txs)).foldl (fun a t => a + t.ocnt.value) 0 =
      ((bs.map fun b => specRows ver b.2.1 b.1 b.2.2).flatMap (·.2.2.2)).length := by
    rw [foldl_add_eq_sum, sum_map_flatMap]
    simp only [Nat.zero_add, List.length_flatMap, List.map_map, Function.comp_def, (specRows_counts ver _ _ _).2.2, Block.toR]
    congr 1
    apply List.map_congr_left
    intro b hb
    congr 1
    apply List.map_congr_left
    intro t ht
    exact ((hk b hb).2.2.2.2.2 t ht).2.2.2.2.2.2.2.1
  rw [h1, h2, h3]
end Run

namespace Run
open W CB

/-! ## script / witness content is never interpreted by the framing (C14) -/

/-- well-formedness of an output constrains the *length* of its script only: any bytes of the same length are as good -/
theorem TxOut.ok_content_free (o : W.TxOut) (s' : Bytes) (h : s'.length = o.script.length) (hk : o.ok) :
    ({ o with script := s' } : W.TxOut).ok := by
  obtain ⟨h1, h2, h3, h4⟩ := hk
  exact ⟨h1, h2, by rw [h3, h], h4⟩

theorem TxIn.ok_content_free (i : W.TxIn) (s' : Bytes) (h : s'.length = i.script.length) (hk : i.ok) :
    ({ i with script := s' } : W.TxIn).ok := by
  obtain ⟨h1, h2, h3, h4, h5, h6⟩ := hk
  exact ⟨h1, h2, h3, by rw [h4, h], h5, h6⟩

theorem WitItem.ok_content_free (w : W.WitItem) (d' : Bytes) (h : d'.length = w.data.length) (hk : w.ok) :
    ({ w with data := d' } : W.WitItem).ok := by
  obtain ⟨h1, h2, h3⟩ := hk
  exact ⟨h1, by rw [h2, h], h3⟩

/-- witness items never reach any output: the parsed transaction does not contain them -/
theorem witness_invisible (t : W.Tx) (sw : Option W.Segwit) : ({ t with segwit := sw } : W.Tx).toR = t.toR := rfl

/-- the tx_in rows of a transaction: one per input, each a function of (txid, that input) alone -/
theorem txRowsA_ins (ver : UInt8) (bh : String) (t : W.Tx) :
    (txRowsA ver bh t).2.1 = t.ins.map (fun i =>
      s!"{Csv.hashHex (A.sha256d t.encStripped)};{Csv.hashHex i.prev};{i.idx};{Sha.hex i.script};{i.seq}") := rfl

/-- the tx_out rows of a transaction: one per output, each a function of (txid, its index, that output) alone -/
theorem txRowsA_outs (ver : UInt8) (bh : String) (t : W.Tx) :
    (txRowsA ver bh t).2.2 = ((List.range t.outs.length).zip t.outs).map (fun (k, o) =>
      s!"{Csv.hashHex (A.sha256d t.encStripped)};{k};{o.value};{Sha.hex o.script};{((S.eval ver o.script).address).getD ""}") := rfl

/-- replacing one transaction of a block (e.g. by one with different script bytes) leaves the rows of every other
    transaction of the block exactly as they were, as long as the header is the same -/
theorem other_txs_untouched (ver : UInt8) (b : W.Block) (i : Nat) (t' : W.Tx) :
    ({ b with txs := b.txs.set i t' } : W.Block).txs.map (txRowsA ver (Csv.hashHex (A.sha256d b.header.enc))) =
      (b.txs.map (txRowsA ver (Csv.hashHex (A.sha256d b.header.enc)))).set i
        (txRowsA ver (Csv.hashHex (A.sha256d b.header.enc)) t') := by
  simp [List.map_set]
end Run
