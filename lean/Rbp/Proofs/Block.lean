import Rbp.Proofs.Wire
import Rbp.Spec.BlockSpec
/-! Round trips for headers, merkle branches, AuxPoW sections and whole blocks (C01, C12). -/
namespace W
open Csv Aux

theorem readHeader_enc (h : Header) (hk : h.ok) (rest : Bytes) :
    readHeader (h.enc ++ rest) = some (h.toR, rest) := by
  obtain ⟨hv, hp, hm, ht, hb, hn⟩ := hk
  simp only [readHeader, Header.enc, List.append_assoc]
  rw [readLE_toLE 4 _ _ hv]
  simp only [Option.bind_eq_bind, Option.bind_some]
  rw [take_len h.prev _ 32 hp.symm]
  simp only [Option.bind_some]
  rw [take_len h.merkle _ 32 hm.symm]
  simp only [Option.bind_some]
  rw [readLE_toLE 4 _ _ ht]
  simp only [Option.bind_some]
  rw [readLE_toLE 4 _ _ hb]
  simp only [Option.bind_some]
  rw [readLE_toLE 4 _ _ hn]
  simp [Header.toR]

theorem header_toBytes (h : Header) : h.toR.toBytes = h.enc := by
  simp [RHeader.toBytes, Header.toR, Header.enc]

theorem header_enc_length (h : Header) (hk : h.ok) : h.enc.length = 80 := by
  obtain ⟨_, hp, hm, _, _, _⟩ := hk
  simp [Header.enc, toLE_length, hp, hm]

theorem take32_enc (x : Bytes) (hx : x.length = 32) (rest : Bytes) : take 32 (id x ++ rest) = some (id x, rest) := by
  simpa using take_len x rest 32 hx.symm

theorem readBranch_enc (b : Branch) (hk : b.ok) (rest : Bytes) :
    readBranch (b.enc ++ rest) = some (b.toR, rest) := by
  obtain ⟨hc, hn, hh, hm⟩ := hk
  simp only [readBranch, Branch.enc, List.append_assoc]
  rw [readVarUint_enc _ hc]
  simp only [Option.bind_eq_bind, Option.bind_some]
  rw [hn, readN_roundtrip (take 32) id id (fun x => x.length = 32) take32_enc b.hashes hh]
  simp only [Option.bind_some]
  rw [readLE_toLE 4 _ _ hm]
  simp [Branch.toR]

theorem readAuxPow_enc (a : AuxPow) (hk : a.ok) (rest : Bytes) :
    readAuxPow (a.enc ++ rest) = some (a.toR, rest) := by
  obtain ⟨hc, hp, h1, h2, hh⟩ := hk
  simp only [readAuxPow, AuxPow.enc, List.append_assoc]
  rw [readTx_enc _ hc]
  simp only [Option.bind_eq_bind, Option.bind_some]
  rw [take_len a.parentHash _ 32 hp.symm]
  simp only [Option.bind_some]
  rw [readBranch_enc _ h1]
  simp only [Option.bind_some]
  rw [readBranch_enc _ h2]
  simp only [Option.bind_some]
  rw [readHeader_enc _ hh]
  simp [AuxPow.toR]

/-- the block reader consumes exactly the encoding of a well-formed block (with its AuxPoW section iff the
    coin's threshold says so) and leaves the rest of the stream untouched -/
theorem readBlockAux_enc (thr : Option Nat) (b : Block) (hk : b.ok thr) (rest : Bytes) :
    readBlockAux thr (b.enc ++ rest) = some ((b.toR, b.aux.map AuxPow.toR), rest) := by
  obtain ⟨hh, hw, ha, hc, hn, ht⟩ := hk
  simp only [readBlockAux, Block.enc, List.append_assoc]
  rw [readHeader_enc _ hh]
  simp only [Option.bind_eq_bind, Option.bind_some, Header.toR]
  cases hx : b.aux with
  | none =>
    simp only [hx, Option.isSome_none] at hw
    simp only [hw, Block.encAux, hx, List.nil_append, Option.bind_some]
    rw [readVarUint_enc _ hc]
    simp only [Option.bind_some]
    rw [hn, readN_roundtrip readTx Tx.enc Tx.toR Tx.ok readTx_enc b.txs ht]
    simp [Block.toR, Header.toR, hn]
  | some a =>
    simp only [hx, Option.isSome_some] at hw
    simp only [hw, Block.encAux, hx, if_true]
    rw [readAuxPow_enc a (ha a hx)]
    simp only [Option.map_some, Option.bind_some]
    rw [readVarUint_enc _ hc]
    simp only [Option.bind_some]
    rw [hn, readN_roundtrip readTx Tx.enc Tx.toR Tx.ok readTx_enc b.txs ht]
    simp [Block.toR, Header.toR, hn]

theorem readBlockCoin_enc (thr : Option Nat) (b : Block) (hk : b.ok thr) (rest : Bytes) :
    readBlockCoin thr (b.enc ++ rest) = some (b.toR, rest) := by
  simp [readBlockCoin, readBlockAux_enc thr b hk rest]
end W
