import Rbp.Proofs.Block
/-!
# The readers never succeed on a strict prefix of an encoding (C10: truncated files)

Every reader is *monotone*: a successful parse of `bs` is the same parse of `bs ++ s` with `s` left over.  Together with the
round-trip theorems (which say the encoding is consumed exactly) this gives: a reader applied to a strict prefix of
`enc x` fails — a blk file truncated inside a block can never yield a block.
-/
namespace W
open Csv Aux

def Mono {α} (p : P α) : Prop := ∀ bs x r s, p bs = some (x, r) → p (bs ++ s) = some (x, r ++ s)

theorem Mono.pure' {α} (x : α) : Mono (fun bs => some (x, bs)) := by
  intro bs y r s h
  simp only [Option.some.injEq, Prod.mk.injEq] at h ⊢
  exact ⟨h.1, by rw [h.2]⟩

theorem Mono.bind {α β} {p : P α} {f : α → P β} (hp : Mono p) (hf : ∀ a, Mono (f a)) :
    Mono (fun bs => do let (x, bs') ← p bs; f x bs') := by
  intro bs y r s h
  simp only [Option.bind_eq_bind] at h ⊢
  cases h1 : p bs with
  | none => simp [h1] at h
  | some v =>
    obtain ⟨a, b1⟩ := v
    simp only [h1, Option.bind_some] at h
    rw [hp bs a b1 s h1]
    simp only [Option.bind_some]
    exact hf a b1 y r s h

theorem Mono.map {α β} {p : P α} (g : α → β) (hp : Mono p) : Mono (fun bs => (p bs).map fun (x, r) => (g x, r)) := by
  intro bs y r s h
  cases h1 : p bs with
  | none => simp [h1] at h
  | some v =>
    obtain ⟨a, b1⟩ := v
    simp only [h1, Option.map_some, Option.some.injEq, Prod.mk.injEq] at h
    show (p (bs ++ s)).map _ = _
    rw [hp bs a b1 s h1]
    simp [h.1, h.2]

theorem Mono.ite {α} (c : Prop) [Decidable c] {p q : P α} (hp : Mono p) (hq : Mono q) : Mono (fun bs => if c then p bs else q bs) := by
  intro bs y r s h
  by_cases hc : c
  · simp only [hc, if_true] at h ⊢; exact hp bs y r s h
  · simp only [hc, if_false] at h ⊢; exact hq bs y r s h

theorem mono_take (n : Nat) : Mono (take n) := by
  intro bs x r s h
  unfold take at h ⊢
  by_cases hn : n ≤ bs.length
  · simp only [hn, if_true, Option.some.injEq, Prod.mk.injEq] at h
    have : n ≤ (bs ++ s).length := by simp; omega
    simp only [this, if_true, Option.some.injEq, Prod.mk.injEq]
    rw [← h.1, ← h.2]
    exact ⟨List.take_append_of_le_length hn, List.drop_append_of_le_length hn⟩
  · simp [hn] at h

theorem mono_readLE (k : Nat) : Mono (readLE k) := Mono.map le (mono_take k)

theorem mono_readU8 : Mono readU8 := by
  intro bs x r s h
  cases bs with
  | nil => simp [readU8] at h
  | cons b t => simp only [readU8, Option.some.injEq, Prod.mk.injEq, List.cons_append] at h ⊢; exact ⟨h.1, by rw [h.2]⟩

theorem mono_readVarUint : Mono readVarUint := by
  intro bs x r s h
  cases bs with
  | nil => simp [readVarUint] at h
  | cons b t =>
    simp only [readVarUint, List.cons_append] at h ⊢
    by_cases hb : b.toNat < 0xfd
    · simp only [hb, if_true, Option.some.injEq, Prod.mk.injEq] at h ⊢; exact ⟨h.1, by rw [h.2]⟩
    · simp only [hb, if_false] at h ⊢
      exact Mono.map (fun v => (⟨v, b :: toLE (if b.toNat = 0xfd then 2 else if b.toNat = 0xfe then 4 else 8) v⟩ : VarUint))
        (mono_readLE _) t x r s h

theorem mono_readN {α} {p : P α} (hp : Mono p) : ∀ n, Mono (readN p n)
  | 0 => Mono.pure' []
  | n+1 => by
    intro bs x r s h
    simp only [readN, Option.bind_eq_bind, Option.bind_eq_some_iff, Prod.exists, Option.pure_def, Option.some.injEq,
      Prod.mk.injEq] at h ⊢
    obtain ⟨a, b1, h1, xs, b2, h2, hx, hr⟩ := h
    exact ⟨_, _, hp _ _ _ s h1, _, _, mono_readN hp n _ _ _ s h2, hx, by rw [hr]⟩

theorem mono_takeU32 (n : Nat) : Mono (takeU32 n) := mono_take _

theorem mono_readIn : Mono readIn := by
  intro bs x r s h
  simp only [readIn, Option.bind_eq_bind, Option.bind_eq_some_iff, Prod.exists, Option.pure_def, Option.some.injEq,
    Prod.mk.injEq] at h ⊢
  obtain ⟨_, _, h1, _, _, h2, _, _, h3, _, _, h4, _, _, h5, hx, hr⟩ := h
  exact ⟨_, _, mono_take _ _ _ _ s h1, _, _, mono_readLE _ _ _ _ s h2, _, _, mono_readVarUint _ _ _ s h3,
    _, _, mono_takeU32 _ _ _ _ s h4, _, _, mono_readLE _ _ _ _ s h5, hx, by rw [hr]⟩

theorem mono_readOut : Mono readOut := by
  intro bs x r s h
  simp only [readOut, Option.bind_eq_bind, Option.bind_eq_some_iff, Prod.exists, Option.pure_def, Option.some.injEq,
    Prod.mk.injEq] at h ⊢
  obtain ⟨_, _, h1, _, _, h2, _, _, h3, hx, hr⟩ := h
  exact ⟨_, _, mono_readLE _ _ _ _ s h1, _, _, mono_readVarUint _ _ _ s h2, _, _, mono_takeU32 _ _ _ _ s h3, hx, by rw [hr]⟩

theorem mono_skipItem : Mono skipItem := by
  intro bs x r s h
  simp only [skipItem, Option.bind_eq_bind, Option.bind_eq_some_iff, Prod.exists, Option.pure_def, Option.some.injEq,
    Prod.mk.injEq] at h ⊢
  obtain ⟨_, _, h1, _, _, h2, hx, hr⟩ := h
  exact ⟨_, _, mono_readVarUint _ _ _ s h1, _, _, mono_takeU32 _ _ _ _ s h2, hx, by rw [hr]⟩

theorem mono_skipStack : Mono skipStack := by
  intro bs x r s h
  simp only [skipStack, Option.bind_eq_bind, Option.bind_eq_some_iff, Prod.exists, Option.pure_def, Option.some.injEq,
    Prod.mk.injEq] at h ⊢
  obtain ⟨_, _, h1, _, _, h2, hx, hr⟩ := h
  exact ⟨_, _, mono_readVarUint _ _ _ s h1, _, _, mono_readN mono_skipItem _ _ _ _ s h2, hx, by rw [hr]⟩

theorem bind_step {α β} {p : P α} (hp : Mono p) {bs s : Bytes} {F : α × Bytes → Option (β × Bytes)} {x : β} {r : Bytes}
    (h : (p bs).bind F = some (x, r))
    (hF : ∀ a b1, F (a, b1) = some (x, r) → F (a, b1 ++ s) = some (x, r ++ s)) :
    (p (bs ++ s)).bind F = some (x, r ++ s) := by
  cases h1 : p bs with
  | none => simp [h1] at h
  | some v =>
    obtain ⟨a, b1⟩ := v
    rw [h1, Option.bind_some] at h
    rw [hp bs a b1 s h1, Option.bind_some]
    exact hF a b1 h

/-- the part of `read_tx` after the counts are known: inputs, output count, outputs, witness stacks iff the flag is odd, locktime -/
macro "tx_tail" h:ident : tactic => `(tactic| (
    refine bind_step (mono_readN mono_readIn _) $h ?_
    intro ins b3 h; dsimp only at h ⊢
    refine bind_step mono_readVarUint h ?_
    intro ocnt b4 h; dsimp only at h ⊢
    refine bind_step (mono_readN mono_readOut _) h ?_
    intro outs b5 h; dsimp only at h ⊢
    split at h
    · rename_i hf
      simp only [hf, if_true] at h ⊢
      refine bind_step (mono_readN mono_skipStack _) h ?_
      intro _ b6 h; dsimp only at h ⊢
      refine bind_step (mono_readLE 4) h ?_
      intro lock b7 h
      simp only [Option.pure_def, Option.some.injEq, Prod.mk.injEq] at h ⊢
      exact ⟨h.1, by rw [h.2]⟩
    · rename_i hf
      simp only [hf, if_false, Option.pure_def, Option.bind_some] at h ⊢
      refine bind_step (mono_readLE 4) h ?_
      intro lock b7 h
      simp only [Option.some.injEq, Prod.mk.injEq] at h ⊢
      exact ⟨h.1, by rw [h.2]⟩))

theorem mono_readTx : Mono readTx := by
  intro bs x r s h
  unfold readTx at h ⊢
  simp only [Option.bind_eq_bind] at h ⊢
  refine bind_step (mono_readLE 4) h ?_
  intro ver b1 h; dsimp only at h ⊢
  refine bind_step mono_readVarUint h ?_
  intro c0 b2 h; dsimp only at h ⊢
  by_cases hc : c0.value = 0
  · simp only [hc, if_true] at h ⊢
    refine bind_step mono_readU8 h ?_
    intro f b3 h; dsimp only at h ⊢
    refine bind_step mono_readVarUint h ?_
    intro c b4 h
    simp only [Option.pure_def, Option.bind_some] at h ⊢
    tx_tail h
  · simp only [hc, if_false, Option.pure_def, Option.bind_some] at h ⊢
    tx_tail h

theorem mono_readHeader : Mono readHeader := by
  intro bs x r s h
  simp only [readHeader, Option.bind_eq_bind, Option.bind_eq_some_iff, Prod.exists, Option.pure_def, Option.some.injEq,
    Prod.mk.injEq] at h ⊢
  obtain ⟨_, _, h1, _, _, h2, _, _, h3, _, _, h4, _, _, h5, _, _, h6, hx, hr⟩ := h
  exact ⟨_, _, mono_readLE _ _ _ _ s h1, _, _, mono_take _ _ _ _ s h2, _, _, mono_take _ _ _ _ s h3,
    _, _, mono_readLE _ _ _ _ s h4, _, _, mono_readLE _ _ _ _ s h5, _, _, mono_readLE _ _ _ _ s h6, hx, by rw [hr]⟩

theorem mono_readBranch : Mono readBranch := by
  intro bs x r s h
  simp only [readBranch, Option.bind_eq_bind, Option.bind_eq_some_iff, Prod.exists, Option.pure_def, Option.some.injEq,
    Prod.mk.injEq] at h ⊢
  obtain ⟨_, _, h1, _, _, h2, _, _, h3, hx, hr⟩ := h
  exact ⟨_, _, mono_readVarUint _ _ _ s h1, _, _, mono_readN (mono_take 32) _ _ _ _ s h2, _, _, mono_readLE _ _ _ _ s h3, hx, by rw [hr]⟩

theorem mono_readAuxPow : Mono readAuxPow := by
  intro bs x r s h
  simp only [readAuxPow, Option.bind_eq_bind, Option.bind_eq_some_iff, Prod.exists, Option.pure_def, Option.some.injEq,
    Prod.mk.injEq] at h ⊢
  obtain ⟨_, _, h1, _, _, h2, _, _, h3, _, _, h4, _, _, h5, hx, hr⟩ := h
  exact ⟨_, _, mono_readTx _ _ _ s h1, _, _, mono_take _ _ _ _ s h2, _, _, mono_readBranch _ _ _ s h3,
    _, _, mono_readBranch _ _ _ s h4, _, _, mono_readHeader _ _ _ s h5, hx, by rw [hr]⟩

theorem mono_readBlockAux (thr : Option Nat) : Mono (readBlockAux thr) := by
  intro bs x r s h
  unfold readBlockAux at h ⊢
  simp only [Option.bind_eq_bind] at h ⊢
  refine bind_step mono_readHeader h ?_
  intro hd b1 h; dsimp only at h ⊢
  by_cases hc : wantsAux thr hd.version = true
  · simp only [hc, if_true] at h ⊢
    refine bind_step (Mono.map some mono_readAuxPow) h ?_
    intro a b2 h; dsimp only at h ⊢
    refine bind_step mono_readVarUint h ?_
    intro c b3 h; dsimp only at h ⊢
    refine bind_step (mono_readN mono_readTx _) h ?_
    intro txs b4 h
    simp only [Option.pure_def, Option.some.injEq, Prod.mk.injEq] at h ⊢
    exact ⟨h.1, by rw [h.2]⟩
  · simp only [hc, Bool.false_eq_true, if_false, Option.bind_some] at h ⊢
    refine bind_step mono_readVarUint h ?_
    intro c b3 h; dsimp only at h ⊢
    refine bind_step (mono_readN mono_readTx _) h ?_
    intro txs b4 h
    simp only [Option.pure_def, Option.some.injEq, Prod.mk.injEq] at h ⊢
    exact ⟨h.1, by rw [h.2]⟩

theorem mono_readBlockCoin (thr : Option Nat) : Mono (readBlockCoin thr) := by
  intro bs x r s h
  unfold readBlockCoin at h ⊢
  cases h1 : readBlockAux thr bs with
  | none => simp [h1] at h
  | some v =>
    obtain ⟨⟨b, a⟩, r1⟩ := v
    simp only [h1, Option.map_some, Option.some.injEq, Prod.mk.injEq] at h
    rw [mono_readBlockAux thr bs _ _ s h1]
    simp [h.1, h.2]

/-- a reader that consumes the encoding exactly and is monotone fails on every strict prefix of the encoding -/
theorem strict_prefix_fails {α} (p : P α) (hm : Mono p) (enc pre suf : Bytes) (x : α)
    (hx : p enc = some (x, [])) (he : enc = pre ++ suf) (hs : suf ≠ []) : p pre = none := by
  cases h : p pre with
  | none => rfl
  | some v =>
    obtain ⟨y, r⟩ := v
    have := hm pre y r suf h
    rw [← he, hx] at this
    simp only [Option.some.injEq, Prod.mk.injEq] at this
    have : r ++ suf = [] := this.2.symm
    simp at this
    exact absurd this.2 hs

/-- **truncated block.**  Any strict prefix of the on-disk encoding of a well-formed block makes `read_block` fail -/
theorem readBlock_truncated (thr : Option Nat) (b : Block) (hk : b.ok thr) (pre suf : Bytes)
    (he : b.enc = pre ++ suf) (hs : suf ≠ []) : readBlockCoin thr pre = none := by
  have hx := readBlockCoin_enc thr b hk []
  rw [List.append_nil] at hx
  exact strict_prefix_fails _ (mono_readBlockCoin thr) b.enc pre suf _ hx he hs
end W
