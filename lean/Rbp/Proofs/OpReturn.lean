import Rbp.Proofs.Tokens
import Rbp.Model.Callbacks
/-! Instruction iterator round trip and the single-push OP_RETURN theorems (C16, C05). -/
namespace SM
open S

/-- what rust-bitcoin's instruction iterator yields for a full-fidelity token (OP_0 is an empty push there) -/
def toIns : T.Tok → Ins
  | .push _ bs => .push bs
  | .op b => if b = 0 then .push [] else .op b

theorem instrs_enc (toks : List T.Tok) (h : ∀ t ∈ toks, t.WF) :
    instrs (toks.flatMap T.Tok.enc) = toks.map (fun t => some (toIns t)) := by
  induction toks with
  | nil => simp [instrs]
  | cons t ts ih =>
    have ht := h t (by simp)
    have hts : ∀ t ∈ ts, t.WF := fun x hx => h x (by simp [hx])
    have ih' := ih hts
    rw [List.flatMap_cons]
    cases t with
    | op b =>
      simp only [T.Tok.WF] at ht
      rw [show T.Tok.enc (.op b) = [b] from rfl, List.singleton_append, instrs]
      rcases ht with h0 | hbig
      · have hb : b = 0 := UInt8.toNat_inj.mp (by simpa using h0)
        subst hb
        simp [classify_small, toIns, ih']
      · have hne : b ≠ 0 := by intro hb; rw [hb] at hbig; simp at hbig
        have h1 : ¬ b = 0x4c := by intro hb; rw [hb] at hbig; simp at hbig
        have h2 : ¬ b = 0x4d := by intro hb; rw [hb] at hbig; simp at hbig
        have h4 : ¬ b = 0x4e := by intro hb; rw [hb] at hbig; simp at hbig
        cases hc : classify b with
        | pushbytes n => exact absurd hc (classify_big b (by omega) n)
        | _ => simp [h1, h2, h4, toIns, hne, ih']
    | push f bs =>
      cases f with
      | direct =>
        simp only [T.Tok.WF] at ht
        have e : (UInt8.ofNat bs.length).toNat = bs.length := by simp [UInt8.toNat_ofNat']; omega
        rw [show T.Tok.enc (.push .direct bs) = UInt8.ofNat bs.length :: bs from rfl, List.cons_append, instrs]
        rw [classify_small _ (by omega)]
        simp [e, toIns, ih']
      | pd1 =>
        simp only [T.Tok.WF, T.Form.width] at ht
        rw [show T.Tok.enc (.push .pd1 bs) = 0x4c :: (T.toLE 1 bs.length ++ bs) from rfl, List.cons_append, instrs]
        have hl : leN (T.toLE 1 bs.length) = bs.length := T.le_toLE 1 bs.length (by simpa using ht)
        have hlen := T.toLE_length 1 bs.length
        have hc : classify 0x4c = .ordinary := by decide
        simp [hc, List.append_assoc, List.take_append, List.drop_append, hlen, hl, toIns, ih']
      | pd2 =>
        simp only [T.Tok.WF, T.Form.width] at ht
        rw [show T.Tok.enc (.push .pd2 bs) = 0x4d :: (T.toLE 2 bs.length ++ bs) from rfl, List.cons_append, instrs]
        have hl : leN (T.toLE 2 bs.length) = bs.length := T.le_toLE 2 bs.length (by simpa using ht)
        have hlen := T.toLE_length 2 bs.length
        have hc : classify 0x4d = .ordinary := by decide
        simp [hc, List.append_assoc, List.take_append, List.drop_append, hlen, hl, toIns, ih']
      | pd4 =>
        simp only [T.Tok.WF, T.Form.width] at ht
        rw [show T.Tok.enc (.push .pd4 bs) = 0x4e :: (T.toLE 4 bs.length ++ bs) from rfl, List.cons_append, instrs]
        have hl : leN (T.toLE 4 bs.length) = bs.length := T.le_toLE 4 bs.length (by simpa using ht)
        have hlen := T.toLE_length 4 bs.length
        have hc : classify 0x4e = .ordinary := by decide
        simp [hc, List.append_assoc, List.take_append, List.drop_append, hlen, hl, toIns, ih']

/-- OP_RETURN followed by exactly one data push -/
def singlePush (f : T.Form) (p : Bytes) : Bytes := 0x6a :: (T.Tok.push f p).enc

theorem fork_single_push (ver : UInt8) (f : T.Form) (p : Bytes) (hwf : (T.Tok.push f p).WF) (hne : p ≠ []) :
    evalCustom ver (singlePush f p) = ⟨.opReturn (L.lossy p), none⟩ := by
  have hrt := T.tokenise_enc [T.Tok.op 0x6a, T.Tok.push f p] (by
    intro t ht
    simp only [List.mem_cons, List.not_mem_nil, or_false] at ht
    rcases ht with rfl | rfl
    · simp [T.Tok.WF]
    · exact hwf)
  have henc : [T.Tok.op 0x6a, T.Tok.push f p].flatMap T.Tok.enc = singlePush f p := by
    simp [singlePush, T.Tok.enc]
  rw [henc] at hrt
  have ht : tokens (singlePush f p) = some [.op 0x6a, .data p] := by
    rw [tokens_eq_spec _ _ rfl, hrt]
    have : p.isEmpty = false := by cases p <;> simp_all
    have hc : classify 106 ≠ Cls.noop := by decide
    simp [erase, eraseTok, this, hc]
  unfold evalCustom
  rw [ht]
  rfl

theorem instrs_single (f : T.Form) (p : Bytes) (hwf : (T.Tok.push f p).WF) :
    instrs (singlePush f p) = [some (.op 0x6a), some (.push p)] := by
  have h := instrs_enc [T.Tok.op 0x6a, T.Tok.push f p] (by
    intro t ht
    simp only [List.mem_cons, List.not_mem_nil, or_false] at ht
    rcases ht with rfl | rfl
    · simp [T.Tok.WF]
    · exact hwf)
  have henc : [T.Tok.op 0x6a, T.Tok.push f p].flatMap T.Tok.enc = singlePush f p := by
    simp [singlePush, T.Tok.enc]
  rw [henc] at h
  rw [h]
  simp [toIns]

theorem btc_single_push (testnet : Bool) (f : T.Form) (p : Bytes) (hwf : (T.Tok.push f p).WF) :
    evalBtc testnet (singlePush f p) =
      ⟨.opReturn (if L.valid p then p else []), none⟩ := by
  unfold evalBtc
  rw [instrs_single f p hwf]
  simp [singlePush]
end SM
