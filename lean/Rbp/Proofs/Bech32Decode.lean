import Rbp.Proofs.Bech32Check
/-!
# Bech32 / Bech32m: every segwit address the model prints decodes to its witness version and program (C05)
-/
namespace Bech

/-! ### bits ↔ numbers -/

theorem groupVal_acc (g : List Bool) : ∀ a : Nat, g.foldl (fun a b => a * 2 + b.toNat) a = a * 2 ^ g.length + groupVal g := by
  induction g with
  | nil => intro a; simp [groupVal]
  | cons b g ih =>
    intro a
    simp only [List.foldl_cons, List.length_cons, groupVal]
    rw [ih, ih (0 * 2 + b.toNat)]
    simp only [Nat.zero_mul, Nat.zero_add, Nat.pow_succ, Nat.add_mul]
    rw [Nat.mul_assoc, Nat.mul_comm 2]
    omega

theorem groupVal_cons (b : Bool) (g : List Bool) : groupVal (b :: g) = b.toNat * 2 ^ g.length + groupVal g := by
  simp only [groupVal, List.foldl_cons]
  rw [groupVal_acc]; simp [groupVal]

theorem groupVal_lt (g : List Bool) : groupVal g < 2 ^ g.length := by
  induction g with
  | nil => simp [groupVal]
  | cons b g ih =>
    rw [groupVal_cons, List.length_cons, Nat.pow_succ]
    have : b.toNat ≤ 1 := by cases b <;> simp
    have h2 : b.toNat * 2 ^ g.length ≤ 1 * 2 ^ g.length := Nat.mul_le_mul_right _ this
    omega

theorem bitsN_length (k n : Nat) : (bitsN k n).length = k := by
  induction k with
  | zero => rfl
  | succ k ih => simp [bitsN, ih]

/-- the bits depend only on the value mod 2^k -/
theorem bitsN_mod (k n : Nat) : bitsN k (n % 2 ^ k) = bitsN k n := by
  have gen : ∀ j, j ≤ k → bitsN j (n % 2 ^ k) = bitsN j n := by
    intro j
    induction j with
    | zero => intro _; rfl
    | succ j ih =>
      intro hj
      simp only [bitsN, Nat.testBit_mod_two_pow]
      rw [ih (by omega)]
      have : j < k := by omega
      simp [this]
  exact gen k (Nat.le_refl _)

/-- a group of `k` bits is recovered from its value -/
theorem bitsN_groupVal (g : List Bool) : bitsN g.length (groupVal g) = g := by
  induction g with
  | nil => rfl
  | cons b g ih =>
    rw [groupVal_cons, List.length_cons, bitsN]
    have hlt := groupVal_lt g
    have e : b.toNat * 2 ^ g.length + groupVal g = 2 ^ g.length * b.toNat + groupVal g := by rw [Nat.mul_comm]
    rw [e]
    congr 1
    · rw [Nat.testBit_two_pow_mul_add _ hlt]
      simp
      cases b <;> simp
    · rw [← bitsN_mod, Nat.mul_add_mod, Nat.mod_eq_of_lt hlt, ih]

/-- a number below 2^k is recovered from its `k` bits -/
theorem groupVal_bitsN (k n : Nat) : groupVal (bitsN k n) = n % 2 ^ k := by
  induction k with
  | zero => simp [bitsN, groupVal, Nat.mod_one]
  | succ k ih =>
    rw [bitsN, groupVal_cons, bitsN_length, ih, Nat.mod_pow_succ, Nat.testBit_eq_decide_div_mod_eq]
    have : n / 2 ^ k % 2 = 0 ∨ n / 2 ^ k % 2 = 1 := by omega
    rcases this with h | h <;> simp [h, Nat.mul_comm] <;> omega

/-! ### chunks -/

theorem chunks_flatten {α} (k : Nat) (hk : 0 < k) : ∀ (l : List α), (chunks k hk l).flatten = l := by
  intro l
  induction l using List.recOn with
  | nil => simp [chunks]
  | cons a l _ =>
    -- strong induction on the length
    have : ∀ n (l : List α), l.length = n → (chunks k hk l).flatten = l := by
      intro n
      induction n using Nat.strongRecOn with
      | _ n ih =>
        intro l hl
        cases l with
        | nil => simp [chunks]
        | cons a l =>
          rw [chunks, List.flatten_cons, ih ((a :: l).drop k).length (by rw [← hl]; simp only [List.length_drop, List.length_cons]; omega) _ rfl]
          exact List.take_append_drop k (a :: l)
    exact this _ _ rfl

/-- all chunks of a list whose length is a multiple of `k` are full -/
theorem chunks_full {α} (k : Nat) (hk : 0 < k) : ∀ n (l : List α), l.length = n → k ∣ n → ∀ g ∈ chunks k hk l, g.length = k := by
  intro n
  induction n using Nat.strongRecOn with
  | _ n ih =>
    intro l hl hd g hg
    cases l with
    | nil => simp [chunks] at hg
    | cons a l =>
      rw [chunks] at hg
      have hkn : k ≤ n := Nat.le_of_dvd (by rw [← hl]; simp) hd
      rcases List.mem_cons.mp hg with e | e
      · rw [e, List.length_take]; omega
      · refine ih ((a :: l).drop k).length (by rw [← hl]; simp only [List.length_drop, List.length_cons]; omega) _ rfl ?_ g e
        rw [List.length_drop, hl]
        exact Nat.dvd_sub hd (Nat.dvd_refl k)

/-- chunking a concatenation of `k`-element pieces gives the pieces back -/
theorem chunks_flatMap {α β} (k : Nat) (hk : 0 < k) (f : α → List β) (hf : ∀ x, (f x).length = k) :
    ∀ xs : List α, chunks k hk (xs.flatMap f) = xs.map f := by
  intro xs
  induction xs with
  | nil => simp [chunks]
  | cons x xs ih =>
    rw [List.flatMap_cons, List.map_cons]
    have hx := hf x
    cases hfx : f x with
    | nil => rw [hfx] at hx; simp at hx; omega
    | cons b bs =>
      rw [List.cons_append, chunks, ← List.cons_append, ← hfx]
      have e1 : (f x ++ xs.flatMap f).take k = f x := by rw [← hx]; simp
      have e2 : (f x ++ xs.flatMap f).drop k = xs.flatMap f := by rw [← hx]; simp
      rw [e1, e2, ih]
end Bech

namespace A
open Bech

def charsetVal (c : Char) : Option Nat := charset.toList.findIdx? (· == c)

/-- 5→8 bit regrouping of the reference decoder (BIP173): whole bytes, and the leftover must be fewer than five zero bits -/
def from5 (vs : List Nat) : Option Bytes :=
  let B := vs.flatMap (bitsN 5)
  let n := B.length / 8
  let rest := B.drop (8 * n)
  if rest.all (· == false) && decide (rest.length < 5) then
    some ((chunks 8 (by omega) (B.take (8 * n))).map fun g => UInt8.ofNat (groupVal g))
  else none

/-- reference decoder of a segwit address for a known human-readable part: prefix `hrp ‖ "1"`, data characters from the
    Bech32 alphabet, checksum constant chosen by the witness version (Bech32 for 0, Bech32m otherwise), program regrouped -/
def segwitDecode (hrp : String) (s : String) : Option (Nat × Bytes) :=
  let pre := hrp.toList ++ ['1']
  let cs := s.toList
  if cs.take pre.length ≠ pre then none else
  ((cs.drop pre.length).mapM charsetVal).bind fun vals =>
    match vals with
    | [] => none
    | ver :: rest =>
      if rest.length < 6 then none else
      if polymod ((hrpExpand hrp ++ vals).map (BitVec.ofNat 30)) ≠ bechConst ver then none else
      (from5 (rest.take (rest.length - 6))).map fun prog => (ver, prog)

theorem bitsOf_length (bs : Bytes) : (bitsOf bs).length = 8 * bs.length := by
  induction bs with
  | nil => rfl
  | cons b bs ih => simp only [bitsOf, List.flatMap_cons, List.length_append, bitsN_length, List.length_cons] at ih ⊢; omega

theorem flatMap_bits_groupVal (cs : List (List Bool)) (h : ∀ g ∈ cs, g.length = 5) :
    (cs.map groupVal).flatMap (bitsN 5) = cs.flatten := by
  induction cs with
  | nil => rfl
  | cons g cs ih =>
    have hg := h g (by simp)
    simp only [List.map_cons, List.flatMap_cons, List.flatten_cons]
    rw [ih (fun x hx => h x (by simp [hx]))]
    congr 1
    rw [← hg]; exact bitsN_groupVal g

theorem chunks8_bitsOf (prog : Bytes) (h8 : 0 < 8) : chunks 8 h8 (bitsOf prog) = prog.map (fun b => bitsN 8 b.toNat) :=
  chunks_flatMap 8 h8 (fun b : UInt8 => bitsN 8 b.toNat) (fun b => bitsN_length 8 b.toNat) prog

theorem byte_of_bits (b : UInt8) : UInt8.ofNat (groupVal (bitsN 8 b.toNat)) = b := by
  rw [groupVal_bitsN]
  have := b.toNat_lt
  rw [Nat.mod_eq_of_lt (by omega)]
  simp

theorem from5_core (prog : Bytes) (p : Nat) (hp5 : p < 5) (hd : (8 * prog.length + p) % 5 = 0) :
    from5 ((chunks 5 (by omega) (bitsOf prog ++ List.replicate p false)).map groupVal) = some prog := by
  unfold from5
  simp only
  have hB := bitsOf_length prog
  have hlen : (bitsOf prog ++ List.replicate p false).length = 8 * prog.length + p := by simp [hB]
  have hdiv : 5 ∣ (bitsOf prog ++ List.replicate p false).length := by
    rw [hlen]; exact Nat.dvd_of_mod_eq_zero hd
  rw [flatMap_bits_groupVal _ (chunks_full 5 (by omega) _ _ rfl hdiv), chunks_flatten, hlen]
  have hn : (8 * prog.length + p) / 8 = prog.length := by omega
  rw [hn]
  have e1 : (bitsOf prog ++ List.replicate p false).drop (8 * prog.length) = List.replicate p false := by
    rw [← hB]; simp
  have e2 : (bitsOf prog ++ List.replicate p false).take (8 * prog.length) = bitsOf prog := by
    rw [← hB]; simp
  rw [e1, e2]
  have hall : (List.replicate p false).all (· == false) = true := by simp
  simp only [hall, List.length_replicate, hp5, decide_true, Bool.and_self, if_true, Option.some.injEq]
  rw [chunks8_bitsOf, List.map_map]
  have : ∀ b ∈ prog, ((fun g => UInt8.ofNat (groupVal g)) ∘ fun b : UInt8 => bitsN 8 b.toNat) b = id b :=
    fun b _ => byte_of_bits b
  rw [List.map_congr_left this, List.map_id]

/-- the 8→5→8 regrouping round trip: the program bytes come back exactly -/
theorem from5_to5 (prog : Bytes) : from5 (to5 prog) = some prog := by
  have hB := bitsOf_length prog
  exact from5_core prog ((5 - (bitsOf prog).length % 5) % 5) (by omega) (by omega)

theorem charsetVal_char : ∀ v : Fin 32, charsetVal (charset[v.val]!) = some v.val := by
  simp only [charsetVal]
  decide

theorem mapM_charsetVal (vs : List Nat) (h : ∀ v ∈ vs, v < 32) : (vs.map (fun v => charset[v]!)).mapM charsetVal = some vs := by
  induction vs with
  | nil => rfl
  | cons v vs ih =>
    have := charsetVal_char ⟨v, h v (by simp)⟩
    simp only at this
    simp only [List.map_cons, List.mapM_cons, this, ih (fun x hx => h x (by simp [hx]))]
    rfl

theorem to5_lt (prog : Bytes) : ∀ v ∈ to5 prog, v < 32 := by
  intro v hv
  unfold to5 at hv
  simp only at hv
  obtain ⟨g, hg, rfl⟩ := List.mem_map.mp hv
  have hB := bitsOf_length prog
  have hdiv : 5 ∣ (bitsOf prog ++ List.replicate ((5 - (bitsOf prog).length % 5) % 5) false).length := by
    simp only [List.length_append, List.length_replicate, hB]; apply Nat.dvd_of_mod_eq_zero; omega
  have := chunks_full 5 (by omega) _ _ rfl hdiv g hg
  have hl := groupVal_lt g
  rw [this] at hl
  exact hl

theorem checksum_lt (c : W) (vs : List Nat) : ∀ v ∈ checksum c vs, v < 32 := by
  intro v hv
  unfold checksum at hv
  simp only at hv
  obtain ⟨i, _, rfl⟩ := List.mem_map.mp hv
  exact and31_lt _

theorem checksum_length (c : W) (vs : List Nat) : (checksum c vs).length = 6 := by simp [checksum]

/-- **every segwit address the model prints carries the network's human-readable part, a checksum that verifies (Bech32 for
    version 0, Bech32m for versions 1..16) and decodes to exactly the witness version and program it was made from** -/
theorem segwitDecode_segwitAddr (hrp : String) (ver : Nat) (hv : ver < 32) (prog : Bytes) :
    segwitDecode hrp (segwitAddr hrp ver prog) = some (ver, prog) := by
  unfold segwitDecode segwitAddr
  simp only [String.toList_append, String.toList_ofList]
  have hone : ("1" : String).toList = ['1'] := rfl
  rw [hone]
  have hpre : (hrp.toList ++ ['1'] ++ ((ver :: to5 prog ++ checksum (bechConst ver) (hrpExpand hrp ++ ver :: to5 prog)).map fun v => charset[v]!)).take
      (hrp.toList ++ ['1']).length = hrp.toList ++ ['1'] := by
    exact List.take_left' rfl
  have hdrop : (hrp.toList ++ ['1'] ++ ((ver :: to5 prog ++ checksum (bechConst ver) (hrpExpand hrp ++ ver :: to5 prog)).map fun v => charset[v]!)).drop
      (hrp.toList ++ ['1']).length = (ver :: to5 prog ++ checksum (bechConst ver) (hrpExpand hrp ++ ver :: to5 prog)).map fun v => charset[v]! := by
    exact List.drop_left' rfl
  rw [hpre, hdrop]
  simp only [ne_eq, not_true_eq_false, if_false]
  have hall : ∀ v ∈ ver :: to5 prog ++ checksum (bechConst ver) (hrpExpand hrp ++ ver :: to5 prog), v < 32 := by
    intro v hm
    rcases List.mem_append.mp hm with h | h
    · rcases List.mem_cons.mp h with e | e
      · rw [e]; exact hv
      · exact to5_lt prog v e
    · exact checksum_lt _ _ v h
  rw [mapM_charsetVal _ hall]
  simp only [Option.bind_some, List.cons_append]
  have hl6 : ¬ (to5 prog ++ checksum (bechConst ver) (hrpExpand hrp ++ ver :: to5 prog)).length < 6 := by
    simp [checksum_length]
  simp only [hl6, if_false]
  have hck := checksum_valid (bechConst ver) (hrpExpand hrp ++ ver :: to5 prog)
  have hre : hrpExpand hrp ++ ver :: (to5 prog ++ checksum (bechConst ver) (hrpExpand hrp ++ ver :: to5 prog)) =
      (hrpExpand hrp ++ ver :: to5 prog) ++ checksum (bechConst ver) (hrpExpand hrp ++ ver :: to5 prog) := by simp
  rw [hre, hck]
  simp only [ne_eq, not_true_eq_false, if_false]
  have htake : (to5 prog ++ checksum (bechConst ver) (hrpExpand hrp ++ ver :: to5 prog)).take
      ((to5 prog ++ checksum (bechConst ver) (hrpExpand hrp ++ ver :: to5 prog)).length - 6) = to5 prog := by
    rw [List.length_append, checksum_length]
    simp
  rw [htake, from5_to5]
  rfl
end A
