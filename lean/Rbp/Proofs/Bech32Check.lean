import Rbp.Model.Addr
import Rbp.Proofs.Bech32
/-!
# Bech32 / Bech32m: the checksum the model appends always verifies (C05)
-/
namespace Bech

theorem polymod_append (a b : List W) : polymod (a ++ b) = b.foldl step (polymod a) := by
  simp [polymod, List.foldl_append]

theorem step_zero (c : W) : step c 0 = T c := by simp [step]

theorem shl_small (v : W) (k : Nat) (hv : v.toNat < 32) (hk : k ≤ 20) : (v <<< k).toNat < 2^25 := by
  rw [BitVec.toNat_shiftLeft, Nat.shiftLeft_eq]
  have h1 : v.toNat * 2^k < 32 * 2^k := Nat.mul_lt_mul_of_pos_right hv (Nat.two_pow_pos k)
  have h2 : 32 * 2^k ≤ 32 * 2^20 := Nat.mul_le_mul_left 32 (Nat.pow_le_pow_right (by omega) hk)
  have : v.toNat * 2^k < 2^25 := by
    have e : (32 : Nat) * 2^20 = 2^25 := by decide
    omega
  exact Nat.lt_of_le_of_lt (Nat.mod_le _ _) this

theorem T_shl (v : W) (k : Nat) (hv : v.toNat < 32) (hk : k ≤ 20) : T (v <<< k) = v <<< (k + 5) := by
  rw [T_small _ (shl_small v k hv hk), BitVec.shiftLeft_add]

theorem T_small5 (v : W) (hv : v.toNat < 32) : T v = v <<< 5 := by
  have := T_shl v 0 hv (by omega)
  rw [BitVec.shiftLeft_zero] at this
  exact this

/-- `n` steps with zero input -/
def Tn : Nat → W → W
  | 0, c => c
  | n+1, c => Tn n (T c)

theorem Tn_xor : ∀ (n : Nat) (a b : W), Tn n (a ^^^ b) = Tn n a ^^^ Tn n b
  | 0, _, _ => rfl
  | n+1, a, b => by simp only [Tn, T_xor, Tn_xor n]

/-- what a list of input values contributes to the final state -/
def contrib : List W → W
  | [] => 0
  | v :: vs => Tn vs.length v ^^^ contrib vs

/-- the state machine is linear: final state = the start state advanced `|vs|` times, xor the contributions of the inputs -/
theorem foldl_step_lin : ∀ (vs : List W) (c : W), vs.foldl step c = Tn vs.length c ^^^ contrib vs
  | [], c => by simp [Tn, contrib]
  | v :: vs, c => by
    simp only [List.foldl_cons, step, List.length_cons, Tn, contrib]
    rw [foldl_step_lin vs, Tn_xor]
    ac_rfl

theorem zeros_steps (k : Nat) (c : W) : (List.replicate k (0 : W)).foldl step c = Tn k c := by
  induction k generalizing c with
  | zero => rfl
  | succ k ih => simp only [List.replicate_succ, List.foldl_cons, step_zero, ih, Tn]

/-- absorbing six 5-bit values: the state is advanced six times and the values land in the six 5-bit fields -/
theorem six_steps (c v0 v1 v2 v3 v4 v5 : W) (h0 : v0.toNat < 32) (h1 : v1.toNat < 32) (h2 : v2.toNat < 32)
    (h3 : v3.toNat < 32) (h4 : v4.toNat < 32) (_h5 : v5.toNat < 32) :
    [v0, v1, v2, v3, v4, v5].foldl step c =
      Tn 6 c ^^^ (v0 <<< 25 ^^^ v1 <<< 20 ^^^ v2 <<< 15 ^^^ v3 <<< 10 ^^^ v4 <<< 5 ^^^ v5 <<< 0) := by
  have s (v : W) (hv : v.toNat < 32) : T v = v <<< 5 ∧ T (v <<< 5) = v <<< 10 ∧ T (v <<< 10) = v <<< 15 ∧
      T (v <<< 15) = v <<< 20 ∧ T (v <<< 20) = v <<< 25 :=
    ⟨T_small5 v hv, T_shl v 5 hv (by omega), T_shl v 10 hv (by omega), T_shl v 15 hv (by omega), T_shl v 20 hv (by omega)⟩
  obtain ⟨a1, a2, a3, a4, a5⟩ := s v0 h0
  obtain ⟨b1, b2, b3, b4, _⟩ := s v1 h1
  obtain ⟨c1, c2, c3, _, _⟩ := s v2 h2
  obtain ⟨d1, d2, _, _, _⟩ := s v3 h3
  obtain ⟨e1, _, _, _, _⟩ := s v4 h4
  rw [foldl_step_lin]
  simp only [List.length_cons, List.length_nil, contrib, Tn, a1, a2, a3, a4, a5, b1, b2, b3, b4, c1, c2, c3, d1, d2, e1,
    BitVec.shiftLeft_zero]
  have z : v5 ^^^ (0 : W) = v5 := BitVec.xor_zero
  rw [z]
  simp only [BitVec.xor_assoc]

theorem bit31 (j : Nat) : (31 : W).getLsbD j = decide (j < 5) := by
  by_cases h : j < 5
  · have : j = 0 ∨ j = 1 ∨ j = 2 ∨ j = 3 ∨ j = 4 := by omega
    rcases this with rfl | rfl | rfl | rfl | rfl <;> decide
  · simp only [h, decide_false]
    show (BitVec.ofNat 30 31).getLsbD j = false
    simp only [BitVec.getLsbD_ofNat]
    have : Nat.testBit 31 j = false := Nat.testBit_lt_two_pow (Nat.lt_of_lt_of_le (by decide : 31 < 2^5) (Nat.pow_le_pow_right (by omega) (by omega)))
    simp [this]

/-- bit `i` of the `k`-th 5-bit field put back in place -/
theorem field_bit (x : W) (k i : Nat) (hi : i < 30) :
    (((x >>> k) &&& 31) <<< k).getLsbD i = (decide (k ≤ i ∧ i < k + 5) && x.getLsbD i) := by
  simp only [BitVec.getLsbD_shiftLeft, BitVec.getLsbD_and, BitVec.getLsbD_ushiftRight, bit31]
  by_cases q : k ≤ i
  · have e : k + (i - k) = i := by omega
    by_cases q2 : i < k + 5
    · have : i - k < 5 := by omega
      simp [e, q, q2, hi, this]
    · have : ¬ i - k < 5 := by omega
      simp [e, q, q2, this]
  · have : i < k := by omega
    simp [q, this]

/-- a 30-bit word is the xor of its six 5-bit fields put back in place -/
theorem fields (x : W) :
    ((x >>> 25) &&& 31) <<< 25 ^^^ ((x >>> 20) &&& 31) <<< 20 ^^^ ((x >>> 15) &&& 31) <<< 15 ^^^
    ((x >>> 10) &&& 31) <<< 10 ^^^ ((x >>> 5) &&& 31) <<< 5 ^^^ ((x >>> 0) &&& 31) <<< 0 = x := by
  apply BitVec.eq_of_getLsbD_eq
  intro i hi
  simp only [BitVec.getLsbD_xor, field_bit _ _ _ hi]
  have hc : i < 5 ∨ (5 ≤ i ∧ i < 10) ∨ (10 ≤ i ∧ i < 15) ∨ (15 ≤ i ∧ i < 20) ∨ (20 ≤ i ∧ i < 25) ∨ (25 ≤ i ∧ i < 30) := by omega
  have d (k : Nat) : decide (k ≤ i ∧ i < k + 5) = (decide (k ≤ i) && decide (i < k + 5)) := by simp
  rcases hc with h | h | h | h | h | h <;> cases x.getLsbD i <;> simp
  all_goals (
    first | have a1 : 25 ≤ i := by omega | have a1 : ¬ 25 ≤ i := by omega
    first | have a2 : 20 ≤ i := by omega | have a2 : ¬ 20 ≤ i := by omega
    first | have a3 : 15 ≤ i := by omega | have a3 : ¬ 15 ≤ i := by omega
    first | have a4 : 10 ≤ i := by omega | have a4 : ¬ 10 ≤ i := by omega
    first | have a5 : 5 ≤ i := by omega | have a5 : ¬ 5 ≤ i := by omega
    first | have b2 : i < 25 := by omega | have b2 : ¬ i < 25 := by omega
    first | have b3 : i < 20 := by omega | have b3 : ¬ i < 20 := by omega
    first | have b4 : i < 15 := by omega | have b4 : ¬ i < 15 := by omega
    first | have b5 : i < 10 := by omega | have b5 : ¬ i < 10 := by omega
    first | have b6 : i < 5 := by omega | have b6 : ¬ i < 5 := by omega
    simp [a1, a2, a3, a4, a5, b2, b3, b4, b5, b6, hi])
end Bech

namespace A
open Bech

theorem and31_lt (x : W) : (x &&& 31).toNat < 32 := by
  rw [BitVec.toNat_and]
  have : x.toNat &&& (31 : W).toNat ≤ (31 : W).toNat := Nat.and_le_right
  have e : (31 : W).toNat = 31 := by decide
  omega

/-- **the checksum the model appends always verifies**: for every list of values (hrp expansion ++ version ++ program
    groups) and either constant (Bech32: 1, Bech32m: 0x2bc830a3), running the checksum state machine over the values followed
    by the six appended checksum values ends in exactly that constant -/
theorem checksum_valid (const : W) (vs : List Nat) :
    polymod ((vs ++ checksum const vs).map (BitVec.ofNat 30)) = const := by
  rw [List.map_append, polymod_append]
  have hpm : polymod (vs.map (BitVec.ofNat 30) ++ List.replicate 6 0) = Tn 6 (polymod (vs.map (BitVec.ofNat 30))) := by
    rw [polymod_append, zeros_steps]
  generalize polymod (vs.map (BitVec.ofNat 30)) = c at hpm ⊢
  unfold checksum
  rw [hpm]
  generalize hp : Tn 6 c ^^^ const = pm
  have hr : List.range 6 = [0, 1, 2, 3, 4, 5] := by decide
  simp only [hr, List.map_cons, List.map_nil, BitVec.ofNat_toNat, BitVec.setWidth_eq]
  have e : [(pm >>> (5 * (5 - 0))) &&& 31, (pm >>> (5 * (5 - 1))) &&& 31, (pm >>> (5 * (5 - 2))) &&& 31,
      (pm >>> (5 * (5 - 3))) &&& 31, (pm >>> (5 * (5 - 4))) &&& 31, (pm >>> (5 * (5 - 5))) &&& 31] =
      [(pm >>> 25) &&& 31, (pm >>> 20) &&& 31, (pm >>> 15) &&& 31, (pm >>> 10) &&& 31, (pm >>> 5) &&& 31, (pm >>> 0) &&& 31] := rfl
  rw [e, six_steps c _ _ _ _ _ _ (and31_lt _) (and31_lt _) (and31_lt _) (and31_lt _) (and31_lt _) (and31_lt _), fields, ← hp]
  rw [← BitVec.xor_assoc, BitVec.xor_self]
  exact BitVec.zero_xor
end A
