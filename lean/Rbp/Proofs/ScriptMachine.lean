import Rbp.Model.ScriptMachine
/-! The index machine of `custom.rs` never reaches a panic site and computes `S.evalCustom` (C14, C06). -/
namespace SM
open S

theorem leN_lt (bs : Bytes) : leN bs < 256 ^ bs.length := by
  induction bs with
  | nil => simp [leN]
  | cons b bs ih =>
    simp only [leN, List.foldr_cons, List.length_cons, Nat.pow_succ] at *
    have := b.toNat_lt
    omega

theorem drop_cons_of_lt (bytes : Bytes) (ip : Nat) (h : ip < bytes.length) :
    bytes.drop ip = bytes[ip] :: bytes.drop (ip + 1) := by
  rw [List.drop_eq_getElem_cons h]

/-- tokens on a cons, as an equation (unfolds the well-founded definition once) -/
theorem tokens_cons (b : UInt8) (rest : Bytes) :
    tokens (b :: rest) =
      (let fin (k : Nat) (dataLen : Nat) : Option (List El) :=
        if dataLen > 0 then
          if dataLen ≤ (rest.drop k).length then
            (tokens ((rest.drop k).drop dataLen)).map (El.data ((rest.drop k).take dataLen) :: ·)
          else none
        else if classify b = .noop then tokens (rest.drop k)
        else (tokens (rest.drop k)).map (El.op b :: ·)
      match classify b with
      | .pushbytes n => fin 0 n
      | _ =>
        if b = 0x4c then (if 1 ≤ rest.length then fin 1 (leN (rest.take 1)) else none)
        else if b = 0x4d then (if 2 ≤ rest.length then fin 2 (leN (rest.take 2)) else none)
        else if b = 0x4e then (if 4 ≤ rest.length then fin 4 (leN (rest.take 4)) else none)
        else fin 0 0) := by
  rw [tokens]
  rfl

/-- the continuation of `tokens` once the push length `n` and the number `k` of length bytes are known -/
def finR (b : UInt8) (rest : Bytes) (k n : Nat) : Option (List El) :=
  if n > 0 then
    if n ≤ (rest.drop k).length then
      (tokens ((rest.drop k).drop n)).map (El.data ((rest.drop k).take n) :: ·)
    else none
  else if classify b = .noop then tokens (rest.drop k)
  else (tokens (rest.drop k)).map (El.op b :: ·)

theorem tokens_cons' (b : UInt8) (rest : Bytes) :
    tokens (b :: rest) =
      match classify b with
      | .pushbytes n => finR b rest 0 n
      | _ =>
        if b = 0x4c then (if 1 ≤ rest.length then finR b rest 1 (leN (rest.take 1)) else none)
        else if b = 0x4d then (if 2 ≤ rest.length then finR b rest 2 (leN (rest.take 2)) else none)
        else if b = 0x4e then (if 4 ≤ rest.length then finR b rest 4 (leN (rest.take 4)) else none)
        else finR b rest 0 0 := by
  rw [tokens_cons]; rfl

/-- result the loop must produce from position `ip` -/
def expect (acc : List El) (t : Option (List El)) : Out (List El) :=
  match t with
  | some t => .ok (acc.reverse ++ t)
  | none => .eof

theorem expect_map (acc : List El) (e : El) (t : Option (List El)) :
    expect (e :: acc) t = expect acc (t.map (e :: ·)) := by
  cases t <;> simp [expect]

/-- the part of one loop iteration after `maybe_push_data` returned `(n, ip + k)` -/
theorem tail_eq (bytes : Bytes) (fuel ip k n : Nat) (acc : List El) (b : UInt8)
    (hip : ip < bytes.length) (hk : ip + 1 + k ≤ bytes.length) (hn : n < 2^32) (hlen : bytes.length < 2^63)
    (ih : ∀ ip' acc', ip' ≤ bytes.length → bytes.length - ip' < fuel →
      loop bytes fuel ip' acc' = expect acc' (tokens (bytes.drop ip')))
    (hfuel : bytes.length - ip < fuel + 1) :
    (if ip + k + 1 + n ≥ 2^64 then Out.panic
     else if n > 0 then
       if ip + k + 1 + n > bytes.length then Out.eof
       else match slice bytes (ip + k + 1) (ip + k + 1 + n) with
         | .ok d => loop bytes fuel (ip + k + 1 + n) (El.data d :: acc)
         | .eof => .eof
         | .panic => .panic
     else if classify b ≠ .noop then loop bytes fuel (ip + k + 1) (El.op b :: acc)
     else loop bytes fuel (ip + k + 1) acc) = expect acc (finR b (bytes.drop (ip + 1)) k n) := by
  have hno : ¬ (ip + k + 1 + n ≥ 2^64) := by omega
  simp only [hno, if_false]
  have hdrop : (bytes.drop (ip + 1)).drop k = bytes.drop (ip + k + 1) := by
    rw [List.drop_drop]; congr 1; omega
  unfold finR
  rw [hdrop]
  by_cases hpos : n > 0
  · simp only [hpos, if_true]
    have hl : (bytes.drop (ip + k + 1)).length = bytes.length - (ip + k + 1) := by simp
    by_cases hfit : ip + k + 1 + n > bytes.length
    · have : ¬ n ≤ bytes.length - (ip + k + 1) := by omega
      simp [hfit, this, expect]
    · have hle : n ≤ (bytes.drop (ip + k + 1)).length := by rw [hl]; omega
      simp only [hfit, if_false, hle, if_true]
      have hs : slice bytes (ip + k + 1) (ip + k + 1 + n) = .ok ((bytes.drop (ip + k + 1)).take n) := by
        unfold slice
        have : ip + k + 1 ≤ ip + k + 1 + n ∧ ip + k + 1 + n ≤ bytes.length := ⟨by omega, by omega⟩
        simp only [this, and_self, if_true]
        congr 2; omega
      rw [hs]
      simp only
      rw [ih _ _ (by omega) (by omega), expect_map, List.drop_drop]
  · simp only [hpos, if_false]
    by_cases hnoop : classify b = .noop
    · simp only [hnoop, ne_eq, not_true_eq_false, if_false, if_true]
      exact ih _ _ (by omega) (by omega)
    · simp only [hnoop, ne_eq, not_false_eq_true, if_true, if_false]
      rw [ih _ _ (by omega) (by omega), expect_map]

theorem pushDataK_eq (bytes : Bytes) (ip k : Nat) (hip : ip < bytes.length) :
    pushDataK bytes ip k =
      if k ≤ (bytes.drop (ip + 1)).length then .ok (leN ((bytes.drop (ip + 1)).take k), ip + k) else .eof := by
  unfold pushDataK
  have hl : (bytes.drop (ip + 1)).length = bytes.length - (ip + 1) := List.length_drop
  by_cases h : ip + 1 + k > bytes.length
  · have : ¬ k ≤ (bytes.drop (ip + 1)).length := by rw [hl]; omega
    simp only [h, if_true, this, if_false]
  · have h2 : k ≤ (bytes.drop (ip + 1)).length := by rw [hl]; omega
    have h3 : ip + 1 ≤ bytes.length := by omega
    have h4 : ¬ (bytes.drop (ip + 1)).length < k := by omega
    simp only [h, if_false, sliceFrom, h3, if_true, readUint, h4, h2]

theorem classify_pushbytes (b : UInt8) (n : Nat) (h : classify b = .pushbytes n) : n ≤ 0x4b := by
  unfold classify at h
  simp only at h
  repeat' split at h
  all_goals first | (injection h with h; omega) | cases h

theorem take_leN_lt (l : Bytes) (k : Nat) (hk : k ≤ 4) : leN (l.take k) < 2^32 := by
  have h1 := leN_lt (l.take k)
  have h2 : (l.take k).length ≤ 4 := by simp; omega
  have h3 : 256 ^ (l.take k).length ≤ 256 ^ 4 := Nat.pow_le_pow_right (by decide) h2
  have : (256 : Nat) ^ 4 = 2 ^ 32 := by decide
  omega

/-- the loop never panics and returns exactly the structural tokenisation -/
theorem loop_eq (bytes : Bytes) (hlen : bytes.length < 2^63) : ∀ (fuel ip : Nat) (acc : List El),
    ip ≤ bytes.length → bytes.length - ip < fuel →
    loop bytes fuel ip acc = expect acc (tokens (bytes.drop ip)) := by
  intro fuel
  induction fuel with
  | zero => intro ip acc _ h; omega
  | succ fuel ih =>
    intro ip acc hle hfuel
    rw [loop]
    by_cases hip : ip < bytes.length
    · simp only [hip, if_true]
      have hget : bytes[ip]? = some bytes[ip] := List.getElem?_eq_getElem hip
      rw [hget]
      simp only
      rw [drop_cons_of_lt bytes ip hip, tokens_cons']
      generalize hb : bytes[ip] = b
      have hl : (bytes.drop (ip + 1)).length = bytes.length - (ip + 1) := List.length_drop
      have push (c : Cls) (hcc : classify b = c) (k : Nat) (hk4 : k ≤ 4) :
          (match pushDataK bytes ip k with
            | .eof => Out.eof
            | .panic => Out.panic
            | .ok (dataLen, ip1) =>
              if ip1 + 1 + dataLen ≥ 2^64 then Out.panic
              else if dataLen > 0 then
                if ip1 + 1 + dataLen > bytes.length then Out.eof
                else match slice bytes (ip1 + 1) (ip1 + 1 + dataLen) with
                  | .ok d => loop bytes fuel (ip1 + 1 + dataLen) (El.data d :: acc)
                  | .eof => .eof
                  | .panic => .panic
              else if c ≠ .noop then loop bytes fuel (ip1 + 1) (El.op b :: acc)
              else loop bytes fuel (ip1 + 1) acc) =
          expect acc (if k ≤ (bytes.drop (ip + 1)).length then finR b (bytes.drop (ip + 1)) k (leN ((bytes.drop (ip + 1)).take k)) else none) := by
        subst hcc
        rw [pushDataK_eq bytes ip k hip]
        by_cases hk : k ≤ (bytes.drop (ip + 1)).length
        · simp only [hk, if_true]
          exact tail_eq bytes fuel ip k _ acc b hip (by rw [hl] at hk; omega) (take_leN_lt _ k hk4) hlen ih hfuel
        · simp only [hk, if_false, expect]
      have plain (c : Cls) (hcc : classify b = c) (n : Nat) (hn : n < 2^32) :
          (if ip + 1 + n ≥ 2^64 then Out.panic
              else if n > 0 then
                if ip + 1 + n > bytes.length then Out.eof
                else match slice bytes (ip + 1) (ip + 1 + n) with
                  | .ok d => loop bytes fuel (ip + 1 + n) (El.data d :: acc)
                  | .eof => .eof
                  | .panic => .panic
              else if c ≠ .noop then loop bytes fuel (ip + 1) (El.op b :: acc)
              else loop bytes fuel (ip + 1) acc) = expect acc (finR b (bytes.drop (ip + 1)) 0 n) := by
        subst hcc
        have := tail_eq bytes fuel ip 0 n acc b hip (by omega) hn hlen ih hfuel
        simpa using this
      unfold maybePushData
      cases hc : classify b with
      | pushbytes n =>
        have hn := classify_pushbytes b n hc
        exact plain _ hc n (by omega)
      | illegal | noop | ret | pushnum | ordinary =>
        simp only
        by_cases h1 : b = 0x4c
        · simp only [if_pos h1]; exact push _ hc 1 (by omega)
        · simp only [if_neg h1]
          by_cases h2 : b = 0x4d
          · simp only [if_pos h2]; exact push _ hc 2 (by omega)
          · simp only [if_neg h2]
            by_cases h4 : b = 0x4e
            · simp only [if_pos h4]; exact push _ hc 4 (by omega)
            · simp only [if_neg h4]
              exact plain _ hc 0 (by decide)
    · have : ip = bytes.length := by omega
      subst this
      simp [expect, tokens]

/-- structural reading of `match_stack_pattern` -/
def allMatch : List El → List El → Bool
  | [], [] => true
  | a :: as, b :: bs => elMatches a b && allMatch as bs
  | _, _ => false

theorem go_eq (els pat : List El) : ∀ (n i : Nat), i + n = pat.length → els.length = pat.length →
    matchPattern.go els pat i n = .ok (allMatch (els.drop i) (pat.drop i)) := by
  intro n
  induction n with
  | zero =>
    intro i h1 h2
    have e1 : els.drop i = [] := List.drop_eq_nil_of_le (by omega)
    have e2 : pat.drop i = [] := List.drop_eq_nil_of_le (by omega)
    simp [matchPattern.go, e1, e2, allMatch]
  | succ n ih =>
    intro i h1 h2
    have hi1 : i < els.length := by omega
    have hi2 : i < pat.length := by omega
    rw [matchPattern.go]
    simp only [idx, List.getElem?_eq_getElem hi1, List.getElem?_eq_getElem hi2]
    rw [List.drop_eq_getElem_cons hi1, List.drop_eq_getElem_cons hi2]
    simp only [allMatch]
    by_cases hm : elMatches els[i] pat[i] = true
    · simp only [hm, if_true, Bool.true_and]
      exact ih (i + 1) (by omega) h2
    · have hm' : elMatches els[i] pat[i] = false := by simpa using hm
      simp [hm']

/-- `match_stack_pattern` never indexes out of bounds and is the structural comparison -/
theorem matchPattern_eq (els pat : List El) :
    matchPattern els pat = .ok (decide (els.length = pat.length) && allMatch els pat) := by
  unfold matchPattern
  by_cases h : els.length = pat.length
  · simp only [h, ne_eq, not_true_eq_false, if_false, decide_true, Bool.true_and]
    simpa using go_eq els pat pat.length 0 (by omega) h
  · simp [h]

def m (els p : List El) : Bool := decide (els.length = p.length) && allMatch els p
def P1 : List El := [.op 0x76, .op 0xa9, D, .op 0x88, .op 0xac]
def P2 : List El := [D, .op 0xac]
def P3 : List El := [.op 0xa9, D, .op 0x87]
def P4 : List El := [.op 0x6a, D]
def P5 : List El := [.op 0x52, D, D, D, .op 0x53, .op 0xae]

/-- `eval_script_pattern` as a cascade over the structural comparison (no index can be out of bounds) -/
theorem scriptPattern_eq (els : List El) : scriptPattern els =
    if m els P1 then .ok .p2pkh else if m els P2 then .ok .p2pk else if m els P3 then .ok .p2sh
    else if m els P4 then (match idx els 1 with
          | .ok e => (match elData e with | .data d => .ok (.dataOut d) | .invalid => .ok .error)
          | _ => .panic)
    else if m els P5 then .ok .multisig else .ok .notRecognised := by
  simp only [scriptPattern, matchPattern_eq]
  show _ = if m els P1 then _ else _
  unfold m P1 P2 P3 P4 P5
  cases h1 : (decide (els.length = [El.op 0x76, .op 0xa9, D, .op 0x88, .op 0xac].length) && allMatch els [.op 0x76, .op 0xa9, D, .op 0x88, .op 0xac])
  <;> cases h2 : (decide (els.length = [D, El.op 0xac].length) && allMatch els [D, .op 0xac])
  <;> cases h3 : (decide (els.length = [El.op 0xa9, D, .op 0x87].length) && allMatch els [.op 0xa9, D, .op 0x87])
  <;> cases h4 : (decide (els.length = [El.op 0x6a, D].length) && allMatch els [.op 0x6a, D])
  <;> cases h5 : (decide (els.length = [El.op 0x52, D, D, D, .op 0x53, .op 0xae].length) && allMatch els [.op 0x52, D, D, D, .op 0x53, .op 0xae])
  <;> first | rfl | simp

theorem elMatches_op (e : El) (c : UInt8) : elMatches e (.op c) = true ↔ e = .op c := by
  cases e <;> simp [elMatches]
theorem elMatches_D (e : El) : elMatches e D = true ↔ ∃ d, e = .data d := by
  cases e <;> simp [elMatches, D]

/-- type ⇔ template: the comparison succeeds exactly on the template's token sequence, a data slot accepting any push -/
theorem m_P1 (els : List El) : m els P1 = true ↔ ∃ h, els = [.op 0x76, .op 0xa9, .data h, .op 0x88, .op 0xac] := by
  rcases els with _ | ⟨a, _ | ⟨b, _ | ⟨c, _ | ⟨d, _ | ⟨e, _ | ⟨f, rest⟩⟩⟩⟩⟩⟩ <;>
    simp [m, P1, allMatch, elMatches_op, elMatches_D]
theorem m_P2 (els : List El) : m els P2 = true ↔ ∃ k, els = [.data k, .op 0xac] := by
  rcases els with _ | ⟨a, _ | ⟨b, _ | ⟨c, rest⟩⟩⟩ <;> simp [m, P2, allMatch, elMatches_op, elMatches_D]
theorem m_P3 (els : List El) : m els P3 = true ↔ ∃ h, els = [.op 0xa9, .data h, .op 0x87] := by
  rcases els with _ | ⟨a, _ | ⟨b, _ | ⟨c, _ | ⟨d, rest⟩⟩⟩⟩ <;> simp [m, P3, allMatch, elMatches_op, elMatches_D]
theorem m_P4 (els : List El) : m els P4 = true ↔ ∃ d, els = [.op 0x6a, .data d] := by
  rcases els with _ | ⟨a, _ | ⟨b, _ | ⟨c, rest⟩⟩⟩ <;> simp [m, P4, allMatch, elMatches_op, elMatches_D]
theorem m_P5 (els : List El) : m els P5 = true ↔ ∃ a b c, els = [.op 0x52, .data a, .data b, .data c, .op 0x53, .op 0xae] := by
  rcases els with _ | ⟨a, _ | ⟨b, _ | ⟨c, _ | ⟨d, _ | ⟨e, _ | ⟨f, _ | ⟨g, rest⟩⟩⟩⟩⟩⟩⟩ <;>
    simp [m, P5, allMatch, elMatches_op, elMatches_D]

/-- the fork-coin evaluator, modelled with every panic site explicit, never panics and computes `S.evalCustom` -/
theorem eval_eq (ver : UInt8) (s : Bytes) (hlen : s.length < 2^63) : eval ver s = .ok (evalCustom ver s) := by
  unfold eval evalCustom
  rw [loop_eq s hlen (s.length + 1) 0 [] (by omega) (by omega)]
  simp only [List.drop_zero, expect, List.reverse_nil, List.nil_append]
  cases ht : tokens s with
  | none => rfl
  | some els =>
    simp only
    rw [scriptPattern_eq]
    by_cases h1 : m els P1 = true
    · obtain ⟨h, rfl⟩ := (m_P1 els).mp h1
      simp [h1, idx, elData]
    · have h1' : m els P1 = false := by simpa using h1
      by_cases h2 : m els P2 = true
      · obtain ⟨k, rfl⟩ := (m_P2 els).mp h2
        simp [h1', h2, idx, elData]
      · have h2' : m els P2 = false := by simpa using h2
        by_cases h3 : m els P3 = true
        · obtain ⟨h, rfl⟩ := (m_P3 els).mp h3
          simp [h1', h2', h3, idx, elData]
        · have h3' : m els P3 = false := by simpa using h3
          by_cases h4 : m els P4 = true
          · obtain ⟨d, rfl⟩ := (m_P4 els).mp h4
            simp [h1', h2', h3', h4, idx, elData]
          · have h4' : m els P4 = false := by simpa using h4
            by_cases h5 : m els P5 = true
            · obtain ⟨a, b, c, rfl⟩ := (m_P5 els).mp h5
              simp [h1', h2', h3', h4', h5, idx, elData]
            · have h5' : m els P5 = false := by simpa using h5
              simp only [h1', h2', h3', h4', h5', Bool.false_eq_true, if_false]
              split
              · exact absurd ((m_P1 _).mpr ⟨_, rfl⟩) h1
              · exact absurd ((m_P2 _).mpr ⟨_, rfl⟩) h2
              · exact absurd ((m_P3 _).mpr ⟨_, rfl⟩) h3
              · exact absurd ((m_P4 _).mpr ⟨_, rfl⟩) h4
              · exact absurd ((m_P5 _).mpr ⟨_, _, _, rfl⟩) h5
              · rfl
end SM
