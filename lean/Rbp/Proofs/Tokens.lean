import Rbp.Spec.PushRules
import Rbp.Proofs.ScriptMachine
/-! The model tokeniser of `custom.rs` is the push-rule grammar followed by an erasure (C06). -/
namespace SM
open S

/-- what `custom.rs` keeps of a full-fidelity token: no-op opcodes are dropped, an empty push counts as its opcode,
    a non-empty push is data whatever its push form -/
def eraseTok : T.Tok → List El
  | .push f bs => if bs.isEmpty then [El.op (match f with | .direct => 0 | _ => f.opcode)] else [El.data bs]
  | .op b => if classify b = .noop then [] else [El.op b]
def erase (ts : List T.Tok) : List El := ts.flatMap eraseTok

theorem T_le_eq_leN (bs : Bytes) : T.le bs = leN bs := rfl

theorem classify_small (b : UInt8) (h : b.toNat ≤ 0x4b) : classify b = .pushbytes b.toNat := by
  unfold classify
  simp only
  have : ¬ (b.toNat = 0x65 ∨ b.toNat = 0x66 ∨ b.toNat = 0xff) := by omega
  simp only [this, if_false]
  have : ¬ ((0x7e ≤ b.toNat ∧ b.toNat ≤ 0x81) ∨ (0x83 ≤ b.toNat ∧ b.toNat ≤ 0x86) ∨ b.toNat = 0x8d ∨ b.toNat = 0x8e ∨ (0x95 ≤ b.toNat ∧ b.toNat ≤ 0x99)) := by omega
  simp only [this, if_false]
  have : ¬ (b.toNat = 0x61 ∨ (0xb0 ≤ b.toNat ∧ b.toNat ≤ 0xb9)) := by omega
  simp only [this, if_false]
  have : ¬ (b.toNat = 0x6a ∨ b.toNat = 0x50 ∨ b.toNat = 0x89 ∨ b.toNat = 0x8a ∨ b.toNat = 0x62 ∨ b.toNat ≥ 0xba) := by omega
  simp only [this, if_false]
  have : ¬ (b.toNat = 0x4f ∨ (0x51 ≤ b.toNat ∧ b.toNat ≤ 0x60)) := by omega
  simp only [this, if_false, h, if_true]

theorem classify_big (b : UInt8) (h : 0x4c ≤ b.toNat) (n : Nat) : classify b ≠ .pushbytes n := by
  intro hc
  have := classify_pushbytes b n hc
  unfold classify at hc
  simp only at hc
  repeat' split at hc
  all_goals first | (injection hc with hc; omega) | cases hc

theorem erase_cons (t : T.Tok) (ts : List T.Tok) : erase (t :: ts) = eraseTok t ++ erase ts := by
  simp [erase]

theorem map_erase_push (f : T.Form) (bs : Bytes) (hne : bs ≠ []) (o : Option (List T.Tok)) :
    (o.map (T.Tok.push f bs :: ·)).map erase = (o.map erase).map (El.data bs :: ·) := by
  cases o with
  | none => rfl
  | some ts =>
    have : bs.isEmpty = false := by cases bs <;> simp_all
    simp [erase_cons, eraseTok, this]

theorem tokens_eq_spec : ∀ (n : Nat) (s : Bytes), s.length = n → tokens s = (T.tokenise s).map erase := by
  intro n
  induction n using Nat.strongRecOn with
  | _ n ih =>
    intro s hn
    cases s with
    | nil => simp [tokens, T.tokenise, erase]
    | cons b rest =>
      have ihd : ∀ k, tokens (rest.drop k) = (T.tokenise (rest.drop k)).map erase := by
        intro k; exact ih (rest.drop k).length (by simp at hn ⊢; omega) _ rfl
      have ihdd : ∀ k m, tokens ((rest.drop k).drop m) = (T.tokenise ((rest.drop k).drop m)).map erase := by
        intro k m; rw [List.drop_drop]; exact ihd _
      -- the PUSHDATAk arm, shared by the three opcodes
      have arm (f : T.Form) (k : Nat) (hcls : classify b ≠ .noop) (hop : (match f with | .direct => (0 : UInt8) | _ => f.opcode) = b) :
          (if h : k ≤ rest.length then
            (if h2 : T.le (rest.take k) ≤ (rest.drop k).length then
              (T.tokenise ((rest.drop k).drop (T.le (rest.take k)))).map (T.Tok.push f ((rest.drop k).take (T.le (rest.take k))) :: ·)
            else none)
          else none).map erase = (if k ≤ rest.length then finR b rest k (T.le (rest.take k)) else none) := by
        by_cases hk : k ≤ rest.length
        · simp only [hk, dite_true, if_true]
          unfold finR
          by_cases hpos : T.le (rest.take k) > 0
          · simp only [hpos, if_true]
            by_cases hfit : T.le (rest.take k) ≤ (rest.drop k).length
            · simp only [hfit, dite_true, if_true]
              have hne : (rest.drop k).take (T.le (rest.take k)) ≠ [] := by
                intro h
                have hl : ((rest.drop k).take (T.le (rest.take k))).length = T.le (rest.take k) := List.length_take_of_le hfit
                rw [h] at hl
                simp at hl
                omega
              rw [map_erase_push _ _ hne, ihdd]
            · simp only [hfit, dite_false, if_false]; rfl
          · have hz : T.le (rest.take k) = 0 := by omega
            simp only [hz, Nat.lt_irrefl, if_false, Nat.zero_le, dite_true, List.drop_zero, List.take_zero, hcls, gt_iff_lt]
            rw [ihd]
            cases T.tokenise (rest.drop k) with
            | none => rfl
            | some ts => simp [erase_cons, eraseTok]; exact hop
        · simp [hk]
      rw [tokens_cons', T.tokenise]
      simp only
      by_cases hd : 1 ≤ b.toNat ∧ b.toNat ≤ 75
      · rw [classify_small b (by omega)]
        simp only [hd, and_self, if_true]
        unfold finR
        have hpos : b.toNat > 0 := by omega
        simp only [hpos, if_true, List.drop_zero]
        by_cases hfit : b.toNat ≤ rest.length
        · simp only [hfit, dite_true, if_true]
          have hne : rest.take b.toNat ≠ [] := by
            intro h
            have hl : (rest.take b.toNat).length = b.toNat := List.length_take_of_le hfit
            rw [h] at hl
            simp at hl
            omega
          have h0 := ihdd 0 b.toNat
          simp only [List.drop_zero] at h0
          rw [map_erase_push _ _ hne, h0]
        · simp [hfit]
      · simp only [hd, if_false]
        by_cases h0 : b.toNat = 0
        · rw [classify_small b (by omega)]
          have e1 : ¬ b.toNat = 0x4c := by omega
          have e2 : ¬ b.toNat = 0x4d := by omega
          have e4 : ¬ b.toNat = 0x4e := by omega
          simp only [e1, e2, e4, if_false]
          unfold finR
          have hcls : classify b ≠ .noop := by rw [classify_small b (by omega)]; intro h; cases h
          simp only [h0, Nat.lt_irrefl, gt_iff_lt, if_false, hcls, List.drop_zero]
          have := ihd 0
          simp only [List.drop_zero] at this
          rw [this]
          cases T.tokenise rest with
          | none => rfl
          | some ts => simp [erase_cons, eraseTok, hcls]
        · have hbig : 0x4c ≤ b.toNat := by omega
          have hiff : ∀ c : UInt8, (b = c) ↔ b.toNat = c.toNat := fun c => ⟨fun h => by rw [h], fun h => UInt8.toNat_inj.mp h⟩
          generalize hR : Option.map erase _ = R
          suffices hs : (if b = 0x4c then (if 1 ≤ rest.length then finR b rest 1 (leN (rest.take 1)) else none)
                else if b = 0x4d then (if 2 ≤ rest.length then finR b rest 2 (leN (rest.take 2)) else none)
                else if b = 0x4e then (if 4 ≤ rest.length then finR b rest 4 (leN (rest.take 4)) else none)
                else finR b rest 0 0) = R by
            cases hc : classify b with
            | pushbytes n => exact absurd hc (classify_big b hbig n)
            | illegal | noop | ret | pushnum | ordinary => exact hs
          rw [← hR]
          by_cases h1 : b = 0x4c
          · have h1n : b.toNat = 0x4c := by rw [h1]; rfl
            simp only [if_pos h1, if_pos h1n]
            exact (arm .pd1 1 (by rw [h1]; decide) (by rw [h1]; rfl)).symm
          · have h1n : ¬ b.toNat = 0x4c := fun h => h1 ((hiff 0x4c).mpr h)
            simp only [if_neg h1, if_neg h1n]
            by_cases h2 : b = 0x4d
            · have h2n : b.toNat = 0x4d := by rw [h2]; rfl
              simp only [if_pos h2, if_pos h2n]
              exact (arm .pd2 2 (by rw [h2]; decide) (by rw [h2]; rfl)).symm
            · have h2n : ¬ b.toNat = 0x4d := fun h => h2 ((hiff 0x4d).mpr h)
              simp only [if_neg h2, if_neg h2n]
              by_cases h4 : b = 0x4e
              · have h4n : b.toNat = 0x4e := by rw [h4]; rfl
                simp only [if_pos h4, if_pos h4n]
                exact (arm .pd4 4 (by rw [h4]; decide) (by rw [h4]; rfl)).symm
              · have h4n : ¬ b.toNat = 0x4e := fun h => h4 ((hiff 0x4e).mpr h)
                simp only [if_neg h4, if_neg h4n]
                unfold finR
                simp only [Nat.lt_irrefl, gt_iff_lt, if_false, List.drop_zero]
                have := ihd 0
                simp only [List.drop_zero] at this
                rw [this]
                cases T.tokenise rest with
                | none => simp
                | some ts =>
                  by_cases hno : classify b = .noop <;> simp [erase_cons, eraseTok, hno]
end SM
