import Rbp.Model.Callbacks
/-! Closed forms of the simplestats accumulators over the delivered block list (C15). -/
namespace CB
open W Csv

theorem statsTx_fold (ver : UInt8) (height : Nat) : ∀ (txs : List RTx) (s : Stats),
    let s' := txs.foldl (statsTx ver height) s
    s'.fees = s.fees + (txs.map (txFee height)).sum ∧ s'.ins = s.ins + (txs.map (·.icnt.value)).sum ∧
    s'.outs = s.outs + (txs.map (·.ocnt.value)).sum ∧ s'.volume = s.volume + (txs.map txVolume).sum ∧
    s'.blocks = s.blocks ∧ s'.txs = s.txs ∧ s'.sizes = s.sizes ∧ s'.gaps = s.gaps ∧ s'.lastTs = s.lastTs := by
  intro txs
  induction txs with
  | nil => intro s; simp
  | cons t txs ih =>
    intro s
    simp only [List.foldl_cons, List.map_cons, List.sum_cons]
    obtain ⟨h1, h2, h3, h4, h5, h6, h7, h8, h9⟩ := ih (statsTx ver height s t)
    refine ⟨?_, ?_, ?_, ?_, ?_, ?_, ?_, ?_, ?_⟩
    · rw [h1]; simp [statsTx]; omega
    · rw [h2]; simp [statsTx]; omega
    · rw [h3]; simp [statsTx]; omega
    · rw [h4]; simp [statsTx]; omega
    · rw [h5]; simp [statsTx]
    · rw [h6]; simp [statsTx]
    · rw [h7]; simp [statsTx]
    · rw [h8]; simp [statsTx]
    · rw [h9]; simp [statsTx]

def blockFees (b : EBlock) : Nat := (b.blk.txs.map (txFee b.height)).sum
def blockIns (b : EBlock) : Nat := (b.blk.txs.map (·.icnt.value)).sum
def blockOuts (b : EBlock) : Nat := (b.blk.txs.map (·.ocnt.value)).sum
def blockVolume (b : EBlock) : Nat := (b.blk.txs.map txVolume).sum

theorem statsBlock_step (ver : UInt8) (s : Stats) (b : EBlock) :
    (statsBlock ver s b).blocks = s.blocks + 1 ∧ (statsBlock ver s b).txs = s.txs + b.blk.txCount.value ∧
    (statsBlock ver s b).fees = s.fees + blockFees b ∧ (statsBlock ver s b).ins = s.ins + blockIns b ∧
    (statsBlock ver s b).outs = s.outs + blockOuts b ∧ (statsBlock ver s b).volume = s.volume + blockVolume b ∧
    (statsBlock ver s b).sizes = s.sizes ++ [b.size] ∧ (statsBlock ver s b).lastTs = b.blk.header.time ∧
    (statsBlock ver s b).gaps = (if s.lastTs > 0 then s.gaps ++ [b.blk.header.time - s.lastTs] else s.gaps) := by
  unfold statsBlock
  obtain ⟨h1, h2, h3, h4, h5, h6, h7, h8, h9⟩ :=
    statsTx_fold ver b.height b.blk.txs { s with blocks := s.blocks + 1, txs := s.txs + b.blk.txCount.value, sizes := s.sizes ++ [b.size] }
  simp only at h1 h2 h3 h4 h5 h6 h7 h8 h9 ⊢
  refine ⟨h5, h6, h1, h2, h3, h4, h7, ?_⟩
  rw [h9, h8]
  exact ⟨trivial, rfl⟩

/-- every additive figure of the report is the plain sum of its per-block definition over the delivered blocks -/
theorem stats_fold (ver : UInt8) : ∀ (bs : List EBlock) (s : Stats),
    let r := bs.foldl (statsBlock ver) s
    r.blocks = s.blocks + bs.length ∧ r.txs = s.txs + (bs.map (·.blk.txCount.value)).sum ∧
    r.fees = s.fees + (bs.map blockFees).sum ∧ r.ins = s.ins + (bs.map blockIns).sum ∧
    r.outs = s.outs + (bs.map blockOuts).sum ∧ r.volume = s.volume + (bs.map blockVolume).sum ∧
    r.sizes = s.sizes ++ bs.map (·.size) := by
  intro bs
  induction bs with
  | nil => intro s; simp
  | cons b bs ih =>
    intro s
    simp only [List.foldl_cons, List.map_cons, List.sum_cons, List.length_cons]
    obtain ⟨h1, h2, h3, h4, h5, h6, h7⟩ := ih (statsBlock ver s b)
    obtain ⟨g1, g2, g3, g4, g5, g6, g7, _, _⟩ := statsBlock_step ver s b
    refine ⟨?_, ?_, ?_, ?_, ?_, ?_, ?_⟩
    · rw [h1, g1]; omega
    · rw [h2, g2]; omega
    · rw [h3, g3]; omega
    · rw [h4, g4]; omega
    · rw [h5, g5]; omega
    · rw [h6, g6]; omega
    · rw [h7, g7]; simp
end CB

namespace CB
open W Csv

/-! ### the per-type table: count and first occurrence -/

abbrev Row := String × Nat × Nat × Bytes
def lookupT (n : String) (ty : List Row) : Option Row := ty.find? (·.1 == n)

theorem find_map_bump (n : String) (ty : List Row) (m : String) :
    (ty.map (fun e => if e.1 == n then (e.1, e.2.1 + 1, e.2.2) else e)).find? (·.1 == m) =
      (ty.find? (·.1 == m)).map (fun e => if e.1 == n then (e.1, e.2.1 + 1, e.2.2) else e) := by
  induction ty with
  | nil => rfl
  | cons e ty ih =>
    simp only [List.map_cons, List.find?_cons]
    by_cases hen : (e.1 == n) = true
    · simp only [hen, if_true]
      by_cases hem : (e.1 == m) = true
      · simp only [hem, Option.map_some, hen, if_true]
      · simp only [hem]; exact ih
    · simp only [hen, Bool.false_eq_true, if_false]
      by_cases hem : (e.1 == m) = true
      · simp only [hem, Option.map_some, hen, Bool.false_eq_true, if_false]
      · simp only [hem]; exact ih

theorem any_iff_lookup (n : String) (ty : List Row) : ty.any (·.1 == n) = (lookupT n ty).isSome := by
  induction ty with
  | nil => rfl
  | cons e ty ih =>
    simp only [List.any_cons, lookupT, List.find?_cons]
    by_cases h : (e.1 == n) = true
    · simp [h]
    · simp only [h, Bool.false_or]; exact ih

/-- one more output of type `n`: its row's count goes up by one, or a new row (count 1, this height and txid) is appended -/
theorem bump_same (ty : List Row) (n : String) (h : Nat) (id : Bytes) :
    lookupT n (bump ty n h id) = match lookupT n ty with
      | some e => some (e.1, e.2.1 + 1, e.2.2)
      | none => some (n, 1, h, id) := by
  unfold bump
  rw [any_iff_lookup]
  cases hl : lookupT n ty with
  | none =>
    simp only [Option.isSome_none, Bool.false_eq_true, if_false]
    unfold lookupT at hl ⊢
    rw [List.find?_append, hl]
    simp
  | some e =>
    simp only [Option.isSome_some, if_true]
    unfold lookupT at hl ⊢
    rw [find_map_bump, hl]
    have : (e.1 == n) = true := List.find?_some (p := fun x : Row => x.1 == n) hl
    simp only [Option.map_some, this, if_true]

/-- rows of other types are untouched -/
theorem bump_other (ty : List Row) (n m : String) (h : Nat) (id : Bytes) (hne : m ≠ n) :
    lookupT m (bump ty n h id) = lookupT m ty := by
  unfold bump
  by_cases ha : ty.any (·.1 == n) = true
  · simp only [ha, if_true]
    unfold lookupT
    rw [find_map_bump]
    cases hf : ty.find? (·.1 == m) with
    | none => rfl
    | some e =>
      have hem : (e.1 == m) = true := List.find?_some (p := fun x : Row => x.1 == m) hf
      have : ¬ (e.1 == n) = true := by
        intro h2
        have e1 : e.1 = m := by simpa using hem
        have e2 : e.1 = n := by simpa using h2
        exact hne (e1.symm.trans e2)
      simp only [Option.map_some, this, Bool.false_eq_true, if_false]
  · simp only [ha, Bool.false_eq_true, if_false]
    unfold lookupT
    rw [List.find?_append]
    have : ¬ (n == m) = true := by simpa using fun e : n = m => hne e.symm
    cases ty.find? (·.1 == m) <;> simp [this]

/-- the outputs of the delivered blocks in chain order, each with its type name, height and txid -/
def typeEvents (ver : UInt8) (bs : List EBlock) : List (String × Nat × Bytes) :=
  bs.flatMap fun b => b.blk.txs.flatMap fun t => t.outs.map fun o => ((S.eval ver o.script).pattern.name, b.height, txid t)

def bumpAll (evs : List (String × Nat × Bytes)) (ty : List Row) : List Row :=
  evs.foldl (fun ty e => bump ty e.1 e.2.1 e.2.2) ty

/-- **per-type count and first occurrence.**  After any sequence of outputs, the row of type `n` holds the number of outputs
    of that type (added to what was there) and keeps the height/txid of the first one; a type that never occurred has no row -/
theorem bumpAll_lookup (n : String) : ∀ (evs : List (String × Nat × Bytes)) (ty : List Row),
    lookupT n (bumpAll evs ty) = match lookupT n ty with
      | some e => some (e.1, e.2.1 + (evs.filter (·.1 == n)).length, e.2.2)
      | none => ((evs.find? (·.1 == n)).map fun f => (n, (evs.filter (·.1 == n)).length, f.2.1, f.2.2)) := by
  intro evs
  induction evs with
  | nil => intro ty; cases h : lookupT n ty <;> simp [bumpAll, h]
  | cons e evs ih =>
    intro ty
    simp only [bumpAll, List.foldl_cons] at ih ⊢
    rw [ih]
    by_cases hen : (e.1 == n) = true
    · have e1 : e.1 = n := by simpa using hen
      rw [e1, bump_same]
      simp only [List.filter_cons, List.find?_cons, e1, beq_self_eq_true, if_true, List.length_cons, Option.map_some]
      cases lookupT n ty with
      | none => simp; omega
      | some r => simp; omega
    · have hne : n ≠ e.1 := fun h => hen (by simp [h])
      rw [bump_other ty e.1 n e.2.1 e.2.2 hne]
      simp only [List.filter_cons, List.find?_cons, hen, Bool.false_eq_true, if_false]

/-- the type table of the whole run is `bumpAll` over the outputs in chain order -/
theorem stats_types (ver : UInt8) (bs : List EBlock) (s : Stats) :
    (bs.foldl (statsBlock ver) s).types = bumpAll (typeEvents ver bs) s.types := by
  have tx : ∀ (height : Nat) (txs : List RTx) (s : Stats),
      (txs.foldl (statsTx ver height) s).types =
        bumpAll (txs.flatMap fun t => t.outs.map fun o => ((S.eval ver o.script).pattern.name, height, txid t)) s.types := by
    intro height txs
    induction txs with
    | nil => intro s; rfl
    | cons t txs ih =>
      intro s
      simp only [List.foldl_cons, List.flatMap_cons, bumpAll, List.foldl_append] at ih ⊢
      rw [ih]
      congr 1
      simp only [statsTx, List.foldl_map]
  induction bs generalizing s with
  | nil => rfl
  | cons b bs ih =>
    simp only [List.foldl_cons, typeEvents, List.flatMap_cons, bumpAll, List.foldl_append] at ih ⊢
    rw [ih]
    congr 1
    simp only [statsBlock]
    rw [tx]
    rfl
end CB
