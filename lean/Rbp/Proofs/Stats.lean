import Rbp.Model.Callbacks
/-! Closed forms of the simplestats accumulators over the delivered block list (C15). -/
namespace CB
open W Csv

theorem statsTx_fold (ver : UInt8) (height : Nat) : ∀ (txs : List RTx) (s : Stats),
    let s' := txs.foldl (statsTx ver height) s
    s'.fees = s.fees + (txs.map (txFee height)).sum ∧ s'.ins = s.ins + (txs.map (·.icnt.value)).sum ∧
    s'.outs = s.outs + (txs.map (·.ocnt.value)).sum ∧ s'.volume = s.volume + (txs.map txVolume).sum ∧
    s'.blocks = s.blocks ∧ s'.txs = s.txs ∧ s'.sizes = s.sizes ∧ s'.gaps = s.gaps ∧ s'.lastTs = s.lastTs := by
  intro txs
  induction txs with
  | nil => intro s; simp
  | cons t txs ih =>
    intro s
    simp only [List.foldl_cons, List.map_cons, List.sum_cons]
    obtain ⟨h1, h2, h3, h4, h5, h6, h7, h8, h9⟩ := ih (statsTx ver height s t)
    refine ⟨?_, ?_, ?_, ?_, ?_, ?_, ?_, ?_, ?_⟩
    · rw [h1]; simp [statsTx]; omega
    · rw [h2]; simp [statsTx]; omega
    · rw [h3]; simp [statsTx]; omega
    · rw [h4]; simp [statsTx]; omega
    · rw [h5]; simp [statsTx]
    · rw [h6]; simp [statsTx]
    · rw [h7]; simp [statsTx]
    · rw [h8]; simp [statsTx]
    · rw [h9]; simp [statsTx]

def blockFees (b : EBlock) : Nat := (b.blk.txs.map (txFee b.height)).sum
def blockIns (b : EBlock) : Nat := (b.blk.txs.map (·.icnt.value)).sum
def blockOuts (b : EBlock) : Nat := (b.blk.txs.map (·.ocnt.value)).sum
def blockVolume (b : EBlock) : Nat := (b.blk.txs.map txVolume).sum

theorem statsBlock_step (ver : UInt8) (s : Stats) (b : EBlock) :
    (statsBlock ver s b).blocks = s.blocks + 1 ∧ (statsBlock ver s b).txs = s.txs + b.blk.txCount.value ∧
    (statsBlock ver s b).fees = s.fees + blockFees b ∧ (statsBlock ver s b).ins = s.ins + blockIns b ∧
    (statsBlock ver s b).outs = s.outs + blockOuts b ∧ (statsBlock ver s b).volume = s.volume + blockVolume b ∧
    (statsBlock ver s b).sizes = s.sizes ++ [b.size] ∧ (statsBlock ver s b).lastTs = b.blk.header.time ∧
    (statsBlock ver s b).gaps = (if s.lastTs > 0 then s.gaps ++ [b.blk.header.time - s.lastTs] else s.gaps) := by
  unfold statsBlock
  obtain ⟨h1, h2, h3, h4, h5, h6, h7, h8, h9⟩ :=
    statsTx_fold ver b.height b.blk.txs { s with blocks := s.blocks + 1, txs := s.txs + b.blk.txCount.value, sizes := s.sizes ++ [b.size] }
  simp only at h1 h2 h3 h4 h5 h6 h7 h8 h9 ⊢
  refine ⟨h5, h6, h1, h2, h3, h4, h7, ?_⟩
  rw [h9, h8]
  exact ⟨trivial, rfl⟩

/-- every additive figure of the report is the plain sum of its per-block definition over the delivered blocks -/
theorem stats_fold (ver : UInt8) : ∀ (bs : List EBlock) (s : Stats),
    let r := bs.foldl (statsBlock ver) s
    r.blocks = s.blocks + bs.length ∧ r.txs = s.txs + (bs.map (·.blk.txCount.value)).sum ∧
    r.fees = s.fees + (bs.map blockFees).sum ∧ r.ins = s.ins + (bs.map blockIns).sum ∧
    r.outs = s.outs + (bs.map blockOuts).sum ∧ r.volume = s.volume + (bs.map blockVolume).sum ∧
    r.sizes = s.sizes ++ bs.map (·.size) := by
  intro bs
  induction bs with
  | nil => intro s; simp
  | cons b bs ih =>
    intro s
    simp only [List.foldl_cons, List.map_cons, List.sum_cons, List.length_cons]
    obtain ⟨h1, h2, h3, h4, h5, h6, h7⟩ := ih (statsBlock ver s b)
    obtain ⟨g1, g2, g3, g4, g5, g6, g7, _, _⟩ := statsBlock_step ver s b
    refine ⟨?_, ?_, ?_, ?_, ?_, ?_, ?_⟩
    · rw [h1, g1]; omega
    · rw [h2, g2]; omega
    · rw [h3, g3]; omega
    · rw [h4, g4]; omega
    · rw [h5, g5]; omega
    · rw [h6, g6]; omega
    · rw [h7, g7]; simp
end CB
