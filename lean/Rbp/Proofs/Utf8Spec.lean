import Rbp.Model.Lossy
/-!
# `L.valid` accepts exactly the UTF-8 encodings of sequences of Unicode scalar values (C16)
-/
namespace L

/-- Unicode scalar values: code points below 0x110000 that are not surrogates -/
def scalar (c : Nat) : Prop := c < 0xD800 ∨ (0xE000 ≤ c ∧ c < 0x110000)

def byte (n : Nat) : UInt8 := UInt8.ofNat n

/-- the UTF-8 encoding of a code point (RFC 3629 / Unicode D92) -/
def enc (c : Nat) : Bytes :=
  if c < 0x80 then [byte c]
  else if c < 0x800 then [byte (0xC0 + c / 64), byte (0x80 + c % 64)]
  else if c < 0x10000 then [byte (0xE0 + c / 4096), byte (0x80 + c / 64 % 64), byte (0x80 + c % 64)]
  else [byte (0xF0 + c / 262144), byte (0x80 + c / 4096 % 64), byte (0x80 + c / 64 % 64), byte (0x80 + c % 64)]

theorem byte_toNat (n : Nat) (h : n < 256) : (byte n).toNat = n := by
  simp [byte, UInt8.toNat_ofNat', Nat.mod_eq_of_lt h]

/-- `second` read on the numeric value of the lead byte -/
theorem second_nat (b0 : UInt8) : second b0 =
    (if 0xC2 ≤ b0.toNat ∧ b0.toNat ≤ 0xDF then some (2, 0x80, 0xBF)
     else if b0.toNat = 0xE0 then some (3, 0xA0, 0xBF)
     else if b0.toNat = 0xED then some (3, 0x80, 0x9F)
     else if 0xE1 ≤ b0.toNat ∧ b0.toNat ≤ 0xEF then some (3, 0x80, 0xBF)
     else if b0.toNat = 0xF0 then some (4, 0x90, 0xBF)
     else if b0.toNat = 0xF4 then some (4, 0x80, 0x8F)
     else if 0xF1 ≤ b0.toNat ∧ b0.toNat ≤ 0xF3 then some (4, 0x80, 0xBF)
     else none) := by
  simp only [second, UInt8.le_iff_toNat_le, Bool.and_eq_true, decide_eq_true_eq, beq_iff_eq, ← UInt8.toNat_inj]
  rfl

theorem range_nat (lo hi b1 : UInt8) : (lo ≤ b1 && b1 ≤ hi) = decide (lo.toNat ≤ b1.toNat ∧ b1.toNat ≤ hi.toNat) := by
  simp [UInt8.le_iff_toNat_le]

theorem isCont_nat (b : UInt8) : isCont b = decide (0x80 ≤ b.toNat ∧ b.toNat ≤ 0xBF) := by
  simp [isCont, UInt8.le_iff_toNat_le]

theorem lt80_nat (b : UInt8) : (b < 0x80) ↔ b.toNat < 0x80 := by
  simp [UInt8.lt_iff_toNat_lt]

def cont (n : Nat) : Prop := 0x80 ≤ n ∧ n ≤ 0xBF
def P2 (n0 : Nat) : Prop := 0xC2 ≤ n0 ∧ n0 ≤ 0xDF
def P3 (n0 n1 : Nat) : Prop :=
  (n0 = 0xE0 ∧ 0xA0 ≤ n1 ∧ n1 ≤ 0xBF) ∨ (n0 = 0xED ∧ 0x80 ≤ n1 ∧ n1 ≤ 0x9F) ∨
  (0xE1 ≤ n0 ∧ n0 ≤ 0xEF ∧ n0 ≠ 0xED ∧ 0x80 ≤ n1 ∧ n1 ≤ 0xBF)
def P4 (n0 n1 : Nat) : Prop :=
  (n0 = 0xF0 ∧ 0x90 ≤ n1 ∧ n1 ≤ 0xBF) ∨ (n0 = 0xF4 ∧ 0x80 ≤ n1 ∧ n1 ≤ 0x8F) ∨ (0xF1 ≤ n0 ∧ n0 ≤ 0xF3 ∧ 0x80 ≤ n1 ∧ n1 ≤ 0xBF)

/-- what must follow a lead byte of class `(len, lo, hi)` -/
def tail (len : Nat) (lo hi : UInt8) (rest : Bytes) : Bool :=
  match rest with
  | [] => false
  | b1 :: r1 =>
    if !(lo ≤ b1 && b1 ≤ hi) then false
    else if len == 2 then valid r1
    else match r1 with
      | [] => false
      | b2 :: r2 =>
        if !isCont b2 then false
        else if len == 3 then valid r2
        else match r2 with
          | [] => false
          | b3 :: r3 => if !isCont b3 then false else valid r3

theorem valid_lead (b0 : UInt8) (rest : Bytes) (h80 : ¬ b0.toNat < 0x80) :
    valid (b0 :: rest) = match second b0 with | none => false | some (len, lo, hi) => tail len lo hi rest := by
  rw [valid]
  simp only [lt80_nat, h80, if_false]
  cases second b0 with
  | none => rfl
  | some p => obtain ⟨len, lo, hi⟩ := p; rfl

theorem tail2 (lo hi : UInt8) (rest : Bytes) : tail 2 lo hi rest = true ↔
    ∃ b1 r, rest = b1 :: r ∧ (lo.toNat ≤ b1.toNat ∧ b1.toNat ≤ hi.toNat) ∧ valid r = true := by
  rcases rest with _ | ⟨b1, r1⟩
  · simp [tail]
  · simp only [tail, range_nat]
    by_cases h : lo.toNat ≤ b1.toNat ∧ b1.toNat ≤ hi.toNat
    · (simp [h]; try grind)
    · (simp [h]; try grind)

theorem tail3 (lo hi : UInt8) (rest : Bytes) : tail 3 lo hi rest = true ↔
    ∃ b1 b2 r, rest = b1 :: b2 :: r ∧ (lo.toNat ≤ b1.toNat ∧ b1.toNat ≤ hi.toNat) ∧ cont b2.toNat ∧ valid r = true := by
  rcases rest with _ | ⟨b1, _ | ⟨b2, r2⟩⟩
  · simp [tail]
  · simp only [tail, range_nat]
    by_cases h : lo.toNat ≤ b1.toNat ∧ b1.toNat ≤ hi.toNat <;> (simp [h]; try grind)
  · simp only [tail, range_nat, isCont_nat, cont]
    by_cases h : lo.toNat ≤ b1.toNat ∧ b1.toNat ≤ hi.toNat
    · by_cases h' : 0x80 ≤ b2.toNat ∧ b2.toNat ≤ 0xBF
      · (simp [h, h']; try grind)
      · (simp [h, h']; try grind)
    · (simp [h]; try grind)

theorem tail4 (lo hi : UInt8) (rest : Bytes) : tail 4 lo hi rest = true ↔
    ∃ b1 b2 b3 r, rest = b1 :: b2 :: b3 :: r ∧ (lo.toNat ≤ b1.toNat ∧ b1.toNat ≤ hi.toNat) ∧ cont b2.toNat ∧ cont b3.toNat ∧
      valid r = true := by
  rcases rest with _ | ⟨b1, _ | ⟨b2, _ | ⟨b3, r3⟩⟩⟩
  · simp [tail]
  · simp only [tail, range_nat]
    by_cases h : lo.toNat ≤ b1.toNat ∧ b1.toNat ≤ hi.toNat <;> (simp [h]; try grind)
  · simp only [tail, range_nat, isCont_nat, cont]
    by_cases h : lo.toNat ≤ b1.toNat ∧ b1.toNat ≤ hi.toNat
    · by_cases h' : 0x80 ≤ b2.toNat ∧ b2.toNat ≤ 0xBF <;> (simp [h, h']; try grind)
    · (simp [h]; try grind)
  · simp only [tail, range_nat, isCont_nat, cont]
    by_cases h : lo.toNat ≤ b1.toNat ∧ b1.toNat ≤ hi.toNat
    · by_cases h' : 0x80 ≤ b2.toNat ∧ b2.toNat ≤ 0xBF
      · by_cases h'' : 0x80 ≤ b3.toNat ∧ b3.toNat ≤ 0xBF <;> (simp [h, h', h'']; try grind)
      · (simp [h, h']; try grind)
    · (simp [h]; try grind)

/-- one step of the recogniser, as Unicode's Table 3-7 on byte values -/
theorem valid_cons_iff (b0 : UInt8) (rest : Bytes) : valid (b0 :: rest) = true ↔
    (b0.toNat < 0x80 ∧ valid rest = true) ∨
    (∃ b1 r, rest = b1 :: r ∧ P2 b0.toNat ∧ cont b1.toNat ∧ valid r = true) ∨
    (∃ b1 b2 r, rest = b1 :: b2 :: r ∧ P3 b0.toNat b1.toNat ∧ cont b2.toNat ∧ valid r = true) ∨
    (∃ b1 b2 b3 r, rest = b1 :: b2 :: b3 :: r ∧ P4 b0.toNat b1.toNat ∧ cont b2.toNat ∧ cont b3.toNat ∧ valid r = true) := by
  have e1 : ((0x80 : UInt8).toNat = 0x80) := rfl
  have e2 : ((0xBF : UInt8).toNat = 0xBF) := rfl
  have e3 : ((0xA0 : UInt8).toNat = 0xA0) := rfl
  have e4 : ((0x9F : UInt8).toNat = 0x9F) := rfl
  have e5 : ((0x90 : UInt8).toNat = 0x90) := rfl
  have e6 : ((0x8F : UInt8).toNat = 0x8F) := rfl
  by_cases h80 : b0.toNat < 0x80
  · have : valid (b0 :: rest) = valid rest := by rw [valid]; simp [lt80_nat, h80]
    rw [this]
    simp only [P2, P3, P4, cont]
    constructor
    · intro h; exact Or.inl ⟨h80, h⟩
    · intro h
      rcases h with h | ⟨_, _, _, h, _⟩ | ⟨_, _, _, _, h, _⟩ | ⟨_, _, _, _, _, h, _⟩
      · exact h.2
      · omega
      · rcases h with h | h | h <;> omega
      · rcases h with h | h | h <;> omega
  · rw [valid_lead b0 rest h80, second_nat]
    simp only [P2, P3, P4, cont]
    generalize b0.toNat = n0 at *
    by_cases c1 : 0xC2 ≤ n0 ∧ n0 ≤ 0xDF
    · simp only [c1, and_self, if_true, tail2, e1, e2]
      grind
    · simp only [c1, if_false]
      by_cases c2 : n0 = 0xE0
      · simp only [c2, if_true, tail3, e3, e2, cont]
        grind
      · simp only [c2, if_false]
        by_cases c3 : n0 = 0xED
        · simp only [c3, if_true, tail3, e1, e4, cont]
          grind
        · simp only [c3, if_false]
          by_cases c4 : 0xE1 ≤ n0 ∧ n0 ≤ 0xEF
          · simp only [c4, and_self, if_true, tail3, e1, e2, cont]
            grind
          · simp only [c4, if_false]
            by_cases c5 : n0 = 0xF0
            · simp only [c5, if_true, tail4, e5, e2, cont]
              grind
            · simp only [c5, if_false]
              by_cases c6 : n0 = 0xF4
              · simp only [c6, if_true, tail4, e1, e6, cont]
                grind
              · simp only [c6, if_false]
                by_cases c7 : 0xF1 ≤ n0 ∧ n0 ≤ 0xF3
                · simp only [c7, and_self, if_true, tail4, e1, e2, cont]
                  grind
                · simp only [c7, if_false]
                  grind

theorem byte_self (b : UInt8) : byte b.toNat = b := by simp [byte]

/-- the encoding of a scalar value is accepted and consumed exactly -/
theorem valid_enc_append (c : Nat) (hc : scalar c) (r : Bytes) : valid (enc c ++ r) = true ↔ valid r = true := by
  unfold scalar at hc
  unfold enc
  by_cases h1 : c < 0x80
  · simp only [h1, if_true, List.cons_append, List.nil_append]
    rw [valid_cons_iff]
    have := byte_toNat c (by omega)
    simp only [P2, P3, P4, cont, this]
    grind
  · simp only [h1, if_false]
    by_cases h2 : c < 0x800
    · simp only [h2, if_true, List.cons_append, List.nil_append]
      rw [valid_cons_iff]
      have t0 := byte_toNat (0xC0 + c / 64) (by omega)
      have t1 := byte_toNat (0x80 + c % 64) (by omega)
      simp only [P2, P3, P4, cont, t0]
      constructor
      · intro h
        rcases h with h | ⟨b1, r', he, _, _, hv⟩ | ⟨_, _, _, _, hp, _⟩ | ⟨_, _, _, _, _, hp, _⟩
        · omega
        · injection he with _ he2; subst he2; exact hv
        · rcases hp with hp | hp | hp <;> omega
        · rcases hp with hp | hp | hp <;> omega
      · intro hv
        exact Or.inr (Or.inl ⟨_, _, rfl, by omega, by rw [t1]; omega, hv⟩)
    · simp only [h2, if_false]
      by_cases h3 : c < 0x10000
      · simp only [h3, if_true, List.cons_append, List.nil_append]
        rw [valid_cons_iff]
        have t0 := byte_toNat (0xE0 + c / 4096) (by omega)
        have t1 := byte_toNat (0x80 + c / 64 % 64) (by omega)
        have t2 := byte_toNat (0x80 + c % 64) (by omega)
        simp only [P2, P3, P4, cont, t0]
        constructor
        · intro h
          rcases h with h | ⟨_, _, _, h, _⟩ | ⟨b1, b2, r', he, _, _, hv⟩ | ⟨_, _, _, _, _, hp, _⟩
          · omega
          · omega
          · injection he with _ he2; injection he2 with _ he3; subst he3; exact hv
          · rcases hp with hp | hp | hp <;> omega
        · intro hv
          refine Or.inr (Or.inr (Or.inl ⟨_, _, _, rfl, ?_, by rw [t2]; omega, hv⟩))
          rw [t1]; omega
      · simp only [h3, if_false, List.cons_append, List.nil_append]
        rw [valid_cons_iff]
        have t0 := byte_toNat (0xF0 + c / 262144) (by omega)
        have t1 := byte_toNat (0x80 + c / 4096 % 64) (by omega)
        have t2 := byte_toNat (0x80 + c / 64 % 64) (by omega)
        have t3 := byte_toNat (0x80 + c % 64) (by omega)
        simp only [P2, P3, P4, cont, t0]
        constructor
        · intro h
          rcases h with h | ⟨_, _, _, h, _⟩ | ⟨_, _, _, _, hp, _⟩ | ⟨b1, b2, b3, r', he, _, _, _, hv⟩
          · omega
          · omega
          · rcases hp with hp | hp | hp <;> omega
          · injection he with _ he2; injection he2 with _ he3; injection he3 with _ he4; subst he4; exact hv
        · intro hv
          refine Or.inr (Or.inr (Or.inr ⟨_, _, _, _, rfl, ?_, by rw [t2]; omega, by rw [t3]; omega, hv⟩))
          rw [t1]; omega

/-- **`valid` = "is the UTF-8 encoding of a sequence of Unicode scalar values".** -/
theorem valid_iff_encoding (p : Bytes) : valid p = true ↔ ∃ cs : List Nat, (∀ c ∈ cs, scalar c) ∧ p = cs.flatMap enc := by
  constructor
  · -- decode, by strong induction on the length
    intro h
    induction hn : p.length using Nat.strongRecOn generalizing p with
    | _ n ih =>
      cases p with
      | nil => exact ⟨[], by simp, rfl⟩
      | cons b0 rest =>
        rw [valid_cons_iff] at h
        rcases h with ⟨h0, hv⟩ | ⟨b1, r, he, h0, h1, hv⟩ | ⟨b1, b2, r, he, h0, h2, hv⟩ | ⟨b1, b2, b3, r, he, h0, h2, h3, hv⟩
        · obtain ⟨cs, hs, hp⟩ := ih rest.length (by rw [← hn]; simp) rest hv rfl
          refine ⟨b0.toNat :: cs, ?_, ?_⟩
          · intro c hc
            rcases List.mem_cons.mp hc with e | e
            · subst e; left; omega
            · exact hs c e
          · rw [List.flatMap_cons, ← hp]
            simp [enc, h0, byte_self]
        · subst he
          obtain ⟨cs, hs, hp⟩ := ih r.length (by rw [← hn]; simp; omega) r hv rfl
          simp only [P2, cont] at h0 h1
          refine ⟨((b0.toNat - 0xC0) * 64 + (b1.toNat - 0x80)) :: cs, ?_, ?_⟩
          · intro c hc
            rcases List.mem_cons.mp hc with e | e
            · rw [e]; unfold scalar; omega
            · exact hs c e
          · rw [List.flatMap_cons, ← hp]
            have k1 : ¬ ((b0.toNat - 0xC0) * 64 + (b1.toNat - 0x80) < 0x80) := by omega
            have k2 : (b0.toNat - 0xC0) * 64 + (b1.toNat - 0x80) < 0x800 := by omega
            have d1 : 0xC0 + ((b0.toNat - 0xC0) * 64 + (b1.toNat - 0x80)) / 64 = b0.toNat := by omega
            have d2 : 0x80 + ((b0.toNat - 0xC0) * 64 + (b1.toNat - 0x80)) % 64 = b1.toNat := by omega
            simp only [enc, k1, k2, if_false, if_true, d1, d2, byte_self, List.cons_append, List.nil_append]
        · subst he
          obtain ⟨cs, hs, hp⟩ := ih r.length (by rw [← hn]; simp; omega) r hv rfl
          simp only [P3, cont] at h0 h2
          refine ⟨((b0.toNat - 0xE0) * 4096 + (b1.toNat - 0x80) * 64 + (b2.toNat - 0x80)) :: cs, ?_, ?_⟩
          · intro c hc
            rcases List.mem_cons.mp hc with e | e
            · rw [e]; unfold scalar; omega
            · exact hs c e
          · rw [List.flatMap_cons, ← hp]
            have k1 : ¬ ((b0.toNat - 0xE0) * 4096 + (b1.toNat - 0x80) * 64 + (b2.toNat - 0x80) < 0x80) := by omega
            have k2 : ¬ ((b0.toNat - 0xE0) * 4096 + (b1.toNat - 0x80) * 64 + (b2.toNat - 0x80) < 0x800) := by omega
            have k3 : (b0.toNat - 0xE0) * 4096 + (b1.toNat - 0x80) * 64 + (b2.toNat - 0x80) < 0x10000 := by omega
            have d1 : 0xE0 + ((b0.toNat - 0xE0) * 4096 + (b1.toNat - 0x80) * 64 + (b2.toNat - 0x80)) / 4096 = b0.toNat := by omega
            have d2 : 0x80 + ((b0.toNat - 0xE0) * 4096 + (b1.toNat - 0x80) * 64 + (b2.toNat - 0x80)) / 64 % 64 = b1.toNat := by omega
            have d3 : 0x80 + ((b0.toNat - 0xE0) * 4096 + (b1.toNat - 0x80) * 64 + (b2.toNat - 0x80)) % 64 = b2.toNat := by omega
            simp only [enc, k1, k2, k3, if_false, if_true, d1, d2, d3, byte_self, List.cons_append, List.nil_append]
        · subst he
          obtain ⟨cs, hs, hp⟩ := ih r.length (by rw [← hn]; simp; omega) r hv rfl
          simp only [P4, cont] at h0 h2 h3
          refine ⟨((b0.toNat - 0xF0) * 262144 + (b1.toNat - 0x80) * 4096 + (b2.toNat - 0x80) * 64 + (b3.toNat - 0x80)) :: cs, ?_, ?_⟩
          · intro c hc
            rcases List.mem_cons.mp hc with e | e
            · rw [e]; unfold scalar; omega
            · exact hs c e
          · rw [List.flatMap_cons, ← hp]
            generalize hc : (b0.toNat - 0xF0) * 262144 + (b1.toNat - 0x80) * 4096 + (b2.toNat - 0x80) * 64 + (b3.toNat - 0x80) = c
            have k1 : ¬ (c < 0x80) := by omega
            have k2 : ¬ (c < 0x800) := by omega
            have k3 : ¬ (c < 0x10000) := by omega
            have d1 : 0xF0 + c / 262144 = b0.toNat := by omega
            have d2 : 0x80 + c / 4096 % 64 = b1.toNat := by omega
            have d3 : 0x80 + c / 64 % 64 = b2.toNat := by omega
            have d4 : 0x80 + c % 64 = b3.toNat := by omega
            simp only [enc, k1, k2, k3, if_false, d1, d2, d3, d4, byte_self, List.cons_append, List.nil_append]
  · rintro ⟨cs, hs, rfl⟩
    induction cs with
    | nil => simp [valid]
    | cons c cs ih =>
      rw [List.flatMap_cons, valid_enc_append c (hs c (by simp))]
      exact ih (fun c' hc' => hs c' (by simp [hc']))

theorem valid_append (a b : Bytes) (ha : valid a = true) : valid (a ++ b) = true ↔ valid b = true := by
  obtain ⟨cs, hs, rfl⟩ := (valid_iff_encoding a).mp ha
  clear ha
  induction cs with
  | nil => simp
  | cons c cs ih =>
    rw [List.flatMap_cons, List.append_assoc, valid_enc_append c (hs c (by simp))]
    exact ih (fun c' hc' => hs c' (by simp [hc']))

theorem valid_fffd : valid fffd = true := by simp +decide [valid, fffd, second, isCont]

/-- **whatever the payload, what a fork coin prints is well-formed UTF-8** (ill-formed parts have become U+FFFD) -/
theorem lossy_valid : ∀ (n : Nat) (p : Bytes), p.length = n → valid (lossy p) = true := by
  intro n
  induction n using Nat.strongRecOn with
  | _ n ih =>
    intro p hn
    have fx : ∀ q : Bytes, q.length < n → valid (fffd ++ lossy q) = true := fun q hq =>
      (valid_append _ _ valid_fffd).mpr (ih q.length hq q rfl)
    cases p with
    | nil => simp [lossy, valid]
    | cons b0 rest =>
      simp only [List.length_cons] at hn
      rw [lossy]
      by_cases h80 : b0 < 0x80
      · simp only [h80, if_true]
        rw [valid]; simp only [h80, if_true]
        exact ih rest.length (by omega) rest rfl
      · simp only [h80, if_false]
        have h80' : ¬ b0.toNat < 0x80 := by rwa [← lt80_nat]
        cases hs : second b0 with
        | none => exact fx rest (by omega)
        | some t =>
          obtain ⟨len, lo, hi⟩ := t
          simp only
          cases rest with
          | nil => exact valid_fffd
          | cons b1 r1 =>
            simp only [List.length_cons] at hn
            by_cases hr : (lo ≤ b1 && b1 ≤ hi) = true
            · simp only [hr, Bool.not_true, Bool.false_eq_true, if_false]
              by_cases h2 : (len == 2) = true
              · simp only [h2, if_true]
                rw [valid_lead _ _ h80', hs]
                simp only [tail, hr, Bool.not_true, Bool.false_eq_true, if_false, h2, if_true]
                exact ih r1.length (by omega) r1 rfl
              · simp only [h2, if_false]
                cases r1 with
                | nil => exact valid_fffd
                | cons b2 r2 =>
                  simp only [List.length_cons] at hn
                  by_cases hc2 : isCont b2 = true
                  · simp only [hc2, Bool.not_true, Bool.false_eq_true, if_false]
                    by_cases h3 : (len == 3) = true
                    · simp only [h3, if_true]
                      rw [valid_lead _ _ h80', hs]
                      simp only [tail, hr, hc2, Bool.not_true, Bool.false_eq_true, if_false, h2, h3, if_true]
                      exact ih r2.length (by omega) r2 rfl
                    · simp only [h3, if_false]
                      cases r2 with
                      | nil => exact valid_fffd
                      | cons b3 r3 =>
                        simp only [List.length_cons] at hn
                        by_cases hc3 : isCont b3 = true
                        · simp only [hc3, Bool.not_true, Bool.false_eq_true, if_false]
                          rw [valid_lead _ _ h80', hs]
                          simp only [tail, hr, hc2, hc3, Bool.not_true, Bool.false_eq_true, if_false, h2, h3]
                          exact ih r3.length (by omega) r3 rfl
                        · simp only [hc3, Bool.not_false, if_true]
                          exact fx (b3 :: r3) (by simp; omega)
                  · simp only [hc2, Bool.not_false, if_true]
                    exact fx (b2 :: r2) (by simp; omega)
            · simp only [hr, Bool.not_false, if_true]
              exact fx (b1 :: r1) (by simp; omega)
end L
