import Rbp.Model.Run
namespace Run
open Wk

theorem lexLt_irrefl : ∀ (a : W.Bytes), lexLt a a = false
  | [] => rfl
  | x :: xs => by simp [lexLt, lexLt_irrefl xs]

theorem find_congr {α} (p q : α → Bool) : ∀ (l : List α), (∀ a ∈ l, p a = q a) → l.find? p = l.find? q
  | [], _ => rfl
  | a :: l, h => by
    have ha := h a (by simp)
    have := find_congr p q l (fun x hx => h x (by simp [hx]))
    simp [List.find?_cons, ha, this]

theorem lookup_filter_ne (m : List (Nat × Rec)) (k h : Nat) (hne : h ≠ k) :
    lookup (m.filter (·.1 ≠ k)) h = lookup m h := by
  unfold lookup
  rw [List.find?_filter]
  congr 1
  apply find_congr
  intro a _
  by_cases ha : a.1 = h
  · have : a.1 ≠ k := by omega
    simp [ha, hne]
  · simp [ha]

theorem lookup_insertHeight (m : List (Nat × Rec)) (r : Rec) (h : Nat) :
    lookup (insertHeight m r) h = if r.height = h then some r else lookup m h := by
  by_cases hr : r.height = h
  · simp [insertHeight, lookup, List.find?_cons, hr]
  · have hb : (r.height == h) = false := by simpa using hr
    have := lookup_filter_ne m r.height h (fun e => hr e.symm)
    rw [if_neg hr, ← this]
    simp [insertHeight, lookup, List.find?_cons, hb]

/-- inserting, top down, a chain whose k-th record has height k gives the map h ↦ A h on 0..T -/
theorem lookup_chain (A : Nat → Rec) : ∀ (T : Nat), (∀ k, k ≤ T → (A k).height = k) → ∀ (m : List (Nat × Rec)) (h : Nat),
    lookup (((List.range (T + 1)).reverse.map A).foldl insertHeight m) h = if h ≤ T then some (A h) else lookup m h := by
  intro T
  induction T with
  | zero =>
    intro hh m h
    simp [lookup_insertHeight, hh 0 (Nat.le_refl 0)]
    by_cases h0 : h = 0 <;> simp [h0]
    · intro hc; omega
  | succ T ih =>
    intro hh m h
    rw [List.range_succ, List.reverse_append, List.map_append, List.foldl_append]
    simp only [List.reverse_cons, List.reverse_nil, List.nil_append, List.map_cons, List.map_nil, List.foldl_cons, List.foldl_nil]
    rw [ih (fun k hk => hh k (by omega)), lookup_insertHeight, hh (T + 1) (Nat.le_refl _)]
    by_cases h1 : h ≤ T
    · have : h ≤ T + 1 := by omega
      simp [h1, this]
    · by_cases h2 : h = T + 1
      · simp [h2]
      · have : ¬ h ≤ T + 1 := by omega
        have h3 : ¬ T + 1 = h := fun e => h2 e.symm
        simp [h1, this, h3]

/-- the tip choice: if `t` is fully validated and every other fully validated record of the table is lower, the fold picks `t` -/
theorem pickTip_of_highest (t : Rec) : ∀ (l : List Rec) (best : Option Rec),
    (best = some t ∨ (t ∈ l ∧ ∀ b, best = some b → b.height < t.height)) →
    validScripts t = true →
    (∀ r ∈ l, validScripts r = true → r = t ∨ r.height < t.height) →
    (l.filter validScripts).foldl (fun best r => match best with
      | none => some r
      | some b => if tipLt b r then some r else some b) best = some t := by
  intro l
  induction l with
  | nil =>
    intro best hb _ _
    rcases hb with hb | ⟨hm, _⟩
    · simpa using hb
    · cases hm
  | cons r l ih =>
    intro best hb hv hall
    by_cases hr : validScripts r = true
    · simp only [List.filter_cons, hr, if_true, List.foldl_cons]
      apply ih _ _ hv (fun x hx => hall x (by simp [hx]))
      rcases hall r (by simp) hr with rfl | hlt
      · -- r is the tip itself
        left
        rcases hb with hb | ⟨_, hlow⟩
        · subst hb
          have : tipLt r r = false := by simp [tipLt, lexLt_irrefl]
          simp [this]
        · cases best with
          | none => rfl
          | some b =>
            have := hlow b rfl
            have : tipLt b r = true := by simp [tipLt, this]
            simp [this]
      · rcases hb with hb | ⟨hm, hlow⟩
        · subst hb
          have : tipLt t r = false := by
            simp only [tipLt, Bool.or_eq_false_iff, decide_eq_false_iff_not, Bool.and_eq_false_imp, beq_iff_eq]
            exact ⟨by omega, fun h => by omega⟩
          left; simp [this]
        · right
          refine ⟨?_, ?_⟩
          · rcases List.mem_cons.mp hm with h | h
            · subst h; omega
            · exact h
          · intro b hbb
            cases best with
            | none => simp at hbb; subst hbb; exact hlt
            | some b0 =>
              simp only at hbb
              split at hbb
              · injection hbb with hbb; subst hbb; exact hlt
              · injection hbb with hbb; subst hbb; exact hlow b0 rfl
    · have hr' : validScripts r = false := by simpa using hr
      simp only [List.filter_cons, hr', Bool.false_eq_true, if_false]
      apply ih _ _ hv (fun x hx => hall x (by simp [hx]))
      rcases hb with hb | ⟨hm, hlow⟩
      · exact Or.inl hb
      · right
        refine ⟨?_, hlow⟩
        rcases List.mem_cons.mp hm with h | h
        · subst h; rw [hv] at hr'; cases hr'
        · exact h

theorem collect_go_nodup : ∀ (l : List (W.Bytes × W.Bytes)) (acc recs : List Rec),
    (acc.map (·.hash)).Nodup → collect.go l acc = .ok recs → (recs.map (·.hash)).Nodup := by
  intro l
  induction l with
  | nil => intro acc recs h hc; simp [collect.go] at hc; subst hc; exact h
  | cons kv l ih =>
    intro acc recs h hc
    obtain ⟨k, v⟩ := kv
    cases k with
    | nil => simp [collect.go] at hc
    | cons b k' =>
      simp only [collect.go] at hc
      by_cases hb : b = 0x62
      · simp only [hb, if_true] at hc
        cases hd : decodeRec (0x62 :: k') v with
        | err m => simp [hd] at hc
        | panic m => simp [hd] at hc
        | ok r =>
          simp only [hd] at hc
          by_cases hp : passes r = true
          · simp only [hp, if_true] at hc
            refine ih _ _ ?_ hc
            simp only [List.map_cons, List.nodup_cons]
            refine ⟨?_, (h.sublist (List.Sublist.map _ List.filter_sublist))⟩
            intro hm
            obtain ⟨x, hx, hxe⟩ := List.mem_map.mp hm
            have := (List.mem_filter.mp hx).2
            simp [hxe] at this
          · simp only [hp, Bool.false_eq_true, if_false] at hc
            exact ih _ _ h hc
      · simp only [hb, if_false] at hc
        exact ih _ _ h hc

/-- hashes of the collected table are pairwise distinct (they are LevelDB keys; a repeated key replaces) -/
theorem collect_nodup (kvs : List (W.Bytes × W.Bytes)) (recs : List Rec) (hc : collect kvs = .ok recs) :
    (recs.map (·.hash)).Nodup :=
  collect_go_nodup _ [] recs (by simp) hc

/-- C04: whatever else the table holds, if it contains the active chain `A 0 … A T` (linked by prev-hash, record `k` at
    height `k`, the root's parent not in the table), the tip `A T` is fully validated and every other fully validated record
    is lower, then the index that is built maps exactly the heights `0..T` to the active chain -/
theorem buildIndex_active (kvs : List (W.Bytes × W.Bytes)) (recs : List Rec) (A : Nat → Rec) (T : Nat)
    (hc : collect kvs = .ok recs) (hchain : Wk.Chain A T recs) (hh : ∀ k, k ≤ T → (A k).height = k)
    (hv : validScripts (A T) = true) (hcomp : ∀ r ∈ recs, validScripts r = true → r = A T ∨ r.height < T) :
    ∃ idx, buildIndex kvs = .ok idx ∧ ∀ h, lookup idx h = if h ≤ T then some (A h) else none := by
  have hnd := collect_nodup kvs recs hc
  have htip : pickTip recs = some (A T) := by
    unfold pickTip
    apply pickTip_of_highest (A T) recs none
    · right; exact ⟨hchain.mem T (Nat.le_refl _), by intro b hb; cases hb⟩
    · exact hv
    · intro r hr hvr
      rcases hcomp r hr hvr with h | h
      · exact Or.inl h
      · right; rw [hh T (Nat.le_refl _)]; exact h
  have hlen : T < recs.length := by
    -- the T + 1 pairwise distinct hashes of the chain all occur among the hashes of the table
    have hinj : ((List.range (T + 1)).map (fun k => (A k).hash)).Nodup := by
      rw [List.nodup_iff_pairwise_ne, List.pairwise_map]
      apply List.Pairwise.imp_of_mem (R := fun a b => a ≠ b)
      · intro i j hi hj hij hh'
        exact hij (hchain.inj i j (Nat.lt_succ_iff.mp (List.mem_range.mp hi)) (Nat.lt_succ_iff.mp (List.mem_range.mp hj)) hh')
      · exact List.nodup_iff_pairwise_ne.mp List.nodup_range
    have hsubset : (List.range (T + 1)).map (fun k => (A k).hash) ⊆ recs.map (·.hash) := by
      intro x hx
      obtain ⟨k, hk, rfl⟩ := List.mem_map.mp hx
      exact List.mem_map_of_mem (hchain.mem k (Nat.lt_succ_iff.mp (List.mem_range.mp hk)))
    have := List.Nodup.length_le_of_subset hinj hsubset
    simp at this
    omega
  refine ⟨(Wk.walk recs.length recs (A T).hash).foldl insertHeight [], ?_, ?_⟩
  · unfold buildIndex
    rw [hc]
    simp only [htip]
  · intro h
    rw [Wk.walk_chain A T recs recs.length hnd hchain hlen]
    rw [lookup_chain A T hh]
    by_cases hT : h ≤ T <;> simp [hT, lookup]
end Run
