import Rbp.Proofs.Index
import Rbp.Proofs.Record
import Rbp.Proofs.Driver
/-!
# From the key/value pairs of the block index to the table of records (C04 ∘ C03)

`collect` sorts the pairs by key (LevelDB order), decodes every `b` record and keeps those that pass the status filter.
For an index whose `b` records are all decodable and whose keys are pairwise distinct, the resulting table contains exactly
the decoded passing records — in whatever order the keys happen to sort.
-/
namespace Run
open Wk

theorem insertSorted_perm (kv : W.Bytes × W.Bytes) : ∀ l, (insertSorted kv l).Perm (kv :: l)
  | [] => List.Perm.refl _
  | x :: xs => by
    unfold insertSorted
    split
    · exact List.Perm.refl _
    · exact ((insertSorted_perm kv xs).cons x).trans (List.Perm.swap kv x xs)

theorem sortKvs_perm : ∀ l : List (W.Bytes × W.Bytes), (sortKvs l).Perm l
  | [] => List.Perm.refl _
  | x :: xs => by
    show (insertSorted x (sortKvs xs)).Perm (x :: xs)
    exact (insertSorted_perm x _).trans ((sortKvs_perm xs).cons x)

/-- a `b` key/value pair that decodes to a record passing the status filter -/
def Yields (kv : W.Bytes × W.Bytes) (x : Rec) : Prop :=
  kv.1.head? = some 0x62 ∧ decodeRec kv.1 kv.2 = .ok x ∧ passes x = true

theorem collect_go_mem : ∀ (l : List (W.Bytes × W.Bytes)) (acc : List Rec),
    (∀ kv ∈ l, kv.1 ≠ [] ∧ (kv.1.head? = some 0x62 → ∃ x, decodeRec kv.1 kv.2 = .ok x ∧ x.hash = kv.1.drop 1)) →
    (l.map (·.1)).Nodup →
    (∀ a ∈ acc, ∀ kv ∈ l, kv.1 ≠ 0x62 :: a.hash) →
    ∃ recs, collect.go l acc = .ok recs ∧ ∀ x, x ∈ recs ↔ (x ∈ acc ∨ ∃ kv ∈ l, Yields kv x) := by
  intro l
  induction l with
  | nil => intro acc _ _ _; exact ⟨acc, by simp [collect.go], by simp⟩
  | cons kv l ih =>
    intro acc hwf hnd hacc
    obtain ⟨k, v⟩ := kv
    have hkv := hwf (k, v) (by simp)
    have hwf' : ∀ kv ∈ l, kv.1 ≠ [] ∧ (kv.1.head? = some 0x62 → ∃ x, decodeRec kv.1 kv.2 = .ok x ∧ x.hash = kv.1.drop 1) :=
      fun kv h => hwf kv (by simp [h])
    simp only [List.map_cons, List.nodup_cons] at hnd
    cases k with
    | nil => exact absurd rfl hkv.1
    | cons b k' =>
      by_cases hb : b = 0x62
      · subst hb
        obtain ⟨x0, hx0, hh⟩ := hkv.2 (by simp)
        simp only [List.drop_one, List.tail_cons] at hh
        by_cases hp : passes x0 = true
        · -- the record enters the table
          have hfil : acc.filter (fun y => y.hash != x0.hash) = acc := by
            apply List.filter_eq_self.mpr
            intro a ha
            have := hacc a ha (0x62 :: k', v) (by simp)
            simp only [ne_eq, List.cons.injEq, true_and] at this
            rw [hh]
            simpa using fun e : a.hash = k' => this e.symm
          have hacc' : ∀ a ∈ x0 :: acc, ∀ kv ∈ l, kv.1 ≠ 0x62 :: a.hash := by
            intro a ha kv hkvl
            rcases List.mem_cons.mp ha with e | e
            · subst e
              rw [hh]
              intro he
              exact hnd.1 (by rw [← he]; exact List.mem_map_of_mem hkvl)
            · exact hacc a e kv (by simp [hkvl])
          obtain ⟨recs, hgo, hmem⟩ := ih (x0 :: acc) hwf' hnd.2 hacc'
          refine ⟨recs, ?_, ?_⟩
          · simp only [collect.go, if_true, hx0, hp, hfil]; exact hgo
          · intro x
            rw [hmem]
            constructor
            · rintro (h | ⟨kv, hk, hy⟩)
              · rcases List.mem_cons.mp h with e | e
                · exact Or.inr ⟨(0x62 :: k', v), by simp, ⟨by simp, by rw [e]; exact hx0, by rw [e]; exact hp⟩⟩
                · exact Or.inl e
              · exact Or.inr ⟨kv, by simp [hk], hy⟩
            · rintro (h | ⟨kv, hk, hy⟩)
              · exact Or.inl (List.mem_cons_of_mem _ h)
              · rcases List.mem_cons.mp hk with e | e
                · subst e
                  obtain ⟨_, hd, _⟩ := hy
                  simp only at hd
                  rw [hx0] at hd
                  injection hd with hd
                  exact Or.inl (by rw [← hd]; simp)
                · exact Or.inr ⟨kv, e, hy⟩
        · -- filtered out
          obtain ⟨recs, hgo, hmem⟩ := ih acc hwf' hnd.2 (fun a ha kv hk => hacc a ha kv (by simp [hk]))
          refine ⟨recs, ?_, ?_⟩
          · simp only [collect.go, if_true, hx0, hp, Bool.false_eq_true, if_false]; exact hgo
          · intro x
            rw [hmem]
            constructor
            · rintro (h | ⟨kv, hk, hy⟩)
              · exact Or.inl h
              · exact Or.inr ⟨kv, by simp [hk], hy⟩
            · rintro (h | ⟨kv, hk, hy⟩)
              · exact Or.inl h
              · rcases List.mem_cons.mp hk with e | e
                · subst e
                  obtain ⟨_, hd, hpx⟩ := hy
                  simp only at hd
                  rw [hx0] at hd
                  injection hd with hd
                  rw [← hd] at hpx
                  exact absurd hpx hp
                · exact Or.inr ⟨kv, e, hy⟩
      · -- foreign key: ignored
        obtain ⟨recs, hgo, hmem⟩ := ih acc hwf' hnd.2 (fun a ha kv hk => hacc a ha kv (by simp [hk]))
        refine ⟨recs, ?_, ?_⟩
        · simp only [collect.go, hb, if_false]; exact hgo
        · intro x
          rw [hmem]
          constructor
          · rintro (h | ⟨kv, hk, hy⟩)
            · exact Or.inl h
            · exact Or.inr ⟨kv, by simp [hk], hy⟩
          · rintro (h | ⟨kv, hk, hy⟩)
            · exact Or.inl h
            · rcases List.mem_cons.mp hk with e | e
              · subst e
                obtain ⟨hhd, _, _⟩ := hy
                simp only [List.head?_cons, Option.some.injEq] at hhd
                exact absurd hhd hb
              · exact Or.inr ⟨kv, e, hy⟩

/-- **the table is exactly the decodable, passing `b` records** — for an index whose keys are pairwise distinct (they are
    LevelDB keys) and whose `b` records all decode, in whatever order the keys sort; records under other keys are ignored -/
theorem collect_mem (kvs : List (W.Bytes × W.Bytes))
    (hwf : ∀ kv ∈ kvs, kv.1 ≠ [] ∧ (kv.1.head? = some 0x62 → ∃ x, decodeRec kv.1 kv.2 = .ok x ∧ x.hash = kv.1.drop 1))
    (hnd : (kvs.map (·.1)).Nodup) :
    ∃ recs, collect kvs = .ok recs ∧ ∀ x, x ∈ recs ↔ ∃ kv ∈ kvs, Yields kv x := by
  have hp := sortKvs_perm kvs
  obtain ⟨recs, hgo, hmem⟩ := collect_go_mem (sortKvs kvs) []
    (fun kv h => hwf kv (hp.mem_iff.mp h)) ((hp.map _).nodup_iff.mpr hnd) (by intro a ha; cases ha)
  refine ⟨recs, hgo, fun x => ?_⟩
  rw [hmem]
  constructor
  · rintro (h | ⟨kv, hk, hy⟩)
    · cases h
    · exact ⟨kv, hp.mem_iff.mp hk, hy⟩
  · rintro ⟨kv, hk, hy⟩
    exact Or.inr ⟨kv, hp.mem_iff.mpr hk, hy⟩
end Run

namespace Run
open Wk

/-- the table record of an index entry as Core writes it (file / offset only when the status says they are stored) -/
def IndexRec.toRec (hash : W.Bytes) (r : IndexRec) : Rec :=
  ⟨hash, r.prev, r.height, r.status, if r.status &&& 24 > 0 then r.file else 0, if r.status &&& 8 > 0 then r.dataPos else 0⟩

theorem decodeRec_enc (hash : W.Bytes) (hh : hash.length = 32) (r : IndexRec) (hk : r.ok) :
    decodeRec (0x62 :: hash) r.enc = .ok (r.toRec hash) := by
  unfold decodeRec
  rw [record_roundtrip hash hh r hk]
  rfl

theorem foldl_max_gen (T : Nat) : ∀ (l : List (Nat × Rec)) (a : Nat), (∀ p ∈ l, p.1 ≤ T) → a ≤ T →
    ((∃ p ∈ l, p.1 = T) ∨ a = T) → l.foldl (fun a p => max a p.1) a = T := by
  intro l
  induction l with
  | nil =>
    intro a _ _ h
    rcases h with ⟨p, hp, _⟩ | h
    · cases hp
    · exact h
  | cons q l ih =>
    intro a hle ha h
    simp only [List.foldl_cons]
    have hq := hle q (by simp)
    apply ih _ (fun p hp => hle p (by simp [hp])) (by omega)
    rcases h with ⟨p, hp, hpT⟩ | h
    · rcases List.mem_cons.mp hp with e | e
      · right; subst e; omega
      · left; exact ⟨p, e, hpT⟩
    · right; omega

theorem foldl_max_eq (l : List (Nat × Rec)) (T : Nat) (hle : ∀ p ∈ l, p.1 ≤ T) (hex : ∃ p ∈ l, p.1 = T) :
    l.foldl (fun a p => max a p.1) 0 = T :=
  foldl_max_gen T l 0 hle (Nat.zero_le _) (Or.inl hex)

theorem lookup_some_mem (m : List (Nat × Rec)) (h : Nat) (r : Rec) (hl : lookup m h = some r) : (h, r) ∈ m := by
  unfold lookup at hl
  cases hf : m.find? (·.1 == h) with
  | none => simp [hf] at hl
  | some p =>
    simp only [hf, Option.map_some, Option.some.injEq] at hl
    have hm := List.mem_of_find?_eq_some hf
    have hk : (p.1 == h) = true := List.find?_some (p := fun x : Nat × Rec => x.1 == h) hf
    have : p = (h, r) := by
      obtain ⟨a, b⟩ := p
      simp only at hk hl
      simp [← hl, (by simpa using hk : a = h)]
    rw [← this]; exact hm

theorem mem_lookup_isSome (m : List (Nat × Rec)) (p : Nat × Rec) (hp : p ∈ m) : (lookup m p.1).isSome = true := by
  unfold lookup
  cases hf : m.find? (·.1 == p.1) with
  | none =>
    have := List.find?_eq_none.mp hf p hp
    simp at this
  | some q => simp

/-- **the index of a data directory whose block records describe an active chain.**  The key/value pairs may come in any
    order and contain anything else (other `b` records that decode, any records under other keys); if the keys are pairwise
    distinct, every `b` record is one Core could have written, and among them there is a chain `A 0 … A T` — record `k` at
    height `k`, with data and not failed, linked by prev-hash, the root's parent not indexed, the tip fully validated and every
    other fully validated record with data lower than `T` — then loading succeeds, the range ends at `min(--end, T)`, and
    every height `h ≤ T` maps to `A h`: its hash, its file number and its data offset. -/
theorem loadIndex_active (o : Opts) (kvs : List (W.Bytes × W.Bytes)) (hnd : (kvs.map (·.1)).Nodup)
    (hdec : ∀ kv ∈ kvs, kv.1 ≠ [] ∧ (kv.1.head? = some 0x62 →
      ∃ hash r, kv = (0x62 :: hash, IndexRec.enc r) ∧ hash.length = 32 ∧ r.ok))
    (A : Nat → W.Bytes × IndexRec) (T : Nat)
    (hAok : ∀ k, k ≤ T → (A k).1.length = 32 ∧ (A k).2.ok)
    (hmem : ∀ k, k ≤ T → (0x62 :: (A k).1, (A k).2.enc) ∈ kvs)
    (hh : ∀ k, k ≤ T → (A k).2.height = k)
    (hpass : ∀ k, k ≤ T → passes ((A k).2.toRec (A k).1) = true)
    (hlink : ∀ k, k < T → (A (k + 1)).2.prev = (A k).1)
    (hinj : ∀ i j, i ≤ T → j ≤ T → (A i).1 = (A j).1 → i = j)
    (hroot : ∀ kv ∈ kvs, kv.1 ≠ 0x62 :: (A 0).2.prev)
    (hv : validScripts ((A T).2.toRec (A T).1) = true)
    (hcomp : ∀ hash r, (0x62 :: hash, IndexRec.enc r) ∈ kvs → hash.length = 32 → r.ok → passes (r.toRec hash) = true →
      validScripts (r.toRec hash) = true → r.toRec hash = (A T).2.toRec (A T).1 ∨ r.height < T) :
    ∃ ld, loadIndex o kvs = .ok ld ∧
      ld.maxH = (match o.stop with | some e => min e T | none => T) ∧
      (∀ h, lookup ld.full h = if h ≤ T then some ((A h).2.toRec (A h).1) else none) ∧
      (∀ h, o.start - 1 ≤ h → h ≤ ld.maxH → lookup ld.trimmed h = if h ≤ T then some ((A h).2.toRec (A h).1) else none) := by
  -- every b record decodes
  have hwf : ∀ kv ∈ kvs, kv.1 ≠ [] ∧ (kv.1.head? = some 0x62 → ∃ x, decodeRec kv.1 kv.2 = .ok x ∧ x.hash = kv.1.drop 1) := by
    intro kv hkv
    refine ⟨(hdec kv hkv).1, fun hb => ?_⟩
    obtain ⟨hash, r, rfl, hl, hk⟩ := (hdec kv hkv).2 hb
    exact ⟨r.toRec hash, decodeRec_enc hash hl r hk, rfl⟩
  obtain ⟨recs, hcol, hrm⟩ := collect_mem kvs hwf hnd
  -- what a member of the table looks like
  have hshape : ∀ x ∈ recs, ∃ hash r, (0x62 :: hash, IndexRec.enc r) ∈ kvs ∧ hash.length = 32 ∧ r.ok ∧ x = r.toRec hash ∧ passes x = true := by
    intro x hx
    obtain ⟨kv, hkv, hb, hd, hp⟩ := (hrm x).mp hx
    obtain ⟨hash, r, rfl, hl, hk⟩ := (hdec kv hkv).2 hb
    rw [decodeRec_enc hash hl r hk] at hd
    injection hd with hd
    exact ⟨hash, r, hkv, hl, hk, hd.symm, hp⟩
  let A' : Nat → Rec := fun k => (A k).2.toRec (A k).1
  have hA'mem : ∀ k, k ≤ T → A' k ∈ recs := by
    intro k hk
    exact (hrm _).mpr ⟨_, hmem k hk, by simp, decodeRec_enc _ (hAok k hk).1 _ (hAok k hk).2, hpass k hk⟩
  have hchain : Chain A' T recs := by
    refine ⟨hA'mem, fun k hk => hlink k hk, fun i j hi hj he => hinj i j hi hj he, ?_⟩
    intro hin
    obtain ⟨x, hx, hxe⟩ := List.mem_map.mp hin
    obtain ⟨hash, r, hkv, _, _, rfl, _⟩ := hshape x hx
    exact hroot _ hkv (by simp only [A', IndexRec.toRec] at hxe ⊢; rw [hxe])
  have hcomp' : ∀ r ∈ recs, validScripts r = true → r = A' T ∨ r.height < T := by
    intro x hx hvx
    obtain ⟨hash, r, hkv, hl, hok, rfl, hp⟩ := hshape x hx
    exact hcomp hash r hkv hl hok hp hvx
  obtain ⟨idx, hbi, hlk⟩ := buildIndex_active kvs recs A' T hcol hchain (fun k hk => hh k hk) hv hcomp'
  -- the index is not empty and its highest key is T
  have hTmem : (T, A' T) ∈ idx := lookup_some_mem idx T (A' T) (by rw [hlk]; simp)
  have hle : ∀ p ∈ idx, p.1 ≤ T := by
    intro p hp
    have := mem_lookup_isSome idx p hp
    rw [hlk] at this
    by_cases hc : p.1 ≤ T
    · exact hc
    · simp [hc] at this
  have hmax := foldl_max_eq idx T hle ⟨_, hTmem, rfl⟩
  have hne : idx ≠ [] := by intro e; rw [e] at hTmem; cases hTmem
  -- unfold loadIndex
  obtain ⟨p, ps, hcons⟩ : ∃ p ps, idx = p :: ps := by
    cases idx with
    | nil => exact absurd rfl hne
    | cons p ps => exact ⟨p, ps, rfl⟩
  have hload : ∃ ld, loadIndex o kvs = .ok ld ∧ ld.full = idx := by
    unfold loadIndex
    rw [hbi, hcons]
    exact ⟨_, rfl, rfl⟩
  obtain ⟨ld, hld, hfull⟩ := hload
  have hm := loadIndex_maxH o kvs ld hld
  rw [hfull, hmax] at hm
  refine ⟨ld, hld, ?_, ?_, ?_⟩
  · cases hs : o.stop with
    | none => rw [hs] at hm; exact hm
    | some e => rw [hs] at hm; exact hm
  · intro h; rw [hfull]; exact hlk h
  · intro h h1 h2
    rw [loadIndex_trimmed o kvs ld hld h h1 h2, hfull]
    exact hlk h
end Run
