import Rbp.Model.Run
/-!
# blk file names: any zero-padding of the decimal file number parses to that number (C03)
-/
namespace Run

theorem foldl_digits (l : List Char) (a : Nat) :
    l.foldl (fun a c => a * 10 + (c.toNat - 48)) a = Nat.ofDigitChars 10 l a := by
  induction l generalizing a with
  | nil => simp [Nat.ofDigitChars]
  | cons c l ih =>
    simp only [List.foldl_cons, Nat.ofDigitChars_cons]
    rw [ih]
    congr 1
    have : ('0' : Char).toNat = 48 := by decide
    rw [this]; omega

theorem all_digits_toDigits (n : Nat) : (Nat.toDigits 10 n).all isDigit = true := by
  rw [List.all_eq_true]
  intro c hc
  have := Nat.isDigit_of_mem_toDigits (by decide) (by decide) hc
  simp only [Char.isDigit, Bool.and_eq_true, decide_eq_true_eq] at this
  simp only [isDigit, Bool.and_eq_true, decide_eq_true_eq]
  exact this

theorem stripPlus_id : ∀ (cs : List Char), (∀ r, cs ≠ '+' :: r) → stripPlus cs = cs
  | [], _ => rfl
  | c :: r, h => by
    by_cases hc : c = '+'
    · subst hc; exact absurd rfl (h r)
    · unfold stripPlus
      split
      · rename_i r' heq; injection heq with h1 _; exact absurd h1 hc
      · rfl

theorem parseU64_digits (mid : List Char) (n : Nat) (hplus : ∀ r, mid ≠ '+' :: r) (hemp : mid.isEmpty = false)
    (hall : mid.all isDigit = true) (hval : Nat.ofDigitChars 10 mid 0 = n) (hn : n < 2 ^ 64) : parseU64 mid = some n := by
  unfold parseU64
  simp only [stripPlus_id mid hplus, hemp, hall, Bool.not_true, Bool.or_self, Bool.false_eq_true, if_false]
  rw [foldl_digits, hval]
  simp [hn]

/-- `blk<any number of zeros><decimal n>.dat` parses to `n`, for every u64 file number -/
theorem blkname_roundtrip (n k : Nat) (hn : n < 2 ^ 64) :
    parseBlkIndex ("blk" ++ String.ofList (List.replicate k '0') ++ toString n ++ ".dat") = some n := by
  have hname : ("blk" ++ String.ofList (List.replicate k '0') ++ toString n ++ ".dat").toList =
      ['b', 'l', 'k'] ++ (List.replicate k '0' ++ Nat.toDigits 10 n) ++ ['.', 'd', 'a', 't'] := by
    simp [String.toList_append, List.append_assoc]
  have hpos : 0 < (Nat.toDigits 10 n).length := Nat.length_toDigits_pos
  have hmid : parseU64 (List.replicate k '0' ++ Nat.toDigits 10 n) = some n := by
    apply parseU64_digits _ n _ _ _ _ hn
    · intro r e
      have hcm : '+' ∈ List.replicate k '0' ++ Nat.toDigits 10 n := by rw [e]; simp
      rcases List.mem_append.mp hcm with h | h
      · have := List.eq_of_mem_replicate h; exact absurd this (by decide)
      · have := Nat.isDigit_of_mem_toDigits (by decide) (by decide) h; exact absurd this (by decide)
    · cases hd : Nat.toDigits 10 n with
      | nil => rw [hd] at hpos; simp at hpos
      | cons c r => simp
    · rw [List.all_append, all_digits_toDigits]; simp [isDigit]
    · rw [Nat.ofDigitChars_append, Nat.ofDigitChars_replicate_zero, Nat.mul_zero, Nat.ofDigitChars_ten_toDigits]
  unfold parseBlkIndex
  simp only [hname]
  have hlen : (['b', 'l', 'k'] ++ (List.replicate k '0' ++ Nat.toDigits 10 n) ++ ['.', 'd', 'a', 't']).length =
      (List.replicate k '0' ++ Nat.toDigits 10 n).length + 7 := by simp; omega
  have h1 : (['b', 'l', 'k'] ++ (List.replicate k '0' ++ Nat.toDigits 10 n) ++ ['.', 'd', 'a', 't']).take 3 = ['b', 'l', 'k'] := by simp
  have h2 : (['b', 'l', 'k'] ++ (List.replicate k '0' ++ Nat.toDigits 10 n) ++ ['.', 'd', 'a', 't']).drop
      ((List.replicate k '0' ++ Nat.toDigits 10 n).length + 7 - 4) = ['.', 'd', 'a', 't'] := by
    have : (List.replicate k '0' ++ Nat.toDigits 10 n).length + 7 - 4 =
        (['b', 'l', 'k'] ++ (List.replicate k '0' ++ Nat.toDigits 10 n)).length := by simp
    rw [this]
    exact List.drop_left' rfl
  have h3 : ((['b', 'l', 'k'] ++ (List.replicate k '0' ++ Nat.toDigits 10 n) ++ ['.', 'd', 'a', 't']).drop 3).take
      ((List.replicate k '0' ++ Nat.toDigits 10 n).length + 7 - 7) = List.replicate k '0' ++ Nat.toDigits 10 n := by
    rw [Nat.add_sub_cancel, List.append_assoc]
    show (List.replicate k '0' ++ Nat.toDigits 10 n ++ ['.', 'd', 'a', 't']).take _ = _
    exact List.take_left' rfl
  rw [hlen, h1, h2, h3, hmid]
  simp
end Run
