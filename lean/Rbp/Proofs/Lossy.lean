import Rbp.Model.Lossy
/-!
# Lossy UTF-8 decoding leaves well-formed UTF-8 untouched (C16, fork coins)

`valid` is Unicode's Table 3-7 (well-formed UTF-8 byte sequences) written as a recogniser, clause for clause the
same case analysis `lossy` makes; on every accepted string `lossy` is the identity, so a fork-coin OP_RETURN payload that is
valid UTF-8 is printed exactly.
-/
namespace L

theorem lossy_of_valid : ∀ (n : Nat) (p : Bytes), p.length = n → valid p = true → lossy p = p := by
  intro n
  induction n using Nat.strongRecOn with
  | _ n ih =>
    intro p hp hv
    cases p with
    | nil => rw [lossy]
    | cons b0 rest =>
      rw [valid] at hv
      rw [lossy]
      by_cases h0 : b0 < 0x80
      · simp only [h0, if_true] at hv ⊢
        rw [ih rest.length (by rw [← hp]; simp) rest rfl hv]
      · simp only [h0, if_false] at hv ⊢
        cases hs : second b0 with
        | none => simp [hs] at hv
        | some t =>
          obtain ⟨len, lo, hi⟩ := t
          simp only [hs] at hv ⊢
          cases rest with
          | nil => simp at hv
          | cons b1 r1 =>
            simp only at hv ⊢
            by_cases h1 : (!(lo ≤ b1 && b1 ≤ hi)) = true
            · simp [h1] at hv
            · simp only [h1, Bool.false_eq_true, if_false] at hv ⊢
              by_cases l2 : (len == 2) = true
              · simp only [l2, if_true] at hv ⊢
                rw [ih r1.length (by rw [← hp]; simp; omega) r1 rfl hv]
              · simp only [l2, Bool.false_eq_true, if_false] at hv ⊢
                cases r1 with
                | nil => simp at hv
                | cons b2 r2 =>
                  simp only at hv ⊢
                  by_cases h2 : (!isCont b2) = true
                  · simp [h2] at hv
                  · simp only [h2, Bool.false_eq_true, if_false] at hv ⊢
                    by_cases l3 : (len == 3) = true
                    · simp only [l3, if_true] at hv ⊢
                      rw [ih r2.length (by rw [← hp]; simp; omega) r2 rfl hv]
                    · simp only [l3, Bool.false_eq_true, if_false] at hv ⊢
                      cases r2 with
                      | nil => simp at hv
                      | cons b3 r3 =>
                        simp only at hv ⊢
                        by_cases h3 : (!isCont b3) = true
                        · simp [h3] at hv
                        · simp only [h3, Bool.false_eq_true, if_false] at hv ⊢
                          rw [ih r3.length (by rw [← hp]; simp; omega) r3 rfl hv]

/-- ASCII is well-formed -/
theorem valid_ascii : ∀ p : Bytes, (∀ b ∈ p, b < 0x80) → valid p = true
  | [], _ => by rw [valid]
  | b :: p, h => by
    rw [valid]
    have hb := h b (by simp)
    simp only [hb, if_true]
    exact valid_ascii p (fun x hx => h x (by simp [hx]))
end L
