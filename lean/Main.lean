import Rbp.Model.Hex
import Rbp.Model.Script

/-! Line-protocol driver of the executable model: `rbp-model <cmd>` answers one line per request line. -/
open Hex

def fieldHex (bs : List UInt8) : String := if bs.isEmpty then "-" else hex bs
def parseHex (s : String) : List UInt8 := if s == "-" then [] else (unhex s).getD []

def patternTag (p : S.Pattern) : String := p.name

def answerScript (toks : List String) : String :=
  match toks with
  | [v, s] =>
    match unhex v with
    | some [ver] =>
      let r := S.eval ver (parseHex s)
      let payload := match r.pattern with | .opReturn d => fieldHex d | _ => "-"
      s!"{patternTag r.pattern} {r.address.getD "-"} {payload}"
    | _ => "bad-request"
  | [v] =>
    match unhex v with
    | some [ver] =>
      let r := S.eval ver []
      let payload := match r.pattern with | .opReturn d => fieldHex d | _ => "-"
      s!"{patternTag r.pattern} {r.address.getD "-"} {payload}"
    | _ => "bad-request"
  | _ => "bad-request"

def answer (cmd : String) (line : String) : String :=
  let toks := (line.trimAscii.toString.splitOn " ").filter (· ≠ "")
  match cmd with
  | "script" => answerScript toks
  | _ => "bad-command"

partial def loop (cmd : String) (hin : IO.FS.Stream) (hout : IO.FS.Stream) : IO Unit := do
  let line ← hin.getLine
  if line.isEmpty then return ()
  hout.putStrLn (answer cmd line)
  loop cmd hin hout

def main (args : List String) : IO UInt32 := do
  match args with
  | [cmd] =>
    let hin ← IO.getStdin
    let hout ← IO.getStdout
    loop cmd hin hout
    hout.flush
    return 0
  | _ =>
    IO.eprintln "usage: rbp-model <cmd>"
    return 2
