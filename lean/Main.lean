import Rbp.Proofs.OutputCsv
import Rbp.Proofs.Lossy
import Rbp.Model.Hex
import Rbp.Model.Script
import Rbp.Model.Run
import Rbp.Model.Output

/-! Line-protocol driver of the executable model: `rbp-model <cmd>` answers one line per request line. -/
open Hex

def fieldHex (bs : List UInt8) : String := if bs.isEmpty then "-" else hex bs
def parseHex (s : String) : List UInt8 := if s == "-" then [] else (unhex s).getD []

def patternTag (p : S.Pattern) : String := p.name

def answerScript (toks : List String) : String :=
  match toks with
  | [v, s] =>
    match unhex v with
    | some [ver] =>
      let r := S.eval ver (parseHex s)
      let payload := match r.pattern with | .opReturn d => fieldHex d | _ => "-"
      s!"{patternTag r.pattern} {r.address.getD "-"} {payload}"
    | _ => "bad-request"
  | [v] =>
    match unhex v with
    | some [ver] =>
      let r := S.eval ver []
      let payload := match r.pattern with | .opReturn d => fieldHex d | _ => "-"
      s!"{patternTag r.pattern} {r.address.getD "-"} {payload}"
    | _ => "bad-request"
  | _ => "bad-request"

/-! ### `block`: parse one block and dump every field (same format as the hook) -/
def dumpBlock (ver : UInt8) (size : Nat) (b : Csv.RBlock) (a : Option Aux.RAux) : Option String :=
  match M.rootRust A.sha256d (b.txs.map CB.txid) with
  | none => none
  | some root =>
    let h := b.header
    let head := s!"H {Csv.hashHex (Run.blockHash b)} {h.version} {size} {Csv.hashHex h.prev} {Csv.hashHex h.merkle} {h.time} {h.bits} {h.nonce} {b.txCount.value} "
    let aux := match a with
      | none => "N "
      | some a => s!"A {Csv.hashHex (A.sha256d a.coinbase.toBytes)} {Csv.hashHex a.parentHash} {a.coinbaseBranch.hashes.length} {a.coinbaseBranch.mask} {a.chainBranch.hashes.length} {a.chainBranch.mask} {hex a.parent.toBytes} "
    let txs := b.txs.map fun t =>
      s!"T {Csv.hashHex (CB.txid t)} {t.version} {t.lock} {t.toBytes.length} {t.icnt.value} {t.ocnt.value} " ++
      String.join (t.ins.map fun i => s!"I {Csv.hashHex i.prev} {i.idx} {fieldHex i.script} {i.seq} ") ++
      String.join (t.outs.map fun o =>
        let e := S.eval ver o.script
        s!"O {o.value} {fieldHex o.script} {(patternTag e.pattern)} {e.address.getD "-"} ")
    some (head ++ aux ++ String.join txs ++ (if root == h.merkle then "M1" else "M0"))

def answerBlock (toks : List String) : String :=
  match toks with
  | coin :: size :: rest =>
    match Run.coinOf coin with
    | none => "bad-request"
    | some c =>
      let bytes := match rest with | [h] => parseHex h | _ => []
      match Aux.readBlockAux c.auxpow bytes with
      | none => "eof"
      | some ((b, a), r) =>
        match dumpBlock c.version size.toNat! b a with
        | none => "PANIC"
        | some d => s!"ok {r.length} {d}"
  | _ => "bad-request"

def answerVarint (toks : List String) : String :=
  let bs := match toks with | [h] => parseHex h | _ => []
  match VI.dec 0 bs with
  | .ok n r => s!"ok {n} {bs.length - r.length}"
  | .eof => "eof"
  | .panic => "PANIC"

def answerRecord (toks : List String) : String :=
  let (k, v) := match toks with | [k, v] => (parseHex k, parseHex v) | [k] => (parseHex k, []) | _ => ([], [])
  match k with
  | [] => "PANIC"
  | b :: _ =>
    if b ≠ 0x62 then "ok foreign" else
    match Run.decodeRecFull k v with
    | .ok f => s!"ok {Csv.hashHex f.r.hash} {f.version} {f.r.height} {f.r.status} {f.ntx} {f.r.file} {f.r.off}"
    | .err _ => "eof"
    | .panic _ => "PANIC"

def answerBlkname (toks : List String) : String :=
  let bs := match toks with | [h] => parseHex h | _ => []
  match String.fromUTF8? (ByteArray.mk bs.toArray) with
  | none => "PANIC"
  | some name => match Run.parseBlkIndex name with | some n => s!"some {n}" | none => "none"

def answerCompact (toks : List String) : String :=
  let bs := match toks with | [h] => parseHex h | _ => []
  match W.readVarUint bs with
  | some (v, r) => s!"ok {v.value} {fieldHex v.raw} {bs.length - r.length}"
  | none => "eof"

/-- `xor <key> <cap> <data> <op>*`: the XorReader machine of the model over a positional reader (capacity is irrelevant to the model) -/
def answerXor (toks : List String) : String :=
  match toks with
  | k :: _cap :: d :: ops =>
    let key := parseHex k
    let data := parseHex d
    let step (st : Nat × List String) (op : String) : Nat × List String :=
      let n := (op.drop 1).toString.toNat!
      if op.startsWith "s" then (n, st.2)
      else
        let chunk := (data.drop st.1).take n
        let plain := if key.isEmpty then chunk else X.xorAt key st.1 chunk
        (st.1 + chunk.length, st.2 ++ [fieldHex plain])
    "|".intercalate (ops.foldl step (0, [])).2
  | _ => "bad-request"

def answerMean (toks : List String) : String :=
  let vs := toks.map String.toNat!
  if vs.isEmpty then "0/1" else s!"{vs.foldl (·+·) 0}/{vs.length}"

def answerReward (toks : List String) : String :=
  match toks with
  | [h] => let k := h.toNat! / 210000
           if k ≥ 64 then "PANIC" else toString ((5000000000 : Nat) >>> k)
  | _ => "bad-request"

/-- `outfile <cap> <budget|-> <row length>*`: one output file through the BufWriter machine with the repaired program
    (write rows, explicit flush, rename, drop) -/
def answerOutfile (toks : List String) : String :=
  match toks with
  | cap :: budget :: lens =>
    let b := if budget == "-" then 1000000000000 else budget.toNat!
    let chunks := lens.map fun l => List.replicate l.toNat! (0 : UInt8)
    let s := O.exec (O.init cap.toNat! b) (O.fixedProg chunks)
    let ws := s.w.log.filter (fun p => p.1 > 0)
    s!"ok {if s.ok then 1 else 0} renamed {if s.renamed then 1 else 0} disk {s.w.disk.length} writes " ++
      " ".intercalate (ws.map fun p => s!"{p.1}:{p.2}")
  | _ => "bad-request"

def answer (cmd : String) (line : String) : String :=
  let toks := (line.trimAscii.toString.splitOn " ").filter (· ≠ "")
  match cmd with
  | "script" => answerScript toks
  | "block" => answerBlock toks
  | "varint" => answerVarint toks
  | "outfile" => answerOutfile toks
  | "utf8" => (match toks with
      | [h] => let bs := parseHex h
               s!"{if L.valid bs then 1 else 0} {if (ByteArray.mk bs.toArray).validateUTF8 then 1 else 0} {fieldHex (L.lossy bs)}"
      | _ => "bad-request")
  | "record" => answerRecord toks
  | "blkname" => answerBlkname toks
  | "compactsize" => answerCompact toks
  | "xor" => answerXor toks
  | "mean" => answerMean toks
  | "basereward" => answerReward toks
  | "merkle" => match M.rootRust A.sha256d (toks.map parseHex) with | some r => fieldHex r | none => "PANIC"
  | _ => "bad-command"

/-! ### `run`: whole-program scenarios (DESIGN Appendix D) -/

structure ScenAcc where
  fstrace : Bool := false
  opts : Run.Opts := ⟨"bitcoin", false, 0, none, "csvdump"⟩
  key : Option (List UInt8) := none
  kvs : List (List UInt8 × List UInt8) := []
  files : List Run.BlkFile := []

def scenLine (a : ScenAcc) (toks : List String) : ScenAcc :=
  match toks with
  | ["opts", coin, v, s, e, cb] =>
    { a with opts := ⟨coin, v == "1", s.toNat!, if e == "-" then none else some e.toNat!, cb⟩ }
  | ["fstrace"] => { a with fstrace := true }
  | ["xorkey", k] => { a with key := if k == "none" then none else some (parseHex k) }
  | ["kv", k, v] => { a with kvs := (parseHex k, parseHex v) :: a.kvs }
  | ["kv", k] => { a with kvs := (parseHex k, []) :: a.kvs }
  | ["file", name, size] => { a with files := a.files ++ [⟨name, size.toNat!, []⟩] }
  | ["seg", name, off, data] =>
    { a with files := a.files.map fun f => if f.name == name then { f with segs := f.segs ++ [⟨off.toNat!, parseHex data⟩] } else f }
  | _ => a

def renderOutput (o : Run.Output) : List String :=
  [s!"exit {o.exit}", s!"errheight {match o.errHeight with | some h => toString h | none => "-"}", s!"msg {o.msg}",
   "delivered " ++ " ".intercalate (o.delivered.map toString),
   "hashes " ++ " ".intercalate (o.hashes.map Csv.hashHex)] ++
  o.files.flatMap (fun (n, ls) => s!"file {n} {ls.length}" :: ls.map ("row " ++ ·)) ++
  o.stdout.map ("out " ++ ·) ++
  o.events.map (fun e => match e with | .opening f => s!"ev open {f}" | .closing f => s!"ev close {f}") ++
  ["done"]

/-- global order of the raw writes and renames of csvdump's four writers (the n-writer machine `ON` run on the write program
    of `CsvDump::on_block`): `w<i>:<bytes>` per `write(2)`, `r<i>` per rename -/
def fsTrace (cap : Nat) (ver : UInt8) (bs : List CB.EBlock) : String :=
  let prog := ON.prog 4 (Run.csvWrites ver bs)
  let (_, evs) := prog.foldl (fun (st : ON.S × List String) c =>
    let s' := ON.step st.1 c
    let news := (List.range 4).flatMap fun i =>
      (((s'.ws i).log.drop (st.1.ws i).log.length).filter (fun p => p.1 > 0)).map fun p => s!"w{i}:{p.2}"
    let ren := match c with | .rename i => if st.1.ok then [s!"r{i}"] else [] | _ => []
    (s', ren.reverse ++ news.reverse ++ st.2)) (ON.init cap (fun _ => 1000000000000), [])
  " ".intercalate evs.reverse

partial def runLoop (hin hout : IO.FS.Stream) (a : ScenAcc) : IO Unit := do
  let line ← hin.getLine
  if line.isEmpty then return ()
  let toks := (line.trimAscii.toString.splitOn " ").filter (· ≠ "")
  if toks == ["end"] then
    let o := Run.main a.opts a.key a.kvs a.files
    for l in (renderOutput o).dropLast do hout.putStrLn l
    if a.fstrace && a.opts.callback == "csvdump" && o.exit == 0 then
      let ver := match Run.coinOf a.opts.coin with | some c => c.version | none => 0
      hout.putStrLn ("fstrace " ++ fsTrace 4000000 ver (Run.deliveredBlocks a.opts a.key a.kvs a.files))
    hout.putStrLn "done"
    hout.flush
    runLoop hin hout {}
  else runLoop hin hout (scenLine a toks)

partial def loop (cmd : String) (hin : IO.FS.Stream) (hout : IO.FS.Stream) : IO Unit := do
  let line ← hin.getLine
  if line.isEmpty then return ()
  hout.putStrLn (answer cmd line)
  loop cmd hin hout

def main (args : List String) : IO UInt32 := do
  match args with
  | [cmd] =>
    let hin ← IO.getStdin
    let hout ← IO.getStdout
    if cmd == "run" then runLoop hin hout {} else loop cmd hin hout
    hout.flush
    return 0
  | _ =>
    IO.eprintln "usage: rbp-model <cmd>"
    return 2
