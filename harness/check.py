#!/usr/bin/env python3
"""Entry point of every check:  check.py <Cxx> [--tier quick|thorough] [--replay FILE]  |  check.py --setup

Skeleton (DESIGN §2.2): build → proof obligations → corpus → correspondence → verdict.
Exit 0 = property held on everything explored; exit 1 + `VIOLATION property=<id> replay=<path>` otherwise.
"""
import argparse, importlib, json, os, sys, time, traceback
import atexit, shutil

sys.path.insert(0, os.path.dirname(os.path.abspath(__file__)))
from rbpv import common as C, build as B, bb as BB
from rbpv.ctx import Ctx

ALL = ["C%02d" % i for i in range(1, 18)]


def setup():
    t0 = time.time()
    B.build_impl()
    B.gen_consts()
    ok, out = B.lake_build(["Rbp", "rbp-model", "Rbp.Audit"])
    if not ok:
        print(out[-6000:])
        print("setup: lake build failed")
        return 1
    print("setup ok in %.1fs" % (time.time() - t0))
    return 0


def obligations(mod, ctx):
    """Returns (n_obligations, n_discharged, problems, theorem list)."""
    problems = []
    ok, out = B.lake_build([mod.NAMESPACE, "rbp-model", "Rbp.Audit"])
    if not ok:
        problems.append({"kind": "lake-build-failed", "target": mod.NAMESPACE, "log": out[-3000:]})
        return 0, 0, problems, []
    ok, thms, raw = B.audit(mod.NAMESPACE)
    if not ok:
        problems.append({"kind": "audit-failed", "log": raw[-3000:]})
    names = {t.split(".")[-1]: ax for t, ax in thms}
    discharged = 0
    for t, ax in thms:
        bad = [a for a in ax if a not in C.ALLOWED_AXIOMS]
        if bad:
            problems.append({"kind": "forbidden-axiom", "theorem": t, "axioms": bad})
        else:
            discharged += 1
    for r in mod.REQUIRED:
        if r not in names:
            problems.append({"kind": "missing-theorem", "theorem": mod.NAMESPACE + "." + r})
    if ctx.thorough():
        # independent re-check of the compiled property module by the toolchain's leanchecker
        p = C.run(["lake", "env", "leanchecker", mod.NAMESPACE], cwd=C.LEAN)
        ctx.notes.append("leanchecker %s: rc=%d" % (mod.NAMESPACE, p.returncode))
        if p.returncode != 0:
            problems.append({"kind": "leanchecker-rejected", "log": (p.stdout + p.stderr).decode(errors="replace")[-2000:]})
    files = [os.path.join(C.LEAN, f) for f in getattr(mod, "LEAN_FILES", [])]
    files.append(os.path.join(C.LEAN, *mod.NAMESPACE.split(".")) + ".lean")
    for b in B.grep_forbidden(files):
        problems.append({"kind": "forbidden-text", "where": b})
    return len(thms) + len([p for p in problems if p["kind"] == "missing-theorem"]), discharged, problems, thms


BTC, FORK = ("bitcoin", "testnet3"), ("litecoin", "dogecoin", "namecoin")
LITERAL_CALLBACKS = {
    "C01": (["csvdump"], BTC + FORK[:1], False), "C02": (["csvdump", "opreturn", "simplestats"], BTC[:1] + FORK[:1], False), "C03": (["csvdump"], BTC[:1], False),
    "C04": (["csvdump"], BTC[:1], False), "C05": (["csvdump"], BTC, False), "C06": (["csvdump"], FORK, False), "C07": (["unspentcsvdump"], BTC[:1] + FORK[:1], False),
    "C08": (["balances"], BTC[:1] + FORK[:1], False), "C09": (["csvdump"], BTC[:1] + FORK[:1], True), "C10": (["csvdump", "unspentcsvdump", "balances"], BTC[:1], False),
    "C11": (["csvdump"], BTC[:1], False), "C12": (["csvdump"], ("namecoin", "dogecoin"), False), "C13": (["simplestats", "balances"], BTC[:1] + FORK[:1], False),
    "C14": (["csvdump", "unspentcsvdump", "balances", "opreturn", "simplestats"], BTC[:1] + FORK[:1], False), "C15": (["simplestats"], BTC[:1] + FORK[:1], False),
    "C16": (["opreturn"], BTC[:1] + FORK[:1], False), "C17": (["csvdump"], BTC[:1], False),
}


def known_match(prop, d):
    """A disagreement is a KNOWN-FINDING iff an *open* entry's matcher accepts it."""
    for k in C.load_known().get("findings", []):
        if k.get("property") == prop and k.get("status") == "open":
            m = k.get("match", {})
            if all(str(d.get(key)) == str(val) for key, val in m.items()):
                return k
    return None


def main():
    ap = argparse.ArgumentParser()
    ap.add_argument("prop", nargs="?")
    ap.add_argument("--tier", default=None)
    ap.add_argument("--replay", default=None)
    ap.add_argument("--setup", action="store_true")
    a = ap.parse_args()
    if a.setup:
        sys.exit(setup())
    prop = a.prop
    if prop not in ALL:
        print("unknown property", prop)
        sys.exit(2)
    tier = a.tier or C.env_tier()
    mod = importlib.import_module("rbpv.props." + prop.lower())
    seed = C.env_seed(getattr(mod, "DEFAULT_SEED", 1000 + int(prop[1:])))
    ctx = Ctx(prop, tier, seed)
    violations = []       # (what, replay path, no_input)
    n_obl = n_dis = 0
    thms = []
    try:
        try:
            B.build_impl()
            B.gen_consts()
        except (B.BuildError, RuntimeError) as e:
            path = C.write_replay(prop, seed, {"property": prop, "broken": "build of /repo with hooks (RUSTFLAGS=%s)" % B.RUSTFLAGS, "log": str(e)[-3000:]})
            violations.append(("hook build failed: the correspondence cannot be run", path, True))
            raise StopIteration
        n_obl, n_dis, problems, thms = obligations(mod, ctx)
        # a private copy of the model driver: another check running at the same time may relink the shared one
        try:
            with C.Lock("lake"):
                private = os.path.join(C.CACHE, "rbp-model-%d" % os.getpid())
                shutil.copy2(C.MODEL, private)
            C.MODEL = private
            atexit.register(lambda: os.path.exists(private) and os.remove(private))
        except OSError as e:
            ctx.notes.append("private copy of the model driver not made: %r" % e)
        # change-directed effort: where /repo's source differs from the tree the model was last reconciled with, the quick tier
        # multiplies its case budget for the properties anchored in the files that moved (never a violation by itself)
        factor, changed = B.effort_factor(prop)
        ctx.notes.append("source fingerprints: %s" % ("unchanged" if not changed else "%d file(s) differ from the reconciled tree (%s): case budget x%d" % (len(changed), ", ".join(changed[:6]), factor)))
        if factor > 1 and tier != "thorough" and not a.replay:
            ctx.scale = factor
        if a.replay:
            rep = json.load(open(a.replay))
            mod.replay(ctx, rep)
        else:
            corpus_dir = os.path.join(C.CORPUS, prop)
            if os.path.isdir(corpus_dir) and hasattr(mod, "replay"):
                for fn in sorted(os.listdir(corpus_dir)):
                    if fn.endswith(".json"):
                        mod.replay(ctx, json.load(open(os.path.join(corpus_dir, fn))), corpus=fn)
            try:
                mod.correspondence(ctx)
            except Exception as e:
                # disagreements recorded before the harness tripped (typically over the very output that is wrong) are still reported
                # with their replay; the error itself is reported only when there is nothing better
                if not [d for d in ctx.disagreements if d["in_domain"]]:
                    raise
                ctx.notes.append("harness error after the first disagreement: %r" % e)
            # what only shows at scale: long chains through the property's own callbacks
            try:
                BB.scale_family(ctx, prop)
            except Exception as e:
                if not [d for d in ctx.disagreements if d["in_domain"]]:
                    raise
                ctx.notes.append("harness error in the scale family: %r" % e)
            # literal-directed effort: scenarios built around integer literals that are new in /repo's sources (none on the unchanged tree)
            try:
                spec = LITERAL_CALLBACKS.get(prop)
                if spec:
                    BB.literal_family(ctx, spec[0], coins=spec[1], verify=spec[2])
            except Exception as e:
                if not [d for d in ctx.disagreements if d["in_domain"]]:
                    raise
                ctx.notes.append("harness error in the literal-directed family: %r" % e)
            if problems and not [d for d in ctx.disagreements if d["in_domain"]]:
                # a proof obligation broke but nothing disagreed: search harder for a failing input
                ctx.scale = max(ctx.scale, 5)
                ctx.notes.append("search mode: obligations broken, correspondence volume x5")
                mod.correspondence(ctx)
        indom = [d for d in ctx.disagreements if d["in_domain"]]
        outdom = [d for d in ctx.disagreements if not d["in_domain"]]
        new = []
        for d in indom:
            k = known_match(prop, d)
            if k:
                ctx.known_hits.append((k, d))
            else:
                new.append(d)
        seen = set()
        for k, d in ctx.known_hits:
            if k["id"] not in seen:
                seen.add(k["id"])
                print("KNOWN-FINDING: property=%s %s" % (prop, k["what"]))
        if new:
            first = new[0]
            if hasattr(mod, "shrink"):
                try:
                    first = mod.shrink(ctx, first)
                except Exception as e:  # shrinking is best effort
                    ctx.notes.append("shrink failed: %r" % e)
            path = C.write_replay(prop, seed, {"property": prop, "failing_input": first, "n_disagreements": len(new), "others": new[1:6], "broken_obligations": problems, "how_to_replay": "python3 harness/check.py %s --replay <this file>" % prop})
            violations.append(("%d in-domain disagreement(s), first in family %s" % (len(new), first.get("family")), path, False))
        elif problems or outdom:
            path = C.write_replay(prop, seed, {"property": prop, "broken_obligations": problems, "out_of_domain_disagreements": outdom[:10], "note": "no in-domain failing input found by the targeted search"})
            what = "proof obligation no longer checks" if problems else "correspondence broke outside the property's domain"
            violations.append((what, path, True))
    except StopIteration:
        pass
    except Exception as e:
        tb = traceback.format_exc()
        path = C.write_replay(prop, seed, {"property": prop, "broken": "check machinery raised", "traceback": tb[-4000:]})
        violations.append(("check machinery error: %r" % e, path, True))
    wall = time.time() - ctx.t0
    cov = {
        "obligations": n_obl,
        "discharged": n_dis,
        "checker_cmd": "cd lean && lake build %s rbp-model && lake env lean <audit of namespace %s> (Lean.collectAxioms per theorem)" % (mod.NAMESPACE, mod.NAMESPACE),
        "trusted_base": C.TRUSTED_BASE,
        "theorems": [t for t, _ in thms],
        "evaluations": ctx.evaluations,
        "distinct_nontrivial": len(ctx.nontrivial),
        "rule": getattr(mod, "RULE", ""),
        "samples": ctx.samples or [{"note": "no correspondence case was run"}],
        "traces_validated_against_impl": ctx.traces,
        "input_distribution": dict(ctx.dist.most_common(60)),
        "families": dict(ctx.families),
        "known_findings_hit": [k["id"] for k, _ in ctx.known_hits],
        "notes": ctx.notes + ["stalled run killed and repeated: " + t for t in __import__("rbpv.chain", fromlist=["TIMEOUTS"]).TIMEOUTS],
        "build_profile": "dev (debug assertions and overflow checks on), RUSTFLAGS=" + B.RUSTFLAGS,
    }
    try:
        C.write_evidence(prop, tier, seed, cov, wall, len(violations), getattr(mod, "ASSUMPTIONS", []))
    except Exception as e:
        print("evidence could not be written: %r" % e)
    for what, path, no_input in violations:
        print("VIOLATION property=%s replay=%s%s" % (prop, path, " no-failing-input-found" if no_input else ""))
        print("  " + what)
    if violations:
        sys.exit(1)
    print("OK property=%s tier=%s obligations=%d/%d evaluations=%d distinct_nontrivial=%d wall=%.1fs" % (prop, tier, n_dis, n_obl, ctx.evaluations, len(ctx.nontrivial), wall))
    sys.exit(0)


if __name__ == "__main__":
    main()
