"""Shared plumbing of the checks: paths, subprocesses, seeds, evidence, verdict lines."""
import fcntl, hashlib, json, os, random, shutil, subprocess, sys, tempfile, time

VERIF = os.path.dirname(os.path.dirname(os.path.dirname(os.path.abspath(__file__))))
REPO = os.environ.get("RBP_REPO", "/repo")
CACHE = os.path.join(VERIF, ".cache")
# one target directory per source tree: cargo keys freshness by package path, and two trees sharing a target directory would
# leave whichever binary was linked last under the same name
TARGET = os.path.join(CACHE, "target" if REPO == "/repo" else "target-" + __import__("hashlib").sha256(REPO.encode()).hexdigest()[:10])
LEAN = os.path.join(VERIF, "lean")
IMPL = os.path.join(TARGET, "debug", "rusty-blockparser")
MODEL = os.path.join(LEAN, ".lake", "build", "bin", "rbp-model")
EVIDENCE = os.path.join(VERIF, "evidence")
REPLAYS = os.path.join(VERIF, "replays")
CORPUS = os.path.join(VERIF, "corpus")
KNOWN = os.path.join(VERIF, "known_findings.json")

ALLOWED_AXIOMS = {"propext", "Classical.choice", "Quot.sound"}

TRUSTED_BASE = [
    "Lean 4.33.0 kernel (theorems elaborated by `lake build`; thorough tier re-checks the .olean with leanchecker)",
    "axioms allowed per theorem: propext, Classical.choice, Quot.sound (audited with Lean.collectAxioms on every run); no native_decide, no bv_decide, no sorry, no user axioms",
    "hand-written Lean model of the Rust code; tie = correspondence check of this run (hook calls into the real functions in-process + black-box runs of the real main())",
    "python harness: generators, canonicalisation, diff; cfg(rbp_verif) hook dispatcher in /repo/src/verif_hooks.rs",
    "modelled not verified: rusty-leveldb iteration order, seek_bufread/std::fs positional reads, std BufWriter, rename(2), rayon indexed collect, clap, rust-bitcoin script predicates and address encoders (modelled by hand as they are, compared on every run)",
    "SHA-256 / RIPEMD-160 are executable Lean definitions validated only through every hash the correspondence compares; theorems treat them as opaque functions",
]


def env_seed(default):
    try:
        return int(os.environ.get("VERIF_SEED", default))
    except ValueError:
        return default


def env_tier(default="quick"):
    t = os.environ.get("VERIF_TIER", default)
    return t if t in ("quick", "thorough") else default


class Lock:
    def __init__(self, name):
        os.makedirs(CACHE, exist_ok=True)
        self.path = os.path.join(CACHE, name + ".lock")

    def __enter__(self):
        self.f = open(self.path, "w")
        fcntl.flock(self.f, fcntl.LOCK_EX)
        return self

    def __exit__(self, *a):
        fcntl.flock(self.f, fcntl.LOCK_UN)
        self.f.close()


def run(cmd, input=None, env=None, cwd=None, timeout=None, check=False, binary=False):
    e = dict(os.environ)
    if env:
        e.update(env)
    if input is not None and not binary and isinstance(input, str):
        input = input.encode()
    p = subprocess.run(cmd, input=input, stdout=subprocess.PIPE, stderr=subprocess.PIPE, env=e, cwd=cwd, timeout=timeout)
    if check and p.returncode != 0:
        raise RuntimeError("command failed (%d): %s\n%s" % (p.returncode, " ".join(cmd), p.stderr.decode(errors="replace")[-4000:]))
    return p


def scratch(prefix="rbpv-"):
    return tempfile.mkdtemp(prefix=prefix, dir=os.environ.get("RBPV_TMP", "/tmp"))


def rmtree(d):
    shutil.rmtree(d, ignore_errors=True)


def sha(b):
    return hashlib.sha256(b).hexdigest()


class Violation(Exception):
    def __init__(self, prop, what, replay, no_input=False):
        self.prop, self.what, self.replay, self.no_input = prop, what, replay, no_input


_replay_n = [0]


def write_replay(prop, seed, payload):
    os.makedirs(REPLAYS, exist_ok=True)
    _replay_n[0] += 1
    path = os.path.join(REPLAYS, "%s-%d-%d.json" % (prop, seed, _replay_n[0]))
    with open(path, "w") as f:
        json.dump(payload, f, indent=1, sort_keys=True)
    return path


def load_known():
    try:
        with open(KNOWN) as f:
            return json.load(f)
    except FileNotFoundError:
        return {"findings": []}


def write_evidence(prop, tier, seed, coverage, wall, violations, assumptions=None):
    os.makedirs(EVIDENCE, exist_ok=True)
    ev = {
        "property_id": prop,
        "tier": tier,
        "seed": seed,
        "level": "proof",
        "coverage": coverage,
        "assumptions": assumptions or [],
        "wall_s": round(wall, 2),
        "violations": violations,
    }
    # minimal self-validation of the keys the schema requires for level=proof
    c = coverage
    assert isinstance(c.get("obligations"), int) and isinstance(c.get("discharged"), int)
    assert c.get("checker_cmd") and isinstance(c.get("trusted_base"), list)
    assert isinstance(c.get("samples"), list) and c["samples"]
    tmp = os.path.join(EVIDENCE, prop + ".json.tmp")
    with open(tmp, "w") as f:
        json.dump(ev, f, indent=1, sort_keys=True)
    os.replace(tmp, os.path.join(EVIDENCE, prop + ".json"))
