"""Structure-directed generator of output scripts (C05, C06, C14, C16).

Every case is (family, script bytes).  All randomness comes from the `random.Random` passed in.
"""
import struct

BTC = ["00", "6f"]
FORK = ["34", "30", "1e", "32", "82", "35"]
VERS = BTC + FORK


def rb(r, n):
    return bytes(r.randrange(256) for _ in range(n))


def push(r, d, form=None):
    n = len(d)
    forms = [f for f in ("d", "1", "2", "4") if not (f == "d" and not (0 < n <= 75)) and not (f == "1" and n > 255) and not (f == "2" and n > 65535)]
    if n == 0:
        forms = ["0", "1", "2", "4"]
    f = form or r.choice(forms)
    if f == "0":
        return b"\x00"
    if f == "d":
        return bytes([n]) + d
    if f == "1":
        return b"\x4c" + bytes([n]) + d
    if f == "2":
        return b"\x4d" + struct.pack("<H", n) + d
    return b"\x4e" + struct.pack("<I", n) + d


def push_forms(d):
    """every push form able to carry d"""
    n = len(d)
    out = []
    if n == 0:
        out.append(b"\x00")
    if 0 < n <= 75:
        out.append(bytes([n]) + d)
    if n <= 255:
        out.append(b"\x4c" + bytes([n]) + d)
    if n <= 65535:
        out.append(b"\x4d" + struct.pack("<H", n) + d)
    out.append(b"\x4e" + struct.pack("<I", n) + d)
    return out


UTF8_BAD = [b"\xc0\x80", b"\xed\xa0\x80", b"\xf4\x90\x80\x80", b"ab\xe2\x82", b"\xff", b"\xe2\x82", b"\xf0\x9f\x98", b"\x80", b"a\xc3", b"\xed\xbf\xbf", b"\xf5\x80\x80\x80", b"\xe0\x9f\x80", b"\xf0\x8f\x80\x80"]


# valid UTF-8 that a careless `looks broken` test would reject or mangle: the replacement character itself, BOM, NUL and other
# controls, line/paragraph separators, noncharacters, first/last private-use and the scalar values next to the surrogate gap
UTF8_SPECIAL = ["\ufffd", "ok \ufffd ok", "\ufeffbom", "a\x00b", "\x00", "\x7f\x01\x1b[0m", "\u2028\u2029", "\ufffe\uffff", "\ue000\uf8ff", "\ud7ff\ue000",
                "\U0010ffff\U00010000", "\u0080\u07ff\u0800", "\r\n\t", "\ufffd\ufffd\ufffd"]


def payload(r):
    k = r.random()
    if k < 0.08:
        return r.choice(UTF8_SPECIAL).encode() * r.randrange(1, 3)
    if k < 0.3:
        return bytes(r.choice(b"abcXYZ 0129;,\"") for _ in range(r.choice([0, 1, 5, 19, 75, 76, 80, 200, 255, 256, 300, 520, 4000])))
    if k < 0.5:
        return "žß€😀é漢".encode() * r.randrange(1, 5)
    if k < 0.7:
        return rb(r, r.choice([1, 2, 3, 20, 75, 76, 255, 256]))
    if k < 0.8:
        # valid multi-byte text with one invalid sequence spliced in
        t = "π€😀abc".encode()
        i = r.randrange(len(t) + 1)
        return t[:i] + r.choice(UTF8_BAD) + t[i:]
    return r.choice(UTF8_BAD) + b"x"


def opn(x):
    return bytes([0x50 + x]) if 1 <= x <= 16 else (b"\x00" if x == 0 else b"\x01\x11")


def tmpl(r):
    k = r.randrange(16)
    if k == 0:
        return "p2pkh", b"\x76\xa9" + push(r, rb(r, r.choice([20, 20, 20, 19, 21, 1]))) + b"\x88\xac"
    if k == 1:
        return "p2pk", push(r, rb(r, r.choice([33, 65, 33, 65, 32, 64, 1]))) + b"\xac"
    if k == 2:
        return "p2sh", b"\xa9" + push(r, rb(r, r.choice([20, 20, 19, 32]))) + b"\x87"
    if k == 3:
        return "opreturn", b"\x6a" + push(r, payload(r))
    if k == 4:
        return "opreturn+", b"\x6a" + push(r, payload(r)) + r.choice([b"", b"\x51", push(r, rb(r, 3)), b"\x61"])
    if k == 5:
        m = r.randrange(0, 18)
        n = r.randrange(0, 18)
        nn = r.choice([n, n, n, r.randrange(0, 18)])
        return "multisig", opn(m) + b"".join(push(r, rb(r, r.choice([33, 65, 33, 1, 0]))) for _ in range(n)) + r.choice([opn(nn), opn(nn), b"\x76", b""]) + r.choice([b"\xae", b"\xae", b"\xaf", b"\xae\x61"])
    if k == 6:
        return "witness", bytes([r.choice([0] + list(range(0x51, 0x61)) + [0x4f, 0x50, 0x61])]) + push(r, rb(r, r.choice([2, 20, 32, 40, 1, 41, 33])), "d" if r.random() < 0.9 else None)
    if k == 7:
        return "witness-raw", b"\x00" + bytes([r.randrange(0, 45)]) + rb(r, r.randrange(0, 45))
    if k == 8:
        return "lead-opcode", bytes([r.randrange(256)]) + rb(r, r.randrange(0, 6))
    if k == 9:
        return "multisig-2of3", b"\x52" + push(r, rb(r, 33)) + push(r, rb(r, 33)) + push(r, rb(r, 33)) + b"\x53\xae"
    if k == 10:
        return "many-pushes", b"\x51" + b"\x01\x00" * r.choice([16, 17, 19, 20, 255, 256, 257, 300]) + r.choice([b"\x60", b"\x51"]) + b"\xae"
    if k == 11:
        return "trunc-push", r.choice([b"\x4c", b"\x4d", b"\x4e", b"\x4c\x05ab", b"\x4d\x05", b"\x4d\x05\x00ab", b"\x4e\xff\xff\xff\xff", b"\x4e\x01\x00\x00", b"\x4b" + rb(r, 10), b"\x6a\x4c", b"\x6a\x4d\x01", b"\x6a\x4e\x01\x00\x00", b"\x6a\x4c\x05abcd"])
    if k == 12:
        return "tokens", b"".join(r.choice([bytes([r.randrange(0x4f, 0x100)]), push(r, rb(r, r.randrange(0, 5))), b"\x61", b"\xb1"]) for _ in range(r.randrange(0, 8)))
    if k == 13:
        # OP_RETURN with each explicit push form (C16: 76..80 bytes need PUSHDATA1)
        d = payload(r)
        return "opreturn-forms", b"\x6a" + r.choice(push_forms(d))
    if k == 14:
        return "opreturn-multi", b"\x6a" + b"".join(push(r, payload(r)[:r.randrange(1, 30)]) for _ in range(r.randrange(2, 4)))
    return "random", rb(r, r.randrange(0, 40))


def mutate(r, s):
    if not s:
        return s
    k = r.randrange(6)
    i = r.randrange(len(s))
    if k == 0:
        return s[:i] + bytes([s[i] ^ (1 << r.randrange(8))]) + s[i + 1:]
    if k == 1:
        return s[:i]
    if k == 2:
        return s + bytes([r.randrange(256)])
    if k == 3:
        return s[:i] + r.choice([b"\x61", b"\xb0", b"\xb9", b"\xb1"]) + s[i:]
    if k == 4:
        return s[:i] + s[i + 1:]
    return s[:i] + bytes([r.randrange(256)]) + s[i + 1:]


def bulk(r, n, mut=0.35):
    for _ in range(n):
        fam, s = tmpl(r)
        if r.random() < mut:
            s = mutate(r, s)
            fam += "~"
        yield fam, s


def canonical_templates(r):
    h20, h32 = rb(r, 20), rb(r, 32)
    k33, k65 = b"\x02" + rb(r, 32), b"\x04" + rb(r, 64)
    return [
        ("p2pkh", b"\x76\xa9\x14" + h20 + b"\x88\xac"),
        ("p2sh", b"\xa9\x14" + h20 + b"\x87"),
        ("p2pk33", b"\x21" + k33 + b"\xac"),
        ("p2pk65", b"\x41" + k65 + b"\xac"),
        ("p2wpkh", b"\x00\x14" + h20),
        ("p2wsh", b"\x00\x20" + h32),
        ("p2tr", b"\x51\x20" + h32),
        ("wp-v2", b"\x52\x10" + rb(r, 16)),
        ("opreturn", b"\x6a\x0bhello world"),
        ("multisig-1of2", b"\x51\x21" + k33 + b"\x21" + k33 + b"\x52\xae"),
        ("multisig-2of3", b"\x52\x21" + k33 + b"\x21" + k33 + b"\x21" + k33 + b"\x53\xae"),
    ]


# secp256k1 (only to make VALID public keys: a key parser that normalises keys behaves differently on valid points)
_P = 2**256 - 2**32 - 977
_G = (0x79BE667EF9DCBBAC55A06295CE870B07029BFCDB2DCE28D959F2815B16F81798, 0x483ADA7726A3C4655DA4FBFC0E1108A8FD17B448A68554199C47D08FFB10D4B8)


def _ec_add(a, b):
    if a is None:
        return b
    if b is None:
        return a
    if a[0] == b[0] and (a[1] + b[1]) % _P == 0:
        return None
    if a == b:
        lam = 3 * a[0] * a[0] * pow(2 * a[1], -1, _P) % _P
    else:
        lam = (b[1] - a[1]) * pow(b[0] - a[0], -1, _P) % _P
    x = (lam * lam - a[0] - b[0]) % _P
    return (x, (lam * (a[0] - x) - a[1]) % _P)


def ec_point(k):
    acc, q = None, _G
    while k:
        if k & 1:
            acc = _ec_add(acc, q)
        q = _ec_add(q, q)
        k >>= 1
    return acc


def curve_keys(r, n=6):
    """valid secp256k1 public keys in every encoding a script may carry: compressed (02/03), uncompressed (04), hybrid (06/07, with the
    right and with the wrong parity), plus the same x with a y that is off the curve"""
    out = []
    for k in [1, 2, 3] + [r.randrange(1, 2**200) for _ in range(n)]:
        x, y = ec_point(k)
        xb, yb = x.to_bytes(32, "big"), y.to_bytes(32, "big")
        out += [("compressed", bytes([2 + (y & 1)]) + xb), ("compressed-wrong-parity", bytes([3 - (y & 1)]) + xb), ("uncompressed", b"\x04" + xb + yb),
                ("hybrid", bytes([6 + (y & 1)]) + xb + yb), ("hybrid-wrong-parity", bytes([7 - (y & 1)]) + xb + yb), ("off-curve", b"\x04" + xb + ((y + 1) % _P).to_bytes(32, "big")),
                ("hybrid-off-curve", b"\x06" + xb + ((y + 2) % _P).to_bytes(32, "big"))]
    return out


# scripts with a published meaning, where a constant table or a special case may have crept in (both networks see each one)
WELL_KNOWN = [
    ("p2a-anchor", bytes.fromhex("51024e73")),
    ("p2a-near", bytes.fromhex("51024e74")),
    ("burn-p2pkh-zero", b"\x76\xa9\x14" + b"\x00" * 20 + b"\x88\xac"),
    ("burn-p2sh-zero", b"\xa9\x14" + b"\x00" * 20 + b"\x87"),
    ("p2wpkh-zero", b"\x00\x14" + b"\x00" * 20),
    ("p2wsh-ones", b"\x00\x20" + b"\xff" * 32),
    ("p2tr-zero", b"\x51\x20" + b"\x00" * 32),
    ("v16-max", b"\x60\x28" + b"\xab" * 40),
    ("op-true", b"\x51"),
    ("genesis-p2pk", b"\x41" + bytes.fromhex("04678afdb0fe5548271967f1a67130b7105cd6a828e03909a67962e0ea1f61deb649f6bc3f4cef38c4f35504e51ec112de5c384df7ba0b8d578a4c702b6bf11d5f") + b"\xac"),
    ("witness-commitment", b"\x6a\x24\xaa\x21\xa9\xed" + b"\x11" * 32),
]


def idiom_prefixes(r):
    p = lambda n: push(r, rb(r, n), "d")
    return [
        ("name_new", b"\x51" + p(20) + b"\x6d"),
        ("name_firstupdate", b"\x52" + p(5) + p(8) + p(10) + b"\x6d\x6d"),
        ("name_update", b"\x53" + p(5) + p(10) + b"\x6d\x75"),
        ("name_new-noop", b"\x51" + p(20) + b"\x61\x6d"),
        ("cltv", b"\x03" + (500000).to_bytes(3, "little") + b"\xb1\x75"),
        ("csv", b"\x52\xb2\x75"),
        ("push-drop", p(4) + b"\x75"),
        ("dup-drop", b"\x76\x75"),
        ("if", b"\x63"),
        ("true-verify", b"\x51\x69"),
        ("codesep", b"\xab"),
        ("depth-drop", b"\x74\x75"),
        ("op1", b"\x51"),
        ("2drop", b"\x6d"),
    ]


def one_byte_neighbourhood(r, s, exhaustive):
    """truncations, one-byte extensions and one-byte substitutions of s"""
    for i in range(len(s)):
        yield s[:i]
    exts = range(256) if exhaustive else [r.randrange(256) for _ in range(8)] + [0x00, 0x61, 0xac, 0xae]
    for b in exts:
        yield s + bytes([b])
        yield bytes([b]) + s
    for i in range(len(s)):
        vals = range(256) if exhaustive else [r.randrange(256) for _ in range(3)] + [s[i] ^ 1, (s[i] + 1) & 255, 0, 0x61]
        for v in vals:
            if v != s[i]:
                yield s[:i] + bytes([v]) + s[i + 1:]


def boundary(r, exhaustive=False):
    """families that are always on"""
    for name, s in canonical_templates(r):
        yield "tmpl:" + name, s
        for m in one_byte_neighbourhood(r, s, exhaustive):
            yield "nbhd:" + name, m
    # all 256 leading opcodes x a few tails
    for b in range(256):
        for tail in (b"", b"\x00", rb(r, 20), b"\x14" + rb(r, 20), push(r, rb(r, 33)) + b"\xac", b"\x05hello", b"\x4c\x03abc"):
            yield "lead256", bytes([b]) + tail
    # witness versions x program lengths
    for v in [0] + list(range(0x51, 0x61)) + [0x4f, 0x50, 0x61]:
        for ln in range(0, 43):
            yield "witness-grid", bytes([v, ln]) + rb(r, ln)
            if ln in (2, 20, 32, 40):
                yield "witness-grid-off", bytes([v, ln]) + rb(r, ln + 1)
                yield "witness-grid-off", bytes([v, ln]) + rb(r, ln - 1)
    # m-of-n grid
    for m in range(0, 18):
        for n in range(0, 18):
            keys = b"".join(b"\x21" + b"\x02" + rb(r, 32) for _ in range(n))
            yield "mn-grid", opn(m) + keys + opn(n) + b"\xae"
            if n <= 3:
                yield "mn-grid-wrong-n", opn(m) + keys + opn(n + 1) + b"\xae"
                yield "mn-grid-nonpushnum-n", opn(m) + keys + b"\x76\xae"
                yield "mn-grid-noop", opn(m) + keys + opn(n) + b"\x61\xae"
    # m or n written as a DATA PUSH of the number instead of the opcode OP_m / OP_n (01 02, 02 03 00, 4c 01 02): not a multisig
    for m in (1, 2, 3, 16):
        for n in (1, 2, 3, 16):
            if m > n and n != 1:
                continue
            keys = b"".join(b"\x21" + b"\x02" + rb(r, 32) for _ in range(n))
            for enc in (lambda v: bytes([1, v]), lambda v: bytes([2, v, 0]), lambda v: bytes([0x4c, 1, v])):
                yield "mn-pushnum-m", enc(m) + keys + opn(n) + b"\xae"
                yield "mn-pushnum-n", opn(m) + keys + enc(n) + b"\xae"
                yield "mn-pushnum-both", enc(m) + keys + enc(n) + b"\xae"
    # push forms in every template slot (fork coins: any non-empty push is data)
    h20 = rb(r, 20)
    for pf in push_forms(h20):
        yield "slot-forms", b"\x76\xa9" + pf + b"\x88\xac"
        yield "slot-forms", b"\xa9" + pf + b"\x87"
        yield "slot-forms", pf + b"\xac"
        yield "slot-forms", b"\x6a" + pf
    for pf in push_forms(b""):
        yield "empty-push", b"\x76\xa9" + pf + b"\x88\xac"
        yield "empty-push", b"\x6a" + pf
        yield "empty-push", pf + b"\xac"
    for ln in (75, 76, 77, 80, 255, 256, 65535, 65536):
        d = bytes(0x41 + (i % 26) for i in range(ln))
        for pf in push_forms(d):
            yield "opreturn-len", b"\x6a" + pf
    # NOP insertion at every position of the fork templates
    base = [b"\x76", b"\xa9", b"\x14" + h20, b"\x88", b"\xac"]
    for i in range(len(base) + 1):
        for nop in (b"\x61", b"\xb0", b"\xb1", b"\xb9"):
            yield "nop-insert", b"".join(base[:i]) + nop + b"".join(base[i:])
    # truncated pushes of each width
    for w, op in ((1, 0x4c), (2, 0x4d), (4, 0x4e)):
        for have in range(0, w + 1):
            yield "trunc-len", bytes([op]) + b"\x05\x00\x00\x00"[:have]
            yield "trunc-len", b"\x6a" + bytes([op]) + b"\x05\x00\x00\x00"[:have]
        for dl in range(0, 6):
            yield "trunc-data", bytes([op]) + (5).to_bytes(w, "little") + b"abcde"[:dl]
            yield "trunc-data", b"\x6a" + bytes([op]) + (5).to_bytes(w, "little") + b"abcde"[:dl]
    # keys that ARE points of the curve, in every encoding, as P2PK and inside bare multisig; and scripts with a published meaning
    for kname, key in curve_keys(r, 4 if not exhaustive else 12):
        yield "curve-key:" + kname, bytes([len(key)]) + key + b"\xac"
        yield "curve-key-multisig:" + kname, b"\x51" + bytes([len(key)]) + key + b"\x51\xae"
    for wname, s in WELL_KNOWN:
        yield "well-known:" + wname, s
    # templates embedded in larger programs: script idioms of Bitcoin-family coins (Namecoin name operations, CLTV/CSV guards,
    # drops, conditionals) before a complete template, extra tokens after it, two templates back to back.  None of these
    # token sequences IS a template, so none may be typed as one
    for iname, pre in idiom_prefixes(r):
        for tname, s in canonical_templates(r):
            yield "idiom:%s+%s" % (iname, tname), pre + s
    # an idiom with nothing (or not enough) after it: the prefix alone, every truncation of prefix + pay-to-pubkey-hash, the prefix
    # followed by one more opcode — code that strips a recognised prefix must cope with there being nothing left to strip it from
    for iname, pre in idiom_prefixes(r):
        yield "idiom:alone:" + iname, pre
        full = pre + canonical_templates(r)[0][1]
        for cut in range(1, len(full)):
            yield "idiom:cut:" + iname, full[:cut]
        for op in (b"\x6d", b"\x75", b"\x61", b"\x51", b"\xac", b"\x6a"):
            yield "idiom:plus-op:" + iname, pre + op
    for tname, s in canonical_templates(r):
        for suf in (b"\x75", b"\x51", b"\x68", b"\x01\x07\x75", b"\x6a", b"\xac", b"\x87", b"\x88\xac",
                    b"\x05ab", b"\x01", b"\x4b" + b"z" * 10, b"\x4c", b"\x4c\x05a", b"\x4d\x01", b"\x4d\x05\x00ab", b"\x4e", b"\x4e\x01\x00\x00"):   # incl. pushes that run past the end
            yield "suffix:" + tname, s + suf
        yield "wrapped:" + tname, b"\x63" + s + b"\x68"
        for tname2, s2 in canonical_templates(r)[:4]:
            yield "twice:" + tname, s + s2
    yield "huge-len", b"\x4e\xff\xff\xff\xff" + rb(r, 10)
    yield "huge-len", b"\x4e\xff\xff\xff\x7f"
    yield "huge-len", b"\x6a\x4e\xfe\xff\xff\xff" + rb(r, 3)
    yield "empty", b""


def stress(r, big):
    """C14: long scripts and many pushes"""
    for k in ([1, 15, 16, 17, 18, 19, 20, 21, 255, 256, 257, 1000, 5000] if big else [19, 20, 255, 256, 257, 1000]):
        yield "pushes-%d" % k, b"\x51" + b"\x01\x00" * k + b"\x60\xae"
        yield "pushes-%d" % k, b"\x51" + b"\x21" * 0 + (b"\x01\x07" * k) + b"\x51\xae"
        yield "pushes-%d" % k, b"\x00" * k
        yield "pushes-%d" % k, b"\x6a" + b"\x01\x41" * k
    for ln in ([1000, 10000, 100000] if big else [1000, 10000]):
        yield "long-random", rb(r, ln)
        yield "long-opreturn", b"\x6a" + b"\x4e" + struct.pack("<I", ln) + rb(r, ln)
        yield "long-opreturn-bad", b"\x6a" + b"\x4d" + struct.pack("<H", min(ln, 65535)) + b"\xff" * min(ln, 65535)
        yield "long-nops", b"\x61" * ln
        yield "long-p2pkh-tail", b"\x76\xa9\x14" + rb(r, 20) + b"\x88\xac" + rb(r, ln)


def hexs(b):
    return b.hex() if b else "-"
