"""Abstract chains, their byte encoders, data-directory writer, scenario files and the black-box runner."""
import hashlib, os, re, resource, struct, subprocess, tempfile
from . import common as C

COINS = ["bitcoin", "testnet3", "namecoin", "litecoin", "dogecoin", "myriadcoin", "unobtanium", "noteblockchain"]
MAGIC = {"bitcoin": 0xd9b4bef9, "testnet3": 0x0709110b, "namecoin": 0xfeb4bef9, "litecoin": 0xdbb6c0fb, "dogecoin": 0xc0c0c0c0,
         "myriadcoin": 0xee7645af, "unobtanium": 0x03b5d503, "noteblockchain": 0xe3ede5f4}
VERSION = {"bitcoin": 0x00, "testnet3": 0x6f, "namecoin": 0x34, "litecoin": 0x30, "dogecoin": 0x1e, "myriadcoin": 0x32, "unobtanium": 0x82, "noteblockchain": 0x35}
AUXPOW = {"namecoin": 0x10101, "dogecoin": 0x620102}

# block status bits of Bitcoin Core's block index
VALID_HEADER, VALID_TREE, VALID_TRANSACTIONS, VALID_CHAIN, VALID_SCRIPTS = 1, 2, 3, 4, 5
HAVE_DATA, HAVE_UNDO, FAILED_VALID, FAILED_CHILD, OPT_WITNESS = 8, 16, 32, 64, 128
ACTIVE = VALID_SCRIPTS | HAVE_DATA | HAVE_UNDO


def dsha(b):
    return hashlib.sha256(hashlib.sha256(b).digest()).digest()


def cs(n, width=None):
    """CompactSize; width in {1,3,5,9} forces a (possibly non-minimal) encoding"""
    if width is None:
        width = 1 if n < 0xfd else 3 if n <= 0xffff else 5 if n <= 0xffffffff else 9
    if width == 1:
        assert n < 0xfd
        return bytes([n])
    if width == 3:
        return b"\xfd" + struct.pack("<H", n)
    if width == 5:
        return b"\xfe" + struct.pack("<I", n)
    return b"\xff" + struct.pack("<Q", n)


def varint(n):
    """Bitcoin Core VarInt (MSB base-128 with the +1 carry)"""
    tmp = []
    l = 0
    while True:
        tmp.append((n & 0x7f) | (0x80 if l else 0))
        if n <= 0x7f:
            break
        n = (n >> 7) - 1
        l += 1
    return bytes(reversed(tmp))


def merkle(hs):
    hs = list(hs)
    if not hs:
        return b"\0" * 32
    while len(hs) > 1:
        if len(hs) % 2:
            hs.append(hs[-1])
        hs = [dsha(hs[i] + hs[i + 1]) for i in range(0, len(hs), 2)]
    return hs[0]


class Tx:
    def __init__(self, ins, outs, version=1, lock=0, segwit=None, w_in=None, w_out=None, w_script=None):
        """ins: [(prev32, idx, script, seq)], outs: [(value, script)], segwit: None | (marker_width, flag, [[item bytes]] per input)"""
        self.ins, self.outs, self.version, self.lock, self.segwit = ins, outs, version, lock, segwit
        self.w_in, self.w_out, self.w_script = w_in, w_out, w_script or {}

    def body(self):
        b = cs(len(self.ins), self.w_in)
        for k, (h, i, s, q) in enumerate(self.ins):
            b += h + struct.pack("<I", i) + cs(len(s), self.w_script.get(("i", k))) + s + struct.pack("<I", q)
        b += cs(len(self.outs), self.w_out)
        for k, (v, s) in enumerate(self.outs):
            b += struct.pack("<Q", v) + cs(len(s), self.w_script.get(("o", k))) + s
        return b

    def stripped(self):
        return struct.pack("<I", self.version) + self.body() + struct.pack("<I", self.lock)

    def enc(self):
        if self.segwit is None:
            return self.stripped()
        mw, flag, stacks = self.segwit
        b = struct.pack("<I", self.version) + cs(0, mw) + bytes([flag]) + self.body()
        if flag & 1:
            for st in stacks:
                b += cs(len(st))
                for it in st:
                    b += cs(len(it)) + it
        return b + struct.pack("<I", self.lock)

    def txid(self):
        return dsha(self.stripped())


class Block:
    def __init__(self, txs, prev=b"\0" * 32, version=1, time=1231006505, bits=0x1d00ffff, nonce=0, merkle_root=None, auxpow=None, w_txs=None):
        self.txs, self.prev, self.version, self.time, self.bits, self.nonce = txs, prev, version, time, bits, nonce
        self.merkle_root, self.auxpow, self.w_txs = merkle_root, auxpow, w_txs

    def mroot(self):
        return self.merkle_root if self.merkle_root is not None else merkle([t.txid() for t in self.txs])

    def header(self):
        return struct.pack("<I", self.version) + self.prev + self.mroot() + struct.pack("<III", self.time, self.bits, self.nonce)

    def hash(self):
        return dsha(self.header())

    def enc(self):
        return self.header() + (self.auxpow or b"") + cs(len(self.txs), self.w_txs) + b"".join(t.enc() for t in self.txs)


def auxpow_section(rnd, coinbase=None, nbranch1=None, nbranch2=None, parent_version=None):
    cb = coinbase or Tx([(b"\0" * 32, 0xffffffff, bytes(rnd.randrange(256) for _ in range(rnd.randrange(2, 60))), 0xffffffff)], [(rnd.randrange(1 << 40), b"\x51")])
    n1 = rnd.randrange(0, 12) if nbranch1 is None else nbranch1
    n2 = rnd.randrange(0, 6) if nbranch2 is None else nbranch2
    rb = lambda n: bytes(rnd.randrange(256) for _ in range(n))
    b = cb.enc() + rb(32)
    b += cs(n1) + rb(32 * n1) + struct.pack("<I", rnd.randrange(1 << 32))
    b += cs(n2) + rb(32 * n2) + struct.pack("<I", rnd.randrange(1 << 32))
    b += rb(80) if parent_version is None else struct.pack("<I", parent_version & 0xffffffff) + rb(76)
    return b


# version of the node that wrote a record (nothing the parser reads depends on it): old, current, and either side of the release that
# introduced xor.dat
CLIENTS = [259900, 70001, 99900, 159900, 209900, 259900, 270000, 279999, 280000, 280100, 290000, 300000, (1 << 31) - 1]


def record(block_hash, height, status, ntx, file_no, off, header, undo=0, client=None):
    if client is None:
        client = CLIENTS[(block_hash[0] ^ block_hash[5]) % len(CLIENTS)]
    v = varint(client) + varint(height) + varint(status) + varint(ntx)
    if status & (HAVE_DATA | HAVE_UNDO):
        v += varint(file_no)
    if status & HAVE_DATA:
        v += varint(off)
    if status & HAVE_UNDO:
        v += varint(undo)
    return (b"b" + block_hash, v + header)


def hx(b):
    return b.hex() if b else "-"


def blkname(n, pad=5):
    return "blk%0*d.dat" % (pad, n)


TIMEOUTS = []
MODEL_TIMEOUT = int(os.environ.get("RBPV_MODEL_TIMEOUT", "1500"))   # seconds for one `rbp-model run` request stream

LOG_RE = re.compile(rb"^\[\d\d:\d\d:\d\d\] (INFO|DEBUG|TRACE|WARN|ERROR) - (\w+): (.*)$")


class _Done:
    def __init__(self, rc, out, err):
        self.returncode, self.stdout, self.stderr = rc, out, err


_OTHER_FS = []


def other_filesystem():
    """a writable directory on another filesystem than the scratch area (and the default temp dir), or None"""
    if not _OTHER_FS:
        here = os.stat(os.environ.get("RBPV_TMP", "/tmp")).st_dev
        found = None
        for cand in ("/dev/shm", "/run/shm", C.CACHE, "/var/tmp"):
            try:
                if os.path.isdir(cand) and os.access(cand, os.W_OK) and os.stat(cand).st_dev != here:
                    found = cand
                    break
            except OSError:
                pass
        _OTHER_FS.append(found)
    return _OTHER_FS[0]


def _spawn(cmd, env, preexec, cwd, tty):
    """starts the binary; with `tty`, stdout is a pseudo-terminal in raw mode (no newline translation) read by a pump thread, stderr
    stays a pipe.  Returns (process, collect) where collect(timeout) -> (stdout bytes, stderr bytes) or raises TimeoutExpired"""
    if not tty:
        pr = subprocess.Popen(cmd, stdout=subprocess.PIPE, stderr=subprocess.PIPE, env=env, preexec_fn=preexec, cwd=cwd)
        return pr, lambda timeout: pr.communicate(timeout=timeout)
    import pty, threading, tty as _tty
    master, slave = pty.openpty()
    _tty.setraw(slave)
    pr = subprocess.Popen(cmd, stdout=slave, stderr=subprocess.PIPE, env=env, preexec_fn=preexec, cwd=cwd)
    os.close(slave)
    chunks = []
    def pump():
        while True:
            try:
                b = os.read(master, 65536)
            except OSError:
                break
            if not b:
                break
            chunks.append(b)
    t = threading.Thread(target=pump, daemon=True)
    t.start()
    def collect(timeout):
        try:
            _, err = pr.communicate(timeout=timeout)
        except subprocess.TimeoutExpired:
            raise
        t.join(5)
        try:
            os.close(master)
        except OSError:
            pass
        return b"".join(chunks), err
    return pr, collect


def _run_watch(cmd, env, preexec, timeout, dump, cwd=None, tty=False, restore=None):
    """runs the binary; if it is still alive after `stall` seconds its thread stacks are dumped with gdb (diagnostics of a
    rare stall seen during development), it is killed and the run is repeated once"""
    import time as _t
    for attempt in (1, 2):
        pr, collect = _spawn(cmd, env, preexec, cwd, tty)
        try:
            out, err = collect(min(timeout, 25) if attempt == 1 else timeout)
            return _Done(pr.returncode, out, err)
        except subprocess.TimeoutExpired:
            note = os.path.join(C.CACHE, "stall-%d-%d.txt" % (os.getpid(), int(_t.time())))
            try:
                g = subprocess.run(["gdb", "-p", str(pr.pid), "-batch", "-ex", "thread apply all bt 25"], stdout=subprocess.PIPE, stderr=subprocess.STDOUT, timeout=60)
                with open(note, "wb") as f:
                    f.write((" ".join(cmd) + "\n").encode() + g.stdout)
            except Exception:
                pass
            pr.kill()
            pr.communicate()
            TIMEOUTS.append(" ".join(cmd) + " -> " + note)
            for n in os.listdir(dump):
                os.unlink(os.path.join(dump, n))
            if restore:
                restore()
            if attempt == 2:
                # the implementation does not terminate on this input: an outcome of the run (reported as exit status -24,
                # "timed out"), not a failure of the harness
                return _Done(-24, b"", b"TIMEOUT: the run was still alive after %d s and was killed" % timeout)


class Result:
    def __init__(self):
        self.exit = None
        self.stdout = b""
        self.stderr = b""
        self.files = {}       # name -> bytes (dump folder after the run)

    def err_height(self):
        m = re.search(rb"Error at height (\d+)", self.stderr)
        return int(m.group(1)) if m else None

    def final_files(self):
        return {n: b for n, b in self.files.items() if n.endswith(".csv")}

    def tmp_files(self):
        return {n: b for n, b in self.files.items() if n.endswith(".tmp")}

    def rows(self, name):
        return self.files[name].decode(errors="replace").splitlines()

    def plain_stdout(self):
        """stdout with the logger's lines removed (opreturn output)"""
        return b"".join(l for l in self.stdout.splitlines(keepends=True) if not LOG_RE.match(l.rstrip(b"\n")))

    def processed_up_to(self):
        m = re.search(rb"Processed blocks up to height (\d+)", self.stdout)
        return int(m.group(1)) if m else None

    def totals(self):
        m = re.search(rb"-> transactions:\s+(\d+)\s+-> inputs:\s+(\d+)\s+-> outputs:\s+(\d+)", self.stdout)
        return tuple(int(x) for x in m.groups()) if m else None

    def events(self):
        ev = []
        for l in self.stdout.splitlines():
            m = re.search(rb"blkfile: (Opening|Closing) .*?blk(\d+)\.dat", l)
            if m:
                ev.append(("open" if m.group(1) == b"Opening" else "close", int(m.group(2))))
        return ev

    def stats(self):
        """parses the simplestats report into {key: value-string} + type table"""
        txt = self.stdout.decode(errors="replace")
        i = txt.find("SimpleStats:")
        if i < 0:
            return None
        txt = txt[i:]
        d = {}
        def grab(key, pat):
            m = re.search(pat, txt)
            d[key] = m.groups() if m else None
        grab("blocks", r"valid blocks:\s+(\d+)")
        grab("txs", r"total transactions:\s+(\d+)")
        grab("ins", r"total tx inputs:\s+(\d+)")
        grab("outs", r"total tx outputs:\s+(\d+)")
        grab("fees", r"total tx fees:\s+(\S+) \((\d+) units\)")
        grab("volume", r"total volume:\s+(\S+) \((\d+) units\)")
        grab("bigval", r"biggest value tx:\s+(\S+) \((\d+) units\)\s+seen in block #(\d+), txid: (\w+)")
        grab("bigsize", r"biggest size tx:\s+(\d+) bytes\s+seen in block #(\d+), txid: (\w+)")
        grab("avg_size", r"avg block size:\s+(\S+) KiB")
        grab("avg_time", r"avg time between blocks:\s+(\S+) \(minutes\)")
        grab("avg_txs", r"avg txs per block:\s+(\S+)")
        grab("avg_ins", r"avg inputs per tx:\s+(\S+)")
        grab("avg_outs", r"avg outputs per tx:\s+(\S+)")
        grab("avg_value", r"avg value per output:\s+(\S+)")
        types = {}
        for m in re.finditer(r"-> (\w+)(\(.*?\))?: (\d+) \((\S+)%\)\s+first seen in block #(\d+), txid: (\w+)", txt[txt.find("Transaction Types:"):] if "Transaction Types:" in txt else ""):
            types[m.group(1) + (m.group(2) or "")] = (int(m.group(3)), m.group(4), int(m.group(5)), m.group(6))
        d["types"] = types
        return d


class Scenario:
    """A data directory (index kv pairs, blk files with sparse segments, optional xor key) plus the options of one run."""

    def __init__(self, coin="bitcoin", callback="csvdump", start=0, stop=None, verify=False):
        self.coin, self.callback, self.start, self.stop, self.verify = coin, callback, start, stop, verify
        self.xorkey = None
        self.kvs = []          # (key bytes, value bytes)
        self.files = {}        # name -> {"size": n, "segs": [(off, plaintext bytes)]}
        self.extra_files = {}  # other directory entries: name -> bytes
        self.verbose = 0
        self.threads = None
        self.meta = {}
        self.block_at = set()  # (file name, offset) of every magic|size|block triple placed
        # circumstances of the run that no property lets the outcome depend on (see bb.ENV_KINDS): "links" (blk files are absolute
        # symlinks into a sibling directory), "cwd" (started elsewhere, dump folder given as a relative path), "slash" (paths end
        # in '/'), "tty" (stdout is a pseudo-terminal), "shm" (dump folder on another filesystem than the temp dir), "leftovers"
        # ({name: bytes} already in the dump folder), "environ" (extra environment variables)
        self.env = {}

    # --- building ---------------------------------------------------------------------------
    def add_file(self, name, size=None):
        self.files.setdefault(name, {"size": size or 0, "segs": []})

    def put(self, name, off, data):
        f = self.files.setdefault(name, {"size": 0, "segs": []})
        f["segs"].append((off, data))
        f["size"] = max(f["size"], off + len(data))

    def place_block(self, name, pos, blk_bytes, magic=None, size_field=None):
        """writes magic, size, block at `pos`; returns the data offset the index must name"""
        m = struct.pack("<I", magic if magic is not None else MAGIC[self.coin])
        sz = struct.pack("<I", len(blk_bytes) if size_field is None else size_field)
        self.put(name, pos, m + sz + blk_bytes)
        self.block_at.add((name, pos))
        return pos + 8

    def options(self, d=None):
        sp = self.env.get("spelling")
        if sp:
            return self._spelt(d, sp)
        o = ["-d", d, "-c", self.coin]
        if self.start:
            o += ["-s", str(self.start)]
        if self.stop is not None:
            o += ["-e", str(self.stop)]
        if self.verify:
            o += ["--verify"]
        o += ["-v"] * self.verbose
        return o

    def _spelt(self, d, seed):
        """the same options in another of the spellings the command line accepts: long names, `--name=value`, attached short values
        (`-s5`), any order, numbers with a sign or leading zeros (`u64::from_str` takes both), an explicit `-s 0`, the default coin
        left out, `-vv` in one word"""
        import random
        r = random.Random(seed)
        def opt(short, long_, val):
            k = r.randrange(4)
            return [[short, val], [long_, val], [long_ + "=" + val], [short + val]][k]
        def num(n):
            return r.choice([str(n), "+%d" % n, "00%d" % n, str(n)])
        groups = [opt("-d", "--blockchain-dir", d)]
        if self.coin != "bitcoin" or r.random() < 0.5:
            groups.append(opt("-c", "--coin", self.coin))
        if self.start or r.random() < 0.5:
            groups.append(opt("-s", "--start", num(self.start)))
        if self.stop is not None:
            groups.append(opt("-e", "--end", num(self.stop)))
        if self.verify:
            groups.append(["--verify"])
        if self.verbose:
            groups += [["-" + "v" * self.verbose]] if r.random() < 0.5 else [["-v"]] * self.verbose
        r.shuffle(groups)
        return [x for g in groups for x in g]

    # --- model side -------------------------------------------------------------------------
    def model_lines(self):
        L = ["opts %s %d %d %s %s" % (self.coin, 1 if self.verify else 0, self.start, "-" if self.stop is None else self.stop, self.callback)]
        L.append("xorkey %s" % ("none" if self.xorkey is None else hx(self.xorkey)))
        if getattr(self, "want_fstrace", False):
            L.append("fstrace")
        for k, v in self.kvs:
            L.append("kv %s %s" % (hx(k), hx(v)))
        for name, f in self.files.items():
            L.append("file %s %d" % (name, f["size"]))
            for off, data in f["segs"]:
                if data:
                    L.append("seg %s %d %s" % (name, off, self._stored(off, data).hex()))
        L.append("end")
        return L

    def _stored(self, off, data):
        if self.xorkey is None or len(self.xorkey) == 0:
            return data
        k = self.xorkey
        n = len(k)
        return bytes(b ^ k[(off + i) % n] for i, b in enumerate(data))

    # --- implementation side ----------------------------------------------------------------
    def write_dir(self, d):
        os.makedirs(d, exist_ok=True)
        store = d
        if self.env.get("links"):
            # the layout `resolve_path` exists for: the files live elsewhere and the blocks directory holds absolute symlinks to them
            store = os.path.join(os.path.dirname(os.path.abspath(d)), "archive-of-older-block-files")
            os.makedirs(store, exist_ok=True)
            for k, name in enumerate(sorted(self.files)):
                if self.env["links"] == "all" or k % 2 == 0:
                    os.symlink(os.path.join(store, name), os.path.join(d, name))
        for name, f in self.files.items():
            with open(os.path.join(store if os.path.islink(os.path.join(d, name)) else d, name), "wb") as fh:
                for off, data in f["segs"]:
                    fh.seek(off)
                    fh.write(self._stored(off, data))
                fh.truncate(f["size"])
        for name, data in self.extra_files.items():
            with open(os.path.join(d, name), "wb") as fh:
                fh.write(data)
        if self.xorkey is not None:
            with open(os.path.join(d, "xor.dat"), "wb") as fh:
                fh.write(self.xorkey)
        lines = "\n".join("%s %s" % (hx(k), hx(v)) for k, v in self.kvs) + "\n"
        C.run([C.IMPL, "verif-hook", "mkindex", os.path.join(d, "index")], input=lines, check=True,
              env=({"RBP_MKINDEX_WRITE_BUFFER": str(self.index_write_buffer)} if getattr(self, "index_write_buffer", None) else None))

    def run_impl(self, datadir=None, dump=None, keep=False, env=None, preexec=None, wrapper=None, timeout=60):
        own = datadir is None
        base = C.scratch() if own else None
        d = datadir or os.path.join(base, "data")
        if own:
            self.write_dir(d)
        own_dump = None
        if dump is None:
            if base is None:
                own_dump = C.scratch()
            dump = os.path.join(base or own_dump, "dump")
        shm = None
        if self.env.get("shm") and other_filesystem():
            shm = tempfile.mkdtemp(prefix="rbpv-", dir=other_filesystem())
            dump = os.path.join(shm, "dump")
        os.makedirs(dump, exist_ok=True)
        left = self.env.get("leftovers") or {}
        def put_leftovers():
            for n, data in left.items():
                with open(os.path.join(dump, n), "wb") as fh:
                    fh.write(data)
        put_leftovers()
        dir_arg = d
        dump_arg, cwd = dump, None
        if self.env.get("cwd"):
            # started from another directory; the dump folder (and the data directory) are named relative to it
            cwd = os.path.dirname(os.path.abspath(dump))
            dump_arg = "./" + os.path.basename(dump) if self.env["cwd"] == "dot" else os.path.basename(dump)
            if os.path.dirname(os.path.abspath(d)) == cwd:
                dir_arg = os.path.basename(d)
        if self.env.get("slash"):
            dir_arg, dump_arg = dir_arg + "/", dump_arg + "/"
        o = self.options(dir_arg)
        cmd = [C.IMPL] + o + [self.callback] + ([dump_arg] if self.callback in ("csvdump", "unspentcsvdump", "balances") else [])
        if wrapper:
            cmd = wrapper + cmd
        e = dict(os.environ)
        if self.threads:
            e["RAYON_NUM_THREADS"] = str(self.threads)
        if env:
            e.update(env)
        e.update(self.env.get("environ") or {})
        if self.env.get("nofile"):
            # a soft limit on open descriptors (the properties promise a bounded number of open blk files: a run must fit)
            lim, inner = int(self.env["nofile"]), preexec
            def preexec():
                if inner:
                    inner()
                resource.setrlimit(resource.RLIMIT_NOFILE, (lim, resource.getrlimit(resource.RLIMIT_NOFILE)[1]))
        r = Result()
        try:
            p = _run_watch(cmd, e, preexec, timeout, dump, cwd=cwd, tty=bool(self.env.get("tty")), restore=put_leftovers)
            r.exit, r.stdout, r.stderr = p.returncode, p.stdout, p.stderr
            for n in sorted(os.listdir(dump)):
                with open(os.path.join(dump, n), "rb") as fh:
                    r.files[n] = fh.read()
            # files that were there before the run: reported separately (they must still be there, unchanged), not as this run's output
            r.leftovers_damaged = sorted(n for n, data in left.items() if r.files.get(n) != data)
            for n in left:
                if n not in r.leftovers_damaged:
                    del r.files[n]
        finally:
            if own and not keep:
                C.rmtree(base)
            if own_dump and not keep:
                C.rmtree(own_dump)
            if shm:
                C.rmtree(shm)
        r.cmd = cmd
        return r


def parse_model_outputs(lines):
    """splits the answer stream of `rbp-model run` into one dict per scenario"""
    outs, cur, curfile = [], None, None
    for l in lines:
        if cur is None:
            cur = {"files": {}, "out": [], "ev": []}
        if l == "done":
            outs.append(cur)
            cur, curfile = None, None
            continue
        tag, _, rest = l.partition(" ")
        if tag == "exit":
            cur["exit"] = int(rest)
        elif tag == "errheight":
            cur["errheight"] = None if rest == "-" else int(rest)
        elif tag == "msg":
            cur["msg"] = rest
        elif tag == "delivered":
            cur["delivered"] = [int(x) for x in rest.split()]
        elif tag == "hashes":
            cur["hashes"] = rest.split()
        elif tag == "file":
            name, n = rest.split()
            curfile = name
            cur["files"][name] = []
        elif tag == "row":
            cur["files"][curfile].append(rest)
        elif tag == "out":
            cur["out"].append(rest)
        elif tag == "fstrace":
            cur["fstrace"] = rest.split()
        elif tag == "ev":
            k, f = rest.split()
            cur["ev"].append((k, int(f)))
    return outs


def run_model(scenarios):
    lines = []
    for s in scenarios:
        lines.extend(s.model_lines())
    try:
        p = C.run([C.MODEL, "run"], input="\n".join(lines) + "\n", timeout=MODEL_TIMEOUT)
    except subprocess.TimeoutExpired:
        # a model that does not answer decides nothing: name the scenario instead of waiting for ever (Correction 13)
        slow = None
        for s in scenarios if len(scenarios) > 1 else []:
            try:
                C.run([C.MODEL, "run"], input="\n".join(s.model_lines()) + "\n", timeout=MODEL_TIMEOUT // 4)
            except subprocess.TimeoutExpired:
                slow = s
                break
        s = slow or scenarios[0]
        raise RuntimeError("rbp-model gave no answer within %d s%s: coin=%s callback=%s start=%s stop=%s verify=%s meta=%r blk bytes=%d"
                           % (MODEL_TIMEOUT, "" if slow or len(scenarios) == 1 else " (no single scenario of the chunk is slow by itself; first one shown)", s.coin, s.callback, s.start, s.stop, s.verify, s.meta,
                              sum(len(d) for f in s.files.values() for _o, d in f["segs"])))
    if p.returncode != 0:
        raise RuntimeError("rbp-model run failed: " + p.stderr.decode(errors="replace")[-500:])
    outs = parse_model_outputs(p.stdout.decode(errors="replace").splitlines())
    if len(outs) != len(scenarios):
        raise RuntimeError("rbp-model run: %d answers for %d scenarios" % (len(outs), len(scenarios)))
    return outs
