"""Per-run context: counters for the evidence file, disagreement bookkeeping, hook/model drivers."""
import collections, json, os, random, time
from . import common as C


class Ctx:
    def __init__(self, prop, tier, seed):
        self.prop, self.tier, self.seed = prop, tier, seed
        self.rnd = random.Random(seed)
        self.t0 = time.time()
        self.evaluations = 0
        self.nontrivial = set()          # hashes of distinct non-trivial cases
        self.samples = []
        self.dist = collections.Counter()
        self.traces = 0
        self.disagreements = []          # dicts: family, request, impl, model, in_domain
        self.known_hits = []
        self.notes = []
        self.scale = 1                    # multiplied when the search mode is on
        self.families = collections.Counter()

    def thorough(self):
        return self.tier == "thorough"

    def n(self, quick, thorough):
        return (thorough if self.thorough() else quick) * self.scale

    def sub_rnd(self, tag):
        return random.Random("%d/%s" % (self.seed, tag))

    def add_sample(self, s, cap=6):
        if len(self.samples) < cap:
            self.samples.append(s)

    def mark(self, case_key, nontrivial=True):
        self.evaluations += 1
        if nontrivial:
            self.nontrivial.add(hash(case_key))

    def disagree(self, family, request, impl, model, in_domain=True, extra=None):
        d = {"family": family, "request": request, "impl": impl, "model": model, "in_domain": in_domain}
        if extra:
            d.update(extra)
        self.disagreements.append(d)

    # ---- line-protocol drivers -------------------------------------------------------------
    def hook(self, cmd, lines, extra_args=(), loud=True):
        """answers of the real code, one per request.  No property lets an answer depend on how loud the log is: the requests (a
        sample of 40 000 when there are more) are answered a second time under the log level of `-vv` (hook commit: RBP_HOOK_LOG),
        and where the two answers differ both are returned, `LOG-LEVEL-DEPENDENT quiet: .. | at trace level: ..`, which no model answer equals"""
        lines = list(lines)
        answers = self._hook_raw(cmd, lines, extra_args)
        if not loud or not lines:
            return answers
        idx = list(range(len(lines)))
        if len(idx) > 40000:
            idx = sorted(self.sub_rnd("loud/%s/%d" % (cmd, len(lines))).sample(idx, 40000))
        again = self._hook_raw(cmd, [lines[i] for i in idx], extra_args, env={"RBP_HOOK_LOG": "trace"}, note=False)
        self.dist["hook-requests-answered-at-trace-level"] += len(idx)
        for i, a in zip(idx, again):
            if a != answers[i]:
                answers[i] = "LOG-LEVEL-DEPENDENT quiet: %s | at trace level: %s" % (answers[i], a)
        return answers

    def _hook_raw(self, cmd, lines, extra_args=(), env=None, note=True):
        """a request that kills the hook process (abort, e.g. a failed allocation, which catch_unwind cannot catch) is answered
        `ABORT` and the remaining requests go to a fresh process"""
        answers = []
        rest = list(lines)
        guard = 0
        while rest:
            p = C.run([C.IMPL, "verif-hook", cmd] + list(extra_args), input="\n".join(rest) + "\n", env=env)
            out = p.stdout.decode(errors="replace").splitlines()
            if p.returncode == 0 and len(out) == len(rest):
                answers.extend(out)
                break
            # the process died while answering request number len(out)
            k = min(len(out), len(rest) - 1)
            answers.extend(out[:k])
            answers.append("ABORT")
            if note:
                self.notes.append("hook %s died (rc=%s) on request %d: %s" % (cmd, p.returncode, len(answers) - 1, rest[k][:120]))
            rest = rest[k + 1:]
            guard += 1
            if guard > 50:
                raise RuntimeError("hook %s keeps dying; stderr=%s" % (cmd, p.stderr.decode(errors="replace")[-300:]))
        return answers

    def model(self, cmd, lines):
        p = C.run([C.MODEL, cmd], input="\n".join(lines) + "\n")
        out = p.stdout.decode(errors="replace").splitlines()
        if p.returncode != 0 or len(out) != len(lines):
            raise RuntimeError("model %s: rc=%d, %d answers for %d requests; stderr=%s" % (cmd, p.returncode, len(out), len(lines), p.stderr.decode(errors="replace")[-500:]))
        return out
