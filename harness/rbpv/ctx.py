"""Per-run context: counters for the evidence file, disagreement bookkeeping, hook/model drivers."""
import collections, json, os, random, time
from . import common as C


class Ctx:
    def __init__(self, prop, tier, seed):
        self.prop, self.tier, self.seed = prop, tier, seed
        self.rnd = random.Random(seed)
        self.t0 = time.time()
        self.evaluations = 0
        self.nontrivial = set()          # hashes of distinct non-trivial cases
        self.samples = []
        self.dist = collections.Counter()
        self.traces = 0
        self.disagreements = []          # dicts: family, request, impl, model, in_domain
        self.known_hits = []
        self.notes = []
        self.scale = 1                    # multiplied when the search mode is on
        self.families = collections.Counter()

    def thorough(self):
        return self.tier == "thorough"

    def n(self, quick, thorough):
        return (thorough if self.thorough() else quick) * self.scale

    def sub_rnd(self, tag):
        return random.Random("%d/%s" % (self.seed, tag))

    def add_sample(self, s, cap=6):
        if len(self.samples) < cap:
            self.samples.append(s)

    def mark(self, case_key, nontrivial=True):
        self.evaluations += 1
        if nontrivial:
            self.nontrivial.add(hash(case_key))

    def disagree(self, family, request, impl, model, in_domain=True, extra=None):
        d = {"family": family, "request": request, "impl": impl, "model": model, "in_domain": in_domain}
        if extra:
            d.update(extra)
        self.disagreements.append(d)

    # ---- line-protocol drivers -------------------------------------------------------------
    def hook(self, cmd, lines, extra_args=()):
        p = C.run([C.IMPL, "verif-hook", cmd] + list(extra_args), input="\n".join(lines) + "\n")
        out = p.stdout.decode(errors="replace").splitlines()
        if p.returncode != 0 or len(out) != len(lines):
            raise RuntimeError("hook %s: rc=%d, %d answers for %d requests; stderr=%s" % (cmd, p.returncode, len(out), len(lines), p.stderr.decode(errors="replace")[-500:]))
        return out

    def model(self, cmd, lines):
        p = C.run([C.MODEL, cmd], input="\n".join(lines) + "\n")
        out = p.stdout.decode(errors="replace").splitlines()
        if p.returncode != 0 or len(out) != len(lines):
            raise RuntimeError("model %s: rc=%d, %d answers for %d requests; stderr=%s" % (cmd, p.returncode, len(out), len(lines), p.stderr.decode(errors="replace")[-500:]))
        return out
