"""Correspondence on script verdicts: real `script::eval_from_bytes` (hook) vs the Lean model (`rbp-model script`)."""
from . import gen_scripts as G


def cases_for(ctx, quick_bulk, thorough_bulk, stress=False, exhaustive=None):
    r = ctx.sub_rnd("scripts")
    out = []
    ex = ctx.thorough() if exhaustive is None else exhaustive
    out.extend(G.boundary(r, exhaustive=ex))
    out.extend(G.bulk(r, ctx.n(quick_bulk, thorough_bulk)))
    if stress:
        out.extend(G.stress(r, ctx.thorough()))
    return out


def run(ctx, cases, versions_of, project, family_prefix="", in_domain=None):
    """cases: [(family, bytes)]; versions_of(family, i) -> list of version hex; project(answer tokens) -> comparable."""
    reqs, meta = [], []
    for i, (fam, s) in enumerate(cases):
        for v in versions_of(fam, i):
            reqs.append("%s %s" % (v, G.hexs(s)))
            meta.append((fam, v, s))
    if not reqs:
        return
    impl = ctx.hook("script", reqs)
    model = ctx.model("script", reqs)
    for (fam, v, s), req, a, b in zip(meta, reqs, impl, model):
        ta, tb = a.split(), b.split()
        pa, pb = project(ta), project(tb)
        nontrivial = len(s) > 0 and (tb[0] != "NotRecognised" or "~" in fam or fam.startswith("nbhd"))
        ctx.mark((v, s), nontrivial)
        ctx.families[family_prefix + fam.split(":")[0].rstrip("~")] += 1
        ctx.dist["ver=" + v] += 1
        ctx.dist["model=" + tb[0]] += 1
        ctx.dist["len<=%d" % (0 if not s else 1 << (len(s) - 1).bit_length())] += 1
        if pa != pb:
            ind = True if in_domain is None else in_domain(s, ta, tb)
            ctx.disagree(family_prefix + fam, "script " + (req if len(req) < 400 else req[:400] + "…(%d bytes)" % len(s)), a[:300], b[:300], ind, {"full_request": req if len(req) < 20000 else None})
        elif nontrivial and len(ctx.samples) < 6 and ctx.rnd.random() < 0.002:
            ctx.add_sample({"request": "script " + req[:200], "impl": a[:200], "model": b[:200]})
    if not ctx.samples:
        ctx.add_sample({"request": "script " + reqs[0][:200], "impl": impl[0][:200], "model": model[0][:200]})


def replay_one(ctx, rep, project):
    req = rep.get("failing_input", rep).get("full_request") or rep.get("failing_input", rep).get("request", "").replace("script ", "", 1)
    a = ctx.hook("script", [req])[0]
    b = ctx.model("script", [req])[0]
    ctx.mark(req, True)
    ctx.add_sample({"request": "script " + req[:200], "impl": a[:200], "model": b[:200]})
    if project(a.split()) != project(b.split()):
        ctx.disagree("replay", "script " + req[:400], a[:300], b[:300], True, {"full_request": req})


def shrink_script(ctx, d, project):
    """drop bytes while the projected answers still differ"""
    req = d.get("full_request")
    if not req:
        return d
    v, hx = req.split()
    s = bytes.fromhex(hx) if hx != "-" else b""
    def differs(s2):
        q = "%s %s" % (v, G.hexs(s2))
        return project(ctx.hook("script", [q])[0].split()) != project(ctx.model("script", [q])[0].split())
    changed = True
    rounds = 0
    while changed and rounds < 200:
        changed = False
        rounds += 1
        chunk = max(1, len(s) // 2)
        while chunk >= 1:
            i = 0
            while i < len(s):
                s2 = s[:i] + s[i + chunk:]
                if len(s2) < len(s) and differs(s2):
                    s = s2
                    changed = True
                else:
                    i += chunk
            chunk //= 2
    q = "%s %s" % (v, G.hexs(s))
    d = dict(d)
    d["shrunk_request"] = "script " + q
    d["full_request"] = q
    d["impl"] = ctx.hook("script", [q])[0]
    d["model"] = ctx.model("script", [q])[0]
    return d


def long_scripts(r, big):
    """scripts beyond 10 000 bytes (the property's quantifier says 0..10k+; consensus limits do not apply to a parser)"""
    import struct
    for ln in ([9999, 10000, 10001, 10002, 12345, 40000, 65535, 65536] if big else [10000, 10001, 12345, 65536]):
        yield "long-nops-%d" % ln, b"\x61" * ln
        yield "long-opreturn-pd2-%d" % ln, (b"\x6a\x4d" + struct.pack("<H", ln - 4) + b"A" * (ln - 4)) if ln - 4 < 65536 else (b"\x6a\x4e" + struct.pack("<I", ln - 6) + b"A" * (ln - 6))
        yield "long-p2pkh-tail-%d" % ln, b"\x76\xa9\x14" + G.rb(r, 20) + b"\x88\xac" + b"\x61" * (ln - 25)
        yield "long-random-%d" % ln, b"\x51" + G.rb(r, ln - 1)


def _tx_versions():
    from . import build as B
    base = [1, 2, 0x7100, 3, 0x00050003, 0x80000004, 0, 0xffffffff, 0x7fffffff]
    try:
        base += [L & 0xffffffff for L in B.new_literals() if L < (1 << 32)]
    except Exception:
        pass
    return base


TX_VERSIONS = _tx_versions()


def run_via_outputs(ctx, cases, coins_of, family_prefix="out-path:", all_contexts=lambda fam: fam.startswith(("idiom:", "well-known:"))):
    """the same verdicts observed where the property says they are observed: scripts placed in the outputs of a transaction and
    pushed through the real read_block -> EvaluatedTx -> eval_script path (hook `block`), compared with the Lean model's answer
    for the same block and, model-free, with the direct `script` verdict of the same build (both paths must agree)"""
    from . import chain as K
    ver_of = {"bitcoin": "00", "testnet3": "6f", "namecoin": "34", "litecoin": "30", "dogecoin": "1e", "myriadcoin": "32", "unobtanium": "82", "noteblockchain": "35"}
    groups = {}
    for i, (fam, s) in enumerate(cases):
        for coin in coins_of(fam, i):
            # coin-specific idioms and scripts with a published meaning: under every transaction version of the pool
            for tvx in (TX_VERSIONS if all_contexts(fam) else [None]):
                groups.setdefault((coin, tvx), []).append((fam, s))
    reqs, meta = [], []
    for (coin, tvx), items in groups.items():
        k = 0
        while k < len(items):
            # up to 12 scripts (or ~200 KB) per transaction
            batch, size = [], 0
            while k < len(items) and len(batch) < 12 and size < 200000:
                batch.append(items[k]); size += len(items[k][1]); k += 1
            # the verdict on an output script is a function of the script and the coin: not of the version or lock time of the
            # transaction that carries it (1, 2, Namecoin's name-operation version 0x7100, type-tagged and overwintered versions, any
            # number new in the sources), nor of the block's version or time
            nb = len(reqs)
            tv = tvx if tvx is not None else (TX_VERSIONS[nb % len(TX_VERSIONS)] if nb % 3 else 1)
            cb = K.Tx([(b"\0" * 32, 0xffffffff, b"\x01\x01", 0xffffffff)], [(1, b"\x51")], version=TX_VERSIONS[(nb // 2) % len(TX_VERSIONS)] if nb % 5 == 0 else 1)
            t = K.Tx([(b"\x11" * 32, 0, b"", 0)], [(j, s) for j, (_f, s) in enumerate(batch)], version=tv, lock=[0, 0, 499999999, 500000000, 0xffffffff][nb % 5])
            raw = K.Block([cb, t], version=[1, 2, 4, 0x20000000, 0x7fffffff, 0xffffffff][nb % 6] if coin not in K.AUXPOW else [1, 2, 4, K.AUXPOW[coin] - 1][nb % 4], time=[1, 1231006505, 1700000000, 0xffffffff][nb % 4]).enc()
            reqs.append("%s %d %s" % (coin, len(raw), raw.hex()))
            meta.append((coin, batch))
    if not reqs:
        return
    impl = ctx.hook("block", reqs)
    model = ctx.model("block", reqs)
    sreqs = []
    for coin, batch in meta:
        for fam, s in batch:
            sreqs.append("%s %s" % (ver_of[coin], G.hexs(s)))
    direct = ctx.hook("script", sreqs)
    di = 0
    def outs(ans):
        t = ans.split()
        # tokens: … "O" value script tag address …; the second transaction's outputs are the scripts under test
        res, i, seen_t = [], 0, 0
        while i < len(t):
            if t[i] == "T":
                seen_t += 1
            if t[i] == "O" and seen_t == 2 and i + 4 < len(t) + 1:
                res.append((t[i + 3], t[i + 4]))
                i += 5
                continue
            i += 1
        return res
    for (coin, batch), q, a, b in zip(meta, reqs, impl, model):
        oa, ob = outs(a), outs(b)
        for j, (fam, s) in enumerate(batch):
            d = direct[di].split(); di += 1
            va = oa[j] if j < len(oa) else ("MISSING", a[:40])
            vb = ob[j] if j < len(ob) else ("MISSING", b[:40])
            ctx.mark(("out", coin, s), True)
            ctx.families[family_prefix + fam.split(":")[0].split("-")[0]] += 1
            sreq = "%s %s" % (ver_of[coin], G.hexs(s))
            if va != vb:
                ctx.disagree(family_prefix + fam, "block-output %s script %s" % (coin, sreq if len(sreq) < 300 else sreq[:300] + "…(%d bytes)" % len(s)), " ".join(va), " ".join(vb), True,
                             {"full_request": sreq if len(sreq) < 200000 else None, "via": "block", "coin": coin, "block_request": q if len(q) < 500000 else None, "observable": "type+address through read_block/eval_script"})
            elif tuple(d[:2]) != tuple(va) and d[0] != "PANIC":
                ctx.disagree(family_prefix + fam + ":paths", "block-output %s script %s" % (coin, sreq if len(sreq) < 300 else sreq[:300] + "…(%d bytes)" % len(s)), "via block: " + " ".join(va), "via eval_from_bytes: " + " ".join(d[:2]), True,
                             {"full_request": sreq if len(sreq) < 200000 else None, "via": "block", "coin": coin, "observable": "the two call paths of the same build disagree"})


def replay_via_outputs(ctx, rep):
    d = rep.get("failing_input", rep)
    if d.get("block_request"):
        # the very block (transaction and block context included) the disagreement was seen in
        q = d["block_request"]
        a, b = ctx.hook("block", [q])[0], ctx.model("block", [q])[0]
        ctx.mark(("replay-block", q[:80]), True)
        ctx.families["replay"] += 1
        if a != b:
            k = next((i for i, (x, y) in enumerate(zip(a.split(), b.split())) if x != y), 0)
            ctx.disagree("replay", "block " + q[:300], " ".join(a.split()[max(0, k - 2):k + 3])[:300], " ".join(b.split()[max(0, k - 2):k + 3])[:300], True, dict(d))
        return
    v, hx = d["full_request"].split()
    s = bytes.fromhex(hx) if hx != "-" else b""
    run_via_outputs(ctx, [("replay", s)], lambda f, i: [d["coin"]])


def address_chains(ctx, coins, n_quick=10, n_thorough=80):
    """the verdicts where a user reads them: whole runs of the three dump callbacks (address column of tx_out / unspent / balances) and
    of simplestats (type table) over chains whose outputs are the canonical templates, their idiom-prefixed forms and well-known
    scripts, in arbitrary physical layouts — compared with the whole-program model, and swept over the circumstances of bb.ENV_KINDS
    (foreign magics in front of the blocks, xor.dat, symlinked files, log levels, ...)"""
    from . import bb, chain as K, gen_chain as GC, gen_layout as GL
    r = ctx.sub_rnd("address-chains")
    by_cb = {}
    for i in range(ctx.n(n_quick, n_thorough)):
        coin = coins[i % len(coins)]
        cb = ["csvdump", "unspentcsvdump", "balances", "simplestats"][(i // len(coins)) % 4]
        tm = G.canonical_templates(r)
        pre = G.idiom_prefixes(r)
        pool = [s for _n, s in tm] + [p + s for _pn, p in pre[:4] for _n, s in tm[:3]] + [s for _n, s in G.WELL_KNOWN]
        blocks = GC.gen_chain(r, coin, r.randrange(3, 6), max_txs=2, max_io=4, scripts=lambda rr, c: rr.choice(pool), auxpow_mix=False)
        for b in blocks[1:]:
            for t in b.txs[1:]:
                t.version = r.choice(TX_VERSIONS)
        prev = blocks[0].hash()
        for b in blocks[1:]:
            b.prev = prev
            b.merkle_root = None
            prev = b.hash()
        if i % 2:
            s = GL.layout(r, coin, blocks, callback=cb)
        else:
            s = K.Scenario(coin=coin, callback=cb)
            GC.simple_layout(s, blocks, per_file=r.choice([None, 2]))
        s.meta = dict(s.meta, address_chain=i)
        by_cb.setdefault(cb, []).append(s)
    for cb, scns in by_cb.items():
        bb.check(ctx, "address-chains:" + cb, scns, bb.comparators_for(cb), env_share=1.0)
