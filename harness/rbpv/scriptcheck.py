"""Correspondence on script verdicts: real `script::eval_from_bytes` (hook) vs the Lean model (`rbp-model script`)."""
from . import gen_scripts as G


def cases_for(ctx, quick_bulk, thorough_bulk, stress=False, exhaustive=None):
    r = ctx.sub_rnd("scripts")
    out = []
    ex = ctx.thorough() if exhaustive is None else exhaustive
    out.extend(G.boundary(r, exhaustive=ex))
    out.extend(G.bulk(r, ctx.n(quick_bulk, thorough_bulk)))
    if stress:
        out.extend(G.stress(r, ctx.thorough()))
    return out


def run(ctx, cases, versions_of, project, family_prefix="", in_domain=None):
    """cases: [(family, bytes)]; versions_of(family, i) -> list of version hex; project(answer tokens) -> comparable."""
    reqs, meta = [], []
    for i, (fam, s) in enumerate(cases):
        for v in versions_of(fam, i):
            reqs.append("%s %s" % (v, G.hexs(s)))
            meta.append((fam, v, s))
    if not reqs:
        return
    impl = ctx.hook("script", reqs)
    model = ctx.model("script", reqs)
    for (fam, v, s), req, a, b in zip(meta, reqs, impl, model):
        ta, tb = a.split(), b.split()
        pa, pb = project(ta), project(tb)
        nontrivial = len(s) > 0 and (tb[0] != "NotRecognised" or "~" in fam or fam.startswith("nbhd"))
        ctx.mark((v, s), nontrivial)
        ctx.families[family_prefix + fam.split(":")[0].rstrip("~")] += 1
        ctx.dist["ver=" + v] += 1
        ctx.dist["model=" + tb[0]] += 1
        ctx.dist["len<=%d" % (0 if not s else 1 << (len(s) - 1).bit_length())] += 1
        if pa != pb:
            ind = True if in_domain is None else in_domain(s, ta, tb)
            ctx.disagree(family_prefix + fam, "script " + (req if len(req) < 400 else req[:400] + "…(%d bytes)" % len(s)), a[:300], b[:300], ind, {"full_request": req if len(req) < 20000 else None})
        elif nontrivial and len(ctx.samples) < 6 and ctx.rnd.random() < 0.002:
            ctx.add_sample({"request": "script " + req[:200], "impl": a[:200], "model": b[:200]})
    if not ctx.samples:
        ctx.add_sample({"request": "script " + reqs[0][:200], "impl": impl[0][:200], "model": model[0][:200]})


def replay_one(ctx, rep, project):
    req = rep.get("failing_input", rep).get("full_request") or rep.get("failing_input", rep).get("request", "").replace("script ", "", 1)
    a = ctx.hook("script", [req])[0]
    b = ctx.model("script", [req])[0]
    ctx.mark(req, True)
    ctx.add_sample({"request": "script " + req[:200], "impl": a[:200], "model": b[:200]})
    if project(a.split()) != project(b.split()):
        ctx.disagree("replay", "script " + req[:400], a[:300], b[:300], True, {"full_request": req})


def shrink_script(ctx, d, project):
    """drop bytes while the projected answers still differ"""
    req = d.get("full_request")
    if not req:
        return d
    v, hx = req.split()
    s = bytes.fromhex(hx) if hx != "-" else b""
    def differs(s2):
        q = "%s %s" % (v, G.hexs(s2))
        return project(ctx.hook("script", [q])[0].split()) != project(ctx.model("script", [q])[0].split())
    changed = True
    rounds = 0
    while changed and rounds < 200:
        changed = False
        rounds += 1
        chunk = max(1, len(s) // 2)
        while chunk >= 1:
            i = 0
            while i < len(s):
                s2 = s[:i] + s[i + chunk:]
                if len(s2) < len(s) and differs(s2):
                    s = s2
                    changed = True
                else:
                    i += chunk
            chunk //= 2
    q = "%s %s" % (v, G.hexs(s))
    d = dict(d)
    d["shrunk_request"] = "script " + q
    d["full_request"] = q
    d["impl"] = ctx.hook("script", [q])[0]
    d["model"] = ctx.model("script", [q])[0]
    return d


def long_scripts(r, big):
    """scripts beyond 10 000 bytes (the property's quantifier says 0..10k+; consensus limits do not apply to a parser)"""
    import struct
    for ln in ([9999, 10000, 10001, 10002, 12345, 40000, 65535, 65536] if big else [10000, 10001, 12345, 65536]):
        yield "long-nops-%d" % ln, b"\x61" * ln
        yield "long-opreturn-pd2-%d" % ln, (b"\x6a\x4d" + struct.pack("<H", ln - 4) + b"A" * (ln - 4)) if ln - 4 < 65536 else (b"\x6a\x4e" + struct.pack("<I", ln - 6) + b"A" * (ln - 6))
        yield "long-p2pkh-tail-%d" % ln, b"\x76\xa9\x14" + G.rb(r, 20) + b"\x88\xac" + b"\x61" * (ln - 25)
        yield "long-random-%d" % ln, b"\x51" + G.rb(r, ln - 1)


def run_via_outputs(ctx, cases, coins_of, family_prefix="out-path:"):
    """the same verdicts observed where the property says they are observed: scripts placed in the outputs of a transaction and
    pushed through the real read_block -> EvaluatedTx -> eval_script path (hook `block`), compared with the Lean model's answer
    for the same block and, model-free, with the direct `script` verdict of the same build (both paths must agree)"""
    from . import chain as K
    ver_of = {"bitcoin": "00", "testnet3": "6f", "namecoin": "34", "litecoin": "30", "dogecoin": "1e", "myriadcoin": "32", "unobtanium": "82", "noteblockchain": "35"}
    groups = {}
    for i, (fam, s) in enumerate(cases):
        for coin in coins_of(fam, i):
            groups.setdefault(coin, []).append((fam, s))
    reqs, meta = [], []
    for coin, items in groups.items():
        k = 0
        while k < len(items):
            # up to 12 scripts (or ~200 KB) per transaction
            batch, size = [], 0
            while k < len(items) and len(batch) < 12 and size < 200000:
                batch.append(items[k]); size += len(items[k][1]); k += 1
            cb = K.Tx([(b"\0" * 32, 0xffffffff, b"\x01\x01", 0xffffffff)], [(1, b"\x51")])
            t = K.Tx([(b"\x11" * 32, 0, b"", 0)], [(j, s) for j, (_f, s) in enumerate(batch)])
            raw = K.Block([cb, t], version=1).enc()
            reqs.append("%s %d %s" % (coin, len(raw), raw.hex()))
            meta.append((coin, batch))
    if not reqs:
        return
    impl = ctx.hook("block", reqs)
    model = ctx.model("block", reqs)
    sreqs = []
    for coin, batch in meta:
        for fam, s in batch:
            sreqs.append("%s %s" % (ver_of[coin], G.hexs(s)))
    direct = ctx.hook("script", sreqs)
    di = 0
    def outs(ans):
        t = ans.split()
        # tokens: … "O" value script tag address …; the second transaction's outputs are the scripts under test
        res, i, seen_t = [], 0, 0
        while i < len(t):
            if t[i] == "T":
                seen_t += 1
            if t[i] == "O" and seen_t == 2 and i + 4 < len(t) + 1:
                res.append((t[i + 3], t[i + 4]))
                i += 5
                continue
            i += 1
        return res
    for (coin, batch), q, a, b in zip(meta, reqs, impl, model):
        oa, ob = outs(a), outs(b)
        for j, (fam, s) in enumerate(batch):
            d = direct[di].split(); di += 1
            va = oa[j] if j < len(oa) else ("MISSING", a[:40])
            vb = ob[j] if j < len(ob) else ("MISSING", b[:40])
            ctx.mark(("out", coin, s), True)
            ctx.families[family_prefix + fam.split(":")[0].split("-")[0]] += 1
            sreq = "%s %s" % (ver_of[coin], G.hexs(s))
            if va != vb:
                ctx.disagree(family_prefix + fam, "block-output %s script %s" % (coin, sreq if len(sreq) < 300 else sreq[:300] + "…(%d bytes)" % len(s)), " ".join(va), " ".join(vb), True,
                             {"full_request": sreq if len(sreq) < 200000 else None, "via": "block", "coin": coin, "observable": "type+address through read_block/eval_script"})
            elif tuple(d[:2]) != tuple(va) and d[0] != "PANIC":
                ctx.disagree(family_prefix + fam + ":paths", "block-output %s script %s" % (coin, sreq if len(sreq) < 300 else sreq[:300] + "…(%d bytes)" % len(s)), "via block: " + " ".join(va), "via eval_from_bytes: " + " ".join(d[:2]), True,
                             {"full_request": sreq if len(sreq) < 200000 else None, "via": "block", "coin": coin, "observable": "the two call paths of the same build disagree"})


def replay_via_outputs(ctx, rep):
    d = rep.get("failing_input", rep)
    v, hx = d["full_request"].split()
    s = bytes.fromhex(hx) if hx != "-" else b""
    run_via_outputs(ctx, [("replay", s)], lambda f, i: [d["coin"]])
