"""Correspondence on script verdicts: real `script::eval_from_bytes` (hook) vs the Lean model (`rbp-model script`)."""
from . import gen_scripts as G


def cases_for(ctx, quick_bulk, thorough_bulk, stress=False, exhaustive=None):
    r = ctx.sub_rnd("scripts")
    out = []
    ex = ctx.thorough() if exhaustive is None else exhaustive
    out.extend(G.boundary(r, exhaustive=ex))
    out.extend(G.bulk(r, ctx.n(quick_bulk, thorough_bulk)))
    if stress:
        out.extend(G.stress(r, ctx.thorough()))
    return out


def run(ctx, cases, versions_of, project, family_prefix="", in_domain=None):
    """cases: [(family, bytes)]; versions_of(family, i) -> list of version hex; project(answer tokens) -> comparable."""
    reqs, meta = [], []
    for i, (fam, s) in enumerate(cases):
        for v in versions_of(fam, i):
            reqs.append("%s %s" % (v, G.hexs(s)))
            meta.append((fam, v, s))
    if not reqs:
        return
    impl = ctx.hook("script", reqs)
    model = ctx.model("script", reqs)
    for (fam, v, s), req, a, b in zip(meta, reqs, impl, model):
        ta, tb = a.split(), b.split()
        pa, pb = project(ta), project(tb)
        nontrivial = len(s) > 0 and (tb[0] != "NotRecognised" or "~" in fam or fam.startswith("nbhd"))
        ctx.mark((v, s), nontrivial)
        ctx.families[family_prefix + fam.split(":")[0].rstrip("~")] += 1
        ctx.dist["ver=" + v] += 1
        ctx.dist["model=" + tb[0]] += 1
        ctx.dist["len<=%d" % (0 if not s else 1 << (len(s) - 1).bit_length())] += 1
        if pa != pb:
            ind = True if in_domain is None else in_domain(s, ta, tb)
            ctx.disagree(family_prefix + fam, "script " + (req if len(req) < 400 else req[:400] + "…(%d bytes)" % len(s)), a[:300], b[:300], ind, {"full_request": req if len(req) < 20000 else None})
        elif nontrivial and len(ctx.samples) < 6 and ctx.rnd.random() < 0.002:
            ctx.add_sample({"request": "script " + req[:200], "impl": a[:200], "model": b[:200]})
    if not ctx.samples:
        ctx.add_sample({"request": "script " + reqs[0][:200], "impl": impl[0][:200], "model": model[0][:200]})


def replay_one(ctx, rep, project):
    req = rep.get("failing_input", rep).get("full_request") or rep.get("failing_input", rep).get("request", "").replace("script ", "", 1)
    a = ctx.hook("script", [req])[0]
    b = ctx.model("script", [req])[0]
    ctx.mark(req, True)
    ctx.add_sample({"request": "script " + req[:200], "impl": a[:200], "model": b[:200]})
    if project(a.split()) != project(b.split()):
        ctx.disagree("replay", "script " + req[:400], a[:300], b[:300], True, {"full_request": req})


def shrink_script(ctx, d, project):
    """drop bytes while the projected answers still differ"""
    req = d.get("full_request")
    if not req:
        return d
    v, hx = req.split()
    s = bytes.fromhex(hx) if hx != "-" else b""
    def differs(s2):
        q = "%s %s" % (v, G.hexs(s2))
        return project(ctx.hook("script", [q])[0].split()) != project(ctx.model("script", [q])[0].split())
    changed = True
    rounds = 0
    while changed and rounds < 200:
        changed = False
        rounds += 1
        chunk = max(1, len(s) // 2)
        while chunk >= 1:
            i = 0
            while i < len(s):
                s2 = s[:i] + s[i + chunk:]
                if len(s2) < len(s) and differs(s2):
                    s = s2
                    changed = True
                else:
                    i += chunk
            chunk //= 2
    q = "%s %s" % (v, G.hexs(s))
    d = dict(d)
    d["shrunk_request"] = "script " + q
    d["full_request"] = q
    d["impl"] = ctx.hook("script", [q])[0]
    d["model"] = ctx.model("script", [q])[0]
    return d
