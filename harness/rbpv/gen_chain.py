"""Seeded generators of well-formed chains and of simple layouts (used by the whole-program checks)."""
import struct, time as _time
from . import chain as K
from . import gen_scripts as GS


def rb(r, n):
    return bytes(r.randrange(256) for _ in range(n))


def spk(r, coin, kind=None):
    """an output script; address-bearing kinds dominate"""
    btc = coin in ("bitcoin", "testnet3")
    kinds = ["p2pkh", "p2pkh", "p2pkh", "p2sh", "p2pk33", "p2pk65", "opreturn", "multisig", "nonstd", "empty"]
    if btc:
        kinds += ["p2wpkh", "p2wsh", "p2tr", "wp"]
    k = kind or r.choice(kinds)
    if k == "p2pkh":
        return b"\x76\xa9\x14" + rb(r, 20) + b"\x88\xac"
    if k == "p2sh":
        return b"\xa9\x14" + rb(r, 20) + b"\x87"
    if k == "p2pk33":
        return b"\x21\x02" + rb(r, 32) + b"\xac"
    if k == "p2pk65":
        return b"\x41\x04" + rb(r, 64) + b"\xac"
    if k == "p2wpkh":
        return b"\x00\x14" + rb(r, 20)
    if k == "p2wsh":
        return b"\x00\x20" + rb(r, 32)
    if k == "p2tr":
        return b"\x51\x20" + rb(r, 32)
    if k == "wp":
        n = r.choice([2, 10, 33, 40])
        return bytes([r.randrange(0x52, 0x61), n]) + rb(r, n)
    if k == "opreturn":
        return b"\x6a" + GS.push(r, GS.payload(r)[:r.choice([0, 5, 40, 80, 300])])
    if k == "multisig":
        return b"\x52" + b"".join(b"\x21\x03" + rb(r, 32) for _ in range(3)) + b"\x53\xae"
    if k == "nonstd":
        return GS.tmpl(r)[1]
    return b""


class Pool:
    """spendable outpoints created so far (txid, index)"""

    def __init__(self):
        self.items = []

    def add(self, txid, n):
        for i in range(n):
            self.items.append((txid, i))

    def take(self, r):
        return self.items.pop(r.randrange(len(self.items)))


def subsidy(height):
    return (50 * 100000000) >> (height // 210000) if height // 210000 < 64 else 0


# decimal rendering edges: powers of ten and their neighbours, 9-digit group boundaries with zero middle groups, i64/u64 limits
DEC_EDGE = [10**18, 10**18 + 1, 10**18 - 1, 10**19, 10**19 + 10**9, 12 * 10**17 + 5, 10**18 + 10**8 - 1, 10**18 + 10**9, 5 * 10**18 + 42, 10**9, 10**9 - 1, 10**10,
            10**17, 2**63, 2**63 - 1, 2**63 + 1, 2**64 - 1, 2**64 - 10**9, 2**32, 2**32 - 1, 2**53, 2**53 + 1, 100000000000000000, 1000000000000000001]


def gen_chain(r, coin, n, max_txs=4, max_io=3, segwit=True, odd_widths=True, auxpow_mix=True, start_height=0, genesis=None, scripts=None, big=None, extreme_values=False):
    """n linked blocks with correct merkle roots.  Returns [Block]."""
    blocks = []
    prev = b"\0" * 32
    pool = Pool()
    t = 1231006505 + r.randrange(1000)
    for h in range(start_height, start_height + n):
        if h == 0 and genesis is not None:
            blocks.append(genesis)
            prev = genesis.hash()
            continue
        cb_value = r.choice([subsidy(h), subsidy(h) + r.randrange(1, 10**7), max(0, subsidy(h) - r.randrange(0, 10**6)), 0])
        n_cb_out = r.randrange(1, max_io + 1)
        cb_outs = [(cb_value, (scripts or spk)(r, coin))] + [(r.randrange(10**9), (scripts or spk)(r, coin)) for _ in range(n_cb_out - 1)]
        if r.random() < 0.25:
            # the BIP141 witness commitment: an ordinary zero-value OP_RETURN output of the coinbase, on any coin, usually last, but any
            # position is valid (the FIRST output is what the fee figure is defined on; the commitment is a line of `opreturn`)
            wc = (0, b"\x6a\x24\xaa\x21\xa9\xed" + rb(r, 32) + (rb(r, r.randrange(0, 6)) if r.random() < 0.2 else b""))
            cb_outs.insert(r.choice([len(cb_outs), len(cb_outs), len(cb_outs), 0, r.randrange(len(cb_outs) + 1)]), wc)
        cb = K.Tx([(b"\0" * 32, 0xffffffff, bytes([3, h & 255, (h >> 8) & 255, (h >> 16) & 255]) + rb(r, r.randrange(0, 20)), 0xffffffff)], cb_outs,
                  version=r.choice([1, 1, 2, r.randrange(1 << 32)]))
        if segwit and coin in ("bitcoin", "testnet3", "litecoin") and r.random() < 0.3:
            cb.segwit = (r.choice([1, 1, 3]) if odd_widths else 1, 1, [[rb(r, 32)]])
        txs = [cb]
        pool.add(cb.txid(), len(cb_outs))
        ntx = r.randrange(0, max_txs + 1) if big is None else big
        for _ in range(ntx):
            nin = r.randrange(1, max_io + 1)
            ins = []
            for _ in range(nin):
                if pool.items and r.random() < 0.85:
                    (tx, i) = pool.take(r)
                else:
                    tx, i = rb(r, 32), r.randrange(4)
                ins.append((tx, i, rb(r, r.choice([0, 1, 72, 107, 253, 300])), r.choice([0xffffffff, 0xfffffffe, r.randrange(1 << 32)])))
            nout = r.randrange(0 if r.random() < 0.03 else 1, max_io + 1)
            outs = [(r.choice([0, 1, 546, r.randrange(21 * 10**14), (r.choice(DEC_EDGE) if r.random() < 0.5 else r.randrange(1 << 64)) if extreme_values else r.randrange(10**15)]) if r.random() < 0.2 else r.randrange(10**10), (scripts or spk)(r, coin)) for _ in range(nout)]
            tx = K.Tx(ins, outs, version=r.choice([1, 2]), lock=r.choice([0, 0, r.randrange(1 << 32)]))
            if odd_widths and r.random() < 0.15:
                tx.w_in = r.choice([3, 5, 9])
            if odd_widths and r.random() < 0.15:
                tx.w_out = r.choice([3, 5, 9])
            if odd_widths and r.random() < 0.15 and outs:
                tx.w_script[("o", r.randrange(len(outs)))] = r.choice([3, 5, 9])
            if odd_widths and r.random() < 0.15:
                tx.w_script[("i", r.randrange(len(ins)))] = r.choice([3, 5, 9])
            if segwit and r.random() < 0.35:
                flag = r.choice([1, 1, 1, 3, 0, 2, 8, 9, 0x80, 0xff])
                stacks = [[rb(r, r.choice([0, 1, 32, 72, 253, 600])) for _ in range(r.randrange(0, 4))] for _ in ins]
                if r.random() < 0.4:
                    # the shapes real spends have: key-hash (signature + 33-byte key), script-hash multisig (empty, sigs, script),
                    # taproot key path (64 / 65-byte signature), with the empty scriptSig that goes with them
                    shapes = [lambda: [b"\x30" + rb(r, r.choice([70, 71, 72])), b"\x02" + rb(r, 32)], lambda: [b"", b"\x30" + rb(r, 71), b"\x30" + rb(r, 70), b"\x52" + rb(r, 100)],
                              lambda: [rb(r, 64)], lambda: [rb(r, 65)], lambda: [b"\x30" + rb(r, 8), b"\x03" + rb(r, 32)]]
                    stacks = [r.choice(shapes)() for _ in ins]
                    tx.ins = [(ph, pi, b"" if r.random() < 0.8 else sc, sq) for (ph, pi, sc, sq) in tx.ins]
                tx.segwit = (r.choice([1, 1, 1, 3, 5, 9]) if odd_widths else 1, flag, stacks)
            txs.append(tx)
            pool.add(tx.txid(), len(outs))
        t += r.choice([600, 1, 0, 7200, -300, 31])
        version = r.choice([1, 2, 4, 0x20000000, r.randrange(1 << 32)])
        if r.random() < 0.2:
            # versions shaped like those of merged-mined chains (chain id in the upper half, the AuxPoW flag 0x100, a base version),
            # with the chain ids the supported coins use: on a coin without an AuxPoW threshold they are plain numbers
            version = (r.choice(MM_CHAIN_IDS + [r.randrange(1 << 16)]) << 16) | r.choice([0x100, 0x101, 0x102, 0x104, 0x502, 0x002, 0x004]) | (0x20000000 if r.random() < 0.2 else 0)
        aux = None
        if coin in K.AUXPOW:
            th = K.AUXPOW[coin]
            if auxpow_mix:
                version = r.choice([th - 1, th, th + 1, 1, th | 0x100, r.randrange(th), r.randrange(th, 1 << 32)])
            else:
                version = 1
            if version >= th:
                aux = K.auxpow_section(r)
        bt = max(1, t) & 0xffffffff
        if r.random() < 0.04:
            # a header may carry any timestamp, also one that still lies ahead of the clock of the machine the parser runs on
            bt = r.choice([0xffffffff, 0xfffffff0, 4102444800, int(_time.time()) + 3 * 3600, int(_time.time()) + 7300])
        b = K.Block(txs, prev=prev, version=version, time=bt, bits=r.choice([0x1d00ffff, r.randrange(1 << 32)]), nonce=r.randrange(1 << 32), auxpow=aux)
        if odd_widths and r.random() < 0.1:
            b.w_txs = r.choice([3, 5, 9])
        blocks.append(b)
        prev = b.hash()
    return blocks


def simple_layout(scn, blocks, per_file=None, r=None, pad=5, first_height=0, status=K.ACTIVE, gap=0, swap=0.0, file_of=None):
    """blocks placed `per_file` to a blk file, in height order — or, with `swap` > 0 (needs r), in ARRIVAL order: neighbours inside a
    file are swapped with that probability, as when a node receives blocks out of order; writes the index records of an active chain"""
    fnos = [file_of(i) if file_of else ((i // per_file) if per_file else 0) for i in range(len(blocks))]
    order = list(range(len(blocks)))
    if swap and r is not None:
        for j in range(len(order) - 1):
            if fnos[order[j]] == fnos[order[j + 1]] and r.random() < swap:
                order[j], order[j + 1] = order[j + 1], order[j]
    pos = {}
    for i in order:
        b = blocks[i]
        fno = fnos[i]
        name = K.blkname(fno, pad)
        if fno not in pos:
            scn.add_file(name)
            pos[fno] = 0
        if gap and r is not None:
            g = r.randrange(0, gap)
            scn.put(name, pos[fno], rb(r, g))
            pos[fno] += g
        raw = b.enc()
        off = scn.place_block(name, pos[fno], raw)
        pos[fno] = off + len(raw)
        scn.kvs.append(K.record(b.hash(), first_height + i, status, len(b.txs), fno, off, b.header(), undo=i * 7 + 1))
    for fno in sorted(set(fnos)) or [0]:
        if fno not in pos:
            scn.add_file(K.blkname(fno, pad))
    return scn


def interleaved_layout(scn, blocks, r, nfiles=3, reserve=4000, first_height=0, status=K.ACTIVE):
    """the active chain spread over `nfiles` blk files so that consecutive heights keep jumping between files (X, Y, X, ...), every
    file starting with `reserve` unused bytes into which other blocks (competitors) can be stored later; returns the file names"""
    names = [K.blkname(f) for f in range(nfiles)]
    pos = {}
    for n in names:
        scn.add_file(n)
        pos[n] = reserve
    last = None
    for i, b in enumerate(blocks):
        f = r.randrange(nfiles)
        if f == last and nfiles > 1 and r.random() < 0.8:
            f = (f + 1 + r.randrange(nfiles - 1)) % nfiles
        last = f
        raw = b.enc()
        off = scn.place_block(names[f], pos[names[f]], raw)
        pos[names[f]] = off + len(raw)
        scn.kvs.append(K.record(b.hash(), first_height + i, status, len(b.txs), f, off, b.header(), undo=i * 7 + 1))
    return names


def literal_chain(r, coin, L, variant=0):
    """a short chain built around a number L found in the changed source: L as block height (blocks L-2 .. L+2 of a sparse index), as
    output value, script / witness-item / scriptSig length, number of outputs or inputs, block and transaction version, lock time,
    sequence and timestamp — each also at L-1 and L+1.  Returns (blocks, first_height)."""
    first = max(0, L - 2) if L < (1 << 40) else 0
    n = 5
    blocks = gen_chain(r, coin, n, max_txs=1, max_io=2, segwit=False, auxpow_mix=False, start_height=first)
    for k, b in enumerate(blocks):
        v = max(0, L + 2 - k) if variant != 3 else (9 * 10**15 if first + k == L else 1000 + k)    # L+2 .. L-2, descending: the record figures are set early
        outs = [(v & ((1 << 64) - 1), spk(r, coin, "p2pkh")), (1, b"\x6a" + bytes([0x4e]) + (max(0, min(v, 120000))).to_bytes(4, "little") + rb(r, max(0, min(v, 120000))))]
        ins = [(rb(r, 32), v & 0xffffffff, rb(r, min(max(0, v), 30000)), v & 0xffffffff)]
        tx = K.Tx(ins, outs, version=v & 0xffffffff, lock=v & 0xffffffff)
        if variant == 1 and v <= 70000:
            # v outputs / v inputs
            tx = K.Tx([(rb(r, 32), j, b"\x01\x01", 0xffffffff) for j in range(max(1, min(v, 3000)))], [(j + 1, spk(r, coin, "p2pkh") if j % 7 else b"\x6a\x01\x41") for j in range(max(1, v))])
        if variant == 3:
            # everything remarkable happens exactly AT height L: biggest value, biggest size, most outputs, first OP_RETURN text
            tx = K.Tx([(rb(r, 32), 0, rb(r, 5000 if first + k == L else 10), 1)],
                      [(v, spk(r, coin, "p2pkh"))] + ([(0, b"\x6a\x0bheight text")] * (40 if first + k == L else 0)) + [(2, spk(r, coin, "p2sh"))])
        if variant == 2:
            tx.segwit = (1, 1, [[rb(r, min(max(0, v), 120000)), b"\x02" + rb(r, 32)]])
        b.txs.append(tx)
        if variant != 3:
            if coin not in K.AUXPOW or (v & 0xffffffff) < K.AUXPOW[coin]:
                b.version = v & 0xffffffff
            if 0 < (v & 0xffffffff):
                b.time = v & 0xffffffff
    prev = blocks[0].prev
    for b in blocks:
        b.prev = prev
        b.merkle_root = None
        prev = b.hash()
    return blocks, first


MM_CHAIN_IDS = [0x0001, 0x0062, 0x005a, 0x0008, 0x0014, 0x0020, 0x2000, 0x7fff]


def xor_key(r, magic=None):
    """contents of xor.dat: random keys of the lengths a node writes (8) and others, all-zero keys, and structured keys — zero
    prefixes or suffixes with a non-zero rest, one non-zero byte, the bytes of the magic (the stored file then begins with zeros)"""
    k = r.random()
    n = r.choice([1, 2, 3, 7, 8, 8, 8, 9, 16, 31, 64, r.randrange(1, 65)])
    if k < 0.12:
        return bytes(n)
    if k < 0.40:
        n = r.choice([5, 8, 8, 9, 16, 64])
        kind = r.randrange(5)
        if kind == 0:
            z = r.choice([1, 2, 3, 4, 4, 4, n - 1])
            return bytes(z) + bytes(r.randrange(1, 256) for _ in range(n - z))
        if kind == 1:
            z = r.choice([1, 4, n - 1])
            return bytes(r.randrange(1, 256) for _ in range(n - z)) + bytes(z)
        if kind == 2:
            i = r.randrange(n)
            return bytes(i) + bytes([r.randrange(1, 256)]) + bytes(n - i - 1)
        if kind == 3 and magic is not None:
            return (magic + rb(r, n))[:max(4, n)]
        return bytes([r.randrange(1, 256)]) * n
    return rb(r, n)


def long_chain(r, coin, n, addresses=60, txs_per_block=1, spend_every=5, auxpow=False, growing=False):
    """n small linked blocks: what only shows at scale — hundreds of thousands of rows, counters and sums past 2^16 / 2^32 / 2^53 / 2^63,
    a UTXO map that grows and shrinks over a long history (outputs spent thousands of blocks after they were created), many distinct
    addresses, thousands of OP_RETURN lines.  Values are ~5*10^15 per coinbase so that the running volume leaves 2^53 after two blocks
    and 2^63 after ~1800, and stays below 2^64 for n <= 3500 (larger n scale the value down)."""
    pool = [b"\x76\xa9\x14" + rb(r, 20) + b"\x88\xac" for _ in range(addresses)]
    unit = (5 * 10**15) if n <= 3500 else (17 * 10**18) // (n + 1)
    blocks, prev, avail = [], b"\0" * 32, []
    ctr = 0          # every extra output pays the next address of the pool: `addresses` distinct scripts, then the first ones again
    for h in range(n):
        outs = [(unit + h, pool[(h * 7) % addresses])]
        if h % 7 == 0:
            outs.append((0, b"\x6a" + bytes([4 + h % 60]) + (b"n%06d" % h + b"." * 60)[:4 + h % 60]))
        sig = bytes([3, h & 255, (h >> 8) & 255, (h >> 16) & 255])
        if growing:
            # block sizes and gaps that drift over the chain: any figure computed over a window or a sample differs from the one over all
            sig += b"\x07" * (60 * h // n)
        cbx = K.Tx([(b"\0" * 32, 0xffffffff, sig, 0xffffffff)], outs)
        txs = [cbx]
        avail.append((cbx.txid(), 0))
        for j in range(txs_per_block - 1):
            txs.append(K.Tx([(rb(r, 32), j, b"\x01\x01", 0xffffffff)], [(1 + j, pool[ctr % addresses])]))
            ctr += 1
        if h % spend_every == spend_every - 1 and len(avail) > 3:
            # spends reach far back: the oldest unspent output and a random one
            ins = [avail.pop(0), avail.pop(r.randrange(len(avail)))]
            t = K.Tx([(a, i, b"\x01\x01", 0xffffffff) for a, i in ins], [(r.randrange(1, 10**12), pool[r.randrange(addresses)]), (7, pool[(h * 3) % addresses])])
            txs.append(t)
            avail += [(t.txid(), 0), (t.txid(), 1)]
        version = 1
        aux = None
        if auxpow and coin in K.AUXPOW:
            version = K.AUXPOW[coin] | (h & 0xff)
            aux = K.auxpow_section(r)
        b = K.Block(txs, prev=prev, version=version, time=(1231006505 + (600 * h if not growing else 300 * h + h * h // 40) + (r.randrange(-3000, 3000) if h % 11 == 0 else 0)) & 0xffffffff, nonce=h, auxpow=aux)
        prev = b.hash()
        blocks.append(b)
    return blocks
