"""Indexes with competitors: active chain + header-only, stale, failed and reorged-out records in forced key orders."""
import struct
from . import chain as K, gen_chain as GC


def grind(block, want_after, ref_hash, r):
    """changes the nonce until the block's hash sorts after (or before) ref_hash as a LevelDB key"""
    for _ in range(200):
        h = block.hash()
        if (h > ref_hash) == want_after:
            return block
        block.nonce = r.randrange(1 << 32)
    return block


def competitor_scenario(r, coin="bitcoin", callback="csvdump", T=None, kinds=None):
    """returns (scenario, active blocks).  Every competitor kind of the property's quantifier may appear."""
    T = T if T is not None else r.randrange(2, 8)
    scripts = lambda rr, c: GC.spk(rr, c, rr.choice(["p2pkh", "p2pkh", "p2sh", "opreturn"]))
    active = GC.gen_chain(r, coin, T + 1, max_txs=2, max_io=2, scripts=scripts, auxpow_mix=False)
    s = K.Scenario(coin=coin, callback=callback)
    comp_heights = []
    if r.random() < 0.4:
        # competitors' data sits at the FRONT of the very files the active chain jumps between (a stale block is the first
        # record of a file that is left and re-entered)
        names = GC.interleaved_layout(s, active, r, nfiles=r.choice([2, 3]), reserve=40000)
        comp_file_no = r.randrange(len(names))
        comp_name = names[comp_file_no]
    else:
        per_file = r.choice([None, 2, 3])
        GC.simple_layout(s, active, per_file=per_file, r=r, swap=r.choice([0.0, 0.0, 0.4]))     # sometimes in arrival order inside a file
        # competitors' data goes to a separate file
        comp_file_no = 7
        comp_name = K.blkname(comp_file_no)
    pos = [0]
    notes = []

    def store(b):
        raw = b.enc()
        off = s.place_block(comp_name, pos[0], raw)
        pos[0] = off + len(raw)
        return off

    def mkblock(prev, h):
        cb = K.Tx([(b"\0" * 32, 0xffffffff, bytes([3, h & 255, 77]) + GC.rb(r, 4), 0xffffffff)], [(50 * 10**8, GC.spk(r, coin, "p2pkh"))])
        extra = [K.Tx([(GC.rb(r, 32), 0, b"\x01\x01", 0xffffffff)], [(r.randrange(10**9), GC.spk(r, coin, "p2pkh"))]) for _ in range(r.randrange(0, 2))]
        return K.Block([cb] + extra, prev=prev, time=r.randrange(1, 1 << 31), nonce=r.randrange(1 << 32))

    kinds = kinds or ["header-only", "stale", "failed", "failed-child", "reorged", "stale-above", "failed-above", "header-above", "foreign-keys", "invalidated", "invalidated", "header-branch", "header-branch"]
    n_comp = r.randrange(1, 6)
    for _ in range(n_comp):
        kind = r.choice(kinds)
        if kind in ("header-only", "header-above"):
            h = r.randrange(0, T + 1) if kind == "header-only" else T + r.randrange(1, 4)
            prev = active[min(h, T + 1) - 1].hash() if h >= 1 else b"\0" * 32
            b = grind(mkblock(prev, h), r.random() < 0.5, active[min(h, T)].hash(), r)
            st = r.choice([K.VALID_HEADER, K.VALID_TREE])
            s.kvs.append(K.record(b.hash(), h, st, 0, 0, 0, b.header()))
            notes.append((kind, h))
        elif kind in ("stale", "stale-above"):
            h = r.randrange(1, T + 1) if kind == "stale" else T + 1
            prev = active[h - 1].hash()
            b = grind(mkblock(prev, h), r.random() < 0.7, active[min(h, T)].hash(), r)
            off = store(b)
            st = r.choice([K.VALID_TRANSACTIONS, K.VALID_TREE]) | K.HAVE_DATA
            s.kvs.append(K.record(b.hash(), h, st, len(b.txs), comp_file_no, off, b.header()))
            notes.append((kind, h))
        elif kind in ("failed", "failed-above", "failed-child"):
            h = r.randrange(1, T + 1) if kind != "failed-above" else T + r.randrange(1, 3)
            prev = active[min(h, T + 1) - 1].hash()
            b = grind(mkblock(prev, h), r.random() < 0.7, active[min(h, T)].hash(), r)
            with_data = r.random() < 0.7
            fail = (K.FAILED_VALID if kind != "failed-child" else K.FAILED_CHILD) if r.random() < 0.8 else (K.FAILED_VALID | K.FAILED_CHILD)
            st = r.choice([K.VALID_TRANSACTIONS, K.VALID_TREE]) | fail | (K.HAVE_DATA if with_data else 0) | (K.HAVE_UNDO if with_data and r.random() < 0.3 else 0)
            off = store(b) if with_data else 0
            s.kvs.append(K.record(b.hash(), h, st, len(b.txs), comp_file_no, off, b.header(), undo=5))
            notes.append((kind, h))
        elif kind == "invalidated":
            # a branch that was connected once (validity VALID_SCRIPTS, data + undo) and then invalidated (invalidateblock):
            # its fork block carries FAILED_VALID, the descendants FAILED_CHILD; it may reach above the active tip
            fork = r.randrange(0, T + 1)
            length = r.randrange(1, 4)
            prev = active[fork].hash()
            for j in range(length):
                h = fork + 1 + j
                b = grind(mkblock(prev, h), r.random() < 0.8, active[min(h, T)].hash(), r)
                off = store(b)
                st = K.ACTIVE | ((K.FAILED_VALID if j == 0 else K.FAILED_CHILD) if r.random() < 0.85 else (K.FAILED_VALID | K.FAILED_CHILD))
                s.kvs.append(K.record(b.hash(), h, st, len(b.txs), comp_file_no, off, b.header(), undo=11))
                prev = b.hash()
            notes.append((kind, fork, length))
        elif kind == "reorged" and T >= 3:
            # once-active branch forking below the tip, tip of the branch strictly below T
            fork = r.randrange(0, T - 1)
            length = r.randrange(1, min(5, T - fork - 1) + 1)
            prev = active[fork].hash()
            for j in range(length):
                h = fork + 1 + j
                b = grind(mkblock(prev, h), r.random() < 0.7, active[h].hash(), r)
                off = store(b)
                s.kvs.append(K.record(b.hash(), h, K.ACTIVE, len(b.txs), comp_file_no, off, b.header(), undo=9))
                comp_heights.append(h)
                prev = b.hash()
            notes.append((kind, fork, length))
        elif kind == "tie" and T >= 1:
            # a fully validated branch (VALID_SCRIPTS, data + undo) whose top sits at exactly the height of the active tip: which
            # of the two the parser follows is decided by the hash (max_by_key((height, hash))); no oracle, model vs code only
            fork = r.randrange(0, T)
            prev = active[fork].hash()
            for h in range(fork + 1, T + 1):
                b = grind(mkblock(prev, h), r.random() < 0.5, active[h].hash(), r)
                off = store(b)
                s.kvs.append(K.record(b.hash(), h, K.ACTIVE, len(b.txs), comp_file_no, off, b.header(), undo=9))
                prev = b.hash()
            notes.append((kind, fork, T))
        elif kind == "header-branch" and T >= 2:
            # a chain of header-only records (no data) that forks BELOW the active tip and reaches ABOVE it (headers-first sync of a
            # competing branch); optionally its lower part is a once-active, validated branch with data
            fork = r.randrange(0, T)
            top = T + r.randrange(1, 4)
            validated_part = r.randrange(0, max(1, T - fork)) if r.random() < 0.4 else 0
            prev = active[fork].hash()
            for h in range(fork + 1, top + 1):
                b = grind(mkblock(prev, h), r.random() < 0.7, active[min(h, T)].hash(), r)
                if h - fork <= validated_part and h < T:
                    off = store(b)
                    s.kvs.append(K.record(b.hash(), h, K.ACTIVE, len(b.txs), comp_file_no, off, b.header(), undo=9))
                    comp_heights.append(h)
                else:
                    s.kvs.append(K.record(b.hash(), h, r.choice([K.VALID_HEADER, K.VALID_TREE]), 0, 0, 0, b.header()))
                prev = b.hash()
            notes.append((kind, fork, top))
        elif kind == "foreign-keys":
            s.kvs.append((b"f" + struct.pack("<I", r.randrange(10)), GC.rb(r, 20)))
            s.kvs.append((b"l", struct.pack("<I", 3)))
            s.kvs.append((b"F" + b"\x07txindex", b"1"))
            s.kvs.append((b"R", b"\x00"))
            notes.append((kind,))
    if comp_name in s.files and not s.files[comp_name]["segs"]:
        del s.files[comp_name]
    r.shuffle(s.kvs)
    s.meta = {"T": T, "competitors": str(notes), "comp_heights": str(sorted(set(comp_heights)))}
    s._comp_heights = sorted(set(comp_heights))
    return s, active
