"""Spend histories for C07/C08/C15: chains whose transactions create and spend outputs in chosen patterns."""
import itertools
from . import chain as K, gen_chain as GC


def link(blocks):
    prev = b"\0" * 32
    for b in blocks:
        b.prev = prev
        b.merkle_root = None
        prev = b.hash()
    return blocks


def coinbase(h, outs, tag=None):
    return K.Tx([(b"\0" * 32, 0xffffffff, tag if tag is not None else bytes([3, h & 255, (h >> 8) & 255, 9]), 0xffffffff)], outs)


def random_history(r, coin, nblocks, shared_addresses=True, many_outputs=False, dup_coinbase=False):
    """blocks with intra-block spends, multi-input spends of one tx, unknown outpoints, address-less and zero-value outputs"""
    addr_pool = [GC.rb(r, 20) for _ in range(4)]
    key_pool = [b"\x02" + GC.rb(r, 32) for _ in range(2)]

    def script():
        k = r.random()
        if k < 0.45:
            return b"\x76\xa9\x14" + r.choice(addr_pool) + b"\x88\xac" if shared_addresses else GC.spk(r, coin, "p2pkh")
        if k < 0.55:
            return b"\x21" + r.choice(key_pool) + b"\xac"           # P2PK of a pooled key
        if k < 0.6:
            import hashlib
            key = r.choice(key_pool)
            h = hashlib.new("ripemd160", hashlib.sha256(key).digest()).digest() if "ripemd160" in hashlib.algorithms_available else GC.rb(r, 20)
            return b"\x76\xa9\x14" + h + b"\x88\xac"                  # P2PKH of the same key: same address as its P2PK
        if k < 0.7:
            return b"\xa9\x14" + r.choice(addr_pool) + b"\x87"
        return GC.spk(r, coin, r.choice(["opreturn", "multisig", "nonstd", "empty", "p2pkh"]))

    blocks, utxos = [], []
    for h in range(nblocks):
        n_cb = r.randrange(1, 4)
        tag = b"\x01\x01" if dup_coinbase else None
        cb_outs = [(r.choice([50 * 10**8, 0, 1, r.randrange(10**10)]), script() if not dup_coinbase else b"\x76\xa9\x14" + addr_pool[0] + b"\x88\xac") for _ in range(n_cb)]
        if dup_coinbase:
            cb_outs = [(50 * 10**8, b"\x76\xa9\x14" + addr_pool[0] + b"\x88\xac")]
        cb = coinbase(h, cb_outs, tag)
        txs = [cb]
        utxos += [(cb.txid(), i) for i in range(len(cb_outs))]
        for _ in range(r.randrange(0, 5)):
            nin = r.randrange(1, 4)
            ins = []
            for _ in range(nin):
                k = r.random()
                if utxos and k < 0.8:
                    op = utxos.pop(r.randrange(len(utxos)))
                elif k < 0.9:
                    op = (GC.rb(r, 32), r.randrange(3))                       # unknown outpoint
                else:
                    op = (txs[-1].txid(), r.randrange(300))                   # index that may not exist
                # scriptSig lengths on both sides of the one-byte / three-byte CompactSize boundary (a 2-of-3 script-hash spend is ~253 bytes)
                ins.append((op[0], op[1], b"\x01\x01" if r.random() < 0.7 else GC.rb(r, r.choice([0, 72, 107, 252, 253, 254, 255, 256, 300])), 0xffffffff))
            # a multi-input transaction one of whose inputs (often the first) is the null outpoint: it is NOT a coinbase
            # (a coinbase has exactly one input), so its other inputs spend what they name
            if nin >= 2 and r.random() < 0.15:
                ins[r.choice([0, 0, len(ins) - 1])] = (b"\0" * 32, 0xffffffff, b"\x01\x03", 0xffffffff)
            nout = r.choice([0, 1, 1, 2, 3, 4]) if not many_outputs else r.choice([1, 2, 252, 253, 254, 255, 256, 257, 300])
            outs = [(r.choice([0, 0, 1, r.randrange(10**9)]) if r.random() < 0.3 else r.randrange(10**9), script()) for _ in range(nout)]
            t = K.Tx(ins, outs)
            if r.random() < 0.08:
                # counts and lengths stored wider than necessary (fd 01 00 for 1, ...): the transaction's id is the hash of the bytes
                # as stored, and later inputs name it by that id
                t.w_in, t.w_out = r.choice([None, 3, 5]), r.choice([None, 3, 5, 9])
                if outs:
                    t.w_script[("o", r.randrange(len(outs)))] = r.choice([3, 5])
            txs.append(t)
            utxos += [(t.txid(), i) for i in range(nout)]
        # forward reference inside the block: an input naming an outpoint that a LATER transaction of the same block creates
        # (such an input must not remove it: only inputs of later transactions spend an output)
        if len(txs) >= 3 and r.random() < 0.4:
            i = r.randrange(1, len(txs) - 1)
            j = r.randrange(i + 1, len(txs))
            if txs[j].outs:
                ins = list(txs[i].ins)
                ins[0] = (txs[j].txid(), r.randrange(len(txs[j].outs)), b"\x01\x02", 0xffffffff)
                txs[i].ins = ins
        # a byte-identical copy of an earlier transaction of this block, after something spent the original's output
        if len(txs) >= 3 and r.random() < 0.15:
            k = r.randrange(1, len(txs))
            txs.append(K.Tx(list(txs[k].ins), list(txs[k].outs), version=txs[k].version, lock=txs[k].lock))
        blocks.append(K.Block(txs, time=1231006505 + 600 * h + r.choice([0, -900, 5]), nonce=r.randrange(1 << 32)))
    return link(blocks)


def tiny_histories(coin, max_txs=3):
    """bounded-exhaustive: up to `max_txs` non-coinbase txs over 2 blocks, each with 1 input (any earlier outpoint or an unknown one) and 1..2 outputs"""
    a1 = b"\x76\xa9\x14" + bytes([1]) * 20 + b"\x88\xac"
    a2 = b"\x76\xa9\x14" + bytes([2]) * 20 + b"\x88\xac"
    nul = b"\x6a\x01\x41"
    out_choices = [[(5, a1)], [(7, a1), (9, a2)], [(3, nul), (4, a1)]]
    hist = []
    for ntx in range(0, max_txs + 1):
        for placement in itertools.product([0, 1], repeat=ntx):            # which block each tx goes to
            if list(placement) != sorted(placement):
                continue
            for outsel in itertools.product(range(len(out_choices)), repeat=ntx):
                for spendsel in itertools.product(range(4), repeat=ntx):    # 0: cb0.0, 1: previous tx .0, 2: previous tx .1, 3: unknown
                    hist.append((placement, outsel, spendsel))
    def build(spec):
        placement, outsel, spendsel = spec
        cbs = [coinbase(0, [(50, a1), (1, a2)]), coinbase(1, [(50, a2)])]
        txs = [[cbs[0]], [cbs[1]]]
        prev_tx = cbs[0]
        for b, o, sp in zip(placement, outsel, spendsel):
            if sp == 0:
                op = (cbs[0].txid(), 0)
            elif sp == 1:
                op = (prev_tx.txid(), 0)
            elif sp == 2:
                op = (prev_tx.txid(), 1)
            else:
                op = (bytes([0xee]) * 32, 0)
            t = K.Tx([(op[0], op[1], b"", 0xffffffff)], out_choices[o])
            txs[b].append(t)
            prev_tx = t
        return link([K.Block(txs[0], time=1, nonce=1), K.Block(txs[1], time=2, nonce=2)])
    return hist, build


def utxo_oracle(blocks, first_height, has_address):
    """declarative reading of C07 on a delivered block list: {(txid, index): (height, value, script)} for outputs that carry an
    address, were created in the range and are not referenced by an input of any later tx (later in the same block included);
    a later output with the same (txid, index) replaces the earlier one"""
    ops = []
    for k, b in enumerate(blocks):
        for t in b.txs:
            for (ph, pi, _s, _q) in t.ins:
                ops.append(("spend", (ph, pi)))
            tid = t.txid()
            for i, (v, sc) in enumerate(t.outs):
                if has_address(sc):
                    ops.append(("create", (tid, i), (first_height + k, v, sc)))
    live = {}
    for idx, op in enumerate(ops):
        if op[0] == "create":
            later = any(o[1] == op[1] for o in ops[idx + 1:])
            if not later:
                live[op[1]] = op[2]
    return live
