"""Physical layouts of one logical chain: which blk file, which offset, what lies in between."""
import struct
from . import chain as K, gen_chain as GC


def layout(r, coin, blocks, callback="csvdump", huge=False, first_height=0):
    """random layout of `blocks` (heights first_height..); returns a Scenario"""
    s = K.Scenario(coin=coin, callback=callback)
    nfiles = r.choice([1, 1, 2, 3, 5, len(blocks)])
    pad = r.choice([1, 4, 5, 5, 8, 20])
    numbers = set()
    while len(numbers) < nfiles:
        numbers.add(r.choice([r.randrange(0, 10), r.randrange(0, 100000), r.randrange(0, 1 << 32), (1 << 64) - 1 - r.randrange(3), 0, 1]))
    numbers = list(numbers)
    names = {n: K.blkname(n, pad if r.random() < 0.8 else r.choice([1, 5, 12])) for n in numbers}
    cursor = {n: 0 for n in numbers}
    for n in numbers:
        s.add_file(names[n])
        if r.random() < 0.3:
            g = GC.rb(r, r.randrange(1, 64))
            s.put(names[n], 0, g)
            cursor[n] = len(g)
    order = list(range(len(blocks)))
    mode = r.choice(["sequential", "shuffled", "reversed", "interleaved"])
    if mode == "shuffled":
        r.shuffle(order)
    elif mode == "reversed":
        order.reverse()
    placements = {}
    for k, i in enumerate(order):
        n = numbers[k % nfiles] if mode == "interleaved" else r.choice(numbers)
        raw = blocks[i].enc()
        # optional garbage / an unindexed block / a hole before the block
        kind = r.random()
        if kind < 0.2:
            g = GC.rb(r, r.randrange(1, 300))
            s.put(names[n], cursor[n], g)
            cursor[n] += len(g)
        elif kind < 0.3:
            junk = GC.gen_chain(r, coin, 1, max_txs=1)[0].enc()
            off = s.place_block(names[n], cursor[n], junk)
            cursor[n] = off + len(junk)
        elif kind < 0.4:
            cursor[n] += r.randrange(1, 5000)          # hole (zeros)
        elif huge and kind < 0.5:
            cursor[n] += r.choice([1 << 32, (1 << 32) + 12345, 3 << 31])   # sparse: offsets beyond 4 GiB
        magic = r.choice([None, None, 0, 0xffffffff, r.choice(list(K.MAGIC.values()))])  # the magic is never read (another coin's neither)
        off = s.place_block(names[n], cursor[n], raw, magic=magic if magic is not None else None, size_field=None)
        cursor[n] = off + len(raw)
        placements[i] = (n, off)
    for i, b in enumerate(blocks):
        n, off = placements[i]
        s.kvs.append(K.record(b.hash(), first_height + i, K.ACTIVE | (K.OPT_WITNESS if r.random() < 0.3 else 0), len(b.txs), n, off, b.header(), undo=r.randrange(1 << 20), client=r.choice([259900, 160300, 2 ** 21, 70015])))
    # foreign keys and extra directory entries
    if r.random() < 0.7:
        for n in numbers[:3]:
            s.kvs.append((b"f" + struct.pack("<I", n & 0xffffffff), GC.rb(r, 12)))
        s.kvs.append((b"l", struct.pack("<I", 1)))
        s.kvs.append((b"F\x07txindex", b"\x01"))
        s.kvs.append((b"R", b"\x01"))
        s.kvs.append((b"a" + GC.rb(r, 32), GC.rb(r, 5)))
        s.kvs.append((b"c" + GC.rb(r, 32), GC.rb(r, 5)))
    if r.random() < 0.7:
        s.extra_files["rev%05d.dat" % 0] = GC.rb(r, 50)
        s.extra_files["blkindex.dat"] = GC.rb(r, 10)
        s.extra_files["blk.dat"] = GC.rb(r, 10)
        s.extra_files["blk00x01.dat"] = GC.rb(r, 10)
        s.extra_files["xblk00001.dat"] = GC.rb(r, 10)
        s.extra_files["blk00001.dat.bak"] = GC.rb(r, 10)
        # names that become a used file number if prefix/extension were stripped repeatedly: must be ignored
        for nm in list(names.values())[:2]:
            s.extra_files[nm + ".dat"] = GC.rb(r, 40)
            s.extra_files["blk" + nm] = GC.rb(r, 40)
            s.extra_files[nm + ".dat.dat"] = GC.rb(r, 40)
    # a blk file no record names
    unused = max(n for n in numbers if n < (1 << 63)) + 1 if any(n < (1 << 63) for n in numbers) else 5
    if unused not in numbers and r.random() < 0.5:
        nm = K.blkname(unused, 5)
        if nm not in names.values():
            s.put(nm, 0, GC.rb(r, 100))
    r.shuffle(s.kvs)
    s.meta = {"mode": mode, "nfiles": nfiles, "pad": pad, "huge": huge}
    return s
