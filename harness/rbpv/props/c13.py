"""C13 — output depends only on data directory and options, never on scheduling or reruns."""
import hashlib, os, shutil
from .. import bb, chain as K, gen_chain as GC, common as C

NAMESPACE = "Rbp.Props.C13"
REQUIRED = ["parcollect_any_schedule", "model_is_function", "row_sets_depend_on_content_only", "block_evaluation_schedule_independent"]
LEAN_FILES = ["Rbp/Model/Par.lean", "Rbp/Model/Run.lean"]
RULE = ("black-box: one data directory (blocks with up to hundreds of txs x up to 200 outputs, so rayon really splits the work; among them transactions of > 16 KiB and > 64 KiB) run repeatedly with RAYON_NUM_THREADS in {1,2,3,8,16,64}, also pinned to one CPU (taskset) for contention; "
        "csvdump files / opreturn lines / simplestats report must be byte-identical across runs, unspent and balances rows identical as sets, and equal to the model's; sequences of runs sharing one dump folder pre-seeded with stale *.tmp files and older results; "
        "SHA-256 of every blk*.dat / xor.dat before and after; kv content of the index (hook dumpindex) before and after, and second/third runs on the reopened index; indexes with two or three fully validated tips of equal height re-run 8 times (the choice of the tip must not depend on hash-map iteration order). non-trivial = a block with >= 50 txs or a rerun on shared state; distinct = distinct (scenario, threads, repetition)")
ASSUMPTIONS = ["partial: rayon's scheduler and LevelDB's recovery are exercised, not modelled"]

THREADS = [1, 2, 3, 8, 16, 64]
CALLBACKS = ["csvdump", "unspentcsvdump", "balances", "opreturn", "simplestats"]


def canon(cb, res):
    if cb == "csvdump":
        return ("files", tuple(sorted(res.final_files().items())), res.totals())
    if cb in ("unspentcsvdump", "balances"):
        return ("rowsets", tuple(sorted((n, tuple(sorted(b.splitlines()))) for n, b in res.final_files().items())))
    if cb == "opreturn":
        return ("stdout", res.plain_stdout())
    st = res.stats()
    return ("stats", repr(sorted((k, (sorted(v.items()) if isinstance(v, dict) else v)) for k, v in (st or {}).items())))


def comparators(cb):
    c = [bb.cmp_exit, bb.cmp_names]
    if cb in ("csvdump", "unspentcsvdump", "balances"):
        c.append(bb.cmp_rows)
    elif cb == "opreturn":
        c.append(bb.cmp_opreturn)
    else:
        c.append(bb.cmp_stats)
    return c


def tree_hashes(d):
    out = {}
    for n in sorted(os.listdir(d)):
        p = os.path.join(d, n)
        if os.path.isfile(p):
            with open(p, "rb") as f:
                out[n] = hashlib.sha256(f.read()).hexdigest()
    return out


def dumpindex(d):
    p = C.run([C.IMPL, "verif-hook", "dumpindex", os.path.join(d, "index")], check=True)
    return p.stdout


def correspondence(ctx):
    r = ctx.sub_rnd("c13")
    for i in range(ctx.n(5, 30)):
        cb = CALLBACKS[i % 5]
        coin = ["bitcoin", "litecoin", "dogecoin"][i % 3]
        # a small pool of hashes shared by P2PKH and P2SH outputs (adjacent outputs often carry the SAME 20 bytes under different
        # templates): a verdict must not depend on what the same worker thread evaluated just before
        pool = [GC.rb(r, 20) for _ in range(3)]
        def scripts(rr, c, pool=pool):
            k = rr.random()
            if k < 0.35:
                return b"\x76\xa9\x14" + rr.choice(pool) + b"\x88\xac"
            if k < 0.7:
                return b"\xa9\x14" + rr.choice(pool) + b"\x87"
            return GC.spk(rr, c, rr.choice(["p2pkh", "p2sh", "opreturn", "p2pk33", "multisig", "nonstd"]))
        blocks = GC.gen_chain(r, coin, r.randrange(2, 5), max_txs=1, big=r.choice([60, 150, 400 if ctx.thorough() else 90]), max_io=r.choice([3, 30, 200 if i % 2 else 8]), scripts=scripts)
        # oversize transactions in the middle of the crowd (> 16 KiB by output count, > 64 KiB by one script): whatever a worker
        # thread keeps between transactions (scratch buffers, stacks) must not leak from a large one into the next
        tb = blocks[-1]
        wide = K.Tx([(GC.rb(r, 32), 0, b"\x01\x01", 0xffffffff)], [(j + 1, scripts(r, coin)) for j in range(r.choice([520, 700]))])
        fat = K.Tx([(GC.rb(r, 32), 1, GC.rb(r, r.choice([17000, 40000])), 0xffffffff)], [(5, b"\x6a\x4e" + (70000).to_bytes(4, "little") + GC.rb(r, 70000)), (6, scripts(r, coin))])
        tb.txs.insert(len(tb.txs) // 3, wide)
        tb.txs.insert(2 * len(tb.txs) // 3, fat)
        blocks[0].txs.insert(1, K.Tx([(GC.rb(r, 32), 2, b"\x01\x02", 0xffffffff)], [(j + 1, scripts(r, coin)) for j in range(600)]))
        # ties for the record figures (biggest value, biggest size) among transactions far apart in one block: however the block is
        # cut into pieces for the worker threads, the FIRST of them in block order is the one reported
        champion_out = [(3 * 10**17, scripts(r, coin)), (1, b"\x6a\x4d\x00\x7d" + bytes(32000))]     # above every other tx in value (and, bar `fat`, in size)
        for posf in (0.1, 0.45, 0.8, 0.97):
            tb.txs.insert(max(1, int(len(tb.txs) * posf)), K.Tx([(GC.rb(r, 32), 3, b"\x01\x01", 0xffffffff)], list(champion_out)))
        prev = None
        for b in blocks:
            if prev is not None:
                b.prev = prev
            b.merkle_root = None
            prev = b.hash()
        s = K.Scenario(coin=coin, callback=cb)
        GC.simple_layout(s, blocks, per_file=2)
        if i % 2:
            s.xorkey = GC.rb(r, 8)
        if i % 3 == 0:
            # under --verify too: the merkle root of a block with hundreds of transactions is the same number for every size of the pool
            s.verify, s.start = True, 1
        s.meta = {"i": i, "txs": max(len(b.txs) for b in blocks)}
        # model once
        impl0, model0 = bb.check(ctx, "schedules:" + cb, [s], comparators(cb))
        base = C.scratch()
        try:
            d, dump = os.path.join(base, "data"), os.path.join(base, "dump")
            s.write_dir(d)
            os.makedirs(dump)
            # pre-existing content of the dump folder: stale tmp files and an older result under the same final name
            for n in list(impl0[0].final_files()) + ["blocks.csv.tmp", "unspent.csv.tmp", "balances.csv.tmp", "tx_out.csv.tmp"]:
                with open(os.path.join(dump, n), "wb") as f:
                    # longer than anything this run writes: a tmp file opened without truncation would keep the tail
                    f.write(b"stale content that must not survive\n" * (3 if n.endswith(".csv") else 60000))
            before = tree_hashes(d)
            kv_before = dumpindex(d)
            ref = canon(cb, impl0[0])
            reps = 2 if not ctx.thorough() else 4
            for th in THREADS:
                for rep in range(reps):
                    s.threads = th
                    wrapper = ["taskset", "-c", "0"] if (rep % 2 == 1) else None
                    res = s.run_impl(datadir=d, dump=dump, wrapper=wrapper)
                    ctx.mark(("sched", i, th, rep), True)
                    ctx.traces += 1
                    ctx.families["threads=%d" % th] += 1
                    got = canon(cb, res)
                    stale = [n for n, b in res.files.items() if b.startswith(b"stale content") and n.endswith(".csv")]
                    left_tmp = [n for n in res.tmp_files() if cb != "opreturn" and cb != "simplestats" and n.split(".")[0] in ("blocks", "transactions", "tx_in", "tx_out", "unspent", "balances") and (cb == "csvdump") == (n.split(".")[0] in ("blocks", "transactions", "tx_in", "tx_out"))]
                    if res.exit != 0 or got != ref or stale:
                        ctx.disagree("schedules", dict(bb.describe(s), threads=th, repetition=rep, pinned=bool(wrapper)), {"exit": res.exit, "differs_from_first_run": got != ref, "stale_final_files": stale, "stderr": res.stderr.decode(errors="replace")[-200:]},
                                     {"expected": "identical to the first run and to the model"}, True, {"scenario": bb.scenario_dump(s) if sum(f["size"] for f in s.files.values()) < 300000 else None, "observable": "rerun-identical"})
                    if cb in ("csvdump", "unspentcsvdump", "balances") and any(b.startswith(b"stale content") for n, b in res.files.items() if n in ("blocks.csv.tmp", "unspent.csv.tmp", "balances.csv.tmp") and ((cb == "csvdump") == n.startswith("blocks")) and (cb != "balances" or n.startswith("balances")) and (cb != "unspentcsvdump" or n.startswith("unspent"))):
                        ctx.disagree("schedules", dict(bb.describe(s), threads=th), {"stale_tmp_survived": sorted(res.tmp_files())}, {"expected": "this run's tmp names are recreated and renamed away"}, True, {"observable": "stale-tmp"})
            after = tree_hashes(d)
            kv_after = dumpindex(d)
            if before != after:
                ctx.disagree("reads-only", bb.describe(s), {"changed": [n for n in before if before[n] != after.get(n)]}, {"expected": "blk*.dat and xor.dat untouched"}, True, {"observable": "data-files-modified"})
            if kv_before != kv_after:
                ctx.disagree("reads-only", bb.describe(s), {"kv_before": len(kv_before.splitlines()), "kv_after": len(kv_after.splitlines())}, {"expected": "index kv content unchanged"}, True, {"observable": "index-content-modified"})
        finally:
            C.rmtree(base)
    equal_tips(ctx, r)
    repeated_layouts(ctx, r)
    big_index(ctx, r)
    adjacent_results(ctx, r)


def adjacent_results(ctx, r):
    """the dump folder already holds the COMPLETE results of an earlier run over the range just below (`…-0-(s-1).csv`, every
    callback's) and of one over the same range: a run with --start s must produce what it produces in an empty folder, and must
    leave those earlier files as they were"""
    for cb in ("unspentcsvdump", "balances", "csvdump"):
        for rep in range(ctx.n(2, 6)):
            coin = ["bitcoin", "litecoin"][rep % 2]
            from .. import gen_history as GH
            blocks = GH.random_history(r, coin, 7)
            T = len(blocks) - 1
            st = r.randrange(1, T)
            base = K.Scenario(coin=coin, callback=cb)
            GC.simple_layout(base, blocks)
            fresh = K.Scenario(coin=coin, callback=cb, start=st)
            fresh.kvs, fresh.files = base.kvs, base.files
            ref = fresh.run_impl()
            scratch = C.scratch()
            try:
                d, dump = os.path.join(scratch, "data"), os.path.join(scratch, "dump")
                base.write_dir(d)
                os.makedirs(dump)
                earlier = {}
                for cb0 in ("unspentcsvdump", "balances", "csvdump"):
                    for (s0, e0) in ((0, st - 1), (st, None)):
                        if s0 == 0 and e0 == 0:
                            continue       # a range needs start < end
                        e = K.Scenario(coin=coin, callback=cb0, start=s0, stop=e0)
                        e.kvs, e.files = base.kvs, base.files
                        rr = e.run_impl(datadir=d, dump=dump)
                        earlier.update(rr.final_files())
                res = fresh.run_impl(datadir=d, dump=dump)
            finally:
                C.rmtree(scratch)
            ctx.mark(("adjacent", cb, rep), True)
            ctx.families["adjacent-results"] += 1
            ctx.traces += 1
            problems = []
            mine = set(ref.final_files())
            if res.exit != ref.exit:
                problems.append(("exit", res.exit, ref.exit))
            for n in mine:
                a, b = res.files.get(n), ref.files.get(n)
                same = a == b if cb == "csvdump" else (a is not None and sorted(a.splitlines()) == sorted(b.splitlines()))
                if not same:
                    problems.append(("result-depends-on-earlier-results", n, None))
            for n, content in earlier.items():
                if n not in mine and res.files.get(n) != content:
                    problems.append(("earlier-result-changed", n, None))
            if problems:
                ctx.disagree("adjacent-results", {"callback": cb, "coin": coin, "start": st, "tip": T}, {"problems": [list(map(str, p)) for p in problems[:4]]},
                             {"expected": "same result as in an empty dump folder; earlier results untouched"}, True, {"scenario": bb.scenario_dump(fresh), "observable": problems[0][0]})


def big_index(ctx, r):
    """an index whose write-ahead log exceeds LevelDB's 4 MiB memtable (opening it makes LevelDB compact and write a manifest edit),
    and one that has been reopened and appended to several times (several live logs / level-0 tables): after a run the index must
    still open and hold exactly the same key/value pairs, and the output must be what the same chain gives with a small index"""
    blocks = GC.gen_chain(r, "bitcoin", 4, max_txs=2, max_io=2, auxpow_mix=False)
    small = K.Scenario(coin="bitcoin", callback="csvdump")
    GC.simple_layout(small, blocks)
    ref = small.run_impl()
    for variant in ("one-big-log", "many-small-batches"):
        s = K.Scenario(coin="bitcoin", callback="csvdump")
        GC.simple_layout(s, blocks)
        junk = [(b"t" + GC.rb(r, 32), GC.rb(r, 900)) for _ in range(6500 if variant == "one-big-log" else 1500)]
        s.kvs = list(s.kvs) + junk
        if variant == "one-big-log":
            s.index_write_buffer = 64 << 20        # the writer's memtable is larger than the reader's: everything stays in ONE log of ~6 MB
        base = C.scratch()
        try:
            d, dump = os.path.join(base, "data"), os.path.join(base, "dump")
            s.write_dir(d)
            os.makedirs(dump)
            extra_written = []
            if variant == "many-small-batches":
                # reopen + append a few more records several times: more log files / tables than a freshly written index has
                # exactly three appends: with the initial write that leaves FOUR level-0 tables, the state in which the next open has to
                # compact (a fifth session would already have compacted them away while appending)
                for k in range(3):
                    extra = K.Scenario(coin="bitcoin")
                    extra.kvs = [(b"u" + GC.rb(r, 32), GC.rb(r, 700)) for _ in range(400)]
                    C.run([C.IMPL, "verif-hook", "mkindex", os.path.join(d, "index")], input="\n".join("%s %s" % (kk.hex(), vv.hex()) for kk, vv in extra.kvs) + "\n", check=False)
                    extra_written += extra.kvs
            # expected content straight from what was written (opening the index to dump it would itself make LevelDB compact,
            # and the run under test would find nothing left to do)
            want = {}
            for kk, vv in list(s.kvs) + extra_written:
                want[kk] = vv
            kv_before = "".join("%s %s\n" % (kk.hex(), vv.hex()) for kk, vv in sorted(want.items())).encode()
            files_before = sorted(os.listdir(os.path.join(d, "index")))
            res = s.run_impl(datadir=d, dump=dump)
            res2 = s.run_impl(datadir=d, dump=dump)
            try:
                kv_after = dumpindex(d)
            except Exception as e:
                kv_after = ("index no longer opens: %r" % e).encode()
        finally:
            C.rmtree(base)
        ctx.mark(("big-index", variant), True)
        ctx.families["big-index"] += 1
        ctx.traces += 2
        problems = []
        if res.exit != 0 or res2.exit != 0:
            problems.append(("exit", res.exit, res2.exit))
        if canon("csvdump", res) != canon("csvdump", ref) or canon("csvdump", res2) != canon("csvdump", ref):
            problems.append(("output-differs-from-small-index-run", None, None))
        if kv_before != kv_after:
            problems.append(("index-content-modified", len(kv_before.splitlines()), kv_after[:120].decode(errors="replace") if len(kv_after) < 300 else len(kv_after.splitlines())))
        if problems:
            ctx.disagree("big-index", {"variant": variant, "n_kv": len(s.kvs), "index_files": files_before[:8]}, {"problems": [list(map(str, p)) for p in problems]}, {"expected": "same output as with a small index; index content unchanged and reopenable"}, True,
                         {"observable": problems[0][0]})


def equal_tips(ctx, r):
    """two fully validated tips of equal height (a one-block fork at the tip, both sides connected once): which one is the
    tip is a matter of definition, but it must be the same one on every run (and the model's: highest (height, hash))"""
    from .. import gen_index as GI
    for i in range(ctx.n(6, 30)):
        cb = ["csvdump", "balances", "opreturn"][i % 3]
        scripts = lambda rr, c: GC.spk(rr, c, rr.choice(["p2pkh", "p2sh", "opreturn"]))
        T = r.randrange(2, 6)
        active = GC.gen_chain(r, "bitcoin", T + 1, max_txs=2, max_io=2, scripts=scripts)
        s = K.Scenario(coin="bitcoin", callback=cb)
        GC.simple_layout(s, active, per_file=2)
        # competitor tip(s) at height T on top of active[T-1], fully validated, with data
        pos = 0
        for j in range(r.randrange(1, 4)):
            cbx = K.Tx([(b"\0" * 32, 0xffffffff, bytes([3, T & 255, 99, j]), 0xffffffff)], [(50 * 10**8, GC.spk(r, "bitcoin", "p2pkh")), (0, b"\x6a\x03alt")])
            b = K.Block([cbx], prev=active[T - 1].hash(), time=r.randrange(1, 1 << 31), nonce=r.randrange(1 << 32))
            raw = b.enc()
            off = s.place_block(K.blkname(9), pos, raw)
            pos = off + len(raw)
            s.kvs.append(K.record(b.hash(), T, K.ACTIVE, 1, 9, off, b.header(), undo=3))
        r.shuffle(s.kvs)
        s.meta = {"equal-tips": i}
        impl0, model0 = bb.check(ctx, "equal-tips:" + cb, [s], comparators(cb), nontrivial=lambda s, m: True)
        ref = canon(cb, impl0[0])
        sd = bb.SharedDir(s)
        try:
            for rep in range(ctx.n(8, 20)):
                d = sd.clone()
                try:
                    res = s.run_impl(datadir=os.path.join(d, "data"))
                finally:
                    C.rmtree(d)
                ctx.mark(("equal-tips", i, rep), True)
                ctx.families["equal-tips-rerun"] += 1
                if res.exit != 0 or canon(cb, res) != ref:
                    ctx.disagree("equal-tips-rerun", dict(bb.describe(s), repetition=rep), {"exit": res.exit, "differs_from_first_run": True}, {"expected": "identical on every run"}, True,
                                 {"scenario": bb.scenario_dump(s), "observable": "rerun-identical"})
                    break
        finally:
            sd.close()


def repeated_layouts(ctx, r):
    """arbitrary physical layouts (several blk files in any numbering, bytes that are no record in front of the first block of a
    file, preallocated tails, magics that are never read, unused files, foreign index keys), headers with timestamps ahead of this
    machine's clock, with and without --verify: equal to the model's answer, and the same on every one of a handful of reruns —
    whatever a run consults besides the data directory and the options (the clock, a per-process hash seed) shows as a difference"""
    import time
    from .. import gen_layout as GL
    for i in range(ctx.n(15, 80)):
        coin = K.COINS[i % 8]
        cb = CALLBACKS[i % 5]
        blocks = GC.gen_chain(r, coin, r.randrange(3, 8), max_txs=2, max_io=3)
        k = r.randrange(1, len(blocks))
        blocks[k].time = r.choice([0xffffffff, int(time.time()) + 2 * 3600 + r.choice([5, 60, 3600]), 4102444800])
        prev = blocks[k - 1].hash()
        for b in blocks[k:]:
            b.prev = prev
            prev = b.hash()
        s = GL.layout(r, coin, blocks, callback=cb)
        if i % 2 == 0:
            s.verify, s.start = True, 1
        s.meta = dict(s.meta, layouts=i)
        impl0, model0 = bb.check(ctx, "repeated-layouts:" + cb, [s], comparators(cb), nontrivial=lambda s, m: True)
        ref = canon(cb, impl0[0])
        sd = bb.SharedDir(s)
        try:
            for rep in range(ctx.n(5, 12)):
                d = sd.clone()
                try:
                    res = s.run_impl(datadir=os.path.join(d, "data"))
                finally:
                    C.rmtree(d)
                ctx.mark(("layouts", i, rep), True)
                ctx.families["repeated-layouts-rerun"] += 1
                if res.exit != impl0[0].exit or canon(cb, res) != ref:
                    ctx.disagree("repeated-layouts-rerun", dict(bb.describe(s), repetition=rep), {"exit": res.exit, "first_run_exit": impl0[0].exit, "differs_from_first_run": True, "stderr": res.stderr.decode(errors="replace")[-200:]},
                                 {"expected": "identical on every run"}, True, {"scenario": bb.scenario_dump(s), "observable": "rerun-identical"})
                    break
        finally:
            sd.close()


def replay(ctx, rep, corpus=None):
    d = rep.get("failing_input", rep)
    cb = (d.get("scenario") or {}).get("callback", "csvdump")
    bb.replay_scenario(ctx, rep, comparators(cb))
    if d.get("observable") == "rerun-identical" and d.get("scenario"):
        # a difference between runs: the scenario is run a dozen times more, each compared with the first
        s = bb.scenario_load(d["scenario"])
        ref = None
        for k in range(12):
            res = s.run_impl()
            ctx.families["replay-rerun"] += 1
            if ref is None:
                ref = (res.exit, canon(cb, res))
            elif (res.exit, canon(cb, res)) != ref:
                ctx.disagree("replay-rerun", dict(bb.describe(s), repetition=k), {"exit": res.exit, "first_run_exit": ref[0], "differs_from_first_run": True}, {"expected": "identical on every run"}, True,
                             {"scenario": d["scenario"], "observable": "rerun-identical"})
                break
