"""C12 — AuxPoW headers are skipped exactly, leaving block hash and txs unaffected."""
import struct
from .. import bb, chain as K, gen_chain as GC

NAMESPACE = "Rbp.Props.C12"
REQUIRED = ["auxpow_consumed", "threshold_exact", "thresholds_published"]
LEAN_FILES = ["Rbp/Model/AuxPow.lean", "Rbp/Model/Block.lean", "Rbp/Model/Wire.lean"]
RULE = ("hook `block` (real read_block vs Lean reader, every field incl. AuxPoW summary) and black-box csvdump/--verify on namecoin and dogecoin chains whose block versions sit below / at / above the "
        "activation version, with parent coinbases legacy and segwit, branch lengths 0..40 and 252..300 (both sides of the one-byte CompactSize limit; 65536+ in thorough), arbitrary masks; the six other coins with the same high versions as negative control (no section read); "
        "each AuxPoW block is additionally compared with the same block stripped of its section (hash, txs, rows equal). non-trivial = block carries an AuxPoW section or sits at a threshold boundary")
ASSUMPTIONS = ["on AuxPoW coins a block at/above the threshold carries a section (else the reader misparses, as any reader of the format would)"]

CMP = [bb.cmp_exit, bb.cmp_names, bb.cmp_rows, bb.cmp_totals]


def aux_block(r, coin, version, with_section, n1=None, n2=None, segwit_cb=False, parent_version=None):
    cb = K.Tx([(b"\0" * 32, 0xffffffff, GC.rb(r, r.randrange(2, 40)), 0xffffffff)], [(50 * 10**8, GC.spk(r, coin, "p2pkh"))])
    txs = [cb] + [K.Tx([(GC.rb(r, 32), r.randrange(3), GC.rb(r, r.randrange(0, 80)), 0xffffffff)], [(r.randrange(10**9), GC.spk(r, coin))]) for _ in range(r.randrange(0, 3))]
    sec = None
    if with_section:
        pcb = K.Tx([(b"\0" * 32, 0xffffffff, GC.rb(r, r.randrange(2, 100)), 0xffffffff)], [(r.randrange(1 << 40), b"\x51"), (0, b"\x6a\x24" + GC.rb(r, 36))])
        if segwit_cb:
            pcb.segwit = (1, 1, [[GC.rb(r, 32)]])
        sec = K.auxpow_section(r, coinbase=pcb, nbranch1=n1, nbranch2=n2, parent_version=parent_version)
    return K.Block(txs, prev=GC.rb(r, 32), version=version, time=r.randrange(1, 1 << 32), nonce=r.randrange(1 << 32), auxpow=sec)


def hook_part(ctx, r):
    reqs, meta = [], []
    for coin in K.COINS:
        th = K.AUXPOW.get(coin)
        versions = [0x10100, 0x10101, 0x10102, 0x620101, 0x620102, 0x620103, 1, 0xffffffff, 0x7fffffff]
        # the threshold is ONE 32-bit comparison: versions above it whose low (or high) 16 bits taken alone are below the
        # threshold's, chain-id style versions of merged-mined coins, and versions below it whose low half is above
        for base in (0x10101, 0x620102):
            lo, hi = base & 0xffff, base >> 16
            versions += [((hi + 1) << 16), ((hi + 1) << 16) | (lo - 1), ((hi + 5) << 16) | 4, (hi << 16) | 0xffff, ((hi - 1) << 16) | 0xffff if hi else lo,
                         0x00020000, 0x20000000, 0x20000002, 0x00630004, 0x00010000 | lo, 0x80000000, 0x80000000 | base, 0x00ff0000, 0x01000000]
        versions += [r.randrange(0x10000, 1 << 32) & ~0xffff | r.randrange(0, 0x102) for _ in range(4)] + [r.randrange(1 << 32) for _ in range(4)]
        versions = list(dict.fromkeys(versions))
        for v in versions:
            for k in range(ctx.n(3, 20)):
                want = th is not None and v >= th
                b = aux_block(r, coin, v, want, n1=r.choice([0, 1, 12, 32, 40, 252, 253, 254, 300, None]), n2=r.choice([0, 1, 5, 252, 253, 255, None]), segwit_cb=r.random() < 0.3)
                raw = b.enc()
                reqs.append("%s %d %s" % (coin, len(raw), raw.hex()))
                meta.append((coin, v, b, want))
    # the parent coinbase's scriptSig is opaque: a merged-mining tag (fa be 6d 6d + 32-byte root + size + nonce) complete, cut short
    # at every length, repeated, or at the very end of the script must not matter
    tag = bytes.fromhex("fabe6d6d")
    full = tag + GC.rb(r, 32) + struct.pack("<II", 1, 0)
    for coin in ("namecoin", "dogecoin"):
        for cut in [4, 5, 20, 36, 40, 43, 44]:
            for pre in (b"", b"\x03\x01\x02\x03"):
                sig = pre + full[:cut]
                for suf in ((b"", b"/pool/") if cut == 44 else (b"",)):
                    pcb = K.Tx([(b"\0" * 32, 0xffffffff, sig + suf, 0xffffffff)], [(r.randrange(1 << 40), b"\x51")])
                    cbx = K.Tx([(b"\0" * 32, 0xffffffff, GC.rb(r, 8), 0xffffffff)], [(50 * 10**8, GC.spk(r, coin, "p2pkh"))])
                    b = K.Block([cbx], prev=GC.rb(r, 32), version=K.AUXPOW[coin] + 1, time=5, nonce=7, auxpow=K.auxpow_section(r, coinbase=pcb, nbranch1=2, nbranch2=1))
                    raw = b.enc()
                    reqs.append("%s %d %s" % (coin, len(raw), raw.hex()))
                    meta.append((coin, K.AUXPOW[coin] + 1, b, True))
    if ctx.thorough():
        for coin in ("namecoin", "dogecoin"):
            b = aux_block(r, coin, K.AUXPOW[coin], True, n1=0x10000, n2=0xffff)
            raw = b.enc()
            reqs.append("%s %d %s" % (coin, len(raw), raw.hex()))
            meta.append((coin, K.AUXPOW[coin], b, True))
    impl = ctx.hook("block", reqs)
    model = ctx.model("block", reqs)
    strip_reqs, strip_meta = [], []
    for (coin, v, b, want), q, a, m in zip(meta, reqs, impl, model):
        ctx.mark(q, want or (K.AUXPOW.get(coin) is not None and abs(v - K.AUXPOW[coin]) <= 1))
        ctx.families["hook-block:%s" % ("aux" if want else "plain")] += 1
        ctx.dist["coin=" + coin] += 1
        if a != m:
            k = next((i for i, (x, y) in enumerate(zip(a.split(), m.split())) if x != y), None)
            ctx.disagree("hook-block", "block " + q[:200] + "…", " ".join(a.split()[max(0, (k or 0) - 2):(k or 0) + 3])[:300], " ".join(m.split()[max(0, (k or 0) - 2):(k or 0) + 3])[:300], True, {"full_request": q, "version": v})
        if want:
            # transparency: same block without the section, parsed on a coin without AuxPoW with the same version byte semantics
            plain = K.Block(b.txs, prev=b.prev, version=b.version, time=b.time, bits=b.bits, nonce=b.nonce)
            strip_reqs.append((q, a, "%s %d %s" % (coin, len(b.enc()), plain.enc().hex())))
    # the implementation's own answers for the stripped block on a non-AuxPoW coin: everything but the A/N token must agree
    if strip_reqs:
        alt = {"namecoin": "litecoin", "dogecoin": "litecoin"}
        def norm(ans):
            t = ans.split()
            if len(t) > 12 and t[12] == "A":
                del t[12:20]
                t.insert(12, "N")
            return t
        for (q, a, sq) in strip_reqs[: ctx.n(200, 2000)]:
            coin = sq.split()[0]
            ver_same = coin  # same coin cannot parse it without the section; use a control coin and ignore addresses
            req = sq.replace(coin, alt[coin], 1)
            a2 = ctx.hook("block", [req])[0]
            ta, tb = norm(a), norm(a2)
            # addresses differ between coins (version byte): drop the address token of every O-group
            def drop_addr(t):
                out, i = [], 0
                while i < len(t):
                    if t[i] == "O":
                        out.extend(t[i:i + 4]); i += 5
                    else:
                        out.append(t[i]); i += 1
                return out
            ctx.mark(("strip", sq[:80]), True)
            if drop_addr(ta)[2:] != drop_addr(tb)[2:]:
                ctx.disagree("aux-transparent", "block " + q[:200] + "…", " ".join(ta[:14]), " ".join(tb[:14]), True, {"full_request": q})
    ctx.add_sample({"request": "block " + reqs[0][:200] + "…", "impl": impl[0][:200], "model": model[0][:200]})


def correspondence(ctx):
    r = ctx.sub_rnd("c12")
    hook_part(ctx, r)
    scns = []
    for i in range(ctx.n(24, 300)):
        coin = ["namecoin", "dogecoin", "namecoin", "dogecoin", "litecoin", "bitcoin", "myriadcoin", "unobtanium", "noteblockchain", "testnet3"][i % 10]
        blocks = GC.gen_chain(r, "namecoin" if coin not in K.AUXPOW else coin, r.randrange(3, 9), max_txs=3, auxpow_mix=True)
        if coin not in K.AUXPOW:
            # negative control: high versions, no section
            for b in blocks:
                b.auxpow = None
            prev = b"\0" * 32
            for b in blocks:
                b.prev = prev
                prev = b.hash()
        s = K.Scenario(coin=coin, callback="csvdump")
        GC.simple_layout(s, blocks, per_file=r.choice([None, 2]))
        if i % 3 == 0:
            s.verify, s.start = True, 1
        s.meta = {"i": i}
        scns.append(s)
    # long merkle branches in ONE blk file read front to back by one reader: the file is several times the 32 KiB read buffer
    # and almost all of it is branch hashes, so buffer refills fall INSIDE branches (a section must be consumed exactly even
    # when the underlying reader returns short at a refill boundary)
    for coin in ("namecoin", "dogecoin"):
        blocks = GC.gen_chain(r, coin, 12 if not ctx.thorough() else 30, max_txs=2, auxpow_mix=False)
        for b in blocks[1:]:
            b.version = K.AUXPOW[coin] + r.randrange(0, 3)
            b.auxpow = K.auxpow_section(r, nbranch1=r.randrange(100, 140), nbranch2=r.randrange(100, 140))
        prev = blocks[0].hash()
        for b in blocks[1:]:
            b.prev = prev
            prev = b.hash()
        for key, xor in ((None, None), ("k", bytes([7, 1, 2, 3, 4, 5, 6, 9]))):
            s = K.Scenario(coin=coin, callback="csvdump")
            s.xorkey = xor
            GC.simple_layout(s, blocks)
            s.meta = {"straddle": coin, "xor": bool(xor)}
            scns.append(s)
    # whole runs, with and without --verify, over AuxPoW blocks whose own version and whose PARENT header's version take the
    # values merged mining produces: chain-id style versions (high half = a chain id, also the coin's own), version-bits
    # versions, and the threshold's neighbours.  The section is opaque: nothing in it may influence acceptance or output
    special = [0x00010101, 0x00010000, 0x0001ffff, 0x00620004, 0x00620102, 0x00620000, 1, 2, 0x20000000, 0x00020000, 0x7fffffff, 0xffffffff]
    for k in range(ctx.n(12, 80)):
        coin = ["namecoin", "dogecoin"][k % 2]
        th = K.AUXPOW[coin]
        blocks = GC.gen_chain(r, coin, 7, max_txs=2, auxpow_mix=False)
        for j, b in enumerate(blocks[1:]):
            b.version = r.choice([th, th + 1, ((th >> 16) + 1) << 16, 0x20000000, 0x00630004 if coin == "dogecoin" else 0x00020000, (th & ~0xffff) + 0x10000 + r.randrange(0, th & 0xffff)])
            b.auxpow = K.auxpow_section(r, nbranch1=r.randrange(0, 6), nbranch2=r.randrange(0, 4), parent_version=special[(k + j) % len(special)])
        prev = blocks[0].hash()
        for b in blocks[1:]:
            b.prev = prev
            prev = b.hash()
        s = K.Scenario(coin=coin, callback=r.choice(["csvdump", "csvdump", "unspentcsvdump"]))
        GC.simple_layout(s, blocks)
        if k % 2 == 0 or k % 3 == 0:
            s.verify, s.start = True, 1
        s.meta = {"parent-versions": k}
        scns.append(s)
    bb.check(ctx, "auxpow-chains", scns, CMP, nontrivial=lambda s, m: s.coin in K.AUXPOW)


def replay(ctx, rep, corpus=None):
    d = rep.get("failing_input", rep)
    if d.get("full_request"):
        q = d["full_request"]
        a, b = ctx.hook("block", [q])[0], ctx.model("block", [q])[0]
        ctx.mark(q, True)
        ctx.add_sample({"request": "block " + q[:160], "impl": a[:200], "model": b[:200]})
        if a != b:
            ctx.disagree("replay", "block " + q[:300], a[:300], b[:300], True, {"full_request": q})
    else:
        bb.replay_scenario(ctx, rep, CMP)
