"""C10 — exit status 0 means complete, final-named output; any failure leaves none."""
import os, re, resource, signal
from .. import bb, chain as K, gen_chain as GC, common as C

NAMESPACE = "Rbp.Props.C10"
REQUIRED = ["exit0_complete_fault_no_final", "no_partial_final_at_any_instant", "exit0_complete_fault_no_final_n", "no_partial_final_at_any_instant_n", "csvdump_disk_is_model_files", "nonzero_exit_no_final_files", "exit0_output_is_callback_over_delivered", "exit0_files_are_all_delivered_rows"]
LEAN_FILES = ["Rbp/Model/Output.lean", "Rbp/Model/Run.lean"]
RULE = ("(i) syscall traces (strace -f, openat/write/rename/close) of the three file-producing callbacks: per dump file the sequence create -> write sizes -> rename is compared with the model's output-file machine "
        "(BufWriter capacity rule, explicit flush, rename, drop) and `no write to a file after its rename` is checked on the real trace; (ii) write faults: strace -P <tmp file> inject=write:error=ENOSPC:when=K+ for every dump file x every K "
        "up to its number of writes (+1), and byte-granular RLIMIT_FSIZE limits (SIGXFSZ ignored) from the calibrated floor to the output size: exit != 0 and no final-named file iff some file does not fit, else complete output; "
        "(iii) crash points enumerated: SIGKILL injected on entry to the K-th write / rename / openat for every K of the fault-free trace: a final-named file, if present, equals the undisturbed output; "
        "(iv) input faults for every height x {file removed, emptied, truncated at sampled bytes of the block (every byte in thorough), offset past EOF}: exit != 0, `Error at height N`, no final-named file. "
        "non-trivial = a fault or crash point actually hit; distinct = distinct (scenario, fault) pairs")
ASSUMPTIONS = ["rename(2) replaces atomically; a killed process's completed write(2) calls are visible in the file (page cache); durability across power loss (fsync) is not part of the property",
               "partial: the OS behaviour above is not modelled; the logic (order of flush/rename, error propagation, exit status) is"]

FILE_CBS = ["csvdump", "unspentcsvdump", "balances"]
CAP = 4000000


def small_chain(r, coin="bitcoin", n=4, big=None):
    scripts = lambda rr, c: GC.spk(rr, c, rr.choice(["p2pkh", "p2pkh", "p2sh", "opreturn"]))
    return GC.gen_chain(r, coin, n, max_txs=2, max_io=2, scripts=scripts, auxpow_mix=False, big=big)


def scenario(r, cb, n=4, per_file=2, big=None, coin="bitcoin"):
    s = K.Scenario(coin=coin, callback=cb)
    GC.simple_layout(s, small_chain(r, coin, n, big), per_file=per_file)
    return s


def parse_trace(path, dump):
    """per logical dump file: list of events ('create',) ('write', offered, result) ('rename', final) ('close',)"""
    fds, files, order = {}, {}, []
    line_re = re.compile(r"^(\d+)\s+(\w+)\((.*)\)\s+=\s+(-?\d+)(.*)$")
    pending = {}          # pid -> text of a call that strace reported as `<unfinished ...>` (another thread's call was printed in between)
    for l in open(path, errors="replace"):
        l = l.rstrip()
        um = re.match(r"^(\d+)\s+(.*) <unfinished \.\.\.>$", l)
        if um:
            pending[um.group(1)] = um.group(2)
            continue
        rm = re.match(r"^(\d+)\s+<\.\.\. \w+ resumed>(.*)$", l)
        if rm and rm.group(1) in pending:
            l = "%s %s%s" % (rm.group(1), pending.pop(rm.group(1)), rm.group(2))
        m = line_re.match(l)
        if not m:
            continue
        _pid, call, args, ret, tail = m.groups()
        ret = int(ret)
        if call == "openat":
            pm = re.search(r'"([^"]+)"', args)
            if pm and pm.group(1).startswith(dump) and "O_CREAT" in args and ret >= 0:
                name = os.path.basename(pm.group(1))
                fds[ret] = name
                files.setdefault(name, []).append(("create",))
                order.append(("create", name))
        elif call == "write":
            fd = int(args.split("<")[0].split(",")[0])
            if fd in fds:
                sz = int(args.rsplit(",", 1)[1])
                files[fds[fd]].append(("write", sz, ret))
                order.append(("write", fds[fd], sz, ret))
        elif call == "rename":
            pm = re.findall(r'"([^"]+)"', args)
            if len(pm) == 2 and pm[0].startswith(dump):
                name = os.path.basename(pm[0])
                files.setdefault(name, []).append(("rename", os.path.basename(pm[1]), ret))
                order.append(("rename", name, os.path.basename(pm[1]), ret))
        elif call == "close":
            fd = int(args.split("<")[0])
            if fd in fds:
                files[fds[fd]].append(("close",))
                del fds[fd]
    return files, order


def traced_run(s, extra=(), keep_dump=False):
    base = C.scratch()
    try:
        d, dump, tr = os.path.join(base, "data"), os.path.join(base, "dump"), os.path.join(base, "trace")
        s.write_dir(d)
        os.makedirs(dump)
        res = s.run_impl(datadir=d, dump=dump, wrapper=["strace", "-f", "-o", tr, "-e", "trace=openat,write,rename,close"] + list(extra))
        files, order = parse_trace(tr, dump) if os.path.exists(tr) else ({}, [])
        return res, files, order
    finally:
        C.rmtree(base)


def model_files(s):
    m = K.run_model([s])[0]
    return m


def tmp_of(final):
    return re.sub(r"-\d+-\d+\.csv$", ".csv.tmp", final)


def trace_family(ctx, r):
    """(i): fault-free traces vs the output-file machine"""
    for i in range(ctx.n(9, 45)):
        cb = FILE_CBS[i % 3]
        big = None
        if ctx.thorough() and i % 9 == 0:
            big = 150      # many outputs: several BufWriter flushes of the 4 MB buffer are not reached by small chains
        s = scenario(r, cb, n=r.randrange(1, 6), per_file=r.choice([None, 2]), big=big, coin=["bitcoin", "litecoin"][i % 2])
        trace_one(ctx, s, i)


def empty_result_traces(ctx, r):
    """(i, continued) the dump callbacks when nothing is unspent at the end of the range (only OP_RETURN / non-standard outputs): the
    header is all there is to write, and it too must be on disk before the rename"""
    for cb in ("unspentcsvdump", "balances", "csvdump"):
        for coin in ("bitcoin", "litecoin"):
            blocks = []
            for h in range(2):
                cbt = K.Tx([(b"\0" * 32, 0xffffffff, bytes([3, h, 7, 7]), 0xffffffff)], [(50 * 10**8, b"\x6a\x01\x41"), (0, b"\x51")])
                blocks.append(K.Block([cbt], time=1231006505 + 600 * h))
            prev = b"\0" * 32
            for b in blocks:
                b.prev = prev
                b.merkle_root = None
                prev = b.hash()
            s = K.Scenario(coin=coin, callback=cb)
            GC.simple_layout(s, blocks)
            s.meta = {"empty-result": cb}
            trace_one(ctx, s, "empty-%s-%s" % (cb, coin))


def trace_one(ctx, s, i):
        cb = s.callback
        res, files, order = traced_run(s)
        s.want_fstrace = True
        m = model_files(s)
        ctx.mark(("trace", i, cb), True)
        ctx.traces += 1
        ctx.families["syscall-trace"] += 1
        problems = []
        if res.exit != 0 or m["exit"] != 0:
            problems.append(("exit", res.exit, m["exit"]))
        for final, rows in m["files"].items():
            tmp = tmp_of(final)
            ev = files.get(tmp)
            if ev is None:
                problems.append(("no-trace-for", tmp, None))
                continue
            lens = [len(x.encode()) + 1 for x in rows]
            if cb in ("unspentcsvdump", "balances"):
                # row order is the HashMap's: take the implementation's own rows for the per-call sizes
                if final in res.files:
                    lens = [len(x) + 1 for x in res.files[final].split(b"\n")[:-1]]
            ans = ctx.model("outfile", ["%d - %s" % (CAP, " ".join(map(str, lens)))])[0].split()
            want_writes = [int(x.split(":")[0]) for x in ans[7:]]
            got_writes = [e[1] for e in ev if e[0] == "write"]
            if got_writes != want_writes:
                problems.append(("write-sizes:" + tmp, got_writes[:6], want_writes[:6]))
            kinds = [e[0] for e in ev]
            if "rename" not in kinds:
                problems.append(("never-renamed", tmp, None))
            else:
                k = kinds.index("rename")
                if "write" in kinds[k + 1:]:
                    problems.append(("write-after-rename", tmp, [e for e in ev[k:]][:4]))
                if ev[k][1] != final:
                    problems.append(("rename-target", ev[k][1], final))
            if final in res.files and res.files[final] != ("\n".join(rows) + "\n").encode() and cb == "csvdump":
                problems.append(("content", final, None))
        # product-level order: every write of every dump file precedes the first rename
        first_rename = next((j for j, e in enumerate(order) if e[0] == "rename"), None)
        if first_rename is not None and any(e[0] == "write" for e in order[first_rename:]):
            problems.append(("write-after-first-rename", [e[:3] for e in order[first_rename:first_rename + 6]], None))
        if res.tmp_files():
            problems.append(("tmp-left", sorted(res.tmp_files()), None))
        if cb == "csvdump" and "fstrace" in m:
            # the global order of write(2) and rename(2) over the four dump files = the trace of the n-writer machine `ON`
            # (the one no_partial_final_at_any_instant_n is about) run on the write program of CsvDump::on_block
            idx = {"blocks": 0, "transactions": 1, "tx_in": 2, "tx_out": 3}
            got = []
            for e in order:
                base = e[1].split(".")[0].split("-")[0]
                if base not in idx:
                    continue
                if e[0] == "write":
                    got.append("w%d:%d" % (idx[base], e[2]))
                elif e[0] == "rename":
                    got.append("r%d" % idx[base])
            if got != m["fstrace"]:
                k = next((j for j, (x, y) in enumerate(zip(got, m["fstrace"])) if x != y), min(len(got), len(m["fstrace"])))
                problems.append(("global-order-vs-ON-machine", got[max(0, k - 2):k + 4], m["fstrace"][max(0, k - 2):k + 4]))
        if problems:
            ctx.disagree("syscall-trace", bb.describe(s), {"problems": [list(map(str, p)) for p in problems[:5]], "exit": res.exit}, {"exit": m["exit"], "files": sorted(m["files"])}, True,
                         {"scenario": bb.scenario_dump(s), "observable": problems[0][0], "replay_kind": "trace"})
        elif len(ctx.samples) < 3:
            ctx.add_sample({"family": "syscall-trace", "callback": cb, "trace": {k: [list(e) for e in v][:6] for k, v in files.items()}})


def undisturbed(s):
    res = s.run_impl()
    return res


def expect_failure(ctx, fam, s, res, what, ref=None, want_height=None, rk=None):
    bad = []
    if res.exit == 0:
        bad.append("exit 0")
    if res.final_files():
        bad.append("final-named files: %s" % sorted(res.final_files()))
    if want_height is not None and res.err_height() != want_height:
        bad.append("reported height %s, expected %s" % (res.err_height(), want_height))
    if bad:
        ctx.disagree(fam, dict(bb.describe(s), fault=what), {"exit": res.exit, "problems": bad, "stderr": res.stderr.decode(errors="replace")[-200:], "files": sorted(res.files)},
                     {"expected": "exit != 0, no final-named file" + (", Error at height %d" % want_height if want_height is not None else "")}, True,
                     dict({"scenario": bb.scenario_dump(s), "fault": what, "observable": bad[0], "want_height": want_height}, **(rk or {"replay_kind": "expect-failure"})))


def wfault_once(ctx, s, ref, tmp, Kth):
    cb = s.callback
    base = C.scratch()
    try:
        d, dump = os.path.join(base, "data"), os.path.join(base, "dump")
        s.write_dir(d)
        os.makedirs(dump)
        path = os.path.join(dump, tmp)
        res = s.run_impl(datadir=d, dump=dump, wrapper=["strace", "-f", "-o", "/dev/null", "-P", path, "-e", "trace=write", "-e", "inject=write:error=ENOSPC:when=%d+" % Kth])
    finally:
        C.rmtree(base)
    ctx.mark(("wfault", cb, tmp, Kth), Kth == 1)
    ctx.families["write-fault-inject"] += 1
    rk = {"replay_kind": "wfault", "tmp": tmp, "Kth": Kth}
    if Kth == 1:
        expect_failure(ctx, "write-fault-inject", s, res, "write #%d+ to %s fails with ENOSPC" % (Kth, tmp), rk=rk)
    else:
        # the small run has a single write per file: a fault on a later write never happens, the run must be complete
        if res.exit != 0 or res.final_files().keys() != ref.final_files().keys():
            ctx.disagree("write-fault-inject", dict(bb.describe(s), fault="none hit"), {"exit": res.exit, "files": sorted(res.files)}, {"expected": "complete run"}, True,
                         dict({"scenario": bb.scenario_dump(s), "observable": "spurious-failure"}, **rk))


def _limiter(n):
    def f():
        signal.signal(signal.SIGXFSZ, signal.SIG_IGN)
        resource.setrlimit(resource.RLIMIT_FSIZE, (n, n))
    return f


def limit_once(ctx, s, ref, L):
    cb = s.callback
    sizes = {n: len(b) for n, b in ref.final_files().items()}
    res = s.run_impl(preexec=_limiter(L))
    fits = all(v <= L for v in sizes.values())
    ctx.mark(("fsize", cb, L), not fits)
    ctx.families["rlimit-fsize"] += 1
    rk = {"replay_kind": "limit", "limit": L}
    if fits:
        if res.exit != 0 or {n: sorted(b.splitlines()) for n, b in res.final_files().items()} != {n: sorted(b.splitlines()) for n, b in ref.final_files().items()} or res.tmp_files():
            ctx.disagree("rlimit-fsize", dict(bb.describe(s), fault="limit %d (everything fits)" % L), {"exit": res.exit, "files": sorted(res.files)}, {"expected": "exit 0, complete output"}, True,
                         dict({"scenario": bb.scenario_dump(s), "observable": "spurious-failure"}, **rk))
    else:
        expect_failure(ctx, "rlimit-fsize", s, res, "RLIMIT_FSIZE=%d, dump sizes %s" % (L, sizes), rk=rk)


def write_fault_family(ctx, r):
    """(ii) strace-injected write errors per dump file, and RLIMIT_FSIZE byte limits"""
    for cb in FILE_CBS:
        s = scenario(r, cb, n=3)
        ref = undisturbed(s)
        finals = sorted(ref.final_files())
        for final in finals:
            tmp = tmp_of(final)
            for Kth in (1, 2):
                wfault_once(ctx, s, ref, tmp, Kth)
    # RLIMIT_FSIZE sweep
    limiter = _limiter
    for cb in FILE_CBS:
        s = scenario(r, cb, n=2)
        ref = undisturbed(s)
        sizes = {n: len(b) for n, b in ref.final_files().items()}
        biggest = max(sizes.values())
        # floor: the smallest limit with which LevelDB can still open the index (its own files are small)
        floor = None
        for L in range(0, 4096, 64):
            res = s.run_impl(preexec=limiter(L))
            if b"Cannot load blockchain data" not in res.stderr:
                floor = L
                break
        ctx.notes.append("%s: RLIMIT_FSIZE floor %s, dump sizes %s" % (cb, floor, sizes))
        if floor is None:
            continue
        limits = list(range(floor, biggest + 2)) if ctx.thorough() or biggest - floor < 300 else sorted(set([floor, floor + 1, biggest - 1, biggest, biggest + 1] + [r.randrange(floor, biggest + 1) for _ in range(ctx.n(40, 0))] + [v + d for v in sizes.values() for d in (-1, 0, 1)]))
        for L in limits:
            if L < floor:
                continue
            limit_once(ctx, s, ref, L)


def crash_once(ctx, s, ref, call, Kth):
    cb = s.callback
    base = C.scratch()
    try:
        d, dump = os.path.join(base, "data"), os.path.join(base, "dump")
        s.write_dir(d)
        os.makedirs(dump)
        res = s.run_impl(datadir=d, dump=dump, wrapper=["strace", "-f", "-o", "/dev/null", "-e", "trace=%s" % call, "-e", "inject=%s:signal=KILL:when=%d" % (call, Kth)])
    finally:
        C.rmtree(base)
    ctx.families["crash-" + call] += 1
    killed = res.exit in (-9, 137)
    ctx.mark(("crash", cb, call, Kth), killed)
    # whatever happened: a final-named file, if present, is complete
    for n, b in res.final_files().items():
        want = ref.final_files().get(n)
        same = (b == want) if cb == "csvdump" else (want is not None and sorted(b.splitlines()) == sorted(want.splitlines()) and b.endswith(b"\n"))
        if not same:
            ctx.disagree("crash-point", dict(bb.describe(s), fault="SIGKILL at %s #%d" % (call, Kth)), {"file": n, "size": len(b), "exit": res.exit}, {"expected_size": None if want is None else len(want)}, True,
                         {"scenario": bb.scenario_dump(s), "fault": "kill:%s:%d" % (call, Kth), "observable": "partial-final-file", "replay_kind": "crash", "call": call, "Kth": Kth})
    return res, killed


def crash_family(ctx, r):
    """(iii) SIGKILL on entry to the K-th write / rename / openat"""
    for cb in FILE_CBS:
        s = scenario(r, cb, n=3)
        ref = undisturbed(s)
        _res, _files, order = traced_run(s)
        for call in ("rename", "write", "openat"):
            # count of that syscall in the whole process (LevelDB included) is not known a priori: try K until the run survives
            Kmax = 400 if call != "rename" else 12
            step = 1
            Kth = 1
            survived = False
            while Kth <= Kmax and not survived:
                res, killed = crash_once(ctx, s, ref, call, Kth)
                if not killed and res.exit == 0:
                    survived = True
                # sample the long openat/write prefixes that belong to LevelDB start-up unless thorough
                Kth += 1 if (ctx.thorough() or call == "rename" or Kth < 6) else 7


def rerun_once(ctx, s, stop, rep=0):
    import copy
    cb = s.callback
    small = copy.copy(s)
    small.stop = stop
    ref = undisturbed(small)
    base = C.scratch()
    try:
        d, dump = os.path.join(base, "data"), os.path.join(base, "dump")
        s.write_dir(d)
        os.makedirs(dump)
        tmp0 = {"csvdump": "blocks.csv.tmp", "unspentcsvdump": "unspent.csv.tmp", "balances": "balances.csv.tmp"}[cb]
        # -P restricts the injection to syscalls naming this dump file (LevelDB renames its own files at start-up)
        first = s.run_impl(datadir=d, dump=dump, wrapper=["strace", "-f", "-o", "/dev/null", "-P", os.path.join(dump, tmp0), "-e", "trace=rename", "-e", "inject=rename:signal=KILL:when=1"])
        left = sorted(n for n in first.files if n.endswith(".tmp"))
        second = small.run_impl(datadir=d, dump=dump)
    finally:
        C.rmtree(base)
    ctx.families["rerun-after-failure"] += 1
    ctx.mark(("rerun", cb, rep), bool(left))
    problems = []
    if not left or first.exit == 0:
        ctx.notes.append("rerun-after-failure: the earlier run was not killed as planned (exit %s, left %s)" % (first.exit, left))
    if second.exit != 0:
        problems.append(("exit", second.exit, 0))
    for n, want in ref.final_files().items():
        got = second.files.get(n)
        same = (got == want) if cb == "csvdump" else (got is not None and sorted(got.splitlines()) == sorted(want.splitlines()) and got.endswith(b"\n"))
        if not same:
            problems.append(("final-differs-from-undisturbed-run", n, {"size": None if got is None else len(got), "expected": len(want)}))
    if [n for n in second.files if n.endswith(".tmp")]:
        problems.append(("tmp-left", sorted(n for n in second.files if n.endswith(".tmp")), None))
    if problems:
        # the replay needs the LONG scenario (the earlier, killed run) and the stop height of the second run
        ctx.disagree("rerun-after-failure", dict(bb.describe(small), earlier_run="killed at first rename; left %s" % left),
                     {"problems": [list(map(str, p)) for p in problems[:4]], "exit": second.exit}, {"expected": "finals identical to an undisturbed run, no tmp"}, True,
                     {"scenario": bb.scenario_dump(s), "observable": problems[0][0], "replay_kind": "rerun", "rerun_stop": stop})


def rerun_family(ctx, r):
    """(v) a successful run into a dump folder that an earlier FAILED run used: the earlier run is killed on entry to its first
    rename (all rows flushed, every *.tmp left behind, long), then a run over a shorter range goes into the same folder; exit 0
    must still mean: finals identical to an undisturbed run in a fresh folder, no *.tmp left"""
    import copy
    for cb in FILE_CBS:
        for rep in range(ctx.n(1, 4)):
            s = scenario(r, cb, n=r.randrange(5, 8))
            rerun_once(ctx, s, 1, rep)


def input_fault_family(ctx, r):
    """(iv) unreadable blocks"""
    for cb in FILE_CBS:
        n = 4
        base = scenario(r, cb, n=n, per_file=2)       # two blocks per file, so removing one file leaves another
        recs = {}
        for key, val in base.kvs:
            pass
        # recover (height -> file name, offset, length) from the layout (sequential, two per file)
        layout = []
        for name, f in base.files.items():
            for off, data in f["segs"]:
                layout.append((name, off + 8, len(data) - 8))
        for h in range(n):
            name, off, ln = layout[h]
            # "eof32": the recorded offset is the true one plus 2^32 — far past the end of the file, and equal to a valid block
            # position modulo 2^32 (an offset kept in 32 bits would silently read that block)
            faults = [("removed", None), ("emptied", 0), ("offset-past-eof", "eof"), ("offset-past-eof", "eof32")]
            cuts = list(range(off - 4, off + ln)) if ctx.thorough() else sorted(set([off - 4, off - 1, off, off + 1, off + 79, off + 80, off + 81, off + ln - 1] + [r.randrange(off - 4, off + ln) for _ in range(6)]))
            faults += [("truncated", c) for c in cuts]
            for kind, arg in faults:
                s = K.Scenario(coin=base.coin, callback=cb)
                s.kvs = list(base.kvs)
                s.files = {nm: {"size": f["size"], "segs": list(f["segs"])} for nm, f in base.files.items()}
                if kind == "removed":
                    del s.files[name]
                elif kind == "emptied":
                    s.files[name] = {"size": 0, "segs": []}
                elif kind == "truncated":
                    f = s.files[name]
                    f["size"] = arg
                    f["segs"] = [(o, d[:max(0, arg - o)]) for o, d in f["segs"] if o < arg]
                else:
                    # the record of height h names an offset beyond the end of its file
                    for k, (key, val) in enumerate(s.kvs):
                        pass
                    s.kvs = [kv for kv in s.kvs]
                    blocks_hdr = None
                # which height fails first: the lowest height stored in a damaged region
                if kind == "offset-past-eof":
                    # rewrite record h with a far offset
                    newkvs = []
                    for key, val in s.kvs:
                        newkvs.append((key, val))
                    s.meta = {"fault": kind, "h": h}
                    s._far = True
                s.meta = {"fault": kind, "h": h, "arg": arg if arg not in ("eof", "eof32") else (-1 if arg == "eof" else -32)}
                far = _with_far(s, h, 2**32 if arg == "eof32" else 10**7) if kind == "offset-past-eof" else None
                m = K.run_model([far] if far is not None else [s])[0]
                res = (far if far is not None else s).run_impl()
                ctx.mark(("input-fault", cb, h, kind, arg), True)
                ctx.families["input-fault:" + kind] += 1
                if m["exit"] == 0:
                    continue      # e.g. truncation exactly at the end of the block: nothing is damaged
                want_h = m.get("errheight")
                ran = far if far is not None else s
                expect_failure(ctx, "input-fault", ran, res, "%s at height %d (%s)" % (kind, h, arg), want_height=want_h)
                if res.exit != m["exit"]:
                    ctx.disagree("input-fault", dict(bb.describe(ran), fault=kind), {"exit": res.exit}, {"exit": m["exit"]}, False, {"scenario": bb.scenario_dump(ran), "observable": "exit-code", "replay_kind": "expect-failure"})


def big_block_faults(ctx, r):
    """(iv, continued) a block larger than any read buffer (> 32 KiB, > 64 KiB) truncated inside its body — as the last block of
    the range (tip, or height --end) and in the middle: the missing tail is a read failure at THAT height, never zeros"""
    for cb in FILE_CBS:
        for where in ("last", "middle", "end"):
            n = 3
            blocks = small_chain(r, "bitcoin", n)
            tgt = {"last": n - 1, "middle": 1, "end": 1}[where]
            for j in range(3):
                blocks[tgt].txs.append(K.Tx([(GC.rb(r, 32), j, b"\x01\x01", 7)], [(j, b"\x6a" + GC.rb(r, r.choice([14000, 30000, 23000])))] * 1))
            prev = blocks[0].hash()
            for b in blocks[1:]:
                b.prev = prev
                b.merkle_root = None
                prev = b.hash()
            base = K.Scenario(coin="bitcoin", callback=cb)
            GC.simple_layout(base, blocks)
            if where == "end":
                base.stop = tgt
            name = K.blkname(0)
            off = next(o for o, d in base.files[name]["segs"] if d[8:] == blocks[tgt].enc()) + 8
            ln = len(blocks[tgt].enc())
            cuts = sorted(set([off + 81, off + 4096, off + 8192, off + 32767, off + 32768, off + 32769, off + ln - 1, off + ln - 4, off + ln // 2] + [r.randrange(off + 100, off + ln) for _ in range(ctx.n(4, 40))]))
            for c in cuts:
                if not (off < c < off + ln):
                    continue
                s = K.Scenario(coin="bitcoin", callback=cb)
                s.kvs = list(base.kvs)
                s.stop = base.stop
                s.files = {nm: {"size": f["size"], "segs": list(f["segs"])} for nm, f in base.files.items()}
                f = s.files[name]
                f["size"] = c
                f["segs"] = [(o, d[:max(0, c - o)]) for o, d in f["segs"] if o < c]
                s.meta = {"fault": "big-block-truncated", "where": where, "cut": c - off, "len": ln}
                m = K.run_model([s])[0]
                res = s.run_impl()
                ctx.mark(("big-trunc", cb, where, c - off), True)
                ctx.families["input-fault:big-block-truncated"] += 1
                if m["exit"] == 0:
                    ctx.disagree("input-fault", dict(bb.describe(s), fault="big-block-truncated"), {"exit": res.exit}, {"exit": m["exit"], "note": "model accepts a truncated block"}, False, {"scenario": bb.scenario_dump(s), "observable": "model-exit", "replay_kind": "expect-failure"})
                    continue
                expect_failure(ctx, "input-fault", s, res, "block of %d bytes at height %d truncated after %d bytes (%s)" % (ln, tgt, c - off, where), want_height=m.get("errheight"))


def crowded_block_faults(ctx, r):
    """(iv, continued) a block with 253 or more transactions — its transaction count is a three-byte CompactSize — as the LAST block
    of its blk file, cut inside that count (after the header, after the 0xfd marker, after one byte of the count) and just after it:
    a count that cannot be read is a read failure at that height, never zero transactions"""
    for cb in FILE_CBS:
        for ntx in (253, 300):
            blocks = small_chain(r, "bitcoin", 3)
            tgt = 2
            for j in range(ntx - len(blocks[tgt].txs)):
                blocks[tgt].txs.append(K.Tx([(GC.rb(r, 32), j, b"\x01\x01", 7)], [(j, b"\x51")]))
            prev = blocks[0].hash()
            for b in blocks[1:]:
                b.prev = prev
                b.merkle_root = None
                prev = b.hash()
            base = K.Scenario(coin="bitcoin", callback=cb)
            GC.simple_layout(base, blocks)
            name = K.blkname(0)
            off = next(o for o, d in base.files[name]["segs"] if d[8:] == blocks[tgt].enc()) + 8
            ln = len(blocks[tgt].enc())
            for c in (off + 80, off + 81, off + 82, off + 83, off + 84, off + 90):
                s = K.Scenario(coin="bitcoin", callback=cb)
                s.kvs = list(base.kvs)
                s.files = {nm: {"size": f["size"], "segs": list(f["segs"])} for nm, f in base.files.items()}
                f = s.files[name]
                f["size"] = c
                f["segs"] = [(o, d[:max(0, c - o)]) for o, d in f["segs"] if o < c]
                s.meta = {"fault": "crowded-block-truncated", "ntx": ntx, "cut": c - off, "len": ln}
                m = K.run_model([s])[0]
                res = s.run_impl()
                ctx.mark(("crowded-trunc", cb, ntx, c - off), True)
                ctx.families["input-fault:crowded-block-truncated"] += 1
                if m["exit"] == 0:
                    ctx.disagree("input-fault", dict(bb.describe(s), fault="crowded-block-truncated"), {"exit": res.exit}, {"exit": m["exit"], "note": "model accepts a truncated block"}, False, {"scenario": bb.scenario_dump(s), "observable": "model-exit", "replay_kind": "expect-failure"})
                    continue
                expect_failure(ctx, "input-fault", s, res, "block of %d transactions at height %d truncated after %d bytes" % (ntx, tgt, c - off), want_height=m.get("errheight"))


def big_output_limits(ctx, r):
    """(ii, continued) dumps larger than the 4 MB the callbacks buffer (tens of thousands of rows): RLIMIT_FSIZE below, at and above
    the buffer size and the file sizes — a limit the output does not fit under is a failure without final names, however the rows
    were handed to the kernel"""
    a = [b"\x76\xa9\x14" + GC.rb(r, 20) + b"\x88\xac" for _ in range(50)]
    blocks = []
    for h in range(45):
        blocks.append(K.Block([K.Tx([(b"\0" * 32, 0xffffffff, bytes([2, h, 7]), 0xffffffff)], [(10**6 + j, a[(j * 7 + h) % 50]) for j in range(1000)])], time=1231006505 + 600 * h))
    prev = b"\0" * 32
    for b in blocks:
        b.prev = prev
        prev = b.hash()
    for cb in FILE_CBS:
        s = K.Scenario(coin="bitcoin", callback=cb)
        GC.simple_layout(s, blocks)
        s.meta = {"big-output": cb}
        ref = undisturbed(s)
        sizes = {n: len(b) for n, b in ref.final_files().items()}
        if ref.exit != 0 or not sizes:
            ctx.disagree("rlimit-fsize", bb.describe(s), {"exit": ref.exit}, {"expected": "exit 0"}, True, {"scenario": None, "observable": "undisturbed-run-failed"})
            continue
        big = max(sizes.values())
        for L in sorted(set([65536, 1 << 20, 3999999, 4000000, 4000001, big // 2, big - 1, big, big + 4096])):
            limit_once(ctx, s, ref, L)


def degenerate_ranges(ctx, r):
    """(vi) runs that have nothing, or a single block, to process (--start at / above the tip, --end far beyond it): whatever the
    exit status is, status 0 must mean final-named files and no *.tmp left — the files are created before the first block is read"""
    scns = []
    for cb in FILE_CBS:
        base = scenario(r, cb, n=3)
        for (st, en) in ((2, None), (3, None), (5, None), (2, 9), (3, 9), (0, 99), (10**6, None)):
            s = K.Scenario(coin="bitcoin", callback=cb, start=st, stop=en)
            s.kvs, s.files = base.kvs, base.files
            s.meta = {"degenerate-range": [st, en]}
            scns.append(s)
    impl, model = bb.check(ctx, "degenerate-range", scns, [bb.cmp_exit, bb.cmp_names, bb.cmp_tmp], nontrivial=lambda s, m: True)
    for s, res in zip(scns, impl):
        if res.exit == 0 and (res.tmp_files() or not res.final_files()):
            ctx.disagree("degenerate-range", bb.describe(s), {"exit": 0, "files": sorted(res.files)}, {"expected": "exit 0 => final-named files, no *.tmp"}, True,
                         {"scenario": bb.scenario_dump(s), "observable": "exit0-without-finals", "replay_kind": "trace"})


def _with_far(s, h, delta=10**7):
    """copy of s whose record for height h names an offset past the end of its file (by `delta`)"""
    t = K.Scenario(coin=s.coin, callback=s.callback)
    t.files = s.files
    t.meta = s.meta
    t.kvs = []
    from ..chain import varint
    for key, val in s.kvs:
        # decode enough of the record to find its height
        def rd(b, i):
            n = 0
            while True:
                c = b[i]
                i += 1
                n = (n << 7) | (c & 0x7f)
                if c & 0x80:
                    n += 1
                else:
                    return n, i
        i = 0
        ver, i = rd(val, i)
        height, i = rd(val, i)
        status, i = rd(val, i)
        ntx, i = rd(val, i)
        fno, i = rd(val, i)
        off, i2 = rd(val, i)
        if height == h:
            val = val[:i] + varint(off + delta) + val[i2:]
        t.kvs.append((key, val))
    return t


def correspondence(ctx):
    r = ctx.sub_rnd("c10")
    trace_family(ctx, r)
    empty_result_traces(ctx, r)
    write_fault_family(ctx, r)
    crash_family(ctx, r)
    input_fault_family(ctx, r)
    big_block_faults(ctx, r)
    crowded_block_faults(ctx, r)
    big_output_limits(ctx, r)
    degenerate_ranges(ctx, r)
    rerun_family(ctx, r)


def replay(ctx, rep, corpus=None):
    """re-runs the procedure of the family that produced the record (the fault is part of the failing input, not only the scenario)"""
    d = rep.get("failing_input", rep)
    sd = d.get("scenario")
    if not sd:
        return
    s = bb.scenario_load(sd)
    kind = d.get("replay_kind", "trace")
    ctx.mark(("replay", corpus, kind), True)
    if kind == "trace":
        trace_one(ctx, s, "replay")
    elif kind == "wfault":
        wfault_once(ctx, s, undisturbed(s), d["tmp"], d["Kth"])
    elif kind == "limit":
        limit_once(ctx, s, undisturbed(s), d["limit"])
    elif kind == "crash":
        crash_once(ctx, s, undisturbed(s), d["call"], d["Kth"])
    elif kind == "rerun":
        rerun_once(ctx, s, d["rerun_stop"])
    elif kind == "expect-failure":
        m = K.run_model([s])[0]
        res = s.run_impl()
        if m["exit"] != 0:
            expect_failure(ctx, "input-fault", s, res, d.get("fault", "replayed input fault"), want_height=m.get("errheight"))
