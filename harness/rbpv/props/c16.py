"""C16 — opreturn prints exactly the non-empty UTF-8 payloads, in chain order."""
from .. import gen_scripts as G, scriptcheck as S

NAMESPACE = "Rbp.Props.C16"
REQUIRED = []
LEAN_FILES = ["Rbp/Model/Script.lean", "Rbp/Model/Lossy.lean"]
RULE = ("OP_RETURN payload reported by the real evaluator (the string the opreturn callback prints) vs the Lean model, all 8 version bytes; payload families: ASCII, multi-byte UTF-8, "
        "invalid UTF-8 (overlongs, surrogates, truncated tails), empty; every push form that can carry them (direct / PUSHDATA1/2/4; 76..80 bytes need PUSHDATA1), lengths up to 65536; "
        "scripts with trailing tokens or several pushes (not the single-push template); non-trivial = model types the script OpReturn or it is a mutation of one; distinct (version, script) pairs")
ASSUMPTIONS = ["lossy UTF-8 decoding of Rust's String::from_utf8_lossy is modelled by hand (maximal-subpart rule) and compared on every payload"]


def project(t):
    # (is OpReturn, payload)
    return (t[0] == "OpReturn", t[2] if len(t) > 2 else "-")


def correspondence(ctx):
    r = ctx.sub_rnd("c16")
    cases = [c for c in G.boundary(r, exhaustive=False) if c[0].startswith(("opreturn", "slot", "empty", "trunc", "tmpl:opreturn", "nbhd:opreturn", "lead256", "huge"))]
    n = ctx.n(20000, 300000)
    k = 0
    while k < n:
        fam, s = G.tmpl(r)
        if fam.startswith("opreturn") or r.random() < 0.1:
            if r.random() < 0.3:
                s = G.mutate(r, s)
                fam += "~"
            cases.append((fam, s))
            k += 1
    def versions_of(fam, i):
        return [G.BTC[i % 2], G.FORK[i % 6]]
    S.run(ctx, cases, versions_of, project)


def replay(ctx, rep, corpus=None):
    S.replay_one(ctx, rep, project)


def shrink(ctx, d):
    return S.shrink_script(ctx, d, project)
