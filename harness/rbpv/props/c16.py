"""C16 — opreturn prints exactly the non-empty UTF-8 payloads, in chain order."""
from .. import bb, chain as K, gen_chain as GC, gen_scripts as G, scriptcheck as S

NAMESPACE = "Rbp.Props.C16"
REQUIRED = ["single_push_fork", "single_push_btc", "lines_in_chain_order", "valid_iff_scalar_encoding", "lossy_output_valid", "lossy_valid_id", "exit0_lines_are_those_of_delivered"]
LEAN_FILES = ["Rbp/Model/Script.lean", "Rbp/Model/Lossy.lean", "Rbp/Proofs/Utf8Spec.lean", "Rbp/Proofs/Lossy.lean"]
RULE = ("OP_RETURN payload reported by the real evaluator (the string the opreturn callback prints) vs the Lean model, all 8 version bytes; payload families: ASCII, multi-byte UTF-8, "
        "invalid UTF-8 (overlongs, surrogates, truncated tails), empty; every push form that can carry them (direct / PUSHDATA1/2/4; 76..80 bytes need PUSHDATA1), lengths up to 65536; "
        "scripts with trailing tokens or several pushes (not the single-push template); non-trivial = model types the script OpReturn or it is a mutation of one; distinct (version, script) pairs")
ASSUMPTIONS = ["lossy UTF-8 decoding of Rust's String::from_utf8_lossy is modelled by hand (maximal-subpart rule) and compared on every payload"]


def project(t):
    # what the opreturn callback prints for this output: a payload, or nothing
    return t[2] if (t[0] == "OpReturn" and len(t) > 2 and t[2] != "-") else None


def single_push(s):
    """the property's template: OP_RETURN followed by exactly one complete data push (direct / PUSHDATA1/2/4) and nothing else"""
    if len(s) < 2 or s[0] != 0x6a:
        return False
    op, rest = s[1], s[2:]
    if 1 <= op <= 75:
        return len(rest) == op
    for code, w in ((0x4c, 1), (0x4d, 2), (0x4e, 4)):
        if op == code:
            return len(rest) >= w and len(rest) - w == int.from_bytes(rest[:w], "little")
    return False


def in_domain(s, impl_tokens, model_tokens):
    # the property speaks about the single-push template and about scripts whose type is not OP_RETURN;
    # OP_RETURN scripts of any other shape (several pushes, trailing opcodes, a truncated push) are not covered
    return single_push(s) or model_tokens[0] != "OpReturn"


def correspondence(ctx):
    r = ctx.sub_rnd("c16")
    cases = [c for c in G.boundary(r, exhaustive=False) if c[0].startswith(("opreturn", "slot", "empty", "trunc", "tmpl:opreturn", "nbhd:opreturn", "lead256", "huge"))]
    n = ctx.n(20000, 300000)
    k = 0
    while k < n:
        fam, s = G.tmpl(r)
        if fam.startswith("opreturn") or r.random() < 0.1:
            if r.random() < 0.3:
                s = G.mutate(r, s)
                fam += "~"
            cases.append((fam, s))
            k += 1
    def versions_of(fam, i):
        return [G.BTC[i % 2], G.FORK[i % 6]]
    S.run(ctx, cases, versions_of, project, in_domain=in_domain)
    utf8_family(ctx, r)
    blackbox(ctx, r)


def utf8_family(ctx, r):
    """ties the three notions of `valid UTF-8` the theorems mention to the code: Unicode Table 3-7 as the recogniser `L.valid`
    (theorems lossy_valid_id, valid_iff_scalar_encoding; since round 5 also the model's Bitcoin path), core Lean's validateUTF8 (an independent implementation, compared here) and Rust's String::from_utf8 (the code's Bitcoin
    path: the payload is printed iff valid); and the lossy decoder of the fork path (model L.lossy vs Rust from_utf8_lossy)"""
    pool = []
    two = [bytes([a, b]) for a in (0xC0, 0xC1, 0xC2, 0xDF, 0xE0, 0xED, 0xEF, 0xF0, 0xF4, 0xF5, 0xFF, 0x80, 0xBF) for b in (0x7F, 0x80, 0x8F, 0x90, 0x9F, 0xA0, 0xBF, 0xC0)]
    for t in two:
        pool += [t, t + b"\x80", t + b"\x80\x80", t + b"\xbf\xbf\xbf", b"a" + t + b"z"]
    pool += [x.encode() for x in G.UTF8_SPECIAL] + [x.encode()[:-1] for x in G.UTF8_SPECIAL if len(x.encode()) > 1]
    for _ in range(ctx.n(600, 20000)):
        k = r.random()
        if k < 0.4:
            pool.append(G.payload(r)[:70])
        elif k < 0.7:
            t = "aé€😀\u07ff\u0800\uffff\U00010000\U0010ffff".encode()
            i, j = sorted((r.randrange(len(t) + 1), r.randrange(len(t) + 1)))
            pool.append((t[:i] + t[j:])[:70] or b"x")
        else:
            pool.append(bytes(r.choice([0x41, 0x80, 0xBF, 0xC2, 0xE0, 0xED, 0xF0, 0xF4, 0x9F, 0xA0, 0x90, 0x8F, r.randrange(256)]) for _ in range(r.randrange(1, 9))))
    pool = [x for x in dict.fromkeys(pool) if 1 <= len(x) <= 75]
    m = ctx.model("utf8", [x.hex() for x in pool])
    scripts = ["6a%02x%s" % (len(x), x.hex()) for x in pool]
    btc = ctx.hook("script", ["00 " + q for q in scripts])
    ltc = ctx.hook("script", ["30 " + q for q in scripts])
    for x, a, b, c in zip(pool, m, btc, ltc):
        table, core, lossy = a.split()
        ctx.mark(("utf8", x), True)
        ctx.families["utf8"] += 1
        ctx.dist["utf8-valid=" + table] += 1
        rust_valid = b.split()[2] != "-"
        rust_lossy = c.split()[2]
        if not (table == core == ("1" if rust_valid else "0")) or rust_lossy != lossy:
            ctx.disagree("utf8", "payload " + x.hex(), {"rust_from_utf8_ok": rust_valid, "rust_lossy": rust_lossy}, {"table_3_7": table, "core_validateUTF8": core, "lossy": lossy}, True,
                         {"full_request": "00 6a%02x%s" % (len(x), x.hex()), "observable": "UTF-8 validity / lossy decoding"})


def blackbox(ctx, r):
    """the real `opreturn` callback on chains mixing every script type: stdout (log lines removed) vs the model, byte for byte"""
    scns = []
    for i in range(ctx.n(24, 240)):
        coin = K.COINS[i % 8]
        def scripts(rr, c):
            k = rr.random()
            if k < 0.5:
                d = G.payload(rr)
                if rr.random() < 0.3:
                    d = d.replace(b"\n", b" ")
                return b"\x6a" + rr.choice(G.push_forms(d))
            return GC.spk(rr, c)
        blocks = GC.gen_chain(r, coin, r.randrange(2, 8), max_txs=3, max_io=3, scripts=scripts, auxpow_mix=False)
        s = K.Scenario(coin=coin, callback="opreturn")
        GC.simple_layout(s, blocks, per_file=r.choice([None, 2]))
        if i % 3 == 0:
            s.start = r.randrange(0, len(blocks))
            s.stop = r.choice([None, s.start + 1 + r.randrange(len(blocks))])
        s.meta = {"i": i}
        scns.append(s)
    # payloads of several thousand bytes (beyond 4 KiB) and a run whose opreturn output exceeds 64 KiB several times over: every
    # line must still be whole, in chain order, once the logger's own lines are removed
    for coin in ("bitcoin", "litecoin"):
        blocks = GC.gen_chain(r, coin, 6, max_txs=1, max_io=1, segwit=False, auxpow_mix=False)
        sizes = [4092, 4093, 4097, 5000, 8191, 8192, 8200, 3000] * 8
        k = 0
        for b in blocks[1:]:
            for _ in range(10 if ctx.thorough() else 6):
                outs = []
                for _o in range(2):
                    n = sizes[k % len(sizes)]
                    k += 1
                    d = bytes(0x41 + (j * 7 + k) % 26 for j in range(n))
                    outs.append((0, b"\x6a" + G.push_forms(d)[-1 if k % 3 else 0]))
                outs.append((1, GC.spk(r, coin, "p2pkh")))
                b.txs.append(K.Tx([(GC.rb(r, 32), 0, b"\x01\x01", 1)], outs))
        prev = blocks[0].hash()
        for b in blocks[1:]:
            b.prev = prev
            b.merkle_root = None
            prev = b.hash()
        s = K.Scenario(coin=coin, callback="opreturn")
        GC.simple_layout(s, blocks)
        s.meta = {"big-output": coin}
        scns.append(s)
    # ONE block whose lines alone are several hundred KiB (thousands of OP_RETURN outputs: one transaction with 3000 of them, and 1500
    # transactions with two each), payload lengths 250..252 through PUSHDATA1 (script lengths 253..255, the first three-byte CompactSize)
    for coin in ("bitcoin", "dogecoin"):
        blocks = GC.gen_chain(r, coin, 3, max_txs=1, max_io=1, segwit=False, auxpow_mix=False)
        mk = lambda k: (0, b"\x6a" + (b"\x4c" + bytes([250 + k % 3]) + (b"pay-%06d-" % k + b"x" * 252)[:250 + k % 3] if k % 5 == 0 else bytes([20 + k % 50]) + (b"n%06d" % k + b"." * 80)[:20 + k % 50]))
        blocks[1].txs.append(K.Tx([(GC.rb(r, 32), 0, b"\x01\x01", 1)], [mk(k) for k in range(3000)]))
        for q in range(1500):
            blocks[2].txs.append(K.Tx([(GC.rb(r, 32), q, b"\x01\x01", 1)], [mk(3000 + 2 * q), mk(3001 + 2 * q)]))
        prev = blocks[0].hash()
        for b in blocks[1:]:
            b.prev = prev
            b.merkle_root = None
            prev = b.hash()
        s = K.Scenario(coin=coin, callback="opreturn")
        GC.simple_layout(s, blocks)
        s.meta = {"crowded-block": coin}
        scns.append(s)
    bb.check(ctx, "opreturn-chains", scns, [bb.cmp_exit, bb.cmp_opreturn], nontrivial=lambda s, m: len(m["out"]) > 0)


def replay(ctx, rep, corpus=None):
    d = rep.get("failing_input", rep)
    if d.get("scenario"):
        bb.replay_scenario(ctx, rep, [bb.cmp_exit, bb.cmp_opreturn])
    else:
        S.replay_one(ctx, rep, project)


def shrink(ctx, d):
    return S.shrink_script(ctx, d, project)
