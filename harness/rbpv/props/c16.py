"""C16 — opreturn prints exactly the non-empty UTF-8 payloads, in chain order."""
from .. import bb, chain as K, gen_chain as GC, gen_scripts as G, scriptcheck as S

NAMESPACE = "Rbp.Props.C16"
REQUIRED = ["single_push_fork", "single_push_btc", "lines_in_chain_order"]
LEAN_FILES = ["Rbp/Model/Script.lean", "Rbp/Model/Lossy.lean"]
RULE = ("OP_RETURN payload reported by the real evaluator (the string the opreturn callback prints) vs the Lean model, all 8 version bytes; payload families: ASCII, multi-byte UTF-8, "
        "invalid UTF-8 (overlongs, surrogates, truncated tails), empty; every push form that can carry them (direct / PUSHDATA1/2/4; 76..80 bytes need PUSHDATA1), lengths up to 65536; "
        "scripts with trailing tokens or several pushes (not the single-push template); non-trivial = model types the script OpReturn or it is a mutation of one; distinct (version, script) pairs")
ASSUMPTIONS = ["lossy UTF-8 decoding of Rust's String::from_utf8_lossy is modelled by hand (maximal-subpart rule) and compared on every payload"]


def project(t):
    # what the opreturn callback prints for this output: a payload, or nothing
    return t[2] if (t[0] == "OpReturn" and len(t) > 2 and t[2] != "-") else None


def single_push(s):
    """the property's template: OP_RETURN followed by exactly one complete data push (direct / PUSHDATA1/2/4) and nothing else"""
    if len(s) < 2 or s[0] != 0x6a:
        return False
    op, rest = s[1], s[2:]
    if 1 <= op <= 75:
        return len(rest) == op
    for code, w in ((0x4c, 1), (0x4d, 2), (0x4e, 4)):
        if op == code:
            return len(rest) >= w and len(rest) - w == int.from_bytes(rest[:w], "little")
    return False


def in_domain(s, impl_tokens, model_tokens):
    # the property speaks about the single-push template and about scripts whose type is not OP_RETURN;
    # OP_RETURN scripts of any other shape (several pushes, trailing opcodes, a truncated push) are not covered
    return single_push(s) or model_tokens[0] != "OpReturn"


def correspondence(ctx):
    r = ctx.sub_rnd("c16")
    cases = [c for c in G.boundary(r, exhaustive=False) if c[0].startswith(("opreturn", "slot", "empty", "trunc", "tmpl:opreturn", "nbhd:opreturn", "lead256", "huge"))]
    n = ctx.n(20000, 300000)
    k = 0
    while k < n:
        fam, s = G.tmpl(r)
        if fam.startswith("opreturn") or r.random() < 0.1:
            if r.random() < 0.3:
                s = G.mutate(r, s)
                fam += "~"
            cases.append((fam, s))
            k += 1
    def versions_of(fam, i):
        return [G.BTC[i % 2], G.FORK[i % 6]]
    S.run(ctx, cases, versions_of, project, in_domain=in_domain)
    blackbox(ctx, r)


def blackbox(ctx, r):
    """the real `opreturn` callback on chains mixing every script type: stdout (log lines removed) vs the model, byte for byte"""
    scns = []
    for i in range(ctx.n(24, 240)):
        coin = K.COINS[i % 8]
        def scripts(rr, c):
            k = rr.random()
            if k < 0.5:
                d = G.payload(rr)
                if rr.random() < 0.3:
                    d = d.replace(b"\n", b" ")
                return b"\x6a" + rr.choice(G.push_forms(d))
            return GC.spk(rr, c)
        blocks = GC.gen_chain(r, coin, r.randrange(2, 8), max_txs=3, max_io=3, scripts=scripts, auxpow_mix=False)
        s = K.Scenario(coin=coin, callback="opreturn")
        GC.simple_layout(s, blocks, per_file=r.choice([None, 2]))
        if i % 3 == 0:
            s.start = r.randrange(0, len(blocks))
            s.stop = r.choice([None, s.start + 1 + r.randrange(len(blocks))])
        s.meta = {"i": i}
        scns.append(s)
    bb.check(ctx, "opreturn-chains", scns, [bb.cmp_exit, bb.cmp_opreturn], nontrivial=lambda s, m: len(m["out"]) > 0)


def replay(ctx, rep, corpus=None):
    d = rep.get("failing_input", rep)
    if d.get("scenario"):
        bb.replay_scenario(ctx, rep, [bb.cmp_exit, bb.cmp_opreturn])
    else:
        S.replay_one(ctx, rep, project)


def shrink(ctx, d):
    return S.shrink_script(ctx, d, project)
