"""C07 — unspentcsvdump lists exactly the unspent, address-bearing outputs of the range."""
from .. import bb, chain as K, gen_chain as GC, gen_history as GH, gen_scripts as GS

NAMESPACE = "Rbp.Props.C07"
REQUIRED = ["fold_eq_spec", "key_injective", "exit0_dump_is_fold_over_delivered", "rows_bounded_by_creations"]
LEAN_FILES = ["Rbp/Model/Utxo.lean", "Rbp/Model/Callbacks.lean", "Rbp/Model/Run.lean"]
RULE = ("black-box unspentcsvdump on generated spend histories vs (i) the whole-program Lean model and (ii) a declarative python oracle (`created with an address, and no later operation mentions the outpoint`, addresses taken from the "
        "implementation's own script verdicts): random histories with fan-in/fan-out, intra-block spends, several inputs spending one tx, unknown outpoints, address-less / zero-value outputs, identical coinbases (duplicate txids), "
        "txs with 257..300 outputs, wide transactions (15..4097 outputs, 65537 in thorough; address-less outputs in front of / between address-bearing ones, several spent later), multi-input transactions whose first (or a later) input is the null outpoint, --start/--end ranges; bounded-exhaustive tiny histories (<= 3 txs over 2 blocks x output shapes x spend targets). Row sets compared after sorting. non-trivial = at least one spend of an in-range output; distinct = distinct scenarios")
ASSUMPTIONS = ["output index < 2^32, txids 32 bytes"]

CMP = [bb.cmp_exit, bb.cmp_names, bb.cmp_rows, bb.cmp_totals, bb.cmp_tmp]


def oracle_check(ctx, scns, impl, model, chains):
    # script verdicts of the implementation itself (isolation: C05/C06 own the verdicts)
    scripts = sorted({(K.VERSION[s.coin], sc) for s in scns for b in chains[id(s)] for t in b.txs for (_v, sc) in t.outs})
    reqs = ["%02x %s" % (v, GS.hexs(sc)) for v, sc in scripts]
    ans = ctx.hook("script", reqs) if reqs else []
    addr = {k: (a.split()[1] if a.split()[1] != "-" else None) for k, a in zip(scripts, ans)}
    for s, res, m in zip(scns, impl, model):
        if res.exit != 0:
            continue
        blocks = chains[id(s)]
        delivered = m["delivered"]
        if not delivered and not res.final_files():
            continue
        lo = s.start
        hi = lo + len(delivered)
        live = GH.utxo_oracle(blocks[lo:hi], lo, lambda sc: addr[(K.VERSION[s.coin], sc)] is not None)
        want = sorted("%s;%d;%d;%d;%s" % (tid[::-1].hex(), i, h, v, addr[(K.VERSION[s.coin], sc)]) for (tid, i), (h, v, sc) in live.items())
        name = next((n for n in res.final_files() if n.startswith("unspent-")), None)
        rows_ = res.rows(name) if name else []
        got = sorted(rows_[1:]) if name else None
        header = rows_[0] if rows_ else None
        if got != want or header != "txid;indexOut;height;value;address":
            sa, sb = set(got or []), set(want)
            ctx.disagree("oracle", bb.describe(s), {"only_impl": sorted(sa - sb)[:3], "n": len(got or []), "header": header, "duplicates": len(got or []) - len(sa)}, {"only_oracle": sorted(sb - sa)[:3], "n": len(want)}, True,
                         {"scenario": bb.scenario_dump(s), "observable": "unspent-set"})


def correspondence(ctx):
    r = ctx.sub_rnd("c07")
    scns, chains = [], {}
    for i in range(ctx.n(60, 600)):
        coin = ["bitcoin", "litecoin", "testnet3", "dogecoin", "namecoin"][i % 5]
        blocks = GH.random_history(r, coin, r.randrange(2, 8), many_outputs=(i % 10 == 0), dup_coinbase=(i % 7 == 0))
        s = K.Scenario(coin=coin, callback="unspentcsvdump")
        GC.simple_layout(s, blocks, per_file=r.choice([None, 2]))
        if i % 4 == 0:
            s.start = r.randrange(0, len(blocks))
            s.stop = r.choice([None, s.start + 1 + r.randrange(len(blocks))])
        s.meta = {"i": i}
        scns.append(s)
        chains[id(s)] = blocks
    # wide transactions: output counts around every plausible batch / small-vector / u8 / u16 threshold, with address-less
    # outputs (OP_RETURN, non-standard) in front of and between address-bearing ones, some of them spent later in the range
    widths = [15, 16, 17, 31, 32, 33, 63, 64, 65, 127, 128, 129, 255, 256, 257, 511, 512, 513, 1023, 1024, 1025, 2048, 2049, 4096, 4097] + ([8192, 16384, 65535, 65536, 65537] if ctx.thorough() else [])
    for k, w in enumerate(widths):
        coin = ["bitcoin", "litecoin", "namecoin"][k % 3]
        a = [b"\x76\xa9\x14" + GC.rb(r, 20) + b"\x88\xac" for _ in range(3)]
        nul = [b"\x6a\x01\x41", b"\x51", b""]
        outs = []
        for j in range(w):
            # an address-less output first, then mostly address-bearing with holes
            sc = nul[j % 3] if (j == 0 or j % 97 == 5) else a[j % 3]
            outs.append((1000 + j, sc))
        wide = K.Tx([(GC.rb(r, 32), 0, b"\x01\x01", 0xffffffff)], outs)
        spend_idx = sorted(set([1, 2, w - 1, w // 2] + [r.randrange(w) for _ in range(4)]))
        spender = K.Tx([(wide.txid(), j, b"\x01\x02", 0xffffffff) for j in spend_idx], [(7, a[0])])
        b0 = K.Block([GH.coinbase(0, [(50 * 10**8, a[1])]), wide], time=1231006505)
        b1 = K.Block([GH.coinbase(1, [(50 * 10**8, a[2])]), spender], time=1231007105)
        blocks = GH.link([b0, b1])
        s = K.Scenario(coin=coin, callback="unspentcsvdump")
        GC.simple_layout(s, blocks)
        s.meta = {"wide": w}
        scns.append(s)
        chains[id(s)] = blocks
    # ranges whose unspent set is EMPTY (only address-less outputs; everything spent again; a range of one OP_RETURN-only block): the
    # dump is the header line alone
    a1 = b"\x76\xa9\x14" + GC.rb(r, 20) + b"\x88\xac"
    for k, coin in enumerate(["bitcoin", "litecoin", "namecoin"]):
        cb0 = GH.coinbase(0, [(50 * 10**8, a1)] if k == 1 else [(0, b"\x6a\x01\x41")])
        t1 = K.Tx([(cb0.txid(), 0, b"\x01\x01", 0xffffffff)], [(7, b"\x6a\x02hi"), (0, b"\x51")])
        b0 = K.Block([cb0, t1], time=1231006505)
        b1 = K.Block([GH.coinbase(1, [(0, b"\x6a")])], time=1231007105)
        blocks = GH.link([b0, b1])
        s = K.Scenario(coin=coin, callback="unspentcsvdump")
        GC.simple_layout(s, blocks)
        if k == 2:
            s.start = 1
        s.meta = {"empty-result": k}
        scns.append(s)
        chains[id(s)] = blocks
    # a crowded block: thousands of transactions in ONE block, each spending an output of the one before it (created and spent inside the
    # block), a few of the in-block outputs left unspent, plus spends of an earlier block's outputs
    for k, ntx in enumerate([300, 2600] if not ctx.thorough() else [300, 2047, 2048, 2600, 9000]):
        coin = ["bitcoin", "litecoin"][k % 2]
        a = [b"\x76\xa9\x14" + GC.rb(r, 20) + b"\x88\xac" for _ in range(5)]
        cb0 = GH.coinbase(0, [(50 * 10**8, a[0]), (7, a[1])])
        b0 = K.Block([cb0], time=1231006505)
        txs = [GH.coinbase(1, [(50 * 10**8, a[2])])]
        prev_tx = cb0
        for q in range(ntx):
            t = K.Tx([(prev_tx.txid(), 0, b"\x01\x01" if q % 9 else GC.rb(r, 253 + q % 3), 0xffffffff)], [(10**6 + q, a[q % 5]), (q, a[(q + 1) % 5] if q % 4 else b"\x6a\x01\x41")])
            txs.append(t)
            prev_tx = t
        b1 = K.Block(txs, time=1231007105)
        b2 = K.Block([GH.coinbase(2, [(1, a[3])]), K.Tx([(txs[5].txid(), 1, b"", 1), (txs[ntx // 2].txid(), 1, b"", 1)], [(3, a[4])])], time=1231007705)
        blocks = GH.link([b0, b1, b2])
        s = K.Scenario(coin=coin, callback="unspentcsvdump")
        GC.simple_layout(s, blocks)
        s.meta = {"crowded-block": ntx}
        scns.append(s)
        chains[id(s)] = blocks
    # chains that begin with the coin's REAL genesis block (its 50-coin pay-to-pubkey output is an unspent output like any other)
    from .. import genesis
    for k, (coin, g) in enumerate(sorted(genesis.candidates().items()) * (1 if not ctx.thorough() else 4)):
        blocks = GH.link([g] + GH.random_history(r, coin, r.randrange(1, 5)))
        s = K.Scenario(coin=coin, callback="unspentcsvdump")
        GC.simple_layout(s, blocks)
        if k >= 4 and k % 2:
            s.stop = r.randrange(0, len(blocks))
        s.meta = {"real-genesis": coin, "k": k}
        scns.append(s)
        chains[id(s)] = blocks
    hist, build = GH.tiny_histories("bitcoin", 3 if ctx.thorough() else 2)
    for k, spec in enumerate(hist):
        blocks = build(spec)
        s = K.Scenario(coin="bitcoin", callback="unspentcsvdump")
        GC.simple_layout(s, blocks)
        s.meta = {"tiny": str(spec)}
        scns.append(s)
        chains[id(s)] = blocks
    impl, model = bb.check(ctx, "histories", scns, CMP, nontrivial=lambda s, m: True)
    oracle_check(ctx, scns, impl, model, chains)


def replay(ctx, rep, corpus=None):
    bb.replay_scenario(ctx, rep, CMP)
