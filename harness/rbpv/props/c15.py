"""C15 — every simplestats figure equals an independent recomputation over the range."""
from fractions import Fraction
from .. import bb, chain as K, gen_chain as GC, gen_history as GH

NAMESPACE = "Rbp.Props.C15"
REQUIRED = ["counts_volume_fees_spec", "mean_exact", "biggest_first_on_ties", "fee_rule", "reward_halving", "printed_figures_close", "float_round_to_nearest", "printed_is_nearest_decimal", "exit0_report_is_fold_over_delivered"]
LEAN_FILES = ["Rbp/Model/Callbacks.lean", "Rbp/Model/Run.lean", "Rbp/Model/F64.lean", "Rbp/Proofs/Stats.lean", "Rbp/Proofs/F64.lean"]
RULE = ("black-box `simplestats` vs the whole-program Lean model: every integer figure compared exactly; every printed float p with d decimals must satisfy |p - q| <= 0.5*10^-d (+1e-12 relative) for the model's exact rational q "
        "AND equal, character for character, the model's rendering of the same figure (Model/F64.lean: correctly rounded binary64 conversion / division / multiplication, `{:.k}` = round-half-even of the exact binary value, NaN for 0/0); "
        "families for that: values beyond 2^53, volumes up to 2^64, quotients with exact decimal ties (x.xx5), ranges without transactions; the type table compared as a set (count, first height, first txid) and its shares numerically. Chains: all script types, non-monotonic timestamps, ties for both maxima, coinbases above/below/at the subsidy, coinbase-shaped transactions at any position of a block (and two-input look-alikes), "
        "heights across the 210000 halving boundary (sparse indexes), size prefixes and timestamp gaps whose sums exceed 2^32 (the size prefix is not validated, so 3 blocks with prefix 0x90000000 suffice). Hook `mean` on u32 lists incl. sums beyond 2^32, hook `basereward`. "
        "non-trivial = at least 2 blocks; distinct = distinct scenarios / requests")
ASSUMPTIONS = ["sum of output values < 2^64; heights < 64*210000; timestamps > 0 (the code's `no previous block` test)"]

CMP = [bb.cmp_exit, bb.cmp_stats]


def hook_part(ctx, r):
    reqs = [""]
    for _ in range(ctx.n(200, 3000)):
        n = r.choice([1, 2, 3, 5, 100])
        reqs.append(" ".join(str(r.choice([0, 1, 600, r.randrange(1 << 20), r.randrange(1 << 32), (1 << 32) - 1, 0x90000000])) for _ in range(n)))
    reqs += ["4294967295 1", "2147483648 2147483648", "2415919104 2415919104 2415919104", " ".join(["4000000000"] * 7)]
    impl = ctx.hook("mean", reqs)
    model = ctx.model("mean", reqs)
    for q, a, b in zip(reqs, impl, model):
        ctx.mark(("mean", q), len(q.split()) > 1)
        ctx.families["hook-mean"] += 1
        ok = False
        if a != "PANIC":
            num, den = b.split("/")
            qv = Fraction(int(num), int(den))
            try:
                ok = abs(Fraction(a) - qv) <= abs(qv) * Fraction(1, 10**12) + Fraction(1, 10**9)
            except ValueError:
                ok = False
        if not ok:
            ctx.disagree("hook-mean", "mean " + q[:200], a, b, True, {"full_request": q, "cmd": "mean"})
    ctx.add_sample({"request": "mean " + reqs[-1], "impl": impl[-1], "model": model[-1]})
    reqs = [str(h) for h in [0, 1, 209999, 210000, 419999, 420000, 630000, 13439999, 6930000, 13230000] + [r.randrange(13440000) for _ in range(100)]]
    impl = ctx.hook("basereward", reqs)
    model = ctx.model("basereward", reqs)
    for q, a, b in zip(reqs, impl, model):
        ctx.mark(("basereward", q), True)
        ctx.families["hook-basereward"] += 1
        if a != b:
            ctx.disagree("hook-basereward", "basereward " + q, a, b, True, {"full_request": q, "cmd": "basereward"})


def correspondence(ctx):
    r = ctx.sub_rnd("c15")
    hook_part(ctx, r)
    scns = []
    for i in range(ctx.n(50, 500)):
        coin = K.COINS[i % 8]
        if i % 3 == 0:
            blocks = GH.random_history(r, coin, r.randrange(2, 9))
        else:
            blocks = GC.gen_chain(r, coin, r.randrange(2, 10), max_txs=r.choice([1, 4]), max_io=r.choice([2, 5]), auxpow_mix=False)
        s = K.Scenario(coin=coin, callback="simplestats")
        first = r.choice([0, 0, 0, 209998, 419997, 6929998]) if i % 5 == 0 else 0
        GC.simple_layout(s, blocks, first_height=first, per_file=r.choice([None, 2]))
        s.start = first
        if i % 4 == 1:
            s.start = first + r.randrange(0, len(blocks))
            s.stop = r.choice([None, s.start + 1 + r.randrange(len(blocks))])
        s.meta = {"i": i, "first": first}
        scns.append(s)
    # coinbase-shaped transactions anywhere in the block (fees are defined per coinbase, not per first transaction)
    for k in range(ctx.n(10, 60)):
        coin = K.COINS[k % 8]
        blocks = GC.gen_chain(r, coin, r.randrange(2, 6), max_txs=3, max_io=2, auxpow_mix=False)
        for h, b in enumerate(blocks):
            extra = K.Tx([(b"\0" * 32, 0xffffffff, bytes([2, h, k & 255]), 0xffffffff)], [(GC.subsidy(h) + r.randrange(1, 10**6), GC.spk(r, coin, "p2pkh")), (5, GC.spk(r, coin, "p2sh"))])
            pos = r.choice([0, 1, len(b.txs)])
            b.txs.insert(pos, extra)
            if r.random() < 0.3:
                b.txs.append(K.Tx([(b"\0" * 32, 0xffffffff, b"\x01\x07", 0xffffffff), (GC.rb(r, 32), 0, b"", 1)], [(GC.subsidy(h) + 777, GC.spk(r, coin, "p2pkh"))]))   # 2 inputs: not a coinbase
        GH.link(blocks)
        s = K.Scenario(coin=coin, callback="simplestats")
        GC.simple_layout(s, blocks)
        s.meta = {"extra-coinbase": k}
        scns.append(s)
    # a coinbase is a transaction with exactly one input naming the null outpoint — whatever its scriptSig (empty, one byte, 101 or
    # 100 000 bytes) and whatever the block version: its first-output value above the subsidy counts as fee
    for k, sig in enumerate([b"", b"\x01", b"\x00\x00", b"\x07" * 100, b"\x07" * 101, b"\x07" * 150, b"\x07" * 100000, b"\x03\xaa\xbb"]):
        coin = K.COINS[k % 8]
        blocks = []
        for h in range(3):
            cbt = K.Tx([(b"\0" * 32, 0xffffffff, sig if h > 0 else b"\x02\x00\x00", 0xffffffff)], [(GC.subsidy(h) + 12345 + h, GC.spk(r, coin, "p2pkh"))])
            blocks.append(K.Block([cbt, K.Tx([(GC.rb(r, 32), 0, b"\x01\x01", 1)], [(5, GC.spk(r, coin, "p2sh"))])], time=1000 + 600 * h, version=r.choice([1, 2, 4])))
        GH.link(blocks)
        s = K.Scenario(coin=coin, callback="simplestats")
        GC.simple_layout(s, blocks)
        s.meta = {"coinbase-sig-len": len(sig)}
        scns.append(s)
    # blocks holding a single transaction stored in the segwit serialisation (marker, flag, witness): its size figure is the
    # witness-stripped one, not what the block's length prefix suggests
    for k in range(ctx.n(4, 20)):
        coin = ["bitcoin", "litecoin", "testnet3", "dogecoin"][k % 4]
        blocks = []
        for h in range(4):
            cbt = K.Tx([(b"\0" * 32, 0xffffffff, bytes([3, h, 1, 1]), 0xffffffff)], [(GC.subsidy(h), GC.spk(r, coin, "p2pkh")), (0, b"\x6a\x24\xaa\x21\xa9\xed" + GC.rb(r, 32))])
            if h in (1, 3) or k % 2:
                cbt.segwit = (1, 1, [[GC.rb(r, 32)] + ([GC.rb(r, r.choice([100, 3000]))] if h == 3 else [])])
            txs = [cbt]
            if h == 2 and k % 2 == 0:
                txs.append(K.Tx([(GC.rb(r, 32), 0, GC.rb(r, 90), 1)], [(5, GC.spk(r, coin, "p2pkh"))]))
            blocks.append(K.Block(txs, time=1000 + 600 * h))
        GH.link(blocks)
        s = K.Scenario(coin=coin, callback="simplestats")
        GC.simple_layout(s, blocks)
        s.meta = {"lone-segwit-coinbase": k}
        scns.append(s)
    # ties for both maxima: identical-value / identical-size txs in different blocks
    for k in range(ctx.n(6, 40)):
        out = (12345, GC.spk(r, "bitcoin", "p2pkh"))
        blocks = []
        for h in range(4):
            cb = GH.coinbase(h, [(1, GC.spk(r, "bitcoin", "p2pkh"))])
            t1 = K.Tx([(GC.rb(r, 32), 0, b"\x01\x01", 1)], [out, (0, b"\x6a\x01\x42")])
            t2 = K.Tx([(GC.rb(r, 32), 1, b"\x01\x02", 1)], [out, (0, b"\x6a\x01\x43")])
            blocks.append(K.Block([cb, t1, t2], time=1000 + h * r.choice([600, 0, 1])))
        GH.link(blocks)
        s = K.Scenario(coin="bitcoin", callback="simplestats")
        GC.simple_layout(s, blocks)
        s.meta = {"ties": k}
        scns.append(s)
    # sums beyond 2^32: unvalidated size prefixes, and timestamp gaps
    for k in range(ctx.n(4, 20)):
        blocks = GC.gen_chain(r, "bitcoin", r.randrange(3, 6), max_txs=1, segwit=False)
        t = 1
        for b in blocks:
            b.time = t
            t = min(0xffffffff, t + r.choice([0x7fffffff, 0x60000000, 0x90000000]))
        GH.link(blocks)
        s = K.Scenario(coin="bitcoin", callback="simplestats")
        pos = 0
        name = K.blkname(0)
        for h, b in enumerate(blocks):
            raw = b.enc()
            off = s.place_block(name, pos, raw, size_field=r.choice([0x90000000, 0xffffffff, 0x80000000]))
            pos = off + len(raw)
            s.kvs.append(K.record(b.hash(), h, K.ACTIVE, len(b.txs), 0, off, b.header(), undo=1))
        s.meta = {"big-sums": k}
        scns.append(s)
    # floating-point figures at magnitudes where binary64 is inexact (values beyond 2^53, volumes up to 2^64), at exact decimal ties
    # (x.xx5 with an exactly representable quotient: round-half-even), and the 0/0 = NaN figures of a range without transactions
    for k in range(ctx.n(16, 120)):
        coin = K.COINS[k % 8]
        nb = r.randrange(1, 6)
        blocks = []
        budget = 2 ** 64 - 1
        for h in range(nb):
            kind = k % 4
            if kind == 3 and h > 0:
                blocks.append(K.Block([], time=2000 + 600 * h))          # no transactions at all
                continue
            if kind == 0:
                vals = [r.randrange(2 ** 53, 2 ** 60) for _ in range(r.randrange(1, 4))]
            elif kind == 1:
                vals = [min(budget // (2 * nb), r.choice([2 ** 63 // nb, 2 ** 62 + 1, 10 ** 18 + 1]))]
            else:
                # sums divisible into eighths: quotients like n + 1/8, n + 3/8, n + 5/8 print with a tie at the second decimal
                m = r.choice([8, 16, 40, 200])
                vals = [10 ** 8 * r.randrange(1, 50) * m // 8 + 10 ** 8 // 8 * r.randrange(8)] + [0] * (m - 1)
            vals = [v for v in vals if v <= budget]
            budget -= sum(vals)
            outs = [(v, GC.spk(r, coin, r.choice(["p2pkh", "p2sh", "opreturn"]))) for v in vals] or [(0, GC.spk(r, coin, "p2pkh"))]
            txs = [GH.coinbase(h, outs)]
            for _ in range(r.randrange(0, 3)):
                txs.append(K.Tx([(GC.rb(r, 32), 0, b"\x01\x01", 1)] * r.randrange(1, 4), [(0, GC.spk(r, coin, "p2pkh"))] * r.randrange(1, 8)))
            blocks.append(K.Block(txs, time=2000 + h * r.choice([600, 37, 45, 15])))
        GH.link(blocks)
        s = K.Scenario(coin=coin, callback="simplestats")
        GC.simple_layout(s, blocks)
        if k % 4 == 3 and nb > 1:
            s.start = 1               # only blocks without transactions: every per-tx mean is 0/0
        s.meta = {"float-figures": k}
        scns.append(s)
    bb.check(ctx, "stats-chains", scns, CMP, nontrivial=lambda s, m: len(m["delivered"]) >= 2)
    panic_sites(ctx, r)


def panic_sites(ctx, r):
    """outside the property's domain (its hypotheses: every coinbase has an output, sums < 2^64) but inside the model: the
    dev-profile panics of on_block — `outputs[0]` of an output-less coinbase-shaped transaction, u64 overflow of tx value /
    total volume / total fees — must be the model's exit 101, and the neighbouring values just below must be exit 0"""
    scns = []
    M = (1 << 64) - 1
    def chain(mod):
        blocks = []
        for h in range(3):
            cb = GH.coinbase(h, [(50 * 10**8, GC.spk(r, "bitcoin", "p2pkh"))])
            blocks.append(K.Block([cb, K.Tx([(GC.rb(r, 32), 0, b"\x01\x01", 1)], [(7, GC.spk(r, "bitcoin", "p2pkh"))])], time=1000 + 600 * h))
        mod(blocks)
        GH.link(blocks)
        s = K.Scenario(coin="bitcoin", callback="simplestats")
        GC.simple_layout(s, blocks)
        return s
    def no_outputs(bl):
        bl[1].txs[0].outs = []
    def no_outputs_late(bl):
        bl[2].txs.append(K.Tx([(b"\0" * 32, 0xffffffff, b"\x01\x09", 0xffffffff)], []))
    def tx_value_overflow(bl):
        bl[1].txs[1].outs = [(1 << 63, b"\x51"), (1 << 63, b"\x51")]
    def tx_value_max(bl):
        bl[1].txs[1].outs = [(1 << 63, b"\x51"), ((1 << 63) - 1 - 50 * 10**8 * 2 - 7, b"\x51")]
    def volume_overflow(bl):
        bl[1].txs[1].outs = [(M - 10**10, b"\x51")]
        bl[2].txs[1].outs = [(M - 10**10, b"\x51")]
    def fee_overflow(bl):
        bl[0].txs[0].outs = [(M, b"\x51")]
        bl[1].txs[0].outs = [(M, b"\x51")]
    for name, mod in [("no-outputs", no_outputs), ("no-outputs-late", no_outputs_late), ("tx-value-overflow", tx_value_overflow), ("tx-value-max", tx_value_max),
                      ("volume-overflow", volume_overflow), ("fee-overflow", fee_overflow)]:
        s = chain(mod)
        s.meta = {"panic-site": name}
        scns.append(s)
    bb.check(ctx, "stats-panic-sites", scns, [bb.cmp_exit], nontrivial=lambda s, m: True, in_domain=lambda s, m: False)


def replay(ctx, rep, corpus=None):
    d = rep.get("failing_input", rep)
    if d.get("cmd") == "mean":
        q = d["full_request"]
        a, b = ctx.hook("mean", [q])[0], ctx.model("mean", [q])[0]
        ctx.mark(q, True)
        num, den = b.split("/")
        if a == "PANIC" or abs(Fraction(a) - Fraction(int(num), int(den))) > Fraction(1, 10**6):
            ctx.disagree("replay", "mean " + q, a, b, True, {"full_request": q, "cmd": "mean"})
    else:
        bb.replay_scenario(ctx, rep, CMP)
