"""C09 — --verify accepts exactly the chains whose merkle roots and prev-hash links hold."""
import copy
from .. import bb, chain as K, gen_chain as GC, genesis, build

NAMESPACE = "Rbp.Props.C09"
REQUIRED = ["merkle_eq_spec", "tamper_gives_collision", "verify_iff", "genesis_table_published", "verify_run_decides", "rejected_no_final", "verified_run_only_delivers_accepted_blocks", "genesis_header_hashes_to_published_hash"]
LEAN_FILES = ["Rbp/Model/Merkle.lean", "Rbp/Model/Run.lean"]
RULE = ("(a) hook `merkle`: the real utils::merkle_root vs the Lean loop on hash lists of every length 1..64 (exhaustive shapes) and sampled lengths up to 600, plus the empty list; "
        "(b) black-box --verify: consistent chains (1..N txs per block, every --start) must pass, real reconstructed genesis blocks of bitcoin/testnet3/litecoin/dogecoin as positive genesis case, "
        "generated block 0 on all 8 coins as negative case; (c) tampering: single-bit flips in the merkle field (all 256 bits), prev field (all 256 bits) and txid-covered tx bytes (sampled in quick, every bit in thorough) "
        "of a processed block, and swaps of a block for a foreign one: each must fail at that height with exit != 0, `Error at height N`, no final-named file. non-trivial = verify on and >= 1 block processed")
ASSUMPTIONS = ["blocks have >= 1 tx (an empty tx list panics in merkle_root: outside the property)", "detection of tampering is relative to collision resistance (theorem tamper_gives_collision)"]

# the property demands a non-zero exit and no final-named file; a corrupted count byte may end in a panic (exit 101) instead of
# `Error at height N` (exit 1): both are failures, the height is compared when the implementation reports one
CMP = [bb.cmp_exit_class, bb.cmp_errheight_if_reported, bb.cmp_names, bb.cmp_rows]


def legacy_scripts(r, coin):
    return GC.spk(r, coin, r.choice(["p2pkh", "p2sh", "opreturn"]))


def hook_merkle(ctx, r):
    reqs = [""]
    for n in list(range(1, 200)) + [r.randrange(200, 600) for _ in range(ctx.n(6, 60))] + [255, 256, 257, 258, 260, 264, 272, 288, 320, 321, 384, 385, 511, 512, 513]:
        reqs.append(" ".join(GC.rb(r, 32).hex() for _ in range(n)))
    impl = ctx.hook("merkle", reqs)
    model = ctx.model("merkle", reqs)
    for q, a, b in zip(reqs, impl, model):
        n = len(q.split())
        ctx.mark(("merkle", q[:64], n), n > 1)
        ctx.families["hook-merkle"] += 1
        if a != b:
            ctx.disagree("hook-merkle", "merkle <%d hashes> %s…" % (n, q[:130]), a, b, n >= 1, {"full_request": q})
    ctx.add_sample({"request": "merkle " + reqs[3][:140] + "…", "impl": impl[3], "model": model[3]})


def must_fail_at(ctx, family, scns, h_of):
    impl, model = bb.check(ctx, family, scns, CMP, nontrivial=lambda s, m: True)
    for s, r, m in zip(scns, impl, model):
        h = h_of(s)
        if r.exit == 0 or (r.err_height() is not None and r.err_height() != h) or r.final_files():
            ctx.disagree(family + ":must-fail", bb.describe(s), {"exit": r.exit, "err_height": r.err_height(), "final_files": sorted(r.final_files())},
                         {"expected": "exit != 0, Error at height %d, no final-named file" % h}, True, {"scenario": bb.scenario_dump(s), "observable": "tamper-detected"})


def correspondence(ctx):
    r = ctx.sub_rnd("c09")
    hook_merkle(ctx, r)
    coins = {c[0]: c[4] for c in build.gen_consts()}
    gen = genesis.validated(coins)
    ctx.notes.append("self-validated real genesis blocks: " + ",".join(sorted(gen)))
    # (b) consistent chains
    scns = []
    for i in range(ctx.n(30, 300)):
        coin = K.COINS[i % 8]
        ntx = r.choice([0, 1, 2, 3, 4, 6, 7, 8, 15, 16, 17, 31, 33, 64, 100, 65, 66, 68, 72, 80, 96, 127, 128, 129, 130, 192, 193] + ([257, 600, 1025] if ctx.thorough() else []))
        n = r.randrange(2, 7)
        blocks = GC.gen_chain(r, coin, n, max_txs=1, big=ntx, max_io=2, genesis=gen.get(coin) if i % 2 == 0 else None)
        s = K.Scenario(coin=coin, callback=r.choice(["csvdump", "csvdump", "balances"]), verify=True)
        GC.simple_layout(s, blocks, per_file=r.choice([None, 2]))
        s.start = 0 if (coin in gen and i % 2 == 0) else r.randrange(1, n)
        s.stop = r.choice([None, None, s.start + 1 + r.randrange(n)])
        s.meta = {"i": i, "ntx": ntx}
        scns.append(s)
    impl, model = bb.check(ctx, "consistent", scns, CMP)
    for s, res, m in zip(scns, impl, model):
        if res.exit != 0:
            ctx.disagree("consistent:must-pass", bb.describe(s), {"exit": res.exit, "stderr": res.stderr.decode(errors="replace")[-300:]}, {"expected": "consistent chain is accepted"}, True, {"scenario": bb.scenario_dump(s), "observable": "consistent-accepted"})
    # consistent blocks containing the SAME transaction more than once, also at sibling positions of the merkle tree ([cb,t1,t2,t2],
    # [cb,t1,t2,t3,t4,t5,t4,t5]): the header's root IS the Bitcoin merkle root of the txids, so the chain must be accepted
    scns = []
    for k in range(ctx.n(8, 40)):
        coin = K.COINS[k % 8]
        blocks = GC.gen_chain(r, coin, 4, max_txs=1, max_io=2, genesis=gen.get(coin) if k % 2 == 0 else None, segwit=False, auxpow_mix=False)
        for b in blocks[1:]:
            ts = [K.Tx([(GC.rb(r, 32), q, b"\x01\x01", 1)], [(q + 1, GC.spk(r, coin, "p2pkh"))]) for q in range(5)]
            shape = r.choice([[0, 1, 1], [0, 1, 2, 3, 4, 3, 4], [0, 0], [0, 1, 0, 1], [0, 1, 2, 2], [0, 1, 2, 3, 3, 3, 3]])
            b.txs += [ts[q] for q in shape]
        prev = blocks[0].hash()
        for b in blocks[1:]:
            b.prev = prev
            b.merkle_root = None
            prev = b.hash()
        s = K.Scenario(coin=coin, callback="csvdump", verify=True)
        GC.simple_layout(s, blocks)
        s.start = 0 if (coin in gen and k % 2 == 0) else 1
        s.meta = {"dup-siblings": k}
        scns.append(s)
    impl, model = bb.check(ctx, "consistent-duplicates", scns, CMP)
    for s, res, m in zip(scns, impl, model):
        if res.exit != 0:
            ctx.disagree("consistent:must-pass", bb.describe(s), {"exit": res.exit, "stderr": res.stderr.decode(errors="replace")[-300:]}, {"expected": "consistent chain is accepted"}, True, {"scenario": bb.scenario_dump(s), "observable": "consistent-accepted"})
    # the genesis check is on the BYTES read for height 0: a real genesis block (index key = the published hash) with one header bit
    # flipped outside the merkle field — its merkle relation intact — or with any transaction bit flipped, must be rejected
    for coin, gblock in sorted(gen.items()):
        blocks = GC.gen_chain(r, coin, 3, max_txs=1, genesis=gblock, auxpow_mix=False)
        graw = gblock.enc()
        hdrbits = [(p, b) for p in list(range(0, 36)) + list(range(68, 80)) for b in range(8)]
        txb = [(p, b) for p in range(81, len(graw)) for b in range(8)]
        pos = hdrbits + txb if ctx.thorough() else [hdrbits[r.randrange(len(hdrbits))] for _ in range(ctx.n(10, 0))] + [(4, 0), (35, 7), (0, 0), (68, 0), (79, 7)] + [txb[r.randrange(len(txb))] for _ in range(ctx.n(4, 0))]
        scns = []
        for (p, bit) in pos:
            s = K.Scenario(coin=coin, callback="csvdump", verify=True)
            GC.simple_layout(s, blocks)
            name = K.blkname(0)
            segs = s.files[name]["segs"]
            for k, (off, data) in enumerate(segs):
                if data[8:] == graw:
                    d = bytearray(data)
                    d[8 + p] ^= 1 << bit
                    segs[k] = (off, bytes(d))
            s.meta = {"genesis-flip": "%s %d.%d" % (coin, p, bit)}
            scns.append(s)
        must_fail_at(ctx, "genesis-tamper", scns, lambda s: 0)
    # negative genesis on all coins
    scns = []
    for coin in K.COINS:
        blocks = GC.gen_chain(r, coin, 3, max_txs=1)
        s = K.Scenario(coin=coin, callback="csvdump", verify=True)
        GC.simple_layout(s, blocks)
        s.meta = {"neg-genesis": coin}
        scns.append(s)
    must_fail_at(ctx, "foreign-genesis", scns, lambda s: 0)
    # (c) tampering on a small legacy chain
    coin = "bitcoin"
    blocks = GC.gen_chain(r, coin, 4, max_txs=2, max_io=2, segwit=False, odd_widths=False, scripts=legacy_scripts)
    target = 2
    raw = blocks[target].enc()
    hdr_len = 80
    positions = [(4 + i // 8, i % 8) for i in range(256)]             # prev field
    positions += [(36 + i // 8, i % 8) for i in range(256)]           # merkle field
    txbits = [(p, b) for p in range(hdr_len + 1, len(raw)) for b in range(8)]
    positions += txbits if ctx.thorough() else [txbits[r.randrange(len(txbits))] for _ in range(ctx.n(200, 0))]
    scns = []
    for (p, bit) in positions:
        s = K.Scenario(coin=coin, callback="csvdump", verify=True, start=1)
        GC.simple_layout(s, blocks)
        # flip one bit of the stored block (the index still names the original hash)
        name = K.blkname(0)
        segs = s.files[name]["segs"]
        for k, (off, data) in enumerate(segs):
            if data[8:] == raw:
                d = bytearray(data)
                d[8 + p] ^= 1 << bit
                segs[k] = (off, bytes(d))
        s.meta = {"flip": "%d.%d" % (p, bit)}
        scns.append(s)
    must_fail_at(ctx, "bit-flip", scns, lambda s: target)
    # the FIRST processed block of a run that starts above 0: its prev-hash is checked against the indexed hash of height start-1
    scns = []
    for st in (1, 2, 3):
        for bit in ([(4 + i // 8, i % 8) for i in range(256)] if ctx.thorough() else [(4, 0), (35, 7), (20, 3)] + [(4 + r.randrange(32), r.randrange(8)) for _ in range(ctx.n(5, 0))]):
            s = K.Scenario(coin=coin, callback=r.choice(["csvdump", "balances"]), verify=True, start=st)
            GC.simple_layout(s, blocks)
            raw_st = blocks[st].enc()
            name = K.blkname(0)
            segs = s.files[name]["segs"]
            for k, (off, data) in enumerate(segs):
                if data[8:] == raw_st:
                    d = bytearray(data)
                    d[8 + bit[0]] ^= 1 << bit[1]
                    segs[k] = (off, bytes(d))
            s.meta = {"flip-first": "%d %d.%d" % (st, bit[0], bit[1])}
            scns.append(s)
    must_fail_at(ctx, "bit-flip-first-processed", scns, lambda s: s.start)
    # the same on the LAST processed block — the tip of the chain, or height `--end` — where a flip that enlarges a count or a
    # length makes the parser run into the end of the file: that, too, is a failure of this run, never `no more blocks`
    for last_kind in ("tip", "end"):
        tgt = 3 if last_kind == "tip" else 2
        raw = blocks[tgt].enc()
        # enlarging flips: bit 7 of every small byte (counts, lengths and push opcodes are small values), bit 6 of every fifth byte
        hi = [(p, 7) for p in range(hdr_len, len(raw)) if raw[p] <= 0x4b] + [(p, 6) for p in range(hdr_len, len(raw), 5)]
        allb = [(p, b) for p in range(hdr_len, len(raw)) for b in range(8)]
        pos2 = allb if ctx.thorough() else hi + [allb[r.randrange(len(allb))] for _ in range(ctx.n(60, 0))]
        scns = []
        for (p, bit) in pos2:
            s = K.Scenario(coin=coin, callback=r.choice(["csvdump", "csvdump", "unspentcsvdump"]), verify=True, start=1)
            if last_kind == "end":
                s.stop = tgt
            GC.simple_layout(s, blocks)
            name = K.blkname(0)
            segs = s.files[name]["segs"]
            for k, (off, data) in enumerate(segs):
                if data[8:] == raw:
                    d = bytearray(data)
                    d[8 + p] ^= 1 << bit
                    segs[k] = (off, bytes(d))
            s.meta = {"flip-last": "%s %d.%d" % (last_kind, p, bit)}
            scns.append(s)
        # a flip inside the transaction-count / padding that leaves every txid and the header untouched cannot be detected and is
        # not in the property's domain; positions >= hdr_len + 1 are transaction data; position hdr_len is the tx count
        must_fail_at(ctx, "bit-flip-last:" + last_kind, scns, lambda s, tgt=tgt: tgt)
    # a count or length of one transaction re-encoded in a WIDER CompactSize form (19 -> fd 19 00), header left alone: the transaction's
    # bytes, hence its id, changed, so the stored merkle root no longer matches and the block must be rejected
    import copy
    scns = []
    for tgt in (1, 2, 3):
        for ti in range(len(blocks[tgt].txs)):
            for what in ("ins", "outs", "script-in", "script-out"):
                t0 = blocks[tgt].txs[ti]
                if what == "script-out" and not t0.outs:
                    continue
                t = copy.copy(t0)
                t.w_script = dict(t0.w_script)
                if what == "ins":
                    t.w_in = 3
                elif what == "outs":
                    t.w_out = r.choice([3, 5])
                elif what == "script-in":
                    t.w_script[("i", 0)] = 3
                else:
                    t.w_script[("o", 0)] = r.choice([3, 9])
                b = copy.copy(blocks[tgt])
                b.merkle_root = blocks[tgt].mroot()       # the header keeps the root of the ORIGINAL transactions
                b.txs = list(blocks[tgt].txs)
                b.txs[ti] = t
                if b.header() != blocks[tgt].header() or b.enc() == blocks[tgt].enc():
                    continue
                chain2 = list(blocks)
                chain2[tgt] = b
                sc = K.Scenario(coin=coin, callback="csvdump", verify=True, start=1)
                GC.simple_layout(sc, chain2)
                sc.meta = {"re-encoded": "%d/%d/%s" % (tgt, ti, what)}
                scns.append(sc)
    must_fail_at(ctx, "re-encoded-transaction", scns, lambda s: int(s.meta["re-encoded"].split("/")[0]))
    # a long chain with one bit of a prev-hash flipped at a height that is a power of two (4096, 16384 — where periodic work, if any,
    # would fall), as a middle block and as the first processed block
    long_blocks = GC.long_chain(r, "bitcoin", 16390 if ctx.thorough() else 4100)
    scns = []
    for (hh, st) in [(4096, 1), (4096, 4096), (2048, 2000)] if not ctx.thorough() else [(4096, 4096), (16384, 1), (16384, 16384)]:
        sc = K.Scenario(coin="bitcoin", callback=["simplestats", "csvdump"][hh % 3 == 0], verify=True, start=st)
        GC.simple_layout(sc, long_blocks, per_file=5000)
        rawh = long_blocks[hh].enc()
        name = K.blkname(hh // 5000)
        segs = sc.files[name]["segs"]
        for k, (off, data) in enumerate(segs):
            if data[8:] == rawh:
                d = bytearray(data)
                d[8 + 4 + (hh % 32)] ^= 1 << (hh % 7)
                segs[k] = (off, bytes(d))
        sc.meta = {"long-flip": "%d from %d" % (hh, st)}
        scns.append(sc)
    must_fail_at(ctx, "long-chain-prev-flip", scns, lambda s: int(s.meta["long-flip"].split()[0]))
    # block swapped for a foreign (internally consistent) one
    scns = []
    for k in range(ctx.n(10, 60)):
        blocks = GC.gen_chain(r, coin, 5, max_txs=2, segwit=False, scripts=legacy_scripts)
        foreign = GC.gen_chain(r, coin, 5, max_txs=2, segwit=False, scripts=legacy_scripts)
        t = r.randrange(1, 5)
        mixed = list(blocks)
        mixed[t] = foreign[t]
        s = K.Scenario(coin=coin, callback=r.choice(["csvdump", "unspentcsvdump"]), verify=True, start=r.randrange(1, t + 1))
        GC.simple_layout(s, mixed)
        # the index keeps the hashes of the original chain for every height but stores the foreign block's bytes at t
        s.kvs = []
        s.files = {}
        GC.simple_layout(s, mixed)
        for i, (key, val) in enumerate(s.kvs):
            if i == t:
                s.kvs[i] = K.record(blocks[t].hash(), t, K.ACTIVE, len(mixed[t].txs), 0, _off(s, mixed, t), blocks[t].header(), undo=1)
        s.meta = {"swap": t, "k": k}
        scns.append(s)
    must_fail_at(ctx, "block-swap", scns, lambda s: s.meta["swap"])
    # a foreign BRANCH: the blocks stored at heights t-1 and t are a sibling of the indexed block t-1 (same parent, valid merkle
    # root: it passes every check at t-1) and that sibling's child.  The child's prev-hash is the sibling's hash, not the hash
    # the index records for height t-1, so the run must fail at height t — the check is against the INDEXED hash, not against
    # whatever block happened to be read before
    scns = []
    for k in range(ctx.n(8, 40)):
        blocks = GC.gen_chain(r, coin, 6, max_txs=2, segwit=False, scripts=legacy_scripts)
        t = r.randrange(2, 6)
        alt = GC.gen_chain(r, coin, 6, max_txs=2, segwit=False, scripts=legacy_scripts)
        sib, child = alt[t - 1], alt[t]
        sib.prev = blocks[t - 2].hash()
        sib.merkle_root = None
        child.prev = sib.hash()
        child.merkle_root = None
        mixed = list(blocks)
        mixed[t - 1], mixed[t] = sib, child
        s = K.Scenario(coin=coin, callback="csvdump", verify=True, start=r.randrange(1, t))
        GC.simple_layout(s, mixed)
        for i in (t - 1, t):
            s.kvs[i] = K.record(blocks[i].hash(), i, K.ACTIVE, len(mixed[i].txs), 0, _off(s, mixed, i), blocks[i].header(), undo=1)
        s.meta = {"branch": t, "k": k}
        scns.append(s)
    must_fail_at(ctx, "foreign-branch", scns, lambda s: s.meta["branch"])


def _off(s, blocks, t):
    pos = 0
    for i, b in enumerate(blocks):
        if i == t:
            return pos + 8
        pos += 8 + len(b.enc())


def replay(ctx, rep, corpus=None):
    d = rep.get("failing_input", rep)
    if d.get("full_request") is not None and not d.get("scenario"):
        q = d["full_request"]
        a, b = ctx.hook("merkle", [q])[0], ctx.model("merkle", [q])[0]
        ctx.mark(q, True)
        if a != b:
            ctx.disagree("replay", "merkle " + q[:200], a, b, True, {"full_request": q})
    else:
        bb.replay_scenario(ctx, rep, CMP)
