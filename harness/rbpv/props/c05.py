"""C05 — Bitcoin/testnet3: every output script gets the reference type and address."""
from .. import gen_scripts as G, scriptcheck as S

NAMESPACE = "Rbp.Props.C05"
REQUIRED = ["p2pkh_iff_template", "p2sh_iff_template", "template_verdicts", "opreturn_unspendable_no_address", "instructions_roundtrip", "primitives_match_published_vectors"]
LEAN_FILES = ["Rbp/Model/Script.lean", "Rbp/Model/Addr.lean", "Rbp/Proofs/Templates.lean", "Rbp/Proofs/OpReturn.lean", "Rbp/Proofs/Vectors.lean"]
RULE = ("script verdicts (type tag, address) of the real eval_from_bytes vs the Lean model on version bytes 00 and 6f; always-on boundary families "
        "(11 canonical templates with their truncations / one-byte extensions / one-byte substitutions — exhaustive in thorough —, 256 leading opcodes x 5 tails, "
        "witness versions x program lengths 0..42 incl. off-by-one lengths, m-of-n grid 0..17 incl. wrong/non-pushnum n) + seeded structure-directed bulk with 35% "
        "one-step mutations; non-trivial = non-empty script typed other than NotRecognised by the model, or a mutation/neighbour of a template; distinct (version, script) pairs")
ASSUMPTIONS = ["every byte string is in the property's domain", "rust-bitcoin 0.32.5 predicates/Address Display are modelled by hand and compared on every case"]


def project(t):
    return tuple(t[:2])


def correspondence(ctx):
    cases = S.cases_for(ctx, 30000, 600000)
    S.run(ctx, cases, lambda fam, i: G.BTC, project)
    # the same verdicts where the property observes them: scripts as transaction outputs through read_block -> eval_script,
    # incl. scripts longer than 10 000 bytes (boundary families in full, a sample of the bulk)
    r = ctx.sub_rnd("out-path")
    sub = [c for i, c in enumerate(cases) if len(c[1]) < 2000 and (i < 5000 or i % 7 == 0)][:ctx.n(3500, 80000)]
    sub += list(S.long_scripts(r, ctx.thorough()))
    S.run_via_outputs(ctx, sub, lambda fam, i: ["bitcoin", "testnet3"] if i % 2 == 0 or fam.startswith("long") else [["bitcoin", "testnet3"][i % 3 % 2]])
    S.address_chains(ctx, ["bitcoin", "testnet3"])


def replay(ctx, rep, corpus=None):
    if rep.get("failing_input", rep).get("scenario"):
        from .. import bb
        return bb.replay_scenario(ctx, rep, bb.comparators_for(rep.get("failing_input", rep)["scenario"]["callback"]))
    if rep.get("failing_input", rep).get("via") == "block":
        return S.replay_via_outputs(ctx, rep)
    S.replay_one(ctx, rep, project)


def shrink(ctx, d):
    if d.get("via") == "block" or d.get("scenario"):
        return d
    return S.shrink_script(ctx, d, project)
